(** Function calls (Model/GenCall.v) on the executable 6502 semantics with a NON-EMPTY program
    table: [Sem.run cfg prog ...].  [JSR f] looks [f] up in [prog] ([find_func]), pushes two marker
    bytes on the hardware stack (the call depth [d = length stack + 1], then [255 - d]; cells
    [256 + S] and [256 + byte (S - 1)] of [mem], S going down by two), and runs the callee's lines
    from 0 with the caller's frame [(fname, c, pc + 1)] pushed on [stack]; [RTS] pulls two bytes,
    faults unless they are the markers of the innermost frame, and resumes the caller.  Falling
    off the end of a called function faults: every function of [prog] is its body followed by the
    RTS line of the harness ([harness_fun], [prog_of]).

    [goes fname c stack pc s pc' s']: inside the function [fname] with lines [c], under ANY call
    stack [stack], [Sem.run] goes from line [pc] in state [s] to line [pc'] in state [s'], the
    call stack being [stack] again (calls made on the way have returned).
    [call_rule]        THE CALL RULE, for an arbitrary [stack] (any depth): if the callee, entered
                       with the markers pushed, goes to one of its RTS lines in a state whose S is
                       the S at entry and where the two marker cells are intact, the [JSR] goes to
                       the next line of the caller in that state with S restored to the caller's S.
                       Every register and every memory cell is as the callee left it; the two
                       cells [256 + S], [256 + byte (S - 1)] below the caller's S hold the markers.
    [call_rule_raw]    the same with the two [pull]s explicit
    [fun_ok], [call_seg]   a callee specification for all stacks and entry states, and the rule
                       for it: position independent ([runs_seg]: inside any code, any stack)
    [call_tpl_correct] arguments with specifications ([expr_ok]: value in A, writes confined to a
                       set of cells outside the stack page, S, X, Y unchanged): the parameter
                       cells hold the argument values, A holds the result of the callee; the call
                       is again an [expr_ok], so calls nest as arguments
    and the closed forms for the listing statements, on [calls_to]: [Sem.run] on main with the
    program table, from an empty call stack, halts normally; S after = S before for ALL
    byte-valued states (the stack pointer wraps inside page 1 consistently, no lower bound on S
    is needed); the variables and parameter cells are anywhere outside the stack page
    ([off_stack]: the frame conditions exclude page 1, where the markers are written). *)
From Coq Require Import String Ascii List Bool Arith NArith ZArith Lia ZifyBool.
From CC Require Import Base.Str Asm.Lines M6502.Isa Asm.Operand M6502.Sem
  Model.OptSem Proofs.OptSemFacts Model.CheckBranches Model.CbSpec
  Model.GenTemplates Proofs.GenTemplatesFacts Proofs.GenCmp16Facts Model.GenLoops
  Proofs.GenLoopsFacts Model.GenTables Proofs.GenTablesFacts Model.GenIf Proofs.GenIfFacts
  Model.GenCtl Proofs.GenCtlFacts Model.GenCall.
Import ListNotations.
Open Scope string_scope.
Open Scope list_scope.
Open Scope Z_scope.

Ltac Zify.zify_post_hook ::= Z.div_mod_to_equations.

(** * Runs inside a function, under any call stack *)

Section Goes.
  Variable cfg : config.
  Variable prog : sprogram.

  Definition goes (fname : string) (c : list sline) (stack : list frame)
      (pc : nat) (s : mstate) (pc' : nat) (s' : mstate) : Prop :=
    exists N : nat, forall inl_sem ext_call fuel tr cy, exists tr' cy',
      Sem.run cfg prog inl_sem ext_call (N + fuel) fname c pc stack s tr cy
      = Sem.run cfg prog inl_sem ext_call fuel fname c pc' stack s' tr' cy'.

  Lemma goes_refl : forall fname c stack pc s, goes fname c stack pc s pc s.
  Proof. intros fname c stack pc s. exists O. intros. exists tr, cy. reflexivity. Qed.

  Lemma goes_trans : forall fname c stack pc1 s1 pc2 s2 pc3 s3,
    goes fname c stack pc1 s1 pc2 s2 -> goes fname c stack pc2 s2 pc3 s3 ->
    goes fname c stack pc1 s1 pc3 s3.
  Proof.
    intros fname c stack pc1 s1 pc2 s2 pc3 s3 (N1 & H1) (N2 & H2). exists (N1 + N2)%nat.
    intros inl_sem ext_call fuel tr cy.
    destruct (H1 inl_sem ext_call (N2 + fuel)%nat tr cy) as (tr1 & cy1 & E1).
    destruct (H2 inl_sem ext_call fuel tr1 cy1) as (tr2 & cy2 & E2).
    exists tr2, cy2. rewrite <- Nat.add_assoc, E1, E2. reflexivity.
  Qed.

  (** [stepn] (no call, no return) agrees with [Sem.run] under any call stack *)
  Lemma goes_stepn : forall fname c stack n pc s pc' s',
    stepn cfg c n pc s = Some (pc', s') -> goes fname c stack pc s pc' s'.
  Proof.
    intros fname c stack n. exists n. revert pc s pc' s' H.
    induction n as [|n IH]; intros pc s pc' s' H inl_sem ext_call fuel tr cy.
    - cbn [stepn] in H. inversion H; subst. exists tr, cy. reflexivity.
    - cbn [stepn] in H. cbn [Nat.add]. rewrite run_S.
      destruct (nth_error c pc) as [[l|m o p raw|t|]|]; try discriminate H.
      + apply (IH _ _ _ _ H).
      + destruct (exec cfg m o s) as [s1 k fl|why]; [|discriminate H].
        cbv zeta. destruct fl as [|l|f| |]; try discriminate H.
        * apply (IH _ _ _ _ H).
        * destruct (find_label l c 0) as [k'|]; [|discriminate H]. apply (IH _ _ _ _ H).
      + apply (IH _ _ _ _ H).
  Qed.

  Lemma goes_reach : forall fname c stack pc s (Q : nat -> nat -> mstate -> Prop),
    reach cfg c pc s Q -> exists n pc' s', goes fname c stack pc s pc' s' /\ Q n pc' s'.
  Proof.
    intros fname c stack pc s Q (n & pc' & s' & Hs & HQ). exists n, pc', s'.
    split; [apply (goes_stepn fname c stack n _ _ _ _ Hs)|exact HQ].
  Qed.

  (** * The call rule *)

  Definition is_rts (c : list sline) (pc : nat) : Prop :=
    exists o p raw, nth_error c pc = Some (SIns RTS o p raw).

  (** the state in which the callee is entered from [s] at call depth [d] *)
  Definition enter (d : Z) (s : mstate) : mstate := push (push s (byte d)) (byte (255 - d)).

  Theorem call_rule_raw : forall fname c stack i s f cf p raw pr s2 s3 s4,
    nth_error c i = Some (SIns JSR (OLbl f) p raw) ->
    find_func f prog = Some cf ->
    goes f cf ((fname, c, S i) :: stack) 0 (enter (Z.of_nat (length stack) + 1) s) pr s2 ->
    is_rts cf pr ->
    pull s2 = (s3, byte (255 - (Z.of_nat (length stack) + 1))) ->
    pull s3 = (s4, byte (Z.of_nat (length stack) + 1)) ->
    goes fname c stack i s (S i) s4.
  Proof.
    intros fname c stack i s f cf p raw pr s2 s3 s4 Hn Hf (N & Hg) (o' & p' & raw' & Hr) Hp1 Hp2.
    exists (S (N + 1)). intros inl_sem ext_call fuel tr cy.
    destruct (Hg inl_sem ext_call (1 + fuel)%nat (if p then EvI JSR raw :: tr else tr) (cy + 6)%N)
      as (tr1 & cy1 & E1).
    unfold enter in E1. do 2 eexists.
    cbn [Nat.add]. rewrite run_S, Hn. cbn [exec]. cbv zeta. rewrite Hf.
    rewrite <- Nat.add_assoc. eapply eq_trans; [exact E1|].
    cbn [Nat.add]. rewrite run_S, Hr. cbn [exec]. cbv zeta.
    cbn [length]. rewrite Nat2Z.inj_succ, <- Z.add_1_r.
    rewrite Hp1, Hp2, !Z.eqb_refl. cbn [andb]. reflexivity.
  Qed.

  Lemma set_sp_set_sp : forall s a b, set_sp (set_sp s a) b = set_sp s b.
  Proof. reflexivity. Qed.

  (** ** THE CALL RULE.  [s] is the state at the [JSR] (line [i] of the caller [fname] / [c], under
      the call stack [stack], any depth); the callee [f] has the lines [cf] in the program table;
      entered in [enter d s] (markers pushed, [d] the new depth) it goes to one of its RTS lines
      [pr] in a state [s2] with the S it was entered with and with the two marker cells intact.
      Then the caller goes on at line [i + 1] in [set_sp s2 (rS s)]: the state the callee left,
      with S restored. *)
  Theorem call_rule : forall fname c stack i s f cf p raw pr s2,
    nth_error c i = Some (SIns JSR (OLbl f) p raw) ->
    find_func f prog = Some cf ->
    0 <= rS s < 256 ->
    goes f cf ((fname, c, S i) :: stack) 0 (enter (Z.of_nat (length stack) + 1) s) pr s2 ->
    is_rts cf pr ->
    rS s2 = rS (enter (Z.of_nat (length stack) + 1) s) ->
    mget (mem s2) (256 + rS s) = byte (Z.of_nat (length stack) + 1) ->
    mget (mem s2) (256 + byte (rS s - 1)) = byte (255 - (Z.of_nat (length stack) + 1)) ->
    goes fname c stack i s (S i) (set_sp s2 (rS s)).
  Proof.
    intros fname c stack i s f cf p raw pr s2 Hn Hf HS Hg Hr ES Hm1 Hm2.
    assert (E2 : rS s2 = byte (byte (rS s - 1) - 1)) by (rewrite ES; reflexivity).
    apply (call_rule_raw fname c stack i s f cf p raw pr s2
             (set_sp s2 (byte (rS s - 1))) (set_sp s2 (rS s)) Hn Hf Hg Hr).
    - unfold pull. rewrite E2.
      replace (byte (byte (byte (rS s - 1) - 1) + 1)) with (byte (rS s - 1)) by (unfold byte; lia).
      rewrite Hm2. reflexivity.
    - unfold pull. cbn [rS set_sp mem].
      replace (byte (byte (rS s - 1) + 1)) with (rS s) by (unfold byte; lia).
      rewrite Hm1. reflexivity.
  Qed.
End Goes.
Print Assumptions call_rule_raw.
Print Assumptions call_rule.

(** * Position-independent segments, under any call stack *)

(** outside the hardware stack page *)
Definition off_stack (a : Z) : Prop := a < 256 \/ 512 <= a.

(** every cell outside the stack page and outside [W] is unchanged *)
Definition only_changes_off (W : list Z) (s s' : mstate) : Prop :=
  forall a, 0 <= a -> off_stack a -> ~ In a W -> mget (mem s') a = mget (mem s) a.

Lemma only_changes_off_refl : forall W s, only_changes_off W s s.
Proof. intros W s a _ _ _. reflexivity. Qed.

Lemma only_changes_off_mem : forall W s s', mem s' = mem s -> only_changes_off W s s'.
Proof. intros W s s' E a _ _ _. rewrite E. reflexivity. Qed.

Lemma only_changes_off_trans : forall W s1 s2 s3,
  only_changes_off W s1 s2 -> only_changes_off W s2 s3 -> only_changes_off W s1 s3.
Proof. intros W s1 s2 s3 H1 H2 a Ha Ho Hn. rewrite (H2 a Ha Ho Hn). apply (H1 a Ha Ho Hn). Qed.

Lemma only_changes_off_incl : forall W W' s s', (forall a, In a W -> In a W') ->
  only_changes_off W s s' -> only_changes_off W' s s'.
Proof.
  intros W W' s s' Hi H a Ha Ho Hn. apply (H a Ha Ho). intros Hin. apply Hn. apply Hi. exact Hin.
Qed.

Lemma only_changes_to_off : forall W s s', only_changes W s s' -> only_changes_off W s s'.
Proof. intros W s s' H a Ha _ Hn. apply (H a Ha Hn). Qed.

(** depends on the memory outside the stack page only *)
Definition res_off (res : mstate -> Z) : Prop :=
  forall s s', (forall a, 0 <= a -> off_stack a -> mget (mem s') a = mget (mem s) a) ->
    res s' = res s.

(** does not depend on the cells of [D] either *)
Definition val_indep (D : list Z) (val : mstate -> Z) : Prop :=
  forall s s', only_changes_off D s s' -> val s' = val s.

Lemma stepn_bytes_ok : forall cfg c n pc s pc' s',
  stepn cfg c n pc s = Some (pc', s') -> bytes_ok s -> bytes_ok s'.
Proof.
  intros cfg c. induction n as [|n IH]; intros pc s pc' s' H Hb.
  - cbn [stepn] in H. inversion H; subst. exact Hb.
  - cbn [stepn] in H.
    destruct (nth_error c pc) as [[l|m o p raw|t|]|]; try discriminate H.
    + apply (IH _ _ _ _ H Hb).
    + destruct (exec cfg m o s) as [s1 k fl|why] eqn:Ex; [|discriminate H].
      pose proof (exec_bytes_ok cfg m o s s1 k fl Ex Hb) as Hb1.
      destruct fl as [|l|f| |]; try discriminate H.
      * apply (IH _ _ _ _ H Hb1).
      * destruct (find_label l c 0) as [k'|]; [|discriminate H]. apply (IH _ _ _ _ H Hb1).
    + apply (IH _ _ _ _ H Hb).
Qed.

(** an expression: its value in A, writes confined to [W] outside the stack page (the stack page
    itself is free), S, X, Y unchanged, byte-valued again *)
Definition expr_rel (W : list Z) (val : mstate -> Z) (s s' : mstate) : Prop :=
  rA s' = val s /\ bytes_ok s' /\ only_changes_off W s s' /\ keeps_xys s s'.

(** a call: an expression, and the effects [eff] of the callee: cells with their new values *)
Definition call_rel (W : list Z) (res : mstate -> Z) (eff : list (Z * (mstate -> Z)))
    (s s' : mstate) : Prop :=
  expr_rel W res s s' /\ forall p v, In (p, v) eff -> mget (mem s') p = v s.

Section Segments.
  Variable cfg : config.
  Variable prog : sprogram.

  (** from the first line of [seg] in state [s], inside any function, any code around, any call
      stack, [Sem.run] gets past the last line of [seg] in a state satisfying [Q] *)
  Definition seg_wp (seg : list sline) (s : mstate) (Q : mstate -> Prop) : Prop :=
    forall fname pre post stack, exists s',
      goes cfg prog fname (pre ++ seg ++ post) stack (length pre) s (length pre + length seg)%nat s'
      /\ Q s'.

  Lemma seg_wp_nil : forall s (Q : mstate -> Prop), Q s -> seg_wp [] s Q.
  Proof.
    intros s Q HQ fname pre post stack. exists s. split; [|exact HQ].
    cbn [length]. rewrite Nat.add_0_r. apply goes_refl.
  Qed.

  Lemma seg_wp_app : forall a b s (Q1 Q2 : mstate -> Prop),
    seg_wp a s Q1 -> (forall s1, Q1 s1 -> seg_wp b s1 Q2) -> seg_wp (a ++ b) s Q2.
  Proof.
    intros a b s Q1 Q2 Ha Hb fname pre post stack.
    destruct (Ha fname pre (b ++ post) stack) as (s1 & G1 & H1).
    destruct (Hb s1 H1 fname (pre ++ a) post stack) as (s2 & G2 & H2).
    exists s2. split; [|exact H2].
    rewrite <- !app_assoc in G2. rewrite <- app_assoc. rewrite !app_length in *.
    rewrite Nat.add_assoc. apply (goes_trans cfg prog _ _ _ _ _ _ _ _ _ G1 G2).
  Qed.

  Lemma seg_wp_weaken : forall seg s (Q Q' : mstate -> Prop),
    (forall s', Q s' -> Q' s') -> seg_wp seg s Q -> seg_wp seg s Q'.
  Proof.
    intros seg s Q Q' HQ H fname pre post stack.
    destruct (H fname pre post stack) as (s' & G & Hq). exists s'. split; [exact G|apply HQ; exact Hq].
  Qed.

  (** one instruction that falls through *)
  Lemma seg_wp_ins : forall m o p raw s s' k (Q : mstate -> Prop),
    exec cfg m o s = XOk s' k FNext -> Q s' -> seg_wp [SIns m o p raw] s Q.
  Proof.
    intros m o p raw s s' k Q He HQ fname pre post stack. exists s'. split; [|exact HQ].
    apply (goes_stepn cfg prog fname _ stack 1%nat).
    cbn [stepn app]. rewrite nth_error_mid, He. cbn [length]. rewrite Nat.add_1_r. reflexivity.
  Qed.

  (** * Function specifications and the call rule for them *)

  (** [f] is in the program table; entered in ANY byte-valued state, under any call stack, it goes
      to one of its RTS lines with A = [res] of the entry state, having changed only the cells
      [W], those of [eff] holding the given values; S, X, Y as at entry *)
  Definition fun_ok (f : string) (W : list Z) (res : mstate -> Z)
      (eff : list (Z * (mstate -> Z))) : Prop :=
    exists cf, find_func f prog = Some cf /\
      forall stack s1, bytes_ok s1 ->
        exists pr s2, goes cfg prog f cf stack 0 s1 pr s2 /\ is_rts cf pr /\
          rA s2 = res s1 /\ bytes_ok s2 /\ only_changes W s1 s2 /\ keeps_xys s1 s2 /\
          (forall p v, In (p, v) eff -> mget (mem s2) p = v s1).

  (** the effects are about cells outside the stack page, in terms of the memory outside it *)
  Definition eff_off (eff : list (Z * (mstate -> Z))) : Prop :=
    forall p v, In (p, v) eff -> res_off v.

  Lemma enter_bytes_ok : forall d s, bytes_ok s -> bytes_ok (enter d s).
  Proof.
    intros d s Hb. unfold enter.
    apply push_bytes_ok; [apply push_bytes_ok; [exact Hb|]|]; apply byte_range.
  Qed.

  Lemma enter_mem_off : forall d s a, 0 <= rS s < 256 -> 0 <= a -> off_stack a ->
    mget (mem (enter d s)) a = mget (mem s) a.
  Proof.
    intros d s a HS Ha Ho. unfold enter, push, off_stack, byte in *. cbn [mem set_sp set_mem rS].
    rewrite !mget_mset_other by lia. reflexivity.
  Qed.

  (** the [JSR] as a segment: the callee's result in A, its effects, its writes [W] (outside the
      stack page), X, Y and S as before the call: the call is balanced.  The stack page itself is
      not described: the two cells below S hold the markers *)
  Theorem call_seg : forall f W res eff p raw s,
    fun_ok f W res eff -> (forall a, In a W -> off_stack a) -> res_off res -> eff_off eff ->
    bytes_ok s ->
    seg_wp [SIns JSR (OLbl f) p raw] s (call_rel W res eff s).
  Proof.
    intros f W res eff p raw s (cf & Hf & Hspec) HW Hres Heff Hb fname pre post stack.
    pose proof Hb as (HA & HX & HY & HS & HM).
    set (d := Z.of_nat (length stack) + 1).
    pose proof (enter_bytes_ok d s Hb) as Hb1.
    destruct (Hspec ((fname, pre ++ [SIns JSR (OLbl f) p raw] ++ post, S (length pre)) :: stack)
                (enter d s) Hb1) as (pr & s2 & Hg & Hr & HrA & Hb2 & Hoc & (Kx & Ky & Ks) & He).
    assert (Hm1 : mget (mem s2) (256 + rS s) = byte d).
    { rewrite (Hoc (256 + rS s)); [|lia|intros Hin; destruct (HW _ Hin); lia].
      unfold enter, push, byte. cbn [mem set_sp set_mem rS].
      rewrite mget_mset_other by lia. apply mget_mset_same. }
    assert (Hm2 : mget (mem s2) (256 + byte (rS s - 1)) = byte (255 - d)).
    { rewrite (Hoc (256 + byte (rS s - 1)));
        [|unfold byte; lia|intros Hin; destruct (HW _ Hin); unfold byte in *; lia].
      unfold enter, push. cbn [mem set_sp set_mem rS]. apply mget_mset_same. }
    assert (Hent : forall a, 0 <= a -> off_stack a -> mget (mem (enter d s)) a = mget (mem s) a)
      by (intros a Ha Ho; apply (enter_mem_off d s a HS Ha Ho)).
    exists (set_sp s2 (rS s)). split.
    - cbn [length]. rewrite Nat.add_1_r.
      apply (call_rule cfg prog fname _ stack (length pre) s f cf p raw pr s2);
        [apply nth_error_mid|exact Hf|exact HS|exact Hg|exact Hr|exact Ks|exact Hm1|exact Hm2].
    - split.
      + unfold expr_rel. cbn [rA set_sp]. split; [rewrite HrA; apply Hres; exact Hent|].
        split; [destruct Hb2 as (HA2 & HX2 & HY2 & HS2 & HM2); apply bytes_ok_mk; assumption|].
        split.
        * intros a Ha Ho Hn. cbn [mem set_sp]. rewrite (Hoc a Ha Hn). apply (Hent a Ha Ho).
        * repeat split; cbn [rX rY rS set_sp]; [rewrite Kx|rewrite Ky]; reflexivity.
      + intros q v Hin. cbn [mem set_sp]. rewrite (He q v Hin). apply (Heff q v Hin). exact Hent.
  Qed.
End Segments.
Print Assumptions call_seg.

(** * Code with a specification: expressions, argument passing, the call template *)

Section CallTpl.
  Variable cfg : config.
  Variable prog : sprogram.

  (** [E] assembles, and from every byte-valued state [s] it runs (as a segment: anywhere, under
      any call stack) to a state related to [s] by [R] *)
  Definition code_ok (E : code) (R : mstate -> mstate -> Prop) : Prop :=
    exists sl, slines_of E = Some sl /\ forall s, bytes_ok s -> seg_wp cfg prog sl s (R s).

  Definition expr_ok (E : code) (W : list Z) (val : mstate -> Z) : Prop :=
    code_ok E (expr_rel W val).

  Lemma code_ok_weaken : forall E (R R' : mstate -> mstate -> Prop),
    (forall s s', bytes_ok s -> R s s' -> R' s s') -> code_ok E R -> code_ok E R'.
  Proof.
    intros E R R' HR (sl & Hsl & H). exists sl. split; [exact Hsl|].
    intros s Hb. eapply seg_wp_weaken; [|apply (H s Hb)]. intros s' Hx. apply (HR s s' Hb Hx).
  Qed.

  Lemma code_ok_app : forall A B (R1 R2 : mstate -> mstate -> Prop),
    code_ok A R1 -> code_ok B R2 -> (forall s s1, bytes_ok s -> R1 s s1 -> bytes_ok s1) ->
    code_ok (A ++ B) (fun s s' => exists s1, R1 s s1 /\ R2 s1 s').
  Proof.
    intros A B R1 R2 (sa & Ha & HA) (sb & Hb & HB) Hbo. exists (sa ++ sb).
    split; [apply slines_app; assumption|].
    intros s Hbs. eapply seg_wp_app; [apply (HA s Hbs)|].
    intros s1 H1. cbv beta. eapply seg_wp_weaken; [|apply (HB s1 (Hbo s s1 Hbs H1))].
    intros s' H2. exists s1. split; assumption.
  Qed.

  Lemma code_ok_nil : forall R : mstate -> mstate -> Prop, (forall s, R s s) -> code_ok [] R.
  Proof.
    intros R HR. exists []. split; [reflexivity|]. intros s _. apply seg_wp_nil. apply HR.
  Qed.

  (** one instruction *)
  Lemma code_ok_ins : forall m op o (f : mstate -> mstate),
    parse_operand m op = Some o ->
    (forall s, exists k, exec cfg m o s = XOk (f s) k FNext) ->
    code_ok [ins m op] (fun s s' => s' = f s).
  Proof.
    intros m op o f Hp He. exists [SIns m o false op].
    split; [apply slines_ins; [exact Hp|reflexivity]|].
    intros s _. destruct (He s) as (k & E). apply (seg_wp_ins cfg prog m o false op s (f s) k _ E).
    reflexivity.
  Qed.

  Hypothesis Hports : ports cfg = [].

  Lemma bytes_ok_lda : forall s v, bytes_ok s -> 0 <= v < 256 -> bytes_ok (set_nz (set_a s v) v).
  Proof.
    intros s v (HA & HX & HY & HS & HM) Hv. unfold set_nz, set_a.
    cbn [rA rX rY rS fN fV fZ fC mem]. apply bytes_ok_mk; assumption.
  Qed.

  (** [LDA x] *)
  Lemma evar_ok : forall x px, var_name x -> layout cfg x = Some px -> 0 <= px < 65536 ->
    expr_ok (evar x) [] (fun s => mget (mem s) px).
  Proof.
    intros x px Vx Lx Rx. unfold expr_ok, evar.
    eapply code_ok_weaken;
      [|apply (code_ok_ins LDA x (OMem x 0 IxNone)
                 (fun s => set_nz (set_a s (mget (mem s) px)) (mget (mem s) px)))].
    - intros s s' Hb ->. unfold expr_rel. cbn [rA set_nz set_a].
      split; [reflexivity|].
      split; [apply bytes_ok_lda; [exact Hb|destruct Hb as (_ & _ & _ & _ & HM); apply HM]|].
      split; [apply only_changes_off_mem; reflexivity|repeat split; reflexivity].
    - apply vn_lo; [exact Vx|reflexivity].
    - intros s. eexists. rewrite (exec_rd_mem cfg LDA s x 0 px Hports eq_refl Lx ltac:(lia)).
      rewrite Z.add_0_r. reflexivity.
  Qed.

  (** [LDA #k] *)
  Lemma econst_ok : forall k, 0 <= k < 256 -> expr_ok (econst k) [] (fun _ => k).
  Proof.
    intros k Hk. unfold expr_ok, econst.
    eapply code_ok_weaken;
      [|apply (code_ok_ins LDA (imm k) (OImm (INum k)) (fun s => set_nz (set_a s k) k))].
    - intros s s' Hb ->. unfold expr_rel. cbn [rA set_nz set_a].
      split; [reflexivity|]. split; [apply bytes_ok_lda; assumption|].
      split; [apply only_changes_off_mem; reflexivity|repeat split; reflexivity].
    - apply parse_imm_num; [reflexivity|lia].
    - intros s. eexists. rewrite (exec_rd_imm cfg LDA s k eq_refl). rewrite (byte_small k Hk).
      reflexivity.
  Qed.

  (** [e + k]: [CLC; ADC #k] after [e] *)
  Lemma clc_adc_ok : forall op o (v : mstate -> Z),
    parse_operand ADC op = Some o ->
    (forall s, exists k, exec cfg ADC o s = XOk (adc s (v s)) k FNext) ->
    (forall s c, v (set_c s c) = v s) ->
    code_ok [ins CLC ""; ins ADC op] (fun s s' => s' = adc (set_c s false) (v s)).
  Proof.
    intros op o v Hp He Hv.
    eapply code_ok_weaken;
      [|apply (code_ok_app [ins CLC ""] [ins ADC op]
                 (fun s s' => s' = set_c s false) (fun s s' => s' = adc s (v s)));
        [apply (code_ok_ins CLC "" ONone); [reflexivity|intros s; eexists; reflexivity]
        |apply (code_ok_ins ADC op o (fun s => adc s (v s))); [exact Hp|exact He]
        |intros s s1 Hb ->; exact Hb]].
    intros s s' _ (s1 & -> & ->). rewrite Hv. reflexivity.
  Qed.

  Lemma adc_expr_rel : forall W val (v : mstate -> Z) s s1,
    expr_rel W val s s1 -> 0 <= v s1 < 256 ->
    expr_rel W (fun s => (val s + v s1) mod 256) s (adc (set_c s1 false) (v s1)).
  Proof.
    intros W val v s s1 (HA1 & Hb1 & Hoc1 & Hk1) Hv.
    pose proof Hb1 as (RA & RX & RY & RS & RM).
    unfold expr_rel, adc, set_nz, set_v, set_c, set_a. cbn [rA rX rY rS fN fV fZ fC mem b2z].
    split; [rewrite HA1, Z.add_0_r; reflexivity|].
    split; [apply bytes_ok_mk; try assumption; apply byte_range|].
    split; [exact Hoc1|exact Hk1].
  Qed.

  (** [e + k]: [CLC; ADC #k] after [e] *)
  Lemma eadd_const_ok : forall E W val k, 0 <= k < 256 -> expr_ok E W val ->
    expr_ok (eadd_const E k) W (fun s => (val s + k) mod 256).
  Proof.
    intros E W val k Hk HE. unfold expr_ok, eadd_const.
    assert (Hc : code_ok [ins CLC ""; ins ADC (imm k)] (fun s s' => s' = adc (set_c s false) k)).
    { apply (clc_adc_ok (imm k) (OImm (INum k)) (fun _ => k));
        [apply parse_imm_num; [reflexivity|lia]| |reflexivity].
      intros s. eexists. rewrite (exec_rd_imm cfg ADC s k eq_refl), (byte_small k Hk). reflexivity. }
    eapply code_ok_weaken;
      [|apply (code_ok_app E _ (expr_rel W val) _ HE Hc); intros s s1 _ (_ & Hb1 & _); exact Hb1].
    intros s s' Hb (s1 & H1 & ->). apply (adc_expr_rel W val (fun _ => k) s s1 H1 Hk).
  Qed.

  (** [e + y]: [CLC; ADC y] after [e]; [e] does not write [y] *)
  Lemma eadd_var_ok : forall E W val y py, var_name y -> layout cfg y = Some py ->
    0 <= py < 65536 -> off_stack py -> ~ In py W -> expr_ok E W val ->
    expr_ok (eadd_var E y) W (fun s => (val s + mget (mem s) py) mod 256).
  Proof.
    intros E W val y py Vy Ly Ry Oy Ny HE. unfold expr_ok, eadd_var.
    assert (Hc : code_ok [ins CLC ""; ins ADC y]
                   (fun s s' => s' = adc (set_c s false) (mget (mem s) py))).
    { apply (clc_adc_ok y (OMem y 0 IxNone) (fun s => mget (mem s) py));
        [apply vn_lo; [exact Vy|reflexivity]| |reflexivity].
      intros s. eexists.
      rewrite (exec_rd_mem cfg ADC s y 0 py Hports eq_refl Ly ltac:(lia)), Z.add_0_r. reflexivity. }
    eapply code_ok_weaken;
      [|apply (code_ok_app E _ (expr_rel W val) _ HE Hc); intros s s1 _ (_ & Hb1 & _); exact Hb1].
    intros s s' Hb (s1 & H1 & ->).
    pose proof H1 as (_ & Hb1 & Hoc1 & _). pose proof Hb1 as (_ & _ & _ & _ & RM).
    pose proof (adc_expr_rel W val (fun s => mget (mem s) py) s s1 H1 (RM py)) as H.
    unfold expr_rel in *. rewrite (Hoc1 py ltac:(lia) Oy Ny) in H |- *. exact H.
  Qed.

  (** [STA x] *)
  Lemma sta_ok : forall x px, var_name x -> layout cfg x = Some px -> 0 <= px < 65536 ->
    code_ok [ins STA x] (fun s s' => s' = set_mem s (mset (mem s) px (rA s))).
  Proof.
    intros x px Vx Lx Rx.
    apply (code_ok_ins STA x (OMem x 0 IxNone)); [apply vn_lo; [exact Vx|reflexivity]|].
    intros s. eexists. rewrite (exec_st_mem cfg STA s x 0 px Hports eq_refl Lx ltac:(lia)).
    rewrite Z.add_0_r. reflexivity.
  Qed.

  Lemma sta_bytes_ok : forall s px, bytes_ok s -> bytes_ok (set_mem s (mset (mem s) px (rA s))).
  Proof.
    intros s px (HA & HX & HY & HS & HM). apply bytes_ok_mk; try assumption.
    apply mget_mset_bytes; assumption.
  Qed.

  (** [dst = e;] *)
  Definition assign_rel (pd : Z) (W : list Z) (val : mstate -> Z) (s s' : mstate) : Prop :=
    mget (mem s') pd = val s /\ bytes_ok s' /\ only_changes_off (pd :: W) s s' /\ keeps_xys s s'.

  Lemma assign_expr_ok : forall dst pd E W val, var_name dst -> layout cfg dst = Some pd ->
    0 <= pd < 65536 -> expr_ok E W val ->
    code_ok (assign_expr dst E) (assign_rel pd W val).
  Proof.
    intros dst pd E W val Vd Ld Rd HE. unfold assign_expr.
    eapply code_ok_weaken;
      [|apply (code_ok_app E _ _ _ HE (sta_ok dst pd Vd Ld Rd));
        intros s s1 _ (_ & Hb1 & _); exact Hb1].
    intros s s' Hb (s1 & (HA1 & Hb1 & Hoc1 & Hk1) & ->). unfold assign_rel. cbn [mem set_mem].
    split; [rewrite mget_mset_same; exact HA1|].
    split; [apply sta_bytes_ok; exact Hb1|].
    split; [|exact Hk1].
    intros a Ha Ho Hn. cbn [In] in Hn. cbn [mem set_mem]. rewrite mget_mset_other by lia.
    apply (Hoc1 a Ha Ho). intros Hin. apply Hn. right. exact Hin.
  Qed.
End CallTpl.

(** * Argument passing and [call_tpl_correct] *)

(** an argument with its meaning: the code, the address of the parameter cell, the value, the
    cells its evaluation may write *)
Record arg_sem := mkAS { as_arg : arg_code; as_addr : Z; as_val : mstate -> Z; as_writes : list Z }.

(** [Sem.run] on main (the lines of [c]) with the program table, from an empty call stack, with any
    fuel above some bound, halts normally in [st'] *)
Definition calls_to (cfg : config) (prog : sprogram) (c : code) (st st' : mstate) : Prop :=
  exists sl, slines_of c = Some sl /\ exists N : nat,
    forall inl_sem ext_call fuel, (N < fuel)%nat ->
      exists tr cy,
        Sem.run cfg prog inl_sem ext_call fuel "main"%string sl 0 [] st [] 0%N = Halt st' tr cy.

Section CallTpl2.
  Variable cfg : config.
  Variable prog : sprogram.
  Hypothesis Hports : ports cfg = [].

  (** argument [a] of a call of [fn], the parameters at [done] being already stored; [D]: all the
      cells the argument passing may write (parameter cells of [fn], and of the functions called
      in the arguments) *)
  Definition arg_ok1 (fn : string) (D done : list Z) (a : arg_sem) : Prop :=
    var_name (param_name fn (arg_param (as_arg a))) /\
    layout cfg (param_name fn (arg_param (as_arg a))) = Some (as_addr a) /\
    0 <= as_addr a < 65536 /\ off_stack (as_addr a) /\ In (as_addr a) D /\
    ~ In (as_addr a) done /\
    expr_ok cfg prog (arg_eval (as_arg a)) (as_writes a) (as_val a) /\
    (forall x, In x (as_writes a) -> In x D) /\
    (forall p, In p done -> ~ In p (as_writes a)) /\
    val_indep D (as_val a).

  Fixpoint args_ok (fn : string) (D done : list Z) (args : list arg_sem) : Prop :=
    match args with
    | [] => True
    | a :: r => arg_ok1 fn D done a /\ args_ok fn D (as_addr a :: done) r
    end.

  Lemma args_ok_indep : forall fn D args done b,
    args_ok fn D done args -> In b args -> val_indep D (as_val b).
  Proof.
    intros fn D args. induction args as [|a r IH]; intros done b Hok Hin; [contradiction|].
    cbn [args_ok] in Hok. destruct Hok as (H1 & Hr). destruct Hin as [<-|Hin].
    - apply H1.
    - apply (IH _ b Hr Hin).
  Qed.

  (** after the arguments: every parameter cell holds the value of its argument (evaluated in the
      state before), only cells of [D] changed outside the stack page, S, X, Y unchanged *)
  Definition pass_rel (D : list Z) (args : list arg_sem) (done : list Z) (s s' : mstate) : Prop :=
    bytes_ok s' /\ only_changes_off D s s' /\ keeps_xys s s' /\
    (forall a, In a args -> mget (mem s') (as_addr a) = as_val a s) /\
    (forall p, In p done -> mget (mem s') p = mget (mem s) p).

  Lemma pass_ok : forall fn D args done,
    (forall p, In p done -> 0 <= p /\ off_stack p) ->
    args_ok fn D done args ->
    code_ok cfg prog (flat_map (pass_arg fn) (map as_arg args)) (pass_rel D args done).
  Proof.
    intros fn D args. induction args as [|a r IH]; intros done Hdone Hok.
    - cbn [map flat_map].
      apply (code_ok_weaken cfg prog [] (fun s s' => s' = s)); [|apply code_ok_nil; reflexivity].
      intros s s' Hb ->. split; [exact Hb|]. split; [apply only_changes_off_refl|].
      split; [apply keeps_xys_refl|]. split; [intros a []|reflexivity].
    - cbn [args_ok] in Hok.
      destruct Hok as ((Vp & Lp & Rp & Op & HpD & Hpn & HE & HWD & HWdone & Hind) & Hr).
      cbn [map flat_map]. unfold pass_arg at 1.
      assert (Hdone' : forall p, In p (as_addr a :: done) -> 0 <= p /\ off_stack p).
      { intros p [<-|Hin]; [split; [lia|exact Op]|apply Hdone; exact Hin]. }
      pose proof (code_ok_app cfg prog _ _ _ _ HE (sta_ok cfg prog Hports _ _ Vp Lp Rp)
                    (fun s s1 _ H => proj1 (proj2 H))) as H12.
      eapply code_ok_weaken;
        [|apply (code_ok_app cfg prog _ _ _ _ H12 (IH _ Hdone' Hr))].
      + intros s s' Hb (s2 & (s1 & (HA1 & Hb1 & Hoc1 & Hk1) & ->) & (Hb' & Hoc2 & Hk2 & Hargs & Hd2)).
        assert (Hoc02 : only_changes_off D s
                          (set_mem s1 (mset (mem s1) (as_addr a) (rA s1)))).
        { intros x Hx Ho Hn. cbn [mem set_mem].
          rewrite mget_mset_other; [|intros E; apply Hn; rewrite <- E; exact HpD|lia|exact Hx].
          apply (Hoc1 x Hx Ho). intros Hin. apply Hn. apply HWD. exact Hin. }
        split; [exact Hb'|].
        split; [apply (only_changes_off_trans _ _ _ _ Hoc02 Hoc2)|].
        split; [apply (keeps_xys_trans _ _ _ Hk1); exact Hk2|].
        split.
        * intros b [<-|Hin].
          -- rewrite (Hd2 (as_addr a) (or_introl eq_refl)). cbn [mem set_mem].
             rewrite mget_mset_same. exact HA1.
          -- rewrite (Hargs b Hin). apply (args_ok_indep _ _ _ _ b Hr Hin). exact Hoc02.
        * intros p Hin. destruct (Hdone p Hin) as (Hp0 & Hpo).
          rewrite (Hd2 p (or_intror Hin)). cbn [mem set_mem].
          rewrite mget_mset_other; [|intros E; apply Hpn; rewrite E; exact Hin|lia|exact Hp0].
          apply (Hoc1 p Hp0 Hpo). apply HWdone. exact Hin.
      + intros s s2 Hb (s1 & (_ & Hb1 & _) & ->). apply sta_bytes_ok. exact Hb1.
  Qed.

  (** the [JSR] *)
  Lemma jsr_ok : forall fn Wf res eff, fn <> ""%string ->
    fun_ok cfg prog fn Wf res eff -> (forall a, In a Wf -> off_stack a) -> res_off res ->
    eff_off eff ->
    code_ok cfg prog [ins JSR fn] (call_rel Wf res eff).
  Proof.
    intros fn Wf res eff Hfn Hf HW Hres Heff. exists [SIns JSR (OLbl fn) false fn].
    split; [apply slines_ins; [apply parse_lbl; [reflexivity|exact Hfn]|reflexivity]|].
    intros s Hb. apply (call_seg cfg prog fn Wf res eff false fn s Hf HW Hres Heff Hb).
  Qed.

  (** ** [call_tpl_correct]

      [fn] has the specification [fun_ok fn Wf res eff] (result [res] and effects [eff], functions
      of the memory outside the stack page at entry; writes [Wf] outside the stack page).  The
      arguments are expressions with specifications, none disturbing a parameter cell already
      stored, and whose values do not depend on the cells [D] the argument passing writes.
      Then from every byte-valued [s] the call goes through a state [s1] (at the [JSR]) where
      every parameter cell holds the value of its argument and nothing else outside [D] and the
      stack page has changed, to a state [s'] where A holds the result of the callee on [s1], the
      effects of the callee have taken place, only cells of [D] and [Wf] changed outside the stack
      page, and S, X, Y are what they were in [s]: the call is balanced. *)
  Theorem call_tpl_correct : forall fn args D Wf res eff,
    fn <> ""%string ->
    fun_ok cfg prog fn Wf res eff -> (forall a, In a Wf -> off_stack a) -> res_off res ->
    eff_off eff ->
    args_ok fn D [] args ->
    code_ok cfg prog (call_tpl fn (map as_arg args))
      (fun s s' => exists s1, pass_rel D args [] s s1 /\ call_rel Wf res eff s1 s' /\
                              only_changes_off (D ++ Wf) s s' /\ keeps_xys s s').
  Proof.
    intros fn args D Wf res eff Hfn Hf HW Hres Heff Hargs. unfold call_tpl.
    eapply code_ok_weaken;
      [|apply (code_ok_app cfg prog _ _ _ _ (pass_ok fn D args [] (fun p H => match H with end) Hargs)
                 (jsr_ok fn Wf res eff Hfn Hf HW Hres Heff))].
    - intros s s' Hb (s1 & Hp & Hc). exists s1. split; [exact Hp|]. split; [exact Hc|].
      pose proof Hp as (Hb1 & Hoc1 & Hk1 & _). destruct Hc as ((HA & Hb' & Hoc & Hk) & _).
      split; [|apply (keeps_xys_trans _ _ _ Hk1 Hk)].
      apply (only_changes_off_trans _ _ s1).
      + apply (only_changes_off_incl D); [intros x Hx; apply in_or_app; left; exact Hx|exact Hoc1].
      + apply (only_changes_off_incl Wf); [intros x Hx; apply in_or_app; right; exact Hx|exact Hoc].
    - intros s s1 _ (Hb1 & _). exact Hb1.
  Qed.

  (** the call as an expression: [val] is the result of the callee on any state where the
      parameter cells hold the argument values; calls nest as arguments *)
  Corollary call_expr_ok : forall fn args D Wf res eff val,
    fn <> ""%string ->
    fun_ok cfg prog fn Wf res eff -> (forall a, In a Wf -> off_stack a) -> res_off res ->
    eff_off eff ->
    args_ok fn D [] args ->
    (forall s s1, bytes_ok s -> pass_rel D args [] s s1 -> res s1 = val s) ->
    expr_ok cfg prog (call_tpl fn (map as_arg args)) (D ++ Wf) val.
  Proof.
    intros fn args D Wf res eff val Hfn Hf HW Hres Heff Hargs Hval. unfold expr_ok.
    eapply code_ok_weaken; [|apply (call_tpl_correct fn args D Wf res eff Hfn Hf HW Hres Heff Hargs)].
    intros s s' Hb (s1 & Hp & ((HA & Hb' & _) & _) & Hoc & Hk).
    split; [rewrite HA; apply (Hval s s1 Hb Hp)|]. split; [exact Hb'|]. split; assumption.
  Qed.

  (** a statement with a specification, run as main *)
  Theorem code_ok_calls_to : forall C (R : mstate -> mstate -> Prop) st,
    code_ok cfg prog C R -> bytes_ok st -> exists st', calls_to cfg prog C st st' /\ R st st'.
  Proof.
    intros C R st (sl & Hsl & H) Hb.
    destruct (H st Hb "main"%string [] [] []) as (s' & (N & HN) & HR).
    cbn [app length Nat.add] in HN. rewrite app_nil_r in HN.
    exists s'. split; [|exact HR]. exists sl. split; [exact Hsl|]. exists N.
    intros inl_sem ext_call fuel Hf.
    destruct (HN inl_sem ext_call (fuel - N)%nat [] 0%N) as (tr' & cy' & E).
    replace fuel with (N + (fuel - N))%nat by lia. rewrite E.
    destruct (fuel - N)%nat as [|k] eqn:Ek; [lia|].
    rewrite run_S. rewrite (proj2 (nth_error_None sl (length sl))) by lia. eauto.
  Qed.

  Lemma calls_to_bytes_ok : forall C st st', calls_to cfg prog C st st' -> bytes_ok st ->
    bytes_ok st'.
  Proof.
    intros C st st' (sl & _ & N & H) Hb.
    destruct (H (fun _ _ => None) (fun _ _ => None) (S N) (Nat.lt_succ_diag_r _)) as (tr & cy & Hr).
    apply (run_bytes_ok cfg prog (fun _ _ => None) (fun _ _ => None)
             ltac:(intros t s s' E; discriminate E) ltac:(intros f s s' E; discriminate E)
             _ _ _ _ _ _ _ _ _ _ _ Hr Hb).
  Qed.
End CallTpl2.
Print Assumptions pass_ok.
Print Assumptions call_tpl_correct.
Print Assumptions call_expr_ok.
Print Assumptions code_ok_calls_to.

(** * The six functions of the listing *)

(** the function [f] of the program table is [body] as the harness runs it: followed by an RTS *)
Definition prog_has (prog : sprogram) (f : string) (body : code) : Prop :=
  exists cf, slines_of (harness_fun body) = Some cf /\ find_func f prog = Some cf.

(** a variable: its cell, anywhere outside the stack page *)
Definition var_cell (cfg : config) (x : string) (p : Z) : Prop :=
  layout cfg x = Some p /\ 0 <= p < 65536 /\ off_stack p.

Lemma fun_ok_reach : forall cfg prog f cf W res eff,
  find_func f prog = Some cf ->
  (forall s1, bytes_ok s1 ->
     reach cfg cf 0 s1 (fun (_ pc' : nat) (s2 : mstate) =>
       is_rts cf pc' /\ rA s2 = res s1 /\ only_changes W s1 s2 /\ keeps_xys s1 s2 /\
       forall p v, In (p, v) eff -> mget (mem s2) p = v s1)) ->
  fun_ok cfg prog f W res eff.
Proof.
  intros cfg prog f cf W res eff Hf H. exists cf. split; [exact Hf|].
  intros stack s1 Hb. destruct (H s1 Hb) as (n & pc' & s2 & Hs & Hr & HA & Hoc & Hk & He).
  exists pc', s2. split; [apply (goes_stepn cfg prog f cf stack n _ _ _ _ Hs)|].
  split; [exact Hr|]. split; [exact HA|]. split; [apply (stepn_bytes_ok cfg cf n _ _ _ _ Hs Hb)|].
  split; [exact Hoc|]. split; [exact Hk|exact He].
Qed.

Ltac slines_call_tac :=
  repeat first [ apply slines_nil
               | eapply slines_ins; [parse_tac|]
               | apply slines_br; [reflexivity|discriminate|]
               | eapply slines_lbl ].

Ltac names_tac :=
  repeat match goal with
  | |- var_name _ => apply ident_var_name; [discriminate|reflexivity]
  end.

Lemma is_rts_intro : forall c pc o p raw, nth_error c pc = Some (SIns RTS o p raw) -> is_rts c pc.
Proof. intros c pc o p raw H. exists o, p, raw. exact H. Qed.

(** [void f() { c = 1; }] *)
Lemma fun_f_ok : forall cfg prog pc,
  ports cfg = [] -> var_cell cfg "c" pc -> prog_has prog "f" fun_f ->
  fun_ok cfg prog "f" [pc] (fun _ => 1) [(pc, fun _ => 1)].
Proof.
  intros cfg prog pc Hp (Lc & Rc & Oc) (cf & Hcf & Hfind).
  assert (Vc : var_name "c") by names_tac.
  eassert (Ecf : slines_of (harness_fun fun_f) = Some _)
    by (unfold harness_fun, fun_f, assign8; cbn [app]; slines_call_tac).
  rewrite Ecf in Hcf. inversion Hcf; subst cf. clear Hcf Ecf.
  apply (fun_ok_reach cfg prog "f" _ _ _ _ Hfind). intros s1 Hb.
  repeat rstep. apply reach_stop.
  split; [eapply is_rts_intro; reflexivity|]. post_tac. change (byte 1) with 1.
  split; [reflexivity|]. split; [intros a Ha Hn; cbn [In] in Hn; mem_simp; reflexivity|].
  split; [repeat split; reflexivity|]. intros p v [E|[]]. inversion E; subst. mem_simp. reflexivity.
Qed.

(** [unsigned char g() { return a; }] *)
Lemma fun_g_ok : forall cfg prog pa,
  ports cfg = [] -> var_cell cfg "a" pa -> prog_has prog "g" fun_g ->
  fun_ok cfg prog "g" [] (fun s => mget (mem s) pa) [].
Proof.
  intros cfg prog pa Hp (La & Ra & Oa) (cf & Hcf & Hfind).
  assert (Va : var_name "a") by names_tac.
  eassert (Ecf : slines_of (harness_fun fun_g) = Some _)
    by (unfold harness_fun, fun_g, return_tpl, evar; cbn [app]; slines_call_tac).
  rewrite Ecf in Hcf. inversion Hcf; subst cf. clear Hcf Ecf.
  apply (fun_ok_reach cfg prog "g" _ _ _ _ Hfind). intros s1 Hb.
  repeat rstep. apply reach_stop.
  split; [eapply is_rts_intro; reflexivity|]. post_tac.
  split; [reflexivity|]. split; [intros a Ha Hn; reflexivity|].
  split; [repeat split; reflexivity|]. intros p v [].
Qed.

(** [unsigned char h(unsigned char x) { return x + 1; }] *)
Lemma fun_h_ok : forall cfg prog px,
  ports cfg = [] -> var_cell cfg "h_x" px -> prog_has prog "h" fun_h ->
  fun_ok cfg prog "h" [] (fun s => (mget (mem s) px + 1) mod 256) [].
Proof.
  intros cfg prog px Hp (Lx & Rx & Ox) (cf & Hcf & Hfind).
  assert (Vx : var_name "h_x") by names_tac.
  eassert (Ecf : slines_of (harness_fun fun_h) = Some _)
    by (unfold harness_fun, fun_h, return_tpl, eadd_const, evar, param_name;
        cbn [app append]; slines_call_tac).
  rewrite Ecf in Hcf. inversion Hcf; subst cf. clear Hcf Ecf.
  apply (fun_ok_reach cfg prog "h" _ _ _ _ Hfind). intros s1 Hb.
  repeat rstep. apply reach_stop.
  split; [eapply is_rts_intro; reflexivity|]. post_tac. change (byte 1) with 1.
  split; [reflexivity|]. split; [intros a Ha Hn; reflexivity|].
  split; [repeat split; reflexivity|]. intros p v [].
Qed.

(** [unsigned char k(unsigned char x, unsigned char y) { return x + y; }] *)
Lemma fun_k_ok : forall cfg prog px py,
  ports cfg = [] -> var_cell cfg "k_x" px -> var_cell cfg "k_y" py -> prog_has prog "k" fun_k ->
  fun_ok cfg prog "k" [] (fun s => (mget (mem s) px + mget (mem s) py) mod 256) [].
Proof.
  intros cfg prog px py Hp (Lx & Rx & Ox) (Ly & Ry & Oy) (cf & Hcf & Hfind).
  assert (Vx : var_name "k_x") by names_tac. assert (Vy : var_name "k_y") by names_tac.
  eassert (Ecf : slines_of (harness_fun fun_k) = Some _)
    by (unfold harness_fun, fun_k, return_tpl, eadd_var, evar, param_name;
        cbn [app append]; slines_call_tac).
  rewrite Ecf in Hcf. inversion Hcf; subst cf. clear Hcf Ecf.
  apply (fun_ok_reach cfg prog "k" _ _ _ _ Hfind). intros s1 Hb.
  repeat rstep. apply reach_stop.
  split; [eapply is_rts_intro; reflexivity|]. post_tac.
  split; [reflexivity|]. split; [intros a Ha Hn; reflexivity|].
  split; [repeat split; reflexivity|]. intros p v [].
Qed.

(** [void set(unsigned char x) { c = x; }] *)
Lemma fun_set_ok : forall cfg prog px pc,
  ports cfg = [] -> var_cell cfg "set_x" px -> var_cell cfg "c" pc -> prog_has prog "set" fun_set ->
  fun_ok cfg prog "set" [pc] (fun s => mget (mem s) px) [(pc, fun s => mget (mem s) px)].
Proof.
  intros cfg prog px pc Hp (Lx & Rx & Ox) (Lc & Rc & Oc) (cf & Hcf & Hfind).
  assert (Vx : var_name "set_x") by names_tac. assert (Vc : var_name "c") by names_tac.
  eassert (Ecf : slines_of (harness_fun fun_set) = Some _)
    by (unfold harness_fun, fun_set, param_name; cbn [template app append]; slines_call_tac).
  rewrite Ecf in Hcf. inversion Hcf; subst cf. clear Hcf Ecf.
  apply (fun_ok_reach cfg prog "set" _ _ _ _ Hfind). intros s1 Hb.
  repeat rstep. apply reach_stop.
  split; [eapply is_rts_intro; reflexivity|]. post_tac.
  split; [reflexivity|]. split; [intros a Ha Hn; cbn [In] in Hn; mem_simp; reflexivity|].
  split; [repeat split; reflexivity|]. intros p v [E|[]]. inversion E; subst. mem_simp. reflexivity.
Qed.

(** [unsigned char m(unsigned char x) { if (x < b) return b; return x; }]: two RTS of its own *)
Lemma fun_m_ok : forall cfg prog px pb,
  ports cfg = [] -> var_cell cfg "m_x" px -> var_cell cfg "b" pb -> prog_has prog "m" fun_m ->
  fun_ok cfg prog "m" [] (fun s => Z.max (mget (mem s) px) (mget (mem s) pb)) [].
Proof.
  intros cfg prog px pb Hp (Lx & Rx & Ox) (Lb & Rb & Ob) (cf & Hcf & Hfind).
  assert (Vx : var_name "m_x") by names_tac. assert (Vb : var_name "b") by names_tac.
  eassert (Ecf : slines_of (harness_fun fun_m) = Some _)
    by (unfold harness_fun, fun_m; cbn; reflexivity).
  rewrite Ecf in Hcf. inversion Hcf; subst cf. clear Hcf Ecf.
  apply (fun_ok_reach cfg prog "m" _ _ _ _ Hfind). intros s1 (HA & HX & HY & HS & HM).
  pose proof (HM px) as Mx. pose proof (HM pb) as Mb.
  repeat rstep; apply reach_stop;
    (split; [eapply is_rts_intro; reflexivity|]); post_tac;
    (split; [|split; [intros a Ha Hn; reflexivity|split; [repeat split; reflexivity|intros p v []]]]).
  - bool_lia.
  - bool_lia.
Qed.
Print Assumptions fun_f_ok.
Print Assumptions fun_g_ok.
Print Assumptions fun_h_ok.
Print Assumptions fun_k_ok.
Print Assumptions fun_set_ok.
Print Assumptions fun_m_ok.

(** * The call statements of the listing *)

(** the cells of the variables and of the parameters *)
Record call_addrs := mkCA {
  ad_a : Z; ad_b : Z; ad_c : Z; ad_i : Z;
  ad_hx : Z; ad_kx : Z; ad_ky : Z; ad_sx : Z; ad_mx : Z }.

(** the environment of the listing: no split-port RAM; the four variables and the five parameter
    cells are different cells, anywhere outside the stack page; the program table holds the six
    functions as the harness lays them out (body, then RTS) *)
Definition call_env (cfg : config) (prog : sprogram) (A : call_addrs) : Prop :=
  ports cfg = [] /\
  var_cell cfg "a" (ad_a A) /\ var_cell cfg "b" (ad_b A) /\ var_cell cfg "c" (ad_c A) /\
  var_cell cfg "i" (ad_i A) /\ var_cell cfg "h_x" (ad_hx A) /\ var_cell cfg "k_x" (ad_kx A) /\
  var_cell cfg "k_y" (ad_ky A) /\ var_cell cfg "set_x" (ad_sx A) /\ var_cell cfg "m_x" (ad_mx A) /\
  NoDup [ad_a A; ad_b A; ad_c A; ad_i A; ad_hx A; ad_kx A; ad_ky A; ad_sx A; ad_mx A] /\
  prog_has prog "f" fun_f /\ prog_has prog "g" fun_g /\ prog_has prog "h" fun_h /\
  prog_has prog "k" fun_k /\ prog_has prog "set" fun_set /\ prog_has prog "m" fun_m.

(** two cells of the environment are different: by their positions in the [NoDup] list
    (a 0, b 1, c 2, i 3, h_x 4, k_x 5, k_y 6, set_x 7, m_x 8).  Only the inequalities a proof needs
    are put in the context: [lia] is exponential in the number of disequalities *)
Lemma nodup_nth_neq : forall (l : list Z) (i j : nat) d, NoDup l ->
  (i < length l)%nat -> (j < length l)%nat -> i <> j -> nth i l d <> nth j l d.
Proof.
  intros l i j d Hn Hi Hj Hij E. apply Hij. apply (proj1 (NoDup_nth l d) Hn i j Hi Hj E).
Qed.

Ltac neq Hnd i j :=
  exact (nodup_nth_neq _ i j 0 Hnd ltac:(cbn [length]; lia) ltac:(cbn [length]; lia) ltac:(lia)).

Ltac env_tac He :=
  destruct He as (Hp & (La & Ra & Oa) & (Lb & Rb & Ob) & (Lc & Rc & Oc) & (Li & Ri & Oi) &
                  (Lhx & Rhx & Ohx) & (Lkx & Rkx & Okx) & (Lky & Rky & Oky) &
                  (Lsx & Rsx & Osx) & (Lmx & Rmx & Omx) & Hnd & Pf & Pg & Ph & Pk & Pset & Pm).

Lemma val_indep_cell : forall D p, 0 <= p -> off_stack p -> ~ In p D ->
  val_indep D (fun s => mget (mem s) p).
Proof. intros D p Hp Ho Hn s s' H. apply (H p Hp Ho Hn). Qed.

Lemma val_indep_const : forall D k, val_indep D (fun _ => k).
Proof. intros D k s s' _. reflexivity. Qed.

Section Statements.
  Variable cfg : config.
  Variable prog : sprogram.
  Hypothesis Hports : ports cfg = [].

  (** [dst = E;] for any code [E] with a specification *)
  Lemma assign_code_ok : forall dst pd E (R : mstate -> mstate -> Prop),
    var_name dst -> layout cfg dst = Some pd -> 0 <= pd < 65536 ->
    code_ok cfg prog E R -> (forall s s', bytes_ok s -> R s s' -> bytes_ok s') ->
    code_ok cfg prog (assign_expr dst E)
      (fun s s2 => exists s', R s s' /\ s2 = set_mem s' (mset (mem s') pd (rA s'))).
  Proof.
    intros dst pd E R Vd Ld Rd HE Hb. unfold assign_expr.
    apply (code_ok_app cfg prog E _ R _ HE (sta_ok cfg prog Hports dst pd Vd Ld Rd) Hb).
  Qed.

  (** an argument that is a variable / a constant *)
  Lemma arg_var_ok : forall fn D done par pp x px,
    var_name (param_name fn par) -> layout cfg (param_name fn par) = Some pp ->
    0 <= pp < 65536 -> off_stack pp -> In pp D -> ~ In pp done ->
    var_name x -> layout cfg x = Some px -> 0 <= px < 65536 -> off_stack px -> ~ In px D ->
    arg_ok1 cfg prog fn D done (mkAS (mkArg par (evar x)) pp (fun s => mget (mem s) px) []).
  Proof.
    intros fn D done par pp x px Vp Lp Rp Op HD Hdone Vx Lx Rx Ox HxD.
    unfold arg_ok1. cbn [as_arg as_addr as_val as_writes arg_param arg_eval].
    repeat match goal with |- _ /\ _ => split end; try assumption; try lia.
    - apply (evar_ok cfg prog Hports x px Vx Lx Rx).
    - intros y [].
    - intros p _ [].
    - apply val_indep_cell; [lia|exact Ox|exact HxD].
  Qed.

  Lemma arg_const_ok : forall fn D done par pp k,
    var_name (param_name fn par) -> layout cfg (param_name fn par) = Some pp ->
    0 <= pp < 65536 -> off_stack pp -> In pp D -> ~ In pp done -> 0 <= k < 256 ->
    arg_ok1 cfg prog fn D done (mkAS (mkArg par (econst k)) pp (fun _ => k) []).
  Proof.
    intros fn D done par pp k Vp Lp Rp Op HD Hdone Hk.
    unfold arg_ok1. cbn [as_arg as_addr as_val as_writes arg_param arg_eval].
    repeat match goal with |- _ /\ _ => split end; try assumption; try lia.
    - apply (econst_ok cfg prog k Hk).
    - intros y [].
    - intros p _ [].
    - apply val_indep_const.
  Qed.
End Statements.

Lemma res_off_const : forall k : Z, res_off (fun _ => k).
Proof. intros k s s' _. reflexivity. Qed.

Lemma res_off_cell : forall p, 0 <= p -> off_stack p -> res_off (fun s => mget (mem s) p).
Proof. intros p Hp Ho s s' H. apply (H p Hp Ho). Qed.

Lemma sta_keeps : forall s p v, keeps_xys s (set_mem s (mset (mem s) p v)).
Proof. intros s p v. repeat split; reflexivity. Qed.

(** [f();]: [c = 1]; balanced *)
Theorem stmt_f_correct : forall cfg prog A st, call_env cfg prog A -> bytes_ok st ->
  exists st', calls_to cfg prog (call_tpl "f" []) st st' /\
    mget (mem st') (ad_c A) = 1 /\
    only_changes_off [ad_c A] st st' /\ keeps_xys st st'.
Proof.
  intros cfg prog A st He Hb. env_tac He.
  destruct (code_ok_calls_to cfg prog _ _ st
              (call_tpl_correct cfg prog Hp "f" [] [] [ad_c A] (fun _ => 1) [(ad_c A, fun _ => 1)]
                 ltac:(discriminate) (fun_f_ok cfg prog (ad_c A) Hp (conj Lc (conj Rc Oc)) Pf)
                 ltac:(intros a [<-|[]]; exact Oc) (res_off_const 1)
                 ltac:(intros p v [E|[]]; inversion E; apply res_off_const) I) Hb)
    as (st' & Hc & s1 & _ & (_ & Heff) & Hoc & Hk).
  exists st'. split; [exact Hc|]. split; [apply (Heff _ _ (or_introl eq_refl))|].
  split; assumption.
Qed.
Print Assumptions stmt_f_correct.

(** [c = g();]: [c = a] *)
Theorem stmt_g_correct : forall cfg prog A st, call_env cfg prog A -> bytes_ok st ->
  exists st', calls_to cfg prog (assign_call "c" "g" []) st st' /\
    mget (mem st') (ad_c A) = mget (mem st) (ad_a A) /\
    only_changes_off [ad_c A] st st' /\ keeps_xys st st'.
Proof.
  intros cfg prog A st He Hb. env_tac He.
  assert (Vc : var_name "c") by names_tac.
  pose proof (call_tpl_correct cfg prog Hp "g" [] [] [] (fun s => mget (mem s) (ad_a A)) []
                ltac:(discriminate) (fun_g_ok cfg prog (ad_a A) Hp (conj La (conj Ra Oa)) Pg)
                ltac:(intros a []) (res_off_cell (ad_a A) ltac:(lia) Oa) ltac:(intros p v []) I) as Hcall.
  destruct (code_ok_calls_to cfg prog _ _ st
              (assign_code_ok cfg prog Hp "c" (ad_c A) _ _ Vc Lc Rc Hcall
                 ltac:(intros s s' _ (s1 & _ & ((_ & Hx & _) & _) & _); exact Hx)) Hb)
    as (st' & Hc & s2 & (s1 & (_ & Hoc1 & _) & ((HA & Hb2 & _) & _) & Hoc & Hk) & ->).
  exists (set_mem s2 (mset (mem s2) (ad_c A) (rA s2))). split; [exact Hc|]. cbn [mem set_mem].
  split; [rewrite mget_mset_same, HA; apply (Hoc1 (ad_a A)); [lia|exact Oa|intros []]|].
  split; [|apply (keeps_xys_trans _ _ _ Hk (sta_keeps _ _ _))].
  intros x Hx Ho Hn. cbn [In] in Hn. cbn [mem set_mem]. rewrite mget_mset_other by lia.
  apply (Hoc x Hx Ho). intros [].
Qed.
Print Assumptions stmt_g_correct.

(** [c = h(a);]: [c = a + 1], the parameter cell [h_x] holds [a]; every other cell outside the
    stack page (in particular [a], [b], [i]) and S, X, Y unchanged *)
Theorem stmt_h_correct : forall cfg prog A st, call_env cfg prog A -> bytes_ok st ->
  exists st', calls_to cfg prog (assign_call "c" "h" [mkArg "x" (evar "a")]) st st' /\
    mget (mem st') (ad_c A) = (mget (mem st) (ad_a A) + 1) mod 256 /\
    mget (mem st') (ad_hx A) = mget (mem st) (ad_a A) /\
    mget (mem st') (ad_a A) = mget (mem st) (ad_a A) /\
    mget (mem st') (ad_b A) = mget (mem st) (ad_b A) /\
    mget (mem st') (ad_i A) = mget (mem st) (ad_i A) /\
    only_changes_off [ad_c A; ad_hx A] st st' /\ keeps_xys st st'.
Proof.
  intros cfg prog A st He Hb. env_tac He.
  assert (N1 : ad_a A <> ad_c A) by neq Hnd 0%nat 2%nat.
  assert (N2 : ad_a A <> ad_hx A) by neq Hnd 0%nat 4%nat.
  assert (N3 : ad_b A <> ad_c A) by neq Hnd 1%nat 2%nat.
  assert (N4 : ad_b A <> ad_hx A) by neq Hnd 1%nat 4%nat.
  assert (N5 : ad_i A <> ad_c A) by neq Hnd 3%nat 2%nat.
  assert (N6 : ad_i A <> ad_hx A) by neq Hnd 3%nat 4%nat.
  assert (N7 : ad_c A <> ad_hx A) by neq Hnd 2%nat 4%nat.
  clear Hnd.
  assert (Vc : var_name "c") by names_tac. assert (Va : var_name "a") by names_tac.
  assert (Vhx : var_name (param_name "h" "x")) by names_tac.
  pose proof (call_tpl_correct cfg prog Hp "h"
                [mkAS (mkArg "x" (evar "a")) (ad_hx A) (fun s => mget (mem s) (ad_a A)) []]
                [ad_hx A] [] (fun s => (mget (mem s) (ad_hx A) + 1) mod 256) []
                ltac:(discriminate) (fun_h_ok cfg prog (ad_hx A) Hp (conj Lhx (conj Rhx Ohx)) Ph)
                ltac:(intros a [])
                ltac:(intros s s' H; cbv beta; rewrite (H (ad_hx A) ltac:(lia) Ohx); reflexivity)
                ltac:(intros p v [])
                (conj (arg_var_ok cfg prog Hp "h" [ad_hx A] [] "x" (ad_hx A) "a" (ad_a A)
                         Vhx Lhx Rhx Ohx (or_introl eq_refl) (fun H => H) Va La Ra Oa
                         ltac:(cbn [In]; lia)) I)) as Hcall.
  destruct (code_ok_calls_to cfg prog _ _ st
              (assign_code_ok cfg prog Hp "c" (ad_c A) _ _ Vc Lc Rc Hcall
                 ltac:(intros s s' _ (s1 & _ & ((_ & Hx & _) & _) & _); exact Hx)) Hb)
    as (st' & Hc & s2 & (s1 & (_ & Hoc1 & _ & Hargs & _) & ((HA & Hb2 & Hoc2 & _) & _) & Hoc & Hk) & ->).
  pose proof (Hargs _ (or_introl eq_refl)) as Hx. cbn [as_addr as_val] in Hx.
  assert (Hfr : only_changes_off [ad_c A; ad_hx A] st
                  (set_mem s2 (mset (mem s2) (ad_c A) (rA s2)))).
  { intros x Hx0 Ho Hn. cbn [In] in Hn. cbn [mem set_mem]. rewrite mget_mset_other by lia.
    apply (Hoc x Hx0 Ho). cbn [app In]. lia. }
  exists (set_mem s2 (mset (mem s2) (ad_c A) (rA s2))). split; [exact Hc|].
  split; [cbn [mem set_mem]; rewrite mget_mset_same, HA, Hx; reflexivity|].
  split; [cbn [mem set_mem]; rewrite mget_mset_other by lia;
          rewrite (Hoc2 (ad_hx A) ltac:(lia) Ohx ltac:(intros [])); exact Hx|].
  split; [apply Hfr; [lia|exact Oa|cbn [In]; lia]|].
  split; [apply Hfr; [lia|exact Ob|cbn [In]; lia]|].
  split; [apply Hfr; [lia|exact Oi|cbn [In]; lia]|].
  split; [exact Hfr|apply (keeps_xys_trans _ _ _ Hk (sta_keeps _ _ _))].
Qed.
Print Assumptions stmt_h_correct.

(** [dst = e;] as a statement of main, for an expression with a specification *)
Lemma stmt_assign_expr : forall cfg prog dst pd E W val st,
  ports cfg = [] -> var_name dst -> layout cfg dst = Some pd -> 0 <= pd < 65536 ->
  expr_ok cfg prog E W val -> bytes_ok st ->
  exists st', calls_to cfg prog (assign_expr dst E) st st' /\
    mget (mem st') pd = val st /\ only_changes_off (pd :: W) st st' /\ keeps_xys st st'.
Proof.
  intros cfg prog dst pd E W val st Hp Vd Ld Rd HE Hb.
  destruct (code_ok_calls_to cfg prog _ _ st (assign_expr_ok cfg prog Hp dst pd E W val Vd Ld Rd HE) Hb)
    as (st' & Hc & Hv & _ & Hoc & Hk).
  exists st'. split; [exact Hc|]. split; [exact Hv|]. split; assumption.
Qed.

Section ListingCalls.
  Variable cfg : config.
  Variable prog : sprogram.
  Variable A : call_addrs.
  Hypothesis He : call_env cfg prog A.

  (** [g()] as an expression *)
  Lemma g_expr_ok : expr_ok cfg prog (call_tpl "g" []) [] (fun s => mget (mem s) (ad_a A)).
  Proof.
    env_tac He.
    apply (call_expr_ok cfg prog Hp "g" [] [] [] (fun s => mget (mem s) (ad_a A)) []);
      [discriminate|apply (fun_g_ok cfg prog (ad_a A) Hp (conj La (conj Ra Oa)) Pg)
      |intros a []|apply (res_off_cell (ad_a A)); [lia|exact Oa]|intros p v []|exact I|].
    intros s s1 _ (_ & Hoc & _). apply (Hoc (ad_a A)); [lia|exact Oa|intros []].
  Qed.

  (** [h(e)] for any argument expression [e] whose value does not depend on [h_x] and on what
      [e] writes *)
  Lemma h_expr_ok : forall E W val,
    expr_ok cfg prog E W val -> ~ In (ad_hx A) [] -> val_indep (ad_hx A :: W) val ->
    expr_ok cfg prog (call_tpl "h" [mkArg "x" E]) ((ad_hx A :: W) ++ [])
      (fun s => (val s + 1) mod 256).
  Proof.
    intros E W val HE _ Hind. env_tac He.
    assert (Vhx : var_name (param_name "h" "x")) by names_tac.
    apply (call_expr_ok cfg prog Hp "h" [mkAS (mkArg "x" E) (ad_hx A) val W] (ad_hx A :: W) []
             (fun s => (mget (mem s) (ad_hx A) + 1) mod 256) []);
      [discriminate|apply (fun_h_ok cfg prog (ad_hx A) Hp (conj Lhx (conj Rhx Ohx)) Ph)
      |intros a []
      |intros s s' H; cbv beta; rewrite (H (ad_hx A) ltac:(lia) Ohx); reflexivity
      |intros p v []| |].
    - split; [|exact I]. unfold arg_ok1. cbn [as_arg as_addr as_val as_writes arg_param arg_eval].
      split; [exact Vhx|]. split; [exact Lhx|]. split; [exact Rhx|]. split; [exact Ohx|].
      split; [left; reflexivity|]. split; [intros []|]. split; [exact HE|].
      split; [intros x Hx; right; exact Hx|]. split; [intros p []|exact Hind].
    - intros s s1 _ (_ & _ & _ & Hargs & _).
      pose proof (Hargs _ (or_introl eq_refl)) as Hx. cbn [as_addr as_val] in Hx.
      rewrite Hx. reflexivity.
  Qed.

  Lemma a_expr_ok : expr_ok cfg prog (evar "a") [] (fun s => mget (mem s) (ad_a A)).
  Proof.
    env_tac He. apply (evar_ok cfg prog Hp "a" (ad_a A)); [names_tac|exact La|exact Ra].
  Qed.

  Lemma a_indep_hx : val_indep [ad_hx A] (fun s => mget (mem s) (ad_a A)).
  Proof.
    env_tac He. assert (N : ad_a A <> ad_hx A) by neq Hnd 0%nat 4%nat.
    apply val_indep_cell; [lia|exact Oa|cbn [In]; lia].
  Qed.

  (** [h(a)] and [h(h(a))] *)
  Lemma ha_expr_ok :
    expr_ok cfg prog (call_tpl "h" [mkArg "x" (evar "a")]) ([ad_hx A] ++ [])
      (fun s => (mget (mem s) (ad_a A) + 1) mod 256).
  Proof. apply (h_expr_ok _ [] _ a_expr_ok (fun H => H) a_indep_hx). Qed.

  Lemma hha_expr_ok :
    expr_ok cfg prog (call_tpl "h" [mkArg "x" (call_tpl "h" [mkArg "x" (evar "a")])])
      ((ad_hx A :: [ad_hx A] ++ []) ++ [])
      (fun s => ((mget (mem s) (ad_a A) + 1) mod 256 + 1) mod 256).
  Proof.
    apply (h_expr_ok _ _ _ ha_expr_ok (fun H => H)).
    env_tac He. assert (N : ad_a A <> ad_hx A) by neq Hnd 0%nat 4%nat.
    intros s s' H. cbv beta. rewrite (H (ad_a A)); [reflexivity|lia|exact Oa|cbn [app In]; lia].
  Qed.

  (** [c = h(h(a));]: [c = a + 2] *)
  Theorem stmt_hh_correct : forall st, bytes_ok st ->
    exists st', calls_to cfg prog
                  (assign_call "c" "h" [mkArg "x" (call_tpl "h" [mkArg "x" (evar "a")])]) st st' /\
      mget (mem st') (ad_c A) = (mget (mem st) (ad_a A) + 2) mod 256 /\
      only_changes_off [ad_c A; ad_hx A] st st' /\ keeps_xys st st'.
  Proof.
    intros st Hb. pose proof He as He'. env_tac He'.
    destruct (stmt_assign_expr cfg prog "c" (ad_c A) _ _ _ st Hp ltac:(names_tac) Lc Rc hha_expr_ok Hb)
      as (st' & Hc & Hv & Hoc & Hk).
    exists st'. split; [exact Hc|]. split; [rewrite Hv; lia|]. split; [|exact Hk].
    eapply only_changes_off_incl; [|exact Hoc]. intros x; cbn [app In]; tauto.
  Qed.

  (** [a = h(a) + 1;]: [a = a + 2] *)
  Theorem stmt_h_plus1_correct : forall st, bytes_ok st ->
    exists st', calls_to cfg prog
                  (assign_expr "a" (eadd_const (call_tpl "h" [mkArg "x" (evar "a")]) 1)) st st' /\
      mget (mem st') (ad_a A) = (mget (mem st) (ad_a A) + 2) mod 256 /\
      only_changes_off [ad_a A; ad_hx A] st st' /\ keeps_xys st st'.
  Proof.
    intros st Hb. pose proof He as He'. env_tac He'.
    destruct (stmt_assign_expr cfg prog "a" (ad_a A) _ _ _ st Hp ltac:(names_tac) La Ra
                (eadd_const_ok cfg prog _ _ _ 1 ltac:(lia) ha_expr_ok) Hb)
      as (st' & Hc & Hv & Hoc & Hk).
    exists st'. split; [exact Hc|]. split; [rewrite Hv; lia|]. split; [|exact Hk].
    eapply only_changes_off_incl; [|exact Hoc]. intros x; cbn [app In]; tauto.
  Qed.
End ListingCalls.
Print Assumptions stmt_hh_correct.
Print Assumptions stmt_h_plus1_correct.

Section ListingCalls2.
  Variable cfg : config.
  Variable prog : sprogram.
  Variable A : call_addrs.
  Hypothesis He : call_env cfg prog A.

  (** [k(e1, e2)] for two argument expressions that write nothing outside the stack page and do
      not read the parameter cells of [k] *)
  Lemma k_expr_ok : forall E1 val1 E2 val2,
    expr_ok cfg prog E1 [] val1 -> expr_ok cfg prog E2 [] val2 ->
    val_indep [ad_kx A; ad_ky A] val1 -> val_indep [ad_kx A; ad_ky A] val2 ->
    expr_ok cfg prog (call_tpl "k" [mkArg "x" E1; mkArg "y" E2]) ([ad_kx A; ad_ky A] ++ [])
      (fun s => (val1 s + val2 s) mod 256).
  Proof.
    intros E1 val1 E2 val2 H1 H2 I1 I2. env_tac He.
    assert (N : ad_kx A <> ad_ky A) by neq Hnd 5%nat 6%nat.
    assert (Vkx : var_name (param_name "k" "x")) by names_tac.
    assert (Vky : var_name (param_name "k" "y")) by names_tac.
    apply (call_expr_ok cfg prog Hp "k"
             [mkAS (mkArg "x" E1) (ad_kx A) val1 []; mkAS (mkArg "y" E2) (ad_ky A) val2 []]
             [ad_kx A; ad_ky A] []
             (fun s => (mget (mem s) (ad_kx A) + mget (mem s) (ad_ky A)) mod 256) []);
      [discriminate
      |apply (fun_k_ok cfg prog (ad_kx A) (ad_ky A) Hp (conj Lkx (conj Rkx Okx))
                (conj Lky (conj Rky Oky)) Pk)
      |intros a []
      |intros s s' H; cbv beta;
       rewrite (H (ad_kx A) ltac:(lia) Okx), (H (ad_ky A) ltac:(lia) Oky); reflexivity
      |intros p v []| |].
    - split; [|split; [|exact I]]; unfold arg_ok1;
        cbn [as_arg as_addr as_val as_writes arg_param arg_eval].
      + split; [exact Vkx|]. split; [exact Lkx|]. split; [exact Rkx|]. split; [exact Okx|].
        split; [left; reflexivity|]. split; [intros []|]. split; [exact H1|].
        split; [intros x []|]. split; [intros p _ []|exact I1].
      + split; [exact Vky|]. split; [exact Lky|]. split; [exact Rky|]. split; [exact Oky|].
        split; [right; left; reflexivity|]. split; [cbn [In]; lia|]. split; [exact H2|].
        split; [intros x []|]. split; [intros p _ []|exact I2].
    - intros s s1 _ (_ & _ & _ & Hargs & _).
      pose proof (Hargs _ (or_introl eq_refl)) as Hx.
      pose proof (Hargs _ (or_intror (or_introl eq_refl))) as Hy.
      cbn [as_addr as_val] in Hx, Hy. rewrite Hx, Hy. reflexivity.
  Qed.

  (** [c = k(a, b);]: [c = a + b] *)
  Theorem stmt_k_correct : forall st, bytes_ok st ->
    exists st', calls_to cfg prog
                  (assign_call "c" "k" [mkArg "x" (evar "a"); mkArg "y" (evar "b")]) st st' /\
      mget (mem st') (ad_c A) = (mget (mem st) (ad_a A) + mget (mem st) (ad_b A)) mod 256 /\
      only_changes_off [ad_c A; ad_kx A; ad_ky A] st st' /\ keeps_xys st st'.
  Proof.
    intros st Hb. pose proof He as He'. env_tac He'.
    assert (N1 : ad_a A <> ad_kx A) by neq Hnd 0%nat 5%nat.
    assert (N2 : ad_a A <> ad_ky A) by neq Hnd 0%nat 6%nat.
    assert (N3 : ad_b A <> ad_kx A) by neq Hnd 1%nat 5%nat.
    assert (N4 : ad_b A <> ad_ky A) by neq Hnd 1%nat 6%nat.
    destruct (stmt_assign_expr cfg prog "c" (ad_c A) _ _ _ st Hp ltac:(names_tac) Lc Rc
                (k_expr_ok _ _ _ _
                   (evar_ok cfg prog Hp "a" (ad_a A) ltac:(names_tac) La Ra)
                   (evar_ok cfg prog Hp "b" (ad_b A) ltac:(names_tac) Lb Rb)
                   (val_indep_cell [ad_kx A; ad_ky A] (ad_a A) ltac:(lia) Oa ltac:(cbn [In]; lia))
                   (val_indep_cell [ad_kx A; ad_ky A] (ad_b A) ltac:(lia) Ob ltac:(cbn [In]; lia))) Hb)
      as (st' & Hc & Hv & Hoc & Hk).
    exists st'. split; [exact Hc|]. split; [exact Hv|]. split; [|exact Hk].
    eapply only_changes_off_incl; [|exact Hoc]. intros x; cbn [app In]; tauto.
  Qed.

  (** [c = k(g(), 3);]: [c = a + 3] *)
  Theorem stmt_kg3_correct : forall st, bytes_ok st ->
    exists st', calls_to cfg prog
                  (assign_call "c" "k" [mkArg "x" (call_tpl "g" []); mkArg "y" (econst 3)]) st st' /\
      mget (mem st') (ad_c A) = (mget (mem st) (ad_a A) + 3) mod 256 /\
      only_changes_off [ad_c A; ad_kx A; ad_ky A] st st' /\ keeps_xys st st'.
  Proof.
    intros st Hb. pose proof He as He'. env_tac He'.
    assert (N1 : ad_a A <> ad_kx A) by neq Hnd 0%nat 5%nat.
    assert (N2 : ad_a A <> ad_ky A) by neq Hnd 0%nat 6%nat.
    destruct (stmt_assign_expr cfg prog "c" (ad_c A) _ _ _ st Hp ltac:(names_tac) Lc Rc
                (k_expr_ok _ _ _ _ (g_expr_ok cfg prog A He)
                   (econst_ok cfg prog 3 ltac:(lia))
                   (val_indep_cell [ad_kx A; ad_ky A] (ad_a A) ltac:(lia) Oa ltac:(cbn [In]; lia))
                   (val_indep_const _ 3)) Hb)
      as (st' & Hc & Hv & Hoc & Hk).
    exists st'. split; [exact Hc|]. split; [exact Hv|]. split; [|exact Hk].
    eapply only_changes_off_incl; [|exact Hoc]. intros x; cbn [app In]; tauto.
  Qed.

  (** [c = m(a);]: [c = max a b]; the callee returns from one of its two RTS *)
  Theorem stmt_m_correct : forall st, bytes_ok st ->
    exists st', calls_to cfg prog (assign_call "c" "m" [mkArg "x" (evar "a")]) st st' /\
      mget (mem st') (ad_c A) = Z.max (mget (mem st) (ad_a A)) (mget (mem st) (ad_b A)) /\
      only_changes_off [ad_c A; ad_mx A] st st' /\ keeps_xys st st'.
  Proof.
    intros st Hb. pose proof He as He'. env_tac He'.
    assert (N1 : ad_a A <> ad_mx A) by neq Hnd 0%nat 8%nat.
    assert (N2 : ad_b A <> ad_mx A) by neq Hnd 1%nat 8%nat.
    assert (Vmx : var_name (param_name "m" "x")) by names_tac.
    assert (Hm : expr_ok cfg prog (call_tpl "m" [mkArg "x" (evar "a")]) ([ad_mx A] ++ [])
                   (fun s => Z.max (mget (mem s) (ad_a A)) (mget (mem s) (ad_b A)))).
    { apply (call_expr_ok cfg prog Hp "m"
               [mkAS (mkArg "x" (evar "a")) (ad_mx A) (fun s => mget (mem s) (ad_a A)) []]
               [ad_mx A] []
               (fun s => Z.max (mget (mem s) (ad_mx A)) (mget (mem s) (ad_b A))) []);
        [discriminate
        |apply (fun_m_ok cfg prog (ad_mx A) (ad_b A) Hp (conj Lmx (conj Rmx Omx))
                  (conj Lb (conj Rb Ob)) Pm)
        |intros a []
        |intros s s' H; cbv beta;
         rewrite (H (ad_mx A) ltac:(lia) Omx), (H (ad_b A) ltac:(lia) Ob); reflexivity
        |intros p v []
        |split; [|exact I];
         apply (arg_var_ok cfg prog Hp "m" [ad_mx A] [] "x" (ad_mx A) "a" (ad_a A)
                  Vmx Lmx Rmx Omx (or_introl eq_refl) (fun H => H) ltac:(names_tac) La Ra Oa
                  ltac:(cbn [In]; lia))|].
      intros s s1 _ (_ & Hoc & _ & Hargs & _).
      pose proof (Hargs _ (or_introl eq_refl)) as Hx. cbn [as_addr as_val] in Hx.
      rewrite Hx, (Hoc (ad_b A) ltac:(lia) Ob ltac:(cbn [In]; lia)). reflexivity. }
    destruct (stmt_assign_expr cfg prog "c" (ad_c A) _ _ _ st Hp ltac:(names_tac) Lc Rc Hm Hb)
      as (st' & Hc & Hv & Hoc & Hk).
    exists st'. split; [exact Hc|]. split; [exact Hv|]. split; [|exact Hk].
    eapply only_changes_off_incl; [|exact Hoc]. intros x; cbn [app In]; tauto.
  Qed.

  (** [set(5);]: [c = 5] *)
  Theorem stmt_set_correct : forall st, bytes_ok st ->
    exists st', calls_to cfg prog (call_tpl "set" [mkArg "x" (econst 5)]) st st' /\
      mget (mem st') (ad_c A) = 5 /\
      only_changes_off [ad_c A; ad_sx A] st st' /\ keeps_xys st st'.
  Proof.
    intros st Hb. pose proof He as He'. env_tac He'.
    assert (Vsx : var_name (param_name "set" "x")) by names_tac.
    destruct (code_ok_calls_to cfg prog _ _ st
                (call_tpl_correct cfg prog Hp "set"
                   [mkAS (mkArg "x" (econst 5)) (ad_sx A) (fun _ => 5) []] [ad_sx A] [ad_c A]
                   (fun s => mget (mem s) (ad_sx A)) [(ad_c A, fun s => mget (mem s) (ad_sx A))]
                   ltac:(discriminate)
                   (fun_set_ok cfg prog (ad_sx A) (ad_c A) Hp (conj Lsx (conj Rsx Osx))
                      (conj Lc (conj Rc Oc)) Pset)
                   ltac:(intros a [<-|[]]; exact Oc) (res_off_cell (ad_sx A) ltac:(lia) Osx)
                   ltac:(intros p v [E|[]]; inversion E; apply (res_off_cell (ad_sx A)); [lia|exact Osx])
                   (conj (arg_const_ok cfg prog "set" [ad_sx A] [] "x" (ad_sx A) 5
                            Vsx Lsx Rsx Osx (or_introl eq_refl) (fun H => H) ltac:(lia)) I)) Hb)
      as (st' & Hc & s1 & (_ & _ & _ & Hargs & _) & (_ & Heff) & Hoc & Hk).
    exists st'. split; [exact Hc|].
    split; [rewrite (Heff _ _ (or_introl eq_refl)); apply (Hargs _ (or_introl eq_refl))|].
    split; [|exact Hk].
    eapply only_changes_off_incl; [|exact Hoc]. intros x; cbn [app In]; tauto.
  Qed.
End ListingCalls2.
Print Assumptions stmt_k_correct.
Print Assumptions stmt_kg3_correct.
Print Assumptions stmt_m_correct.
Print Assumptions stmt_set_correct.

(** * A call as a condition; calls in a loop *)

Lemma goes_calls_to : forall cfg prog C sl st st', slines_of C = Some sl ->
  goes cfg prog "main" sl [] 0 st (length sl) st' -> calls_to cfg prog C st st'.
Proof.
  intros cfg prog C sl st st' Hsl (N & HN). exists sl. split; [exact Hsl|]. exists N.
  intros inl_sem ext_call fuel Hf.
  destruct (HN inl_sem ext_call (fuel - N)%nat [] 0%N) as (tr' & cy' & E).
  replace fuel with (N + (fuel - N))%nat by lia. rewrite E.
  destruct (fuel - N)%nat as [|k] eqn:Ek; [lia|].
  rewrite run_S. rewrite (proj2 (nth_error_None sl (length sl))) by lia. eauto.
Qed.

(** [if (g()) c = 1;]: the result of the call is compared with 0 ([CMP #0; BEQ .ifend1]);
    [c = 1] iff [a <> 0] *)
Theorem stmt_if_g_correct : forall cfg prog A st, call_env cfg prog A -> bytes_ok st ->
  exists st', calls_to cfg prog (if_expr_tpl (call_tpl "g" []) (assign8 "c" 1) 1) st st' /\
    mget (mem st') (ad_c A) = (if mget (mem st) (ad_a A) =? 0 then mget (mem st) (ad_c A) else 1) /\
    only_changes_off [ad_c A] st st' /\ keeps_xys st st'.
Proof.
  intros cfg prog A st He Hb. env_tac He.
  assert (Vc : var_name "c") by names_tac.
  eassert (Esl : slines_of (if_expr_tpl (call_tpl "g" []) (assign8 "c" 1) 1) = Some _)
    by (vm_compute; reflexivity).
  match type of Esl with _ = Some (_ :: ?r) =>
    destruct (call_seg cfg prog "g" [] (fun s => mget (mem s) (ad_a A)) [] false "g" st
                (fun_g_ok cfg prog (ad_a A) Hp (conj La (conj Ra Oa)) Pg)
                ltac:(intros a []) (res_off_cell (ad_a A) ltac:(lia) Oa) ltac:(intros p v [])
                Hb "main" [] r []) as (s1 & G1 & ((HA & Hb1 & Hoc1 & Hk1) & _))
  end.
  cbn [app length Nat.add] in G1.
  pose proof Hb as (_ & _ & _ & _ & HM). pose proof (HM (ad_a A)) as Ma.
  match type of G1 with goes _ _ _ ?sl _ _ _ _ _ =>
    assert (Hr : reach cfg sl 1 s1 (fun (_ pc' : nat) (s' : mstate) =>
              pc' = 6%nat /\
              mget (mem s') (ad_c A) = (if rA s1 =? 0 then mget (mem s1) (ad_c A) else 1) /\
              (forall x, 0 <= x -> x <> ad_c A -> mget (mem s') x = mget (mem s1) x) /\
              keeps_xys s1 s'))
  end.
  { repeat rstep; apply reach_stop; (split; [reflexivity|]); post_tac;
      change (byte 0) with 0 in *; change (byte 1) with 1; rewrite ?Z.sub_0_r in *.
    - (* the branch is taken: A = 0 *)
      replace (rA s1 =? 0) with true by (rewrite HA in *; unfold byte in *; lia).
      split; [reflexivity|]. split; [intros x _ _; reflexivity|repeat split; reflexivity].
    - replace (rA s1 =? 0) with false by (rewrite HA in *; unfold byte in *; lia).
      split; [mem_simp; reflexivity|].
      split; [intros x Hx Hn; mem_simp; reflexivity|repeat split; reflexivity]. }
  destruct (goes_reach cfg prog "main" _ [] _ _ _ Hr) as (n & pc' & st' & G2 & -> & Hv & Hfr & Hk2).
  exists st'. split; [apply (goes_calls_to cfg prog _ _ _ _ Esl (goes_trans cfg prog _ _ _ _ _ _ _ _ _ G1 G2))|].
  split; [rewrite Hv, HA, (Hoc1 (ad_c A) ltac:(lia) Oc ltac:(intros [])); reflexivity|].
  split; [|apply (keeps_xys_trans _ _ _ Hk1 Hk2)].
  intros x Hx Ho Hn. cbn [In] in Hn. rewrite (Hfr x Hx ltac:(lia)). apply (Hoc1 x Hx Ho). intros [].
Qed.
Print Assumptions stmt_if_g_correct.

(** [for (i = 0; i != 3; i++) f();]: three calls; [i = 3], [c = 1].  (The for rule of
    Proofs/GenCtlFacts.v is about bodies specified on [Sem.run] with an EMPTY program table, which
    a [JSR] does not satisfy; the loop is run here on [goes], pass by pass.) *)
Theorem stmt_for_f_correct : forall cfg prog A st, call_env cfg prog A -> bytes_ok st ->
  exists st',
    calls_to cfg prog (for_tpl (assign8 "i" 0) (CConst RNeq "i" 3) (template (SInc8 "i"))
                         (call_tpl "f" []) 1) st st' /\
    mget (mem st') (ad_i A) = 3 /\ mget (mem st') (ad_c A) = 1 /\
    only_changes_off [ad_i A; ad_c A] st st' /\ keeps_xys st st'.
Proof.
  intros cfg prog A st He Hb. env_tac He.
  assert (Nic : ad_i A <> ad_c A) by neq Hnd 3%nat 2%nat. clear Hnd.
  assert (Vi : var_name "i") by names_tac.
  eassert (Esl : slines_of (for_tpl (assign8 "i" 0) (CConst RNeq "i" 3) (template (SInc8 "i"))
                              (call_tpl "f" []) 1) = Some _) by (vm_compute; reflexivity).
  match type of Esl with _ = Some ?sl0 => set (sl := sl0) in * end.
  (* one pass from the [.for1] label *)
  assert (Hpass : forall s v, bytes_ok s -> mget (mem s) (ad_i A) = v -> 0 <= v < 3 ->
            exists s', goes cfg prog "main" sl [] 5 s (if v + 1 =? 3 then 13%nat else 5%nat) s' /\
              bytes_ok s' /\ mget (mem s') (ad_i A) = v + 1 /\ mget (mem s') (ad_c A) = 1 /\
              only_changes_off [ad_i A; ad_c A] s s' /\ keeps_xys s s').
  { intros s v Hbs Hv Hv3.
    assert (G0 : goes cfg prog "main" sl [] 5 s 6 s)
      by (apply (goes_stepn cfg prog "main" sl [] 1%nat); reflexivity).
    assert (Gc : exists s2, goes cfg prog "main" sl [] 6 s 7 s2 /\
              call_rel [ad_c A] (fun _ => 1) [(ad_c A, fun _ => 1)] s s2).
    { unfold sl.
      match goal with |- context [goes _ _ _ (?l0 :: ?l1 :: ?l2 :: ?l3 :: ?l4 :: ?l5 :: _ :: ?r)] =>
        destruct (call_seg cfg prog "f" [ad_c A] (fun _ => 1) [(ad_c A, fun _ => 1)] false "f" s
                    (fun_f_ok cfg prog (ad_c A) Hp (conj Lc (conj Rc Oc)) Pf)
                    ltac:(intros a [<-|[]]; exact Oc) (res_off_const 1)
                    ltac:(intros p v0 [E|[]]; inversion E; apply res_off_const)
                    Hbs "main" [l0; l1; l2; l3; l4; l5] r []) as (s2 & G & Hrel)
      end.
      exists s2. split; [exact G|exact Hrel]. }
    destruct Gc as (s2 & Gc & ((_ & Hb2 & Hoc2 & Hk2) & Heff)).
    pose proof (Heff _ _ (or_introl eq_refl)) as Hc2. cbv beta in Hc2.
    assert (Hi2 : mget (mem s2) (ad_i A) = v)
      by (rewrite (Hoc2 (ad_i A) ltac:(lia) Oi ltac:(cbn [In]; lia)); exact Hv).
    assert (Hr : reach cfg sl 7 s2 (fun (_ pc' : nat) (s' : mstate) =>
              pc' = (if v + 1 =? 3 then 13%nat else 5%nat) /\
              mget (mem s') (ad_i A) = v + 1 /\
              (forall x, 0 <= x -> x <> ad_i A -> mget (mem s') x = mget (mem s2) x) /\
              keeps_xys s2 s')).
    { unfold sl. repeat (not_at 5%nat; rstep); apply reach_stop; post_tac;
        change (byte 3) with 3 in *; rewrite Hi2 in *;
        (split; [destruct (Z.eqb_spec (v + 1) 3); [|]; try reflexivity; exfalso; unfold byte in *; lia|]);
        (split; [mem_simp; unfold byte; lia|]);
        (split; [intros x Hx Hn; mem_simp; reflexivity|repeat split; reflexivity]). }
    destruct Hr as (n & pc' & s' & Hs & -> & Hi' & Hfr & Hk').
    exists s'. split; [apply (goes_trans cfg prog _ _ _ _ _ _ _ _ _ G0);
                       apply (goes_trans cfg prog _ _ _ _ _ _ _ _ _ Gc);
                       apply (goes_stepn cfg prog "main" sl [] n _ _ _ _ Hs)|].
    split; [apply (stepn_bytes_ok cfg sl n _ _ _ _ Hs Hb2)|]. split; [exact Hi'|].
    split; [rewrite (Hfr (ad_c A) ltac:(lia) ltac:(lia)); exact Hc2|].
    split; [|apply (keeps_xys_trans _ _ _ Hk2 Hk')].
    intros x Hx Ho Hn. cbn [In] in Hn. rewrite (Hfr x Hx ltac:(lia)).
    apply (Hoc2 x Hx Ho). cbn [In]. lia. }
  (* the initialisation and the first test *)
  assert (H0 : reach cfg sl 0 st (fun (_ pc' : nat) (s' : mstate) =>
            pc' = 5%nat /\ mget (mem s') (ad_i A) = 0 /\
            (forall x, 0 <= x -> x <> ad_i A -> mget (mem s') x = mget (mem st) x) /\
            keeps_xys st s')).
  { unfold sl. repeat (not_at 5%nat; rstep); try apply reach_stop; post_tac;
      change (byte 0) with 0 in *; change (byte 3) with 3 in *.
    - exfalso. unfold byte in *. lia.
    - split; [reflexivity|]. split; [mem_simp; reflexivity|].
      split; [intros x Hx Hn; mem_simp; reflexivity|repeat split; reflexivity]. }
  destruct H0 as (n0 & pc0 & s0 & Hs0 & -> & Hi0 & Hfr0 & Hk0).
  pose proof (stepn_bytes_ok cfg sl n0 _ _ _ _ Hs0 Hb) as Hb0.
  destruct (Hpass s0 0 Hb0 Hi0 ltac:(lia)) as (s1 & G1 & Hb1 & Hi1 & Hc1 & Hoc1 & Hk1).
  destruct (Hpass s1 1 Hb1 Hi1 ltac:(lia)) as (s2 & G2 & Hb2 & Hi2 & Hc2 & Hoc2 & Hk2).
  destruct (Hpass s2 2 Hb2 Hi2 ltac:(lia)) as (s3 & G3 & Hb3 & Hi3 & Hc3 & Hoc3 & Hk3).
  cbn in G1, G2, G3.
  exists s3. split.
  - apply (goes_calls_to cfg prog _ sl _ _ Esl).
    apply (goes_trans cfg prog _ _ _ _ _ _ _ _ _ (goes_stepn cfg prog "main" sl [] n0 _ _ _ _ Hs0)).
    apply (goes_trans cfg prog _ _ _ _ _ _ _ _ _ G1).
    apply (goes_trans cfg prog _ _ _ _ _ _ _ _ _ G2). exact G3.
  - split; [exact Hi3|]. split; [exact Hc3|].
    split; [|apply (keeps_xys_trans _ _ _ Hk0); apply (keeps_xys_trans _ _ _ Hk1);
             apply (keeps_xys_trans _ _ _ Hk2 Hk3)].
    apply (only_changes_off_trans _ _ s0);
      [intros x Hx Ho Hn; cbn [In] in Hn; apply (Hfr0 x Hx); lia|].
    apply (only_changes_off_trans _ _ _ _ Hoc1). apply (only_changes_off_trans _ _ _ _ Hoc2 Hoc3).
Qed.
Print Assumptions stmt_for_f_correct.

(** * Balanced: S after the statement is S before; the final state is unique *)

Lemma calls_to_det : forall cfg prog C st s1 s2,
  calls_to cfg prog C st s1 -> calls_to cfg prog C st s2 -> s1 = s2.
Proof.
  intros cfg prog C st s1 s2 (sl1 & E1 & N1 & H1) (sl2 & E2 & N2 & H2).
  rewrite E1 in E2. inversion E2; subst sl2.
  destruct (H1 (fun _ _ => None) (fun _ _ => None) (S (N1 + N2)) ltac:(lia)) as (tr1 & cy1 & R1).
  destruct (H2 (fun _ _ => None) (fun _ _ => None) (S (N1 + N2)) ltac:(lia)) as (tr2 & cy2 & R2).
  rewrite R1 in R2. inversion R2. reflexivity.
Qed.
Print Assumptions calls_to_det.

(** what the call rule says of the stack page: the state after the call has the memory the callee
    left; the two cells below the caller's S hold the markers of the call (depth, 255 - depth) *)
Lemma call_rule_stack_cells : forall d s s2,
  mget (mem s2) (256 + rS s) = byte d ->
  mget (mem s2) (256 + byte (rS s - 1)) = byte (255 - d) ->
  mem (set_sp s2 (rS s)) = mem s2 /\ rS (set_sp s2 (rS s)) = rS s /\
  rA (set_sp s2 (rS s)) = rA s2 /\ rX (set_sp s2 (rS s)) = rX s2 /\ rY (set_sp s2 (rS s)) = rY s2 /\
  mget (mem (set_sp s2 (rS s))) (256 + rS s) = byte d /\
  mget (mem (set_sp s2 (rS s))) (256 + byte (rS s - 1)) = byte (255 - d).
Proof. intros d s s2 H1 H2. repeat split; assumption. Qed.

(** the eleven statements of the listing *)
Definition listing_stmts : list code :=
  [call_tpl "f" [];
   assign_call "c" "g" [];
   assign_call "c" "h" [mkArg "x" (evar "a")];
   assign_call "c" "k" [mkArg "x" (evar "a"); mkArg "y" (evar "b")];
   call_tpl "set" [mkArg "x" (econst 5)];
   assign_call "c" "h" [mkArg "x" (call_tpl "h" [mkArg "x" (evar "a")])];
   assign_call "c" "k" [mkArg "x" (call_tpl "g" []); mkArg "y" (econst 3)];
   if_expr_tpl (call_tpl "g" []) (assign8 "c" 1) 1;
   for_tpl (assign8 "i" 0) (CConst RNeq "i" 3) (template (SInc8 "i")) (call_tpl "f" []) 1;
   assign_call "c" "m" [mkArg "x" (evar "a")];
   assign_expr "a" (eadd_const (call_tpl "h" [mkArg "x" (evar "a")]) 1)].

(** every statement of the listing halts from EVERY byte-valued state, whatever S (no lower bound
    on S is needed: pushes and pulls wrap inside page 1 consistently; the variables are outside
    page 1), and leaves S, X and Y as they were: the calls are balanced *)
Theorem listing_balanced : forall cfg prog A C st,
  call_env cfg prog A -> In C listing_stmts -> bytes_ok st ->
  exists st', calls_to cfg prog C st st' /\ rS st' = rS st /\ rX st' = rX st /\ rY st' = rY st.
Proof.
  intros cfg prog A C st He Hin Hb.
  assert (Hk : exists st', calls_to cfg prog C st st' /\ keeps_xys st st').
  { unfold listing_stmts in Hin. cbn [In] in Hin.
    repeat match goal with H : _ \/ _ |- _ => destruct H as [H|H] end; try contradiction; subst C.
    - destruct (stmt_f_correct cfg prog A st He Hb) as (st' & Hc & _ & _ & Hk). eauto.
    - destruct (stmt_g_correct cfg prog A st He Hb) as (st' & Hc & _ & _ & Hk). eauto.
    - destruct (stmt_h_correct cfg prog A st He Hb) as (st' & Hc & _ & _ & _ & _ & _ & _ & Hk). eauto.
    - destruct (stmt_k_correct cfg prog A He st Hb) as (st' & Hc & _ & _ & Hk). eauto.
    - destruct (stmt_set_correct cfg prog A He st Hb) as (st' & Hc & _ & _ & Hk). eauto.
    - destruct (stmt_hh_correct cfg prog A He st Hb) as (st' & Hc & _ & _ & Hk). eauto.
    - destruct (stmt_kg3_correct cfg prog A He st Hb) as (st' & Hc & _ & _ & Hk). eauto.
    - destruct (stmt_if_g_correct cfg prog A st He Hb) as (st' & Hc & _ & _ & Hk). eauto.
    - destruct (stmt_for_f_correct cfg prog A st He Hb) as (st' & Hc & _ & _ & _ & Hk). eauto.
    - destruct (stmt_m_correct cfg prog A He st Hb) as (st' & Hc & _ & _ & Hk). eauto.
    - destruct (stmt_h_plus1_correct cfg prog A He st Hb) as (st' & Hc & _ & _ & Hk). eauto. }
  destruct Hk as (st' & Hc & Kx & Ky & Ks). exists st'. repeat split; assumption.
Qed.
Print Assumptions listing_balanced.

(** * The environment is satisfiable: a concrete layout, the program table of the harness *)

Definition cfg_calls : config :=
  mkCfg (fun y =>
    if String.eqb y "a" then Some 128 else if String.eqb y "b" then Some 129
    else if String.eqb y "c" then Some 130 else if String.eqb y "i" then Some 131
    else if String.eqb y "h_x" then Some 132 else if String.eqb y "k_x" then Some 133
    else if String.eqb y "k_y" then Some 134 else if String.eqb y "set_x" then Some 135
    else if String.eqb y "m_x" then Some 136 else None) [].

Definition prog_calls : sprogram :=
  match prog_of listing_funs with Some p => p | None => [] end.

Definition addrs_calls : call_addrs := mkCA 128 129 130 131 132 133 134 135 136.

Lemma call_env_listing : call_env cfg_calls prog_calls addrs_calls.
Proof.
  assert (Hv : forall x p, layout cfg_calls x = Some p -> 0 <= p < 256 -> var_cell cfg_calls x p)
    by (intros x p L R; split; [exact L|split; [lia|left; lia]]).
  unfold call_env, addrs_calls. cbn [ad_a ad_b ad_c ad_i ad_hx ad_kx ad_ky ad_sx ad_mx].
  split; [reflexivity|].
  repeat (split; [apply Hv; [reflexivity|lia]|]).
  split; [repeat (constructor; [cbn [In]; lia|]); constructor|].
  repeat split; (eexists; split; [vm_compute; reflexivity|vm_compute; reflexivity]).
Qed.
Print Assumptions call_env_listing.

(** and plain computations with [Sem.run] on main with that table: a = 250, b = 7, S = 255:
    [c = h(h(a));] gives c = 252, [c = m(a);] gives c = 250, the loop gives i = 3, c = 1; S is 255
    again; the result is [(c, i, S)] *)
Definition st_calls (va vb : Z) : mstate :=
  mkS 0 7 2 255 false false false false (mset (mset mem_empty 128 va) 129 vb).

Definition run_main (c : code) (fuel : nat) (st : mstate) : option (Z * Z * Z) :=
  match slines_of c with
  | Some sl =>
      match Sem.run cfg_calls prog_calls (fun _ _ => None) (fun _ _ => None) fuel "main" sl 0 [] st [] 0%N with
      | Halt s' _ _ => Some (mget (mem s') 130, mget (mem s') 131, rS s')
      | _ => None
      end
  | None => None
  end.

Example run_hh : run_main (assign_call "c" "h" [mkArg "x" (call_tpl "h" [mkArg "x" (evar "a")])])
                   100 (st_calls 250 7) = Some (252, 0, 255).
Proof. vm_compute. reflexivity. Qed.
Example run_m : run_main (assign_call "c" "m" [mkArg "x" (evar "a")]) 100 (st_calls 250 7)
                = Some (250, 0, 255).
Proof. vm_compute. reflexivity. Qed.
Example run_m2 : run_main (assign_call "c" "m" [mkArg "x" (evar "a")]) 100 (st_calls 3 7)
                 = Some (7, 0, 255).
Proof. vm_compute. reflexivity. Qed.
Example run_for_f :
  run_main (for_tpl (assign8 "i" 0) (CConst RNeq "i" 3) (template (SInc8 "i")) (call_tpl "f" []) 1)
    200 (st_calls 250 7) = Some (1, 3, 255).
Proof. vm_compute. reflexivity. Qed.
