(** Specification side of the constant calculator: C constant expressions as TREES (the grouping
    that ISO C's grammar gives to the source text), their reference value, and the C unparser that
    writes a tree back as the token sequence a C programmer would write (parentheses exactly where
    C's grammar needs them, plus any redundant ones the programmer chose to write, [EPar]).
    Proofs/CalcFacts.v proves that the Pratt parser of Model/Calc.v evaluates [lin e] to [ceval e]
    for every tree without ?: . *)
From Coq Require Import String List Bool ZArith.
From CC Require Import Model.Calc.
Import ListNotations.
Open Scope Z_scope.

(** expressions as C's grammar groups them; [EPar] = parentheses written in the source although
    the grammar does not need them (or does: [lin] never removes them) *)
Inductive cexpr :=
| ENum (n : Z)
| EUn (o : uop) (e : cexpr)
| EBin (o : bop) (l r : cexpr)
| EPar (e : cexpr).

(** error rule: the operand is evaluated first; an error passes through *)
Definition un_res (o : uop) (v : cres) : cres :=
  match v with
  | COk x => COk (apply_un o x)
  | e => e
  end.

(** error rule: left operand, then right operand; the left error wins *)
Definition bin_res (o : bop) (l r : cres) : cres :=
  match l, r with
  | COk a, COk b => apply_bin o a b
  | COk _, e => e
  | e, _ => e
  end.

(** reference evaluator: structural, same operator implementations as the calculator *)
Fixpoint ceval (e : cexpr) : cres :=
  match e with
  | ENum n => COk n
  | EUn o e1 => un_res o (ceval e1)
  | EBin o l r => bin_res o (ceval l) (ceval r)
  | EPar e1 => ceval e1
  end.

(** level of C's unary-expression / cast-expression: above every binary operator (12 = * /) *)
Definition unary_level : Z := 13.

(** the C unparser.  [lin_at p e] writes [e] in a position where C's grammar accepts, without
    parentheses, only expressions whose top operator has level >= p:
    - a binary expression is parenthesised exactly when its operator's level is below p;
    - all (non-ternary) binary operators are left-associative: the left operand of an operator of
      level q stands in a position of level q (parenthesised when its top operator is LOWER), the
      right operand in a position of level q + 1 (parenthesised when LOWER OR EQUAL);
    - the operand of a prefix operator stands in a position of [unary_level] (every binary
      expression is parenthesised there; numbers, prefix and parenthesised expressions are not);
    - numbers, prefix expressions and parenthesised expressions never need parentheses;
    - inside parentheses the position is level 0 (anything goes). *)
Fixpoint lin_at (p : Z) (e : cexpr) : list tok :=
  match e with
  | ENum n => [TNum n]
  | EUn o e1 => TUn o :: lin_at unary_level e1
  | EBin o l r =>
      let body := lin_at (c_prec o) l ++ TBin o :: lin_at (c_prec o + 1) r in
      if c_prec o <? p then [TParen body] else body
  | EPar e1 => [TParen (lin_at 0 e1)]
  end.

Definition lin (e : cexpr) : list tok := lin_at 0 e.

(** no ?: anywhere (the ternary operator is handled, and partly refuted, separately in C10) *)
Fixpoint no_ternary (e : cexpr) : Prop :=
  match e with
  | ENum _ => True
  | EUn _ e1 => no_ternary e1
  | EBin o l r => is_ternary o = false /\ no_ternary l /\ no_ternary r
  | EPar e1 => no_ternary e1
  end.

(** the same unparser read as "needs parentheses" (stated for documentation; proved equal to
    [lin_at] in Proofs/CalcFacts.v): the top-level binary operator of an expression, if any *)
Definition top_bin (e : cexpr) : option bop :=
  match e with EBin o _ _ => Some o | _ => None end.
Definition needs_paren_left (parent : bop) (e : cexpr) : bool :=
  match top_bin e with Some o => c_prec o <? c_prec parent | None => false end.
Definition needs_paren_right (parent : bop) (e : cexpr) : bool :=
  match top_bin e with Some o => c_prec o <=? c_prec parent | None => false end.
Definition needs_paren_prefix (e : cexpr) : bool :=
  match top_bin e with Some _ => true | None => false end.
Definition wrap_if (b : bool) (ts : list tok) : list tok := if b then [TParen ts] else ts.
Fixpoint lin_np (e : cexpr) : list tok :=
  match e with
  | ENum n => [TNum n]
  | EUn o e1 => TUn o :: wrap_if (needs_paren_prefix e1) (lin_np e1)
  | EBin o l r =>
      wrap_if (needs_paren_left o l) (lin_np l) ++ TBin o :: wrap_if (needs_paren_right o r) (lin_np r)
  | EPar e1 => [TParen (lin_np e1)]
  end.
