(** C01 — emitted 6502 code computes what the C source says.
    What is proved here concerns the comparison lowering of the generator
    (src/generate/generate_conditions.rs), modelled by Model/GenTables.v and compared with the real
    generator cell by cell (corr-M, tools/props/c01.py): the branch sequences emitted after CMP
    (or after a load, for a comparison with 0) reach their label exactly when the C relation holds.
    The statements that are FALSE of the faithful model are stated as refutations: they are the
    known findings F-C01-signed8-compare and F-C01-cmp-order-zero.  The generator as a whole is not
    modelled: the rest of C01 is decided by co-execution (see DESIGN.md), hence "partial". *)
From Coq Require Import String List Bool NArith ZArith Lia.
From CC Require Import Base.Str Asm.Lines M6502.Isa Asm.Operand M6502.Sem Model.CheckBranches
  Model.CbSpec Model.GenTables Proofs.GenTablesFacts.
Import ListNotations.
Open Scope Z_scope.

(** the flags CMP leaves, for all bytes *)
Theorem C01_cmp_flags : forall s a b, 0 <= a < 256 -> 0 <= b < 256 ->
  fC (cmp s a b) = (b <=? a) /\ fZ (cmp s a b) = (a =? b) /\ fN (cmp s a b) = bit7 (byte (a - b)).
Proof. exact cmp_flags_spec. Qed.

(** unsigned comparisons: the sequence emitted for [o] jumps to [label] iff [a o b], all bytes *)
Theorem C01_unsigned_compare_correct : forall o s a b label here,
  0 <= a < 256 -> 0 <= b < 256 -> label <> here ->
  frag_flow 8 (cmp s a b) (branch_seq o false label here)
  = if rel_holds o a b then ExitLabel label else ExitFall.
Proof. exact branch_seq_unsigned_correct. Qed.

(** signed comparisons are right when the 8-bit subtraction does not overflow ... *)
Theorem C01_signed_compare_correct_partial : forall o s a b label here,
  0 <= a < 256 -> 0 <= b < 256 -> label <> here ->
  -128 <= sgn a - sgn b <= 127 ->
  frag_flow 8 (cmp s a b) (branch_seq o true label here)
  = if rel_holds o (sgn a) (sgn b) then ExitLabel label else ExitFall.
Proof. exact branch_seq_signed_correct. Qed.

(** ... and wrong otherwise: the full statement is refuted (known finding F-C01-signed8-compare;
    the witness -128 < 1 is replayed on the real compiler by the check) *)
Theorem C01_signed_compare_refuted :
  ~ (forall o s a b label here, 0 <= a < 256 -> 0 <= b < 256 -> label <> here ->
       frag_flow 8 (cmp s a b) (branch_seq o true label here)
       = if rel_holds o (sgn a) (sgn b) then ExitLabel label else ExitFall).
Proof. exact branch_seq_signed_needs_no_overflow. Qed.

(** comparison with 0 from the flags of a load (no CMP): signed operands, all six operators *)
Theorem C01_zero_compare_signed_correct : forall o s v label here, 0 <= v < 256 -> label <> here ->
  frag_flow 8 (set_nz s v) (branch_seq_alt o true label here)
  = if rel_holds o (sgn v) 0 then ExitLabel label else ExitFall.
Proof. exact branch_seq_alt_signed_correct. Qed.

(** unsigned operands: == != <= are right for all bytes; < > >= are exactly the wrong cells
    (known finding F-C01-cmp-order-zero) *)
Theorem C01_zero_compare_unsigned_cells : forall o,
  (forall s v label here, 0 <= v < 256 -> label <> here ->
     frag_flow 8 (set_nz s v) (branch_seq_alt o false label here)
     = if rel_holds o v 0 then ExitLabel label else ExitFall)
  <-> alt_unsigned_ok o = true.
Proof. exact branch_seq_alt_unsigned_cells. Qed.

(** the negation table (if / while / for test the negated condition) and the operand-swap table
    (constant or register on the left) are right for all integers *)
Theorem C01_negate_table : forall o a b, rel_holds (negate_op o) a b = negb (rel_holds o a b).
Proof. exact negate_op_correct. Qed.

Theorem C01_swap_table : forall o a b, rel_holds (switch_op o) b a = rel_holds o a b.
Proof. exact switch_op_correct. Qed.
