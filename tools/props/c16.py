"""C16 — compilation is total: a result or a located error, never a crash.

proof   : Props/C16.v: totality of the modelled components (optimize never runs out of fuel,
          check_branches terminates and does not reach its unreachable!() on well-formed input,
          the call-graph marking terminates) — the rest of the compiler is NOT modelled: partial
corr-S  : near-valid inputs (valid programs with one token deleted / duplicated / replaced / retyped,
          out-of-range literals, division by constant zero, void values used, undeclared and
          prototype-only names, unbalanced directives, self-referential macros, arbitrary bytes),
          every option set, debug and release builds of the harness, each compilation under
          catch_unwind in a worker thread with a watchdog.  Outcome must be Ok or an Err whose
          location lies inside the input.  A panic / hang is attributed to a known finding only by
          its panic site AND input class; anything else is a violation.
"""
import re
from lib.common import *
from lib.gen_c import gen_program
import os

LEVEL = 'exploration'

TOKEN_RE = re.compile(r'[A-Za-z_][A-Za-z_0-9]*|0x[0-9a-fA-F]+|\d+|"[^"\n]*"|\'[^\'\n]*\'|<<=|>>=|\+\+|--|<<|>>|<=|>=|==|!=|&&|\|\||[-+*/&|^]=|\S')

SEEDS = [
    'unsigned char i; void main() { for (i = 0; i < 10; i++); }',
    'short i, j, k; void main() { i = 1; j = 1; k = i + j; }',
    'unsigned char i, j; void main() { i = 0; j = 0; if (i == 0 && j == 0) X = 1; }',
    'char a[4]; const char t[2] = {1, 2}; char *p; void main() { Y = 1; a[Y] = t[Y]; p = a; X = p[Y]; }',
    'char f(char x) { return x + 1; } inline void g() { X = 2; } char v; void main() { v = f(3); g(); switch (v) { case 1: v = 2; break; default: v = 0; } }',
    '#define N 3\n#ifdef N\nchar a[N];\n#else\nchar a[1];\n#endif\nvoid main() { a[0] = N; }\n',
    'char *const W = 0x02; char v; void main() { load(v); strobe(W); csleep(4); asm("nop", 1); do { v--; } while (v); }',
    'signed char s; unsigned short u; void main() { u = s; u <<= 2; s = -s; s = ~s; u = u >> 8; while (s) { s++; if (s == 3) break; else continue; } }',
    'const char *names[2] = {"ab", "c"}; char c; void main() { goto l; l: c = sizeof(short); c = c ? 1 : 2; }',
]

NEAR_VALID = {
    'bank_overflow': 'bank99999999999 char x;\nvoid main() { x = 1; }',
    'bank_overflow_fn': 'bank99999999999 void g() { X = 1; }\nvoid main() { g(); }',
    'neg_int_min': 'const char x = -(1<<31);\nvoid main() { X = x; }',
    'neg_int_min2': 'const char t[1] = {-(-2147483647 - 1)};\nvoid main() { X = t[0]; }',
    'array_negative': 'void main() { short a[-1]; }',
    'array_zero': 'char a[0]; void main() { X = 1; }',
    'array_huge': 'char a[2000000000]; void main() { X = 1; }',
    'macro_dup_param': '#define F(x,x) x\nvoid main() { X = F(1,2); }',
    'macro_blank_param': '#define f(a , b) a+b\nvoid main() { X = f(1,2); }',
    'macro_blank_param2': '#define f( a,b ) a+b\nvoid main() { X = f(1,2); }',
    'ptr_offset_overflow': 'const char *ptr=""; void main() { X = (ptr >> 8) + 8388608; }',
    'asm_negative_size': 'void main() { do { asm("nop",-1); asm("nop",-1); } while (X); }',
    'asm_huge_size': 'void main() { do { asm("nop",2000000000); asm("nop",2000000000); } while (X); }',
    'long_line_multibyte': 'char c; void main() { ' + 'c = 1; ' * 33 + "c = '\u00e9\u00e9\u00e9'; }",
    'long_line_multibyte2': 'char c; void main() { ' + 'c = 1;  ' * 31 + " c = c; /* \u20ac\u20ac\u20ac\u20ac */ c = 2; }",
    'macro_doubling': '#define A A A\nchar A;\n',
    'macro_doubling_indirect': '#define A B B\n#define B A A\nchar x; A\n',
    'macro_doubling_call': '#define F(x) F(x) F(x)\nchar c; F(1)\n',
    'macro_growth_args': '#define G(x) x x x x x x x x\nchar c; G(G(G(G(G(G(G(1)))))))\n',
    'continue_in_switch': 'unsigned char a; void main() { switch (a) { case 1: if (Y) continue; a = 2; } }',
    'continue_in_switch2': 'unsigned char a; void main() { switch (a) { case 1: continue; } }',
    'break_in_if': 'unsigned char a; void main() { if (a) break; }',
    'break_cond_top': 'unsigned char a; void main() { if (a) { if (X) break; } }',
    'void_to_y': 'char a; void f() { a = 1; } void main() { Y = f(); }',
    'void_to_x': 'char a; void f() { a = 1; } void main() { X = f(); }',
    'void_to_array': 'char a[2]; void f() { X = 1; } void main() { a[1] = f(); }',
    'void_to_short': 'short s; void f() { X = 1; } void main() { s = f(); }',
    'void_in_expr': 'char a; void f() { X = 1; } void main() { a = f() + 1; }',
    'void_as_cond': 'char a; void f() { X = 1; } void main() { if (f()) a = 1; }',
    'void_as_arg': 'char a; void f() { X = 1; } void g(char x) { a = x; } void main() { g(f()); }',
    'literal_marker': 'char *s; void main() { s = @99@; }',
    'literal_marker0': 'char *s; void main() { s = @0@; }',
    'literal_marker_init': 'const char t[] = @7@;',
    'inline_self': 'inline void step() { X--; step(); } void main() { X = 3; step(); }',
    'inline_self_if': 'inline void step() { if (X) step(); X--; } void main() { step(); }',
    'inline_mutual': 'inline void b(); inline void a() { X--; b(); } inline void b() { if (X) a(); } void main() { a(); }',
    'inline_undefined': 'inline void a(); void main() { a(); }',
    'recursion': 'void f() { X--; if (X) f(); } void main() { f(); }',
    'goto_undefined': 'void main() { goto nowhere; }',
    'goto_other_function': 'void f() { there: X = 1; } void main() { goto there; }',
    'label_twice': 'void main() { l: X = 1; l: X = 2; }',
    'case_twice': 'char a; void main() { switch (a) { case 1: X = 1; case 1: X = 2; } }',
    'default_twice': 'char a; void main() { switch (a) { default: X = 1; default: X = 2; } }',
    'return_value_in_void': 'void f() { return 1; } void main() { f(); }',
    'return_nothing': 'char f() { return; } void main() { X = f(); }',
    'too_many_args': 'void f(char a) { X = a; } void main() { f(1, 2); }',
    'too_few_args': 'void f(char a, char b) { X = a; } void main() { f(1); }',
    'call_variable': 'char v; void main() { v(); }',
    'index_function': 'void f() { } void main() { X = f[1]; }',
    'assign_function': 'void f() { } void main() { f = 1; }',
    'assign_const': 'const char c = 1; void main() { c = 2; }',
    'assign_array_name': 'char a[2]; void main() { a = 1; }',
    'deref_char': 'char a; void main() { X = *a; }',
    'addr_of_register': 'char *p; void main() { p = &X; }',
    'sizeof_call': 'void f() { } void main() { X = sizeof(f()); }',
    'nested_function': 'void main() { void g() { } }',
    'redefined_function': 'void f() { } void f() { } void main() { }',
    'redefined_variable': 'char a; char a; void main() { }',
    'param_shadows_global': 'char a; void f(char a) { X = a; } void main() { f(1); }',
    'huge_array': 'char a[70000]; void main() { a[0] = 1; }',
    'negative_array': 'char a[-1]; void main() { }',
    'zero_array': 'char a[0]; void main() { }',
    'array_init_too_long': 'const char a[2] = {1, 2, 3}; void main() { }',
    'string_too_long': 'const char a[2] = "abc"; void main() { }',
    'shift_by_variable': 'char a, b; void main() { a = a << b; }',
    'shift_huge': 'char a; void main() { a = a << 40; a = 1 << 40; }',
    'shift_negative': 'char a; void main() { a = a << -1; a = 1 >> -1; }',
    'ternary_void': 'char a; void f() { } void main() { a = a ? f() : 1; }',
    'comma_void': 'char a; void f() { } void main() { a = (f(), 1); }',
    'load_store_misuse': 'char a; void main() { load(); store(); strobe(); csleep(); }',
    'csleep_variable': 'char a; void main() { csleep(a); }',
    'csleep_huge': 'void main() { csleep(100000); csleep(-5); csleep(1); csleep(0); }',
    'asm_nonliteral': 'char a; void main() { asm(a); }',
    'asm_size_negative': 'void main() { asm("nop", -1); }',
    'string_subscript': 'char a; const char tab[] = {1}; void main() { a = tab["s"]; }',
    'empty': '',
    'comment_only': '/* nothing */\n',
    'blank': '\n\n',
    'short_ptr': 'short *p;',
    'div_zero_stmt': 'char a; void main() { a = 1 / 0; }',
    'div_zero_const': 'const char a = 1 / 0; void main() { }',
    'big_literal': 'char a; void main() { a = 99999999999; }',
    'big_literal_const': 'const char a = 4294967296; void main() { }',
    'double_minus': 'char a; void main() { switch (a) { case --1: a = 0; } }',
    'mul_assign': 'char x; void main() { x *= 2; }',
    'div_assign': 'char x; void main() { x /= 2; }',
    'infix_not': 'const char a = 3 ! 4; void main() { }',
    'infix_bnot': 'const char a = 3 ~ 4; void main() { }',
    'void_value': 'char i; void f() { } void main() { i = f(); }',
    'undeclared': 'void main() { zz = 1; }',
    'undeclared_fn': 'void main() { nothere(); }',
    'proto_only': 'void f(); void main() { f(); }',
    'unbalanced_endif': '#endif\nvoid main() { }\n',
    'unbalanced_if': '#if 1\nvoid main() { }\n',
    'self_macro': '#define A A\nchar A;\nvoid main() { }\n',
    'mutual_macro': '#define A B\n#define B A\nchar A;\nvoid main() { }\n',
    'shift_32': 'const char a = 1 << 40; void main() { }',
    'neg_shift': 'const char a = 1 << -1; void main() { }',
    'overflow_mul': 'const short a = 65536 * 65536; void main() { }',
    'csleep_bad': 'void main() { csleep(1); }',
    'unterminated': 'char *s = "abc;\nvoid main() { }\n',
    'include_missing': '#include "nothere.h"\nvoid main() { }\n',
    'bad_directive': '#pragma once\nvoid main() { }\n',
    'one_line': 'char a; void main() { a = 1; }',
    'array_huge': 'char a[99999999]; void main() { }',
    'case_big': 'char a; void main() { switch (a) { case 300: a = 1; } }',
    'deref_int': 'char a; void main() { a = *5; }',
    'addr_of': 'char a; short p; void main() { p = &a; }',
    'nested_tern': 'char a; void main() { a = a ? a ? 1 : 2 : 3; }',
    'x_array': 'char a[2]; void main() { a[a[0]] = 1; }',
    'sizeof_unknown': 'char a; void main() { a = sizeof(nothing); }',
    'ret_void_val': 'void f() { return 3; } void main() { f(); }',
    'dup_var': 'char a; char a; void main() { }',
    'dup_fn': 'void f() { } void f() { } void main() { }',
    'main_missing': 'char a;',
    'strobe_expr': 'char a; void main() { strobe(a + 1); }',
    'goto_undefined': 'void main() { goto nowhere; }',
    'break_outside': 'void main() { break; }',
    'continue_outside': 'void main() { continue; }',
    'local_shadow': 'char i; void main() { { char i; i = 1; } { char i; i = 2; } }',
    # reported by a round-6 reader of the unmodified tree (the arithmetic ones panic in builds with overflow checks)
    'vec_decl': 'void (*vec[2])() = {1, 2}\nvoid main() { }',
    'ptr_minus_big': 'const char arr[]={1}; char x; void main(){ x = (arr >> 8) - 9000000; }',
    'ptr_plus_max': 'const char arr[]={1}; char *p; void main(){ p = arr + 2147483647 + 1; }',
    'short_idx_max': 'const short arr[2]={1,2}; short x; void main(){ x = arr[2147483647]; }',
    'char_idx_max': 'char arr[2]; char *const R = 0x80; short s; void main(){ X = arr[2147483647]; arr[2147483647] = X; s = R[2147483647]; s = arr[2147483647]; }',
    'ptr_off_min': 'const char v[1]={0}; const char *ptrs[1]={v - -2147483648}; void main(){}',
    'ptr_off_min2': 'const char v[1]={0}; const char *p1 = v - -2147483648; const char lo = v - -2147483648 & 255; const char *tab[2] = {v + 2147483647, v - -2147483648 >> 8};  void main(){}',
    'deep_parens': 'void main() { X = ' + '(' * 3000 + '1' + ')' * 3000 + '; }',
    # reported by the round-7 readers of the unmodified tree
    'insert_code_multibyte_char': "void main() { X = '\U0001f600'\n; }",
    'insert_code_multibyte_char2': "char c;\nvoid main() {\n c = 1; X='\u20ac'+'\u20ac';\n c = 2; }",
    'short_idx_shift': 'short arr[4]; void main() { X = arr[2147483647] >> 8; }',
    'macro_2000_params': '#define F(' + ','.join('p%d' % i for i in range(2000)) + ') 0\nvoid main() { X = 1; }',
    'macro_regexset_big': ''.join('#define F%d(%s) 0\n' % (i, ','.join('q%d' % j for j in range(20))) for i in range(99)) + 'void main() { X = F3(' + ','.join(['1'] * 20) + '); }',
    'macro_empty_param': '#define f(a,) a\nvoid main() { X = 1; }',
    'macro_digit_param': '#define f(1a) 1a\nvoid main() { X = 1; }',
    'cctmp_function': 'char *p; char *q; void cctmp0() {} void main() { p = "a"; q = "b"; cctmp0(); }',
    'interrupt_prefix_function': 'char t; void interrupt_tick() { t++; } void inline_it() { t--; } void main() { interrupt_tick(); inline_it(); }',
    # call cycles (the in-use computation walks the call tree)
    'mutual_recursion': 'void pong(); void ping() { if (X) pong(); } void pong() { X--; ping(); } void main() { X = 3; ping(); }',
    'mutual_recursion3': 'void b(); void c(); void a() { if (X) b(); } void b() { X--; c(); } void c() { a(); } void main() { a(); }',
    'mutual_recursion_unreached': 'void q(); void p() { q(); } void q() { p(); } void main() { X = 1; }',
    'mutual_recursion_interrupt': 'void q(); void p() { if (X) q(); } void q() { X--; p(); } void interrupt irq() { p(); } void main() { X = 1; }',
    'mutual_recursion_args': 'char odd(char n); char even(char n) { if (n) return odd(n - 1); return 1; } char odd(char n) { if (n) return even(n - 1); return 0; } void main() { X = even(4); }',
}

# inputs made of several files: (name, source, [(file name, content)])
NEAR_VALID_FILES = [
    ('self_include', '#include "self.h"\nvoid main() { X = 1; }\n', [('self.h', b'char a;\n#include "self.h"\n')]),
    ('mutual_include', '#include "a.h"\nvoid main() { X = 1; }\n', [('a.h', b'#include "b.h"\n'), ('b.h', b'#include "a.h"\n')]),
    ('guarded_self_include', '#include "g.h"\nvoid main() { X = gv; }\n', [('g.h', b'#ifndef G_H\n#define G_H\n#include "g.h"\nconst char gv = 3;\n#endif\n')]),
    ('deep_include', '#include "d0.h"\nvoid main() { X = 1; }\n', [('d%d.h' % i, ('#include "d%d.h"\n' % (i + 1)).encode() if i < 40 else b'char deep;\n') for i in range(41)]),
]

# option sets that are near-valid themselves: (name, source, options)
NEAR_VALID_OPTIONS = [
    ('D_paren', 'void main() { }', ['-O1', '-D', '(']),
    ('D_empty', 'void main() { }', ['-O1', '-D', '']),
    ('D_eq', 'void main() { }', ['-O1', '-D', '=3']),
    ('D_star', 'void main() { X = 1; }', ['-O1', '-D', 'a*=3']),
    ('D_digit', 'void main() { X = 1; }', ['-O1', '-D', '1x=3']),
    ('D_dot', 'char ab; void main() { ab = 1; }', ['-O1', '-D', 'a.=3']),
    ('D_bracket', 'void main() { X = 1; }', ['-O1', '-D', '[=3']),
    ('D_ok', 'void main() { X = N; }', ['-O1', '-D', 'N=(3)']),
]

OPTION_SETS = [['-O0'], ['-O1'], ['-O3', '--insert-code'], ['-O1', '-W', 'all'], ['-O1', '--fsigned_char'], ['-O1', '-D', 'N=1', '-D', 'FOO']]


# logical operators with a constant operand, in every context that evaluates a condition or a truth value
_LC = ['i && 1', 'i && 0', '1 && i', '0 && i', 'i || 1', 'i || 0', '1 || i', '0 || i', '!(i && 1)', '!!(i && K)', '(i && 1) && j', '(i || 0) || j',
       'i && sizeof(short)', '!(i || 0)', '(i && 1) == 1', 'i && j && 1', '1 && i && j', 'i == 1 && 1', '!i && 1', 'i && !0']
_LCTX = ['if (%s) X = 1;', 'if (%s) X = 1; else X = 2;', 'while (%s) { i--; }', 'do { i--; } while (%s);', 'for (i = 3; %s; i--) X++;',
         'Y = (%s) ? 3 : 4;', 'X = %s;', 'X = !(%s);', 'j = ((%s) ? i : j) + 1;', 'if (!(%s)) X = 1;']
for _a, _c in enumerate(_LC):
    for _b, _x in enumerate(_LCTX):
        NEAR_VALID['logic_const_%d_%d' % (_a, _b)] = 'const char K = 1; char i, j; void main() { %s }' % (_x % _c)


# every expression form in every position of the grammar that takes an expression (the positions are parsed by
# different rules and different operator tables: initialisers have no comma operator, constant positions their own
# calculator, ...): each cell must give code or a located error
_EF = ['i', '5', '-i', '!i', '~i', '++i', 'i++', '--j', 'j--', 'i + j', 'i - 1', 'i * 2', 'i / 2', 'i << 1', 'i >> 1', 'i & j', 'i | j', 'i ^ j',
       'i < j', 'i <= 5', 'i == j', 'i != 0', 'i && j', 'i || j', 'i ? j : 3', 'i = j', 'i += 2', 'i <<= 1', '(i = 3, j)', '(i, j)', 'i = 3, j',
       'f2(i, j)', 'f2((i, j), 1)', 'f0()', 't[i]', 't[1]', 't[i + 1]', '*p', 'p[2]', '&i', 'sizeof(i)', 'sizeof(short)', '(i)', '((i + 1))',
       's + 1', 's >> 8', "'a'", '"ab"', '-(-i)', 'i + (j = 2)', '(i ? j : 3) + 1', 'X', 'Y + 1', 't[X]', 't[Y]', 'K', 'K + i', 'i + 300', '0x10', '010']
_EC = ['char x = %s; X = x;', 'char x = 1 + (%s); X = x;', 'char x, y = %s; X = y;', 'short w = %s; s = w;', 'i = %s;', 's = %s;', 'X = %s;', 't[%s] = 1;',
       't[1] = %s;', 'j = t[%s];', 'f1(%s);', 'j = f2(1, %s);', 'if (%s) j = 1;', 'while (%s) { i = 0; j = 0; break; }', 'do { j--; } while (%s && 0);',
       'for (%s; j; j--) ;', 'for (j = 2; j; %s) { j--; }', 'switch (%s) { case 1: j = 2; break; default: j = 3; }', 'j = (%s) ? 1 : 2;', 'j = i ? (%s) : 2;',
       '%s;', '(%s);', 'j = -(%s);', 'j = (%s) + (%s);', '*p = %s;', 'p[1] = %s;', 'load(%s);', 'strobe(%s);']
_ECR = ['return %s;']
for _a, _c in enumerate(_EF):
    for _b, _x in enumerate(_EC):
        NEAR_VALID['expr_ctx_%d_%d' % (_a, _b)] = ('const char K = 2; char i, j; short s; char t[4]; char *p; char f0() { return 1; } void f1(char a) { X = a; } '
                                                   'char f2(char a, char b) { return a + b; } void main() { %s }' % _x.replace('%s', _c))
    NEAR_VALID['expr_ctx_%d_ret' % _a] = 'char i, j; short s; char t[4]; char *p; char f0() { return 1; } char f2(char a, char b) { return a + b; } char g() { return %s; } void main() { X = g(); }' % _c
    NEAR_VALID['expr_ctx_%d_ginit' % _a] = 'const char K = 2; char i, j; short s; char t[4]; char *p; const char g = %s; const char ga[2] = {1, %s}; char f0() { return 1; } char f2(char a, char b) { return a + b; } void main() { X = g; }' % (_c, _c)
    NEAR_VALID['expr_ctx_%d_size' % _a] = 'const char K = 2; char i, j; short s; char t[4]; char *p; char arr[%s]; char f0() { return 1; } char f2(char a, char b) { return a + b; } void main() { switch (i) { case %s: X = 1; } asm("nop", %s); }' % (_c, _c, _c)


def stress_program(rng):
    k = rng.randrange(8)
    L = []
    if k <= 2:
        # many macros (around the multiples of 100), some undefined again, then used
        n = rng.choice([99, 100, 101, 150, 199, 200, 201, 250])
        for j in range(n):
            L.append('#define M%d %d' % (j, j % 200))
        und = sorted(rng.sample(range(n), rng.randrange(1, 4)))
        for j in und:
            L.append('#undef M%d' % j)
        if rng.random() < 0.5:
            L.append('#define EXTRA%d 7' % k)
        use = [j for j in [0, 1, 98, 99, 100, 101, n - 2, n - 1] + rng.sample(range(n), 4) if j < n and j not in und]
        L.append('unsigned char v;')
        L.append('void main() { %s }' % ' '.join('v = M%d;' % j for j in use))
    elif k == 3:
        d = rng.choice([10, 40, 100])
        L.append('unsigned char v;')
        L.append('void main() { v = ' + '(' * d + '1' + ')' * d + '; }')
    elif k == 4:
        d = rng.choice([8, 20, 60])
        L.append('unsigned char v;')
        L.append('void main() { ' + 'if (v) { ' * d + 'v = 1; ' + '} ' * d + '}')
    elif k == 5:
        n = rng.choice([50, 130, 300])
        for j in range(n):
            L.append('void f%d() { X = %d; }' % (j, j % 256))
        L.append('void main() { %s }' % ' '.join('f%d();' % j for j in rng.sample(range(n), 5)))
    elif k == 6:
        n = rng.choice([30, 120])
        L.append('unsigned char v;')
        for j in range(n):
            L.append('#ifdef NOPE%d' % j if j % 2 else '#ifndef NOPE%d' % j)
        L.append('unsigned char w;')
        for j in range(n):
            L.append('#endif')
        L.append('void main() { v = 1; }')
    else:
        n = rng.choice([20, 101, 260])
        L.append('const char *t[%d] = {%s};' % (n, ', '.join('"s%d"' % j for j in range(n))))
        L.append('unsigned char v; void main() { v = %s; }' % ' + '.join(['1'] * rng.choice([5, 40, 120])))
    return '\n'.join(L) + '\n'


def mutate(rng, src):
    toks = TOKEN_RE.findall(src)
    if not toks:
        return src
    pool = ['(', ')', '{', '}', ';', ',', '=', '+', '*', '&', '[', ']', '0', '1', '255', '256', '65536', '4294967296', '-1',
            'char', 'short', 'void', 'if', 'else', 'for', 'while', 'return', 'X', 'Y', 'main', 'zz', '"s"', "'c'", '#define', '#if',
            '#endif', 'inline', 'const', 'sizeof', 'case', 'default', 'goto', '?', ':', '!', '~', '/', '0x', '08', '<<', '++']
    k = rng.randrange(9)
    i = rng.randrange(len(toks))
    idents = [j for j, t in enumerate(toks) if re.fullmatch(r'[A-Za-z_][A-Za-z_0-9]*', t)
              and t not in ('char', 'short', 'void', 'if', 'else', 'for', 'while', 'do', 'return', 'unsigned', 'signed', 'const', 'inline',
                            'switch', 'case', 'default', 'break', 'continue', 'goto', 'sizeof', 'int', 'superchip')]
    if k >= 6 and idents:
        # kind confusion: an identifier used where a name of another kind is expected (function, array,
        # short, constant, register, label, undeclared), or an expression replaced by a void call
        i = rng.choice(idents)
        names = sorted(set(toks[j] for j in idents)) + ['X', 'Y', 'main', 'undeclared_name']
        if k == 6:
            toks[i] = rng.choice(names)
        elif k == 7:
            toks[i] = rng.choice([n + '()' for n in names] + [n + '[1]' for n in names] + ['&' + n for n in names] +
                                 ['*' + n for n in names] + ['sizeof(' + n + ')' for n in names] + [n + '++' for n in names])
        else:
            toks[i] = rng.choice(['"str"', "'c'", '@3@', '-' + toks[i], '(' + toks[i] + ',' + rng.choice(names) + ')'])
    elif k == 0:
        del toks[i]
    elif k == 1:
        toks.insert(i, toks[i])
    elif k == 2:
        toks[i] = rng.choice(pool)
    elif k == 3:
        t = toks[i]
        if t:
            j = rng.randrange(len(t))
            toks[i] = t[:j] + rng.choice('abz019_#"\'\\/*{};') + t[j + 1:]
    elif k == 4:
        toks.insert(i, rng.choice(pool))
    else:
        j = rng.randrange(len(toks))
        toks[i], toks[j] = toks[j], toks[i]
    sep = [' ', ' ', ' ', '\n']
    out = []
    for t in toks:
        out.append(t)
        out.append('\n' if t.startswith('#') is False and t in ('{', '}', ';') and rng.random() < 0.3 else rng.choice(sep))
    s = ''.join(out)
    # preprocessor lines must start a line
    s = re.sub(r'\s*(#(?:define|if|ifdef|ifndef|else|endif|elif|include|undef|error))', r'\n\1', s)
    s = re.sub(r'(#(?:else|endif))\s', r'\1\n', s)
    return s


def classify(r, src, files=()):
    """-> (verdict, key)"""
    st = r.get('status')
    if st == 'ok':
        return 'ok', None
    if st == 'err':
        e = r['err']
        if e.get('kind') in ('syntax', 'compiler'):
            nlines = src.count('\n') + 1
            fn = e.get('file')
            if fn == 'main.c':
                if not (1 <= e.get('line', 0) <= nlines):
                    return 'badloc', 'error located at line %s of a %d-line input' % (e.get('line'), nlines)
            elif fn not in [f for f, _ in files]:
                return 'badloc', 'error located in unknown file %r' % fn
        return 'err', None
    if st == 'panic':
        # site = source file + panic message with numbers removed (line numbers shift with edits)
        loc = r.get('loc', '?')
        fn = os.path.basename(loc.split(':')[0])
        msg = re.sub(r'\d+', 'N', (r.get('msg') or ''))[:90]
        return 'panic', '%s: %s' % (fn, msg)
    if st == 'hang':
        return 'hang', 'hang'
    if st == 'abort':
        return 'abort', 'the compiling process died (stack overflow / abort): ' + re.sub(r'\d+', 'N', (r.get('msg') or ''))[-120:]
    return 'harness', st


def run_isolating(chunk, profile):
    """the harness on a list of cases; when the PROCESS dies (a stack overflow aborts it: no panic to catch) the
    list is split until the input that kills it stands alone: that case gets the status 'abort'"""
    jobs = ''.join(compile_job(c[0], c[1], args=c[2], want=['funcs'], files=(c[4] if len(c) > 4 else ())) for c in chunk)
    try:
        res = run_ccv(jobs, profile=profile, timeout_ms=4000, tag='tot')
        if len(res) == len(chunk):
            return res
        why = 'the harness returned %d results for %d jobs' % (len(res), len(chunk))
    except HarnessError as e:
        why = str(e)[-300:]
    if len(chunk) == 1:
        return [{'id': chunk[0][0], 'status': 'abort', 'msg': why}]
    h = len(chunk) // 2
    return run_isolating(chunk[:h], profile) + run_isolating(chunk[h:], profile)


def run(ctx):
    quick = ctx.tier == 'quick'
    rng = ctx.rng
    from props.c02 import THEOREMS as T2  # structural totality theorems live in Props/C02.v / C03.v
    ctx.proof_stage('Props.C16', ['C16_optimize_total', 'C16_check_branches_total', 'C16_check_branches_no_panic'])
    n_mut = 6000 if quick else 300000
    seeds = list(SEEDS)
    for i in range(30 if quick else 300):
        seeds.append(gen_program(rng, dict(hw=(i % 3 == 0), inline=(i % 2 == 0))).source())
    cases = []
    for name, src in NEAR_VALID.items():
        for oi, opts in enumerate(OPTION_SETS if not quick else OPTION_SETS[:4]):
            cases.append(('nv:%s:%d' % (name, oi), src, opts, name))
    for name, src, opts in NEAR_VALID_OPTIONS:
        cases.append(('nvo:%s' % name, src, opts, name))
    for name, src, files in NEAR_VALID_FILES:
        for oi, opts in enumerate(OPTION_SETS[:2]):
            cases.append(('nvf:%s:%d' % (name, oi), src, opts, name, files))
    for i in range(n_mut):
        s = mutate(rng, rng.choice(seeds))
        if rng.random() < 0.3:
            s = mutate(rng, s)
        cases.append(('mut%d' % i, s, rng.choice(OPTION_SETS), 'mutant'))
    for i in range(300 if quick else 20000):
        n = rng.randrange(0, 60)
        b = bytes(rng.randrange(256) for _ in range(n)) if rng.random() < 0.5 else ''.join(rng.choice('abc{}();=+-*/#"\'\\\n 01<>!&|') for _ in range(n)).encode()
        cases.append(('raw%d' % i, b, rng.choice(OPTION_SETS), 'bytes'))
    # valid programs of unusual SIZE or SHAPE (resource boundaries inside the compiler: macro tables are
    # kept in sets of 100, nesting depths, long lines, many functions / variables / literals)
    for i in range(40 if quick else 1500):
        cases.append(('stress%d' % i, stress_program(rng), rng.choice(OPTION_SETS), 'stress'))
    known = [f for f in ctx.findings if f.get('status') == 'open']
    stats = {}
    viol = []
    sites = {}
    for profile in ['release', 'debug']:
        # (quick tier: the build with overflow checks sees the fixed templates only)
        pcases = cases if (profile == 'release' or not quick) else [c for c in cases if c[0].startswith('nv')]
        for lo in range(0, len(pcases), 20000):
            chunk = pcases[lo:lo + 20000]
            res = run_isolating(chunk, profile)
            for c_, r in zip(chunk, res):
                cid, src, opts, cls = c_[:4]
                text = src.decode('utf-8', 'replace') if isinstance(src, bytes) else src
                v, key = classify(r, text, c_[4] if len(c_) > 4 else ())
                stats[v] = stats.get(v, 0) + 1
                if v in ('ok', 'err'):
                    continue
                if v == 'harness':
                    raise HarnessError('harness returned %r for %s' % (r, cid))
                attributed = None
                for f in known:
                    if f.get('site') and re.search(f['site'], key or '') and (not f.get('input_class') or re.search(f['input_class'], text, re.S)):
                        attributed = f
                        break
                if attributed:
                    ctx.known_finding(attributed['id'], attributed['text'])
                    continue
                site_key = (v, key)
                if site_key not in sites:
                    sites[site_key] = {'why': '%s at %s' % (v, key), 'input': text, 'options': opts, 'build': profile,
                                       'message': r.get('msg'), 'class': cls}
    ctx.cov['evaluations'] = sum(stats.values())
    ctx.cov['distinct_nontrivial'] = stats.get('err', 0)
    ctx.cov['correspondence']['corr-S totality'] = {'outcomes': stats, 'new_crash_sites': len(sites),
                                                    'input_classes': {'near_valid_templates': len(NEAR_VALID), 'token_mutants': n_mut}}
    ctx.sample({'mutant': cases[len(NEAR_VALID) * 4 + 3][1][:300] if len(cases) > len(NEAR_VALID) * 4 + 3 else ''})
    # a watchdog expiry is confirmed alone with a 10 times longer limit before it is called a hang (the
    # machine may be loaded: a compilation that merely waited for a core is not a violation)
    for sk in [k for k in sites if k[0] == 'hang']:
        v = sites[sk]
        src = v['input'].encode('utf-8', 'replace') if isinstance(v['input'], str) else v['input']
        r2 = run_ccv(compile_job('confirm', src, args=v['options'], want=[]), profile=v['build'], timeout_ms=40000, tag='totc')[0]
        if r2.get('status') != 'hang':
            del sites[sk]
            stats['slow-not-hang'] = stats.get('slow-not-hang', 0) + 1
    for sk, v in list(sites.items())[:5]:
        ctx.violation('crash', v)
    ctx.cov['rule'] = ('near-valid templates x option sets; token-level mutants (delete/duplicate/replace/retype/insert/swap one token, '
                       'sometimes twice) of seed programs and generated programs; random byte strings; non-trivial = inputs rejected '
                       'with a located error')
    ctx.cov['trusted_base'] = ['harness ccv: catch_unwind + 4 s watchdog per compilation, 64 MB worker stacks', 'Coq kernel for the totality theorems of the modelled components']
    ctx.assumptions = ['totality of the unmodelled parts (parser, AST construction, generator) is explored, not proved: partial',
                       'stack overflow is observed only up to the 64 MB worker stack']
