"""corr-M for the assembly-level models: the same line lists are pushed through the Rust
(AssemblyCode public API, via ccv) and through the extracted Coq model (asm.native); results must
be identical (line lists, returned counts, size)."""
import os
import shutil
from .common import *

MN_LOAD = ['LDA', 'LDX', 'LDY']
MN_STORE = ['STA', 'STX', 'STY']
MN_TRANSFER = ['TAX', 'TAY', 'TXA', 'TYA']
MN_ALU = ['ADC', 'SBC', 'EOR', 'AND', 'ORA', 'CMP', 'CPX', 'CPY']
MN_RMW = ['INC', 'DEC', 'ASL', 'LSR', 'ROL', 'ROR']
MN_IMPL = ['INX', 'INY', 'DEX', 'DEY', 'CLC', 'SEC', 'PHA', 'PLA', 'NOP', 'PHP', 'PLP', 'RTS']
MN_BRANCH = ['BCC', 'BCS', 'BEQ', 'BMI', 'BNE', 'BPL']

MEM_OPS = ['a', 'b', 'c', 'a+1', 'cctmp', 'a,X', 'a,Y', 'b,X', 'b+1,Y', '(p),Y', 'p', 'p+1', 'q+128,X']
IMM_OPS = ['#0', '#1', '#2', '#255', '#<a', '#>a', '#<(a+1)']


def parse_ocaml_results(text):
    """-> list of dicts {id,status,ret,size,lines}"""
    res = []
    cur = None
    for l in text.splitlines():
        if l.startswith('@res '):
            f = l.split(' ')
            cur = {'id': f[1], 'status': f[2], 'ret': f[3], 'size': int(f[4]), 'lines': []}
        elif l == '@end':
            if cur is not None:
                res.append(cur)
            cur = None
        elif cur is not None:
            f = l.split(' ')
            un = lambda s: '' if s == '-' else bytes.fromhex(s).decode('utf-8', 'replace')
            if f[0] == 'I':
                cur['lines'].append(('I', f[1], int(f[2]), int(f[3]), int(f[4]), None if f[5] == '-' else int(f[5]), un(f[6])))
            elif f[0] == 'L':
                cur['lines'].append(('L', un(f[1])))
            elif f[0] == 'N':
                cur['lines'].append(('N', int(f[1]), un(f[2])))
            elif f[0] == 'C':
                cur['lines'].append(('C', un(f[1])))
            else:
                cur['lines'].append(('D',))
    return res


def run_model(jobs_text, tag='m'):
    drv = ocaml_driver('asm')
    d = os.path.join('/dev/shm', 'asmm.%d' % os.getpid())
    os.makedirs(d, exist_ok=True)
    try:
        jf = os.path.join(d, tag + '.jobs')
        open(jf, 'w').write(jobs_text)
        rc, out = sh(['bash', '-c', 'ulimit -s unlimited; exec "$0" "$1"', drv, jf], check=False, timeout=3600)
        if rc != 0:
            raise HarnessError('asm.native failed: ' + out[-2000:])
        return parse_ocaml_results(out)
    finally:
        shutil.rmtree(d, ignore_errors=True)


def canon_impl(r):
    """ccv unit result -> (status, ret-string, size, lines)"""
    if r.get('status') == 'panic':
        return ('panic', '-', 0, [])
    if r.get('status') == 'hang':
        return ('outoffuel', '-', 0, [])
    ret = ','.join(str(x) for x in r.get('ret', [])) or '-'
    return (r.get('status'), ret, r.get('size'), [tuple(x) for x in r.get('lines', [])])


def canon_model(r):
    lines = r['lines']
    size = r['size']
    if r['status'] in ('panic', 'outoffuel'):
        lines, size = [], 0
    return (r['status'], r['ret'], size, lines)


def compare_units(cases):
    """cases: list of (id, op, lines).  Returns (n, mismatches) where a mismatch is a dict."""
    text = ''.join(unit_job(i, op, ls) for (i, op, ls) in cases)
    impl = run_ccv(text, tag='unit')
    model = run_model(text)
    if len(impl) != len(cases) or len(model) != len(cases):
        raise HarnessError('result count mismatch: %d cases, impl %d, model %d' % (len(cases), len(impl), len(model)))
    mism = []
    for (cid, op, ls), ri, rm in zip(cases, impl, model):
        a = canon_impl(ri)
        b = canon_model(rm)
        if a != b:
            mism.append({'id': cid, 'op': op, 'input': ls, 'impl': a, 'model': b})
    return len(cases), mism, impl, model


# ------------------------------------------------------------------ generators

def rand_instr(rng, labels, prot_p=0.12):
    k = rng.random()
    prot = 1 if rng.random() < prot_p else 0
    if k < 0.30:
        m = rng.choice(MN_LOAD)
        op = rng.choice(IMM_OPS) if rng.random() < 0.35 else rng.choice(MEM_OPS)
        return ('I', m, prot, 2, 3, None, op)
    if k < 0.45:
        m = rng.choice(MN_STORE)
        return ('I', m, prot, 2, 3, None, rng.choice(MEM_OPS))
    if k < 0.55:
        return ('I', rng.choice(MN_TRANSFER), prot, 1, 2, None, '')
    if k < 0.70:
        m = rng.choice(MN_ALU)
        op = rng.choice(IMM_OPS) if rng.random() < 0.5 else rng.choice(MEM_OPS)
        return ('I', m, prot, 2, 3, None, op)
    if k < 0.77:
        m = rng.choice(MN_RMW)
        op = '' if (m != 'INC' and m != 'DEC' and rng.random() < 0.5) else rng.choice(MEM_OPS[:8])
        return ('I', m, prot, 2 if op else 1, 5, None, op)
    if k < 0.87:
        return ('I', rng.choice(MN_IMPL), prot, 1, 2, None, '')
    if k < 0.95 and labels:
        return ('I', rng.choice(MN_BRANCH), prot, 2, 2, 3, rng.choice(labels))
    if labels:
        return ('I', rng.choice(['JMP', 'JSR']), prot, 3, 3, None, rng.choice(labels))
    return ('I', 'NOP', prot, 1, 2, None, '')


def bait_window(rng, labels):
    """windows the peephole rules look for"""
    o = rng.choice(MEM_OPS + IMM_OPS[:4])
    mem = rng.choice(MEM_OPS)
    imm = rng.choice(['#0', '#1', '#2', '#<a'])
    imm2 = rng.choice(['#0', '#1', '#2', '#<a', '#>a'])
    p = lambda: 1 if rng.random() < 0.15 else 0
    I = lambda m, op='', nb=2: ('I', m, p(), nb, 3, None, op)
    lab = rng.choice(labels) if labels else '.x'
    w = rng.randrange(21)
    if w >= 18:
        # a compare of a known constant whose branch can never be taken (both are removed), followed at
        # once by an instruction that is not a load and changes the register, then the constant again
        r, c, inc, tr = rng.choice([('LDX', 'CPX', 'INX', 'TXA'), ('LDX', 'CPX', 'DEX', 'TXA'), ('LDY', 'CPY', 'INY', 'TYA'),
                                    ('LDY', 'CPY', 'DEY', 'TYA'), ('LDA', 'CMP', 'TXA', 'TAX'), ('LDA', 'CMP', 'TYA', 'TAY')])
        k1, k2 = rng.sample(['#0', '#1', '#2', '#5', '#255'], 2)
        never = ('I', 'BEQ', 0, 2, 2, 3, lab)          # k1 != k2: BEQ is never taken
        use = rng.choice([[I(c, k1), ('I', rng.choice(['BNE', 'BEQ']), p(), 2, 2, 3, lab), I('STA', mem)],
                          [I(r, k1), I('ST' + r[2], mem)], [I('ST' + r[2], mem)]])
        return [I(r, k1), I(c, k2), never, I(inc, '', 1)] + use
    if w >= 16:
        # a label reached both by falling out of "LDA #v ; JMP lab" and by an earlier branch, then
        # code that depends on the accumulator: the jump is removable, the knowledge about A is not
        br = ('I', rng.choice(MN_BRANCH), 0, 2, 2, 3, lab)
        use = rng.choice([[I('CMP', imm), ('I', rng.choice(['BNE', 'BEQ']), p(), 2, 2, 3, rng.choice(labels) if labels else '.x'), I('STA', mem)],
                          [I('LDA', imm), I('STA', mem)], [I('STA', mem)]])
        return [br, I('LDA', imm), ('I', 'JMP', p(), 3, 3, None, lab), ('L', lab)] + use
    if w == 0:
        return [I('LDA', o), I('STA', mem), I('LDA', o)]
    if w == 1:
        return [I('STA', mem), I('LDA', mem)]
    if w == 2:
        return [I('LDA', mem), I('STA', mem)]
    if w == 3:
        r = rng.choice('XY')
        return [I('LD' + r, mem), I('ST' + r, mem)]
    if w == 4:
        return [I(rng.choice(['TAX', 'TXA', 'TAY', 'TYA']), '', 1), I(rng.choice(['TAX', 'TXA', 'TAY', 'TYA']), '', 1)]
    if w == 5:
        r = rng.choice('AXY')
        return [I('LD' + r, o), I('LD' + r, rng.choice(MEM_OPS))]
    if w == 6:
        return [I('LDA', o), I('ORA', '#0')]
    if w == 7:
        return [I('LDA', o), I(rng.choice(['CLC', 'SEC']), '', 1), I('ADC', mem)]
    if w == 8:
        r, c = rng.choice([('LDA', 'CMP'), ('LDX', 'CPX'), ('LDY', 'CPY')])
        return [I(r, imm), I(c, imm2), ('I', rng.choice(['BNE', 'BEQ']), p(), 2, 2, 3, lab)]
    if w == 9:
        return [('I', 'JMP', p(), 3, 3, None, lab), ('L', lab)] if rng.random() < 0.5 else \
            [('I', 'JMP', p(), 3, 3, None, lab), ('I', 'JMP', p(), 3, 3, None, lab)]
    if w == 10:
        return [I('PLA', '', 1), I('PHA', '', 1)]
    if w == 11:
        # reload with flags not A: look-ahead cases
        return [I('LDA', o), I('LDX', mem), I('LDA', o), I(rng.choice(['CMP', 'STA', 'ADC']), mem)] + \
            ([('D',)] if rng.random() < 0.5 else []) + [I(rng.choice(['LDA', 'LDX', 'LDY', 'STA']), mem)]
    if w == 12:
        return [I('LDY', 'a,X'), I(rng.choice(['INC', 'DEC']), rng.choice(['a', 'a+1', 'a,X'])), I('LDY', 'a,X')]
    if w == 13:
        return [I('LDA', o), I(rng.choice(['ROL', 'ROR', 'ASL', 'LSR']), '', 1), I('LDA', o)]
    if w == 14:
        return [I('LDX', imm), ('N', 3, 'lda #0'), I('LDX', imm)]
    return [I('LDA', o), I(rng.choice(['INX', 'DEX', 'INY', 'DEY', 'TAX', 'TAY']), '', 1), I('LDA', o),
            ('I', rng.choice(['BNE', 'BEQ']), p(), 2, 2, 3, lab)]


def gen_opt_list(rng, maxlen=24):
    n = rng.randrange(0, maxlen)
    # label spellings include those inlining produces (suffix inline<N>, .endofinline<N>)
    labels = [rng.choice(['.l%d', '.l%d', '.ifend%dinline1', '.endofinline%d', '.w%dinline23']) % i for i in range(rng.randrange(0, 4))]
    out = []
    placed = set()
    while len(out) < n:
        k = rng.random()
        if k < 0.08 and labels:
            l = rng.choice(labels)
            if l not in placed or rng.random() < 0.05:
                out.append(('L', l))
                placed.add(l)
        elif k < 0.12:
            out.append(('C', rng.choice(['x = 1;', 'a"b', ' '])))
        elif k < 0.16:
            out.append(('D',))
        elif k < 0.20:
            out.append(('N', rng.choice([1, 2, 3]), rng.choice(['nop', 'lda #0', 'sta WSYNC'])))
        elif k < 0.45:
            out.extend(bait_window(rng, labels))
        else:
            out.append(rand_instr(rng, labels))
    return out


def gen_cb_list(rng, wide=False):
    """line lists for check_branches: all branch targets defined exactly once (well-formed)
    unless [wide] (then duplicates / missing labels may occur: the panic path)."""
    nlab = rng.randrange(1, 4)
    labels = ['.t%d' % i for i in range(nlab)]
    segs = []
    # build segments: filler blocks with total bytes near the 127 boundary
    nseg = rng.randrange(2, 6)
    for s in range(nseg):
        target = rng.choice([rng.randrange(0, 12), rng.randrange(118, 140), rng.randrange(0, 300)])
        blk = []
        tot = 0
        while tot < target:
            r = rng.random()
            if r < 0.1:
                sz = rng.choice([1, 2, 3, 7, 20])
                blk.append(('N', sz, 'inline%d' % sz))
                tot += sz
            elif r < 0.15:
                blk.append(('C', 'c'))
            elif r < 0.2:
                blk.append(('D',))
            else:
                nb = rng.choice([1, 2, 2, 3, 3])
                blk.append(('I', 'NOP' if nb == 1 else ('LDA' if nb == 2 else 'STA'), 0, nb, 2, None,
                            '' if nb == 1 else ('#1' if nb == 2 else 'big')))
                tot += nb
        segs.append(blk)
    out = []
    placed = []
    for s, blk in enumerate(segs):
        # maybe a branch (or a pair) before the block
        nb = rng.randrange(0, 3)
        for _ in range(nb):
            t = rng.choice(labels)
            m = rng.choice(MN_BRANCH)
            out.append(('I', m, rng.choice([0, 0, 1]), 2, 2, 3, t))
            if m in ('BMI', 'BCC', 'BPL') and rng.random() < 0.5:
                t2 = t if rng.random() < 0.8 else rng.choice(labels)
                out.append(('I', 'BEQ', 0, 2, 2, 3, t2))
        out.extend(blk)
        if len(placed) < nlab and (rng.random() < 0.6 or s == nseg - 1):
            out.append(('L', labels[len(placed)]))
            placed.append(labels[len(placed)])
    for l in labels[len(placed):]:
        out.append(('L', l))
    if wide and rng.random() < 0.5:
        k = rng.random()
        if k < 0.4:
            # drop a label definition
            idx = [i for i, x in enumerate(out) if x[0] == 'L']
            if idx:
                del out[rng.choice(idx)]
        else:
            out.insert(rng.randrange(0, len(out) + 1), ('L', rng.choice(labels)))
    return out


# ------------------------------------------------------------------ failure search for unit mismatches

UNIT_VARS = [
    {'name': 'a', 'type': 'CharPtr', 'size': 4, 'const': False, 'def': None, 'memory': 'Zeropage'},
    {'name': 'b', 'type': 'CharPtr', 'size': 4, 'const': False, 'def': None, 'memory': 'Zeropage'},
    {'name': 'c', 'type': 'Char', 'size': 1, 'const': False, 'def': None, 'memory': 'Zeropage'},
    {'name': 'p', 'type': 'CharPtr', 'size': 1, 'const': False, 'def': None, 'memory': 'Zeropage'},
    {'name': 'big', 'type': 'CharPtr', 'size': 4, 'const': False, 'def': None, 'memory': 'Zeropage'},
    {'name': 'q', 'type': 'CharPtr', 'size': 400, 'const': False, 'def': None, 'memory': 'Other'},
]


def semantic_search(mism, rng, nstates=32, limit=300):
    """When the model and optimize() disagree on a line list, look for a machine state on which the
    list the implementation produced behaves differently from the list it was given (both run on
    the extracted 6502 semantics, followed by the same tail: RTS, and every label the list
    branches to but does not define, each followed by RTS).  -> list of violation payloads"""
    from .coexec import make_layout, gen_states, prog_record, run_sem, observable
    from .pipeline import describe_state, describe_run
    lay = make_layout(UNIT_VARS, [])
    RTS = ('I', 'RTS', 0, 1, 6, None, '')
    text = []
    meta = {}
    for m in mism[:limit]:
        impl = m.get('impl')
        if not impl or impl[0] != 'ok':
            continue
        inp = [tuple(x) for x in m['input']]
        out = [tuple(x) for x in impl[3]]
        defined = [l[1] for l in inp if l[0] == 'L']
        if len(defined) != len(set(defined)):
            continue
        if any(l[0] == 'I' and l[1] in ('JSR', 'PLA', 'PLP', 'PHA', 'PHP', 'RTS') for l in inp):
            continue
        # outside the optimiser's contract (hypotheses of C18_optimize_keeps_marked; never emitted by the
        # generator): protected SEC/CLC and protected compares with an immediate
        if any(l[0] == 'I' and l[2] and (l[1] in ('SEC', 'CLC') or (l[1] in ('CMP', 'CPX', 'CPY') and l[6].startswith('#'))) for l in inp):
            continue
        targets = []
        for l in inp:
            if l[0] == 'I' and (l[1] in MN_BRANCH or l[1] in ('BVC', 'BVS', 'JMP')) and l[6] not in defined and l[6] not in targets:
                targets.append(l[6])
        tail = [RTS]
        for t in targets:
            tail += [('L', t), RTS]
        states = gen_states(rng, lay, nstates, pointer_targets={'p': ['a', 'b', 'q']})
        for k, st in enumerate(states):
            if k % 2 == 0:
                st['X'] = rng.randrange(4)
                st['Y'] = rng.randrange(4)
        try:
            t1, w = prog_record(m['id'] + '@in', {'main': inp + tail}, lay, states, fuel=5000)
            t2, _ = prog_record(m['id'] + '@out', {'main': out + tail}, lay, states, fuel=5000)
        except Exception:
            continue
        text.append(t1 + t2)
        meta[m['id']] = (m, states, w)
    if not text:
        return []
    runs = run_sem(''.join(text))
    found = []
    for cid, (m, states, w) in meta.items():
        for k in range(len(states)):
            a = runs.get(cid + '@in', {}).get(k)
            b = runs.get(cid + '@out', {}).get(k)
            if a is None or b is None or a['tag'] != 'halt':
                continue
            if observable(a) != observable(b) or a.get('trace') != b.get('trace'):
                found.append({'why': 'optimize() changed the behaviour of this line list (not merely its text): same initial state, different final state'
                                     if observable(a) != observable(b) else
                                     'optimize() changed the sequence of protected (hardware access / timing) instructions executed: %s vs %s' % (a.get('trace'), b.get('trace')),
                              'input': m['input'], 'optimised_by_implementation': m['impl'][3], 'optimised_by_model': m['model'][3],
                              'initial': describe_state(lay, states[k], w),
                              'run_of_input': describe_run(lay, a, w), 'run_of_optimised': describe_run(lay, b, w)})
                break
    return found
