(** Statement templates of the code generator at -O0 for variables in split-port cartridge RAM
    ("superchip": a cell is WRITTEN through its address [v] in $1000-$107F and READ through
    [v+128] in $1080-$10FF).  Read-modify-write instructions cannot be used on such memory, so
    where an ordinary variable gets [INC v] / [ASL v] ... the compiler emits
    load-through-the-read-port / compute in A / store-through-the-write-port.

    For the declarations
      [superchip unsigned char c, d; superchip unsigned short s, t; superchip unsigned char *p;
       superchip unsigned char arr[4]; unsigned char a;]           ([a] an ordinary variable)
    the [Example]s at the end pin [stemplate] to the listing the real compiler emits, line for
    line (the listing itself is compared with the compiler by a separate script).  Only the
    instances of the listing are pinned; [show], [ins], [imm] are those of Model/GenTemplates.v.

    The pointer forms [p++] / [p--] are the 16-bit forms [PInc16] / [PDec16] (a pointer is a
    16-bit variable; the element size is 1). *)
From Coq Require Import String Ascii List Bool NArith ZArith.
From CC Require Import Base.Str Asm.Lines Model.GenTemplates.
Import ListNotations.
Open Scope string_scope.
Open Scope list_scope.

(** the index register of an indexed access *)
Inductive ireg := RegX | RegY.

Inductive sschema :=
(* 8-bit; [v], [dst] in split-port RAM unless said otherwise *)
| PCopyIn (dst x : string)                (* dst = x;   x an ordinary variable *)
| PCopyOut (dst x : string)               (* dst = x;   dst an ordinary variable, x split-port *)
| PCopy (dst x : string)                  (* dst = x;   both split-port *)
| PInc8 (v : string)                      (* v++ *)
| PDec8 (v : string)                      (* v-- *)
| PAddAssign8 (v x : string)              (* v += x;    x an ordinary variable *)
| PShl8_1 (v : string)                    (* v <<= 1 *)
| PShr8_1 (v : string)                    (* v >>= 1 *)
| PAdd8 (dst x y : string)                (* dst = x + y;  all three split-port *)
| PNeg8 (dst x : string)                  (* dst = -x;  both split-port *)
| PXorAssign8 (v x : string)              (* v ^= x;    x an ordinary variable *)
(* 16-bit (and pointers) *)
| PInc16 (v : string)                     (* v++ *)
| PDec16 (v : string)                     (* v-- *)
| PAddConst16 (v : string) (k : Z)        (* v += k *)
| PShl16_1 (v : string)                   (* v <<= 1 *)
| PShr16_1 (v : string)                   (* v >>= 1 *)
| PCopy16 (dst x : string)                (* dst = x;   both split-port *)
(* arrays in split-port RAM, index in a register *)
| PStoreIdx (arr : string) (r : ireg) (x : string)      (* arr[r] = x;  x ordinary *)
| PLoadIdx (dst arr : string) (r : ireg)                (* dst = arr[r];  dst ordinary *)
| PIncIdx (arr : string) (r : ireg)                     (* arr[r]++ *)
| PDecIdx (arr : string) (r : ireg)                     (* arr[r]-- *)
| PAddAssignIdx (arr : string) (r : ireg) (x : string)  (* arr[r] += x;  x ordinary *)
| PCopyElem (arr : string) (i j : Z).                   (* arr[i] = arr[j];  constant indices *)

(** ** operand texts *)

(** "v" for offset 0, else "v+k" *)
Definition sym (v : string) (k : Z) : string :=
  if (k =? 0)%Z then v else (v ++ "+" ++ string_of_Z k)%string.

(** the low byte through the write port and through the read port; the high byte likewise *)
Definition wlo (v : string) : string := sym v 0.       (* "v" *)
Definition whi (v : string) : string := sym v 1.       (* "v+1" *)
Definition rlo (v : string) : string := sym v 128.     (* "v+128" *)
Definition rhi (v : string) : string := sym v 129.     (* "v+129" *)

(** "t,X" / "t,Y" *)
Definition idx (t : string) (r : ireg) : string :=
  (t ++ match r with RegX => ",X" | RegY => ",Y" end)%string.

(** load through the read port, operate, store through the write port *)
Definition lcs (ld : string) (mid : list line) (st : string) : code :=
  [ins LDA ld] ++ mid ++ [ins STA st].

Definition stemplate (t : sschema) : code :=
  match t with
  | PCopyIn dst x => lcs x [] (wlo dst)
  | PCopyOut dst x => lcs (rlo x) [] dst
  | PCopy dst x => lcs (rlo x) [] (wlo dst)
  | PInc8 v => lcs (rlo v) [ins CLC ""; ins ADC (imm 1)] (wlo v)
  | PDec8 v => lcs (rlo v) [ins SEC ""; ins SBC (imm 1)] (wlo v)
  | PAddAssign8 v x => lcs (rlo v) [ins CLC ""; ins ADC x] (wlo v)
  | PShl8_1 v => lcs (rlo v) [ins ASL ""] (wlo v)
  | PShr8_1 v => lcs (rlo v) [ins LSR ""] (wlo v)
  | PAdd8 dst x y => lcs (rlo x) [ins CLC ""; ins ADC (rlo y)] (wlo dst)
  | PNeg8 dst x => lcs (imm 0) [ins SEC ""; ins SBC (rlo x)] (wlo dst)
  | PXorAssign8 v x => lcs (rlo v) [ins EOR x] (wlo v)
  | PInc16 v =>
      lcs (rlo v) [ins CLC ""; ins ADC (imm 1)] (wlo v) ++ lcs (rhi v) [ins ADC (imm 0)] (whi v)
  | PDec16 v =>
      lcs (rlo v) [ins SEC ""; ins SBC (imm 1)] (wlo v) ++ lcs (rhi v) [ins SBC (imm 0)] (whi v)
  | PAddConst16 v k =>
      lcs (rlo v) [ins CLC ""; ins ADC (imm (k mod 256))] (wlo v)
      ++ lcs (rhi v) [ins ADC (imm (k / 256))] (whi v)
  | PShl16_1 v => lcs (rlo v) [ins ASL ""] (wlo v) ++ lcs (rhi v) [ins ROL ""] (whi v)
  | PShr16_1 v => lcs (rhi v) [ins LSR ""] (whi v) ++ lcs (rlo v) [ins ROR ""] (wlo v)
  | PCopy16 dst x => lcs (rlo x) [] (wlo dst) ++ lcs (rhi x) [] (whi dst)
  | PStoreIdx arr r x => lcs x [] (idx (wlo arr) r)
  | PLoadIdx dst arr r => lcs (idx (rlo arr) r) [] dst
  | PIncIdx arr r => lcs (idx (rlo arr) r) [ins CLC ""; ins ADC (imm 1)] (idx (wlo arr) r)
  | PDecIdx arr r => lcs (idx (rlo arr) r) [ins SEC ""; ins SBC (imm 1)] (idx (wlo arr) r)
  | PAddAssignIdx arr r x => lcs (idx (rlo arr) r) [ins CLC ""; ins ADC x] (idx (wlo arr) r)
  | PCopyElem arr i j => lcs (sym arr (128 + j)) [] (sym arr i)
  end.

(** the texts are the expected ones *)
Lemma rlo_text : forall v, rlo v = (v ++ "+128")%string.
Proof. reflexivity. Qed.
Lemma rhi_text : forall v, rhi v = (v ++ "+129")%string.
Proof. reflexivity. Qed.
Lemma wlo_text : forall v, wlo v = v.
Proof. reflexivity. Qed.
Lemma whi_text : forall v, whi v = (v ++ "+1")%string.
Proof. reflexivity. Qed.

(** * The 25 listings *)
(** c = a; *)
Example slisting_01 : map show (stemplate (PCopyIn "c" "a")) =
  ["LDA a"; "STA c"].
Proof. vm_compute. reflexivity. Qed.

(** a = c; *)
Example slisting_02 : map show (stemplate (PCopyOut "a" "c")) =
  ["LDA c+128"; "STA a"].
Proof. vm_compute. reflexivity. Qed.

(** c = d; *)
Example slisting_03 : map show (stemplate (PCopy "c" "d")) =
  ["LDA d+128"; "STA c"].
Proof. vm_compute. reflexivity. Qed.

(** c++; *)
Example slisting_04 : map show (stemplate (PInc8 "c")) =
  ["LDA c+128"; "CLC "; "ADC #1"; "STA c"].
Proof. vm_compute. reflexivity. Qed.

(** c--; *)
Example slisting_05 : map show (stemplate (PDec8 "c")) =
  ["LDA c+128"; "SEC "; "SBC #1"; "STA c"].
Proof. vm_compute. reflexivity. Qed.

(** c += a; *)
Example slisting_06 : map show (stemplate (PAddAssign8 "c" "a")) =
  ["LDA c+128"; "CLC "; "ADC a"; "STA c"].
Proof. vm_compute. reflexivity. Qed.

(** c <<= 1; *)
Example slisting_07 : map show (stemplate (PShl8_1 "c")) =
  ["LDA c+128"; "ASL "; "STA c"].
Proof. vm_compute. reflexivity. Qed.

(** c >>= 1; *)
Example slisting_08 : map show (stemplate (PShr8_1 "c")) =
  ["LDA c+128"; "LSR "; "STA c"].
Proof. vm_compute. reflexivity. Qed.

(** c = c + d; *)
Example slisting_09 : map show (stemplate (PAdd8 "c" "c" "d")) =
  ["LDA c+128"; "CLC "; "ADC d+128"; "STA c"].
Proof. vm_compute. reflexivity. Qed.

(** s++; *)
Example slisting_10 : map show (stemplate (PInc16 "s")) =
  ["LDA s+128"; "CLC "; "ADC #1"; "STA s"; "LDA s+129"; "ADC #0"; "STA s+1"].
Proof. vm_compute. reflexivity. Qed.

(** s--; *)
Example slisting_11 : map show (stemplate (PDec16 "s")) =
  ["LDA s+128"; "SEC "; "SBC #1"; "STA s"; "LDA s+129"; "SBC #0"; "STA s+1"].
Proof. vm_compute. reflexivity. Qed.

(** s += 300; *)
Example slisting_12 : map show (stemplate (PAddConst16 "s" 300)) =
  ["LDA s+128"; "CLC "; "ADC #44"; "STA s"; "LDA s+129"; "ADC #1"; "STA s+1"].
Proof. vm_compute. reflexivity. Qed.

(** s <<= 1; *)
Example slisting_13 : map show (stemplate (PShl16_1 "s")) =
  ["LDA s+128"; "ASL "; "STA s"; "LDA s+129"; "ROL "; "STA s+1"].
Proof. vm_compute. reflexivity. Qed.

(** s >>= 1; *)
Example slisting_14 : map show (stemplate (PShr16_1 "s")) =
  ["LDA s+129"; "LSR "; "STA s+1"; "LDA s+128"; "ROR "; "STA s"].
Proof. vm_compute. reflexivity. Qed.

(** t = s; *)
Example slisting_15 : map show (stemplate (PCopy16 "t" "s")) =
  ["LDA s+128"; "STA t"; "LDA s+129"; "STA t+1"].
Proof. vm_compute. reflexivity. Qed.

(** p++; *)
Example slisting_16 : map show (stemplate (PInc16 "p")) =
  ["LDA p+128"; "CLC "; "ADC #1"; "STA p"; "LDA p+129"; "ADC #0"; "STA p+1"].
Proof. vm_compute. reflexivity. Qed.

(** p--; *)
Example slisting_17 : map show (stemplate (PDec16 "p")) =
  ["LDA p+128"; "SEC "; "SBC #1"; "STA p"; "LDA p+129"; "SBC #0"; "STA p+1"].
Proof. vm_compute. reflexivity. Qed.

(** arr[X] = a; *)
Example slisting_18 : map show (stemplate (PStoreIdx "arr" RegX "a")) =
  ["LDA a"; "STA arr,X"].
Proof. vm_compute. reflexivity. Qed.

(** a = arr[X]; *)
Example slisting_19 : map show (stemplate (PLoadIdx "a" "arr" RegX)) =
  ["LDA arr+128,X"; "STA a"].
Proof. vm_compute. reflexivity. Qed.

(** arr[X]++; *)
Example slisting_20 : map show (stemplate (PIncIdx "arr" RegX)) =
  ["LDA arr+128,X"; "CLC "; "ADC #1"; "STA arr,X"].
Proof. vm_compute. reflexivity. Qed.

(** arr[Y]--; *)
Example slisting_21 : map show (stemplate (PDecIdx "arr" RegY)) =
  ["LDA arr+128,Y"; "SEC "; "SBC #1"; "STA arr,Y"].
Proof. vm_compute. reflexivity. Qed.

(** arr[1] = arr[2]; *)
Example slisting_22 : map show (stemplate (PCopyElem "arr" 1 2)) =
  ["LDA arr+130"; "STA arr+1"].
Proof. vm_compute. reflexivity. Qed.

(** arr[X] += a; *)
Example slisting_23 : map show (stemplate (PAddAssignIdx "arr" RegX "a")) =
  ["LDA arr+128,X"; "CLC "; "ADC a"; "STA arr,X"].
Proof. vm_compute. reflexivity. Qed.

(** c = -c; *)
Example slisting_24 : map show (stemplate (PNeg8 "c" "c")) =
  ["LDA #0"; "SEC "; "SBC c+128"; "STA c"].
Proof. vm_compute. reflexivity. Qed.

(** c ^= a; *)
Example slisting_25 : map show (stemplate (PXorAssign8 "c" "a")) =
  ["LDA c+128"; "EOR a"; "STA c"].
Proof. vm_compute. reflexivity. Qed.

(** [v++] and [v--] are [v += 1] and the mirror image with SEC/SBC; the pointer forms are the
    16-bit forms *)
Lemma stemplate_inc16 : forall v, stemplate (PInc16 v) = stemplate (PAddConst16 v 1).
Proof. reflexivity. Qed.
