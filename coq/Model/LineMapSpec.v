(** Specification of the line-mapping table built by the preprocessor (property C06).

    The compiler turns a character offset of the preprocessed text into a line number by counting
    newlines ([offset_to_line], src/compile.rs [syntax_error]) and reports
    [mapped_lines[line number]] as the place of an error.  This is right when the table
    ([rev (p_map p)]) has exactly one entry per line of [p_out p] and each entry names the origin
    of its line.  The definitions here state that; the proofs are in Proofs/LineMapFacts.v. *)
From Coq Require Import String Ascii List Bool Arith NArith Lia.
From CC Require Import Base.Str Model.Cpp.
Import ListNotations.
Open Scope list_scope.
Open Scope string_scope.

(** ** newlines of a text *)
Definition nlc : ascii := ascii_of_nat 10.
Definition is_nl (a : ascii) : bool := Ascii.eqb a nlc.

(** number of newline characters of a text *)
Fixpoint count_nl (s : string) : nat :=
  match s with
  | EmptyString => 0
  | String a r => (if is_nl a then 1 else 0) + count_nl r
  end.

(** no newline at all *)
Fixpoint nlfree (s : string) : bool :=
  match s with
  | EmptyString => true
  | String a r => negb (is_nl a) && nlfree r
  end.

(** "one line": a newline occurs at most once and only as the last character *)
Fixpoint one_line (s : string) : bool :=
  match s with
  | EmptyString => true
  | String a r => if is_nl a then (match r with EmptyString => true | _ => false end) else one_line r
  end.

(** the last character is a newline *)
Fixpoint ends_nl (s : string) : bool :=
  match s with
  | EmptyString => false
  | String a EmptyString => is_nl a
  | String _ r => ends_nl r
  end.

(** a text all of whose lines are terminated: empty, or ending with a newline *)
Definition complete (s : string) : bool :=
  match s with EmptyString => true | _ => ends_nl s end.

(** a full line: terminated by a newline, no other newline *)
Definition full_line (s : string) : Prop := one_line s = true /\ ends_nl s = true.

(** ** L0: the compiler's offset -> line translation *)
Definition offset_to_line (text : string) (loc : nat) : nat := count_nl (string_take loc text).

(** the Rust loop as written: with [loc = 0] the test [char_number == loc] never succeeds and the
    whole text is scanned *)
Definition offset_to_line_rust (text : string) (loc : nat) : nat :=
  if Nat.eqb loc 0 then count_nl text else count_nl (string_take loc text).

(** ** L1: one table entry per output line *)
Definition entries_match_lines (p : pstate) : Prop :=
  List.length (p_map p) = count_nl (p_out p) + (if complete (p_out p) then 0 else 1).

(** weak form, reached when the very last logical line of the main file has no newline: every
    line of text has its entry, and there is at most one entry more *)
Definition entries_cover_lines (p : pstate) : Prop :=
  count_nl (p_out p) + (if complete (p_out p) then 0 else 1) <= List.length (p_map p)
  /\ List.length (p_map p) <= count_nl (p_out p) + 1.

(** [-D] values contain no newline *)
Definition macros_single_line (defs : list (string * string)) : Prop :=
  Forall (fun d => nlfree (snd d) = true) defs.

(** every physical line of the main file and of every includable file contains at most one
    newline, and only as its last character *)
Definition lines_single (ls : list string) : Prop := Forall (fun l => one_line l = true) ls.
Definition inputs_single_line (lines : list string) (fs : files) : Prop :=
  lines_single lines /\ Forall (fun f => lines_single (snd f)) fs.

(** every physical line but the last of a file ends with a newline (also a [read_line] fact) *)
Fixpoint lines_terminated (ls : list string) : Prop :=
  match ls with
  | [] => True
  | l :: r => match r with [] => True | _ => ends_nl l = true end /\ lines_terminated r
  end.
Definition physical_lines_terminated (lines : list string) (fs : files) : Prop :=
  lines_terminated lines /\ Forall (fun f => lines_terminated (snd f)) fs.

(** the last LOGICAL line of a file (after splicing, computed with the model's own [splice]) ends
    with a newline.  Fails for a file without final newline and for a file whose last line ends
    with backslash-newline. *)
Fixpoint closed_aux (fuel : nat) (ls : list string) : Prop :=
  match fuel with
  | O => True
  | S fu =>
      match ls with
      | [] => True
      | l0 :: rest0 =>
          let '(buf, _, rest) := splice (S (List.length rest0)) l0 rest0 0%N in
          match rest with
          | [] => ends_nl buf = true
          | _ => closed_aux fu rest
          end
      end
  end.
Definition file_closed (ls : list string) : Prop := closed_aux (S (List.length ls)) ls.
(** (no longer needed by the theorems: lines of included files are terminated by construction) *)
Definition included_files_closed (fs : files) : Prop := Forall (fun f => file_closed (snd f)) fs.

(** a simple sufficient condition for [file_closed]: no line is continued and the last one is
    terminated *)
Definition no_continuation (l : string) : Prop :=
  ends_with ("\" ++ nl) l = false /\ ends_with ("\" ++ cr ++ nl) l = false.

(** ** L2 / L3: origin of the entries *)
Definition loc_file (e : loc) : string := fst (fst e).
Definition loc_line (e : loc) : N := snd (fst e).
Definition loc_inc (e : loc) : option (string * N) := snd e.

(** [origin fs fname inc lines e]: [e] is an entry a run over the file [fname] (whose physical
    lines are [lines], included from [inc]) may push: either an entry of the file itself — its
    name, one of its physical line numbers, exactly [inc] — or, recursively, an entry of a file
    [g] of [fs] included from physical line [k] of [fname], which then carries [Some (fname, k)]
    at its own level. *)
Inductive origin (fs : files) : string -> option (string * N) -> list string -> loc -> Prop :=
| origin_own : forall fname inc lines n,
    1 <= N.to_nat n <= List.length lines ->
    origin fs fname inc lines (fname, n, inc)
| origin_include : forall fname inc lines g glines k e,
    find_file fs g = Some glines ->
    1 <= N.to_nat k <= List.length lines ->
    origin fs g (Some (fname, k)) glines e ->
    origin fs fname inc lines e.
