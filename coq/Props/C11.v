(** C11 — comments, layout and listing options never affect behaviour.  Statements only (general
    scanner theorems: Proofs/ScanFacts.v when present). *)
From Coq Require Import String Ascii List Bool NArith.
From CC Require Import Base.Str Asm.Lines Model.Cpp Model.Optimize Model.OptSpec Proofs.OptFacts.
Import ListNotations.
Open Scope string_scope.

(** comment lines (the listing of --insert-code) are never changed or moved by the optimiser *)
Theorem C11_optimize_keeps_comments : forall (c : code) (k : nat) (t : string),
  nth_error c k = Some (Cmt t) -> nth_error (fst (optimize c)) k = Some (Cmt t).
Proof. intros c k t H. apply optimize_noninstr_fixed; [exact H | reflexivity]. Qed.

(** comments of several shapes, a splice and CR-LF around the same tokens *)
Theorem C11_example_layout :
  match run_cpp [] "m.c" [] ["char /* c ""q"" */ a; // tail /* x" ++ nl; "char \" ++ nl; "b; /* open" ++ nl; "still */ char c;" ++ cr ++ nl] with
  | POk p => p_out p = "char  a; " ++ nl ++ "char b; " ++ nl ++ " char c;" ++ cr ++ nl
  | PErr _ => False
  end.
Proof. vm_compute. reflexivity. Qed.

(** the known defect on the model: // inside a block comment (known findings F-C11-...) *)
Theorem C11_block_comment_slashes_refuted :
  match scan_line false ("/* see http://x.org */ char a;" ++ nl) (mkScan false 0 []) with
  | ScanOk out ins st => sc_in_comment st = true /\ ins = false
  | ScanUnterminated => False
  end.
Proof. vm_compute. split; reflexivity. Qed.
