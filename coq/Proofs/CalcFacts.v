(** The Pratt parser of the constant calculator (Model/Calc.v) groups every expression without ?:
    exactly as C's grammar does: [calc (lin e) = ceval e], for expressions of any size, with the
    fuel that [calc] really uses. *)
From Coq Require Import String List Bool ZArith Lia.
From CC Require Import Model.Calc Model.CalcSpec.
Import ListNotations.
Open Scope Z_scope.

(** ** binding powers and C levels agree on the non-ternary operators *)
Lemma prec_c_prec : forall o, is_ternary o = false -> prec o = 10 * c_prec o.
Proof. intros o H. destruct o; try discriminate H; reflexivity. Qed.

Lemma prec_lt_iff : forall o1 o2, is_ternary o1 = false -> is_ternary o2 = false ->
  (prec o1 < prec o2 <-> c_prec o1 < c_prec o2).
Proof. intros o1 o2 H1 H2. rewrite (prec_c_prec _ H1), (prec_c_prec _ H2). lia. Qed.

Lemma prec_le_iff : forall o1 o2, is_ternary o1 = false -> is_ternary o2 = false ->
  (prec o1 <= prec o2 <-> c_prec o1 <= c_prec o2).
Proof. intros o1 o2 H1 H2. rewrite (prec_c_prec _ H1), (prec_c_prec _ H2). lia. Qed.

Lemma right_assoc_non_ternary : forall o, is_ternary o = false -> right_assoc o = false.
Proof. intros o H. destruct o; try discriminate H; reflexivity. Qed.

Lemma prec_bounds : forall o, 10 <= prec o <= 120.
Proof. destruct o; cbn; lia. Qed.

Lemma c_prec_bounds : forall o, 1 <= c_prec o <= 12.
Proof. destruct o; cbn; lia. Qed.

(** ** one-step unfolding of the mutually recursive parser *)
Definition nud (f : nat) (ts : list tok) : option (cres * list tok) :=
  match ts with
  | TNum n :: r => Some (COk n, r)
  | TParen inner :: r =>
      match pexpr f inner 0 with
      | Some (v, []) => Some (v, r)
      | _ => None
      end
  | TUn o :: r =>
      match pexpr f r (prefix_prec - 1) with
      | Some (COk v, r') => Some (COk (apply_un o v), r')
      | other => other
      end
  | _ => None
  end.

Lemma pexpr_S : forall f ts rbp,
  pexpr (S f) ts rbp =
  match nud f ts with
  | None => None
  | Some (lhs, rest) => led f lhs rest rbp
  end.
Proof. reflexivity. Qed.

Lemma led_S : forall f lhs ts rbp,
  led (S f) lhs ts rbp =
  match ts with
  | TBin o :: r =>
      if rbp <? prec o then
        match pexpr f r (if right_assoc o then prec o - 1 else prec o) with
        | Some (rhs, r') => led f (bin_res o lhs rhs) r' rbp
        | None => None
        end
      else Some (lhs, ts)
  | [] => Some (lhs, [])
  | _ => None
  end.
Proof. reflexivity. Qed.

Lemma pexpr_0 : forall ts rbp, pexpr 0 ts rbp = None.
Proof. reflexivity. Qed.
Lemma led_0 : forall lhs ts rbp, led 0 lhs ts rbp = None.
Proof. reflexivity. Qed.

Local Opaque pexpr led.

(** ** more fuel never changes a result *)
Lemma fuel_mono_step : forall f,
  (forall ts rbp res, pexpr f ts rbp = Some res -> pexpr (S f) ts rbp = Some res) /\
  (forall lhs ts rbp res, led f lhs ts rbp = Some res -> led (S f) lhs ts rbp = Some res).
Proof.
  induction f as [|f [IHp IHl]]; split.
  - intros ts rbp res H. rewrite pexpr_0 in H. discriminate H.
  - intros lhs ts rbp res H. rewrite led_0 in H. discriminate H.
  - intros ts rbp res H. rewrite pexpr_S in H. rewrite pexpr_S.
    assert (Hn : forall x, nud f ts = Some x -> nud (S f) ts = Some x).
    { intros x N. destruct ts as [|[n|inner|o|o] r]; cbn [nud] in N |- *; try exact N.
      - destruct (pexpr f inner 0) as [[v rr]|] eqn:E; [|discriminate N].
        rewrite (IHp _ _ _ E). exact N.
      - destruct (pexpr f r (prefix_prec - 1)) as [[v rr]|] eqn:E; [|discriminate N].
        rewrite (IHp _ _ _ E). exact N. }
    destruct (nud f ts) as [[lhs rest]|] eqn:N; [|discriminate H].
    rewrite (Hn _ eq_refl). apply IHl. exact H.
  - intros lhs ts rbp res H. rewrite led_S in H. rewrite led_S.
    destruct ts as [|[n|inner|o|o] r]; try exact H.
    destruct (rbp <? prec o); [|exact H].
    destruct (pexpr f r (if right_assoc o then prec o - 1 else prec o)) as [[rhs rr]|] eqn:E;
      [|discriminate H].
    rewrite (IHp _ _ _ E). apply IHl. exact H.
Qed.

Lemma pexpr_mono : forall f f' ts rbp res,
  (f <= f')%nat -> pexpr f ts rbp = Some res -> pexpr f' ts rbp = Some res.
Proof.
  intros f f' ts rbp res Hle H. induction Hle as [|f' Hle IH]; [exact H|].
  apply (proj1 (fuel_mono_step f')). exact IH.
Qed.

Lemma led_mono : forall f f' lhs ts rbp res,
  (f <= f')%nat -> led f lhs ts rbp = Some res -> led f' lhs ts rbp = Some res.
Proof.
  intros f f' lhs ts rbp res Hle H. induction Hle as [|f' Hle IH]; [exact H|].
  apply (proj2 (fuel_mono_step f')). exact IH.
Qed.

(** ** token sizes *)
Lemma toks_size_app : forall a b, toks_size (a ++ b) = (toks_size a + toks_size b)%nat.
Proof.
  induction a as [|t a IH]; intros b; [reflexivity|].
  cbn [app]. unfold toks_size in *. cbn [fold_right]. rewrite IH. lia.
Qed.
Lemma toks_size_cons : forall t l, toks_size (t :: l) = (tok_size t + toks_size l)%nat.
Proof. reflexivity. Qed.
Lemma toks_size_paren : forall l, toks_size [TParen l] = S (toks_size l).
Proof. intros l. unfold toks_size. cbn [fold_right tok_size]. lia. Qed.
Lemma toks_size_nil : toks_size [] = 0%nat.
Proof. reflexivity. Qed.

(** ** where the operator loop stops *)
(** [stops rbp rest]: the loop [led _ _ rest rbp] returns at once: the input is exhausted or the
    next token is a binary operator that does not bind tighter than [rbp] *)
Definition stops (rbp : Z) (rest : list tok) : Prop :=
  match rest with
  | [] => True
  | TBin o :: _ => prec o <= rbp
  | _ => False
  end.

(** what may follow an operand written at C level [p] *)
Definition follow_ok (p : Z) (rest : list tok) : Prop := stops (10 * p) rest.

Lemma led_stops : forall f lhs rest rbp,
  stops rbp rest -> led (S f) lhs rest rbp = Some (lhs, rest).
Proof.
  intros f lhs rest rbp H. rewrite led_S.
  destruct rest as [|[n|inner|o|o] r]; cbn [stops] in H; try contradiction; [reflexivity|].
  destruct (rbp <? prec o) eqn:E; [|reflexivity].
  apply Z.ltb_lt in E. lia.
Qed.

Lemma stops_mono : forall a b rest, a <= b -> stops a rest -> stops b rest.
Proof.
  intros a b rest Hab H. destruct rest as [|[n|inner|o|o] r]; cbn [stops] in *; try exact H. lia.
Qed.

Lemma follow_ok_mono : forall p q rest, p <= q -> follow_ok p rest -> follow_ok q rest.
Proof. intros p q rest Hpq. apply stops_mono. lia. Qed.

Lemma stops_prefix : forall p rest, follow_ok p rest -> stops (prefix_prec - 1) rest.
Proof.
  intros p rest H. destruct rest as [|[n|inner|o|o] r]; cbn [follow_ok stops] in *; try exact H.
  pose proof (prec_bounds o). unfold prefix_prec. lia.
Qed.

(** ** single parser steps, with explicit fuel *)
Lemma pexpr_num_step : forall f n rest rbp,
  pexpr (S f) (TNum n :: rest) rbp = led f (COk n) rest rbp.
Proof. intros. rewrite pexpr_S. reflexivity. Qed.

Lemma pexpr_paren_step : forall f inner v rest rbp,
  pexpr f inner 0 = Some (v, []) ->
  pexpr (S f) (TParen inner :: rest) rbp = led f v rest rbp.
Proof. intros f inner v rest rbp H. rewrite pexpr_S. cbn [nud]. rewrite H. reflexivity. Qed.

Lemma pexpr_un_step : forall f o ts v rest rbp,
  pexpr f ts (prefix_prec - 1) = Some (v, rest) ->
  pexpr (S f) (TUn o :: ts) rbp = led f (un_res o v) rest rbp.
Proof.
  intros f o ts v rest rbp H. rewrite pexpr_S. cbn [nud]. rewrite H. destruct v; reflexivity.
Qed.

Lemma led_bin_step : forall f o lhs ts rhs rest rbp,
  is_ternary o = false -> rbp < prec o ->
  pexpr f ts (prec o) = Some (rhs, rest) ->
  led (S f) lhs (TBin o :: ts) rbp = led f (bin_res o lhs rhs) rest rbp.
Proof.
  intros f o lhs ts rhs rest rbp Ho Hlt H. rewrite led_S.
  apply Z.ltb_lt in Hlt. rewrite Hlt, (right_assoc_non_ternary _ Ho), H. reflexivity.
Qed.

(** a parenthesised group: the inner sequence is parsed completely at binding power 0 *)
Lemma pexpr_group : forall g f inner v rest rbp res,
  pexpr g inner 0 = Some (v, []) ->
  led f v rest rbp = Some res ->
  pexpr (S (Nat.max g f)) (TParen inner :: rest) rbp = Some res.
Proof.
  intros g f inner v rest rbp res Hin Hled.
  rewrite (pexpr_paren_step _ inner v).
  - apply (led_mono f); [lia | exact Hled].
  - apply (pexpr_mono g); [lia | exact Hin].
Qed.

(** ** the Pratt invariant
    Parsing, at binding power [rbp], an operand [e] that was written at C level [p] and is
    followed by [rest] amounts to: take the value C gives to [e], and continue the operator loop
    on [rest] — provided the operators that [lin_at p] leaves unparenthesised at the top of [e]
    all bind tighter than [rbp] (so that the loop does not stop inside [e]) and the token after
    [e] does not bind tighter than the operators of [e] (so that it does not steal [e]'s right
    operand).  Fuel: twice the number of tokens of [e] on top of what the continuation needs. *)
Lemma pexpr_lin_at : forall e, no_ternary e ->
  forall p rest rbp res f,
  (forall o, is_ternary o = false -> p <= c_prec o -> rbp < prec o) ->
  follow_ok p rest ->
  led f (ceval e) rest rbp = Some res ->
  pexpr (f + 2 * toks_size (lin_at p e)) (lin_at p e ++ rest) rbp = Some res.
Proof.
  induction e as [n | u e IHe | o l IHl r IHr | e IHe]; intros Hnt p rest rbp res f Hrbp Hfol Hled.
  - (* number *)
    cbn [lin_at ceval app] in *. apply (pexpr_mono (S f)).
    + rewrite toks_size_cons, toks_size_nil. cbn [tok_size]. lia.
    + rewrite pexpr_num_step. exact Hled.
  - (* prefix operator *)
    cbn [no_ternary] in Hnt. cbn [lin_at ceval] in *.
    rewrite <- app_comm_cons, toks_size_cons. cbn [tok_size].
    set (s := toks_size (lin_at unary_level e)).
    assert (Hop : pexpr (1 + 2 * s) (lin_at unary_level e ++ rest) (prefix_prec - 1)
                  = Some (ceval e, rest)).
    { apply (IHe Hnt unary_level rest (prefix_prec - 1) (ceval e, rest) 1%nat).
      - intros o' _ Hle. pose proof (c_prec_bounds o'). unfold unary_level in Hle. lia.
      - unfold follow_ok. eapply stops_mono; [|exact (stops_prefix _ _ Hfol)].
        unfold unary_level, prefix_prec. lia.
      - apply led_stops. exact (stops_prefix _ _ Hfol). }
    apply (pexpr_mono (S (Nat.max (1 + 2 * s) f))); [lia|].
    rewrite (pexpr_un_step _ u _ (ceval e) rest).
    + apply (led_mono f); [lia | exact Hled].
    + apply (pexpr_mono (1 + 2 * s)); [lia | exact Hop].
  - (* binary operator *)
    cbn [no_ternary] in Hnt. destruct Hnt as [Ho [Hntl Hntr]].
    cbn [ceval] in Hled.
    set (L := lin_at (c_prec o) l). set (R := lin_at (c_prec o + 1) r).
    set (body := L ++ TBin o :: R).
    assert (Hbody : forall rest' rbp' res' f',
      rbp' < prec o -> follow_ok (c_prec o) rest' ->
      led f' (bin_res o (ceval l) (ceval r)) rest' rbp' = Some res' ->
      pexpr (f' + 2 * toks_size body) (body ++ rest') rbp' = Some res').
    { intros rest' rbp' res' f' Hlt Hfol' Hled'.
      unfold body. rewrite <- app_assoc, <- app_comm_cons.
      rewrite toks_size_app, toks_size_cons. cbn [tok_size].
      set (sL := toks_size L). set (sR := toks_size R).
      assert (HR : pexpr (1 + 2 * sR) (R ++ rest') (prec o) = Some (ceval r, rest')).
      { apply (IHr Hntr (c_prec o + 1) rest' (prec o) (ceval r, rest') 1%nat).
        - intros o' Ho' Hle. rewrite (prec_c_prec _ Ho), (prec_c_prec _ Ho'). lia.
        - apply (follow_ok_mono (c_prec o)); [lia | exact Hfol'].
        - apply led_stops. unfold follow_ok in Hfol'. rewrite (prec_c_prec _ Ho). exact Hfol'. }
      set (g := Nat.max (1 + 2 * sR) f').
      assert (HL : led (S g) (ceval l) (TBin o :: R ++ rest') rbp' = Some res').
      { rewrite (led_bin_step g o (ceval l) (R ++ rest') (ceval r) rest' rbp' Ho Hlt).
        - apply (led_mono f'); [unfold g; lia | exact Hled'].
        - apply (pexpr_mono (1 + 2 * sR)); [unfold g; lia | exact HR]. }
      apply (pexpr_mono (S g + 2 * sL)); [unfold g; lia|].
      apply (IHl Hntl (c_prec o) (TBin o :: R ++ rest') rbp' res' (S g)).
      - intros o' Ho' Hle. rewrite (prec_c_prec _ Ho) in Hlt. rewrite (prec_c_prec _ Ho'). lia.
      - unfold follow_ok. cbn [stops]. rewrite (prec_c_prec _ Ho). lia.
      - exact HL. }
    cbn [lin_at]. fold L R body.
    destruct (c_prec o <? p) eqn:Ecmp.
    + (* C needs parentheses here *)
      rewrite toks_size_paren. cbn [app].
      assert (Hin : pexpr (1 + 2 * toks_size body) body 0
                    = Some (bin_res o (ceval l) (ceval r), [])).
      { rewrite <- (app_nil_r body) at 2. apply Hbody.
        - pose proof (prec_bounds o). lia.
        - exact I.
        - apply led_stops. exact I. }
      apply (pexpr_mono (S (Nat.max (1 + 2 * toks_size body) f))); [lia|].
      exact (pexpr_group _ _ _ _ _ _ _ Hin Hled).
    + apply Z.ltb_ge in Ecmp. apply Hbody.
      * apply Hrbp; assumption.
      * apply (follow_ok_mono p); assumption.
      * exact Hled.
  - (* parentheses written in the source *)
    cbn [no_ternary] in Hnt. cbn [lin_at ceval app] in *.
    rewrite toks_size_paren.
    set (s := toks_size (lin_at 0 e)).
    assert (Hin : pexpr (1 + 2 * s) (lin_at 0 e) 0 = Some (ceval e, [])).
    { rewrite <- (app_nil_r (lin_at 0 e)).
      apply (IHe Hnt 0 [] 0 (ceval e, []) 1%nat).
      - intros o' _ _. pose proof (prec_bounds o'). lia.
      - exact I.
      - apply led_stops. exact I. }
    apply (pexpr_mono (S (Nat.max (1 + 2 * s) f))); [lia|].
    exact (pexpr_group _ _ _ _ _ _ _ Hin Hled).
Qed.

(** the parser on a complete expression, with any sufficient fuel *)
Lemma pexpr_lin : forall e fuel, no_ternary e ->
  (2 * toks_size (lin e) + 1 <= fuel)%nat ->
  pexpr fuel (lin e) 0 = Some (ceval e, []).
Proof.
  intros e fuel Hnt Hfuel. unfold lin in *.
  apply (pexpr_mono (1 + 2 * toks_size (lin_at 0 e))); [lia|].
  rewrite <- (app_nil_r (lin_at 0 e)) at 2.
  apply (pexpr_lin_at e Hnt 0 [] 0 (ceval e, []) 1%nat).
  - intros o _ _. pose proof (prec_bounds o). lia.
  - exact I.
  - apply led_stops. exact I.
Qed.

(** ** the theorem: with the fuel [calc] really uses, every expression without ?: — of any size,
    any mixture of levels, any redundant parentheses, erroneous or not — has the value C gives it *)
Theorem calc_lin_fuel : forall e, no_ternary e ->
  exists fuel, pexpr fuel (lin e) 0 = Some (ceval e, []).
Proof. intros e Hnt. eexists. apply pexpr_lin; [exact Hnt | apply le_n]. Qed.

Theorem calc_lin : forall e, no_ternary e -> calc (lin e) = ceval e.
Proof.
  intros e Hnt. unfold calc. rewrite (pexpr_lin e _ Hnt); [reflexivity | lia].
Qed.
Print Assumptions calc_lin.

(** redundant parentheses do not matter *)
Theorem calc_lin_par : forall e, no_ternary e -> calc (lin (EPar e)) = calc (lin e).
Proof.
  intros e Hnt. rewrite (calc_lin (EPar e)), (calc_lin e); [reflexivity | exact Hnt | exact Hnt].
Qed.
Print Assumptions calc_lin_par.

(** parentheses anywhere: wrapping any sub-expression changes nothing — stated for one context
    step of each kind, which composes to arbitrary depth through [calc_lin] itself *)
Theorem calc_lin_par_bin : forall o l r, no_ternary (EBin o l r) ->
  calc (lin (EBin o (EPar l) (EPar r))) = calc (lin (EBin o l r)).
Proof.
  intros o l r Hnt. rewrite (calc_lin (EBin o l r) Hnt). rewrite calc_lin; [reflexivity|exact Hnt].
Qed.

(** errors are results of [ceval], hence covered: a division by a zero-valued sub-expression,
    anywhere on the right of /, is reported as such when the left operand evaluates *)
Theorem calc_lin_div_zero : forall l r a,
  no_ternary l -> no_ternary r -> ceval l = COk a -> ceval r = COk 0 ->
  calc (lin (EBin ODiv l r)) = CDivZero.
Proof.
  intros l r a Hl Hr El Er. rewrite calc_lin.
  - cbn [ceval]. rewrite El, Er. reflexivity.
  - cbn [no_ternary]. repeat split; assumption.
Qed.
Print Assumptions calc_lin_div_zero.

(** an error in a sub-expression is the value of the whole expression: left error wins *)
Theorem calc_lin_error_left : forall o l r,
  no_ternary (EBin o l r) -> (forall v, ceval l <> COk v) ->
  calc (lin (EBin o l r)) = ceval l.
Proof.
  intros o l r Hnt Herr. rewrite (calc_lin _ Hnt). cbn [ceval].
  destruct (ceval l) as [v| | |]; [exfalso; exact (Herr v eq_refl) | reflexivity ..].
Qed.

(** ** the "needs parentheses" reading of the unparser is the same function *)
Definition paren_at (p : Z) (e : cexpr) : bool :=
  match top_bin e with Some o => c_prec o <? p | None => false end.

Lemma lin_at_np : forall e p, lin_at p e = wrap_if (paren_at p e) (lin_np e).
Proof.
  induction e as [n | u e IHe | o l IHl r IHr | e IHe]; intros p.
  - reflexivity.
  - cbn [lin_at lin_np paren_at top_bin wrap_if]. rewrite IHe. f_equal.
    unfold needs_paren_prefix, paren_at. destruct (top_bin e) as [o'|]; [|reflexivity].
    pose proof (c_prec_bounds o') as Hb. unfold unary_level.
    destruct (c_prec o' <? 13) eqn:E; [reflexivity|]. apply Z.ltb_ge in E. lia.
  - cbn [lin_at lin_np paren_at top_bin]. rewrite IHl, IHr.
    replace (paren_at (c_prec o + 1) r) with (needs_paren_right o r).
    + reflexivity.
    + unfold needs_paren_right, paren_at. destruct (top_bin r) as [o'|]; [|reflexivity].
      destruct (c_prec o' <=? c_prec o) eqn:E1; destruct (c_prec o' <? c_prec o + 1) eqn:E2;
        try reflexivity.
      * apply Z.leb_le in E1. apply Z.ltb_ge in E2. lia.
      * apply Z.leb_gt in E1. apply Z.ltb_lt in E2. lia.
  - cbn [lin_at lin_np paren_at top_bin wrap_if]. rewrite IHe.
    unfold paren_at. destruct (top_bin e) as [o'|]; [|reflexivity].
    pose proof (c_prec_bounds o') as Hb.
    destruct (c_prec o' <? 0) eqn:E; [|reflexivity]. apply Z.ltb_lt in E. lia.
Qed.

Theorem lin_is_lin_np : forall e, lin e = lin_np e.
Proof.
  intros e. unfold lin. rewrite lin_at_np. unfold paren_at.
  destruct (top_bin e) as [o'|]; [|reflexivity].
  pose proof (c_prec_bounds o') as Hb.
  destruct (c_prec o' <? 0) eqn:E; [|reflexivity]. apply Z.ltb_lt in E. lia.
Qed.

Theorem calc_lin_np : forall e, no_ternary e -> calc (lin_np e) = ceval e.
Proof. intros e Hnt. rewrite <- lin_is_lin_np. exact (calc_lin e Hnt). Qed.
Print Assumptions calc_lin_np.

(** ** non-vacuity: 1 + 2 * 3 - (4 - 5) << 1 == 7 | 8, seven operators on six levels *)
Definition ex7 : cexpr :=
  EBin OOr
    (EBin OEq
      (EBin OShl
        (EBin OSub (EBin OAdd (ENum 1) (EBin OMul (ENum 2) (ENum 3)))
                   (EBin OSub (ENum 4) (ENum 5)))
        (ENum 1))
      (ENum 7))
    (ENum 8).

Example ex7_tokens :
  lin ex7 = [TNum 1; TBin OAdd; TNum 2; TBin OMul; TNum 3; TBin OSub;
             TParen [TNum 4; TBin OSub; TNum 5]; TBin OShl; TNum 1; TBin OEq; TNum 7;
             TBin OOr; TNum 8].
Proof. vm_compute. reflexivity. Qed.

Example ex7_no_ternary : no_ternary ex7.
Proof. cbn. repeat split. Qed.

Example ex7_both_ways : calc (lin ex7) = COk 8 /\ ceval ex7 = COk 8.
Proof. split; vm_compute; reflexivity. Qed.

(** the same with an erroneous sub-expression: 1 + 2 / (3 - 3) * 4 - !0 *)
Definition ex_div0 : cexpr :=
  EBin OSub
    (EBin OAdd (ENum 1)
       (EBin OMul (EBin ODiv (ENum 2) (EBin OSub (ENum 3) (ENum 3))) (ENum 4)))
    (EUn UNot (ENum 0)).

Example ex_div0_both_ways :
  lin ex_div0 = [TNum 1; TBin OAdd; TNum 2; TBin ODiv; TParen [TNum 3; TBin OSub; TNum 3];
                 TBin OMul; TNum 4; TBin OSub; TUn UNot; TNum 0]
  /\ calc (lin ex_div0) = CDivZero /\ ceval ex_div0 = CDivZero.
Proof. repeat split; vm_compute; reflexivity. Qed.

(** prefix operators: - ~ ! (1 + 2) * - 3 *)
Example ex_prefix :
  let e := EBin OMul (EUn UNeg (EUn UBNot (EUn UNot (EBin OAdd (ENum 1) (ENum 2)))))
                     (EUn UNeg (ENum 3)) in
  lin e = [TUn UNeg; TUn UBNot; TUn UNot; TParen [TNum 1; TBin OAdd; TNum 2]; TBin OMul;
           TUn UNeg; TNum 3]
  /\ calc (lin e) = ceval e /\ ceval e = COk (-3).
Proof. repeat split; vm_compute; reflexivity. Qed.
