"""The C-subset semantics (extracted from coq/Src/CSem.v) as an oracle: serialises generated
programs, runs them from the same initial states as the machine code, and compares."""
import os
import shutil
from .common import *

TY = {'unsigned char': 'u8', 'char': 'u8', 'signed char': 's8', 'short': 's16', 'unsigned short': 'u16',
      'signed short': 's16', 'int': 's16', 'unsigned int': 'u16', 'const unsigned char': 'u8',
      'const char': 'u8', 'const signed char': 's8', 'unsigned char *': 'ptr', 'char *': 'ptr'}



class _ShardProc:
    """one driver process on one shard file, stdout/stderr redirected to files next to it"""

    def __init__(self, drv, fn):
        self.fn = fn
        self.p = subprocess.Popen(['bash', '-c', 'ulimit -s unlimited; exec "$0" "$1" > "$1.out" 2> "$1.err"', drv, fn])

    def communicate(self, timeout=None):
        self.p.wait(timeout=timeout)
        self.returncode = self.p.returncode
        return (open(self.fn + '.out', 'rb').read(), open(self.fn + '.err', 'rb').read())

def sx_e(e):
    k = e[0]
    if k == 'num':
        return '(num %d)' % e[1]
    if k == 'var':
        return '(var %s)' % e[1]
    if k == 'idx':
        return '(idx %s %s)' % (e[1], sx_e(e[2]))
    if k == 'deref':
        return '(idx %s (num 0))' % e[1]
    if k == 'addr':
        return '(addr %s)' % e[1]
    if k == 'bin':
        return '(bin %s %s %s)' % (e[1], sx_e(e[2]), sx_e(e[3]))
    if k == 'un':
        return '(un %s %s)' % (e[1], sx_e(e[2]))
    if k == 'inc':
        return '(inc %s %s)' % (e[1], sx_e(e[2]))
    if k == 'asg':
        return '(asg %s %s %s)' % (e[1], sx_e(e[2]), sx_e(e[3]))
    if k == 'call':
        return '(call %s%s)' % (e[1], ''.join(' ' + sx_e(a) for a in e[2]))
    if k == 'tern':
        return '(tern %s %s %s)' % (sx_e(e[1]), sx_e(e[2]), sx_e(e[3]))
    raise ValueError(e)


def comma_parts(e):
    """the operands of a (possibly nested) top-level comma expression, left to right; [e] otherwise"""
    if e is not None and e[0] == 'bin' and e[1] == ',':
        return comma_parts(e[2]) + comma_parts(e[3])
    return [e]


def has_continue(s):
    if not isinstance(s, tuple) or not s:
        return False
    if s[0] == 'continue':
        return True
    if s[0] in ('while', 'do', 'for'):
        return False
    if s[0] == 'block':
        return any(has_continue(x) for x in s[1])
    if s[0] == 'if':
        return has_continue(s[2]) or (s[3] is not None and has_continue(s[3]))
    if s[0] == 'switch':
        return any(has_continue(x) for _, b in s[2] for x in b) or (s[3] is not None and any(has_continue(x) for x in s[3]))
    return False


def sx_s(s):
    k = s[0]
    if k == 'local':
        # a local variable with a unique name is a variable like the others for the C semantics; its initialiser is
        # an assignment at the point of declaration
        return '(expr %s)' % sx_e(('asg', '=', ('var', s[2]), s[3])) if s[3] is not None else '(block)'
    if k == 'expr':
        # a comma expression used as a statement is its operands one after the other (a sequence point
        # between them): Src/CSem.v has no comma operator
        parts = comma_parts(s[1])
        if len(parts) > 1:
            return '(block%s)' % ''.join(' (expr %s)' % sx_e(x) for x in parts)
        return '(expr %s)' % sx_e(s[1])
    if k == 'for' and ((s[1] is not None and len(comma_parts(s[1])) > 1) or (s[3] is not None and len(comma_parts(s[3])) > 1)):
        # for (i1, i2; c; u1, u2) body  ==  i1; i2; while (c) { body; u1; u2; }   (no continue in body)
        if has_continue(s[4]):
            raise ValueError('comma in a for header together with continue: not translated')
        init = [('expr', x) for x in comma_parts(s[1])] if s[1] is not None else []
        upd = [('expr', x) for x in comma_parts(s[3])] if s[3] is not None else []
        body = list(s[4][1]) if s[4][0] == 'block' else [s[4]]
        cond = s[2] if s[2] is not None else ('num', 1)
        return sx_s(('block', init + [('while', cond, ('block', body + upd))]))
    if k == 'block':
        return '(block%s)' % ''.join(' ' + sx_s(x) for x in s[1])
    if k == 'if':
        return '(if %s %s%s)' % (sx_e(s[1]), sx_s(s[2]), ' ' + sx_s(s[3]) if s[3] is not None else '')
    if k == 'while':
        return '(while %s %s)' % (sx_e(s[1]), sx_s(s[2]))
    if k == 'do':
        return '(do %s %s)' % (sx_s(s[1]), sx_e(s[2]))
    if k == 'for':
        f = lambda e: sx_e(e) if e is not None else '_'
        return '(for %s %s %s %s)' % (f(s[1]), f(s[2]), f(s[3]), sx_s(s[4]))
    if k == 'switch':
        o = '(switch %s' % sx_e(s[1])
        for vals, body in s[2]:
            o += ' ((case %s)%s)' % (' '.join(str(v) for v in vals), ''.join(' ' + sx_s(x) for x in body))
        if s[3] is not None:
            o += ' (default%s)' % ''.join(' ' + sx_s(x) for x in s[3])
        return o + ')'
    if k in ('break', 'continue'):
        return '(%s)' % k
    if k == 'return':
        return '(return %s)' % sx_e(s[1]) if s[1] is not None else '(return)'
    if k in ('load', 'store'):
        return '(%s %s)' % (k, sx_e(s[1]))
    if k == 'strobe':
        return '(strobe %s)' % (s[1] if len(s) < 3 else '%s+%d' % (s[1], s[2]))
    if k == 'csleep':
        return '(csleep %d)' % s[1]
    if k == 'asm':
        return '(asm %s)' % hx(s[1])
    raise ValueError(s)


def c_globals(prog):
    """[(name, ty, len|None, const, init|None)] of the generated program, parameters included"""
    out = []
    for (t, n, init, alen, qual) in prog.globals:
        if '*' in t and 'const' in t:
            continue       # hardware-register pointer constants: not C-level state
        const = t.startswith('const')
        out.append((n, TY[t], alen, const, init))
    for f in prog.funcs:
        for (t, n) in f['params']:
            out.append((n, TY[t], None, False, None))

    def locals_of(stmts):
        for st in stmts:
            if not isinstance(st, tuple):
                continue
            if st[0] == 'local':
                out.append((st[2], TY[st[1]], None, False, None))
            for x in st[1:]:
                if isinstance(x, list):
                    locals_of(x)
                elif isinstance(x, tuple) and x and isinstance(x[0], str) and x[0] in ('block', 'if', 'while', 'do', 'for', 'switch', 'local'):
                    locals_of([x])
    locals_of(prog.main)
    for f in prog.funcs:
        locals_of(f['body'])
    return out


def cprog_record(pid, prog, lay, states, fuel=100000):
    """-> (text, watch) ; watch = [(name, idx, bits)] compared against the machine"""
    o = ['@cprog %s' % pid]
    gl = c_globals(prog)
    watch = []
    for (n, ty, alen, const, init) in gl:
        o.append('var %s %s %s %d %d' % (n, ty, alen if alen is not None else '-', 1 if const else 0, lay['sym'].get(n, -1)))
        if init is not None:
            for i, v in enumerate(init if isinstance(init, list) else [init]):
                o.append('init %s %d %d' % (n, i, v))
        if n in lay['cells'] and not const and not any(n == p for f in prog.funcs for _, p in f['params']):
            bits = 16 if ty.endswith('16') or ty == 'ptr' else 8
            for i in range(alen or 1):
                watch.append((n, i, bits))
    watch += [('X', 0, 8), ('Y', 0, 8)]
    for f in prog.funcs:
        o.append('func %s %s %s' % (f['name'], TY[f['ret']] if f['ret'] != 'void' else '-',
                                    ' '.join(n for _, n in f['params'])))
        o.append('body ' + sx_s(('block', f['body'])))
    o.append('main ' + sx_s(('block', prog.main)))
    o.append('watch ' + ' '.join('%s:%d' % (n, i) for n, i, _ in watch))
    o.append('fuel %d' % fuel)
    for st in states:
        cells = ['X:0=%d' % st['X'], 'Y:0=%d' % st['Y']]
        for (n, ty, alen, const, init) in gl:
            if n not in lay['cells'] or const:
                continue
            addrs = lay['cells'][n]
            if ty.endswith('16') or ty == 'ptr':
                cells.append('%s:0=%d' % (n, st['cells'].get(addrs[0], 0) + 256 * st['cells'].get(addrs[1], 0)))
            else:
                for i, a in enumerate(addrs):
                    cells.append('%s:%d=%d' % (n, i, st['cells'].get(a, 0)))
        o.append('state ' + ' '.join(cells))
    o.append('@end')
    return '\n'.join(o) + '\n', watch


def parse_cruns(text):
    res = {}
    for l in text.splitlines():
        if not l.startswith('@crun '):
            continue
        head, _, rest = l.partition(' | ')
        f = head.split(' ')
        pid, k, tag = f[1], int(f[2]), f[3]
        vals, _, tr = rest.partition(' | ')
        r = {'tag': tag.split(':')[0], 'vals': [int(x) for x in vals.split()] if vals.strip() else [],
             'trace': tr.split() if tr.strip() else []}
        if ':' in tag:
            try:
                r['why'] = bytes.fromhex(tag.split(':')[1]).decode()
            except Exception:
                r['why'] = tag
        res.setdefault(pid, {})[k] = r
    return res


POISON = -999999


def run_csem(text, shards=None):
    drv = ocaml_driver('csem')
    d = os.path.join('/dev/shm', 'csemx.%d' % os.getpid())
    os.makedirs(d, exist_ok=True)
    try:
        recs = ['@cprog ' + r for r in text.split('@cprog ')[1:]]
        ns = max(1, min(shards or NCPU, len(recs)))
        files = []
        for i in range(ns):
            fn = os.path.join(d, 'c%d.txt' % i)
            open(fn, 'w').write(''.join(recs[i::ns]))
            files.append(fn)
        # results go to files: a shard never waits on a full pipe while an earlier one is being read
        procs = [_ShardProc(drv, fn) for fn in files]
        out = []
        for p in procs:
            o, e = p.communicate(timeout=7200)
            if p.returncode != 0:
                raise HarnessError('csem.native failed: ' + e.decode()[-2000:])
            out.append(o.decode('utf-8', 'replace'))
        return parse_cruns('\n'.join(out))
    finally:
        shutil.rmtree(d, ignore_errors=True)


def expected_vs_machine(watch, crun, mrun, lay, mwatch):
    """-> list of (cell, expected, got) differences (empty = agree).  Only for crun ok & mrun halt."""
    maddr = {a: v for a, v in zip(mwatch, mrun['cells'])}
    diffs = []
    for (n, i, bits), ev in zip(watch, crun['vals']):
        if n == 'X':
            got = mrun['X']
        elif n == 'Y':
            got = mrun['Y']
        else:
            addrs = lay['cells'][n]
            if bits == 16:
                got = maddr[addrs[0]] + 256 * maddr[addrs[1]]
            else:
                got = maddr[addrs[i]]
        if ev == POISON:
            continue           # written by store(): the accumulator's contents are not defined by the source
        exp = ev % (1 << bits)
        if exp != got:
            diffs.append(('%s[%d]' % (n, i) if n not in ('X', 'Y') else n, exp, got))
    return diffs
