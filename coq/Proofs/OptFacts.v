(** Structural facts about the model of [AssemblyCode::optimize] (Model/Optimize.v).

    Method: every step of the zipper machine is shown to be a (possibly empty) sequence of two
    kinds of elementary rewritings of the represented code:

      (del)  l1 ++ Ins i :: l2            ~>  l1 ++ Dummy :: l2                 when [del_ok i]
      (swap) l1 ++ Ins i1 :: m ++ Ins i2 :: l2  ~>  l1 ++ Ins i2 :: m ++ Ins i1 :: l2
                                                   when i1 is an LDA, i2 a SEC/CLC and m holds
                                                   only comments and Dummies

    [del_ok i] is what the model really guarantees about a removed instruction: it is NOT
    "unprotected" -- the CMP/CPX/CPY rule ([cmp_rule]) tests the protected bit of the branch only,
    so a protected immediate compare can be removed.  Likewise the swap rule does not look at the
    protected bits at all, but it only crosses comments and Dummies (labels and inline assembly
    are barriers).  Consequently [optimize_keeps_marked] is false as first stated; see
    [optimize_keeps_marked_refuted_cmp] and the amended [optimize_keeps_marked]. *)
From Coq Require Import String Ascii List Bool NArith ZArith Lia.
From CC Require Import Base.Str Asm.Lines Model.Optimize Model.OptSpec.
Import ListNotations.
Open Scope list_scope.

Definition count_occ_ins (c : code) : nat := length (filter is_ins c).

(** * The rewriting relation *)

Definition is_compare (m : mnem) : bool :=
  match m with CMP | CPX | CPY => true | _ => false end.

(** an instruction the model may turn into [Dummy] *)
Definition del_ok (i : instr) : bool :=
  negb (i_prot i) || (is_compare (i_mn i) && is_imm (i_op i)).

(** a line the swap may cross: a comment or a Dummy -- not an instruction, not a label, not
    inline assembly *)
Definition quiet (l : line) : bool :=
  match l with Cmt _ | Dummy => true | _ => false end.

(** one rewriting; the index is the number of instructions removed *)
Inductive rw1 : N -> code -> code -> Prop :=
| rw1_del (l1 : list line) (i : instr) (l2 : list line) :
    del_ok i = true ->
    rw1 1%N (l1 ++ Ins i :: l2) (l1 ++ Dummy :: l2)
| rw1_swap (l1 : list line) (i1 : instr) (m : list line) (i2 : instr) (l2 : list line) :
    i_mn i1 = LDA -> is_flag_setter (i_mn i2) = true -> forallb quiet m = true ->
    rw1 0%N (l1 ++ Ins i1 :: m ++ Ins i2 :: l2) (l1 ++ Ins i2 :: m ++ Ins i1 :: l2).

Inductive rws : N -> code -> code -> Prop :=
| rws_refl (c : code) : rws 0%N c c
| rws_step (n m : N) (a b c : code) : rws n a b -> rw1 m b c -> rws (n + m)%N a c.

Lemma rws_eq (n n' : N) (a b : code) : rws n a b -> n = n' -> rws n' a b.
Proof. intros H E. subst n'. exact H. Qed.

Lemma rws_one (m : N) (a b : code) : rw1 m a b -> rws m a b.
Proof.
  intros H. apply (rws_eq (0 + m)%N); [|reflexivity].
  eapply rws_step; [apply rws_refl|exact H].
Qed.

Lemma rws_trans (n m : N) (a b c : code) : rws n a b -> rws m b c -> rws (n + m)%N a c.
Proof.
  intros Hab Hbc. induction Hbc as [c|m1 m2 b c d Hbc IH Hcd].
  - apply (rws_eq n); [exact Hab|lia].
  - apply (rws_eq ((n + m1) + m2)%N); [|lia].
    eapply rws_step; [apply IH; exact Hab|exact Hcd].
Qed.

(** * Boolean plumbing *)

Ltac bsplit :=
  repeat match goal with
  | H : (_ || _) = true |- _ => apply orb_true_iff in H; destruct H as [H|H]
  | H : (_ && _) = true |- _ =>
      let H1 := fresh H in apply andb_true_iff in H; destruct H as [H H1]
  | H : negb _ = true |- _ => apply negb_true_iff in H
  end.

Ltac norm :=
  repeat (progress (cbn [rev app]) || rewrite rev_app_distr || rewrite <- app_assoc).

Lemma del_ok_unprot (i : instr) : i_prot i = false -> del_ok i = true.
Proof. intros H. unfold del_ok. rewrite H. reflexivity. Qed.

Lemma cmp_rule_true (reg : option string) (m : mnem) (i1 i2 : instr) :
  cmp_rule reg m i1 i2 = true ->
  mnem_eqb (i_mn i1) m = true /\ is_imm (i_op i1) = true /\ i_prot i2 = false.
Proof.
  unfold cmp_rule. destruct reg as [r|]; [|discriminate].
  destruct (is_imm r && mnem_eqb (i_mn i1) m && is_imm (i_op i1)) eqn:C; [|discriminate].
  bsplit.
  destruct (i_mn i2); try discriminate; intros H; bsplit; auto.
Qed.

Lemma cmp_rule_del (reg : option string) (m : mnem) (i1 i2 : instr) :
  is_compare m = true -> cmp_rule reg m i1 i2 = true ->
  del_ok i1 = true /\ del_ok i2 = true.
Proof.
  intros Hm H. apply cmp_rule_true in H. destruct H as [H1 [H2 H3]].
  apply mnem_eqb_eq in H1. split.
  - unfold del_ok. rewrite H1, Hm, H2. apply orb_true_r.
  - apply del_ok_unprot. exact H3.
Qed.

Lemma pair_rules_rb (k : know) (i1 i2 : instr) :
  fst (fst (fst (pair_rules k i1 i2))) = true -> del_ok i1 = true /\ del_ok i2 = true.
Proof.
  unfold pair_rules. cbv beta zeta. cbn [fst snd]. intros H. bsplit.
  - split; apply del_ok_unprot; assumption.
  - eapply cmp_rule_del; [|exact H]. reflexivity.
  - eapply cmp_rule_del; [|exact H]. reflexivity.
  - eapply cmp_rule_del; [|exact H]. reflexivity.
Qed.

Lemma pair_rules_rf (k : know) (i1 i2 : instr) :
  snd (fst (fst (pair_rules k i1 i2))) = true -> i_prot i1 = false.
Proof.
  unfold pair_rules. cbv beta zeta. cbn [fst snd]. intros H. bsplit; assumption.
Qed.

Lemma pair_rules_rs (k : know) (i1 i2 : instr) :
  snd (fst (pair_rules k i1 i2)) = true -> i_prot i2 = false.
Proof.
  unfold pair_rules. cbv beta zeta. cbn [fst snd]. intros H. bsplit; assumption.
Qed.

Lemma pair_rules_sw (k : know) (i1 i2 : instr) :
  snd (pair_rules k i1 i2) = true -> i_mn i1 = LDA /\ is_flag_setter (i_mn i2) = true.
Proof.
  unfold pair_rules. cbv beta zeta. cbn [fst snd]. intros H.
  apply andb_true_iff in H. destruct H as [H1 H2]. apply mnem_eqb_eq in H1. split; [exact H1|].
  apply orb_true_iff in H2. destruct H2 as [H2|H2]; apply mnem_eqb_eq in H2; rewrite H2; reflexivity.
Qed.

Lemma transfer_rs (k : know) (i : instr) (ahead : list line) :
  snd (transfer k i ahead) = true -> i_prot i = false.
Proof.
  unfold transfer. destruct (i_mn i); cbv zeta;
  repeat match goal with
  | |- context [match ?x with Some _ => _ | None => _ end] => destruct x
  | |- context [if ?b then _ else _] => destruct b
  | |- context [match ?f with FUnknown => _ | FA => _ | FX => _ | FY => _ end] => destruct f
  end; cbn [snd]; intros H; try discriminate H; apply negb_true_iff in H; exact H.
Qed.

(** * The phases of a step *)

Lemma skip_to_ins_some (l : list line) :
  forall (pre pre' : list line) (i : instr) (r : list line),
  skip_to_ins pre l = Some (pre', i, r) ->
  rev pre ++ l = rev pre' ++ Ins i :: r /\ length r < length l.
Proof.
  induction l as [|x l IH]; intros pre pre' i r H.
  - discriminate H.
  - destruct x as [s|j|t sz|s|]; cbn [skip_to_ins] in H;
    try (apply IH in H; destruct H as [H1 H2]; split;
         [rewrite <- H1; norm; reflexivity | cbn [length]; lia]).
    inversion H; subst. split; [reflexivity|cbn [length]; lia].
Qed.

(** the lines between [first] and [second] are comments or Dummies: labels and inline assembly
    are barriers after which [step_second] restarts *)
Definition mid_ok (z : zst) : Prop := forallb quiet (z_mid z) = true.

Lemma forallb_rev (p : line -> bool) (l : list line) : forallb p l = true -> forallb p (rev l) = true.
Proof.
  intros H. apply forallb_forall. intros x Hin. apply in_rev in Hin.
  exact (proj1 (forallb_forall p l) H x Hin).
Qed.

(** the termination measure *)
Definition mu (z : zst) : nat :=
  2 * length (z_rest z) + (if is_flag_setter (i_mn (z_f z)) then 0 else 1).

Lemma mu_lo (z : zst) : 2 * length (z_rest z) <= mu z.
Proof. unfold mu. lia. Qed.

Lemma mu_hi (z : zst) : mu z <= 2 * length (z_rest z) + 1.
Proof. unfold mu. destruct (is_flag_setter (i_mn (z_f z))); lia. Qed.

(** what a step may do to the represented code and the counter *)
Definition good (c : code) (n : N) (res : step_result) : Prop :=
  match res with
  | Done c' n' => exists m : N, rws m c c' /\ n' = (n + m)%N
  | Next z' => exists m : N, rws m c (z_code z') /\ z_removed z' = (n + m)%N
  end.

Lemma good_trans (c c1 : code) (n m1 : N) (res : step_result) :
  rws m1 c c1 -> good c1 (n + m1)%N res -> good c n res.
Proof.
  intros H G. destruct res as [c' n'|z']; cbn [good] in *;
  destruct G as [m [G1 G2]]; exists (m1 + m)%N; (split; [eapply rws_trans; eassumption|lia]).
Qed.

(** (J) *)
Lemma step_jmp_spec (z : zst) :
  good (z_code z) (z_removed z) (step_jmp z) /\
  match step_jmp z with
  | Done _ _ => True
  | Next z1 => z1 = z \/ (length (z_rest z1) < length (z_rest z) /\ z_mid z1 = [])
  end.
Proof.
  assert (Same : good (z_code z) (z_removed z) (Next z) /\
                 (z = z \/ (length (z_rest z) < length (z_rest z) /\ z_mid z = []))).
  { split; [|left; reflexivity]. exists 0%N. split; [apply rws_refl|lia]. }
  destruct z as [pre f mid rest k n]. unfold step_jmp in *. cbn [z_pre z_f z_mid z_rest z_k z_removed] in *.
  destruct rest as [|x r]; [exact Same|].
  destruct x as [l|j|t sz|s|]; try exact Same.
  destruct (mnem_eqb (i_mn f) JMP && String.eqb (i_op f) l && negb (i_prot f)) eqn:C; [|exact Same].
  clear Same. bsplit.
  assert (R : rw1 1%N (z_code (mkZ pre f mid (Lbl l :: r) k n))
                  (rev (Lbl l :: mid ++ Dummy :: pre) ++ r)).
  { unfold z_code. cbn [z_pre z_f z_mid z_rest]. norm.
    apply rw1_del. apply del_ok_unprot. assumption. }
  apply rws_one in R.
  destruct (skip_to_ins (Lbl l :: mid ++ Dummy :: pre) r) as [[[pre'' i] r']|] eqn:S.
  - apply skip_to_ins_some in S. destruct S as [S1 S2]. split.
    + cbn [good]. exists 1%N. split; [|reflexivity].
      unfold z_code at 2. cbn [z_pre z_f z_mid z_rest]. cbn [rev app]. rewrite <- S1. exact R.
    + right. cbn [z_rest z_mid length]. split; [lia|reflexivity].
  - split; [|exact I]. unfold finish. cbn [good]. exists 1%N. split; [exact R|reflexivity].
Qed.

(** (S): the inner [find] of [step_second] as a top-level function *)
Fixpoint find_after (pre r : list line) (k : know) (n : N) : step_result :=
  match r with
  | [] => finish pre [] n
  | Ins i :: r' => step_second pre i [] r' (analyse_load AlLabel (reset_regs k) i) n
  | x :: r' => find_after (x :: pre) r' k n
  end.

Lemma step_second_lbl (pre : list line) (f : instr) (mid : list line) (l : string)
      (r : list line) (k : know) (n : N) :
  step_second pre f mid (Lbl l :: r) k n = find_after (Lbl l :: mid ++ Ins f :: pre) r k n.
Proof.
  cbn [step_second]. generalize (Lbl l :: mid ++ Ins f :: pre).
  induction r as [|x r IH]; intros p; [reflexivity|].
  destruct x as [s|j|t sz|s|]; cbn [find_after]; try apply IH; reflexivity.
Qed.

Lemma step_second_inl (pre : list line) (f : instr) (mid : list line) (t : string) (sz : N)
      (r : list line) (k : know) (n : N) :
  step_second pre f mid (Inl t sz :: r) k n = find_after (Inl t sz :: mid ++ Ins f :: pre) r k n.
Proof.
  cbn [step_second]. generalize (Inl t sz :: mid ++ Ins f :: pre).
  induction r as [|x r IH]; intros p; [reflexivity|].
  destruct x as [s|j|t' sz'|s|]; cbn [find_after]; try apply IH; reflexivity.
Qed.

Definition second_ok (c : code) (f : instr) (n : N) (len : nat) (res : step_result) : Prop :=
  match res with
  | Done c' n' => c' = c /\ n' = n
  | Next z2 => z_code z2 = c /\ z_removed z2 = n /\ mid_ok z2 /\
               (exists (i : instr) (a : list line), z_rest z2 = Ins i :: a) /\
               length (z_rest z2) <= len /\ (z_f z2 = f \/ length (z_rest z2) < len)
  end.

Lemma second_ok_mono (c : code) (f : instr) (n : N) (len len' : nat) (res : step_result) :
  second_ok c f n len' res -> len' <= len -> second_ok c f n len res.
Proof.
  destruct res as [c' n'|z2]; cbn [second_ok]; [tauto|].
  intros [H1 [H2 [H0 [H3 [H4 H5]]]]] L. repeat split; try assumption; [lia|].
  destruct H5 as [H5|H5]; [left; exact H5|right; lia].
Qed.

Lemma second_ok_change (c : code) (f f' : instr) (n : N) (len len' : nat) (res : step_result) :
  second_ok c f' n len' res -> len' < len -> second_ok c f n len res.
Proof.
  destruct res as [c' n'|z2]; cbn [second_ok]; [tauto|].
  intros [H1 [H2 [H0 [H3 [H4 H5]]]]] L. repeat split; try assumption; [lia|right; lia].
Qed.

Lemma step_second_spec_aux (B : nat) :
  forall rest : list line, length rest <= B ->
  forall (pre : list line) (f : instr) (mid : list line) (k : know) (n : N),
  forallb quiet mid = true ->
  second_ok (rev pre ++ Ins f :: rev mid ++ rest) f n (length rest)
            (step_second pre f mid rest k n).
Proof.
  induction B as [|B IHB]; intros rest LB pre f mid k n Q.
  - destruct rest as [|x r]; [|cbn [length] in LB; lia].
    cbn [step_second]. unfold finish. cbn [second_ok]. rewrite app_nil_r. split; reflexivity.
  - destruct rest as [|x r].
    + cbn [step_second]. unfold finish. cbn [second_ok]. rewrite app_nil_r. split; reflexivity.
    + cbn [length] in LB. assert (Lr : length r <= B) by lia.
      assert (FA : forall (r0 p : list line), length r0 <= B ->
                second_ok (rev p ++ r0) f n (S (length r0)) (find_after p r0 k n)).
      { induction r0 as [|y r0 IHr]; intros p L0.
        - cbn [find_after]. unfold finish. cbn [second_ok]. split; reflexivity.
        - cbn [length] in L0.
          assert (Step : second_ok (rev p ++ y :: r0) f n (S (length (y :: r0)))
                                   (find_after (y :: p) r0 k n)).
          { eapply second_ok_mono.
            - assert (E : rev p ++ y :: r0 = rev (y :: p) ++ r0) by (norm; reflexivity).
              rewrite E. apply IHr. lia.
            - cbn [length]. lia. }
          destruct y as [l'|j'|t' sz'|s'|]; cbn [find_after]; try exact Step.
          eapply second_ok_change.
          + assert (E : rev p ++ Ins j' :: r0 = rev p ++ Ins j' :: rev [] ++ r0) by reflexivity.
            rewrite E. apply IHB; [lia|reflexivity].
          + cbn [length]. lia. }
      destruct x as [l|j|t sz|s|].
      * (* label: barrier *)
        rewrite step_second_lbl. eapply second_ok_mono.
        -- assert (E : rev pre ++ Ins f :: rev mid ++ Lbl l :: r
                       = rev (Lbl l :: mid ++ Ins f :: pre) ++ r) by (norm; reflexivity).
           rewrite E. apply FA. exact Lr.
        -- cbn [length]. lia.
      * (* instruction *)
        cbn [step_second second_ok z_code z_pre z_f z_mid z_rest z_removed].
        repeat split; [exact Q|exists j, r; reflexivity|lia|left; reflexivity].
      * (* inline assembly: barrier *)
        rewrite step_second_inl. eapply second_ok_mono.
        -- assert (E : rev pre ++ Ins f :: rev mid ++ Inl t sz :: r
                       = rev (Inl t sz :: mid ++ Ins f :: pre) ++ r) by (norm; reflexivity).
           rewrite E. apply FA. exact Lr.
        -- cbn [length]. lia.
      * cbn [step_second]. eapply second_ok_mono.
        -- assert (E : rev pre ++ Ins f :: rev mid ++ Cmt s :: r
                       = rev pre ++ Ins f :: rev (Cmt s :: mid) ++ r) by (norm; reflexivity).
           rewrite E. apply IHB; [exact Lr|cbn [forallb quiet]; exact Q].
        -- cbn [length]. lia.
      * cbn [step_second]. eapply second_ok_mono.
        -- assert (E : rev pre ++ Ins f :: rev mid ++ Dummy :: r
                       = rev pre ++ Ins f :: rev (Dummy :: mid) ++ r) by (norm; reflexivity).
           rewrite E. apply IHB; [exact Lr|cbn [forallb quiet]; exact Q].
        -- cbn [length]. lia.
Qed.

Lemma step_second_spec (z : zst) :
  mid_ok z ->
  second_ok (z_code z) (z_f z) (z_removed z) (length (z_rest z))
            (step_second (z_pre z) (z_f z) (z_mid z) (z_rest z) (z_k z) (z_removed z)).
Proof. intros Q. unfold z_code. eapply step_second_spec_aux; [apply le_n|exact Q]. Qed.

(** (P)+(T)+(A) *)
Lemma step_pair_spec (z : zst) (i2 : instr) (ahead : list line) :
  z_rest z = Ins i2 :: ahead -> mid_ok z ->
  good (z_code z) (z_removed z) (step_pair z i2 ahead) /\
  match step_pair z i2 ahead with
  | Done _ _ => True
  | Next z' => mu z' < mu z /\ mid_ok z'
  end.
Proof.
  intros HR Q. pose proof (mu_lo z) as Mlo. rewrite HR in Mlo. cbn [length] in Mlo.
  assert (Msw : i_mn (z_f z) = LDA -> mu z = 2 * S (length ahead) + 1).
  { intros E. unfold mu. rewrite HR, E. reflexivity. }
  destruct z as [pre i1 mid rest k n]. cbn [z_rest z_f] in HR, Msw. subst rest.
  unfold mid_ok in *. cbn [z_mid] in Q.
  unfold step_pair. cbn [z_pre z_f z_mid z_rest z_k z_removed].
  pose proof (pair_rules_rb k i1 i2) as Prb. pose proof (pair_rules_rf k i1 i2) as Prf.
  pose proof (pair_rules_rs k i1 i2) as Prs. pose proof (pair_rules_sw k i1 i2) as Psw.
  destruct (pair_rules k i1 i2) as [[[rb rf] rs0] sw]. cbn [fst snd] in Prb, Prf, Prs, Psw.
  destruct (if negb rs0 && negb rb
            then let '(k', r) := transfer k i2 ahead in (k', r)
            else (k, rs0)) as [k1 rs] eqn:E.
  assert (Prs' : rs = true -> i_prot i2 = false).
  { destruct (negb rs0 && negb rb).
    - pose proof (transfer_rs k i2 ahead) as T.
      destruct (transfer k i2 ahead) as [k' r']. cbn [snd] in T. inversion E; subst. exact T.
    - inversion E; subst. exact Prs. }
  clear E Prs.
  unfold z_code at 1. cbn [z_pre z_f z_mid z_rest].
  destruct sw.
  { (* swap *)
    destruct (Psw eq_refl) as [S1 S2]. split.
    - cbn [good]. exists 0%N. split; [|cbn [z_removed]; lia]. unfold z_code. cbn [z_pre z_f z_mid z_rest].
      apply rws_one. apply rw1_swap; try assumption. apply forallb_rev. exact Q.
    - split; [|exact Q]. rewrite (Msw S1). unfold mu. cbn [z_rest z_f length]. rewrite S2. lia. }
  destruct rb.
  { (* remove both *)
    destruct (Prb eq_refl) as [D1 D2].
    assert (R : rws 2%N (rev pre ++ Ins i1 :: rev mid ++ Ins i2 :: ahead)
                    (rev (Dummy :: mid ++ Dummy :: pre) ++ ahead)).
    { apply (rws_eq (1 + 1)%N); [|reflexivity].
      apply (rws_trans 1 1 _ (rev pre ++ Dummy :: rev mid ++ Ins i2 :: ahead)).
      - apply rws_one. apply rw1_del. exact D1.
      - apply rws_one. norm.
        assert (E1 : rev pre ++ Dummy :: rev mid ++ Ins i2 :: ahead
                     = (rev pre ++ Dummy :: rev mid) ++ Ins i2 :: ahead) by (norm; reflexivity).
        assert (E2 : rev pre ++ Dummy :: rev mid ++ Dummy :: ahead
                     = (rev pre ++ Dummy :: rev mid) ++ Dummy :: ahead) by (norm; reflexivity).
        rewrite E1, E2. apply rw1_del. exact D2. }
    destruct (skip_to_ins (Dummy :: mid ++ Dummy :: pre) ahead) as [[[pre'' i] r']|] eqn:S.
    - apply skip_to_ins_some in S. destruct S as [S1 S2]. split.
      + cbn [good]. exists 2%N. split; [|reflexivity].
        unfold z_code. cbn [z_pre z_f z_mid z_rest]. cbn [rev app]. rewrite <- S1. exact R.
      + pose proof (mu_hi (mkZ pre'' i [] r' (analyse_load AlRemoveBoth (reset_regs k1) i) (n + 2)%N)) as Mhi.
        cbn [z_rest] in Mhi. split; [lia|reflexivity].
    - split; [|exact I]. unfold finish. cbn [good]. exists 2%N. split; [exact R|reflexivity]. }
  destruct rs.
  { (* remove second *)
    split.
    - cbn [good]. exists 1%N. split; [|reflexivity].
      unfold z_code. cbn [z_pre z_f z_mid z_rest]. apply rws_one. norm.
      assert (E1 : rev pre ++ Ins i1 :: rev mid ++ Ins i2 :: ahead
                   = (rev pre ++ Ins i1 :: rev mid) ++ Ins i2 :: ahead) by (norm; reflexivity).
      assert (E2 : rev pre ++ Ins i1 :: rev mid ++ Dummy :: ahead
                   = (rev pre ++ Ins i1 :: rev mid) ++ Dummy :: ahead) by (norm; reflexivity).
      rewrite E1, E2. apply rw1_del. apply del_ok_unprot. apply Prs'. reflexivity.
    - pose proof (mu_hi (mkZ pre i1 (Dummy :: mid) ahead k1 (n + 1)%N)) as Mhi.
      cbn [z_rest] in Mhi. split; [lia|cbn [z_mid forallb quiet]; exact Q]. }
  destruct rf.
  { (* remove first *)
    split.
    - cbn [good]. exists 1%N. split; [|reflexivity].
      unfold z_code. cbn [z_pre z_f z_mid z_rest]. apply rws_one. norm.
      apply rw1_del. apply del_ok_unprot. apply Prf. reflexivity.
    - pose proof (mu_hi (mkZ (mid ++ Dummy :: pre) i2 [] ahead k1 (n + 1)%N)) as Mhi.
      cbn [z_rest] in Mhi. split; [lia|reflexivity]. }
  (* nothing *)
  split.
  - cbn [good]. exists 0%N. split; [|cbn [z_removed]; lia].
    unfold z_code. cbn [z_pre z_f z_mid z_rest]. norm. apply rws_refl.
  - pose proof (mu_hi (mkZ (mid ++ Ins i1 :: pre) i2 [] ahead k1 n)) as Mhi.
    cbn [z_rest] in Mhi. split; [lia|reflexivity].
Qed.

(** the whole step *)
Lemma step_spec (z : zst) :
  mid_ok z ->
  good (z_code z) (z_removed z) (step z) /\
  match step z with
  | Done _ _ => True
  | Next z' => mu z' < mu z /\ mid_ok z'
  end.
Proof.
  intros Q. unfold step. destruct (step_jmp_spec z) as [GJ MJ].
  destruct (step_jmp z) as [cj nj|z1]; [split; [exact GJ|exact I]|].
  cbn [good] in GJ. destruct GJ as [mj [GJ1 GJ2]].
  assert (M1 : mu z1 <= mu z).
  { destruct MJ as [MJ|[MJ _]]; [subst z1; lia|].
    pose proof (mu_hi z1). pose proof (mu_lo z). lia. }
  assert (Q1 : mid_ok z1).
  { destruct MJ as [MJ|[_ MJ]]; [subst z1; exact Q|]. unfold mid_ok. rewrite MJ. reflexivity. }
  pose proof (step_second_spec z1 Q1) as SS.
  destruct (step_second (z_pre z1) (z_f z1) (z_mid z1) (z_rest z1) (z_k z1) (z_removed z1))
    as [cs ns|z2].
  - cbn [second_ok] in SS. destruct SS as [SS1 SS2]. subst cs ns. split; [|exact I].
    cbn [good]. exists mj. split; [exact GJ1|exact GJ2].
  - cbn [second_ok] in SS. destruct SS as [SS1 [SS2 [Q2 [[i2 [ahead SS3]] [SS4 SS5]]]]].
    assert (M2 : mu z2 <= mu z1).
    { destruct SS5 as [SS5|SS5].
      - unfold mu. rewrite SS5. lia.
      - pose proof (mu_hi z2). pose proof (mu_lo z1). lia. }
    rewrite SS3. destruct (step_pair_spec z2 i2 ahead SS3 Q2) as [GP MP]. split.
    + eapply good_trans; [exact GJ1|]. rewrite <- SS1, <- GJ2, <- SS2. exact GP.
    + destruct (step_pair z2 i2 ahead) as [cp np|z']; [exact I|]. destruct MP as [MP QP].
      split; [lia|exact QP].
Qed.

Lemma run_spec (fuel : nat) :
  forall z : zst, mu z < fuel -> mid_ok z ->
  exists (c : code) (n : N), run fuel z = Some (c, n) /\
    exists m : N, rws m (z_code z) c /\ n = (z_removed z + m)%N.
Proof.
  induction fuel as [|fuel IH]; intros z L Q; [lia|].
  cbn [run]. destruct (step_spec z Q) as [G M].
  destruct (step z) as [c n|z'].
  - exists c, n. split; [reflexivity|exact G].
  - cbn [good] in G. destruct G as [m1 [G1 G2]].
    destruct M as [M Q'].
    destruct (IH z') as [c [n [R [m2 [R1 R2]]]]]; [lia|exact Q'|].
    exists c, n. split; [exact R|]. exists (m1 + m2)%N. split; [eapply rws_trans; eassumption|lia].
Qed.

Lemma optimize_opt_spec (c : code) :
  exists (c' : code) (n : N), optimize_opt c = Some (c', n) /\ rws n c c'.
Proof.
  unfold optimize_opt. destruct (skip_to_ins [] c) as [[[pre i] r]|] eqn:S.
  - apply skip_to_ins_some in S. cbn [rev app] in S. destruct S as [S1 S2].
    set (z0 := mkZ pre i [] r (analyse_load AlStart k_init i) 0%N).
    destruct (run_spec (optimize_fuel c) z0) as [c' [n [R [m [R1 R2]]]]].
    + pose proof (mu_hi z0) as Mhi. unfold z0 in Mhi at 2. cbn [z_rest] in Mhi.
      unfold optimize_fuel. lia.
    + reflexivity.
    + exists c', n. split; [exact R|].
      unfold z0 in R1, R2. unfold z_code in R1. cbn [z_pre z_f z_mid z_rest z_removed rev app] in R1, R2.
      rewrite <- S1 in R1. apply (rws_eq m); [exact R1|lia].
  - exists c, 0%N. split; [reflexivity|apply rws_refl].
Qed.

Lemma optimize_rws (c : code) : rws (snd (optimize c)) c (fst (optimize c)).
Proof.
  unfold optimize. destruct (optimize_opt_spec c) as [c' [n [E R]]]. rewrite E. exact R.
Qed.

(** * 1: the fuel always suffices *)
Theorem optimize_total : forall c : code, optimize_opt c <> None.
Proof.
  intros c. destruct (optimize_opt_spec c) as [c' [n [E R]]]. rewrite E. discriminate.
Qed.
Print Assumptions optimize_total.

(** * Invariants of the rewriting *)

Lemma rws_invariant (P : code -> code -> Prop) :
  (forall c : code, P c c) ->
  (forall (a b c : code) (m : N), P a b -> rw1 m b c -> P a c) ->
  forall (n : N) (a b : code), rws n a b -> P a b.
Proof.
  intros Hrefl Hstep n a b H. induction H as [c|n m a b c Hab IH Hbc].
  - apply Hrefl.
  - eapply Hstep; eassumption.
Qed.

(** 2 *)
Lemma rw1_length (m : N) (a b : code) : rw1 m a b -> length b = length a.
Proof.
  intros H. destruct H as [l1 i l2 D|l1 i1 mm i2 l2 H1 H2 H3];
  repeat (rewrite app_length; cbn [length]); reflexivity.
Qed.

Theorem optimize_length : forall c : code, length (fst (optimize c)) = length c.
Proof.
  intros c. apply (rws_invariant (fun a b => length b = length a)) with (n := snd (optimize c)).
  - reflexivity.
  - intros a b d m H R. rewrite (rw1_length _ _ _ R). exact H.
  - apply optimize_rws.
Qed.
Print Assumptions optimize_length.

(** 3 *)
Definition fixR (a b : line) : Prop := is_ins a = false -> b = a.

Lemma fix_refl (c : code) : Forall2 fixR c c.
Proof. induction c as [|x c IH]; constructor; [intros _; reflexivity|exact IH]. Qed.

Lemma fix_trans (a : code) : forall b c : code, Forall2 fixR a b -> Forall2 fixR b c -> Forall2 fixR a c.
Proof.
  induction a as [|x a IH]; intros b c Hab Hbc.
  - inversion Hab; subst. inversion Hbc; subst. constructor.
  - inversion Hab as [|x' y a' b' Hxy Hab']; subst. inversion Hbc as [|y' w b'' c' Hyw Hbc']; subst.
    constructor.
    + intros Hx. pose proof (Hxy Hx) as E. subst y. apply Hyw. exact Hx.
    + eapply IH; eassumption.
Qed.

Lemma rw1_fix (m : N) (a b : code) : rw1 m a b -> Forall2 fixR a b.
Proof.
  intros H. destruct H as [l1 i l2 D|l1 i1 mm i2 l2 H1 H2 H3].
  - apply Forall2_app; [apply fix_refl|]. constructor; [intros Hx; discriminate Hx|apply fix_refl].
  - apply Forall2_app; [apply fix_refl|]. constructor; [intros Hx; discriminate Hx|].
    apply Forall2_app; [apply fix_refl|]. constructor; [intros Hx; discriminate Hx|apply fix_refl].
Qed.

Lemma fix_nth (a : code) : forall (b : code) (k : nat) (l : line),
  Forall2 fixR a b -> nth_error a k = Some l -> is_ins l = false -> nth_error b k = Some l.
Proof.
  induction a as [|x a IH]; intros b k l Hab Hn Hl.
  - destruct k; discriminate Hn.
  - inversion Hab as [|x' y a' b' Hxy Hab']; subst. destruct k as [|k]; cbn [nth_error] in *.
    + inversion Hn; subst. rewrite (Hxy Hl). reflexivity.
    + eapply IH; eassumption.
Qed.

Theorem optimize_noninstr_fixed : forall (c : code) (k : nat) (l : line),
  nth_error c k = Some l -> is_ins l = false -> nth_error (fst (optimize c)) k = Some l.
Proof.
  intros c k l Hn Hl. eapply fix_nth; [|exact Hn|exact Hl].
  apply (rws_invariant (fun a b => Forall2 fixR a b)) with (n := snd (optimize c)).
  - apply fix_refl.
  - intros a b d m H R. eapply fix_trans; [exact H|]. eapply rw1_fix. exact R.
  - apply optimize_rws.
Qed.
Print Assumptions optimize_noninstr_fixed.

(** 4 *)
Lemma rw1_subset (m : N) (a b : code) (i : instr) : rw1 m a b -> In (Ins i) b -> In (Ins i) a.
Proof.
  intros H. destruct H as [l1 j l2 D|l1 i1 mm i2 l2 H1 H2 H3]; intros Hin.
  - apply in_app_iff in Hin. apply in_app_iff. destruct Hin as [Hin|Hin]; [left; exact Hin|].
    right. cbn [In] in *. destruct Hin as [Hin|Hin]; [discriminate Hin|right; exact Hin].
  - repeat (rewrite in_app_iff in Hin; cbn [In] in Hin).
    repeat (rewrite in_app_iff; cbn [In]). tauto.
Qed.

Lemma rws_subset (n : N) (a b : code) : rws n a b -> forall i : instr, In (Ins i) b -> In (Ins i) a.
Proof.
  apply (rws_invariant (fun a b => forall i : instr, In (Ins i) b -> In (Ins i) a)).
  - intros c i H. exact H.
  - intros x y z m H R i Hin. apply H. eapply rw1_subset; eassumption.
Qed.

Theorem optimize_instrs_subset : forall (c : code) (i : instr),
  In (Ins i) (fst (optimize c)) -> In (Ins i) c.
Proof. intros c i. apply (rws_subset _ _ _ (optimize_rws c)). Qed.
Print Assumptions optimize_instrs_subset.

(** 5.  As first stated -- under [no_protected_carry_ops] alone -- the theorem is false:
    [cmp_rule] tests the protected bit of the branch only, so a protected immediate compare is
    removed together with the branch. *)

Open Scope string_scope.

Definition cx_marked_cmp : code :=
  [ Ins (mkI LDA "#1" 2 None 2 false);
    Ins (mkI CMP "#1" 2 None 2 true);
    Ins (mkI BNE ".l" 2 (Some 3%N) 2 false) ].

(** Former second counterexample (model before the repair): the LDA / SEC|CLC swap ignores the
    protected bits and the lines skipped between the two instructions could contain inline
    assembly, so a protected LDA moved across an [Inl].  Inline assembly is now a barrier. *)
Definition cx_marked_swap : code :=
  [ Ins (mkI LDA "x" 3 None 2 true);
    Inl "nop" 1;
    Ins (mkI SEC "" 2 None 1 false) ].

Eval vm_compute in (marked (fst (optimize cx_marked_cmp)), marked cx_marked_cmp).
Eval vm_compute in (marked (fst (optimize cx_marked_swap)), marked cx_marked_swap).

Lemma cx_marked_cmp_hyp : no_protected_carry_ops cx_marked_cmp.
Proof.
  intros i Hin Hf. cbn [cx_marked_cmp In] in Hin.
  destruct Hin as [E|[E|[E|[]]]]; inversion E; subst; cbn in Hf; try discriminate Hf; reflexivity.
Qed.

Lemma cx_marked_swap_hyp : no_protected_carry_ops cx_marked_swap.
Proof.
  intros i Hin Hf. cbn [cx_marked_swap In] in Hin.
  destruct Hin as [E|[E|[E|[]]]]; inversion E; subst; cbn in Hf; try discriminate Hf; reflexivity.
Qed.

Example optimize_keeps_marked_refuted_cmp :
  no_protected_carry_ops cx_marked_cmp /\
  marked (fst (optimize cx_marked_cmp)) = [] /\
  marked cx_marked_cmp = [Ins (mkI CMP "#1" 2 None 2 true)].
Proof. split; [exact cx_marked_cmp_hyp|]. split; vm_compute; reflexivity. Qed.
Print Assumptions optimize_keeps_marked_refuted_cmp.

Example optimize_marked_swap_now_ok :
  no_protected_carry_ops cx_marked_swap /\
  fst (optimize cx_marked_swap) = cx_marked_swap /\
  marked (fst (optimize cx_marked_swap)) = marked cx_marked_swap.
Proof. split; [exact cx_marked_swap_hyp|]. split; vm_compute; reflexivity. Qed.
Print Assumptions optimize_marked_swap_now_ok.

(** hence the statement with [no_protected_carry_ops] as only hypothesis is refuted (by the
    compare rule) *)
Theorem optimize_keeps_marked_as_given_is_false_cmp :
  ~ (forall c : code, no_protected_carry_ops c -> marked (fst (optimize c)) = marked c).
Proof.
  intros H. specialize (H cx_marked_cmp cx_marked_cmp_hyp). vm_compute in H. discriminate H.
Qed.
Print Assumptions optimize_keeps_marked_as_given_is_false_cmp.

Close Scope string_scope.

(** The extra hypothesis: the optimiser does not honour the protected bit of an immediate
    CMP/CPX/CPY, removed with its branch by [cmp_rule].  (True of everything the generator emits:
    [sasm_protected] is only used for NOP, PHA, PLA.)  The swap does not honour the protected bit
    of the LDA either, but it only crosses comments and Dummies, and the SEC/CLC is unprotected
    by [no_protected_carry_ops]: the marked lines keep their order. *)
Definition no_protected_imm_compare (c : code) : Prop :=
  forall i : instr, In (Ins i) c -> is_compare (i_mn i) && is_imm (i_op i) = true -> i_prot i = false.

Lemma quiet_not_marked (m : list line) : forallb quiet m = true -> filter is_marked m = [].
Proof.
  induction m as [|x m IH]; intros H; [reflexivity|].
  cbn [forallb] in H. apply andb_true_iff in H. destruct H as [Hx Hm].
  destruct x as [l|j|t sz|s|]; cbn [quiet] in Hx; try discriminate Hx;
  cbn [filter is_marked]; apply IH; exact Hm.
Qed.

Lemma rw1_marked (m : N) (a b : code) :
  rw1 m a b -> no_protected_carry_ops a -> no_protected_imm_compare a -> marked b = marked a.
Proof.
  intros H HC HI. destruct H as [l1 i l2 D|l1 i1 mm i2 l2 H1 H2 H3].
  - assert (P : i_prot i = false).
    { unfold del_ok in D. apply orb_true_iff in D. destruct D as [D|D].
      - apply negb_true_iff in D. exact D.
      - apply HI; [apply in_app_iff; right; left; reflexivity|exact D]. }
    unfold marked. rewrite !filter_app. cbn [filter is_marked]. rewrite P. reflexivity.
  - assert (In2 : In (Ins i2) (l1 ++ Ins i1 :: mm ++ Ins i2 :: l2)).
    { apply in_app_iff. right. right. apply in_app_iff. right. left. reflexivity. }
    assert (P2 : i_prot i2 = false) by (apply HC; [exact In2|exact H2]).
    unfold marked. rewrite !filter_app. cbn [filter is_marked]. rewrite !filter_app.
    cbn [filter is_marked]. rewrite P2, (quiet_not_marked mm H3). reflexivity.
Qed.

Lemma rws_marked (n : N) (a b : code) :
  rws n a b -> no_protected_carry_ops a -> no_protected_imm_compare a -> marked b = marked a.
Proof.
  intros H HC HI. induction H as [c|n m a b c Hab IH Hbc]; [reflexivity|].
  rewrite <- (IH HC HI). eapply rw1_marked; [exact Hbc| |].
  - intros i Hin. apply HC. eapply rws_subset; eassumption.
  - intros i Hin. apply HI. eapply rws_subset; eassumption.
Qed.

(** the amended statement: one more hypothesis *)
Theorem optimize_keeps_marked : forall c : code,
  no_protected_carry_ops c -> no_protected_imm_compare c -> marked (fst (optimize c)) = marked c.
Proof. intros c HC HI. exact (rws_marked _ _ _ (optimize_rws c) HC HI). Qed.
Print Assumptions optimize_keeps_marked.

(** 6 *)
Lemma rw1_labels (m : N) (a b : code) : rw1 m a b -> labels_of b = labels_of a.
Proof.
  intros H. destruct H as [l1 i l2 D|l1 i1 mm i2 l2 H1 H2 H3]; unfold labels_of;
  rewrite !filter_app; cbn [filter is_label]; rewrite ?filter_app; cbn [filter is_label]; reflexivity.
Qed.

Theorem optimize_keeps_labels : forall c : code, labels_of (fst (optimize c)) = labels_of c.
Proof.
  intros c. apply (rws_invariant (fun a b => labels_of b = labels_of a)) with (n := snd (optimize c)).
  - reflexivity.
  - intros a b d m H R. rewrite (rw1_labels _ _ _ R). exact H.
  - apply optimize_rws.
Qed.
Print Assumptions optimize_keeps_labels.

(** 7 *)
Lemma size_acc (c : code) : forall a : N,
  fold_left (fun acc l => (acc + line_bytes l)%N) c a = (a + size_bytes c)%N.
Proof.
  unfold size_bytes. induction c as [|x c IH]; intros a; cbn [fold_left]; [lia|].
  rewrite (IH (a + line_bytes x)%N), (IH (0 + line_bytes x)%N). lia.
Qed.

Lemma size_cons (x : line) (c : code) : size_bytes (x :: c) = (line_bytes x + size_bytes c)%N.
Proof. unfold size_bytes at 1. cbn [fold_left]. rewrite size_acc. lia. Qed.

Lemma size_app (a b : code) : size_bytes (a ++ b) = (size_bytes a + size_bytes b)%N.
Proof.
  induction a as [|x a IH]; cbn [app].
  - unfold size_bytes at 2. cbn [fold_left]. lia.
  - rewrite !size_cons, IH. lia.
Qed.

Lemma rw1_size (m : N) (a b : code) : rw1 m a b -> (size_bytes b <= size_bytes a)%N.
Proof.
  intros H. destruct H as [l1 i l2 D|l1 i1 mm i2 l2 H1 H2 H3];
  repeat (rewrite size_app || rewrite size_cons); cbn [line_bytes]; lia.
Qed.

Theorem optimize_size_le : forall c : code, (size_bytes (fst (optimize c)) <= size_bytes c)%N.
Proof.
  intros c. apply (rws_invariant (fun a b => (size_bytes b <= size_bytes a)%N)) with (n := snd (optimize c)).
  - intros a. lia.
  - intros a b d m H R. pose proof (rw1_size _ _ _ R). lia.
  - apply optimize_rws.
Qed.
Print Assumptions optimize_size_le.

(** 8 *)
Lemma rw1_count (m : N) (a b : code) :
  rw1 m a b -> (N.of_nat (count_occ_ins b) + m = N.of_nat (count_occ_ins a))%N.
Proof.
  intros H. destruct H as [l1 i l2 D|l1 i1 mm i2 l2 H1 H2 H3]; unfold count_occ_ins;
  repeat (rewrite filter_app; cbn [filter is_ins]); repeat (rewrite app_length; cbn [length]); lia.
Qed.

Lemma rws_count (n : N) (a b : code) :
  rws n a b -> (N.of_nat (count_occ_ins b) + n = N.of_nat (count_occ_ins a))%N.
Proof.
  intros H. induction H as [c|n m a b c Hab IH Hbc]; [lia|].
  pose proof (rw1_count _ _ _ Hbc). lia.
Qed.

Theorem optimize_count : forall c : code,
  (N.of_nat (count_occ_ins (fst (optimize c))) + snd (optimize c) = N.of_nat (count_occ_ins c))%N.
Proof. intros c. exact (rws_count _ _ _ (optimize_rws c)). Qed.
Print Assumptions optimize_count.

(** 9: an inline-assembly line stays where it is *)
Theorem optimize_inline_barrier : forall (c : code) (k : nat) (t : string) (s : N),
  nth_error c k = Some (Inl t s) ->
  exists c1 c2 r1 r2 : code,
    c = c1 ++ Inl t s :: c2 /\ length c1 = k /\
    fst (optimize c) = r1 ++ Inl t s :: r2 /\ length r1 = k.
Proof.
  intros c k t s Hn.
  pose proof (optimize_noninstr_fixed c k (Inl t s) Hn eq_refl) as Ho.
  apply nth_error_split in Hn. destruct Hn as [c1 [c2 [E1 L1]]].
  apply nth_error_split in Ho. destruct Ho as [r1 [r2 [E2 L2]]].
  exists c1, c2, r1, r2. repeat split; assumption.
Qed.
Print Assumptions optimize_inline_barrier.
