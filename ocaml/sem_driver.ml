(* Driver of the extracted 6502 semantics: co-execution of compiled functions.

   input (file), records:
     @prog <id>
     sym <hexname> <addr>
     port <wbase> <rbase> <size>
     mem <addr> <val>                 base memory (ROM tables ...)
     func <hexname>
       I/L/N/C/D lines (tools/lib/common.py: enc_lines)
     endfunc
     watch <addr> ...                 cells whose final value is printed
     fuel <n>
     entry <hexname>
     state <A> <X> <Y> <S> <nvzc> <addr>=<val> ...    one execution per state line
     @end
   output: one line per state
     @run <id> <k> <halt|fuel|fault:hexmsg:hexfn:pc|badprog> A X Y S nvzc cycles | v1 v2 ... | ev ev ...
*)
open Sem_model

let rec pos_of_int i =
  if i = 1 then XH else if i land 1 = 0 then XO (pos_of_int (i lsr 1)) else XI (pos_of_int (i lsr 1))
let n_of_int i = if i <= 0 then N0 else Npos (pos_of_int i)
let z_of_int i = if i = 0 then Z0 else if i > 0 then Zpos (pos_of_int i) else Zneg (pos_of_int (-i))
let rec int_of_pos = function XH -> 1 | XO p -> 2 * int_of_pos p | XI p -> 2 * int_of_pos p + 1
let int_of_n = function N0 -> 0 | Npos p -> int_of_pos p
let int_of_z = function Z0 -> 0 | Zpos p -> int_of_pos p | Zneg p -> - (int_of_pos p)
let rec nat_of_int i acc = if i <= 0 then acc else nat_of_int (i - 1) (S acc)
let rec int_of_nat = function O -> 0 | S n -> 1 + int_of_nat n

let explode (s : string) : char list = List.init (String.length s) (String.get s)
let implode l = let b = Buffer.create 16 in List.iter (Buffer.add_char b) l; Buffer.contents b
let unhex s =
  if s = "-" then "" else
  String.init (String.length s / 2) (fun i -> Char.chr (int_of_string ("0x" ^ String.sub s (2 * i) 2)))
let hex s =
  if s = "" then "-" else begin
    let b = Buffer.create (2 * String.length s) in
    String.iter (fun c -> Buffer.add_string b (Printf.sprintf "%02x" (Char.code c))) s;
    Buffer.contents b end

let parse_line (l : string) : line option =
  match String.split_on_char ' ' l with
  | "I" :: m :: p :: nb :: cy :: alt :: op :: _ ->
      (match mnem_of_name (explode m) with
       | None -> None
       | Some mn ->
           Some (Ins { i_mn = mn; i_op = explode (unhex op);
                       i_cycles = n_of_int (int_of_string cy);
                       i_alt = (if alt = "-" then None else Some (n_of_int (int_of_string alt)));
                       i_bytes = n_of_int (int_of_string nb);
                       i_prot = (p = "1") }))
  | "L" :: s :: _ -> Some (Lbl (explode (unhex s)))
  | "N" :: sz :: s :: _ -> Some (Inl (explode (unhex s), n_of_int (int_of_string sz)))
  | "C" :: s :: _ -> Some (Cmt (explode (unhex s)))
  | "D" :: _ -> Some Dummy
  | _ -> None

(* inline assembly vocabulary with a known meaning (everything else faults) *)
let inl_sem (t : char list) (s : mstate) : mstate option =
  (* the text up to a ';' comment *)
  let whole = implode t in
  let code = match String.index_opt whole ';' with Some i -> String.sub whole 0 i | None -> whole in
  match String.lowercase_ascii (String.trim code) with
  | "nop" | "" -> Some s
  | _ -> None

let ext_call (_ : char list) (_ : mstate) : mstate option = None

type prog = {
  mutable id : string;
  mutable syms : (string * int) list;
  mutable ports : (int * int * int) list;
  mutable base : (int * int) list;
  mutable funcs : (string * line list) list;
  mutable watch : int list;
  mutable fuel : int;
  mutable entry : string;
  mutable states : string list list;
  mutable wf : bool;
}

let fresh () = { id = ""; syms = []; ports = []; base = []; funcs = []; watch = []; fuel = 100000;
                 entry = "main"; states = []; wf = false }

let run_wf (p : prog) =
  let tbl = Hashtbl.create 64 in
  List.iter (fun (n, a) -> Hashtbl.replace tbl n a) p.syms;
  let layout (s : char list) = match Hashtbl.find_opt tbl (implode s) with Some a -> Some (z_of_int a) | None -> None in
  List.iter (fun (n, ls) ->
      let r = wf_check layout ls in
      let ints l = String.concat "," (List.map (fun k -> string_of_int (int_of_nat k)) l) in
      let strs l = String.concat "," (List.map (fun x -> hex (implode x)) l) in
      Printf.printf "@wf %s %s %d bad=%s illegal=%s unknown=%s dup=%s undef=%s\n" p.id (hex n) (int_of_n r.wf_size)
        (String.concat "," (List.map (fun ((k, a), b) -> Printf.sprintf "%d:%d:%d" (int_of_nat k) (int_of_n a) (int_of_n b)) r.wf_bad_size))
        (ints r.wf_illegal) (ints r.wf_unknown) (strs r.wf_dup_labels) (strs r.wf_undefined))
    (List.rev p.funcs)

(* @asmsel lines:  probe <id> <MN> <kind> <name-hex> <vtype> <const> <signed> <vmem> <size> <addr|-> <eight> <int> <high> <scheme> <prot>
   (<addr>: the known address of a constant-address object as a decimal integer, - for none) *)
let run_asmsel_line (f : string list) =
  match f with
  | id :: mn :: kind :: name :: vt :: c :: sg :: vm :: sz :: ad :: eb :: n :: hi :: sch :: prot :: _ ->
      (match mnem_of_name (explode mn) with
       | None -> Printf.printf "@sel %s bad\n" id
       | Some m ->
           let v = { v_name = explode (unhex name);
                     v_type = (match vt with "Char" -> VChar | "Short" -> VShort | "CharPtr" -> VCharPtr
                                            | "CharPtrPtr" -> VCharPtrPtr | _ -> VShortPtr);
                     v_const = (c = "1"); v_signed = (sg = "1");
                     v_mem = (match vm with "Zeropage" -> MZeropage | "Superchip" -> MSuperchip
                                           | "MemoryOnChip" -> MOnChip | _ -> MOther);
                     v_size = z_of_int (int_of_string sz);
                     v_addr = (if ad = "-" then None else Some (z_of_int (int_of_string ad))) } in
           let b x = (x = "1") in
           let z = z_of_int (int_of_string n) in
           let e = match kind with
             | "nothing" -> ENothing | "imm" -> EImmediate z | "tmp" -> ETmp (b eb)
             | "abs" -> EAbsolute (v, b eb, z) | "absx" -> EAbsoluteX v | "absy" -> EAbsoluteY v
             | "a" -> EA (b eb) | _ -> ELabel (explode (unhex name)) in
           let s = match sch with "3E" -> S3E | "3EP" -> S3EP | _ -> SOther in
           (match asm_sel s m e (b hi) with
            | AEmit (m', sgn, em) ->
                let i = instr_of (b prot) m' em in
                Printf.printf "@sel %s ok %d %s %d %d %d %s %s\n" id (if sgn then 1 else 0)
                  (implode (mnem_name i.i_mn)) (if i.i_prot then 1 else 0) (int_of_n i.i_bytes) (int_of_n i.i_cycles)
                  (match i.i_alt with None -> "-" | Some a -> string_of_int (int_of_n a)) (hex (implode i.i_op))
            | ANoEmit sgn -> Printf.printf "@sel %s noemit %d\n" id (if sgn then 1 else 0)
            | AErr msg -> Printf.printf "@sel %s err %s\n" id (hex (implode msg))))
  | _ -> ()

let run_prog (p : prog) =
  let tbl = Hashtbl.create 64 in
  List.iter (fun (n, a) -> Hashtbl.replace tbl n a) p.syms;
  let layout (s : char list) = match Hashtbl.find_opt tbl (implode s) with Some a -> Some (z_of_int a) | None -> None in
  let cfg = { layout = layout;
              ports = List.map (fun (w, r, s) -> ((z_of_int w, z_of_int r), z_of_int s)) (List.rev p.ports) } in
  let bad = ref None in
  let sprog = List.filter_map (fun (n, ls) ->
      match slines_of ls with
      | Some sl -> Some (explode n, sl)
      | None -> bad := Some n; None) (List.rev p.funcs) in
  let base_mem = List.fold_left (fun m (a, v) -> mset m (z_of_int a) (z_of_int v)) mem_empty (List.rev p.base) in
  let fuel = nat_of_int p.fuel O in
  List.iteri (fun k st ->
      match !bad, st with
      | Some fn, _ -> Printf.printf "@run %s %d badprog:%s\n" p.id k (hex fn)
      | None, a :: x :: y :: sp :: fl :: cells ->
          let m = List.fold_left (fun m c ->
              match String.split_on_char '=' c with
              | [ad; v] -> mset m (z_of_int (int_of_string ad)) (z_of_int (int_of_string v))
              | _ -> m) base_mem cells in
          let b i = fl.[i] = '1' in
          let s0 = { rA = z_of_int (int_of_string a); rX = z_of_int (int_of_string x);
                     rY = z_of_int (int_of_string y); rS = z_of_int (int_of_string sp);
                     fN = b 0; fV = b 1; fZ = b 2; fC = b 3; mem = m } in
          let out = run_function cfg sprog inl_sem ext_call fuel (explode p.entry) s0 in
          let show tag (s : mstate) tr cy =
            let bs v = if v then '1' else '0' in
            let evs = List.map (function
                | EvI (m, raw) -> "I" ^ implode (mnem_name m) ^ ":" ^ hex (implode raw)
                | EvN t -> "N" ^ hex (implode t)) tr in
            let evs = if List.length evs > 4000 then List.filteri (fun i _ -> i < 4000) evs @ ["..."] else evs in
            Printf.printf "@run %s %d %s %d %d %d %d %c%c%c%c %d | %s | %s\n" p.id k tag
              (int_of_z s.rA) (int_of_z s.rX) (int_of_z s.rY) (int_of_z s.rS)
              (bs s.fN) (bs s.fV) (bs s.fZ) (bs s.fC) cy
              (String.concat " " (List.map (fun a -> string_of_int (int_of_z (mget s.mem (z_of_int a)))) p.watch))
              (String.concat " " evs) in
          (match out with
           | Halt (s, tr, cy) -> show "halt" s tr (int_of_n cy)
           | OutOfFuel (s, tr, cy) -> show "fuel" s tr (int_of_n cy)
           | Faulted (why, fn, pc, s) ->
               show (Printf.sprintf "fault:%s:%s:%d" (hex (implode why)) (hex (implode fn)) (int_of_nat pc)) s [] 0)
      | None, _ -> Printf.printf "@run %s %d badstate\n" p.id k)
    (List.rev p.states)

let () =
  let ic = open_in Sys.argv.(1) in
  let cur = ref (fresh ()) in
  let infunc = ref None in
  let acc = ref [] in
  (try
     while true do
       let l = input_line ic in
       match !infunc with
       | Some name when l <> "endfunc" ->
           (match parse_line l with Some x -> acc := x :: !acc | None -> ())
       | Some name ->
           (!cur).funcs <- (name, List.rev !acc) :: (!cur).funcs; infunc := None; acc := []
       | None ->
           (match String.split_on_char ' ' l with
            | "@prog" :: id :: _ -> cur := fresh (); (!cur).id <- id
            | "@wf" :: id :: _ -> cur := fresh (); (!cur).id <- id; (!cur).wf <- true
            | "probe" :: r -> run_asmsel_line r
            | "cg" :: id :: rest ->
                (* cg <id> <root,root,..> <f:g,g,..> ... (all names hex) *)
                (match rest with
                 | roots :: edges ->
                     let names s = List.filter_map (fun x -> if x = "" then None else Some (explode (unhex x))) (String.split_on_char ',' s) in
                     let t = List.map (fun e -> match String.split_on_char ':' e with
                         | [f; gs] -> (explode (unhex f), names gs)
                         | [f] -> (explode (unhex f), [])
                         | _ -> ([], [])) edges in
                     let r = in_use t (names roots) in
                     Printf.printf "@cgr %s %s\n" id (String.concat "," (List.map (fun x -> hex (implode x)) r))
                 | [] -> ())
            | "@end" :: _ -> (if (!cur).wf then run_wf !cur else run_prog !cur); cur := fresh ()
            | "sym" :: n :: a :: _ -> (!cur).syms <- (unhex n, int_of_string a) :: (!cur).syms
            | "port" :: w :: r :: s :: _ -> (!cur).ports <- (int_of_string w, int_of_string r, int_of_string s) :: (!cur).ports
            | "mem" :: a :: v :: _ -> (!cur).base <- (int_of_string a, int_of_string v) :: (!cur).base
            | "func" :: n :: _ -> infunc := Some (unhex n); acc := []
            | "watch" :: r -> (!cur).watch <- List.map int_of_string (List.filter (fun x -> x <> "") r)
            | "fuel" :: n :: _ -> (!cur).fuel <- int_of_string n
            | "entry" :: n :: _ -> (!cur).entry <- unhex n
            | "state" :: r -> (!cur).states <- r :: (!cur).states
            | _ -> ())
     done
   with End_of_file -> ());
  close_in ic
