(** Structured view of [dasm_operand] strings: what the generator prints
    ([asm()] in src/generate/generate_asm.rs) and the parser used by the semantics. *)
From Coq Require Import String Ascii List Bool NArith ZArith.
From CC Require Import Base.Str Asm.Lines M6502.Isa.
Import ListNotations.
Open Scope string_scope.

Inductive index := IxNone | IxX | IxY.

Inductive immv :=
| INum (n : Z)                       (* #n *)
| ILo (sym : string) (off : Z)       (* #<sym  /  #<(sym+off) *)
| IHi (sym : string) (off : Z).      (* #>sym  /  #>(sym+off) *)

Inductive operand :=
| ONone
| OImm (v : immv)
| OMem (sym : string) (off : Z) (ix : index)     (* sym+off[,X|,Y] *)
| OInd (sym : string) (off : Z)                  (* (sym+off),Y *)
| OLbl (l : string).

Definition takes_label (m : mnem) : bool :=
  match m with BCC | BCS | BEQ | BMI | BNE | BPL | JMP | JSR => true | _ => false end.

(** "sym" or "sym+k" or "sym+-k" *)
Definition parse_sym_off (s : string) : option (string * Z) :=
  match split_at_char "+"%char s with
  | None => if String.eqb s "" then None else Some (s, 0%Z)
  | Some (sym, k) =>
      if String.eqb sym "" then None else
      match k with
      | String "-"%char k' =>
          match parse_dec k' with Some n => Some (sym, (- Z.of_N n)%Z) | None => None end
      | _ => match parse_dec k with Some n => Some (sym, Z.of_N n) | None => None end
      end
  end.

(** "(sym+k)" or "sym" after a #< or #> *)
Definition parse_paren_sym_off (s : string) : option (string * Z) :=
  match s with
  | String "("%char r =>
      match strip_suffix ")" r with
      | Some inner => parse_sym_off inner
      | None => None
      end
  | _ => parse_sym_off s
  end.

Definition parse_operand (m : mnem) (s : string) : option operand :=
  if String.eqb s "" then Some ONone
  else if takes_label m then Some (OLbl s)
  else match s with
       | String "#"%char r =>
           match r with
           | String "<"%char r' =>
               match parse_paren_sym_off r' with Some (y, k) => Some (OImm (ILo y k)) | None => None end
           | String ">"%char r' =>
               match parse_paren_sym_off r' with Some (y, k) => Some (OImm (IHi y k)) | None => None end
           | _ => match parse_dec r with Some n => Some (OImm (INum (Z.of_N n))) | None => None end
           end
       | String "("%char r =>
           match strip_suffix "),Y" r with
           | Some inner =>
               match parse_sym_off inner with Some (y, k) => Some (OInd y k) | None => None end
           | None => None
           end
       | _ =>
           match strip_suffix ",X" s with
           | Some b => match parse_sym_off b with Some (y, k) => Some (OMem y k IxX) | None => None end
           | None =>
               match strip_suffix ",Y" s with
               | Some b => match parse_sym_off b with Some (y, k) => Some (OMem y k IxY) | None => None end
               | None => match parse_sym_off s with Some (y, k) => Some (OMem y k IxNone) | None => None end
               end
           end
       end.

Definition shape_of (o : operand) : shape :=
  match o with
  | ONone => ShNone
  | OImm _ => ShImm
  | OMem _ _ IxNone => ShMem
  | OMem _ _ IxX => ShMemX
  | OMem _ _ IxY => ShMemY
  | OInd _ _ => ShIndY
  | OLbl _ => ShLabel
  end.
