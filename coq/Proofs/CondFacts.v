(** C07: the conditional machine of the preprocessor model ([Model/Cpp.v]) against the
    specification [Model/CondSpec.v]. *)
From Coq Require Import String Ascii List Bool Arith NArith Lia.
From CC Require Import Base.Str Model.Cpp Model.CondSpec.
Import ListNotations.
Open Scope list_scope.
Open Scope string_scope.

(** * Strings *)

Lemma app_empty_r : forall s : string, s ++ "" = s.
Proof. induction s as [|a s IHs]; simpl; [reflexivity | rewrite IHs; reflexivity]. Qed.

Lemma app_assoc_s : forall a b c : string, (a ++ b) ++ c = a ++ (b ++ c).
Proof. induction a as [|x a IHa]; intros b c; simpl; [reflexivity | rewrite IHa; reflexivity]. Qed.

Lemma length_app_s : forall a b : string, String.length (a ++ b) = String.length a + String.length b.
Proof. induction a as [|x a IHa]; intros b; simpl; [reflexivity | rewrite IHa; reflexivity]. Qed.

Lemma rev_aux_app : forall s acc, rev_string_aux s acc = rev_string_aux s "" ++ acc.
Proof.
  induction s as [|a s IHs]; intros acc; simpl; [reflexivity|].
  rewrite (IHs (String a acc)), (IHs (String a "")), app_assoc_s. reflexivity.
Qed.

Lemma rev_string_cons : forall a s, rev_string (String a s) = rev_string s ++ String a "".
Proof. intros a s. unfold rev_string. simpl. apply rev_aux_app. Qed.

Lemma rev_string_app : forall a b, rev_string (a ++ b) = rev_string b ++ rev_string a.
Proof.
  induction a as [|x a IHa]; intros b; simpl.
  - rewrite app_empty_r. reflexivity.
  - rewrite !rev_string_cons, IHa, app_assoc_s. reflexivity.
Qed.

Lemma rev_string_invol : forall s, rev_string (rev_string s) = s.
Proof.
  induction s as [|a s IHs]; [reflexivity|].
  rewrite rev_string_cons, rev_string_app, IHs. reflexivity.
Qed.

Lemma rev_string_length : forall s, String.length (rev_string s) = String.length s.
Proof.
  induction s as [|a s IHs]; [reflexivity|].
  rewrite rev_string_cons, length_app_s, IHs. simpl. lia.
Qed.

(** ** [starts_with], [ends_with] *)

Lemma starts_with_app : forall p x, starts_with p (p ++ x) = true.
Proof.
  induction p as [|a p IHp]; intros x; simpl; [reflexivity|].
  rewrite Ascii.eqb_refl, IHp. reflexivity.
Qed.

Lemma starts_with_inv : forall p s, starts_with p s = true -> exists x, s = p ++ x.
Proof.
  induction p as [|a p IHp]; intros s Hs; simpl in *.
  - exists s. reflexivity.
  - destruct s as [|b s]; [discriminate|].
    apply andb_true_iff in Hs. destruct Hs as [Hab Hps].
    apply Ascii.eqb_eq in Hab. subst b.
    destruct (IHp s Hps) as [x Hx]. exists x. rewrite Hx. reflexivity.
Qed.

Lemma starts_with_prefix_false : forall p q s,
    starts_with p s = false -> starts_with (p ++ q) s = false.
Proof.
  induction p as [|a p IHp]; intros q s Hs; simpl in *; [discriminate|].
  destruct s as [|b s]; [reflexivity|].
  apply andb_false_iff in Hs. destruct Hs as [Hab|Hps].
  - rewrite Hab. reflexivity.
  - rewrite (IHp q s Hps). apply andb_false_r.
Qed.

Lemma starts_with_app_l : forall p s x, starts_with p s = true -> starts_with p (s ++ x) = true.
Proof.
  intros p s x Hs. destruct (starts_with_inv p s Hs) as [y Hy]. subst s.
  rewrite app_assoc_s. apply starts_with_app.
Qed.

Lemma ends_with_app : forall suf pre, ends_with suf (pre ++ suf) = true.
Proof. intros suf pre. unfold ends_with. rewrite rev_string_app. apply starts_with_app. Qed.

Lemma ends_with_inv : forall suf s, ends_with suf s = true -> exists pre, s = pre ++ suf.
Proof.
  intros suf s Hs. unfold ends_with in Hs.
  destruct (starts_with_inv _ _ Hs) as [x Hx].
  exists (rev_string x).
  rewrite <- (rev_string_invol s), Hx, rev_string_app, rev_string_invol. reflexivity.
Qed.

(** ** [split_once], [contains], [before] *)

Lemma split_once_eq : forall pat s,
    split_once pat s =
    if starts_with pat s then Some (EmptyString, string_drop (String.length pat) s)
    else match s with
         | EmptyString => None
         | String a r => match split_once pat r with
                         | Some (b, t) => Some (String a b, t)
                         | None => None
                         end
         end.
Proof. intros pat s. destruct s; reflexivity. Qed.

Lemma split_once_none_app_l : forall pat a b,
    split_once pat (a ++ b) = None -> split_once pat b = None.
Proof.
  intros pat. induction a as [|x a IHa]; intros b Hab; [exact Hab|].
  simpl append in Hab. rewrite split_once_eq in Hab.
  destruct (starts_with pat (String x (a ++ b))); [discriminate|].
  destruct (split_once pat (a ++ b)) as [[u v]|] eqn:Hs; [discriminate|].
  apply IHa. exact Hs.
Qed.

Lemma split_once_none_app_r : forall pat a b,
    split_once pat (a ++ b) = None -> split_once pat a = None.
Proof.
  intros pat. induction a as [|x a IHa]; intros b Hab.
  - rewrite split_once_eq. destruct (starts_with pat "") eqn:Hp; [|reflexivity].
    exfalso. rewrite split_once_eq in Hab.
    rewrite (starts_with_app_l pat "" b Hp) in Hab. discriminate.
  - simpl append in Hab. rewrite split_once_eq in Hab. rewrite split_once_eq.
    destruct (starts_with pat (String x a)) eqn:Hp.
    + exfalso. change (String x (a ++ b)) with (String x a ++ b) in Hab.
      rewrite (starts_with_app_l pat _ b Hp) in Hab. discriminate.
    + destruct (starts_with pat (String x (a ++ b))); [discriminate|].
      destruct (split_once pat (a ++ b)) as [[u v]|] eqn:Hs; [discriminate|].
      rewrite (IHa b Hs). reflexivity.
Qed.

Lemma contains_false_split : forall pat s, contains pat s = false -> split_once pat s = None.
Proof.
  intros pat s Hc. unfold contains in Hc.
  destruct (split_once pat s); [discriminate | reflexivity].
Qed.

Lemma split_none_contains : forall pat s, split_once pat s = None -> contains pat s = false.
Proof. intros pat s Hs. unfold contains. rewrite Hs. reflexivity. Qed.

Lemma contains_false_mid : forall pat a b c,
    contains pat (a ++ b ++ c) = false -> contains pat b = false.
Proof.
  intros pat a b c Hc. apply split_none_contains.
  apply contains_false_split in Hc.
  apply split_once_none_app_l in Hc. apply split_once_none_app_r in Hc. exact Hc.
Qed.

Lemma before_none : forall pat s, contains pat s = false -> before pat s = s.
Proof. intros pat s Hc. unfold before. rewrite (contains_false_split _ _ Hc). reflexivity. Qed.

(** a pattern whose first character does not occur *)
Lemma split_once_no_char : forall x p s,
    all_chars (fun a => negb (Ascii.eqb a x)) s = true -> split_once (String x p) s = None.
Proof.
  intros x p. induction s as [|a s IHs]; intros Hs; [reflexivity|].
  simpl in Hs. apply andb_true_iff in Hs. destruct Hs as [Hax Hs].
  rewrite split_once_eq.
  assert (Hsw : starts_with (String x p) (String a s) = false).
  { simpl. rewrite Ascii.eqb_sym. apply negb_true_iff in Hax. rewrite Hax. reflexivity. }
  rewrite Hsw, (IHs Hs). reflexivity.
Qed.

Lemma all_chars_app : forall f a b, all_chars f (a ++ b) = all_chars f a && all_chars f b.
Proof.
  intros f. induction a as [|x a IHa]; intros b; simpl; [reflexivity|].
  rewrite IHa, andb_assoc. reflexivity.
Qed.

Lemma all_chars_weaken : forall (f g : ascii -> bool) s,
    (forall a, f a = true -> g a = true) -> all_chars f s = true -> all_chars g s = true.
Proof.
  intros f g s Hfg. induction s as [|a s IHs]; intros Hs; [reflexivity|].
  simpl in *. apply andb_true_iff in Hs. destruct Hs as [Ha Hs].
  rewrite (Hfg a Ha), (IHs Hs). reflexivity.
Qed.

(** ** [trim] *)

Lemma trim_start_edge : forall s, edge_ok s = true -> trim_start s = s.
Proof.
  intros s Hs. destruct s as [|a s]; [discriminate|].
  simpl in *. apply negb_true_iff in Hs. rewrite Hs. reflexivity.
Qed.

Lemma trim_start_decomp : forall s, exists w, s = w ++ trim_start s.
Proof.
  induction s as [|a s [w Hw]].
  - exists "". reflexivity.
  - simpl. destruct (is_ws a).
    + exists (String a w). simpl. rewrite <- Hw. reflexivity.
    + exists "". reflexivity.
Qed.

Lemma trim_decomp : forall s, exists w1 w2, s = w1 ++ trim s ++ w2.
Proof.
  intros s. destruct (trim_start_decomp s) as [w1 H1].
  destruct (trim_start_decomp (rev_string (trim_start s))) as [w2 H2].
  exists w1, (rev_string w2). unfold trim, trim_end.
  rewrite <- rev_string_app, <- H2, rev_string_invol. exact H1.
Qed.

Lemma contains_false_trim : forall pat s, contains pat s = false -> contains pat (trim s) = false.
Proof.
  intros pat s Hc. destruct (trim_decomp s) as [w1 [w2 Hs]].
  rewrite Hs in Hc. exact (contains_false_mid _ _ _ _ Hc).
Qed.

Lemma edge_ok_app : forall s x, edge_ok s = true -> edge_ok (s ++ x) = true.
Proof. intros s x Hs. destruct s; [discriminate | exact Hs]. Qed.

(** [pre ++ s] followed by a newline, with [pre] and [s] tight on the outside *)
Lemma trim_line : forall pre s,
    edge_ok pre = true -> edge_ok (rev_string s) = true -> trim (pre ++ s ++ nl) = pre ++ s.
Proof.
  intros pre s Hpre Hs. unfold trim.
  rewrite (trim_start_edge (pre ++ s ++ nl) (edge_ok_app _ _ Hpre)).
  unfold trim_end.
  rewrite <- app_assoc_s, rev_string_app.
  change (rev_string nl) with nl.
  change (trim_start (nl ++ rev_string (pre ++ s))) with (trim_start (rev_string (pre ++ s))).
  rewrite trim_start_edge; [apply rev_string_invol|].
  rewrite rev_string_app. apply edge_ok_app. exact Hs.
Qed.

Lemma tight_trim : forall s, tight s = true -> trim s = s.
Proof.
  intros s Hs. unfold tight in Hs. apply andb_true_iff in Hs. destruct Hs as [H1 H2].
  unfold trim, trim_end. rewrite (trim_start_edge s H1), (trim_start_edge _ H2).
  apply rev_string_invol.
Qed.

Lemma tight_nonempty : forall s, tight s = true -> String.eqb s "" = false.
Proof. intros s Hs. destruct s; [discriminate | reflexivity]. Qed.

(** * No macros: substitution is the identity *)
Lemma replace_all_nil : forall s, replace_all [] s = s.
Proof. intros s. reflexivity. Qed.
Print Assumptions replace_all_nil.

(** the same for the capped driver the line processor calls *)
Lemma replace_all_c_nil : forall s, replace_all_c [] s = s.
Proof. intros s. reflexivity. Qed.
Print Assumptions replace_all_c_nil.

(** * The scanner on a line without quote or comment opener *)
Lemma scan_line_plain : forall asm l st,
    sc_in_comment st = false ->
    String.eqb l "" = false ->
    contains """" l = false -> contains "//" l = false -> contains "/*" l = false ->
    scan_line asm l st = ScanOk l true st.
Proof.
  intros asm l st Hc Hne Hq Hsl Hop. unfold scan_line. rewrite Hc.
  generalize (S (String.length l)). intros f.
  cbn [scan_loop negb]. rewrite Hne, Hc.
  rewrite (before_none _ _ Hsl), (contains_false_split _ _ Hop), (contains_false_split _ _ Hq).
  change ("" ++ l) with l. rewrite Hne.
  destruct (negb (is_include_line l) && negb asm); reflexivity.
Qed.

(** * Splicing: a line without backslash is a logical line on its own *)
Lemma ends_with_bs_contains : forall x buf,
    contains "\" buf = false -> ends_with ("\" ++ x) buf = false.
Proof.
  intros x buf Hc. destruct (ends_with ("\" ++ x) buf) eqn:He; [|reflexivity].
  exfalso. destruct (ends_with_inv _ _ He) as [pre Hpre]. subst buf.
  apply contains_false_split in Hc. apply split_once_none_app_l in Hc.
  rewrite split_once_eq in Hc. simpl in Hc. discriminate.
Qed.

Lemma splice_none : forall f buf rest e,
    contains "\" buf = false -> splice f buf rest e = (buf, e, rest).
Proof.
  intros f buf rest e Hc. destruct f as [|f]; [reflexivity|].
  cbn [splice]. rewrite !(ends_with_bs_contains _ _ Hc). reflexivity.
Qed.

(** * Unpacking the side conditions *)
Lemma text_ok_inv : forall l, text_ok l = true ->
    contains """" l = false /\ contains "//" l = false /\ contains "/*" l = false
    /\ contains "\" l = false.
Proof.
  intros l Hl. unfold text_ok in Hl.
  repeat (apply andb_true_iff in Hl; destruct Hl as [Hl ?]).
  repeat match goal with H : negb _ = true |- _ => apply negb_true_iff in H end.
  auto.
Qed.

Lemma one_line_inv : forall l, one_line l = true -> ends_with nl l = true /\ String.eqb l "" = false.
Proof.
  intros l Hl. unfold one_line in Hl. apply andb_true_iff in Hl. destruct Hl as [He _].
  split; [exact He|]. destruct l; [discriminate | reflexivity].
Qed.

Lemma is_directive_inv : forall d t,
    is_directive d t = true -> t = d \/ exists z, t = d ++ " " ++ z.
Proof.
  intros d t Ht. unfold is_directive in Ht. apply orb_true_iff in Ht. destruct Ht as [Ht|Ht].
  - left. apply String.eqb_eq. exact Ht.
  - right. destruct (starts_with_inv _ _ Ht) as [z Hz]. exists z.
    rewrite Hz, app_assoc_s. reflexivity.
Qed.

Lemma directive_parts_sp : forall d z,
    split_blank (d ++ " " ++ z) = Some (d, z) ->
    contains "//" (d ++ " " ++ z) = false ->
    directive_parts (d ++ " " ++ z) = (d, if String.eqb (trim z) "" then None else Some (trim z)).
Proof.
  intros d z Hsp Hsl. unfold directive_parts. rewrite (before_none _ _ Hsl), Hsp. reflexivity.
Qed.

(** the generic dispatch: '#', the letters of the name, a blank, the argument *)
Lemma directive_name_arg_sp : forall h w z,
    take_alpha (w ++ " " ++ z) = (w, " " ++ z) ->
    contains "//" (String h w ++ " " ++ z) = false ->
    directive_name_arg (String h w ++ " " ++ z)
    = (String h w, if String.eqb (trim z) "" then None else Some (trim z)).
Proof.
  intros h w z Hta Hsl. unfold directive_name_arg. rewrite (before_none _ _ Hsl).
  change (String h w ++ " " ++ z) with (String h (w ++ " " ++ z)). cbv beta iota zeta.
  rewrite Hta. reflexivity.
Qed.

(** ** [hash_blanks] leaves alone the text without white space after its '#' *)
Lemma trim_start_app_char : forall x c,
    is_ws c = false -> trim_start (x ++ String c "") = trim_start x ++ String c "".
Proof.
  intros x c Hc. induction x as [|a x IHx].
  - cbn [append trim_start]. rewrite Hc. reflexivity.
  - cbn [append trim_start]. destruct (is_ws a); [exact IHx | reflexivity].
Qed.

Lemma trim_start_trim : forall l, exists w, trim_start l = trim l ++ w.
Proof.
  intros l. unfold trim, trim_end.
  destruct (trim_start_decomp (rev_string (trim_start l))) as [w Hw].
  exists (rev_string w). rewrite <- rev_string_app, <- Hw, rev_string_invol. reflexivity.
Qed.

Lemma hash_blanks_tight : forall l r,
    trim_start l = String "#" r -> trim_start r = r -> hash_blanks l = l.
Proof.
  intros l r Hl Hr. unfold hash_blanks. rewrite Hl.
  change (Ascii.eqb "#" "#") with true. cbv iota zeta. rewrite Hr, Nat.eqb_refl. reflexivity.
Qed.

Lemma hash_blanks_trim_tight : forall l x z,
    trim l = String "#" (String x z) -> is_ws x = false -> hash_blanks l = l.
Proof.
  intros l x z Hl Hx. destruct (trim_start_trim l) as [w Hw]. rewrite Hl in Hw.
  apply (hash_blanks_tight l (String x (z ++ w))); [exact Hw|].
  cbn [trim_start]. rewrite Hx. reflexivity.
Qed.

Lemma hash_blanks_nohash : forall l, starts_with "#" (trim l) = false -> hash_blanks l = l.
Proof.
  intros l Hh. unfold hash_blanks.
  destruct (trim_start l) as [|h rest] eqn:E; [reflexivity|].
  destruct (Ascii.eqb h "#") eqn:Eh; [|reflexivity].
  exfalso. apply Ascii.eqb_eq in Eh. subst h.
  unfold trim, trim_end in Hh. rewrite E, rev_string_cons in Hh.
  rewrite (trim_start_app_char _ "#" eq_refl), rev_string_app in Hh.
  change (rev_string (String "#" "")) with (String "#" "") in Hh.
  cbn [append starts_with] in Hh. rewrite Ascii.eqb_refl in Hh. discriminate.
Qed.

(** a directive line: the trimmed text is the directive word, alone or followed by a blank *)
Lemma hash_blanks_directive : forall x d l,
    is_ws x = false -> is_directive (String "#" (String x d)) (trim l) = true -> hash_blanks l = l.
Proof.
  intros x d l Hx Hd. apply is_directive_inv in Hd. destruct Hd as [Hd|[z Hd]].
  - exact (hash_blanks_trim_tight l x d Hd Hx).
  - exact (hash_blanks_trim_tight l x (d ++ " " ++ z) Hd Hx).
Qed.

Lemma not_active : forall st, st <> Active -> cstate_eqb st Active = false.
Proof. intros st Hst. destruct st; try reflexivity. contradiction. Qed.

(** ** directive lines built by [flatten]: [pre ++ c ++ nl] with [c] a simple-text argument *)
Lemma arg_char_ne : forall x a,
    arg_char x = false -> arg_char a = true -> negb (Ascii.eqb a x) = true.
Proof.
  intros x a Hx Ha. destruct (Ascii.eqb_spec a x) as [Heq|Hne]; [|reflexivity].
  subst a. rewrite Hx in Ha. discriminate.
Qed.

Lemma dir_line_no : forall x p pre c post,
    arg_char x = false ->
    all_chars arg_char pre = true -> all_chars arg_char c = true ->
    all_chars (fun a => negb (Ascii.eqb a x)) post = true ->
    contains (String x p) (pre ++ c ++ post) = false.
Proof.
  intros x p pre c post Hx Hpre Hc Hpost. apply split_none_contains, split_once_no_char.
  rewrite !all_chars_app, Hpost.
  rewrite (all_chars_weaken arg_char _ pre (fun a => arg_char_ne x a Hx) Hpre).
  rewrite (all_chars_weaken arg_char _ c (fun a => arg_char_ne x a Hx) Hc).
  reflexivity.
Qed.

Record dir_facts (pre c : string) : Prop := mkDF {
  df_ne : String.eqb (pre ++ c ++ nl) "" = false;
  df_q : contains """" (pre ++ c ++ nl) = false;
  df_sl : contains "//" (pre ++ c ++ nl) = false;
  df_op : contains "/*" (pre ++ c ++ nl) = false;
  df_bs : contains "\" (pre ++ c ++ nl) = false;
  df_trim : trim (pre ++ c ++ nl) = pre ++ c;
  df_slt : contains "//" (pre ++ c) = false;
  df_ctrim : trim c = c;
  df_cne : String.eqb c "" = false
}.

Lemma dir_line_facts : forall pre c,
    all_chars arg_char pre = true -> edge_ok pre = true -> arg_ok c = true ->
    dir_facts pre c.
Proof.
  intros pre c Hpre Hedge Hc. unfold arg_ok in Hc. apply andb_true_iff in Hc.
  destruct Hc as [Ht Hch].
  split.
  - destruct pre; [discriminate | reflexivity].
  - apply dir_line_no; auto.
  - apply dir_line_no; auto.
  - apply dir_line_no; auto.
  - apply dir_line_no; auto.
  - apply trim_line; [exact Hedge|]. unfold tight in Ht. apply andb_true_iff in Ht. apply Ht.
  - rewrite <- (app_empty_r c). apply dir_line_no; auto.
  - apply tight_trim. exact Ht.
  - apply tight_nonempty. exact Ht.
Qed.

Lemma cond_value_evaluate : forall c b, cond_value c = Some b -> evaluate c = EvOk b "".
Proof.
  intros c b Hc. unfold cond_value in Hc.
  destruct (evaluate c) as [b' r|m]; [|discriminate].
  destruct r; [|discriminate]. inversion Hc. reflexivity.
Qed.

(** * Induction over trees *)
Section TreeInd.
  Variable P : item -> Prop.
  Variable PL : list item -> Prop.
  Variable PT : tail -> Prop.
  Hypothesis HPlain : forall l, P (Plain l).
  Hypothesis HInert : forall l, P (Inert l).
  Hypothesis HGroup : forall h body rest, PL body -> PT rest -> P (Group h body rest).
  Hypothesis HNil : PL [].
  Hypothesis HCons : forall i t, P i -> PL t -> PL (i :: t).
  Hypothesis HElif : forall c body rest, PL body -> PT rest -> PT (Elif c body rest).
  Hypothesis HElse : forall body, PL body -> PT (Else body).
  Hypothesis HEndif : PT Endif.

  Fixpoint item_ind2 (i : item) : P i :=
    match i with
    | Plain l => HPlain l
    | Inert l => HInert l
    | Group h body rest =>
        HGroup h body rest
               ((fix items (t : list item) : PL t :=
                   match t with
                   | [] => HNil
                   | i' :: t' => HCons i' t' (item_ind2 i') (items t')
                   end) body)
               (tail_ind2 rest)
    end
  with tail_ind2 (r : tail) : PT r :=
    match r with
    | Elif c body rest =>
        HElif c body rest
              ((fix items (t : list item) : PL t :=
                  match t with
                  | [] => HNil
                  | i' :: t' => HCons i' t' (item_ind2 i') (items t')
                  end) body)
              (tail_ind2 rest)
    | Else body =>
        HElse body
              ((fix items (t : list item) : PL t :=
                  match t with
                  | [] => HNil
                  | i' :: t' => HCons i' t' (item_ind2 i') (items t')
                  end) body)
    | Endif => HEndif
    end.

  Lemma items_ind2 : forall t, PL t.
  Proof.
    induction t as [|i t IHt]; [exact HNil | exact (HCons i t (item_ind2 i) IHt)].
  Qed.
End TreeInd.

Lemma concat_cons : forall x l, String.concat "" (x :: l) = x ++ String.concat "" l.
Proof. intros x l. destruct l; simpl; [rewrite app_empty_r|]; reflexivity. Qed.

Lemma concat_app : forall a b, String.concat "" (a ++ b) = String.concat "" a ++ String.concat "" b.
Proof.
  induction a as [|x a IHa]; intros b; [reflexivity|].
  change ((x :: a) ++ b)%list with (x :: (a ++ b)%list).
  rewrite !concat_cons, IHa, app_assoc_s. reflexivity.
Qed.

Section Steps.
  Variable rec : string -> option (string * N) -> bool -> list string -> pstate -> presult.
  Variable fs : files.
  Variable fname : string.
  Variable inc : option (string * N).
  Variable asm : bool.

  Ltac step_open Hc Hne Hq Hsl Hop Hhb :=
    unfold line_step; cbn [p_ctx c_scan];
    rewrite (scan_line_plain asm _ _ Hc Hne Hq Hsl Hop);
    unfold line_body, set_scan, set_state, emit;
    cbn [negb p_ctx p_state p_stack p_out p_map c_macros c_scan];
    rewrite !Hhb.

  (** ** an ordinary line: emitted when Active, dropped otherwise *)
  Lemma line_step_plain : forall ms sc o mp st stk line l,
      sc_in_comment sc = false ->
      plain_ok l = true ->
      replace_all_c ms l = l ->
      line_step rec fs fname inc asm (mkP (mkCtx ms sc) o mp st stk) line l =
      POk (if cstate_eqb st Active
           then mkP (mkCtx ms sc) (o ++ l) ((fname, line, inc) :: mp) st stk
           else mkP (mkCtx ms sc) o mp st stk).
  Proof.
    intros ms sc o mp st stk line l Hc Hok Hrep.
    unfold plain_ok in Hok. apply andb_true_iff in Hok. destruct Hok as [Hok Hh].
    apply andb_true_iff in Hok. destruct Hok as [H1 Ht].
    apply negb_true_iff in Hh.
    destruct (one_line_inv l H1) as [Hnl Hne].
    destruct (text_ok_inv l Ht) as [Hq [Hsl [Hop Hbs]]].
    pose proof (hash_blanks_nohash l Hh) as Hhb.
    step_open Hc Hne Hq Hsl Hop Hhb.
    assert (Ha : starts_with "#ifdef" (trim l) = false)
      by exact (starts_with_prefix_false "#" "ifdef" _ Hh).
    assert (Hb : starts_with "#ifndef" (trim l) = false)
      by exact (starts_with_prefix_false "#" "ifndef" _ Hh).
    assert (Hd : starts_with "#undef" (trim l) = false)
      by exact (starts_with_prefix_false "#" "undef" _ Hh).
    assert (He : starts_with "#define" (trim l) = false)
      by exact (starts_with_prefix_false "#" "define" _ Hh).
    rewrite Ha, Hb, Hd, He, Hrep, Hh, Hnl.
    cbn [negb andb].
    destruct (cstate_eqb st Active); reflexivity.
  Qed.

  (** ** a #define / #undef / #include / #error line outside an Active region: no effect *)
  Lemma line_step_inert : forall ms sc o mp st stk line l,
      sc_in_comment sc = false ->
      inert_ok l = true ->
      replace_all_c ms l = l ->
      st <> Active ->
      line_step rec fs fname inc asm (mkP (mkCtx ms sc) o mp st stk) line l =
      POk (mkP (mkCtx ms sc) o mp st stk).
  Proof.
    intros ms sc o mp st stk line l Hc Hok Hrep Hst.
    unfold inert_ok in Hok. apply andb_true_iff in Hok. destruct Hok as [Hok Hd].
    apply andb_true_iff in Hok. destruct Hok as [H1 Ht].
    destruct (one_line_inv l H1) as [Hnl Hne].
    destruct (text_ok_inv l Ht) as [Hq [Hsl [Hop Hbs]]].
    pose proof (contains_false_trim _ _ Hsl) as Hslt.
    pose proof (not_active st Hst) as Hna.
    assert (Hhb : hash_blanks l = l).
    { pose proof Hd as Hd'.
      apply orb_true_iff in Hd'; destruct Hd' as [Hd'|Hd'];
        [apply orb_true_iff in Hd'; destruct Hd' as [Hd'|Hd'];
         [apply orb_true_iff in Hd'; destruct Hd' as [Hd'|Hd']|]|];
        (eapply hash_blanks_directive; [|exact Hd']; reflexivity). }
    step_open Hc Hne Hq Hsl Hop Hhb.
    rewrite Hrep, Hna.
    apply orb_true_iff in Hd; destruct Hd as [Hd|Hd];
      [apply orb_true_iff in Hd; destruct Hd as [Hd|Hd];
       [apply orb_true_iff in Hd; destruct Hd as [Hd|Hd]|]|];
      apply is_directive_inv in Hd; destruct Hd as [Hd|[z Hd]]; rewrite Hd in *; try reflexivity.
    - rewrite (directive_name_arg_sp "#" "include" z eq_refl Hslt). reflexivity.
    - rewrite (directive_name_arg_sp "#" "error" z eq_refl Hslt). reflexivity.
  Qed.

  (** ** the directives of the conditional machine *)
  Lemma line_step_if : forall sc o mp st stk line c b,
      sc_in_comment sc = false ->
      arg_ok c = true -> cond_value c = Some b ->
      line_step rec fs fname inc asm (mkP (mkCtx [] sc) o mp st stk) line ("#if " ++ c ++ nl) =
      POk (mkP (mkCtx [] sc) o mp
               (if cstate_eqb st Active then (if b then Active else Inactive) else Skip)
               (st :: stk)).
  Proof.
    intros sc o mp st stk line c b Hc Hok Hv.
    destruct (dir_line_facts "#if " c eq_refl eq_refl Hok)
      as [Hne Hq Hsl Hop Hbs Htrim Hslt Hct Hcne].
    assert (Hhb : hash_blanks ("#if " ++ c ++ nl) = "#if " ++ c ++ nl)
      by (apply (hash_blanks_trim_tight _ "i"%char ("f " ++ c)); [exact Htrim|reflexivity]).
    step_open Hc Hne Hq Hsl Hop Hhb.
    rewrite replace_all_c_nil, Htrim.
    change ("#if " ++ c) with ("#if" ++ " " ++ c).
    rewrite (directive_name_arg_sp "#" "if" c eq_refl Hslt), Hct, Hcne.
    cbn [starts_with append Ascii.eqb Bool.eqb andb String.eqb].
    rewrite (cond_value_evaluate _ _ Hv). destruct (cstate_eqb st Active); reflexivity.
  Qed.

  Lemma line_step_elif : forall sc o mp st stk line c b,
      sc_in_comment sc = false ->
      arg_ok c = true -> cond_value c = Some b ->
      line_step rec fs fname inc asm (mkP (mkCtx [] sc) o mp st stk) line (elif_line c) =
      POk (mkP (mkCtx [] sc) o mp
               (if cstate_eqb st Inactive then (if b then Active else Inactive) else Skip)
               stk).
  Proof.
    intros sc o mp st stk line c b Hc Hok Hv. unfold elif_line.
    destruct (dir_line_facts "#elif " c eq_refl eq_refl Hok)
      as [Hne Hq Hsl Hop Hbs Htrim Hslt Hct Hcne].
    assert (Hhb : hash_blanks ("#elif " ++ c ++ nl) = "#elif " ++ c ++ nl)
      by (apply (hash_blanks_trim_tight _ "e"%char ("lif " ++ c)); [exact Htrim|reflexivity]).
    step_open Hc Hne Hq Hsl Hop Hhb.
    rewrite replace_all_c_nil, Htrim.
    change ("#elif " ++ c) with ("#elif" ++ " " ++ c).
    rewrite (directive_name_arg_sp "#" "elif" c eq_refl Hslt), Hct, Hcne.
    cbn [starts_with append Ascii.eqb Bool.eqb andb String.eqb].
    rewrite (cond_value_evaluate _ _ Hv). destruct (cstate_eqb st Inactive); reflexivity.
  Qed.

  Lemma line_step_ifdef : forall ms sc o mp st stk line n,
      sc_in_comment sc = false ->
      arg_ok n = true ->
      line_step rec fs fname inc asm (mkP (mkCtx ms sc) o mp st stk) line ("#ifdef " ++ n ++ nl) =
      POk (mkP (mkCtx ms sc) o mp
               (if cstate_eqb st Active
                then match get_macro ms n with None => Inactive | Some _ => Active end
                else Skip)
               (st :: stk)).
  Proof.
    intros ms sc o mp st stk line n Hc Hok.
    destruct (dir_line_facts "#ifdef " n eq_refl eq_refl Hok)
      as [Hne Hq Hsl Hop Hbs Htrim Hslt Hct Hcne].
    assert (Hhb : hash_blanks ("#ifdef " ++ n ++ nl) = "#ifdef " ++ n ++ nl)
      by (apply (hash_blanks_trim_tight _ "i"%char ("fdef " ++ n)); [exact Htrim|reflexivity]).
    step_open Hc Hne Hq Hsl Hop Hhb.
    rewrite Htrim.
    change ("#ifdef " ++ n) with ("#ifdef" ++ " " ++ n).
    rewrite (directive_parts_sp "#ifdef" n eq_refl Hslt), Hct, Hcne.
    reflexivity.
  Qed.

  Lemma line_step_ifndef : forall ms sc o mp st stk line n,
      sc_in_comment sc = false ->
      arg_ok n = true ->
      line_step rec fs fname inc asm (mkP (mkCtx ms sc) o mp st stk) line ("#ifndef " ++ n ++ nl) =
      POk (mkP (mkCtx ms sc) o mp
               (if cstate_eqb st Active
                then match get_macro ms n with Some _ => Inactive | None => Active end
                else Skip)
               (st :: stk)).
  Proof.
    intros ms sc o mp st stk line n Hc Hok.
    destruct (dir_line_facts "#ifndef " n eq_refl eq_refl Hok)
      as [Hne Hq Hsl Hop Hbs Htrim Hslt Hct Hcne].
    assert (Hhb : hash_blanks ("#ifndef " ++ n ++ nl) = "#ifndef " ++ n ++ nl)
      by (apply (hash_blanks_trim_tight _ "i"%char ("fndef " ++ n)); [exact Htrim|reflexivity]).
    step_open Hc Hne Hq Hsl Hop Hhb.
    rewrite Htrim.
    change ("#ifndef " ++ n) with ("#ifndef" ++ " " ++ n).
    rewrite (directive_parts_sp "#ifndef" n eq_refl Hslt), Hct, Hcne.
    reflexivity.
  Qed.

  Lemma line_step_else : forall sc o mp st stk line,
      sc_in_comment sc = false ->
      line_step rec fs fname inc asm (mkP (mkCtx [] sc) o mp st stk) line else_line =
      POk (mkP (mkCtx [] sc) o mp (if cstate_eqb st Inactive then Active else Skip) stk).
  Proof.
    intros sc o mp st stk line Hc.
    unfold line_step; cbn [p_ctx c_scan].
    rewrite (scan_line_plain asm else_line sc Hc eq_refl eq_refl eq_refl eq_refl).
    unfold line_body. reflexivity.
  Qed.

  Lemma line_step_endif : forall sc o mp st s0 stk line,
      sc_in_comment sc = false ->
      line_step rec fs fname inc asm (mkP (mkCtx [] sc) o mp st (s0 :: stk)) line endif_line =
      POk (mkP (mkCtx [] sc) o mp s0 stk).
  Proof.
    intros sc o mp st s0 stk line Hc.
    unfold line_step; cbn [p_ctx c_scan].
    rewrite (scan_line_plain asm endif_line sc Hc eq_refl eq_refl eq_refl eq_refl).
    unfold line_body. reflexivity.
  Qed.

  (** the head line of a group, no macro defined *)
  Lemma line_step_head : forall sc o mp st stk line h,
      sc_in_comment sc = false ->
      head_ok h = true ->
      line_step rec fs fname inc asm (mkP (mkCtx [] sc) o mp st stk) line (head_line h) =
      POk (mkP (mkCtx [] sc) o mp
               (if cstate_eqb st Active then (if head_true h then Active else Inactive) else Skip)
               (st :: stk)).
  Proof.
    intros sc o mp st stk line h Hc Hok. destruct h as [c|n|n]; cbn [head_line head_ok head_true] in *.
    - unfold cond_ok in Hok. apply andb_true_iff in Hok. destruct Hok as [Hok Hv].
      unfold cond_true. destruct (cond_value c) as [b|] eqn:Hcv; [|discriminate].
      apply line_step_if; assumption.
    - rewrite (line_step_ifdef [] sc o mp st stk line n Hc Hok). reflexivity.
    - rewrite (line_step_ifndef [] sc o mp st stk line n Hc Hok). reflexivity.
  Qed.

  (** ** line after line *)
  Fixpoint steps (ls : list string) (line : N) (p : pstate) : presult :=
    match ls with
    | [] => POk p
    | l :: rest =>
        match line_step rec fs fname inc asm p (line + 1 + 0)%N l with
        | POk p' => steps rest (line + 1 + 0)%N p'
        | PErr e => PErr e
        end
    end.

  Fixpoint adv (n : nat) (line : N) : N :=
    match n with O => line | S k => adv k (line + 1 + 0)%N end.

  Lemma go_steps : forall ls fuel line p,
      Forall (fun l => contains "\" l = false) ls ->
      List.length ls < fuel ->
      go rec fs fname inc asm fuel ls line p = steps ls line p.
  Proof.
    induction ls as [|l ls IHls]; intros fuel line p Hall Hfuel.
    - destruct fuel; reflexivity.
    - destruct fuel as [|fuel]; [simpl in Hfuel; lia|].
      inversion Hall as [|x xs Hl Hls]; subst.
      cbn [go steps]. rewrite (splice_none _ l ls 0%N Hl).
      destruct (line_step rec fs fname inc asm p (line + 1 + 0) l) as [p'|e]; [|reflexivity].
      apply IHls; [exact Hls | simpl in Hfuel; lia].
  Qed.

  Lemma steps_app : forall a b line p,
      steps (a ++ b) line p =
      match steps a line p with
      | POk p' => steps b (adv (List.length a) line) p'
      | PErr e => PErr e
      end.
  Proof.
    induction a as [|l a IHa]; intros b line p; [reflexivity|].
    cbn [steps List.app List.length adv].
    destruct (line_step rec fs fname inc asm p (line + 1 + 0) l) as [p'|e]; [|reflexivity].
    apply IHa.
  Qed.

  (** [runs ls sc st stk st' stk' L]: from conditional state [st] and stack [stk], with no macro
      defined, the lines [ls] are processed without error, change nothing but the conditional
      state and stack, which become [st'] and [stk'], and emit exactly the lines [L] *)
  Definition runs (ls : list string) (sc : scan_state) (st : cstate) (stk : list cstate)
             (st' : cstate) (stk' : list cstate) (L : list string) : Prop :=
    forall o mp line, exists mp',
      steps ls line (mkP (mkCtx [] sc) o mp st stk) =
      POk (mkP (mkCtx [] sc) (o ++ String.concat "" L) mp' st' stk')
      /\ List.length mp' = List.length L + List.length mp.

  Lemma runs_nil : forall sc st stk, runs [] sc st stk st stk [].
  Proof.
    intros sc st stk o mp line. exists mp. cbn [steps String.concat].
    rewrite app_empty_r. split; reflexivity.
  Qed.

  Lemma runs_app : forall a b sc st stk st1 stk1 st2 stk2 L1 L2,
      runs a sc st stk st1 stk1 L1 -> runs b sc st1 stk1 st2 stk2 L2 ->
      runs (a ++ b) sc st stk st2 stk2 (L1 ++ L2).
  Proof.
    intros a b sc st stk st1 stk1 st2 stk2 L1 L2 Ha Hb o mp line.
    destruct (Ha o mp line) as [mp1 [Ea La]].
    destruct (Hb (o ++ String.concat "" L1) mp1 (adv (List.length a) line)) as [mp2 [Eb Lb]].
    exists mp2. rewrite steps_app, Ea, Eb, concat_app, app_assoc_s.
    split; [reflexivity|]. rewrite Lb, La, app_length. lia.
  Qed.

  Lemma runs_cons : forall l b sc st stk st1 stk1 st2 stk2 L1 L2,
      runs [l] sc st stk st1 stk1 L1 -> runs b sc st1 stk1 st2 stk2 L2 ->
      runs (l :: b) sc st stk st2 stk2 (L1 ++ L2).
  Proof. intros l b. exact (runs_app [l] b). Qed.

  Lemma runs_silent : forall l sc st stk st' stk',
      (forall o mp line,
          line_step rec fs fname inc asm (mkP (mkCtx [] sc) o mp st stk) line l =
          POk (mkP (mkCtx [] sc) o mp st' stk')) ->
      runs [l] sc st stk st' stk' [].
  Proof.
    intros l sc st stk st' stk' Hl o mp line. exists mp. cbn [steps String.concat].
    rewrite Hl, app_empty_r. split; reflexivity.
  Qed.

  Lemma runs_plain : forall l sc st stk,
      sc_in_comment sc = false -> plain_ok l = true ->
      runs [l] sc st stk st stk (if cstate_eqb st Active then [l] else []).
  Proof.
    intros l sc st stk Hc Hl o mp line. cbn [steps].
    rewrite (line_step_plain [] sc o mp st stk _ l Hc Hl (replace_all_c_nil l)).
    destruct (cstate_eqb st Active).
    - exists ((fname, (line + 1 + 0)%N, inc) :: mp). split; reflexivity.
    - exists mp. cbn [String.concat]. rewrite app_empty_r. split; reflexivity.
  Qed.

  Lemma runs_eq : forall ls sc st stk st' stk' L L',
      runs ls sc st stk st' stk' L -> L = L' -> runs ls sc st stk st' stk' L'.
  Proof. intros ls sc st stk st' stk' L L' Hr HL. subst L'. exact Hr. Qed.

  Definition emitted (st : cstate) (L : list string) : list string :=
    if cstate_eqb st Active then L else [].

  Lemma cond_ok_inv : forall c, cond_ok c = true ->
      arg_ok c = true /\ cond_value c = Some (cond_true c).
  Proof.
    intros c Hc. unfold cond_ok in Hc. apply andb_true_iff in Hc. destruct Hc as [Ha Hv].
    split; [exact Ha|]. unfold cond_true. destruct (cond_value c); [reflexivity | discriminate].
  Qed.

  (** ** the machine on a tree, from any conditional state *)
  Lemma runs_tree : forall sc, sc_in_comment sc = false ->
      forall t st stk,
        lines_ok t = true -> wf (cstate_eqb st Active) t = true ->
        runs (flatten t) sc st stk st stk (emitted st (spec_active t)).
  Proof.
    intros sc Hc.
    apply (items_ind2
      (fun i => forall st stk,
           lines_ok_item i = true -> wf_item (cstate_eqb st Active) i = true ->
           runs (flatten_item i) sc st stk st stk (emitted st (active_item i)))
      (fun t => forall st stk,
           lines_ok t = true -> wf (cstate_eqb st Active) t = true ->
           runs (flatten t) sc st stk st stk (emitted st (spec_active t)))
      (fun r => forall st s0 stk,
           lines_ok_tail r = true -> wf_tail (cstate_eqb st Inactive) r = true ->
           runs (flatten_tail r) sc st (s0 :: stk) s0 stk
                (if cstate_eqb st Inactive then active_tail r else []))).
    - (* Plain *)
      intros l st stk Hok _. exact (runs_plain l sc st stk Hc Hok).
    - (* Inert *)
      intros l st stk Hok Hwf. cbn [lines_ok_item wf_item flatten_item active_item] in *.
      apply negb_true_iff in Hwf.
      apply runs_eq with (L := []); [|unfold emitted; destruct (cstate_eqb st Active); reflexivity].
      apply runs_silent. intros o mp line.
      apply line_step_inert; [exact Hc | exact Hok | apply replace_all_c_nil |].
      intros Hst. subst st. discriminate.
    - (* Group *)
      intros h body rest IHbody IHrest st stk Hok Hwf.
      cbn [lines_ok_item wf_item flatten_item active_item] in *.
      apply andb_true_iff in Hok. destruct Hok as [Hok Hokr].
      apply andb_true_iff in Hok. destruct Hok as [Hokh Hokb].
      apply andb_true_iff in Hwf. destruct Hwf as [Hwfb Hwfr].
      pose (st1 := if cstate_eqb st Active then (if head_true h then Active else Inactive) else Skip).
      assert (Hhead : runs [head_line h] sc st stk st1 (st :: stk) []).
      { apply runs_silent. intros o mp line. apply line_step_head; assumption. }
      assert (H1a : cstate_eqb st1 Active = cstate_eqb st Active && head_true h).
      { unfold st1. destruct (cstate_eqb st Active), (head_true h); reflexivity. }
      assert (H1i : cstate_eqb st1 Inactive = cstate_eqb st Active && negb (head_true h)).
      { unfold st1. destruct (cstate_eqb st Active), (head_true h); reflexivity. }
      rewrite <- H1a in Hwfb. rewrite <- H1i in Hwfr.
      pose proof (IHbody st1 (st :: stk) Hokb Hwfb) as Hb.
      pose proof (IHrest st1 st stk Hokr Hwfr) as Hr.
      apply runs_eq with (1 := runs_cons _ _ _ _ _ _ _ _ _ _ _ Hhead (runs_app _ _ _ _ _ _ _ _ _ _ _ Hb Hr)).
      unfold emitted. rewrite H1a, H1i. fold (spec_active body).
      destruct (cstate_eqb st Active), (head_true h); cbn [andb negb List.app];
        try reflexivity. apply app_nil_r.
    - (* nil *)
      intros st stk _ _. apply runs_eq with (1 := runs_nil sc st stk).
      unfold emitted. destruct (cstate_eqb st Active); reflexivity.
    - (* cons *)
      intros i t IHi IHt st stk Hok Hwf.
      unfold lines_ok, wf in Hok, Hwf. cbn [forallb] in Hok, Hwf.
      apply andb_true_iff in Hok. destruct Hok as [Hoki Hokt].
      apply andb_true_iff in Hwf. destruct Hwf as [Hwfi Hwft].
      apply runs_eq with (1 := runs_app _ _ _ _ _ _ _ _ _ _ _ (IHi st stk Hoki Hwfi) (IHt st stk Hokt Hwft)).
      unfold emitted, spec_active. cbn [flat_map].
      destruct (cstate_eqb st Active); reflexivity.
    - (* Elif *)
      intros c body rest IHbody IHrest st s0 stk Hok Hwf.
      cbn [lines_ok_tail wf_tail flatten_tail active_tail] in *.
      apply andb_true_iff in Hok. destruct Hok as [Hok Hokr].
      apply andb_true_iff in Hok. destruct Hok as [Hokc Hokb].
      apply andb_true_iff in Hwf. destruct Hwf as [Hwfb Hwfr].
      destruct (cond_ok_inv c Hokc) as [Harg Hval].
      pose (st2 := if cstate_eqb st Inactive then (if cond_true c then Active else Inactive) else Skip).
      assert (Helif : runs [elif_line c] sc st (s0 :: stk) st2 (s0 :: stk) []).
      { apply runs_silent. intros o mp line. apply line_step_elif; assumption. }
      assert (H2a : cstate_eqb st2 Active = cstate_eqb st Inactive && cond_true c).
      { unfold st2. destruct (cstate_eqb st Inactive), (cond_true c); reflexivity. }
      assert (H2i : cstate_eqb st2 Inactive = cstate_eqb st Inactive && negb (cond_true c)).
      { unfold st2. destruct (cstate_eqb st Inactive), (cond_true c); reflexivity. }
      rewrite <- H2a in Hwfb. rewrite <- H2i in Hwfr.
      pose proof (IHbody st2 (s0 :: stk) Hokb Hwfb) as Hb.
      pose proof (IHrest st2 s0 stk Hokr Hwfr) as Hr.
      apply runs_eq with (1 := runs_cons _ _ _ _ _ _ _ _ _ _ _ Helif (runs_app _ _ _ _ _ _ _ _ _ _ _ Hb Hr)).
      unfold emitted. rewrite H2a, H2i. fold (spec_active body).
      destruct (cstate_eqb st Inactive), (cond_true c); cbn [andb negb List.app];
        try reflexivity. apply app_nil_r.
    - (* Else *)
      intros body IHbody st s0 stk Hok Hwf.
      cbn [lines_ok_tail wf_tail flatten_tail active_tail] in *.
      pose (st2 := if cstate_eqb st Inactive then Active else Skip).
      assert (Helse : runs [else_line] sc st (s0 :: stk) st2 (s0 :: stk) []).
      { apply runs_silent. intros o mp line. apply line_step_else; assumption. }
      assert (H2a : cstate_eqb st2 Active = cstate_eqb st Inactive).
      { unfold st2. destruct (cstate_eqb st Inactive); reflexivity. }
      rewrite <- H2a in Hwf.
      pose proof (IHbody st2 (s0 :: stk) Hok Hwf) as Hb.
      assert (Hend : runs [endif_line] sc st2 (s0 :: stk) s0 stk []).
      { apply runs_silent. intros o mp line. apply line_step_endif; assumption. }
      apply runs_eq with (1 := runs_cons _ _ _ _ _ _ _ _ _ _ _ Helse (runs_app _ _ _ _ _ _ _ _ _ _ _ Hb Hend)).
      unfold emitted. rewrite H2a. fold (spec_active body).
      destruct (cstate_eqb st Inactive); cbn [List.app]; [apply app_nil_r | reflexivity].
    - (* Endif *)
      intros st s0 stk _ _. cbn [flatten_tail active_tail].
      apply runs_eq with (L := []); [|destruct (cstate_eqb st Inactive); reflexivity].
      apply runs_silent. intros o mp line. apply line_step_endif; assumption.
  Qed.
End Steps.

Print Assumptions line_step_plain.
Print Assumptions line_step_inert.
Print Assumptions line_step_if.
Print Assumptions line_step_elif.
Print Assumptions line_step_ifdef.
Print Assumptions line_step_ifndef.
Print Assumptions line_step_else.
Print Assumptions line_step_endif.
Print Assumptions line_step_head.
Print Assumptions go_steps.
Print Assumptions runs_tree.

(** * The lines of a tree contain no backslash: no splicing *)
Definition no_bs (l : string) : Prop := contains "\" l = false.

Lemma plain_no_bs : forall l, plain_ok l = true -> no_bs l.
Proof.
  intros l Hl. unfold plain_ok in Hl. apply andb_true_iff in Hl. destruct Hl as [Hl _].
  apply andb_true_iff in Hl. destruct Hl as [_ Ht]. apply (text_ok_inv l Ht).
Qed.

Lemma inert_no_bs : forall l, inert_ok l = true -> no_bs l.
Proof.
  intros l Hl. unfold inert_ok in Hl. apply andb_true_iff in Hl. destruct Hl as [Hl _].
  apply andb_true_iff in Hl. destruct Hl as [_ Ht]. apply (text_ok_inv l Ht).
Qed.

Lemma head_no_bs : forall h, head_ok h = true -> no_bs (head_line h).
Proof.
  intros h Hh. destruct h as [c|n|n]; cbn [head_ok head_line] in *.
  - apply cond_ok_inv in Hh. destruct Hh as [Ha _].
    exact (df_bs _ _ (dir_line_facts "#if " c eq_refl eq_refl Ha)).
  - exact (df_bs _ _ (dir_line_facts "#ifdef " n eq_refl eq_refl Hh)).
  - exact (df_bs _ _ (dir_line_facts "#ifndef " n eq_refl eq_refl Hh)).
Qed.

Lemma elif_no_bs : forall c, cond_ok c = true -> no_bs (elif_line c).
Proof.
  intros c Hc. apply cond_ok_inv in Hc. destruct Hc as [Ha _].
  exact (df_bs _ _ (dir_line_facts "#elif " c eq_refl eq_refl Ha)).
Qed.

Lemma flatten_no_bs : forall t, lines_ok t = true -> Forall no_bs (flatten t).
Proof.
  apply (items_ind2
    (fun i => lines_ok_item i = true -> Forall no_bs (flatten_item i))
    (fun t => lines_ok t = true -> Forall no_bs (flatten t))
    (fun r => lines_ok_tail r = true -> Forall no_bs (flatten_tail r))).
  - intros l Hl. constructor; [exact (plain_no_bs l Hl) | constructor].
  - intros l Hl. constructor; [exact (inert_no_bs l Hl) | constructor].
  - intros h body rest IHb IHr Hok. cbn [lines_ok_item flatten_item] in *.
    apply andb_true_iff in Hok. destruct Hok as [Hok Hokr].
    apply andb_true_iff in Hok. destruct Hok as [Hokh Hokb].
    constructor; [exact (head_no_bs h Hokh)|].
    apply Forall_app. split; [exact (IHb Hokb) | exact (IHr Hokr)].
  - intros _. constructor.
  - intros i t IHi IHt Hok. unfold lines_ok in Hok. cbn [forallb] in Hok.
    apply andb_true_iff in Hok. destruct Hok as [Hoki Hokt].
    unfold flatten. cbn [flat_map]. apply Forall_app. split; [exact (IHi Hoki) | exact (IHt Hokt)].
  - intros c body rest IHb IHr Hok. cbn [lines_ok_tail flatten_tail] in *.
    apply andb_true_iff in Hok. destruct Hok as [Hok Hokr].
    apply andb_true_iff in Hok. destruct Hok as [Hokc Hokb].
    constructor; [exact (elif_no_bs c Hokc)|].
    apply Forall_app. split; [exact (IHb Hokb) | exact (IHr Hokr)].
  - intros body IHb Hok. cbn [lines_ok_tail flatten_tail] in *.
    constructor; [reflexivity|].
    apply Forall_app. split; [exact (IHb Hok)|]. constructor; [reflexivity | constructor].
  - intros _. constructor; [reflexivity | constructor].
Qed.

(** * C07, main theorem *)

(** with any table of include files (none is ever opened) *)
Theorem cond_machine_correct_fs : forall (fs : files) (fname : string) (t : list item),
    tree_ok t ->
    exists p, run_cpp fs fname [] (flatten t) = POk p
              /\ p_out p = String.concat "" (spec_active t)
              /\ c_macros (p_ctx p) = []
              /\ p_state p = Active /\ p_stack p = []
              /\ List.length (p_map p) = List.length (spec_active t).
Proof.
  intros fs fname t [Hok Hwf].
  unfold run_cpp.
  change (process 8 fs fname None false (flatten t)
                  (mkP (init_ctx []) "" [] Active []))
    with (go (process 7 fs) fs fname None false (S (List.length (flatten t))) (flatten t) 0%N
             (mkP (mkCtx [] (mkScan false 0 [])) "" [] Active [])).
  rewrite (go_steps (process 7 fs) fs fname None false (flatten t) _ 0%N _
                    (flatten_no_bs t Hok) (Nat.lt_succ_diag_r _)).
  destruct (runs_tree (process 7 fs) fs fname None false (mkScan false 0 []) eq_refl
                      t Active [] Hok Hwf "" [] 0%N) as [mp' [Hrun Hlen]].
  eexists. split; [exact Hrun|].
  cbn [p_out p_ctx c_macros p_state p_stack p_map emitted cstate_eqb] in *.
  repeat split.
  rewrite Hlen. apply Nat.add_0_r.
Qed.
Print Assumptions cond_machine_correct_fs.

Theorem cond_machine_correct : forall (fname : string) (t : list item),
    tree_ok t ->
    exists p, run_cpp [] fname [] (flatten t) = POk p
              /\ p_out p = String.concat "" (spec_active t)
              /\ c_macros (p_ctx p) = []
              /\ p_state p = Active /\ p_stack p = []
              /\ List.length (p_map p) = List.length (spec_active t).
Proof. intros fname t Ht. exact (cond_machine_correct_fs [] fname t Ht). Qed.
Print Assumptions cond_machine_correct.

(** * The #if evaluator on integer constants, ! and == *)

(** ** decimal printing against [parse_c_int] *)

(** decimal, no leading zero (the digits of [Base.Str.string_of_N], Rust's [{}]) *)
Definition print_dec (n : N) : string := string_of_N n.

Fixpoint pow10c (k : nat) : N :=
  match k with O => 1%N | S k' => (10 * pow10c k')%N end.

Lemma dec_digits_step : forall f n acc,
  dec_digits (S f) n acc =
    if N.eqb (n / 10) 0
    then String (ascii_of_N (48 + n mod 10)) acc
    else dec_digits f (n / 10)%N (String (ascii_of_N (48 + n mod 10)) acc).
Proof. reflexivity. Qed.

Lemma dec_char : forall d, (d < 10)%N -> N_of_ascii (ascii_of_N (48 + d)) = (48 + d)%N.
Proof. intros d Hd. apply N_ascii_embedding. lia. Qed.

Lemma dec_char_digit : forall d, (d < 10)%N -> is_digit (ascii_of_N (48 + d)) = true.
Proof.
  intros d Hd. unfold is_digit. cbv zeta. rewrite (dec_char d Hd).
  apply andb_true_iff. split; apply N.leb_le; lia.
Qed.

Lemma digit_val_dec : forall d, (d < 10)%N -> digit_val (ascii_of_N (48 + d)) = Some d.
Proof.
  intros d Hd. unfold digit_val. cbv zeta. rewrite (dec_char d Hd).
  replace ((48 <=? 48 + d)%N) with true by (symmetry; apply N.leb_le; lia).
  replace ((48 + d <=? 57)%N) with true by (symmetry; apply N.leb_le; lia).
  cbn [andb]. f_equal. lia.
Qed.

Lemma parse_radix_dec_digit : forall d r acc, (d < 10)%N ->
  parse_radix_aux 10 (String (ascii_of_N (48 + d)) r) acc = parse_radix_aux 10 r (acc * 10 + d)%N.
Proof.
  intros d r acc Hd. cbn [parse_radix_aux]. rewrite (digit_val_dec d Hd).
  replace ((d <? 10)%N) with true by (symmetry; apply N.ltb_lt; exact Hd). reflexivity.
Qed.

Lemma parse_radix_dec_digits : forall f n acc, (n < pow10c f)%N ->
  parse_radix_aux 10 (dec_digits f n acc) 0%N = parse_radix_aux 10 acc n.
Proof.
  induction f as [|f IH]; intros n acc Hn.
  - cbn [pow10c] in Hn. cbn [dec_digits]. f_equal. lia.
  - rewrite dec_digits_step.
    assert (Hd : (n mod 10 < 10)%N) by (apply N.mod_lt; lia).
    assert (Hdm : n = (10 * (n / 10) + n mod 10)%N) by (apply N.div_mod; lia).
    destruct (N.eqb (n / 10) 0) eqn:E.
    + apply N.eqb_eq in E. rewrite parse_radix_dec_digit by exact Hd. f_equal. lia.
    + rewrite IH.
      * rewrite parse_radix_dec_digit by exact Hd. f_equal. lia.
      * apply N.div_lt_upper_bound; [lia|]. cbn [pow10c] in Hn. exact Hn.
Qed.

Lemma pos_lt_pow10c : forall p, (Npos p < pow10c (Pos.size_nat p))%N.
Proof.
  induction p as [p IH|p IH|]; cbn [Pos.size_nat pow10c].
  - change (N.pos p~1) with (2 * N.pos p + 1)%N. lia.
  - change (N.pos p~0) with (2 * N.pos p)%N. lia.
  - lia.
Qed.

Lemma N_lt_pow10c : forall n, (n < pow10c (S (N.size_nat n)))%N.
Proof.
  intros [|p]; cbn [N.size_nat pow10c]; [lia|].
  pose proof (pos_lt_pow10c p) as Hp. lia.
Qed.

Lemma parse_radix_print_dec : forall n, parse_radix_aux 10 (print_dec n) 0%N = Some n.
Proof.
  intros n. unfold print_dec, string_of_N.
  rewrite parse_radix_dec_digits by apply N_lt_pow10c. reflexivity.
Qed.

(** the leading digit of a positive number is not 0 *)
Lemma dec_digits_lead : forall f n acc, (0 < n)%N -> (n < pow10c f)%N ->
  exists d r, dec_digits f n acc = String (ascii_of_N (48 + d)) r /\ (0 < d)%N /\ (d < 10)%N.
Proof.
  induction f as [|f IH]; intros n acc Hpos Hn.
  - cbn [pow10c] in Hn. lia.
  - rewrite dec_digits_step.
    assert (Hd : (n mod 10 < 10)%N) by (apply N.mod_lt; lia).
    assert (Hdm : n = (10 * (n / 10) + n mod 10)%N) by (apply N.div_mod; lia).
    destruct (N.eqb (n / 10) 0) eqn:E.
    + apply N.eqb_eq in E. exists (n mod 10)%N, acc. split; [reflexivity|]. split; lia.
    + apply N.eqb_neq in E. apply IH; [lia|].
      apply N.div_lt_upper_bound; [lia|]. cbn [pow10c] in Hn. exact Hn.
Qed.

Lemma print_dec_pos : forall n, (0 < n)%N ->
  exists d r, print_dec n = String (ascii_of_N (48 + d)) r /\ (0 < d)%N /\ (d < 10)%N.
Proof.
  intros n Hn. unfold print_dec, string_of_N.
  apply dec_digits_lead; [exact Hn | apply N_lt_pow10c].
Qed.

Lemma print_dec_shape : forall n, exists a w, print_dec n = String a w /\ is_digit a = true.
Proof.
  intros n. destruct (N.eq_dec n 0) as [Hz|Hnz].
  - subst n. exists "0"%char, "". split; reflexivity.
  - destruct (print_dec_pos n) as [d [r [Hs [Hd0 Hd9]]]]; [lia|].
    exists (ascii_of_N (48 + d)), r. split; [exact Hs | exact (dec_char_digit d Hd9)].
Qed.

Lemma dec_digits_all_digits : forall f n acc,
  all_chars is_digit acc = true -> all_chars is_digit (dec_digits f n acc) = true.
Proof.
  induction f as [|f IH]; intros n acc Hacc; [exact Hacc|].
  rewrite dec_digits_step.
  assert (Hd : (n mod 10 < 10)%N) by (apply N.mod_lt; lia).
  destruct (N.eqb (n / 10) 0); [|apply IH];
    cbn [all_chars]; rewrite (dec_char_digit _ Hd), Hacc; reflexivity.
Qed.

Lemma print_dec_all_digits : forall n, all_chars is_digit (print_dec n) = true.
Proof. intros n. unfold print_dec, string_of_N. apply dec_digits_all_digits. reflexivity. Qed.

Lemma lead_not_zero : forall d, (0 < d)%N -> (d < 10)%N ->
  Ascii.eqb "0" (ascii_of_N (48 + d)) = false.
Proof.
  intros d Hd0 Hd9. apply Ascii.eqb_neq. intros H.
  apply (f_equal N_of_ascii) in H. rewrite (dec_char d Hd9) in H.
  assert (H0 : N_of_ascii "0" = 48%N) by reflexivity. rewrite H0 in H. lia.
Qed.

Lemma starts_with_0_cons : forall p a r,
  Ascii.eqb "0" a = false -> starts_with (String "0" p) (String a r) = false.
Proof. intros p a r H. cbn [starts_with]. rewrite H. reflexivity. Qed.

(** a printed decimal is never taken for an octal or a hexadecimal constant *)
Theorem parse_c_int_print_dec : forall n, (n < 2 ^ 63)%N -> parse_c_int (print_dec n) = Some n.
Proof.
  intros n Hn. change (2 ^ 63)%N with 9223372036854775808%N in Hn.
  pose proof (parse_radix_print_dec n) as Hp.
  destruct (N.eq_dec n 0) as [Hz|Hnz].
  - subst n. reflexivity.
  - destruct (print_dec_pos n) as [d [r [Hs [Hd0 Hd9]]]]; [lia|].
    pose proof (lead_not_zero d Hd0 Hd9) as Hne.
    rewrite Hs in Hp. rewrite Hs. unfold parse_c_int.
    rewrite !(starts_with_0_cons _ _ _ Hne). rewrite andb_false_r. cbn [orb].
    unfold parse_radix. rewrite Hp.
    replace ((n <? 9223372036854775808)%N) with true by (symmetry; apply N.ltb_lt; exact Hn).
    reflexivity.
Qed.
Print Assumptions parse_c_int_print_dec.

(** ** terms *)

Lemma take_word_stop : forall rest, boundary_after rest = true -> take_word rest = ("", rest).
Proof.
  intros rest Hb. destruct rest as [|a r]; [reflexivity|].
  simpl in *. apply negb_true_iff in Hb. rewrite Hb. reflexivity.
Qed.

Lemma digit_is_word : forall a, is_digit a = true -> is_word a = true.
Proof. intros a H. unfold is_word, is_ident_char. rewrite H. reflexivity. Qed.

Lemma digit_not_ws : forall a, is_digit a = true -> is_ws a = false.
Proof.
  intros a H. unfold is_digit in H. unfold is_ws. cbv zeta in *.
  apply andb_true_iff in H. destruct H as [H1 H2].
  apply N.leb_le in H1. apply N.leb_le in H2.
  apply orb_false_iff. split.
  - apply N.eqb_neq. lia.
  - apply andb_false_iff. right. apply N.leb_gt. lia.
Qed.

Lemma take_word_digits : forall s rest,
  all_chars is_digit s = true -> boundary_after rest = true -> take_word (s ++ rest) = (s, rest).
Proof.
  induction s as [|a s IHs]; intros rest Hs Hb.
  - exact (take_word_stop rest Hb).
  - cbn [all_chars] in Hs. apply andb_true_iff in Hs. destruct Hs as [Ha Hs].
    cbn [append take_word]. rewrite (digit_is_word a Ha), (IHs rest Hs Hb). reflexivity.
Qed.

(** a decimal constant below 2^63 followed by a word boundary evaluates to its value *)
Lemma eval_term_dec : forall n rest, (n < 2 ^ 63)%N -> boundary_after rest = true ->
  eval_term (print_dec n ++ rest) = IvOk n rest.
Proof.
  intros n rest Hn Hb.
  destruct (print_dec_shape n) as [a [w [Hs Ha]]].
  pose proof (print_dec_all_digits n) as Hall.
  pose proof (parse_c_int_print_dec n Hn) as Hp.
  rewrite Hs in Hall, Hp. rewrite Hs. unfold eval_term. cbv zeta.
  cbn [append trim_start]. rewrite (digit_not_ws a Ha).
  change (String a (w ++ rest)) with (String a w ++ rest).
  rewrite (take_word_digits _ rest Hall Hb). cbv beta iota.
  rewrite Ha, Hp. reflexivity.
Qed.

Lemma eval_term_0 : forall rest, boundary_after rest = true -> eval_term ("0" ++ rest) = IvOk 0 rest.
Proof. intros rest Hb. exact (eval_term_dec 0 rest eq_refl Hb). Qed.

Lemma eval_term_1 : forall rest, boundary_after rest = true -> eval_term ("1" ++ rest) = IvOk 1 rest.
Proof. intros rest Hb. exact (eval_term_dec 1 rest eq_refl Hb). Qed.

(** ** the numeric expression language: constants, prefix !, infix == (left associative) *)
Inductive uexp_n := UNum (n : N) | UNotN (u : uexp_n).
Inductive nexp := NU (u : uexp_n) | NEq (e : nexp) (u : uexp_n).     (* e == u *)

Fixpoint print_un (u : uexp_n) : string :=
  match u with
  | UNum n => print_dec n
  | UNotN u' => "!" ++ print_un u'
  end.
Fixpoint print_n (e : nexp) : string :=
  match e with
  | NU u => print_un u
  | NEq e' u => print_n e' ++ " == " ++ print_un u
  end.

(** the C value: [!x] is 1 when x is 0, else 0; [a == b] is 1 when equal, else 0 *)
Fixpoint value_un (u : uexp_n) : N :=
  match u with
  | UNum n => n
  | UNotN u' => b2n (N.eqb (value_un u') 0)
  end.
Fixpoint value_n (e : nexp) : N :=
  match e with
  | NU u => value_un u
  | NEq e' u => b2n (N.eqb (value_n e') (value_un u))
  end.

(** every constant fits an i64 *)
Fixpoint small_un (u : uexp_n) : Prop :=
  match u with
  | UNum n => (n < 2 ^ 63)%N
  | UNotN u' => small_un u'
  end.
Fixpoint small_n (e : nexp) : Prop :=
  match e with
  | NU u => small_un u
  | NEq e' u => small_n e' /\ small_un u
  end.

(** what the pending [!]s do to a value *)
Definition apply_nots (ns : option bool) (v : N) : N :=
  match ns with
  | None => v
  | Some true => b2n (N.eqb v 0)
  | Some false => b2n (negb (N.eqb v 0))
  end.

Fixpoint nots_n (u : uexp_n) : nat :=
  match u with UNotN u' => S (nots_n u') | UNum _ => O end.

Lemma print_un_length : forall u, nots_n u < String.length (print_un u).
Proof.
  induction u as [n|u IHu].
  - cbn [nots_n print_un]. destruct (print_dec_shape n) as [a [w [Hs _]]]. rewrite Hs.
    cbn [String.length]. lia.
  - cbn [nots_n print_un append String.length]. lia.
Qed.

Lemma eval_unary_digit : forall f a r ns, is_digit a = true ->
  eval_unary (S f) (String a r) ns =
  match eval_term (String a r) with
  | IvOk v rest => IvOk (apply_nots ns v) rest
  | err => err
  end.
Proof.
  intros f [b0 b1 b2 b3 b4 b5 b6 b7] r ns Hd.
  destruct b0, b1, b2, b3, b4, b5, b6, b7;
    try (exfalso; vm_compute in Hd; discriminate Hd); reflexivity.
Qed.

Lemma eval_unary_print_n : forall u fuel ns rest,
    small_un u -> boundary_after rest = true -> nots_n u < fuel ->
    eval_unary fuel (print_un u ++ rest) ns = IvOk (apply_nots ns (value_un u)) rest.
Proof.
  induction u as [n|u IHu]; intros fuel ns rest Hs Hb Hf;
    (destruct fuel as [|f]; [cbn [nots_n] in Hf; lia|]).
  - cbn [print_un small_un value_un] in *.
    destruct (print_dec_shape n) as [a [w [Hsh Ha]]].
    pose proof (eval_term_dec n rest Hs Hb) as Ht.
    rewrite Hsh in Ht. rewrite Hsh. cbn [append] in *.
    rewrite (eval_unary_digit f a _ ns Ha), Ht. reflexivity.
  - cbn [print_un value_un small_un nots_n] in *.
    change (eval_unary (S f) (("!" ++ print_un u) ++ rest) ns)
      with (eval_unary f (print_un u ++ rest)
                       (match ns with None => Some true | Some odd => Some (negb odd) end)).
    rewrite (IHu f _ rest Hs Hb) by lia.
    f_equal. unfold apply_nots.
    destruct ns as [[|]|]; cbn [negb]; destruct (N.eqb (value_un u) 0); reflexivity.
Qed.

(** ** chains of == *)
Fixpoint head_n (e : nexp) : uexp_n :=
  match e with NU u => u | NEq e' _ => head_n e' end.
Fixpoint chain_n (e : nexp) : string :=
  match e with NU _ => "" | NEq e' u => chain_n e' ++ " == " ++ print_un u end.
Fixpoint fold_val_n (e : nexp) (r : N) : N :=
  match e with NU _ => r | NEq e' u => b2n (N.eqb (fold_val_n e' r) (value_un u)) end.
Fixpoint neqs_n (e : nexp) : nat :=
  match e with NU _ => O | NEq e' _ => S (neqs_n e') end.

Lemma print_chain_n : forall e, print_n e = print_un (head_n e) ++ chain_n e.
Proof.
  induction e as [u|e IHe u]; cbn [print_n head_n chain_n].
  - rewrite app_empty_r. reflexivity.
  - rewrite IHe, app_assoc_s. reflexivity.
Qed.

Lemma value_fold_n : forall e, value_n e = fold_val_n e (value_un (head_n e)).
Proof.
  induction e as [u|e IHe u]; cbn [value_n fold_val_n head_n]; [reflexivity | rewrite IHe; reflexivity].
Qed.

Lemma small_head_n : forall e, small_n e -> small_un (head_n e).
Proof.
  induction e as [u|e IHe u]; cbn [small_n head_n]; intros Hs; [exact Hs|].
  destruct Hs as [Hse _]. exact (IHe Hse).
Qed.

Lemma chain_boundary_n : forall e x, boundary_after x = true -> boundary_after (chain_n e ++ x) = true.
Proof.
  induction e as [u|e IHe u]; intros x Hx; cbn [chain_n]; [exact Hx|].
  rewrite app_assoc_s. apply IHe. reflexivity.
Qed.

Lemma chain_length_n : forall e, neqs_n e <= String.length (chain_n e).
Proof.
  induction e as [u|e IHe u]; cbn [neqs_n chain_n]; [cbn [String.length]; lia|].
  rewrite length_app_s. cbn [append String.length]. lia.
Qed.

Lemma eq_loop_chain_n : forall e fuel r rest,
    small_n e -> boundary_after rest = true -> neqs_n e < fuel ->
    eval_eq_loop fuel r (chain_n e ++ rest) = eval_eq_loop (fuel - neqs_n e) (fold_val_n e r) rest.
Proof.
  induction e as [u|e IHe u]; intros fuel r rest Hs Hb Hf.
  - cbn [chain_n neqs_n fold_val_n append]. rewrite Nat.sub_0_r. reflexivity.
  - cbn [small_n] in Hs. destruct Hs as [Hse Hsu]. cbn [neqs_n] in Hf.
    cbn [chain_n]. rewrite !app_assoc_s.
    rewrite (IHe fuel r (" == " ++ print_un u ++ rest) Hse eq_refl) by lia.
    destruct (fuel - neqs_n e) as [|f'] eqn:Hfu; [lia|].
    replace (fuel - neqs_n (NEq e u)) with f' by (cbn [neqs_n]; lia).
    change (eval_eq_loop (S f') (fold_val_n e r) (" == " ++ print_un u ++ rest))
      with (match eval_unary (S (String.length ("== " ++ print_un u ++ rest)))
                             (print_un u ++ rest) None with
            | IvOk v rest0 => eval_eq_loop f' (b2n (N.eqb (fold_val_n e r) v)) rest0
            | err => err
            end).
    rewrite (eval_unary_print_n u _ None rest Hsu Hb).
    + reflexivity.
    + cbn [append String.length]. rewrite length_app_s.
      pose proof (print_un_length u) as Hl. lia.
Qed.

Lemma eval_eq_loop_end : forall k r, eval_eq_loop (S k) r "" = IvOk r "".
Proof. reflexivity. Qed.

(** the evaluator is C's on constants below 2^63 (printed in decimal), ! and == *)
Theorem evaluate_int_correct : forall e : nexp,
    small_n e -> evaluate (print_n e) = EvOk (negb (N.eqb (value_n e) 0)) "".
Proof.
  intros e Hs. unfold evaluate. rewrite print_chain_n.
  rewrite (eval_unary_print_n (head_n e) _ None (chain_n e)).
  - rewrite <- (app_empty_r (chain_n e)) at 2.
    rewrite (eq_loop_chain_n e _ _ "" Hs eq_refl).
    + pose proof (chain_length_n e) as Hl.
      destruct (S (String.length (chain_n e)) - neqs_n e) as [|k] eqn:Hk; [lia|].
      rewrite eval_eq_loop_end, value_fold_n. reflexivity.
    + pose proof (chain_length_n e) as Hl. lia.
  - exact (small_head_n e Hs).
  - rewrite <- (app_empty_r (chain_n e)). apply chain_boundary_n. reflexivity.
  - rewrite length_app_s. pose proof (print_un_length (head_n e)) as Hl. lia.
Qed.
Print Assumptions evaluate_int_correct.

(** non-vacuity: a chain with every construct *)
Example evaluate_int_example :
  small_n (NEq (NEq (NU (UNotN (UNotN (UNum 2)))) (UNum 1)) (UNotN (UNum 9223372036854775807)))
  /\ print_n (NEq (NEq (NU (UNotN (UNotN (UNum 2)))) (UNum 1)) (UNotN (UNum 9223372036854775807)))
     = "!!2 == 1 == !9223372036854775807"
  /\ value_n (NEq (NEq (NU (UNotN (UNotN (UNum 2)))) (UNum 1)) (UNotN (UNum 9223372036854775807)))
     = 0%N.
Proof. vm_compute. repeat split; reflexivity. Qed.
Print Assumptions evaluate_int_example.

(** numbers are C integer constants: any non-zero value holds, == compares values, ! gives 0 or 1,
    hexadecimal and octal constants are read as such, malformed ones are rejected *)
Example evaluate_numbers :
  evaluate "2" = EvOk true "" /\ evaluate "2 == 3" = EvOk false ""
  /\ evaluate "!2" = EvOk false "" /\ evaluate "!!2 == 1" = EvOk true ""
  /\ evaluate "0x10 == 16" = EvOk true "" /\ evaluate "010 == 8" = EvOk true ""
  /\ evaluate "08" = EvErr "Invalid number"
  /\ evaluate "9223372036854775807" = EvOk true ""
  /\ evaluate "9223372036854775808" = EvErr "Invalid number".
Proof. vm_compute. repeat split; reflexivity. Qed.
Print Assumptions evaluate_numbers.

(** * The #if evaluator on 0 / 1 / ! / == : the boolean reading coincides with C's *)
Fixpoint nots (u : uexp) : nat :=
  match u with UNot u' => S (nots u') | _ => O end.

Lemma print_u_length : forall u, String.length (print_u u) = S (nots u).
Proof. induction u as [| |u IHu]; simpl; [reflexivity | reflexivity | rewrite IHu; reflexivity]. Qed.

(** the boolean language inside the numeric one *)
Fixpoint u2n (u : uexp) : uexp_n :=
  match u with U0 => UNum 0 | U1 => UNum 1 | UNot u' => UNotN (u2n u') end.
Fixpoint b2ne (e : bexp) : nexp :=
  match e with BU u => NU (u2n u) | BEq e' u => NEq (b2ne e') (u2n u) end.

Lemma print_u2n : forall u, print_un (u2n u) = print_u u.
Proof.
  induction u as [| |u IHu]; [reflexivity | reflexivity |].
  cbn [u2n print_un print_u]. rewrite IHu. reflexivity.
Qed.

Lemma print_b2ne : forall e, print_n (b2ne e) = print e.
Proof.
  induction e as [u|e IHe u]; cbn [b2ne print_n print].
  - apply print_u2n.
  - rewrite IHe, print_u2n. reflexivity.
Qed.

Lemma value_u2n : forall u, value_un (u2n u) = b2n (value_u u).
Proof.
  induction u as [| |u IHu]; [reflexivity | reflexivity |].
  cbn [u2n value_un value_u]. rewrite IHu. destruct (value_u u); reflexivity.
Qed.

Lemma value_b2ne : forall e, value_n (b2ne e) = b2n (value e).
Proof.
  induction e as [u|e IHe u]; cbn [b2ne value_n value].
  - apply value_u2n.
  - rewrite IHe, value_u2n. destruct (value e), (value_u u); reflexivity.
Qed.

Lemma small_u2n : forall u, small_un (u2n u).
Proof. induction u as [| |u IHu]; [reflexivity | reflexivity | exact IHu]. Qed.

Lemma small_b2ne : forall e, small_n (b2ne e).
Proof.
  induction e as [u|e IHe u]; cbn [b2ne small_n]; [apply small_u2n|].
  split; [exact IHe | apply small_u2n].
Qed.

Lemma nots_u2n : forall u, nots_n (u2n u) = nots u.
Proof. induction u as [| |u IHu]; [reflexivity | reflexivity | cbn [u2n nots_n nots]; rewrite IHu; reflexivity]. Qed.

Lemma eval_unary_print : forall u fuel ns rest,
    boundary_after rest = true -> nots u < fuel ->
    eval_unary fuel (print_u u ++ rest) ns = IvOk (apply_nots ns (b2n (value_u u))) rest.
Proof.
  intros u fuel ns rest Hb Hf. rewrite <- print_u2n, <- value_u2n.
  apply eval_unary_print_n; [apply small_u2n | exact Hb | rewrite nots_u2n; exact Hf].
Qed.

Fixpoint head_u (e : bexp) : uexp :=
  match e with BU u => u | BEq e' _ => head_u e' end.
Fixpoint chain (e : bexp) : string :=
  match e with BU _ => "" | BEq e' u => chain e' ++ " == " ++ print_u u end.
Fixpoint fold_val (e : bexp) (r : bool) : bool :=
  match e with BU _ => r | BEq e' u => Bool.eqb (fold_val e' r) (value_u u) end.
Fixpoint neqs (e : bexp) : nat :=
  match e with BU _ => O | BEq e' _ => S (neqs e') end.

Lemma print_chain : forall e, print e = print_u (head_u e) ++ chain e.
Proof.
  induction e as [u|e IHe u]; simpl.
  - rewrite app_empty_r. reflexivity.
  - rewrite IHe, app_assoc_s. reflexivity.
Qed.

Lemma value_fold : forall e, value e = fold_val e (value_u (head_u e)).
Proof. induction e as [u|e IHe u]; simpl; [reflexivity | rewrite IHe; reflexivity]. Qed.

Lemma chain_boundary : forall e x, boundary_after x = true -> boundary_after (chain e ++ x) = true.
Proof.
  induction e as [u|e IHe u]; intros x Hx; simpl chain; [exact Hx|].
  rewrite app_assoc_s. apply IHe. reflexivity.
Qed.

Lemma chain_length : forall e, neqs e <= String.length (chain e).
Proof.
  induction e as [u|e IHe u]; simpl; [lia|].
  rewrite length_app_s. simpl. lia.
Qed.

Lemma chain_b2ne : forall e, chain_n (b2ne e) = chain e.
Proof.
  induction e as [u|e IHe u]; cbn [b2ne chain_n chain]; [reflexivity|].
  rewrite IHe, print_u2n. reflexivity.
Qed.

Lemma neqs_b2ne : forall e, neqs_n (b2ne e) = neqs e.
Proof. induction e as [u|e IHe u]; cbn [b2ne neqs_n neqs]; [reflexivity | rewrite IHe; reflexivity]. Qed.

Lemma fold_val_b2ne : forall e r, fold_val_n (b2ne e) (b2n r) = b2n (fold_val e r).
Proof.
  induction e as [u|e IHe u]; intros r; cbn [b2ne fold_val_n fold_val]; [reflexivity|].
  rewrite IHe, value_u2n. destruct (fold_val e r), (value_u u); reflexivity.
Qed.

Lemma eq_loop_chain : forall e fuel r rest,
    boundary_after rest = true -> neqs e < fuel ->
    eval_eq_loop fuel (b2n r) (chain e ++ rest) = eval_eq_loop (fuel - neqs e) (b2n (fold_val e r)) rest.
Proof.
  intros e fuel r rest Hb Hf.
  rewrite <- chain_b2ne, <- neqs_b2ne, <- fold_val_b2ne.
  apply eq_loop_chain_n; [apply small_b2ne | exact Hb | rewrite neqs_b2ne; exact Hf].
Qed.

Theorem evaluate_bool_correct : forall e : bexp, evaluate (print e) = EvOk (value e) "".
Proof.
  intros e. rewrite <- print_b2ne, (evaluate_int_correct (b2ne e) (small_b2ne e)), value_b2ne.
  destruct (value e); reflexivity.
Qed.
Print Assumptions evaluate_bool_correct.

(** conditions printed from the little expression language are legal conditions of a tree *)
Lemma print_u_edge : forall u, edge_ok (print_u u) = true /\ edge_ok (rev_string (print_u u)) = true
                               /\ all_chars arg_char (print_u u) = true.
Proof.
  induction u as [| |u [IH1 [IH2 IH3]]]; [repeat split | repeat split |].
  split; [reflexivity|]. split.
  - change (print_u (UNot u)) with ("!" ++ print_u u).
    rewrite rev_string_app. apply edge_ok_app. exact IH2.
  - simpl. exact IH3.
Qed.

Lemma print_arg_ok : forall e, arg_ok (print e) = true.
Proof.
  assert (H : forall e, edge_ok (print e) = true /\ edge_ok (rev_string (print e)) = true
                        /\ all_chars arg_char (print e) = true).
  { induction e as [u|e [IH1 [IH2 IH3]] u]; [exact (print_u_edge u)|].
    destruct (print_u_edge u) as [U1 [U2 U3]]. cbn [print]. split; [|split].
    - apply edge_ok_app. exact IH1.
    - rewrite <- app_assoc_s, rev_string_app. apply edge_ok_app. exact U2.
    - rewrite !all_chars_app, IH3, U3. reflexivity. }
  intros e. destruct (H e) as [H1 [H2 H3]]. unfold arg_ok, tight. rewrite H1, H2, H3. reflexivity.
Qed.

Theorem print_cond_ok : forall e,
    cond_ok (print e) = true /\ cond_value (print e) = Some (value e) /\ cond_true (print e) = value e.
Proof.
  intros e. unfold cond_ok, cond_true, cond_value.
  rewrite evaluate_bool_correct, print_arg_ok. repeat split.
Qed.
Print Assumptions print_cond_ok.

(** * Directives and lines in unselected regions have no effect *)

(** #define and #undef are dispatched before macro substitution: whatever the macros *)
Lemma line_step_define_undef : forall rec fs fname inc asm ms sc o mp st stk line l,
    sc_in_comment sc = false ->
    one_line l = true -> text_ok l = true ->
    is_directive "#define" (trim l) || is_directive "#undef" (trim l) = true ->
    st <> Active ->
    line_step rec fs fname inc asm (mkP (mkCtx ms sc) o mp st stk) line l =
    POk (mkP (mkCtx ms sc) o mp st stk).
Proof.
  intros rec fs fname inc asm ms sc o mp st stk line l Hc H1 Ht Hd Hst.
  destruct (one_line_inv l H1) as [Hnl Hne].
  destruct (text_ok_inv l Ht) as [Hq [Hsl [Hop Hbs]]].
  pose proof (not_active st Hst) as Hna.
  assert (Hhb : hash_blanks l = l).
  { pose proof Hd as Hd'. apply orb_true_iff in Hd'; destruct Hd' as [Hd'|Hd'];
      (eapply hash_blanks_directive; [|exact Hd']; reflexivity). }
  unfold line_step; cbn [p_ctx c_scan];
    rewrite (scan_line_plain asm _ _ Hc Hne Hq Hsl Hop);
    unfold line_body, set_scan, set_state, emit;
    cbn [negb p_ctx p_state p_stack p_out p_map c_macros c_scan].
  rewrite !Hhb, Hna.
  apply orb_true_iff in Hd; destruct Hd as [Hd|Hd];
    apply is_directive_inv in Hd; destruct Hd as [Hd|[z Hd]]; rewrite Hd; reflexivity.
Qed.

Theorem inactive_define_undef_inert : forall rec fs fname inc asm p line l,
    one_line l = true -> text_ok l = true ->
    is_directive "#define" (trim l) || is_directive "#undef" (trim l) = true ->
    sc_in_comment (c_scan (p_ctx p)) = false ->
    p_state p <> Active ->
    line_step rec fs fname inc asm p line l = POk p.
Proof.
  intros rec fs fname inc asm p line l H1 Ht Hd Hc Hst.
  destruct p as [[ms sc] o mp st stk]. cbn [p_ctx c_scan p_state] in *.
  apply line_step_define_undef; assumption.
Qed.
Print Assumptions inactive_define_undef_inert.

(** general form: ordinary lines and #define / #undef / #include / #error lines, outside an
    Active region, with the scanner not in a comment, leave the whole state unchanged --
    provided macro substitution does not rewrite the line (always so when no macro is defined,
    [replace_all_c_nil]; see [inactive_not_inert_with_macros] for why this is needed) *)
Theorem inactive_is_inert : forall rec fs fname inc asm p line l,
    plain_ok l = true \/ inert_ok l = true ->
    sc_in_comment (c_scan (p_ctx p)) = false ->
    replace_all_c (c_macros (p_ctx p)) l = l ->
    p_state p <> Active ->
    line_step rec fs fname inc asm p line l = POk p.
Proof.
  intros rec fs fname inc asm p line l Hl Hc Hrep Hst.
  destruct p as [[ms sc] o mp st stk]. cbn [p_ctx c_scan c_macros p_state] in *.
  destruct Hl as [Hl|Hl].
  - rewrite (line_step_plain rec fs fname inc asm ms sc o mp st stk line l Hc Hl Hrep).
    rewrite (not_active st Hst). reflexivity.
  - apply line_step_inert; assumption.
Qed.
Print Assumptions inactive_is_inert.

Corollary inactive_is_inert_no_macros : forall rec fs fname inc asm p line l,
    plain_ok l = true \/ inert_ok l = true ->
    sc_in_comment (c_scan (p_ctx p)) = false ->
    c_macros (p_ctx p) = [] ->
    p_state p <> Active ->
    line_step rec fs fname inc asm p line l = POk p.
Proof.
  intros rec fs fname inc asm p line l Hl Hc Hms Hst.
  apply inactive_is_inert; try assumption. rewrite Hms. apply replace_all_c_nil.
Qed.
Print Assumptions inactive_is_inert_no_macros.

(** Without the substitution hypothesis the statement is false: the model (like the code)
    substitutes macros in skipped lines too and then looks for a directive in the result.
    With [x] defined as [#endif], the ordinary line "x" inside a skipped region closes the
    group, and a skipped [#include] / [#error] line is rewritten before being recognised.
    (With [x] defined as [#bogus] the line used to be a syntax error although the region is
    skipped; since the repair an unknown directive in a region that is not selected is ignored:
    Proofs/SkipFacts.v.) *)
Example inactive_not_inert_with_macros :
  let rec := fun (_ : string) (_ : option (string * N)) (_ : bool) (_ : list string) (p : pstate) => POk p in
  let p ms := mkP (mkCtx ms (mkScan false 0 [])) "" [] Skip [Active] in
  plain_ok ("x" ++ nl) = true
  /\ line_step rec [] "f.c" None false (p [("x", MObj "#endif")]) 1 ("x" ++ nl)
     = POk (mkP (mkCtx [("x", MObj "#endif")] (mkScan false 0 [])) "" [] Active [])
  /\ line_step rec [] "f.c" None false (p [("x", MObj "#bogus")]) 1 ("x" ++ nl)
     = POk (p [("x", MObj "#bogus")])
  /\ inert_ok ("#error boom" ++ nl) = true
  /\ line_step rec [] "f.c" None false (p [("error", MObj "else")]) 1 ("#error boom" ++ nl)
     = PErr (mkErr ESyntax "f.c" 1 None "Unexpected expression after `#else`").
Proof. vm_compute. repeat split. Qed.
Print Assumptions inactive_not_inert_with_macros.

(** Why string literals are excluded from the lines considered here: the scanner runs before
    the conditional state is looked at, so a skipped line containing a string literal still
    registers the literal (the counter advances), although nothing is emitted. *)
Example skipped_line_with_literal_changes_scanner :
  let rec := fun (_ : string) (_ : option (string * N)) (_ : bool) (_ : list string) (p : pstate) => POk p in
  line_step rec [] "f.c" None false (mkP (mkCtx [] (mkScan false 0 [])) "" [] Skip [Active]) 1
            ("puts(""hi"");" ++ nl)
  = POk (mkP (mkCtx [] (mkScan false 1 ["hi"])) "" [] Skip [Active]).
Proof. vm_compute. reflexivity. Qed.
Print Assumptions skipped_line_with_literal_changes_scanner.

(** * The tree type with branches given as lists ([group]): the same functions, unfolded *)
Lemma flatten_tail_mk : forall elifs els,
    flatten_tail (mk_tail elifs els) =
    (flat_map (fun cb => elif_line (fst cb) :: flatten (snd cb)) elifs
     ++ match els with Some b => else_line :: flatten b | None => [] end
     ++ [endif_line])%list.
Proof.
  induction elifs as [|[c b] r IHr]; intros els.
  - destruct els as [b|]; reflexivity.
  - cbn [mk_tail flatten_tail flat_map fst snd]. rewrite IHr.
    rewrite <- !app_assoc. reflexivity.
Qed.

Lemma flatten_group : forall h body elifs els,
    flatten_item (group h body elifs els) =
    (head_line h :: flatten body
     ++ flat_map (fun cb => elif_line (fst cb) :: flatten (snd cb)) elifs
     ++ match els with Some b => else_line :: flatten b | None => [] end
     ++ [endif_line])%list.
Proof.
  intros h body elifs els. unfold group. cbn [flatten_item]. rewrite flatten_tail_mk. reflexivity.
Qed.

(** the selected branch: the first whose condition holds, else #else, else nothing *)
Fixpoint first_true (branches : list (bool * list item)) (els : option (list item)) : list item :=
  match branches with
  | (true, b) :: _ => b
  | (false, _) :: r => first_true r els
  | [] => match els with Some b => b | None => [] end
  end.

Lemma active_tail_mk : forall elifs els,
    active_tail (mk_tail elifs els) =
    spec_active (first_true (map (fun cb => (cond_true (fst cb), snd cb)) elifs) els).
Proof.
  induction elifs as [|[c b] r IHr]; intros els.
  - destruct els; reflexivity.
  - cbn [mk_tail active_tail map first_true fst snd]. rewrite IHr.
    destruct (cond_true c); reflexivity.
Qed.

Lemma active_group : forall h body elifs els,
    active_item (group h body elifs els) =
    spec_active (first_true ((head_true h, body)
                             :: map (fun cb => (cond_true (fst cb), snd cb)) elifs) els).
Proof.
  intros h body elifs els. unfold group. cbn [active_item first_true]. rewrite active_tail_mk.
  destruct (head_true h); reflexivity.
Qed.
Print Assumptions flatten_group.
Print Assumptions active_group.
