(* Driver of the extracted C-subset semantics.

   input records:
     @cprog <id>
     var <name> <u8|s8|u16|s16> <len|-> <const 0|1>
     func <name> <ret|-> <param>* ; followed by one line:  body <sexpr>
     main <sexpr>
     init <name> <idx> <val>          base store (const tables)
     watch <name>:<idx> ...
     fuel <n>
     state <name>:<idx>=<val> ...
     @end
   output per state:
     @crun <id> <k> <ok|undecided|unsupported:<hex>|fuel> | v1 v2 ... | ev ev ...
*)
open Csem_model

let rec pos_of_int i =
  if i = 1 then XH else if i land 1 = 0 then XO (pos_of_int (i lsr 1)) else XI (pos_of_int (i lsr 1))
let n_of_int i = if i <= 0 then N0 else Npos (pos_of_int i)
let z_of_int i = if i = 0 then Z0 else if i > 0 then Zpos (pos_of_int i) else Zneg (pos_of_int (-i))
let rec int_of_pos = function XH -> 1 | XO p -> 2 * int_of_pos p | XI p -> 2 * int_of_pos p + 1
let int_of_z = function Z0 -> 0 | Zpos p -> int_of_pos p | Zneg p -> - (int_of_pos p)
let rec nat_of_int i acc = if i <= 0 then acc else nat_of_int (i - 1) (S acc)
let explode (s : string) : char list = List.init (String.length s) (String.get s)
let implode l = let b = Buffer.create 16 in List.iter (Buffer.add_char b) l; Buffer.contents b
let unhex s =
  if s = "-" then "" else
  String.init (String.length s / 2) (fun i -> Char.chr (int_of_string ("0x" ^ String.sub s (2 * i) 2)))
let hex s =
  if s = "" then "-" else begin
    let b = Buffer.create (2 * String.length s) in
    String.iter (fun c -> Buffer.add_string b (Printf.sprintf "%02x" (Char.code c))) s;
    Buffer.contents b end

(* ---- s-expressions *)
type sx = A of string | L of sx list

let parse_sx (s : string) : sx =
  let n = String.length s in
  let pos = ref 0 in
  let rec skip () = while !pos < n && (s.[!pos] = ' ' || s.[!pos] = '\n') do incr pos done
  and item () =
    skip ();
    if !pos >= n then failwith "sexpr: eof"
    else if s.[!pos] = '(' then begin
      incr pos;
      let acc = ref [] in
      skip ();
      while !pos < n && s.[!pos] <> ')' do acc := item () :: !acc; skip () done;
      incr pos;
      L (List.rev !acc)
    end else begin
      let st = !pos in
      while !pos < n && s.[!pos] <> ' ' && s.[!pos] <> '(' && s.[!pos] <> ')' do incr pos done;
      A (String.sub s st (!pos - st))
    end in
  item ()

let binop_of = function
  | "+" -> Add | "-" -> Sub | "&" -> BAnd | "|" -> BOr | "^" -> BXor | "<<" -> Shl | ">>" -> Shr
  | "*" -> Mul | "/" -> Div | "==" -> OEq | "!=" -> ONe | "<" -> OLt | "<=" -> OLe | ">" -> OGt
  | ">=" -> OGe | "&&" -> LAnd | "||" -> LOr | x -> failwith ("binop " ^ x)

let rec expr_of (x : sx) : expr =
  match x with
  | L [A "num"; A n] -> ENum (z_of_int (int_of_string n))
  | L [A "var"; A v] -> EVar (explode v)
  | L [A "idx"; A a; i] -> EIdx (explode a, expr_of i)
  | L [A "addr"; A v] -> EAddr (explode v)
  | L [A "bin"; A op; l; r] -> EBin (binop_of op, expr_of l, expr_of r)
  | L [A "un"; A op; e] ->
      EUn ((match op with "-" -> Neg | "~" -> BNot | "!" -> LNot | x -> failwith ("unop " ^ x)), expr_of e)
  | L [A "inc"; A k; lv] ->
      EInc ((match k with "++x" -> PreInc | "x++" -> PostInc | "--x" -> PreDec | "x--" -> PostDec
                        | x -> failwith ("inc " ^ x)), expr_of lv)
  | L [A "asg"; A op; lv; e] ->
      let o = if op = "=" then None else Some (binop_of (String.sub op 0 (String.length op - 1))) in
      EAsg (o, expr_of lv, expr_of e)
  | L (A "call" :: A f :: args) -> ECall (explode f, List.map expr_of args)
  | L [A "tern"; c; a; b] -> ETern (expr_of c, expr_of a, expr_of b)
  | _ -> failwith "expr"

let opt_expr = function A "_" -> None | x -> Some (expr_of x)

let rec stmt_of (x : sx) : stmt =
  match x with
  | L [A "expr"; e] -> SExpr (expr_of e)
  | L [A "if"; c; s] -> SIf (expr_of c, stmt_of s, None)
  | L [A "if"; c; s; e] -> SIf (expr_of c, stmt_of s, Some (stmt_of e))
  | L [A "while"; c; s] -> SWhile (expr_of c, stmt_of s)
  | L [A "do"; s; c] -> SDo (stmt_of s, expr_of c)
  | L [A "for"; i; c; u; s] -> SFor (opt_expr i, opt_expr c, opt_expr u, stmt_of s)
  | L (A "block" :: l) -> SBlock (List.map stmt_of l)
  | L (A "switch" :: e :: cases) ->
      let cs = ref [] and d = ref None in
      List.iter (function
          | L (L (A "case" :: vals) :: body) ->
              cs := (List.map (function A v -> z_of_int (int_of_string v) | _ -> failwith "case") vals,
                     List.map stmt_of body) :: !cs
          | L (A "default" :: body) -> d := Some (List.map stmt_of body)
          | _ -> failwith "switch") cases;
      SSwitch (expr_of e, List.rev !cs, !d)
  | L [A "break"] -> SBreak
  | L [A "continue"] -> SContinue
  | L [A "return"] -> SReturn None
  | L [A "return"; e] -> SReturn (Some (expr_of e))
  | L [A "load"; e] -> SLoad (expr_of e)
  | L [A "store"; e] -> SStore (expr_of e)
  | L [A "strobe"; A v] -> SStrobe (explode v)
  | L [A "csleep"; A n] -> SCsleep (z_of_int (int_of_string n))
  | L [A "asm"; A t] -> SAsm (explode (unhex t))
  | _ -> failwith "stmt"

let stmts_of x = match stmt_of x with SBlock l -> l | s -> [s]

let ty_of = function "u8" -> TU8 | "s8" -> TS8 | "u16" -> TU16 | "s16" -> TS16 | "ptr" -> TPtr | x -> failwith ("ty " ^ x)

type cp = {
  mutable id : string;
  mutable vars : (char list * vinfo) list;
  mutable funcs : func list;
  mutable pending : (string * cty option * string list) option;
  mutable main : stmt list;
  mutable init : (string * int * int) list;
  mutable watch : (string * int) list;
  mutable fuel : int;
  mutable steps : int;
  mutable states : (string * int * int) list list;
  mutable bad : string option;
}
let fresh () = { id = ""; vars = []; funcs = []; pending = None; main = []; init = []; watch = [];
                 fuel = 3000; steps = 20000; states = []; bad = None }

let split_cell c =
  match String.split_on_char ':' c with
  | [n; i] -> (n, int_of_string i)
  | _ -> failwith "cell"

let run (p : cp) =
  match p.bad with
  | Some m -> List.iteri (fun k _ -> Printf.printf "@crun %s %d bad:%s\n" p.id k (hex m)) (List.rev p.states)
  | None ->
    let prog = { p_vars = List.rev p.vars; p_funcs = List.rev p.funcs; p_main = p.main } in
    let fuel = nat_of_int p.fuel O in
    List.iteri (fun k st ->
        let tbl = Hashtbl.create 64 in
        let order = ref [] in
        let put (n, i, v) =
          if not (Hashtbl.mem tbl (n, i)) then order := (n, i) :: !order;
          Hashtbl.replace tbl (n, i) v in
        List.iter put (List.rev p.init);
        List.iter put st;
        let s0 : store =
          List.rev_map (fun (n, i) -> ((explode n, z_of_int i), z_of_int (Hashtbl.find tbl (n, i)))) !order in
        let tag, vals, tr =
          match (try run_main prog fuel (n_of_int p.steps) s0 with Stack_overflow -> Fuel) with
          | Ok s ->
              ("ok",
               (* a cell poisoned by store() has no C-level value: printed as the sentinel -999999 *)
               List.map (fun (n, i) ->
                   if poisoned s (explode n) (z_of_int i) then "-999999"
                   else string_of_int (int_of_z (sget s.st_mem (explode n) (z_of_int i)))) p.watch,
               List.map (function
                   | EvLoad v -> "load:" ^ string_of_int (int_of_z v)
                   | EvStore x -> "store:" ^ implode x
                   | EvStrobe x -> "strobe:" ^ implode x
                   | EvSleep n -> "csleep:" ^ string_of_int (int_of_z n)
                   | EvAsm t -> "asm:" ^ hex (implode t)) s.st_trace)
          | Undecided -> ("undecided", [], [])
          | Unsupported w -> ("unsupported:" ^ hex (implode w), [], [])
          | Fuel -> ("fuel", [], []) in
        Printf.printf "@crun %s %d %s | %s | %s\n" p.id k tag (String.concat " " vals) (String.concat " " tr))
      (List.rev p.states)

let () =
  let ic = open_in Sys.argv.(1) in
  let cur = ref (fresh ()) in
  (try
     while true do
       let l = input_line ic in
       let sp = String.index_opt l ' ' in
       let key, rest = match sp with
         | Some i -> (String.sub l 0 i, String.sub l (i + 1) (String.length l - i - 1))
         | None -> (l, "") in
       let p = !cur in
       (try
          match key with
          | "@cprog" -> cur := fresh (); (!cur).id <- rest
          | "@end" -> run p; cur := fresh ()
          | "var" ->
              (match String.split_on_char ' ' rest with
               | [n; t; len; c; addr] ->
                   p.vars <- (explode n, { v_ty = ty_of t;
                                           v_len = (if len = "-" then None else Some (z_of_int (int_of_string len)));
                                           v_const = (c = "1");
                                           v_addr = z_of_int (int_of_string addr) }) :: p.vars
               | _ -> failwith "var")
          | "func" ->
              (match String.split_on_char ' ' rest with
               | n :: r :: ps -> p.pending <- Some (n, (if r = "-" then None else Some (ty_of r)), List.filter (fun x -> x <> "") ps)
               | _ -> failwith "func")
          | "body" ->
              (match p.pending with
               | Some (n, r, ps) ->
                   p.funcs <- { f_name = explode n; f_params = List.map explode ps; f_ret = r;
                                f_body = stmts_of (parse_sx rest) } :: p.funcs;
                   p.pending <- None
               | None -> failwith "body without func")
          | "main" -> p.main <- stmts_of (parse_sx rest)
          | "init" ->
              (match String.split_on_char ' ' rest with
               | [n; i; v] -> p.init <- (n, int_of_string i, int_of_string v) :: p.init
               | _ -> failwith "init")
          | "watch" -> p.watch <- List.map split_cell (List.filter (fun x -> x <> "") (String.split_on_char ' ' rest))
          | "fuel" -> p.fuel <- int_of_string rest
          | "steps" -> p.steps <- int_of_string rest
          | "state" ->
              p.states <- (List.filter_map (fun c ->
                  if c = "" then None else
                  match String.split_on_char '=' c with
                  | [cell; v] -> let (n, i) = split_cell cell in Some (n, i, int_of_string v)
                  | _ -> None) (String.split_on_char ' ' rest)) :: p.states
          | _ -> ()
        with Failure m -> p.bad <- Some m)
     done
   with End_of_file -> ());
  close_in ic
