(** Statement templates of the code generator at -O0: for 39 C statement schemas over
    [unsigned char a,b,c; signed char sa,sb; unsigned short s,t,u; short ss,st;] the exact
    instruction sequence the compiler emits (mnemonic and operand text), as a function of the
    variable names (and of the local label for the three templates with a forward branch).
    16-bit variables are little-endian: low byte at [v], high byte at [v+1].

    The [Example]s at the end pin [template] to the listing, line for line (the listing itself
    is compared with the real compiler by a separate script).  Only the instances of the listing
    are pinned: the generalisations ([SShl8]/[SShr8] for a count other than 2/1, constants other
    than 5, 300, 1, 1000) are the obvious ones and are not claimed of the compiler. *)
From Coq Require Import String Ascii List Bool NArith ZArith.
From CC Require Import Base.Str Asm.Lines.
Import ListNotations.
Open Scope string_scope.
Open Scope list_scope.

Inductive schema :=
(* 8-bit *)
| SCopy8 (dst x : string)                 (* dst = x *)
| SAdd8 (dst x y : string)                (* dst = x + y *)
| SSub8 (dst x y : string)                (* dst = x - y *)
| SAnd8 (dst x y : string)                (* dst = x & y *)
| SOr8 (dst x y : string)                 (* dst = x | y *)
| SXor8 (dst x y : string)                (* dst = x ^ y *)
| SAddConst8 (dst x : string) (k : Z)     (* dst = x + k *)
| SInc8 (v : string)                      (* v++ *)
| SDec8 (v : string)                      (* v-- *)
| SAddAssign8 (v x : string)              (* v += x *)
| SSubAssign8 (v x : string)              (* v -= x *)
| SNeg8 (dst x : string)                  (* dst = -x *)
| SNot8 (dst x : string)                  (* dst = ~x *)
| SShl8 (dst x : string) (n : nat)        (* dst = x << n *)
| SShr8 (dst x : string) (n : nat)        (* dst = x >> n, unsigned *)
| SSar8_1 (dst x : string)                (* dst = x >> 1, signed char *)
| SLoadX (v : string)                     (* X = v *)
| SStoreX (v : string)                    (* v = X *)
| SStoreY (v : string)                    (* v = Y *)
| SLoadY (v : string)                     (* Y = v *)
(* 16-bit *)
| SCopy16 (dst x : string)                (* dst = x *)
| SAdd16 (dst x y : string)               (* dst = x + y *)
| SSub16 (dst x y : string)               (* dst = x - y *)
| SAnd16 (dst x y : string)               (* dst = x & y *)
| SOr16 (dst x y : string)                (* dst = x | y *)
| SInc16 (v lbl : string)                 (* v++ *)
| SDec16 (v lbl : string)                 (* v-- *)
| SAddConst16 (v : string) (k : Z)        (* v += k *)
| SSubConst16 (v : string) (k : Z)        (* v -= k *)
| SZext (dst x : string)                  (* dst16 = x8, unsigned char *)
| SSext (dst x lbl : string)              (* dst16 = x8, signed char *)
| SShl16_1 (v : string)                   (* v <<= 1 *)
| SShr16_1 (v : string)                   (* v >>= 1, unsigned *)
| SSar16_1 (v : string)                   (* v >>= 1, signed *)
| SAdd16_8 (dst x y : string)             (* dst16 = x16 + y8, unsigned char y *)
| SConst16 (v : string) (k : Z)           (* v = k *)
| SHiByte (dst x : string)                (* dst8 = x16 >> 8 *)
| SLoByte (dst x : string)                (* dst8 = x16 *)
| SShl16_8 (dst x : string).              (* dst16 = x16 << 8 *)

(** only mnemonic and operand text matter here *)
Definition ins (m : mnem) (op : string) : line := Ins (mkI m op 0 None 0 false).

(** the operand texts *)
Definition hi (v : string) : string := (v ++ "+1")%string.
Definition imm (k : Z) : string := ("#" ++ string_of_Z k)%string.

(** load, [op]erate with a second operand, store *)
Definition bin8 (op : mnem) (pre : list line) (dst x y : string) : code :=
  [ins LDA x] ++ pre ++ [ins op y; ins STA dst].
Definition bin16 (op : mnem) (pre : list line) (dst x y : string) : code :=
  [ins LDA x] ++ pre ++ [ins op y; ins STA dst; ins LDA (hi x); ins op (hi y); ins STA (hi dst)].

Definition template (t : schema) : code :=
  match t with
  | SCopy8 dst x => [ins LDA x; ins STA dst]
  | SAdd8 dst x y => bin8 ADC [ins CLC ""] dst x y
  | SSub8 dst x y => bin8 SBC [ins SEC ""] dst x y
  | SAnd8 dst x y => bin8 AND [] dst x y
  | SOr8 dst x y => bin8 ORA [] dst x y
  | SXor8 dst x y => bin8 EOR [] dst x y
  | SAddConst8 dst x k => bin8 ADC [ins CLC ""] dst x (imm k)
  | SInc8 v => [ins INC v]
  | SDec8 v => [ins DEC v]
  | SAddAssign8 v x => bin8 ADC [ins CLC ""] v v x
  | SSubAssign8 v x => bin8 SBC [ins SEC ""] v v x
  | SNeg8 dst x => bin8 SBC [ins SEC ""] dst (imm 0) x
  | SNot8 dst x => bin8 EOR [] dst x (imm 255)
  | SShl8 dst x n => [ins LDA x] ++ repeat (ins ASL "") n ++ [ins STA dst]
  | SShr8 dst x n => [ins LDA x] ++ repeat (ins LSR "") n ++ [ins STA dst]
  | SSar8_1 dst x => [ins LDA x; ins CMP (imm 128); ins ROR ""; ins STA dst]
  | SLoadX v => [ins LDX v]
  | SStoreX v => [ins STX v]
  | SStoreY v => [ins STY v]
  | SLoadY v => [ins LDY v]
  | SCopy16 dst x => [ins LDA x; ins STA dst; ins LDA (hi x); ins STA (hi dst)]
  | SAdd16 dst x y => bin16 ADC [ins CLC ""] dst x y
  | SSub16 dst x y => bin16 SBC [ins SEC ""] dst x y
  | SAnd16 dst x y => bin16 AND [] dst x y
  | SOr16 dst x y => bin16 ORA [] dst x y
  | SInc16 v lbl => [ins INC v; ins BNE lbl; ins INC (hi v); Lbl lbl]
  | SDec16 v lbl => [ins LDA v; ins BNE lbl; ins DEC (hi v); Lbl lbl; ins DEC v]
  | SAddConst16 v k =>
      [ins LDA v; ins CLC ""; ins ADC (imm (k mod 256)); ins STA v;
       ins LDA (hi v); ins ADC (imm (k / 256)); ins STA (hi v)]
  | SSubConst16 v k =>
      [ins LDA v; ins SEC ""; ins SBC (imm (k mod 256)); ins STA v;
       ins LDA (hi v); ins SBC (imm (k / 256)); ins STA (hi v)]
  | SZext dst x => [ins LDA x; ins STA dst; ins LDA (imm 0); ins STA (hi dst)]
  | SSext dst x lbl =>
      [ins LDA x; ins STA dst; ins LDA x; ins ORA (imm 127); ins BMI lbl; ins LDA (imm 0);
       Lbl lbl; ins STA (hi dst)]
  | SShl16_1 v => [ins ASL v; ins ROL (hi v)]
  | SShr16_1 v => [ins LSR (hi v); ins ROR v]
  | SSar16_1 v => [ins LDA (hi v); ins ASL ""; ins ROR (hi v); ins ROR v]
  | SAdd16_8 dst x y =>
      [ins LDA x; ins CLC ""; ins ADC y; ins STA dst; ins LDA (hi x); ins ADC (imm 0);
       ins STA (hi dst)]
  | SConst16 v k => [ins LDA (imm (k mod 256)); ins STA v; ins LDA (imm (k / 256)); ins STA (hi v)]
  | SHiByte dst x => [ins LDA (hi x); ins STA dst]
  | SLoByte dst x => [ins LDA x; ins STA dst]
  | SShl16_8 dst x => [ins LDA (imm 0); ins STA dst; ins LDA x; ins STA (hi dst)]
  end.

(** a line as the listing prints it: "MNEM operand" (a space follows the mnemonic even when the
    operand is empty) and "label:" *)
Definition show (l : line) : string :=
  match l with
  | Ins i => (mnem_name (i_mn i) ++ " " ++ i_op i)%string
  | Lbl s => (s ++ ":")%string
  | Inl t _ => t
  | Cmt c => c
  | Dummy => ""
  end.

(** * The 39 listings *)
(** a = b; *)
Example listing_01 : map show (template (SCopy8 "a" "b")) =
  ["LDA b"; "STA a"].
Proof. vm_compute. reflexivity. Qed.

(** a = b + c; *)
Example listing_02 : map show (template (SAdd8 "a" "b" "c")) =
  ["LDA b"; "CLC "; "ADC c"; "STA a"].
Proof. vm_compute. reflexivity. Qed.

(** a = b - c; *)
Example listing_03 : map show (template (SSub8 "a" "b" "c")) =
  ["LDA b"; "SEC "; "SBC c"; "STA a"].
Proof. vm_compute. reflexivity. Qed.

(** a = b & c; *)
Example listing_04 : map show (template (SAnd8 "a" "b" "c")) =
  ["LDA b"; "AND c"; "STA a"].
Proof. vm_compute. reflexivity. Qed.

(** a = b | c; *)
Example listing_05 : map show (template (SOr8 "a" "b" "c")) =
  ["LDA b"; "ORA c"; "STA a"].
Proof. vm_compute. reflexivity. Qed.

(** a = b ^ c; *)
Example listing_06 : map show (template (SXor8 "a" "b" "c")) =
  ["LDA b"; "EOR c"; "STA a"].
Proof. vm_compute. reflexivity. Qed.

(** a = b + 5; *)
Example listing_07 : map show (template (SAddConst8 "a" "b" 5)) =
  ["LDA b"; "CLC "; "ADC #5"; "STA a"].
Proof. vm_compute. reflexivity. Qed.

(** a++; *)
Example listing_08 : map show (template (SInc8 "a")) =
  ["INC a"].
Proof. vm_compute. reflexivity. Qed.

(** a--; *)
Example listing_09 : map show (template (SDec8 "a")) =
  ["DEC a"].
Proof. vm_compute. reflexivity. Qed.

(** a += b; *)
Example listing_10 : map show (template (SAddAssign8 "a" "b")) =
  ["LDA a"; "CLC "; "ADC b"; "STA a"].
Proof. vm_compute. reflexivity. Qed.

(** a -= b; *)
Example listing_11 : map show (template (SSubAssign8 "a" "b")) =
  ["LDA a"; "SEC "; "SBC b"; "STA a"].
Proof. vm_compute. reflexivity. Qed.

(** a = -b; *)
Example listing_12 : map show (template (SNeg8 "a" "b")) =
  ["LDA #0"; "SEC "; "SBC b"; "STA a"].
Proof. vm_compute. reflexivity. Qed.

(** a = ~b; *)
Example listing_13 : map show (template (SNot8 "a" "b")) =
  ["LDA b"; "EOR #255"; "STA a"].
Proof. vm_compute. reflexivity. Qed.

(** a = b << 2; *)
Example listing_14 : map show (template (SShl8 "a" "b" 2)) =
  ["LDA b"; "ASL "; "ASL "; "STA a"].
Proof. vm_compute. reflexivity. Qed.

(** a = b >> 1; *)
Example listing_15 : map show (template (SShr8 "a" "b" 1)) =
  ["LDA b"; "LSR "; "STA a"].
Proof. vm_compute. reflexivity. Qed.

(** sa = sb >> 1; *)
Example listing_16 : map show (template (SSar8_1 "sa" "sb")) =
  ["LDA sb"; "CMP #128"; "ROR "; "STA sa"].
Proof. vm_compute. reflexivity. Qed.

(** X = a; *)
Example listing_17 : map show (template (SLoadX "a")) =
  ["LDX a"].
Proof. vm_compute. reflexivity. Qed.

(** a = X; *)
Example listing_18 : map show (template (SStoreX "a")) =
  ["STX a"].
Proof. vm_compute. reflexivity. Qed.

(** a = Y; *)
Example listing_19 : map show (template (SStoreY "a")) =
  ["STY a"].
Proof. vm_compute. reflexivity. Qed.

(** Y = a; *)
Example listing_20 : map show (template (SLoadY "a")) =
  ["LDY a"].
Proof. vm_compute. reflexivity. Qed.

(** s = t; *)
Example listing_21 : map show (template (SCopy16 "s" "t")) =
  ["LDA t"; "STA s"; "LDA t+1"; "STA s+1"].
Proof. vm_compute. reflexivity. Qed.

(** s = t + u; *)
Example listing_22 : map show (template (SAdd16 "s" "t" "u")) =
  ["LDA t"; "CLC "; "ADC u"; "STA s"; "LDA t+1"; "ADC u+1"; "STA s+1"].
Proof. vm_compute. reflexivity. Qed.

(** s = t - u; *)
Example listing_23 : map show (template (SSub16 "s" "t" "u")) =
  ["LDA t"; "SEC "; "SBC u"; "STA s"; "LDA t+1"; "SBC u+1"; "STA s+1"].
Proof. vm_compute. reflexivity. Qed.

(** s = t & u; *)
Example listing_24 : map show (template (SAnd16 "s" "t" "u")) =
  ["LDA t"; "AND u"; "STA s"; "LDA t+1"; "AND u+1"; "STA s+1"].
Proof. vm_compute. reflexivity. Qed.

(** s = t | u; *)
Example listing_25 : map show (template (SOr16 "s" "t" "u")) =
  ["LDA t"; "ORA u"; "STA s"; "LDA t+1"; "ORA u+1"; "STA s+1"].
Proof. vm_compute. reflexivity. Qed.

(** s++; *)
Example listing_26 : map show (template (SInc16 "s" ".ifend1")) =
  ["INC s"; "BNE .ifend1"; "INC s+1"; ".ifend1:"].
Proof. vm_compute. reflexivity. Qed.

(** s--; *)
Example listing_27 : map show (template (SDec16 "s" ".ifend1")) =
  ["LDA s"; "BNE .ifend1"; "DEC s+1"; ".ifend1:"; "DEC s"].
Proof. vm_compute. reflexivity. Qed.

(** s += 300; *)
Example listing_28 : map show (template (SAddConst16 "s" 300)) =
  ["LDA s"; "CLC "; "ADC #44"; "STA s"; "LDA s+1"; "ADC #1"; "STA s+1"].
Proof. vm_compute. reflexivity. Qed.

(** s -= 1; *)
Example listing_29 : map show (template (SSubConst16 "s" 1)) =
  ["LDA s"; "SEC "; "SBC #1"; "STA s"; "LDA s+1"; "SBC #0"; "STA s+1"].
Proof. vm_compute. reflexivity. Qed.

(** s = c; *)
Example listing_30 : map show (template (SZext "s" "c")) =
  ["LDA c"; "STA s"; "LDA #0"; "STA s+1"].
Proof. vm_compute. reflexivity. Qed.

(** ss = sa; *)
Example listing_31 : map show (template (SSext "ss" "sa" ".ifneg1")) =
  ["LDA sa"; "STA ss"; "LDA sa"; "ORA #127"; "BMI .ifneg1"; "LDA #0"; ".ifneg1:"; "STA ss+1"].
Proof. vm_compute. reflexivity. Qed.

(** s <<= 1; *)
Example listing_32 : map show (template (SShl16_1 "s")) =
  ["ASL s"; "ROL s+1"].
Proof. vm_compute. reflexivity. Qed.

(** s >>= 1; *)
Example listing_33 : map show (template (SShr16_1 "s")) =
  ["LSR s+1"; "ROR s"].
Proof. vm_compute. reflexivity. Qed.

(** ss >>= 1; *)
Example listing_34 : map show (template (SSar16_1 "ss")) =
  ["LDA ss+1"; "ASL "; "ROR ss+1"; "ROR ss"].
Proof. vm_compute. reflexivity. Qed.

(** s = t + c; *)
Example listing_35 : map show (template (SAdd16_8 "s" "t" "c")) =
  ["LDA t"; "CLC "; "ADC c"; "STA s"; "LDA t+1"; "ADC #0"; "STA s+1"].
Proof. vm_compute. reflexivity. Qed.

(** s = 1000; *)
Example listing_36 : map show (template (SConst16 "s" 1000)) =
  ["LDA #232"; "STA s"; "LDA #3"; "STA s+1"].
Proof. vm_compute. reflexivity. Qed.

(** a = s >> 8; *)
Example listing_37 : map show (template (SHiByte "a" "s")) =
  ["LDA s+1"; "STA a"].
Proof. vm_compute. reflexivity. Qed.

(** a = s; *)
Example listing_38 : map show (template (SLoByte "a" "s")) =
  ["LDA s"; "STA a"].
Proof. vm_compute. reflexivity. Qed.

(** s = t << 8; *)
Example listing_39 : map show (template (SShl16_8 "s" "t")) =
  ["LDA #0"; "STA s"; "LDA t"; "STA s+1"].
Proof. vm_compute. reflexivity. Qed.

(** the compound assignments are the plain forms with the destination as first operand *)
Lemma template_add_assign : forall v x, template (SAddAssign8 v x) = template (SAdd8 v v x).
Proof. reflexivity. Qed.
Lemma template_sub_assign : forall v x, template (SSubAssign8 v x) = template (SSub8 v v x).
Proof. reflexivity. Qed.
Lemma template_lo_byte : forall dst x, template (SLoByte dst x) = template (SCopy8 dst x).
Proof. reflexivity. Qed.
