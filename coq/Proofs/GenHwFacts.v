(** Hardware-access statements (Model/GenHw.v) on the executable 6502 semantics WITH THE TRACE:
    [Sem.run] from ANY machine state, [ports cfg = []], any program around, any fuel above the
    length of the code, empty call stack, halts normally and the trace of protected instructions
    is exactly the sequence of accesses of the source, once each, in order.

    [strobe_trace]          [strobe(r);]: the single event [EvI STA r]; A is stored in the cell of
                            [r], nothing else changes
    [load_store_trace]      [load(a); strobe(r); store(b);]: the three events in order; A = a, the
                            hardware cell = a, b = a
    [strobe_sleep_strobe]   [strobe(r0); csleep(4); strobe(r1);] with [r0], [r1] in page zero: the
                            events STA r0, NOP, NOP, STA r1 and exactly 3 + 2 + 2 + 3 = 10 cycles *)
From Coq Require Import String Ascii List Bool Arith NArith ZArith Lia.
From CC Require Import Base.Str Asm.Lines M6502.Isa Asm.Operand M6502.Sem
  Model.OptSem Proofs.OptSemFacts Model.GenTemplates Proofs.GenTemplatesFacts Model.GenIf Model.GenHw.
Import ListNotations.
Open Scope string_scope.
Open Scope list_scope.
Open Scope Z_scope.

Lemma slines_pins : forall m op o r sr, parse_operand m op = Some o -> slines_of r = Some sr ->
  slines_of (pins m op :: r) = Some (SIns m o true op :: sr).
Proof.
  intros m op o r sr Hp Hr. cbn [slines_of sline_of pins i_mn i_op i_prot]. rewrite Hp, Hr. reflexivity.
Qed.
Print Assumptions slines_pins.

Lemma exec_nop : forall cfg s, exec cfg NOP ONone s = XOk s 2%N FNext.
Proof. reflexivity. Qed.

(** one protected instruction that falls through *)
Ltac hstep E := rewrite run_S; cbn [nth_error]; rewrite E; cbv zeta iota beta.

(** ** [strobe(r);] *)
Theorem strobe_trace : forall cfg r pr st,
  ports cfg = [] -> var_name r -> layout cfg r = Some pr -> 0 <= pr < 65536 ->
  exists sl, slines_of (strobe_tpl r) = Some sl /\
    forall prog inl_sem ext_call fname fuel, (length sl < fuel)%nat ->
      Sem.run cfg prog inl_sem ext_call fuel fname sl 0 [] st [] 0%N
      = Halt (set_mem st (mset (mem st) pr (rA st))) [EvI STA r] (cyc STA (amode pr) false).
Proof.
  intros cfg r pr st Hp Nr Lr Rr. eexists. split.
  - unfold strobe_tpl. apply slines_pins; [apply vn_lo; [exact Nr|reflexivity]|reflexivity].
  - intros prog inl_sem ext_call fname fuel Hf. cbn [length] in Hf.
    destruct fuel as [|[|f]]; try lia.
    pose proof (exec_st_mem cfg STA st r 0 pr Hp eq_refl Lr ltac:(lia)) as E.
    rewrite Z.add_0_r in E. cbn [st_reg] in E.
    hstep E. rewrite run_S. cbn [nth_error rev app]. reflexivity.
Qed.
Print Assumptions strobe_trace.

(** only the cell of [r] changes; the registers do not *)
Corollary strobe_only_cell : forall st pr, 0 <= pr ->
  let st' := set_mem st (mset (mem st) pr (rA st)) in
  mget (mem st') pr = rA st /\ only_changes [pr] st st' /\ keeps_xys st st' /\ rA st' = rA st.
Proof.
  intros st pr Hpr. cbn [mem set_mem rA rX rY rS]. split; [apply mget_mset_same|].
  split; [|repeat split; reflexivity].
  intros a Ha Hn. cbn [In] in Hn. apply mget_mset_other; lia.
Qed.
Print Assumptions strobe_only_cell.

(** ** [load(a); strobe(r); store(b);] *)
Theorem load_store_trace : forall cfg a r b pa pr pb st,
  ports cfg = [] -> var_name a -> var_name r -> var_name b ->
  layout cfg a = Some pa -> layout cfg r = Some pr -> layout cfg b = Some pb ->
  0 <= pa < 65536 -> 0 <= pr < 65536 -> 0 <= pb < 65536 -> pr <> pb ->
  exists sl, slines_of (load_tpl a ++ strobe_tpl r ++ store_tpl b) = Some sl /\
    forall prog inl_sem ext_call fname fuel, (length sl < fuel)%nat ->
      exists st' cy,
        Sem.run cfg prog inl_sem ext_call fuel fname sl 0 [] st [] 0%N
        = Halt st' [EvI LDA a; EvI STA r; EvI STA b] cy /\
        rA st' = mget (mem st) pa /\ mget (mem st') pr = mget (mem st) pa /\
        mget (mem st') pb = mget (mem st) pa /\
        only_changes [pr; pb] st st' /\ keeps_xys st st'.
Proof.
  intros cfg a r b pa pr pb st Hp Na Nr Nb La Lr Lb Ra Rr Rb Hne. eexists. split.
  - unfold load_tpl, strobe_tpl, store_tpl. cbn [app].
    repeat (apply slines_pins; [apply vn_lo; [assumption|reflexivity]|]). reflexivity.
  - intros prog inl_sem ext_call fname fuel Hf. cbn [length] in Hf.
    destruct fuel as [|[|[|[|f]]]]; try lia.
    pose proof (exec_rd_mem cfg LDA st a 0 pa Hp eq_refl La ltac:(lia)) as E1.
    rewrite Z.add_0_r in E1. cbn [rd_sem] in E1.
    set (s1 := set_nz (set_a st (mget (mem st) pa)) (mget (mem st) pa)) in *.
    pose proof (exec_st_mem cfg STA s1 r 0 pr Hp eq_refl Lr ltac:(lia)) as E2.
    rewrite Z.add_0_r in E2. cbn [st_reg] in E2.
    set (s2 := set_mem s1 (mset (mem s1) pr (rA s1))) in *.
    pose proof (exec_st_mem cfg STA s2 b 0 pb Hp eq_refl Lb ltac:(lia)) as E3.
    rewrite Z.add_0_r in E3. cbn [st_reg] in E3.
    hstep E1. hstep E2. hstep E3. rewrite run_S. cbn [nth_error rev app].
    eexists. eexists. split; [reflexivity|].
    subst s2 s1. unfold only_changes, keeps_xys. cbn [mem rA rX rY rS set_mem set_nz set_a].
    split; [reflexivity|]. split; [rewrite mget_mset_other by lia; apply mget_mset_same|].
    split; [apply mget_mset_same|]. split; [|repeat split; reflexivity].
    intros x Hx Hn. cbn [In] in Hn. rewrite !mget_mset_other by lia. reflexivity.
Qed.
Print Assumptions load_store_trace.

(** ** [strobe(r0); csleep(4); strobe(r1);]: the events and the cycle count *)
Theorem strobe_sleep_strobe : forall cfg r0 r1 p0 p1 st,
  ports cfg = [] -> var_name r0 -> var_name r1 ->
  layout cfg r0 = Some p0 -> layout cfg r1 = Some p1 -> 0 <= p0 < 256 -> 0 <= p1 < 256 ->
  exists sl, slines_of (strobe_tpl r0 ++ csleep4_tpl ++ strobe_tpl r1) = Some sl /\
    forall prog inl_sem ext_call fname fuel, (length sl < fuel)%nat ->
      Sem.run cfg prog inl_sem ext_call fuel fname sl 0 [] st [] 0%N
      = Halt (set_mem st (mset (mset (mem st) p0 (rA st)) p1 (rA st)))
             [EvI STA r0; EvI NOP ""; EvI NOP ""; EvI STA r1] (3 + 2 + 2 + 3)%N.
Proof.
  intros cfg r0 r1 p0 p1 st Hp N0 N1 L0 L1 R0 R1. eexists. split.
  - unfold strobe_tpl, csleep4_tpl. cbn [app].
    apply slines_pins; [apply vn_lo; [assumption|reflexivity]|].
    apply slines_pins; [apply parse_empty|]. apply slines_pins; [apply parse_empty|].
    apply slines_pins; [apply vn_lo; [assumption|reflexivity]|]. reflexivity.
  - intros prog inl_sem ext_call fname fuel Hf. cbn [length] in Hf.
    destruct fuel as [|[|[|[|[|f]]]]]; try lia.
    pose proof (exec_st_mem cfg STA st r0 0 p0 Hp eq_refl L0 ltac:(lia)) as E1.
    rewrite Z.add_0_r in E1. cbn [st_reg] in E1.
    set (s1 := set_mem st (mset (mem st) p0 (rA st))) in *.
    pose proof (exec_st_mem cfg STA s1 r1 0 p1 Hp eq_refl L1 ltac:(lia)) as E2.
    rewrite Z.add_0_r in E2. cbn [st_reg] in E2.
    assert (A0 : amode p0 = Zp) by (unfold amode; destruct (Z.ltb_spec p0 256); [reflexivity|lia]).
    assert (A1 : amode p1 = Zp) by (unfold amode; destruct (Z.ltb_spec p1 256); [reflexivity|lia]).
    rewrite A0 in E1. rewrite A1 in E2.
    hstep E1. hstep (exec_nop cfg s1). hstep (exec_nop cfg s1). hstep E2.
    rewrite run_S. cbn [nth_error rev app]. subst s1. reflexivity.
Qed.
Print Assumptions strobe_sleep_strobe.

(** * Non-vacuity: the listings on a concrete layout (a, b at 128, 129; HW0, HW1 at 2, 3), run *)
Definition cfg_hw : config :=
  mkCfg (fun y =>
    if String.eqb y "a" then Some 128 else if String.eqb y "b" then Some 129
    else if String.eqb y "HW0" then Some 2 else if String.eqb y "HW1" then Some 3 else None) [].

Definition run_hw (c : code) (st : mstate) : option (list event * N) :=
  match slines_of c with
  | Some sl =>
      match Sem.run cfg_hw [] (fun _ _ => None) (fun _ _ => None) 20 "f" sl 0 [] st [] 0%N with
      | Halt _ tr cy => Some (tr, cy)
      | _ => None
      end
  | None => None
  end.

Example run_hlisting_05 :
  run_hw (strobe_tpl "HW0" ++ csleep4_tpl ++ strobe_tpl "HW1")
         (mkS 7 1 2 255 false false false false mem_empty)
  = Some ([EvI STA "HW0"; EvI NOP ""; EvI NOP ""; EvI STA "HW1"], 10%N).
Proof. vm_compute. reflexivity. Qed.
Print Assumptions run_hlisting_05.

Example run_hlisting_04 :
  run_hw (load_tpl "a" ++ strobe_tpl "HW0" ++ store_tpl "b")
         (mkS 7 1 2 255 false false false false (mset mem_empty 128 5))
  = Some ([EvI LDA "a"; EvI STA "HW0"; EvI STA "b"], 9%N).
Proof. vm_compute. reflexivity. Qed.
Print Assumptions run_hlisting_04.

(** the closed forms with the compiler's names *)
Corollary hlisting_05_trace : forall st prog inl_sem ext_call fname fuel, (4 < fuel)%nat ->
  exists sl, slines_of (strobe_tpl "HW0" ++ csleep4_tpl ++ strobe_tpl "HW1") = Some sl /\
    Sem.run cfg_hw prog inl_sem ext_call fuel fname sl 0 [] st [] 0%N
    = Halt (set_mem st (mset (mset (mem st) 2 (rA st)) 3 (rA st)))
           [EvI STA "HW0"; EvI NOP ""; EvI NOP ""; EvI STA "HW1"] 10%N.
Proof.
  intros st prog inl_sem ext_call fname fuel Hf.
  destruct (strobe_sleep_strobe cfg_hw "HW0" "HW1" 2 3 st eq_refl
              (ident_var_name "HW0" ltac:(discriminate) eq_refl)
              (ident_var_name "HW1" ltac:(discriminate) eq_refl) eq_refl eq_refl ltac:(lia) ltac:(lia))
    as (sl & Hsl & H).
  exists sl. split; [exact Hsl|]. apply H.
  assert (length sl = 4%nat) by (vm_compute in Hsl; inversion Hsl; reflexivity). lia.
Qed.
Print Assumptions hlisting_05_trace.
