(** C04 — reported function size equals the assembled size.  Statements only. *)
From Coq Require Import String Ascii List Bool NArith ZArith.
From CC Require Import Base.Str Asm.Lines M6502.Isa Asm.Operand Model.AsmSel Model.Optimize
     Model.CheckBranches Proofs.AsmSelFacts Proofs.OptFacts.
Import ListNotations.

(** whatever [asm()] emits for a sensible (mnemonic, operand) pair carries as [nb_bytes] the
    size of the encoding a 6502 assembler selects for it (zero-page form for page-zero
    operands when the mnemonic has one, absolute form otherwise), for every variable kind,
    memory class, offset >= 0, byte selection and bank-switching scheme.  [popnd_zp e (e_op em)]
    says where the emitted operand really is: for a constant pointer whose address [a] is known
    ([v_addr v = Some a], [unsigned char *const R = 0xff;]) it is [a + printed offset < $100], on
    both sides of the page boundary; otherwise the memory class decides.  [expr_wf]: class and
    known address agree ([var_wf]), as the compiler produces them. *)
Theorem C04_asm_sel_size : forall sch m e high m' sg em md,
  sensible m e = true ->
  expr_wf e -> expr_off_nonneg e ->
  asm_sel sch m e high = AEmit m' sg em ->
  resolve m' (shape_of (operand_of (e_op em))) (popnd_zp e (e_op em)) = Some md ->
  mode_size md = e_bytes em.
Proof. exact asm_sel_size. Qed.

(** what "really is" means for an access through a constant pointer at a known address *)
Theorem C04_popnd_zp_known_addr : forall sch m v eight off high m' sg em a y k ix al,
  v_addr v = Some a ->
  asm_sel sch m (EAbsolute v eight off) high = AEmit m' sg em ->
  e_op em = PMem y k ix al -> al = true ->
  k = (off + port_offset sch (v_mem v) m + if high then 1 else 0)%Z /\
  popnd_zp (EAbsolute v eight off) (e_op em) = (a + k <? 256)%Z.
Proof. exact popnd_zp_known_addr. Qed.

(** the rule before the page-boundary fix (size from the memory class alone, [asm_sel_old]) does
    not satisfy the statement: [STA R+1] with [R] at $ff is 3 bytes, it reported 2 *)
Theorem C04_asm_sel_old_size_fails :
  ~ (forall sch m e high m' sg em md,
       sensible m e = true -> expr_wf e -> expr_off_nonneg e ->
       asm_sel_old sch m e high = AEmit m' sg em ->
       resolve m' (shape_of (operand_of (e_op em))) (popnd_zp e (e_op em)) = Some md ->
       mode_size md = e_bytes em).
Proof. exact asm_sel_old_size_fails. Qed.

(** the optimiser only deletes: the reported size never grows and every remaining instruction
    is one that was emitted (with its size) *)
Theorem C04_optimize_size_le : forall c : code, (size_bytes (fst (optimize c)) <= size_bytes c)%N.
Proof. exact optimize_size_le. Qed.

Theorem C04_optimize_instrs_subset : forall (c : code) (i : instr),
  In (Ins i) (fst (optimize c)) -> In (Ins i) c.
Proof. exact optimize_instrs_subset. Qed.

(** the instructions the branch repair adds have their real sizes: 2 for a branch, 3 for JMP *)
Theorem C04_repair_sizes : forall m l,
  is_cond_branch m = true ->
  resolved_size m ShLabel false = Some 2%N /\ resolved_size JMP ShLabel false = Some 3%N
  /\ line_bytes (mk_branch m l) = 2%N /\ line_bytes (mk_jmp l) = 3%N.
Proof. intros m l H; destruct m; try discriminate H; repeat split; reflexivity. Qed.
