(** Specification-side definitions tying the optimiser's register knowledge and rewrite rules to
    the 6502 semantics (C02). *)
From Coq Require Import String Ascii List Bool NArith ZArith.
From CC Require Import Base.Str Asm.Lines M6502.Isa Asm.Operand M6502.Sem Model.Optimize.
Import ListNotations.
Open Scope Z_scope.

(** "register [reg] holds what loading operand string [o] would load in state [s]" *)
Definition holds_in (cfg : config) (ld : mnem) (s : mstate) (o : string) (v : Z) : Prop :=
  exists op c, parse_operand ld o = Some op /\ read_operand cfg ld s op = Some (v, c).

(** soundness of the optimiser's knowledge w.r.t. a machine state *)
Definition know_sound (cfg : config) (k : know) (s : mstate) : Prop :=
  (forall o, k_acc k = Some o -> holds_in cfg LDA s o (rA s)) /\
  (forall o, k_x k = Some o -> holds_in cfg LDX s o (rX s)) /\
  (forall o, k_y k = Some o -> holds_in cfg LDY s o (rY s)) /\
  (k_flags k = FA -> fZ s = (rA s =? 0) /\ fN s = bit7 (rA s)) /\
  (k_flags k = FX -> fZ s = (rX s =? 0) /\ fN s = bit7 (rX s)) /\
  (k_flags k = FY -> fZ s = (rY s =? 0) /\ fN s = bit7 (rY s)).

(** states equal on everything but the N and Z flags *)
Definition eq_mod_nz (s s' : mstate) : Prop :=
  rA s = rA s' /\ rX s = rX s' /\ rY s = rY s' /\ rS s = rS s' /\
  fV s = fV s' /\ fC s = fC s' /\ (forall a, mget (mem s) a = mget (mem s') a).

(** states equal on everything (memory compared cell by cell) *)
Definition eq_state (s s' : mstate) : Prop :=
  eq_mod_nz s s' /\ fN s = fN s' /\ fZ s = fZ s'.

(** states equal on everything but A, N, Z, C *)
Definition eq_mod_anzc (s s' : mstate) : Prop :=
  rX s = rX s' /\ rY s = rY s' /\ rS s = rS s' /\ fV s = fV s' /\
  (forall a, mget (mem s) a = mget (mem s') a).

(** the instruction [i] executes from [s] to [s'] and falls through *)
Definition steps_to (cfg : config) (i : instr) (s s' : mstate) : Prop :=
  exists op c, parse_operand (i_mn i) (i_op i) = Some op /\ exec cfg (i_mn i) op s = XOk s' c FNext.

(** byte-valued registers and memory: the invariant of every reachable state *)
Definition bytes_ok (s : mstate) : Prop :=
  0 <= rA s < 256 /\ 0 <= rX s < 256 /\ 0 <= rY s < 256 /\ 0 <= rS s < 256 /\
  (forall a, 0 <= mget (mem s) a < 256).

(** no memory operand of the code may denote the hardware stack page: [PHA]/[PHP]/[JSR] write
    there behind the optimiser's back (true of every layout: variables live in page zero,
    cartridge RAM or ROM) *)
Definition off_stack (cfg : config) (ld : mnem) (s : mstate) (o : string) : Prop :=
  forall op a md cr, parse_operand ld o = Some op -> eff_addr cfg ld s op = Some (a, md, cr) ->
                     ~ (256 <= a < 512).

(** ** the look-ahead: N and Z are dead when the next instruction redefines both *)

(** the two executions agree: the same fault, or the same cycles and flow and equal states *)
Definition outcome_eq (r1 r2 : xres) : Prop :=
  match r1, r2 with
  | XOk s1 c1 f1, XOk s2 c2 f2 => c1 = c2 /\ f1 = f2 /\ eq_state s1 s2
  | XFault w1, XFault w2 => w1 = w2
  | _, _ => False
  end.

(** the same, the resulting states being compared up to N and Z *)
Definition outcome_eq_mod_nz (r1 r2 : xres) : Prop :=
  match r1, r2 with
  | XOk s1 c1 f1, XOk s2 c2 f2 => c1 = c2 /\ f1 = f2 /\ eq_mod_nz s1 s2
  | XFault w1, XFault w2 => w1 = w2
  | _, _ => False
  end.

(** the instruction the machine executes next in straight-line code [l]: comments and removed
    lines are skipped (they are [SSkip] for [run]); a label or inline assembly ends the search *)
Fixpoint next_ins (l : list line) : option instr :=
  match l with
  | Ins j :: _ => Some j
  | Cmt _ :: t | Dummy :: t => next_ins t
  | _ => None
  end.

(** continue an execution that fell through with one more instruction (cycles add up) *)
Definition then_exec (cfg : config) (r : xres) (m : mnem) (o : operand) : xres :=
  match r with
  | XOk s c FNext =>
      match exec cfg m o s with
      | XOk s' c' f => XOk s' (c + c')%N f
      | XFault w => XFault w
      end
  | _ => r
  end.
