(** Executable semantics of 6502 code as the compiler emits it: symbolic labels (function
    local), symbolic variable addresses resolved by a layout, optional split-port cartridge RAM,
    cycle counting with the datasheet's penalties, and a trace of executed "marked" lines
    (protected instructions and inline assembly).  Decimal mode is never set by the generated
    code and is not modelled. *)
From Coq Require Import String Ascii List Bool NArith ZArith FMapPositive Lia.
From CC Require Import Base.Str Asm.Lines Asm.Operand M6502.Isa.
Import ListNotations.
Open Scope Z_scope.

(** ** memory *)
Definition memory := PositiveMap.t Z.
Definition akey (a : Z) : positive := Z.to_pos (a + 1).
Definition mget (m : memory) (a : Z) : Z :=
  match PositiveMap.find (akey a) m with Some v => v | None => 0 end.
Definition mset (m : memory) (a v : Z) : memory := PositiveMap.add (akey a) v m.
Definition mem_empty : memory := PositiveMap.empty Z.

(** ** split-port RAM: [(write_base, read_base, size)]; the cell is stored at its write address *)
Definition port := (Z * Z * Z)%type.
Definition in_range (a base size : Z) : bool := (base <=? a) && (a <? base + size).

Fixpoint read_addr (ports : list port) (a : Z) : option Z :=   (* None = fault *)
  match ports with
  | [] => Some a
  | (wb, rb, sz) :: r =>
      if in_range a wb sz then None                (* reading a write port *)
      else if in_range a rb sz then Some (a - rb + wb)
      else read_addr r a
  end.

Fixpoint write_addr (ports : list port) (a : Z) : option Z :=
  match ports with
  | [] => Some a
  | (wb, rb, sz) :: r =>
      if in_range a rb sz then None                (* writing a read port *)
      else if in_range a wb sz then Some a
      else write_addr r a
  end.

(** ** machine state *)
Record mstate := mkS {
  rA : Z; rX : Z; rY : Z; rS : Z;
  fN : bool; fV : bool; fZ : bool; fC : bool;
  mem : memory
}.

Definition byte (z : Z) : Z := z mod 256.
Definition bit7 (z : Z) : bool := 128 <=? z.

Definition set_nz (s : mstate) (v : Z) : mstate :=
  mkS (rA s) (rX s) (rY s) (rS s) (bit7 v) (fV s) (v =? 0) (fC s) (mem s).
Definition set_a (s : mstate) (v : Z) : mstate :=
  mkS v (rX s) (rY s) (rS s) (fN s) (fV s) (fZ s) (fC s) (mem s).
Definition set_x (s : mstate) (v : Z) : mstate :=
  mkS (rA s) v (rY s) (rS s) (fN s) (fV s) (fZ s) (fC s) (mem s).
Definition set_y (s : mstate) (v : Z) : mstate :=
  mkS (rA s) (rX s) v (rS s) (fN s) (fV s) (fZ s) (fC s) (mem s).
Definition set_sp (s : mstate) (v : Z) : mstate :=
  mkS (rA s) (rX s) (rY s) v (fN s) (fV s) (fZ s) (fC s) (mem s).
Definition set_c (s : mstate) (c : bool) : mstate :=
  mkS (rA s) (rX s) (rY s) (rS s) (fN s) (fV s) (fZ s) c (mem s).
Definition set_v (s : mstate) (v : bool) : mstate :=
  mkS (rA s) (rX s) (rY s) (rS s) (fN s) v (fZ s) (fC s) (mem s).
Definition set_mem (s : mstate) (m : memory) : mstate :=
  mkS (rA s) (rX s) (rY s) (rS s) (fN s) (fV s) (fZ s) (fC s) m.

Definition b2z (b : bool) : Z := if b then 1 else 0.

(** ** ALU *)
Definition adc (s : mstate) (m : Z) : mstate :=
  let a := rA s in
  let sum := a + m + b2z (fC s) in
  let r := byte sum in
  let v := (Bool.eqb (bit7 a) (bit7 m)) && negb (Bool.eqb (bit7 r) (bit7 a)) in
  set_nz (set_v (set_c (set_a s r) (256 <=? sum)) v) r.

Definition sbc (s : mstate) (m : Z) : mstate :=
  let a := rA s in
  let d := a - m - (1 - b2z (fC s)) in
  let r := byte d in
  let v := negb (Bool.eqb (bit7 a) (bit7 m)) && negb (Bool.eqb (bit7 r) (bit7 a)) in
  set_nz (set_v (set_c (set_a s r) (0 <=? d)) v) r.

Definition cmp (s : mstate) (reg m : Z) : mstate :=
  let d := reg - m in
  set_nz (set_c s (0 <=? d)) (byte d).

Definition asl_v (v : Z) : Z * bool := (byte (2 * v), bit7 v).
Definition lsr_v (v : Z) : Z * bool := (v / 2, Z.odd v).
Definition rol_v (v : Z) (c : bool) : Z * bool := (byte (2 * v + b2z c), bit7 v).
Definition ror_v (v : Z) (c : bool) : Z * bool := (v / 2 + 128 * b2z c, Z.odd v).

(** status byte for PHP / PLP *)
Definition status_byte (s : mstate) : Z :=
  128 * b2z (fN s) + 64 * b2z (fV s) + 32 + 16 + 2 * b2z (fZ s) + b2z (fC s).
Definition set_status (s : mstate) (p : Z) : mstate :=
  mkS (rA s) (rX s) (rY s) (rS s) (Z.testbit p 7) (Z.testbit p 6) (Z.testbit p 1) (Z.testbit p 0) (mem s).

(** ** configuration: where symbols live, which RAM is split-port *)
Record config := mkCfg {
  layout : string -> option Z;
  ports : list port
}.

Inductive flow := FNext | FGoto (l : string) | FCall (f : string) | FRet | FRti.

Inductive xres :=
| XOk (s : mstate) (cycles : N) (fl : flow)
| XFault (why : string).

Definition imm_value (cfg : config) (v : immv) : option Z :=
  match v with
  | INum n => Some (byte n)
  | ILo y k => match layout cfg y with Some a => Some (byte (a + k)) | None => None end
  | IHi y k => match layout cfg y with Some a => Some (byte ((a + k) / 256)) | None => None end
  end.

(** effective address, the mode the assembler selects, and whether the index crossed a page *)
Definition eff_addr (cfg : config) (m : mnem) (s : mstate) (o : operand) : option (Z * mode * bool) :=
  match o with
  | OMem y k ix =>
      match layout cfg y with
      | None => None
      | Some a0 =>
          let base := a0 + k in
          let zp := base <? 256 in
          match resolve m (shape_of o) zp with
          | None => None
          | Some md =>
              let i := match ix with IxNone => 0 | IxX => rX s | IxY => rY s end in
              match md with
              | ZpX | ZpY => Some (byte (base + i), md, false)       (* wraps inside page zero *)
              | _ => Some ((base + i) mod 65536, md, negb ((base + i) / 256 =? base / 256))
              end
          end
      end
  | OInd y k =>
      match layout cfg y with
      | None => None
      | Some a0 =>
          let p := a0 + k in
          if p <? 255 then
            match read_addr (ports cfg) p, read_addr (ports cfg) (p + 1) with
            | Some pl, Some ph =>
                let base := mget (mem s) pl + 256 * mget (mem s) ph in
                Some ((base + rY s) mod 65536, IndY, negb ((base + rY s) / 256 =? base / 256))
            | _, _ => None
            end
          else None
      end
  | _ => None
  end.

Definition Fault (why : string) : xres := XFault why.

Definition cyc (m : mnem) (md : mode) (crossed : bool) : N :=
  (base_cycles m md + (if pays_page_cross m md && crossed then 1 else 0))%N.

(** read the operand value of a "read" instruction *)
Definition read_operand (cfg : config) (m : mnem) (s : mstate) (o : operand) : option (Z * N) :=
  match o with
  | OImm v => match imm_value cfg v with
              | Some x => if legal m Imm then Some (x, base_cycles m Imm) else None
              | None => None
              end
  | OMem _ _ _ | OInd _ _ =>
      match eff_addr cfg m s o with
      | Some (a, md, cr) =>
          match read_addr (ports cfg) a with
          | Some a' => Some (mget (mem s) a', cyc m md cr)
          | None => None
          end
      | None => None
      end
  | _ => None
  end.

Definition write_operand (cfg : config) (m : mnem) (s : mstate) (o : operand) (v : Z) : option (mstate * N) :=
  match eff_addr cfg m s o with
  | Some (a, md, cr) =>
      match write_addr (ports cfg) a with
      | Some a' => Some (set_mem s (mset (mem s) a' v), cyc m md cr)
      | None => None
      end
  | None => None
  end.

Definition branch_taken (m : mnem) (s : mstate) : bool :=
  match m with
  | BCC => negb (fC s) | BCS => fC s
  | BEQ => fZ s | BNE => negb (fZ s)
  | BMI => fN s | BPL => negb (fN s)
  | _ => false
  end.

Definition push (s : mstate) (v : Z) : mstate :=
  set_sp (set_mem s (mset (mem s) (256 + rS s) v)) (byte (rS s - 1)).
Definition pull (s : mstate) : mstate * Z :=
  let sp := byte (rS s + 1) in (set_sp s sp, mget (mem s) (256 + sp)).

(** one instruction *)
Definition exec (cfg : config) (m : mnem) (o : operand) (s : mstate) : xres :=
  let rd (k : Z -> mstate) :=
    match read_operand cfg m s o with
    | Some (v, c) => XOk (k v) c FNext
    | None => Fault "bad read operand"
    end in
  let wr (v : Z) :=
    match write_operand cfg m s o v with
    | Some (s', c) => XOk s' c FNext
    | None => Fault "bad write operand"
    end in
  let rmw (f : Z -> bool -> Z * bool) (use_c : bool) :=
    match o with
    | ONone =>
        let '(r, c) := f (rA s) (fC s) in
        XOk (set_nz (set_c (set_a s r) (if use_c then c else fC s)) r) 2%N FNext
    | _ =>
        match eff_addr cfg m s o with
        | Some (a, md, cr) =>
            match read_addr (ports cfg) a, write_addr (ports cfg) a with
            | Some ar, Some aw =>
                let '(r, c) := f (mget (mem s) ar) (fC s) in
                let s1 := set_mem s (mset (mem s) aw r) in
                XOk (set_nz (set_c s1 (if use_c then c else fC s)) r) (cyc m md cr) FNext
            | _, _ => Fault "read-modify-write on split-port memory"
            end
        | None => Fault "bad rmw operand"
        end
    end in
  let impl (s' : mstate) := XOk s' (base_cycles m Imp) FNext in
  match m with
  | LDA => rd (fun v => set_nz (set_a s v) v)
  | LDX => rd (fun v => set_nz (set_x s v) v)
  | LDY => rd (fun v => set_nz (set_y s v) v)
  | STA => wr (rA s)
  | STX => wr (rX s)
  | STY => wr (rY s)
  | TAX => impl (set_nz (set_x s (rA s)) (rA s))
  | TAY => impl (set_nz (set_y s (rA s)) (rA s))
  | TXA => impl (set_nz (set_a s (rX s)) (rX s))
  | TYA => impl (set_nz (set_a s (rY s)) (rY s))
  | ADC => rd (fun v => adc s v)
  | SBC => rd (fun v => sbc s v)
  | EOR => rd (fun v => let r := Z.lxor (rA s) v in set_nz (set_a s r) r)
  | AND => rd (fun v => let r := Z.land (rA s) v in set_nz (set_a s r) r)
  | ORA => rd (fun v => let r := Z.lor (rA s) v in set_nz (set_a s r) r)
  | ASL => rmw (fun v _ => asl_v v) true
  | LSR => rmw (fun v _ => lsr_v v) true
  | ROL => rmw (fun v c => rol_v v c) true
  | ROR => rmw (fun v c => ror_v v c) true
  | INC => match o with ONone => Fault "INC without operand"
                   | _ => rmw (fun v _ => (byte (v + 1), false)) false end
  | DEC => match o with ONone => Fault "DEC without operand"
                   | _ => rmw (fun v _ => (byte (v - 1), false)) false end
  | CLC => impl (set_c s false)
  | SEC => impl (set_c s true)
  | CMP => rd (fun v => cmp s (rA s) v)
  | CPX => rd (fun v => cmp s (rX s) v)
  | CPY => rd (fun v => cmp s (rY s) v)
  | BCC | BCS | BEQ | BMI | BNE | BPL =>
      match o with
      | OLbl l => if branch_taken m s then XOk s 3%N (FGoto l) else XOk s 2%N FNext
      | _ => Fault "branch without label"
      end
  | INX => let r := byte (rX s + 1) in impl (set_nz (set_x s r) r)
  | INY => let r := byte (rY s + 1) in impl (set_nz (set_y s r) r)
  | DEX => let r := byte (rX s - 1) in impl (set_nz (set_x s r) r)
  | DEY => let r := byte (rY s - 1) in impl (set_nz (set_y s r) r)
  | JMP => match o with OLbl l => XOk s 3%N (FGoto l) | _ => Fault "JMP without label" end
  | JSR => match o with OLbl l => XOk s 6%N (FCall l) | _ => Fault "JSR without label" end
  | RTS => XOk s 6%N FRet
  | RTI => XOk s 6%N FRti
  | PHA => XOk (push s (rA s)) 3%N FNext
  | PLA => let '(s1, v) := pull s in XOk (set_nz (set_a s1 v) v) 4%N FNext
  | PHP => XOk (push s (status_byte s)) 3%N FNext
  | PLP => let '(s1, v) := pull s in XOk (set_status s1 v) 4%N FNext
  | NOP => impl s
  end.

(** ** programs *)
Inductive sline :=
| SLbl (l : string)
| SIns (m : mnem) (o : operand) (prot : bool) (raw : string)
| SInl (text : string)
| SSkip.

Definition sline_of (l : line) : option sline :=
  match l with
  | Lbl s => Some (SLbl s)
  | Ins i => match parse_operand (i_mn i) (i_op i) with
             | Some o => Some (SIns (i_mn i) o (i_prot i) (i_op i))
             | None => None
             end
  | Inl t _ => Some (SInl t)
  | Cmt _ | Dummy => Some SSkip
  end.

Fixpoint slines_of (c : code) : option (list sline) :=
  match c with
  | [] => Some []
  | l :: r => match sline_of l, slines_of r with
              | Some x, Some xs => Some (x :: xs)
              | _, _ => None
              end
  end.

Definition sfunc := (string * list sline)%type.
Definition sprogram := list sfunc.

Fixpoint find_label (l : string) (c : list sline) (k : nat) : option nat :=
  match c with
  | [] => None
  | SLbl x :: r => if String.eqb x l then Some k else find_label l r (S k)
  | _ :: r => find_label l r (S k)
  end.

Fixpoint find_func (f : string) (p : sprogram) : option (list sline) :=
  match p with
  | [] => None
  | (n, c) :: r => if String.eqb n f then Some c else find_func f r
  end.

Inductive event :=
| EvI (m : mnem) (raw : string)     (* a protected instruction was executed *)
| EvN (text : string).              (* an inline-assembly line was executed *)

Inductive outcome :=
| Halt (s : mstate) (trace : list event) (cycles : N)
| OutOfFuel (s : mstate) (trace : list event) (cycles : N)
| Faulted (why : string) (fname : string) (pc : nat) (s : mstate).

(** A frame is the code being executed and the index of the next line.  [JSR] pushes two marker
    bytes (the call depth and its complement) on the hardware stack, [RTS] pulls two bytes and
    faults if they are not the markers of the innermost frame: an unbalanced [PHA]/[PLA] inside a
    function derails the return, as on the real machine. *)
Definition frame := (string * list sline * nat)%type.

Section Run.
  Variable cfg : config.
  Variable prog : sprogram.
  Variable inl_sem : string -> mstate -> option mstate.
  (** functions not in [prog] (external symbols): their effect, if known *)
  Variable ext_call : string -> mstate -> option mstate.

  Fixpoint run (fuel : nat) (fname : string) (c : list sline) (pc : nat) (stack : list frame)
           (s : mstate) (tr : list event) (cy : N) : outcome :=
    match fuel with
    | O => OutOfFuel s (rev tr) cy
    | S fuel' =>
        match nth_error c pc with
        | None =>
            (* fell off the end of a function: an inlined body or a function without RTS *)
            match stack with
            | [] => Halt s (rev tr) cy
            | _ => Faulted "fell off the end of a called function" fname pc s
            end
        | Some (SLbl _) | Some SSkip => run fuel' fname c (S pc) stack s tr cy
        | Some (SInl t) =>
            match inl_sem t s with
            | Some s' => run fuel' fname c (S pc) stack s' (EvN t :: tr) cy
            | None => Faulted "unknown inline assembly" fname pc s
            end
        | Some (SIns m o prot raw) =>
            let tr' := if prot then EvI m raw :: tr else tr in
            match exec cfg m o s with
            | XFault why => Faulted why fname pc s
            | XOk s' k fl =>
                let cy' := (cy + k)%N in
                match fl with
                | FNext => run fuel' fname c (S pc) stack s' tr' cy'
                | FGoto l =>
                    match find_label l c 0 with
                    | Some k' => run fuel' fname c k' stack s' tr' cy'
                    | None => Faulted "undefined label" fname pc s
                    end
                | FCall f =>
                    match find_func f prog with
                    | Some c' =>
                        let d := Z.of_nat (length stack) + 1 in
                        let s1 := push (push s' (byte d)) (byte (255 - d)) in
                        run fuel' f c' 0 ((fname, c, S pc) :: stack) s1 tr' cy'
                    | None =>
                        match ext_call f s' with
                        | Some s2 => run fuel' fname c (S pc) stack s2 tr' cy'
                        | None => Faulted "call of an unknown function" fname pc s
                        end
                    end
                | FRet =>
                    match stack with
                    | [] => Halt s' (rev tr') cy'
                    | (fn, c0, pc0) :: st' =>
                        let d := Z.of_nat (length stack) in
                        let '(s1, lo) := pull s' in
                        let '(s2, hi) := pull s1 in
                        if (lo =? byte (255 - d)) && (hi =? byte d)
                        then run fuel' fn c0 pc0 st' s2 tr' cy'
                        else Faulted "RTS with a corrupted stack" fname pc s
                    end
                | FRti => Halt s' (rev tr') cy'
                end
            end
        end
    end.

  Definition run_function (fuel : nat) (f : string) (s : mstate) : outcome :=
    match find_func f prog with
    | Some c => run fuel f c 0 [] s [] 0%N
    | None => Faulted "no such function" f 0 s
    end.
End Run.
