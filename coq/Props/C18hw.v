(** C18 — timing and hardware-access statements are emitted exactly: each strobe / load / store /
    csleep statement produces its access once, in order.  The -O0 output for five statements over
    [unsigned char a, b; unsigned char *const HW0 = 2; unsigned char *const HW1 = 3;]
    (Model/GenHw.v, [hlisting_NN]: mnemonic and operand pinned by [show]; the protection flags by
    [hprot_NN]) is run on the executable semantics WITH ITS TRACE: from ANY machine state
    [Sem.run] halts and the trace of protected instructions is exactly the accesses of the source
    in order; the strobe / csleep(4) / strobe sequence takes exactly 3 + 2 + 2 + 3 cycles.
    Statements only; proofs in Proofs/GenHwFacts.v. *)
From Coq Require Import String List Bool NArith ZArith Lia.
From CC Require Import Base.Str Asm.Lines M6502.Isa Asm.Operand M6502.Sem Model.OptSem
  Model.GenTemplates Proofs.GenTemplatesFacts Model.GenIf Model.GenHw Proofs.GenHwFacts.
Import ListNotations.
Open Scope string_scope.
Open Scope list_scope.
Open Scope Z_scope.

Theorem C18_hw_strobe_trace : forall cfg r pr st,
  ports cfg = [] -> var_name r -> layout cfg r = Some pr -> 0 <= pr < 65536 ->
  exists sl, slines_of (strobe_tpl r) = Some sl /\
    forall prog inl_sem ext_call fname fuel, (length sl < fuel)%nat ->
      Sem.run cfg prog inl_sem ext_call fuel fname sl 0 [] st [] 0%N
      = Halt (set_mem st (mset (mem st) pr (rA st))) [EvI STA r] (cyc STA (amode pr) false).
Proof. exact strobe_trace. Qed.
Print Assumptions C18_hw_strobe_trace.

Theorem C18_hw_strobe_only_cell : forall st pr, 0 <= pr ->
  let st' := set_mem st (mset (mem st) pr (rA st)) in
  mget (mem st') pr = rA st /\ only_changes [pr] st st' /\ keeps_xys st st' /\ rA st' = rA st.
Proof. exact strobe_only_cell. Qed.
Print Assumptions C18_hw_strobe_only_cell.

Theorem C18_hw_load_store_trace : forall cfg a r b pa pr pb st,
  ports cfg = [] -> var_name a -> var_name r -> var_name b ->
  layout cfg a = Some pa -> layout cfg r = Some pr -> layout cfg b = Some pb ->
  0 <= pa < 65536 -> 0 <= pr < 65536 -> 0 <= pb < 65536 -> pr <> pb ->
  exists sl, slines_of (load_tpl a ++ strobe_tpl r ++ store_tpl b) = Some sl /\
    forall prog inl_sem ext_call fname fuel, (length sl < fuel)%nat ->
      exists st' cy,
        Sem.run cfg prog inl_sem ext_call fuel fname sl 0 [] st [] 0%N
        = Halt st' [EvI LDA a; EvI STA r; EvI STA b] cy /\
        rA st' = mget (mem st) pa /\ mget (mem st') pr = mget (mem st) pa /\
        mget (mem st') pb = mget (mem st) pa /\
        only_changes [pr; pb] st st' /\ keeps_xys st st'.
Proof. exact load_store_trace. Qed.
Print Assumptions C18_hw_load_store_trace.

Theorem C18_hw_strobe_sleep_strobe : forall cfg r0 r1 p0 p1 st,
  ports cfg = [] -> var_name r0 -> var_name r1 ->
  layout cfg r0 = Some p0 -> layout cfg r1 = Some p1 -> 0 <= p0 < 256 -> 0 <= p1 < 256 ->
  exists sl, slines_of (strobe_tpl r0 ++ csleep4_tpl ++ strobe_tpl r1) = Some sl /\
    forall prog inl_sem ext_call fname fuel, (length sl < fuel)%nat ->
      Sem.run cfg prog inl_sem ext_call fuel fname sl 0 [] st [] 0%N
      = Halt (set_mem st (mset (mset (mem st) p0 (rA st)) p1 (rA st)))
             [EvI STA r0; EvI NOP ""; EvI NOP ""; EvI STA r1] (3 + 2 + 2 + 3)%N.
Proof. exact strobe_sleep_strobe. Qed.
Print Assumptions C18_hw_strobe_sleep_strobe.

Theorem C18_hw_hlisting_05_trace : forall st prog inl_sem ext_call fname fuel, (4 < fuel)%nat ->
  exists sl, slines_of (strobe_tpl "HW0" ++ csleep4_tpl ++ strobe_tpl "HW1") = Some sl /\
    Sem.run cfg_hw prog inl_sem ext_call fuel fname sl 0 [] st [] 0%N
    = Halt (set_mem st (mset (mset (mem st) 2 (rA st)) 3 (rA st)))
           [EvI STA "HW0"; EvI NOP ""; EvI NOP ""; EvI STA "HW1"] 10%N.
Proof. exact hlisting_05_trace. Qed.
Print Assumptions C18_hw_hlisting_05_trace.

Theorem C18_hw_run_hlisting_04 :
  run_hw (load_tpl "a" ++ strobe_tpl "HW0" ++ store_tpl "b")
         (mkS 7 1 2 255 false false false false (mset mem_empty 128 5))
  = Some ([EvI LDA "a"; EvI STA "HW0"; EvI STA "b"], 9%N).
Proof. exact run_hlisting_04. Qed.
Print Assumptions C18_hw_run_hlisting_04.

Theorem C18_hw_run_hlisting_05 :
  run_hw (strobe_tpl "HW0" ++ csleep4_tpl ++ strobe_tpl "HW1")
         (mkS 7 1 2 255 false false false false mem_empty)
  = Some ([EvI STA "HW0"; EvI NOP ""; EvI NOP ""; EvI STA "HW1"], 10%N).
Proof. exact run_hlisting_05. Qed.
Print Assumptions C18_hw_run_hlisting_05.
