"""C15 — equivalent source forms behave identically.

proof   : Props/C15.v on Src/CSem.v: the source-level equivalences themselves (commutativity of
          + & | ^ *, a < b vs b > a, x + 1 vs increment) hold in the C semantics for all values;
          on Model/GenTables.v: the operand-swap and negation tables the generator uses to
          canonicalise comparisons are correct for all integers
corr-S  : metamorphic co-execution: every applicable rewrite site of every generated program is
          rewritten (operands of + & | ^ commuted; x op= e <-> x = x op e; ++x <-> x += 1;
          if (c) A else B <-> if (!c) B else A; a < b <-> b > a; for <-> while); both spellings are
          compiled at -O0 and -O1 and co-executed on the extracted 6502 semantics from the same
          states (only states the C semantics decides); any difference is a violation
partial : behaviour of the two spellings is compared, not proved equal (the generator is not modelled)
"""
import re
import copy
from lib.common import *
from lib.gen_c import gen_program
from lib.pipeline import *
from lib.coexec import *
from lib.csem import cprog_record, run_csem
from lib.features import features
from lib.shrink import shrink
from lib.gentab import run_gentab

LEVEL = 'proof'


def theorems():
    p = os.path.join(COQ, 'Props', 'C15.v')
    return re.findall(r'^Theorem (\w+)', open(p).read(), re.M) if os.path.exists(p) else []


SWAP = {'<': '>', '>': '<', '<=': '>=', '>=': '<='}


def pure(e):
    """no side effects and no calls (so evaluation order and duplication are irrelevant)"""
    k = e[0]
    if k in ('num', 'var'):
        return True
    if k == 'idx':
        return pure(e[2])
    if k == 'bin':
        return pure(e[2]) and pure(e[3])
    if k == 'un':
        return pure(e[2])
    if k == 'tern':
        return pure(e[1]) and pure(e[2]) and pure(e[3])
    return False


def binds_continue(s):
    """a continue statement that belongs to the loop whose body is s (not to a loop nested in it): the
    for -> while rewrite would then skip the update clause, so it is not applied"""
    if not isinstance(s, tuple) or not s:
        return False
    k = s[0]
    if k == 'continue':
        return True
    if k in ('while', 'do', 'for'):
        return False
    if k == 'block':
        return any(binds_continue(x) for x in s[1])
    if k == 'if':
        return binds_continue(s[2]) or (s[3] is not None and binds_continue(s[3]))
    if k == 'switch':
        return any(binds_continue(x) for _, b in s[2] for x in b) or (s[3] is not None and any(binds_continue(x) for x in s[3]))
    return False


class Rewriter:
    def __init__(self, rng, p=0.5):
        self.rng = rng
        self.p = p
        self.applied = []
        self.scratch = None        # a register the source never mentions: free to hold a subscript
        self.arrays = set()
        self.used_scratch = False

    def const_index(self, e):
        """-> (k, e') for the first arr[k] (constant k, real array) in the pure expression e, with that
        subscript replaced by the scratch register; None when there is none"""
        if not isinstance(e, tuple):
            return None
        if e[0] == 'idx' and e[1] in self.arrays and e[2][0] == 'num':
            return (e[2][1], ('idx', e[1], ('var', self.scratch)))
        if e[0] == 'bin':
            for i in (2, 3):
                r = self.const_index(e[i])
                if r:
                    return (r[0], e[:i] + (r[1],) + e[i + 1:])
        if e[0] == 'un':
            r = self.const_index(e[2])
            if r:
                return (r[0], ('un', e[1], r[1]))
        return None

    def expr(self, e):
        rng = self.rng
        k = e[0]
        if k == 'bin':
            l, r = self.expr(e[2]), self.expr(e[3])
            if e[1] in ('+', '&', '|', '^') and pure(l) and pure(r) and rng.random() < self.p:
                self.applied.append('commute ' + e[1])
                return ('bin', e[1], r, l)
            if e[1] in SWAP and pure(l) and pure(r) and rng.random() < self.p:
                self.applied.append('swap ' + e[1])
                return ('bin', SWAP[e[1]], r, l)
            return ('bin', e[1], l, r)
        if k == 'un':
            return ('un', e[1], self.expr(e[2]))
        if k == 'idx':
            return ('idx', e[1], self.expr(e[2]))
        if k == 'tern':
            c_, a_, b_ = self.expr(e[1]), self.expr(e[2]), self.expr(e[3])
            if rng.random() < self.p:
                # c ? a : b  ->  !c ? b : a   (the expression form of the if / else swap)
                self.applied.append('ternary-not swap')
                return ('tern', ('un', '!', c_), b_, a_)
            return ('tern', c_, a_, b_)
        if k == 'call':
            return ('call', e[1], [self.expr(a) for a in e[2]])
        if k == 'asg':
            lv, rhs = e[2], self.expr(e[3])
            if e[1] in ('+=', '-=', '&=', '|=', '^=') and pure(lv) and pure(rhs) and rng.random() < self.p:
                self.applied.append('unfold ' + e[1])
                return ('asg', '=', lv, ('bin', e[1][:-1], lv, rhs))
            if e[1] == '=' and rhs[0] == 'bin' and rhs[1] in ('+', '&', '|', '^') and rhs[2] == lv and pure(lv) and pure(rhs[3]) \
                    and rng.random() < self.p:
                self.applied.append('fold ' + rhs[1] + '=')
                return ('asg', rhs[1] + '=', lv, rhs[3])
            return ('asg', e[1], lv, rhs)
        if k == 'inc':
            return e
        return e

    def stmt(self, s):
        rng = self.rng
        k = s[0]
        if k == 'expr' and s[1][0] == 'bin' and s[1][1] == ',' and rng.random() < self.p:
            from lib.csem import comma_parts
            self.applied.append('comma -> statements')
            return ('block', [('expr', x) for x in comma_parts(s[1])])
        if k == 'expr':
            e = s[1]
            if e[0] == 'inc' and e[1] in ('++x', 'x++') and rng.random() < self.p:
                self.applied.append('inc -> += 1')
                return ('expr', ('asg', '+=', e[2], ('num', 1)))
            if e[0] == 'inc' and e[1] in ('--x', 'x--') and rng.random() < self.p:
                self.applied.append('dec -> -= 1')
                return ('expr', ('asg', '-=', e[2], ('num', 1)))
            return ('expr', self.expr(e))
        if k == 'block':
            return ('block', [self.stmt(x) for x in s[1]])
        if k == 'for' and s[3] is not None and s[3][0] == 'bin' and s[3][1] == ',' and not binds_continue(s[4]) and rng.random() < self.p:
            # for (i; c; u1, u2) body  ->  i; while (c) { body; u1; u2; }  (the comma is a sequence point)
            from lib.csem import comma_parts
            self.applied.append('comma update -> statements')
            body = self.stmt(s[4])
            inner = body[1] if body[0] == 'block' else [body]
            init = [('expr', x) for x in comma_parts(s[1])] if s[1] is not None else []
            return ('block', init + [('while', s[2] if s[2] is not None else ('num', 1),
                                     ('block', list(inner) + [('expr', x) for x in comma_parts(s[3])]))])
        if k == 'if':
            c = self.expr(s[1])
            a = self.stmt(s[2])
            b = self.stmt(s[3]) if s[3] is not None else None
            if self.scratch and pure(c) and rng.random() < self.p:
                r = self.const_index(c)
                if r:
                    # arr[k] and "R = k; arr[R]" are two spellings of the same access
                    self.applied.append('constant subscript -> register subscript')
                    self.used_scratch = True
                    return ('block', [('expr', ('asg', '=', ('var', self.scratch), ('num', r[0]))), ('if', r[1], a, b)])
            if b is not None and rng.random() < self.p:
                self.applied.append('if-not swap')
                return ('if', ('un', '!', c), b, a)
            if b is None and rng.random() < self.p * 0.5:
                # if (c) A  ->  if (!c) { } else A
                self.applied.append('if-not swap (no else)')
                return ('if', ('un', '!', c), ('block', []), a)
            return ('if', c, a, b)
        if k == 'while':
            return ('while', self.expr(s[1]), self.stmt(s[2]))
        if k == 'do':
            return ('do', self.stmt(s[1]), self.expr(s[2]))
        if k == 'for':
            body = self.stmt(s[4])
            if s[1] is not None and s[2] is not None and s[3] is not None and not binds_continue(body) and rng.random() < self.p:
                self.applied.append('for -> while')
                inner = body[1] if body[0] == 'block' else [body]
                return ('block', [('expr', s[1]), ('while', self.expr(s[2]), ('block', list(inner) + [('expr', s[3])]))])
            return ('for', s[1], self.expr(s[2]) if s[2] is not None else None, s[3], body)
        if k == 'switch':
            chain = self.switch_chain(s)
            if chain is not None and rng.random() < self.p:
                self.applied.append('switch -> if-chain')
                return chain
            return ('switch', s[1], [(v, [self.stmt(x) for x in b]) for v, b in s[2]], [self.stmt(x) for x in s[3]] if s[3] is not None else None)
        if k == 'return' and s[1] is not None:
            return ('return', self.expr(s[1]))
        return s

    def switch_chain(self, s):
        """switch (e) { case v..: B; break; ... default: D }  ->  if (e == v || ..) B else if ... else D, when e is a plain
        variable that no body assigns... (it is read once by the switch, several times by the chain: the first matching
        arm is the only one that runs, so later changes do not matter), every case body ends with its only `break`
        (no fall-through, no conditional exit: those have no counterpart in an if-chain) and contains no `continue`
        bound outside"""
        e = s[1]
        if e[0] != 'var':
            return None

        def has_break(st):
            k = st[0]
            if k == 'break':
                return True
            if k == 'block':
                return any(has_break(x) for x in st[1])
            if k == 'if':
                return has_break(st[2]) or (st[3] is not None and has_break(st[3]))
            return False      # loops and inner switches bind their own break
        arms = []
        cases = list(s[2])
        for n, (vals, body) in enumerate(cases):
            last_case = (n == len(cases) - 1) and s[3] is None
            if body and body[-1] == ('break',):
                inner = body[:-1]
            elif last_case:
                inner = body
            else:
                return None
            if not vals or any(has_break(x) for x in inner):
                return None
            arms.append((vals, [self.stmt(x) for x in inner]))
        default = None
        if s[3] is not None:
            d = list(s[3])
            if d and d[-1] == ('break',):
                d = d[:-1]
            if any(has_break(x) for x in d):
                return None
            default = ('block', [self.stmt(x) for x in d])
        out = default
        for vals, inner in reversed(arms):
            c = ('bin', '==', e, ('num', vals[0]))
            for v in vals[1:]:
                c = ('bin', '||', c, ('bin', '==', e, ('num', v)))
            out = ('if', c, ('block', inner), out)
        return out

    def program(self, p):
        q = copy.deepcopy(p)
        src = p.source()
        self.arrays = set(n for (t, n, init, alen, qual) in p.globals if alen is not None)
        free = [r_ for r_ in ('X', 'Y') if not re.search(r'\b%s\b' % r_, src)]
        # Y is what the compiler itself uses for pointers; prefer X
        self.scratch = free[0] if free and self.arrays and '*' not in src.replace('*const', '') else None
        q.main = [self.stmt(x) for x in q.main]
        for f in q.funcs:
            f['body'] = [self.stmt(x) for x in f['body']]
        # the scratch register's final value is not the source's business: not compared
        q.ignore_reg = self.scratch if self.used_scratch else None
        return q


def index_program(rng):
    """arrays accessed with constant subscripts only, X never mentioned: updates of one element followed by
    tests of the same or of another element"""
    from lib.gen_c import Prog
    p = Prog()
    p.globals = [('unsigned char', 'arr', None, 8, ''), ('unsigned char', 'a', None, None, ''), ('unsigned char', 'b', None, None, ''),
                 ('const unsigned char', 'tab', [rng.randrange(256) for _ in range(8)], 8, '')]
    p.funcs = []
    V = lambda n: ('var', n)
    N = lambda n: ('num', n)
    el = lambda: ('idx', rng.choice(['arr', 'arr', 'tab']), N(rng.randrange(8)))
    st = []
    for _ in range(rng.randrange(1, 4)):
        x = ('idx', 'arr', N(rng.randrange(8)))
        st.append(rng.choice([('expr', ('inc', rng.choice(['++x', 'x++', '--x', 'x--']), x)), ('expr', ('asg', '=', x, V(rng.choice(['a', 'b'])))),
                              ('expr', ('asg', '=', x, N(rng.choice([0, 1, 200])))), ('expr', ('asg', rng.choice(['+=', '-=', '&=']), x, N(1))),
                              ('expr', ('asg', '=', V(rng.choice(['a', 'b'])), el()))]))
        y = el()
        tst = rng.choice([y, ('bin', '!=', y, N(0)), ('bin', '==', y, N(0)), ('un', '!', y), ('bin', rng.choice(['<', '>=', '==']), y, V('a')),
                          ('bin', '==', y, N(rng.choice([1, 200])))])
        st.append(('if', tst, ('block', [('expr', ('asg', '=', V('b'), N(rng.randrange(1, 9))))]),
                   ('block', [('expr', ('asg', '=', V('a'), N(rng.randrange(1, 9))))]) if rng.random() < 0.5 else None))
    p.main = st
    return p


def compare_pairs(pairs, O, nstates, rng):
    """pairs: {pid: (Prog a, Prog b)} -> {pid: (verdict, detail)}"""
    srcs = {k: {'a': a.source(), 'b': b.source()} for k, (a, b) in pairs.items()}
    comp = compile_variants(srcs, {'a': [O], 'b': [O]})
    out = {}
    text = []
    ctext = []
    meta = {}
    for pid, vs in comp.items():
        sa, sb = vs['a']['status'], vs['b']['status']
        if sa != 'ok' or sb != 'ok':
            out[pid] = ('rejected' if sa == sb else 'ACCEPTANCE', (sa, sb, vs['a'].get('err'), vs['b'].get('err')))
            continue
        try:
            lay = make_layout(vs['a']['vars'], [f['name'] for f in vs['a']['funcs']])
        except LayoutError:
            continue
        states = gen_states(rng, lay, nstates)
        for k, st in enumerate(states):
            if k % 4 != 3:
                st['X'] = rng.randrange(8)
                st['Y'] = rng.randrange(8)
        t1, w = prog_record(pid + '@a', funcs_of(vs['a']), lay, states, fuel=60000)
        t2, _ = prog_record(pid + '@b', funcs_of(vs['b']), lay, states, fuel=60000)
        text.append(t1 + t2)
        t, _ = cprog_record(pid, pairs[pid][0], lay, states)
        ctext.append(t)
        meta[pid] = (lay, states, w)
    runs = run_sem(''.join(text)) if text else {}
    cr = run_csem(''.join(ctext)) if ctext else {}
    for pid, (lay, states, w) in meta.items():
        verdict = ('agree', None)
        n = 0
        for k in range(len(states)):
            c = cr.get(pid, {}).get(k)
            if c is None or c['tag'] != 'ok':
                continue
            a = runs.get(pid + '@a', {}).get(k)
            b = runs.get(pid + '@b', {}).get(k)
            n += 1
            ign = getattr(pairs[pid][1], 'ignore_reg', None)
            oa, ob = observable(a), observable(b)
            if ign and oa[0] == 'halt' and ob[0] == 'halt':
                j = 1 if ign == 'X' else 2
                oa, ob = oa[:j] + oa[j + 1:], ob[:j] + ob[j + 1:]
            if oa != ob:
                verdict = ('DIFF', {'initial': describe_state(lay, states[k], w), 'original': describe_run(lay, a, w),
                                    'rewritten': describe_run(lay, b, w)})
                break
        out[pid] = verdict if n else ('undecided', None)
    return out


def run(ctx):
    quick = ctx.tier == 'quick'
    rng = ctx.rng
    th = theorems()
    if th:
        ctx.proof_stage('Props.C15', th)
    findings = [f for f in ctx.findings if f.get('status') == 'open']
    ncell, tab_mism, _ = run_gentab()
    ctx.cov['correspondence']['corr-M generator comparison tables'] = {'cells': ncell, 'mismatches': len(tab_mism), 'exhaustive': True}
    n_prog = 400 if quick else 8000
    stats = {}
    kinds = {}
    viol = []
    budget = 10 if quick else 80
    for O in (['-O1'] if quick else ['-O0', '-O1']):
        pairs = {}
        applied = {}
        for i in range(n_prog):
            p = gen_program(rng, dict(signed=(i % 3 == 0), shorts=(i % 2 == 0), bait=(i % 3 == 0)))
            rw = Rewriter(rng, 0.5)
            q = rw.program(p)
            if not rw.applied:
                continue
            pairs['p%d' % i] = (p, q)
            applied['p%d' % i] = rw.applied
            for a in rw.applied:
                kinds[a] = kinds.get(a, 0) + 1
        # the comma family of the fixed enumeration (tools/lib/gen_c.py, K): the comma spelled as statements
        from lib.gen_c import directed_programs
        for k_, p_ in directed_programs().items():
            if not (k_.startswith('K_') or k_.startswith('S_') or k_.startswith('Q_')):
                continue
            rw = Rewriter(rng, 1.0)
            q = rw.program(p_)
            if rw.applied:
                pairs['d' + k_] = (p_, q)
                applied['d' + k_] = rw.applied
                for a in rw.applied:
                    kinds[a] = kinds.get(a, 0) + 1
        # programs that never mention X: every constant subscript of a condition goes through X in the copy
        for i in range(80 if quick else 2000):
            p = index_program(rng)
            rw = Rewriter(rng, 1.0)
            q = rw.program(p)
            if 'constant subscript -> register subscript' not in rw.applied:
                continue
            pairs['ix%d' % i] = (p, q)
            applied['ix%d' % i] = rw.applied
            for a in rw.applied:
                kinds[a] = kinds.get(a, 0) + 1
        # the fixed enumeration is small: many more initial states (a case is taken for one value of its operand only)
        dpairs = {k: v for k, v in pairs.items() if k.startswith('dS_') or k.startswith('dK_') or k.startswith('dQ_')}
        res = compare_pairs({k: v for k, v in pairs.items() if k not in dpairs}, O, 8 if quick else 24, rng)
        res.update(compare_pairs(dpairs, O, 64 if quick else 128, rng))
        for pid, (v, d) in res.items():
            stats[v] = stats.get(v, 0) + 1
            # a spelling the compiler refuses ('Code too complex') is a rejection, not a behaviour: counted only
            if v != 'DIFF':
                continue
            small_a, small_b = pairs[pid]
            if budget > 0:
                budget -= 1

                def batch(cands, O=O):
                    ps = {}
                    for i, c in enumerate(cands):
                        rw2 = Rewriter(random.Random(0), 1.0)
                        q2 = rw2.program(c)
                        if rw2.applied:
                            ps['c%d' % i] = (c, q2)
                    if not ps:
                        return [False] * len(cands)
                    try:
                        r = compare_pairs(ps, O, 8, random.Random(11))
                    except Exception:
                        return [False] * len(cands)
                    return [('c%d' % i) in r and r['c%d' % i][0] == 'DIFF' for i in range(len(cands))]
                # minimise the ORIGINAL spelling while "original vs fully rewritten" still differ
                if batch([small_a])[0]:
                    small_a = shrink(small_a, batch, max_rounds=40)
                    small_b = Rewriter(random.Random(0), 1.0).program(small_a)
            fs = features(small_a) | features(small_b)
            att = None
            for f in findings:
                need = set(f.get('features', []))
                if need and need <= fs:
                    att = f
                    break
            if att:
                ctx.known_finding(att['id'], att['text'])
                continue
            viol.append({'why': 'two spellings of the same program behave differently' if v == 'DIFF' else 'one spelling is accepted, the other rejected: %s' % (d,),
                         'rewrites': applied[pid], 'detail': d, 'level': O, 'original': small_a.source(), 'rewritten': small_b.source(),
                         'features': sorted(fs)})
    # spellings of an update of a 16-bit ELEMENT (arrays of shorts and of pointers; the C semantics of the harness has
    # no such arrays): both spellings are compiled and run on the extracted 6502 from the same states
    ESRC = 'short sarr[4]; char *pa[2]; short t; unsigned char a;\nvoid main() { %s }\n'
    epairs = [('sarr[2]++;', 'sarr[2] += 1;'), ('sarr[1]--;', 'sarr[1] -= 1;'), ('++sarr[3];', 'sarr[3] = sarr[3] + 1;'), ('pa[1]++;', 'pa[1] += 1;'),
              ('pa[0]--;', 'pa[0] -= 1;'), ('sarr[X]++;', 'sarr[X] += 1;'), ('sarr[X]--;', 'sarr[X] -= 1;'), ('sarr[2]++; sarr[2]++;', 'sarr[2] += 2;'),
              ('t = sarr[2]; sarr[2]++;', 't = sarr[2]; sarr[2] += 1;'), ('sarr[0]--; sarr[1]++;', 'sarr[0] -= 1; sarr[1] += 1;')]
    esrcs = {'e%d' % i: {'a': ESRC % x, 'b': ESRC % y} for i, (x, y) in enumerate(epairs)}
    nel = 0
    for O in (['-O1'] if quick else ['-O0', '-O1']):
        ecomp = compile_variants(esrcs, {'a': [O], 'b': [O]})
        eok = {k: v for k, v in ecomp.items() if all(r['status'] == 'ok' for r in v.values())}
        for pid, m in coexec(eok, 48, rng, small_index=True).items():
            for k in range(len(m['states'])):
                ra, rb = m['runs']['a'].get(k), m['runs']['b'].get(k)
                nel += 1
                if ra is None or rb is None or observable(ra) != observable(rb):
                    viol.append({'why': 'two spellings of an update of a 16-bit array element end in different states', 'level': O,
                                 'a': esrcs[pid]['a'], 'b': esrcs[pid]['b'], 'initial': describe_state(m['layout'], m['states'][k], m['watch']),
                                 'run_a': describe_run(m['layout'], ra, m['watch']) if ra else None, 'run_b': describe_run(m['layout'], rb, m['watch']) if rb else None})
                    break
    ctx.cov['correspondence']['corr-S 16-bit element spellings'] = {'pairs': len(epairs), 'executions_compared': nel}
    ctx.cov['programs'] = sum(stats.values())
    ctx.cov['evaluations'] = sum(stats.values()) + ncell
    ctx.cov['distinct_nontrivial'] = stats.get('agree', 0)
    ctx.cov['traces_validated_against_impl'] = stats.get('agree', 0)
    ctx.cov['correspondence']['corr-S metamorphic co-execution'] = {'outcomes': stats, 'rewrites_applied': kinds}
    ctx.sample({'rewrites': list(kinds.keys())})
    for v in viol[:3]:
        ctx.violation('equiv', v)
    if tab_mism and not viol:
        ctx.violation_noinput('Model/GenTables.v no longer matches the generator on %d of %d cells; first: %s'
                              % (len(tab_mism), ncell, json.dumps(tab_mism[0])[:1500]), 'corr-M:gen_tables')
    ctx.cov['rule'] = ('generated programs and a copy with random subsets of rewrite sites rewritten: commuted + & | ^, swapped < > <= >=, '
                       'compound assignment unfolded/folded, ++/-- as += / -= 1, if/else with negated condition, for as while; '
                       'non-trivial = pairs with at least one rewrite whose executions agree on every decided state')
    ctx.cov['trusted_base'] = ['Coq 8.16.1 kernel', 'extraction of M6502/Sem.v and Src/CSem.v', 'harness ccv', 'the rewriter (tools/props/c15.py) applies only rewrites on side-effect-free operands']
    ctx.assumptions = ['the call <-> body rewrite is the business of C14 (inline twins); switch -> if-chain is applied to switches without fall-through or conditional exits only']
