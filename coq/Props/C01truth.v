(** C01 — emitted 6502 code computes what the C source says: TRUTH VALUES and CONDITIONAL
    EXPRESSIONS stored into 16-bit objects (the forms the generator was repaired for: before,
    [short s; s = (x == 2);] stored 0x0101 and [s = c ? t : u] stored the low byte twice).
    The exact -O0 output of the compiler for twelve statements over
    [unsigned char a, b, c; unsigned short s, t, u;] (Model/GenTruth.v, [tlisting_NN], compared with
    the real compiler by tools/props) is run on the executable 6502 semantics: for ALL byte-valued
    states, all addresses (16-bit objects: cells p, p+1), every label number, [Sem.run] halts
    normally ([halts_to]), the destination holds the C value as a 16-bit number, every other cell
    and X, Y, S are unchanged.  Statements only; proofs in Proofs/GenTruthFacts.v. *)
From Coq Require Import String List Bool NArith ZArith Lia.
From CC Require Import Base.Str Asm.Lines M6502.Isa Asm.Operand M6502.Sem Model.OptSem
  Model.GenTemplates Proofs.GenTemplatesFacts Proofs.GenCmp16Facts Model.GenLoops
  Proofs.GenLoopsFacts Model.GenTables Model.GenIf Proofs.GenIfFacts Model.GenCtl Proofs.GenCtlFacts
  Model.GenTruth Proofs.GenTruthFacts.
Import ListNotations.
Open Scope Z_scope.

(** the truth value of a condition in A: 1 if it holds, else 0; memory, X, Y, S untouched *)
Theorem C01_truth_tpl :
  forall (cfg : config) (e : bexp) (n : N) (st : mstate),
       ports cfg = [] ->
       bexp_wf cfg e ->
       bytes_ok st ->
       exists st' : mstate,
         halts_to cfg (truth_tpl e n) st st' /\
         rA st' = b2z (bexp_holds cfg e st) /\ same_mxys st st' /\ bytes_ok st'.
Proof. exact truth_tpl_correct. Qed.

(** into a 16-bit object: low byte 0 / 1, HIGH BYTE 0 (the statement the code emitted before the
    repair violated: [C01_truth_store16_old_refuted]) *)
Theorem C01_truth_store16 :
  forall (cfg : config) (dst : string) (e : bexp) (n : N) (pd : Z) (st : mstate),
       ports cfg = [] ->
       bexp_wf cfg e ->
       var_name dst ->
       layout cfg dst = Some pd ->
       0 <= pd ->
       pd + 1 < 65536 ->
       bytes_ok st ->
       exists st' : mstate,
         halts_to cfg (store16_truth dst e n) st st' /\
         word (mem st') pd = b2z (bexp_holds cfg e st) /\
         mget (mem st') pd = b2z (bexp_holds cfg e st) /\
         mget (mem st') (pd + 1) = 0 /\ only_changes [pd; pd + 1] st st' /\ keeps_xys st st'.
Proof. exact store16_truth_correct. Qed.

(** into an 8-bit object; [e + k]; [x16 + e] *)
Theorem C01_truth_store8 :
  forall (cfg : config) (dst : string) (e : bexp) (n : N) (pd : Z) (st : mstate),
       ports cfg = [] ->
       bexp_wf cfg e ->
       var_name dst ->
       layout cfg dst = Some pd ->
       0 <= pd < 65536 ->
       bytes_ok st ->
       exists st' : mstate,
         halts_to cfg (store8_truth dst e n) st st' /\
         mget (mem st') pd = b2z (bexp_holds cfg e st) /\
         only_changes [pd] st st' /\ keeps_xys st st'.
Proof. exact store8_truth_correct. Qed.

Theorem C01_truth_store16_plus :
  forall (cfg : config) (dst : string) (e : bexp) (k : Z) (n : N) (pd : Z) (st : mstate),
       ports cfg = [] ->
       bexp_wf cfg e ->
       var_name dst ->
       layout cfg dst = Some pd ->
       0 <= pd ->
       pd + 1 < 65536 ->
       0 <= k < 256 ->
       bytes_ok st ->
       exists st' : mstate,
         halts_to cfg (store16_truth_plus dst e k n) st st' /\
         word (mem st') pd = (b2z (bexp_holds cfg e st) + k) mod 256 /\
         only_changes [pd; pd + 1] st st' /\ keeps_xys st st'.
Proof. exact store16_truth_plus_correct. Qed.

Theorem C01_truth_add16 :
  forall (cfg : config) (dst x : string) (e : bexp) (n : N) (pd px : Z) (st : mstate),
       ports cfg = [] ->
       bexp_wf cfg e ->
       var_name dst ->
       var_name x ->
       layout cfg dst = Some pd ->
       layout cfg x = Some px ->
       0 <= pd ->
       pd + 1 < 65536 ->
       0 <= px ->
       px + 1 < 65536 ->
       pd <> px + 1 ->
       bytes_ok st ->
       exists st' : mstate,
         halts_to cfg (add16_truth dst x e n) st st' /\
         word (mem st') pd = (word (mem st) px + b2z (bexp_holds cfg e st)) mod 65536 /\
         only_changes [pd; pd + 1] st st' /\ keeps_xys st st'.
Proof. exact add16_truth_correct. Qed.

(** [dst16 = c ? x : y]: both bytes; the condition does not read the low cell of [dst], the high
    cell of a variable alternative is not the low cell of [dst] *)
Theorem C01_truth_tern16 :
  forall (cfg : config) (dst : string) (c : tcond) (x y : opnd16)
         (le1 ld1 h1 le2 ld2 h2 : string) (pd : Z) (st : mstate),
       ports cfg = [] ->
       tcond_wf cfg c ->
       opnd_wf cfg x ->
       opnd_wf cfg y ->
       var_name dst ->
       layout cfg dst = Some pd ->
       0 <= pd ->
       pd + 1 < 65536 ->
       NoDup [le1; ld1; h1; le2; ld2; h2] ->
       (forall l : string, In l [le1; ld1; h1; le2; ld2; h2] -> l <> "") ->
       ~ In pd (tcond_reads cfg c) ->
       ~ In pd (opnd_hi_cell cfg x) ->
       ~ In pd (opnd_hi_cell cfg y) ->
       bytes_ok st ->
       exists st' : mstate,
         halts_to cfg (tern16_tpl_at dst c x y le1 ld1 h1 le2 ld2 h2) st st' /\
         word (mem st') pd = (if tcond_holds cfg c st then val16 cfg x st else val16 cfg y st) /\
         only_changes [pd; pd + 1] st st' /\ keeps_xys st st'.
Proof. exact tern16_correct. Qed.

(** with the compiler's labels, any number *)
Theorem C01_truth_tern16_n :
  forall (cfg : config) (dst : string) (c : tcond) (x y : opnd16)
         (n : N) (pd : Z) (st : mstate),
       ports cfg = [] ->
       tcond_wf cfg c ->
       opnd_wf cfg x ->
       opnd_wf cfg y ->
       var_name dst ->
       layout cfg dst = Some pd ->
       0 <= pd ->
       pd + 1 < 65536 ->
       ~ In pd (tcond_reads cfg c) ->
       ~ In pd (opnd_hi_cell cfg x) ->
       ~ In pd (opnd_hi_cell cfg y) ->
       bytes_ok st ->
       exists st' : mstate,
         halts_to cfg (tern16_tpl dst c x y n) st st' /\
         word (mem st') pd = (if tcond_holds cfg c st then val16 cfg x st else val16 cfg y st) /\
         only_changes [pd; pd + 1] st st' /\ keeps_xys st st'.
Proof. exact tern16_correct_n. Qed.

(** the twelve listings, closed forms.  s = (a == b);  s = (a < b); *)
Theorem C01_truth_store16_cmp :
  forall (o : relop) (cfg : config) (a b s : string) (n : N) (pa pb ps : Z) (st : mstate),
       ports cfg = [] ->
       var_name a ->
       var_name b ->
       var_name s ->
       layout cfg a = Some pa ->
       layout cfg b = Some pb ->
       layout cfg s = Some ps ->
       0 <= pa < 65536 ->
       0 <= pb < 65536 ->
       0 <= ps ->
       ps + 1 < 65536 ->
       bytes_ok st ->
       exists st' : mstate,
         halts_to cfg (store16_truth s (BCond (CVar o a b)) n) st st' /\
         word (mem st') ps = (if rel_holds o (mget (mem st) pa) (mget (mem st) pb) then 1 else 0) /\
         mget (mem st') (ps + 1) = 0 /\ only_changes [ps; ps + 1] st st' /\ keeps_xys st st'.
Proof. exact store16_cmp_correct. Qed.

(** s = (a != 3); *)
Theorem C01_truth_store16_cmpk :
  forall (o : relop) (cfg : config) (a : string) (k : Z) (s : string)
         (n : N) (pa ps : Z) (st : mstate),
       ports cfg = [] ->
       var_name a ->
       var_name s ->
       layout cfg a = Some pa ->
       layout cfg s = Some ps ->
       0 <= pa < 65536 ->
       0 <= k < 256 ->
       0 <= ps ->
       ps + 1 < 65536 ->
       bytes_ok st ->
       exists st' : mstate,
         halts_to cfg (store16_truth s (BCond (CConst o a k)) n) st st' /\
         word (mem st') ps = (if rel_holds o (mget (mem st) pa) k then 1 else 0) /\
         mget (mem st') (ps + 1) = 0 /\ only_changes [ps; ps + 1] st st' /\ keeps_xys st st'.
Proof. exact store16_cmpk_correct. Qed.

(** s = a && b; *)
Theorem C01_truth_store16_and :
  forall (cfg : config) (a b s : string) (n : N) (pa pb ps : Z) (st : mstate),
       ports cfg = [] ->
       var_name a ->
       var_name b ->
       var_name s ->
       layout cfg a = Some pa ->
       layout cfg b = Some pb ->
       layout cfg s = Some ps ->
       0 <= pa < 65536 ->
       0 <= pb < 65536 ->
       0 <= ps ->
       ps + 1 < 65536 ->
       bytes_ok st ->
       exists st' : mstate,
         halts_to cfg (store16_truth s (BAnd a b) n) st st' /\
         word (mem st') ps =
         (if negb (mget (mem st) pa =? 0) && negb (mget (mem st) pb =? 0) then 1 else 0) /\
         mget (mem st') (ps + 1) = 0 /\ only_changes [ps; ps + 1] st st' /\ keeps_xys st st'.
Proof. exact store16_and_correct. Qed.

(** s = a || b; *)
Theorem C01_truth_store16_or :
  forall (cfg : config) (a b s : string) (n : N) (pa pb ps : Z) (st : mstate),
       ports cfg = [] ->
       var_name a ->
       var_name b ->
       var_name s ->
       layout cfg a = Some pa ->
       layout cfg b = Some pb ->
       layout cfg s = Some ps ->
       0 <= pa < 65536 ->
       0 <= pb < 65536 ->
       0 <= ps ->
       ps + 1 < 65536 ->
       bytes_ok st ->
       exists st' : mstate,
         halts_to cfg (store16_truth s (BOr a b) n) st st' /\
         word (mem st') ps =
         (if negb (mget (mem st) pa =? 0) || negb (mget (mem st) pb =? 0) then 1 else 0) /\
         mget (mem st') (ps + 1) = 0 /\ only_changes [ps; ps + 1] st st' /\ keeps_xys st st'.
Proof. exact store16_or_correct. Qed.

(** s = !a; *)
Theorem C01_truth_store16_not :
  forall (cfg : config) (a s : string) (n : N) (pa ps : Z) (st : mstate),
       ports cfg = [] ->
       var_name a ->
       var_name s ->
       layout cfg a = Some pa ->
       layout cfg s = Some ps ->
       0 <= pa < 65536 ->
       0 <= ps ->
       ps + 1 < 65536 ->
       bytes_ok st ->
       exists st' : mstate,
         halts_to cfg (store16_truth s (BNot a) n) st st' /\
         word (mem st') ps = (if mget (mem st) pa =? 0 then 1 else 0) /\
         mget (mem st') (ps + 1) = 0 /\ only_changes [ps; ps + 1] st st' /\ keeps_xys st st'.
Proof. exact store16_not_correct. Qed.

(** c = (a == b); *)
Theorem C01_truth_store8_cmp :
  forall (o : relop) (cfg : config) (a b c : string) (n : N) (pa pb pc : Z) (st : mstate),
       ports cfg = [] ->
       var_name a ->
       var_name b ->
       var_name c ->
       layout cfg a = Some pa ->
       layout cfg b = Some pb ->
       layout cfg c = Some pc ->
       0 <= pa < 65536 ->
       0 <= pb < 65536 ->
       0 <= pc < 65536 ->
       bytes_ok st ->
       exists st' : mstate,
         halts_to cfg (store8_truth c (BCond (CVar o a b)) n) st st' /\
         mget (mem st') pc = (if rel_holds o (mget (mem st) pa) (mget (mem st) pb) then 1 else 0) /\
         only_changes [pc] st st' /\ keeps_xys st st'.
Proof. exact store8_cmp_correct. Qed.

(** s = c ? t : u; *)
Theorem C01_truth_tern16_vars :
  forall (cfg : config) (c t u s : string) (n : N) (pc pt pu ps : Z) (st : mstate),
       ports cfg = [] ->
       var_name c ->
       var_name t ->
       var_name u ->
       var_name s ->
       layout cfg c = Some pc ->
       layout cfg t = Some pt ->
       layout cfg u = Some pu ->
       layout cfg s = Some ps ->
       0 <= pc < 65536 ->
       0 <= pt ->
       pt + 1 < 65536 ->
       0 <= pu ->
       pu + 1 < 65536 ->
       0 <= ps ->
       ps + 1 < 65536 ->
       ps <> pc ->
       ps <> pt + 1 ->
       ps <> pu + 1 ->
       bytes_ok st ->
       exists st' : mstate,
         halts_to cfg (tern16_tpl s (TNz c) (OVar t) (OVar u) n) st st' /\
         word (mem st') ps = (if mget (mem st) pc =? 0 then word (mem st) pu else word (mem st) pt) /\
         only_changes [ps; ps + 1] st st' /\ keeps_xys st st'.
Proof. exact tern16_vars_correct. Qed.

(** s = c ? 1000 : 300; *)
Theorem C01_truth_tern16_consts :
  forall (cfg : config) (c : string) (k1 k2 : Z) (s : string) (n : N)
         (pc ps : Z) (st : mstate),
       ports cfg = [] ->
       var_name c ->
       var_name s ->
       layout cfg c = Some pc ->
       layout cfg s = Some ps ->
       0 <= pc < 65536 ->
       0 <= k1 < 65536 ->
       0 <= k2 < 65536 ->
       0 <= ps ->
       ps + 1 < 65536 ->
       ps <> pc ->
       bytes_ok st ->
       exists st' : mstate,
         halts_to cfg (tern16_tpl s (TNz c) (OConst k1) (OConst k2) n) st st' /\
         word (mem st') ps = (if mget (mem st) pc =? 0 then k2 else k1) /\
         only_changes [ps; ps + 1] st st' /\ keeps_xys st st'.
Proof. exact tern16_consts_correct. Qed.

(** s = (a < b) ? t : 1000; *)
Theorem C01_truth_tern16_cmp :
  forall (o : relop) (cfg : config) (a b t : string) (k : Z) (s : string)
         (n : N) (pa pb pt ps : Z) (st : mstate),
       ports cfg = [] ->
       var_name a ->
       var_name b ->
       var_name t ->
       var_name s ->
       layout cfg a = Some pa ->
       layout cfg b = Some pb ->
       layout cfg t = Some pt ->
       layout cfg s = Some ps ->
       0 <= pa < 65536 ->
       0 <= pb < 65536 ->
       0 <= pt ->
       pt + 1 < 65536 ->
       0 <= k < 65536 ->
       0 <= ps ->
       ps + 1 < 65536 ->
       ps <> pa ->
       ps <> pb ->
       ps <> pt + 1 ->
       bytes_ok st ->
       exists st' : mstate,
         halts_to cfg (tern16_tpl s (TCmp (CVar o a b)) (OVar t) (OConst k) n) st st' /\
         word (mem st') ps =
         (if rel_holds o (mget (mem st) pa) (mget (mem st) pb) then word (mem st) pt else k) /\
         only_changes [ps; ps + 1] st st' /\ keeps_xys st st'.
Proof. exact tern16_cmp_correct. Qed.

(** s = (a == b) + 1; *)
Theorem C01_truth_store16_cmp_plus :
  forall (o : relop) (cfg : config) (a b : string) (k : Z) (s : string)
         (n : N) (pa pb ps : Z) (st : mstate),
       ports cfg = [] ->
       var_name a ->
       var_name b ->
       var_name s ->
       layout cfg a = Some pa ->
       layout cfg b = Some pb ->
       layout cfg s = Some ps ->
       0 <= pa < 65536 ->
       0 <= pb < 65536 ->
       0 <= ps ->
       ps + 1 < 65536 ->
       0 <= k < 255 ->
       bytes_ok st ->
       exists st' : mstate,
         halts_to cfg (store16_truth_plus s (BCond (CVar o a b)) k n) st st' /\
         word (mem st') ps =
         (if rel_holds o (mget (mem st) pa) (mget (mem st) pb) then 1 else 0) + k /\
         only_changes [ps; ps + 1] st st' /\ keeps_xys st st'.
Proof. exact store16_cmp_plus_correct. Qed.

(** t = t + (a < b); *)
Theorem C01_truth_add16_cmp :
  forall (o : relop) (cfg : config) (a b t : string) (n : N) (pa pb pt : Z) (st : mstate),
       ports cfg = [] ->
       var_name a ->
       var_name b ->
       var_name t ->
       layout cfg a = Some pa ->
       layout cfg b = Some pb ->
       layout cfg t = Some pt ->
       0 <= pa < 65536 ->
       0 <= pb < 65536 ->
       0 <= pt ->
       pt + 1 < 65536 ->
       bytes_ok st ->
       exists st' : mstate,
         halts_to cfg (add16_truth t t (BCond (CVar o a b)) n) st st' /\
         word (mem st') pt =
         (word (mem st) pt + (if rel_holds o (mget (mem st) pa) (mget (mem st) pb) then 1 else 0))
         mod 65536 /\ only_changes [pt; pt + 1] st st' /\ keeps_xys st st'.
Proof. exact add16_cmp_correct. Qed.

(** the sequences emitted before the repair, run on the semantics: 257 instead of 1 ... *)
Theorem C01_truth_store16_old_refuted :
  run_s (store16_truth_old "s" (BCond (CVar REq "a" "b")) 1) (st_truth 7 7 0 0 0) = Some 257 /\
       run_s (store16_truth "s" (BCond (CVar REq "a" "b")) 1) (st_truth 7 7 0 0 0) = Some 1.
Proof. exact store16_truth_old_refuted. Qed.

(** ... and 0x3434 instead of 0x1234 *)
Theorem C01_truth_tern16_old_refuted :
  run_s (tern16_old "s" (TNz "c") (OVar "t") (OVar "u") 1) (st_truth 0 0 1 52 18) = Some 13364 /\
       run_s (tern16_tpl "s" (TNz "c") (OVar "t") (OVar "u") 1) (st_truth 0 0 1 52 18) = Some 4660.
Proof. exact tern16_old_refuted. Qed.

