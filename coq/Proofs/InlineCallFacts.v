(** C14, the other side: the OUT-OF-LINE spelling of an inlinable function does what the inline
    expansion does.

    The inline body [body] (its [return;] spelled [JMP .endof]) is either expanded by [push_code]
    (Proofs/InlineSemFacts.v: the expansion behaves like [body ++ [.endof:]] run on its own), or
    called: [JSR f], the program table holding [out_of_line body] = the body with every [JMP .endof]
    replaced by [RTS], followed by the RTS of the harness.  [JSR] pushes two marker bytes in the
    stack page and lowers S by two; the callee therefore runs in a state that differs from the
    inline one in S and in the two marker cells [256 + S], [256 + byte (S - 1)].

    [exec_mrel]            one instruction that uses neither the stack (PHA PLA PHP PLP JSR RTS RTI)
                           nor an operand that can denote the stack page does the same in two
                           states equal up to S and two cells of page 1
    [ret_of_endof_runs]    the out-of-line form, entered at 0 in [enter d s] under ANY call stack,
                           reaches one of its RTS lines exactly when the inline form (body, then
                           its [.endof] label), from [s], reaches its end; the states agree on
                           A, X, Y, the flags and all memory but the two marker cells; S as
                           entered; in lockstep ([_conv]: the converse)
    [inline_equals_call]   the caller with [JSR f] goes from the call to the next line, the caller
                           with the expansion from the first line of the expansion to the line
                           after [.endofinlineN], in states equal but for the two marker cells
                           ([eq_but_markers]); [inline_equals_call_conv]: conversely
    and the compiler's example, both spellings, by computation. *)
From Coq Require Import String Ascii List Bool Arith NArith ZArith Lia ZifyBool.
From CC Require Import Base.Str Asm.Lines M6502.Isa Asm.Operand M6502.Sem
  Model.OptSem Proofs.OptSemFacts Model.CheckBranches Model.CbSpec Model.InlineRename
  Proofs.InlineFacts Proofs.InlineSemFacts
  Model.GenTemplates Proofs.GenTemplatesFacts Proofs.GenCmp16Facts Model.GenLoops
  Proofs.GenLoopsFacts Model.GenTables Model.GenIf Proofs.GenIfFacts
  Model.GenCtl Proofs.GenCtlFacts Model.GenCall Proofs.GenCallFacts Model.InlineCall.
Import ListNotations.
Open Scope string_scope.
Open Scope list_scope.
Open Scope Z_scope.

Ltac Zify.zify_post_hook ::= Z.div_mod_to_equations.

(** * States equal up to S and two cells *)

(** the same A, X, Y and flags, the same memory except at [m1], [m2]; S is not compared *)
Definition mrel (m1 m2 : Z) (s sc : mstate) : Prop :=
  rA sc = rA s /\ rX sc = rX s /\ rY sc = rY s /\
  fN sc = fN s /\ fV sc = fV s /\ fZ sc = fZ s /\ fC sc = fC s /\
  forall a, 0 <= a -> a <> m1 -> a <> m2 -> mget (mem sc) a = mget (mem s) a.

(** instructions that do not use the hardware stack *)
Definition stack_free (m : mnem) : bool :=
  match m with PHA | PLA | PHP | PLP | JSR | RTS | RTI => false | _ => true end.

(** the operand can never denote a cell of the stack page (no indirection: its address would
    depend on memory) *)
Definition op_safe (cfg : config) (m : mnem) (o : operand) : Prop :=
  match o with
  | OInd _ _ => False
  | _ => forall s a md cr, eff_addr cfg m s o = Some (a, md, cr) -> ~ (256 <= a < 512)
  end.

(** what two executions of the same instruction from related states give *)
Definition xres_rel (m1 m2 : Z) (s sc : mstate) (r rc : xres) : Prop :=
  match r, rc with
  | XOk s' k fl, XOk sc' kc flc =>
      k = kc /\ fl = flc /\ mrel m1 m2 s' sc' /\ rS s' = rS s /\ rS sc' = rS sc /\
      mget (mem sc') m1 = mget (mem sc) m1 /\ mget (mem sc') m2 = mget (mem sc) m2
  | XFault _, XFault _ => True
  | _, _ => False
  end.

Section ExecRel.
  Variable cfg : config.
  Hypothesis Hports : ports cfg = [].
  Variables m1 m2 : Z.
  Hypothesis Hm1 : 256 <= m1 < 512.
  Hypothesis Hm2 : 256 <= m2 < 512.

  Lemma eff_addr_mrel : forall m o s sc, mrel m1 m2 s sc -> op_safe cfg m o ->
    eff_addr cfg m sc o = eff_addr cfg m s o.
  Proof.
    intros m o s sc (EA & EX & EY & _) Hs. destruct o as [|v|y k ix|y k|l]; try reflexivity.
    - unfold eff_addr. rewrite EX, EY. reflexivity.
    - contradiction.
  Qed.

  Lemma read_operand_mrel : forall m o s sc, mrel m1 m2 s sc -> op_safe cfg m o ->
    read_operand cfg m sc o = read_operand cfg m s o.
  Proof.
    intros m o s sc Hr Hs. pose proof (eff_addr_mrel m o s sc Hr Hs) as Ee.
    destruct o as [|v|y k ix|y k|l]; try reflexivity; [|contradiction].
    unfold read_operand. rewrite Ee.
    destruct (eff_addr cfg m s (OMem y k ix)) as [[[a md] cr]|] eqn:E; [|reflexivity].
    rewrite Hports. cbn [read_addr].
    pose proof (eff_addr_range cfg m s _ a md cr E) as Ra. pose proof (Hs s a md cr E) as Na.
    destruct Hr as (_ & _ & _ & _ & _ & _ & _ & Hmem).
    rewrite (Hmem a); [reflexivity|lia|lia|lia].
  Qed.

  (** a store: related results, the two cells untouched *)
  Lemma write_operand_mrel : forall m o s sc v, mrel m1 m2 s sc -> op_safe cfg m o ->
    match write_operand cfg m s o v, write_operand cfg m sc o v with
    | Some (s', c), Some (sc', cc) =>
        c = cc /\ mrel m1 m2 s' sc' /\ rS s' = rS s /\ rS sc' = rS sc /\
        mget (mem sc') m1 = mget (mem sc) m1 /\ mget (mem sc') m2 = mget (mem sc) m2
    | None, None => True
    | _, _ => False
    end.
  Proof.
    intros m o s sc v Hr Hs. unfold write_operand. rewrite (eff_addr_mrel m o s sc Hr Hs).
    destruct (eff_addr cfg m s o) as [[[a md] cr]|] eqn:E; [|exact I].
    rewrite Hports. cbn [write_addr].
    pose proof (eff_addr_range cfg m s _ a md cr E) as Ra.
    assert (Na : ~ (256 <= a < 512)) by (destruct o; try discriminate E; [apply (Hs s a md cr E)|contradiction]).
    destruct Hr as (EA & EX & EY & EN & EV & EZ & EC & Hmem).
    split; [reflexivity|]. split.
    - unfold mrel. cbn [rA rX rY fN fV fZ fC mem set_mem].
      repeat split; try assumption.
      intros b Hb N1 N2. destruct (Z.eq_dec a b) as [->|Nab].
      + rewrite !mget_mset_same. reflexivity.
      + rewrite !mget_mset_other by lia. apply Hmem; assumption.
    - cbn [rS mem set_mem]. rewrite !mget_mset_other by lia. repeat split; reflexivity.
  Qed.
End ExecRel.

Section ExecRel2.
  Variable cfg : config.
  Hypothesis Hports : ports cfg = [].
  Variables m1 m2 : Z.
  Hypothesis Hm1 : 256 <= m1 < 512.
  Hypothesis Hm2 : 256 <= m2 < 512.

  Lemma mrel_mset : forall s sc a v, mrel m1 m2 s sc -> 0 <= a -> ~ (256 <= a < 512) ->
    (forall b, 0 <= b -> b <> m1 -> b <> m2 ->
       mget (mset (mem sc) a v) b = mget (mset (mem s) a v) b) /\
    mget (mset (mem sc) a v) m1 = mget (mem sc) m1 /\
    mget (mset (mem sc) a v) m2 = mget (mem sc) m2.
  Proof.
    intros s sc a v (_ & _ & _ & _ & _ & _ & _ & Hmem) Ha Na. split; [|split].
    - intros b Hb N1 N2. destruct (Z.eq_dec a b) as [->|Nab].
      + rewrite !mget_mset_same. reflexivity.
      + rewrite !mget_mset_other by lia. apply Hmem; assumption.
    - apply mget_mset_other; lia.
    - apply mget_mset_other; lia.
  Qed.

  Ltac unf :=
    unfold adc, sbc, cmp, set_nz, set_c, set_v, set_a, set_x, set_y, set_mem,
           asl_v, lsr_v, rol_v, ror_v in *;
    cbv zeta; cbn [rA rX rY rS fN fV fZ fC mem fst snd] in *.

  (** ** one instruction, two related states *)
  Theorem exec_mrel : forall m o s sc, mrel m1 m2 s sc -> stack_free m = true -> op_safe cfg m o ->
    xres_rel m1 m2 s sc (exec cfg m o s) (exec cfg m o sc).
  Proof.
    intros m o s sc Hr Hsf Hs.
    pose proof (read_operand_mrel cfg Hports m1 m2 Hm1 Hm2 m o s sc Hr Hs) as Erd.
    pose proof (eff_addr_mrel cfg m1 m2 m o s sc Hr Hs) as Eea.
    pose proof Hr as (EA & EX & EY & EN & EV & EZ & EC & Hmem).
    assert (Hfin : forall k fl (f : mstate -> mstate),
              rA (f sc) = rA (f s) -> rX (f sc) = rX (f s) -> rY (f sc) = rY (f s) ->
              fN (f sc) = fN (f s) -> fV (f sc) = fV (f s) -> fZ (f sc) = fZ (f s) ->
              fC (f sc) = fC (f s) ->
              mem (f s) = mem s -> mem (f sc) = mem sc -> rS (f s) = rS s -> rS (f sc) = rS sc ->
              xres_rel m1 m2 s sc (XOk (f s) k fl) (XOk (f sc) k fl)).
    { intros k fl f H1 H2 H3 H4 H5 H6 H7 M1 M2 S1 S2. unfold xres_rel, mrel.
      rewrite M1, M2. repeat split; try assumption; reflexivity. }
    (* the reading instructions *)
    assert (Hrd : forall (kf : mstate -> Z -> mstate),
              (forall v, rA (kf sc v) = rA (kf s v) /\ rX (kf sc v) = rX (kf s v) /\
                         rY (kf sc v) = rY (kf s v) /\ fN (kf sc v) = fN (kf s v) /\
                         fV (kf sc v) = fV (kf s v) /\ fZ (kf sc v) = fZ (kf s v) /\
                         fC (kf sc v) = fC (kf s v) /\ mem (kf s v) = mem s /\
                         mem (kf sc v) = mem sc /\ rS (kf s v) = rS s /\ rS (kf sc v) = rS sc) ->
              xres_rel m1 m2 s sc
                (match read_operand cfg m s o with
                 | Some (v, c) => XOk (kf s v) c FNext
                 | None => Fault "bad read operand" end)
                (match read_operand cfg m sc o with
                 | Some (v, c) => XOk (kf sc v) c FNext
                 | None => Fault "bad read operand" end)).
    { intros kf Hk. rewrite Erd. destruct (read_operand cfg m s o) as [[v c]|]; [|exact I].
      destruct (Hk v) as (H1 & H2 & H3 & H4 & H5 & H6 & H7 & M1 & M2 & S1 & S2).
      apply (Hfin c FNext (fun x => kf x v)); assumption. }
    (* the stores *)
    assert (Hwr : forall v,
              xres_rel m1 m2 s sc
                (match write_operand cfg m s o v with
                 | Some (s', c) => XOk s' c FNext | None => Fault "bad write operand" end)
                (match write_operand cfg m sc o v with
                 | Some (s', c) => XOk s' c FNext | None => Fault "bad write operand" end)).
    { intros v. pose proof (write_operand_mrel cfg Hports m1 m2 Hm1 Hm2 m o s sc v Hr Hs) as Hw.
      destruct (write_operand cfg m s o v) as [[s' c]|];
        destruct (write_operand cfg m sc o v) as [[sc' cc]|]; try contradiction; [|exact I].
      destruct Hw as (-> & Hw). unfold xres_rel. split; [reflexivity|]. split; [reflexivity|exact Hw]. }
    (* read-modify-write *)
    assert (Hrmw : forall (f : Z -> bool -> Z * bool) (use_c : bool),
              xres_rel m1 m2 s sc
                (match o with
                 | ONone =>
                     let '(r, c) := f (rA s) (fC s) in
                     XOk (set_nz (set_c (set_a s r) (if use_c then c else fC s)) r) 2%N FNext
                 | _ =>
                     match eff_addr cfg m s o with
                     | Some (a, md, cr) =>
                         match read_addr (ports cfg) a, write_addr (ports cfg) a with
                         | Some ar, Some aw =>
                             let '(r, c) := f (mget (mem s) ar) (fC s) in
                             let s1 := set_mem s (mset (mem s) aw r) in
                             XOk (set_nz (set_c s1 (if use_c then c else fC s)) r) (cyc m md cr) FNext
                         | _, _ => Fault "read-modify-write on split-port memory"
                         end
                     | None => Fault "bad rmw operand"
                     end
                 end)
                (match o with
                 | ONone =>
                     let '(r, c) := f (rA sc) (fC sc) in
                     XOk (set_nz (set_c (set_a sc r) (if use_c then c else fC sc)) r) 2%N FNext
                 | _ =>
                     match eff_addr cfg m sc o with
                     | Some (a, md, cr) =>
                         match read_addr (ports cfg) a, write_addr (ports cfg) a with
                         | Some ar, Some aw =>
                             let '(r, c) := f (mget (mem sc) ar) (fC sc) in
                             let s1 := set_mem sc (mset (mem sc) aw r) in
                             XOk (set_nz (set_c s1 (if use_c then c else fC sc)) r) (cyc m md cr) FNext
                         | _, _ => Fault "read-modify-write on split-port memory"
                         end
                     | None => Fault "bad rmw operand"
                     end
                 end)).
    { intros f use_c.
      assert (Hmemcase : forall a md cr, eff_addr cfg m s o = Some (a, md, cr) ->
                xres_rel m1 m2 s sc
                  (let '(r, c) := f (mget (mem s) a) (fC s) in
                   let s1 := set_mem s (mset (mem s) a r) in
                   XOk (set_nz (set_c s1 (if use_c then c else fC s)) r) (cyc m md cr) FNext)
                  (let '(r, c) := f (mget (mem sc) a) (fC sc) in
                   let s1 := set_mem sc (mset (mem sc) a r) in
                   XOk (set_nz (set_c s1 (if use_c then c else fC sc)) r) (cyc m md cr) FNext)).
      { intros a md cr E.
        pose proof (eff_addr_range cfg m s _ a md cr E) as Ra.
        assert (Na : ~ (256 <= a < 512))
          by (destruct o; try discriminate E; [apply (Hs s a md cr E)|contradiction]).
        rewrite (Hmem a) by lia. rewrite EC.
        destruct (f (mget (mem s) a) (fC s)) as [r c].
        destruct (mrel_mset s sc a r Hr ltac:(lia) Na) as (Hb & K1 & K2).
        unfold xres_rel, mrel. unf. repeat split; try assumption; try reflexivity. }
      destruct o as [|v|y k ix|y k|l].
      - rewrite EA, EC. destruct (f (rA s) (fC s)) as [r c].
        unfold xres_rel, mrel. unf. repeat split; try assumption; reflexivity.
      - cbn [eff_addr]. exact I.
      - rewrite Eea. destruct (eff_addr cfg m s (OMem y k ix)) as [[[a md] cr]|] eqn:E; [|exact I].
        rewrite Hports. cbn [read_addr write_addr]. apply (Hmemcase a md cr eq_refl).
      - contradiction.
      - cbn [eff_addr]. exact I. }
    destruct m; try discriminate Hsf; unfold exec;
      try (match goal with |- context [read_operand cfg ?M s o] => apply (Hrd (rd_sem M)) end;
           intros v; cbn [rd_sem]; unf; rewrite ?EA, ?EX, ?EY, ?EN, ?EV, ?EZ, ?EC;
           repeat split; reflexivity);
      try (rewrite ?EA, ?EX, ?EY; apply Hwr);
      try (match goal with |- xres_rel _ _ _ _ (XOk ?a ?k ?fl) (XOk ?b ?k ?fl) => idtac end;
           unfold xres_rel, mrel; unf; rewrite ?EA, ?EX, ?EY, ?EN, ?EV, ?EZ, ?EC;
           repeat split; try assumption; reflexivity);
      try apply (Hrmw (fun v _ => asl_v v) true);
      try apply (Hrmw (fun v _ => lsr_v v) true);
      try apply (Hrmw (fun v c => rol_v v c) true);
      try apply (Hrmw (fun v c => ror_v v c) true).
    all: destruct o as [|v|y k ix|y k|l]; try exact I;
      first [ apply (Hrmw (fun v _ => (byte (v + 1), false)) false)
            | apply (Hrmw (fun v _ => (byte (v - 1), false)) false)
            | cbn [branch_taken]; rewrite ?EN, ?EZ, ?EC;
              match goal with |- context [if ?b then _ else _] => destruct b eqn:Eb end;
              unfold xres_rel, mrel; repeat split; try assumption; try reflexivity; congruence
            | unfold xres_rel, mrel; repeat split; try assumption; reflexivity ].
  Qed.
End ExecRel2.
Print Assumptions exec_mrel.

(** * The two forms of a body, as assembled lines *)

(** [JMP .endof] (unprotected) becomes [RTS] *)
Definition sret (x : sline) : sline :=
  match x with
  | SIns JMP (OLbl l) false raw => if String.eqb l ".endof" then SIns RTS ONone false "" else x
  | _ => x
  end.

Definition srts : sline := SIns RTS ONone false "".

(** the out-of-line function as the harness lays it out *)
Definition scallee (sb : list sline) : list sline := map sret sb ++ [srts].
(** the inline form followed by its exit label *)
Definition sinline (sb : list sline) : list sline := sb ++ [SLbl ".endof"].

Lemma sline_of_ret : forall l sx, sline_of l = Some sx -> sline_of (ret_line l) = Some (sret sx).
Proof.
  intros l sx H. unfold ret_line. destruct (is_endof_jmp l) eqn:E.
  - destruct l as [y|i|t sz|cm|]; try discriminate E. cbn [is_endof_jmp] in E.
    destruct (i_mn i) eqn:Em; try discriminate E. apply andb_true_iff in E. destruct E as [Eo Ep].
    apply String.eqb_eq in Eo. apply negb_true_iff in Ep.
    cbn [sline_of] in H. rewrite Em, Eo, Ep in H. cbn in H. injection H as <-. reflexivity.
  - rewrite H. f_equal. destruct sx as [y|m o p raw|t|]; try reflexivity.
    destruct m; try reflexivity. destruct o as [| | | |l0]; try reflexivity.
    destruct p; [reflexivity|]. cbn [sret].
    destruct (String.eqb_spec l0 ".endof") as [El|]; [|reflexivity]. exfalso.
    destruct l as [y|i|t sz|cm|]; cbn [sline_of] in H; try discriminate H.
    destruct (parse_operand (i_mn i) (i_op i)) as [o'|] eqn:Ep; [|discriminate H].
    injection H as Em Eo Epr Eraw. subst o'.
    unfold parse_operand in Ep. rewrite Em in Ep. cbn [takes_label] in Ep.
    destruct (String.eqb (i_op i) ""); [discriminate Ep|]. injection Ep as Eop.
    cbn [is_endof_jmp] in E. rewrite Em, Eop, El, Epr in E. cbn in E. discriminate E.
Qed.

Lemma slines_of_ret : forall body sb, slines_of body = Some sb ->
  slines_of (ret_of_endof body) = Some (map sret sb).
Proof.
  induction body as [|x body IH]; intros sb H.
  - injection H as <-. reflexivity.
  - cbn [slines_of] in H. destruct (sline_of x) as [sx|] eqn:Ex; [|discriminate H].
    destruct (slines_of body) as [sb0|]; [|discriminate H]. injection H as <-.
    unfold ret_of_endof. cbn [map slines_of]. rewrite (sline_of_ret x sx Ex).
    fold (ret_of_endof body). rewrite (IH sb0 eq_refl). reflexivity.
Qed.

Lemma slines_of_out_of_line : forall body sb, slines_of body = Some sb ->
  slines_of (out_of_line body) = Some (scallee sb).
Proof.
  intros body sb H. unfold out_of_line, harness_fun, scallee.
  apply slines_app; [apply slines_of_ret; exact H|reflexivity].
Qed.

(** * What is asked of an inlinable body *)

Definition safe_sline (cfg : config) (x : sline) : Prop :=
  match x with
  | SIns m o _ _ => stack_free m = true /\ op_safe cfg m o
  | SInl _ => False
  | _ => True
  end.

(** - its instructions use neither the hardware stack (no PHA PLA PHP PLP, no JSR, no RTS / RTI
      of its own) nor an operand that can denote a cell of the stack page, and it has no inline
      assembly;
    - it does not define the label [.endof];
    - [.endof] is referred to by unprotected [JMP]s only (the [return;] of an inline function) *)
Definition body_ok (cfg : config) (sb : list sline) : Prop :=
  (forall x, In x sb -> safe_sline cfg x) /\
  ~ In ".endof"%string (slabels sb) /\
  (forall m p raw, In (SIns m (OLbl ".endof") p raw) sb -> m = JMP /\ p = false).

Lemma find_label_sret : forall l sb k, l <> ".endof"%string ->
  find_label l (scallee sb) k = find_label l (sinline sb) k.
Proof.
  intros l sb. unfold scallee, sinline. induction sb as [|x sb IH]; intros k Hl.
  - cbn [map app find_label]. destruct (String.eqb_spec ".endof" l); [congruence|reflexivity].
  - destruct x as [y|m o p raw|t|]; cbn [map app]; try (cbn [sret find_label]; apply IH; exact Hl).
    + cbn [sret find_label]. destruct (String.eqb y l); [reflexivity|apply IH; exact Hl].
    + assert (E : forall r, find_label l (sret (SIns m o p raw) :: r) k = find_label l r (S k)).
      { intros r. unfold sret. destruct m; try reflexivity. destruct o; try reflexivity.
        destruct p; try reflexivity. destruct (String.eqb l0 ".endof"); reflexivity. }
      rewrite E. cbn [find_label]. apply IH. exact Hl.
Qed.

Lemma find_label_endof : forall sb, ~ In ".endof"%string (slabels sb) ->
  find_label ".endof" (sinline sb) 0 = Some (length sb).
Proof.
  intros sb H. unfold sinline. rewrite find_label_notin_app by exact H.
  cbn [find_label]. rewrite String.eqb_refl. reflexivity.
Qed.

Lemma find_label_lt : forall l sb k, l <> ".endof"%string ->
  find_label l (sinline sb) 0 = Some k -> (k < length sb)%nat.
Proof.
  intros l sb k Hl H. unfold sinline in H.
  destruct (in_dec string_dec l (slabels sb)) as [Hin|Hn].
  - destruct (find_label_in l sb 0 Hin) as (j & Hj & Hlt).
    rewrite (find_label_in_app l sb _ 0 j Hj) in H. injection H as <-. lia.
  - rewrite find_label_notin_app in H by exact Hn. cbn [find_label] in H.
    destruct (String.eqb_spec ".endof" l); [congruence|discriminate H].
Qed.

Lemma nth_scallee : forall sb pc, (pc < length sb)%nat ->
  nth_error (scallee sb) pc = option_map sret (nth_error sb pc).
Proof.
  intros sb pc H. unfold scallee. rewrite nth_error_app1 by (rewrite map_length; exact H).
  apply nth_error_map.
Qed.

Lemma nth_sinline : forall sb pc, (pc < length sb)%nat ->
  nth_error (sinline sb) pc = nth_error sb pc.
Proof. intros sb pc H. unfold sinline. apply nth_error_app1. exact H. Qed.

Lemma nth_scallee_end : forall sb, nth_error (scallee sb) (length sb) = Some srts.
Proof.
  intros sb. unfold scallee. rewrite nth_error_app2 by (rewrite map_length; lia).
  rewrite map_length, Nat.sub_diag. reflexivity.
Qed.

Lemma nth_sinline_end : forall sb, nth_error (sinline sb) (length sb) = Some (SLbl ".endof").
Proof.
  intros sb. unfold sinline. rewrite nth_error_app2 by lia. rewrite Nat.sub_diag. reflexivity.
Qed.

Lemma sinline_length : forall sb, length (sinline sb) = S (length sb).
Proof. intros sb. unfold sinline. rewrite app_length. cbn [length]. lia. Qed.

(** from the exit label on, nothing happens any more *)
Lemma stepn_from_endof : forall cfg sb n s pc' s',
  stepn cfg (sinline sb) n (length sb) s = Some (pc', s') -> pc' = S (length sb) -> s' = s.
Proof.
  intros cfg sb n s pc' s' H Hpc. destruct n as [|n].
  - cbn [stepn] in H. injection H as <- <-. lia.
  - cbn [stepn] in H. rewrite nth_sinline_end in H. destruct n as [|n].
    + cbn [stepn] in H. injection H as _ <-. reflexivity.
    + cbn [stepn] in H.
      rewrite (proj2 (nth_error_None (sinline sb) (S (length sb)))) in H
        by (rewrite sinline_length; lia).
      discriminate H.
Qed.

(** * The callee and the inline form, in lockstep *)

(** the callee's state [sc] against the inline state [s]: equal up to S and the two marker cells
    [m1], [m2], which hold [v1], [v2] on the callee's side; [S0], [S2]: the two stack pointers *)
Definition crel (m1 m2 v1 v2 S0 S2 : Z) (s sc : mstate) : Prop :=
  mrel m1 m2 s sc /\ rS s = S0 /\ rS sc = S2 /\
  mget (mem sc) m1 = v1 /\ mget (mem sc) m2 = v2.

Section Lockstep.
  Variable cfg : config.
  Hypothesis Hports : ports cfg = [].
  Variable sb : list sline.
  Hypothesis Hok : body_ok cfg sb.
  Variables m1 m2 v1 v2 S0 S2 : Z.
  Hypothesis Hm1 : 256 <= m1 < 512.
  Hypothesis Hm2 : 256 <= m2 < 512.

  Notation R := (crel m1 m2 v1 v2 S0 S2).

  (** what one line of the body does on both sides *)
  Lemma line_cases : forall pc x, nth_error sb pc = Some x ->
    (x = SIns JMP (OLbl ".endof") false ".endof" \/ exists raw, x = SIns JMP (OLbl ".endof") false raw)
    \/ (sret x = x /\ safe_sline cfg x /\
        forall m l p raw, x = SIns m (OLbl l) p raw -> l <> ".endof"%string).
  Proof.
    intros pc x Hn. destruct Hok as (Hsafe & _ & Huse).
    pose proof (nth_error_In _ _ Hn) as Hin.
    destruct x as [y|m o p raw|t|]; try (right; split; [reflexivity|split; [apply (Hsafe _ Hin)|intros; discriminate]]).
    destruct o as [|v|y k ix|y k|l];
      try (right; split; [destruct m; reflexivity|split; [apply (Hsafe _ Hin)|intros; discriminate]]).
    destruct (String.eqb_spec l ".endof") as [->|Nl].
    - destruct (Huse m p raw Hin) as (-> & ->). left. right. exists raw. reflexivity.
    - right. split.
      + unfold sret. destruct m; try reflexivity. destruct p; try reflexivity.
        destruct (String.eqb_spec l ".endof"); [contradiction|reflexivity].
      + split; [apply (Hsafe _ Hin)|]. intros m' l' p' raw' E. injection E as _ <- _ _. exact Nl.
  Qed.

  Lemma R_step : forall s sc m o, R s sc -> stack_free m = true -> op_safe cfg m o ->
    match exec cfg m o s, exec cfg m o sc with
    | XOk s' k fl, XOk sc' kc flc => fl = flc /\ R s' sc'
    | XFault _, XFault _ => True
    | _, _ => False
    end.
  Proof.
    intros s sc m o (Hr & E0 & E2 & K1 & K2) Hsf Hs.
    pose proof (exec_mrel cfg Hports m1 m2 Hm1 Hm2 m o s sc Hr Hsf Hs) as H.
    unfold xres_rel in H.
    destruct (exec cfg m o s) as [s' k fl|w]; destruct (exec cfg m o sc) as [sc' kc flc|wc];
      try contradiction; [|exact I].
    destruct H as (_ & Efl & Hr' & ES & ESc & M1 & M2).
    split; [exact Efl|]. split; [exact Hr'|]. repeat split; congruence.
  Qed.

  (** the inline form reaches its end => the callee reaches an RTS, in related states *)
  Lemma sim_fwd : forall n pc s sc s', (pc <= length sb)%nat -> R s sc ->
    stepn cfg (sinline sb) n pc s = Some (S (length sb), s') ->
    exists n' pr sc', (n' <= n)%nat /\ stepn cfg (scallee sb) n' pc sc = Some (pr, sc') /\
      is_rts (scallee sb) pr /\ R s' sc'.
  Proof.
    induction n as [|n IH]; intros pc s sc s' Hpc Hr H.
    - cbn [stepn] in H. injection H as E _. lia.
    - destruct (Nat.eq_dec pc (length sb)) as [->|Npc].
      + pose proof (stepn_from_endof cfg sb (S n) s _ s' H eq_refl) as ->.
        exists O, (length sb), sc. split; [lia|]. split; [reflexivity|].
        split; [exists ONone, false, ""%string; apply nth_scallee_end|exact Hr].
      + assert (Hlt : (pc < length sb)%nat) by lia.
        cbn [stepn] in H. rewrite (nth_sinline sb pc Hlt) in H.
        destruct (nth_error sb pc) as [x|] eqn:En; [|apply nth_error_None in En; lia].
        destruct (line_cases pc x En) as [Hj|(Hsr & Hsafe & Hne)].
        * (* JMP .endof : RTS on the callee's side *)
          assert (Ex : exists raw, x = SIns JMP (OLbl ".endof") false raw)
            by (destruct Hj as [->|Hj]; [exists ".endof"%string; reflexivity|exact Hj]).
          destruct Ex as (raw & ->). cbn [exec] in H.
          rewrite (find_label_endof sb (proj1 (proj2 Hok))) in H.
          pose proof (stepn_from_endof cfg sb n s _ s' H eq_refl) as ->.
          exists O, pc, sc. split; [lia|]. split; [reflexivity|]. split; [|exact Hr].
          exists ONone, false, ""%string. rewrite (nth_scallee sb pc Hlt), En. reflexivity.
        * assert (Hc : nth_error (scallee sb) pc = Some x)
            by (rewrite (nth_scallee sb pc Hlt), En; cbn [option_map]; rewrite Hsr; reflexivity).
          destruct x as [y|m o p raw|t|].
          -- destruct (IH (S pc) s sc s' ltac:(lia) Hr H) as (n' & pr & sc' & Hn' & Hs' & Hrt & Hr').
             exists (S n'), pr, sc'. split; [lia|]. split; [|split; assumption].
             cbn [stepn]. rewrite Hc. exact Hs'.
          -- destruct Hsafe as (Hsf & Hos).
             pose proof (R_step s sc m o Hr Hsf Hos) as Hx.
             destruct (exec cfg m o s) as [s1 k fl|w] eqn:E1; [|discriminate H].
             destruct (exec cfg m o sc) as [sc1 kc flc|wc] eqn:E2; [|contradiction].
             destruct Hx as (<- & Hr1).
             destruct fl as [|l|f| |]; try discriminate H.
             ++ destruct (IH (S pc) s1 sc1 s' ltac:(lia) Hr1 H) as (n' & pr & sc' & Hn' & Hs' & Hrt & Hr').
                exists (S n'), pr, sc'. split; [lia|]. split; [|split; assumption].
                cbn [stepn]. rewrite Hc, E2. exact Hs'.
             ++ pose proof (exec_goto_inv cfg m o s s1 k l E1) as ->.
                assert (Nl : l <> ".endof"%string) by (apply (Hne m l p raw eq_refl)).
                destruct (find_label l (sinline sb) 0) as [k'|] eqn:Ef; [|discriminate H].
                pose proof (find_label_lt l sb k' Nl Ef) as Hk'.
                destruct (IH k' s1 sc1 s' ltac:(lia) Hr1 H) as (n' & pr & sc' & Hn' & Hs' & Hrt & Hr').
                exists (S n'), pr, sc'. split; [lia|]. split; [|split; assumption].
                cbn [stepn]. rewrite Hc, E2, (find_label_sret l sb 0 Nl), Ef. exact Hs'.
          -- contradiction.
          -- destruct (IH (S pc) s sc s' ltac:(lia) Hr H) as (n' & pr & sc' & Hn' & Hs' & Hrt & Hr').
             exists (S n'), pr, sc'. split; [lia|]. split; [|split; assumption].
             cbn [stepn]. rewrite Hc. exact Hs'.
  Qed.

  (** the callee reaches an RTS => the inline form reaches its end, in related states *)
  Lemma sim_bwd : forall n pc s sc pr sc', (pc <= length sb)%nat -> R s sc ->
    stepn cfg (scallee sb) n pc sc = Some (pr, sc') -> is_rts (scallee sb) pr ->
    exists n' s', (n' <= n + 2)%nat /\
      stepn cfg (sinline sb) n' pc s = Some (S (length sb), s') /\ R s' sc'.
  Proof.
    induction n as [|n IH]; intros pc s sc pr sc' Hpc Hr H Hrts.
    - cbn [stepn] in H. injection H as <- <-.
      destruct (Nat.eq_dec pc (length sb)) as [->|Npc].
      + exists 1%nat, s. split; [lia|]. split; [|exact Hr].
        cbn [stepn]. rewrite nth_sinline_end. reflexivity.
      + assert (Hlt : (pc < length sb)%nat) by lia.
        destruct Hrts as (o' & p' & raw' & Hn). rewrite (nth_scallee sb pc Hlt) in Hn.
        destruct (nth_error sb pc) as [x|] eqn:En; [|discriminate Hn]. cbn [option_map] in Hn.
        destruct (line_cases pc x En) as [Hj|(Hsr & Hsafe & _)].
        * assert (Ex : exists raw, x = SIns JMP (OLbl ".endof") false raw)
            by (destruct Hj as [->|Hj]; [exists ".endof"%string; reflexivity|exact Hj]).
          destruct Ex as (raw & ->).
          exists 2%nat, s. split; [lia|]. split; [|exact Hr].
          cbn [stepn]. rewrite (nth_sinline sb pc Hlt), En. cbn [exec].
          rewrite (find_label_endof sb (proj1 (proj2 Hok))), nth_sinline_end. reflexivity.
        * exfalso. rewrite Hsr in Hn. injection Hn as ->.
          destruct Hsafe as (Hsf & _). discriminate Hsf.
    - destruct (Nat.eq_dec pc (length sb)) as [->|Npc].
      + cbn [stepn] in H. rewrite nth_scallee_end in H. unfold srts in H. cbn [exec] in H.
        discriminate H.
      + assert (Hlt : (pc < length sb)%nat) by lia.
        cbn [stepn] in H. rewrite (nth_scallee sb pc Hlt) in H.
        destruct (nth_error sb pc) as [x|] eqn:En; [|apply nth_error_None in En; lia].
        cbn [option_map] in H.
        destruct (line_cases pc x En) as [Hj|(Hsr & Hsafe & Hne)].
        * assert (Ex : exists raw, x = SIns JMP (OLbl ".endof") false raw)
            by (destruct Hj as [->|Hj]; [exists ".endof"%string; reflexivity|exact Hj]).
          destruct Ex as (raw & ->). cbn [sret] in H. cbn [String.eqb Ascii.eqb Bool.eqb] in H.
          cbn [exec] in H. discriminate H.
        * rewrite Hsr in H.
          assert (Hi : nth_error (sinline sb) pc = Some x) by (rewrite (nth_sinline sb pc Hlt); exact En).
          destruct x as [y|m o p raw|t|].
          -- destruct (IH (S pc) s sc pr sc' ltac:(lia) Hr H Hrts) as (n' & s' & Hn' & Hs' & Hr').
             exists (S n'), s'. split; [lia|]. split; [|exact Hr']. cbn [stepn]. rewrite Hi. exact Hs'.
          -- destruct Hsafe as (Hsf & Hos).
             pose proof (R_step s sc m o Hr Hsf Hos) as Hx.
             destruct (exec cfg m o sc) as [sc1 kc flc|wc] eqn:E2; [|discriminate H].
             destruct (exec cfg m o s) as [s1 k fl|w] eqn:E1; [|contradiction].
             destruct Hx as (-> & Hr1).
             destruct flc as [|l|f| |]; try discriminate H.
             ++ destruct (IH (S pc) s1 sc1 pr sc' ltac:(lia) Hr1 H Hrts) as (n' & s' & Hn' & Hs' & Hr').
                exists (S n'), s'. split; [lia|]. split; [|exact Hr'].
                cbn [stepn]. rewrite Hi, E1. exact Hs'.
             ++ pose proof (exec_goto_inv cfg m o s s1 k l E1) as ->.
                assert (Nl : l <> ".endof"%string) by (apply (Hne m l p raw eq_refl)).
                rewrite (find_label_sret l sb 0 Nl) in H.
                destruct (find_label l (sinline sb) 0) as [k'|] eqn:Ef; [|discriminate H].
                pose proof (find_label_lt l sb k' Nl Ef) as Hk'.
                destruct (IH k' s1 sc1 pr sc' ltac:(lia) Hr1 H Hrts) as (n' & s' & Hn' & Hs' & Hr').
                exists (S n'), s'. split; [lia|]. split; [|exact Hr'].
                cbn [stepn]. rewrite Hi, E1, Ef. exact Hs'.
          -- contradiction.
          -- destruct (IH (S pc) s sc pr sc' ltac:(lia) Hr H Hrts) as (n' & s' & Hn' & Hs' & Hr').
             exists (S n'), s'. split; [lia|]. split; [|exact Hr']. cbn [stepn]. rewrite Hi. exact Hs'.
  Qed.
End Lockstep.
Print Assumptions sim_fwd.
Print Assumptions sim_bwd.

(** * [ret_of_endof_runs] *)

Lemma enter_crel : forall d s, 0 <= rS s < 256 ->
  crel (256 + rS s) (256 + byte (rS s - 1)) (byte d) (byte (255 - d)) (rS s) (rS (enter d s))
       s (enter d s).
Proof.
  intros d s HS. unfold crel, mrel, enter, push, byte. cbn [rA rX rY rS fN fV fZ fC mem set_sp set_mem].
  repeat split; try reflexivity.
  - intros a Ha N1 N2. rewrite !mget_mset_other by lia. reflexivity.
  - rewrite mget_mset_other by lia. apply mget_mset_same.
  - apply mget_mset_same.
Qed.

(** The out-of-line form [out_of_line body] (lines [scallee sb]) of an inlinable body, entered at
    its first line under ANY call stack, in the state the [JSR] enters it with ([enter d s]: the
    two markers pushed), goes to one of its RTS lines whenever the inline form (the body, then its
    [.endof] label: [sinline sb]) started in [s] reaches its end; the state [sc'] it is then in
    and the final state [s'] of the inline form have the same A, X, Y, flags and memory except
    the two marker cells, which still hold the markers; S is the S it was entered with, and the
    inline form has not changed S ([crel]). *)
Theorem ret_of_endof_runs : forall cfg prog body sb f stack d s n s',
  ports cfg = [] -> slines_of body = Some sb -> body_ok cfg sb -> 0 <= rS s < 256 ->
  stepn cfg (sinline sb) n 0 s = Some (S (length sb), s') ->
  slines_of (out_of_line body) = Some (scallee sb) /\
  exists pr sc',
    goes cfg prog f (scallee sb) stack 0 (enter d s) pr sc' /\ is_rts (scallee sb) pr /\
    crel (256 + rS s) (256 + byte (rS s - 1)) (byte d) (byte (255 - d)) (rS s) (rS (enter d s))
         s' sc'.
Proof.
  intros cfg prog body sb f stack d s n s' Hp Hsb Hok HS H.
  split; [apply slines_of_out_of_line; exact Hsb|].
  assert (R1 : 256 <= 256 + rS s < 512) by lia.
  assert (R2 : 256 <= 256 + byte (rS s - 1) < 512) by (unfold byte; lia).
  destruct (sim_fwd cfg Hp sb Hok (256 + rS s) (256 + byte (rS s - 1)) (byte d) (byte (255 - d))
              (rS s) (rS (enter d s)) R1 R2
              n 0%nat s (enter d s) s' (Nat.le_0_l _) (enter_crel d s HS) H)
    as (n' & pr & sc' & _ & Hs & Hr & HR).
  exists pr, sc'. split; [apply (goes_stepn cfg prog f _ stack n' _ _ _ _ Hs)|]. split; assumption.
Qed.
Print Assumptions ret_of_endof_runs.

(** conversely: if the out-of-line form reaches an RTS, the inline form reaches its end *)
Theorem ret_of_endof_runs_conv : forall cfg body sb d s n pr sc',
  ports cfg = [] -> slines_of body = Some sb -> body_ok cfg sb -> 0 <= rS s < 256 ->
  stepn cfg (scallee sb) n 0 (enter d s) = Some (pr, sc') -> is_rts (scallee sb) pr ->
  exists n' s', stepn cfg (sinline sb) n' 0 s = Some (S (length sb), s') /\
    crel (256 + rS s) (256 + byte (rS s - 1)) (byte d) (byte (255 - d)) (rS s) (rS (enter d s))
         s' sc'.
Proof.
  intros cfg body sb d s n pr sc' Hp Hsb Hok HS H Hr.
  assert (R1 : 256 <= 256 + rS s < 512) by lia.
  assert (R2 : 256 <= 256 + byte (rS s - 1) < 512) by (unfold byte; lia).
  destruct (sim_bwd cfg Hp sb Hok (256 + rS s) (256 + byte (rS s - 1)) (byte d) (byte (255 - d))
              (rS s) (rS (enter d s)) R1 R2
              n 0%nat s (enter d s) pr sc' (Nat.le_0_l _) (enter_crel d s HS) H Hr)
    as (n' & s' & _ & Hs & HR).
  exists n', s'. split; assumption.
Qed.
Print Assumptions ret_of_endof_runs_conv.

(** * [inline_equals_call] *)

(** the same registers (S included) and flags, the same memory except the two cells of the stack
    page where a [JSR] executed with the stack pointer [S0] leaves its markers *)
Definition eq_but_markers (s1 s2 : mstate) (S0 : Z) : Prop :=
  rA s1 = rA s2 /\ rX s1 = rX s2 /\ rY s1 = rY s2 /\ rS s1 = rS s2 /\
  fN s1 = fN s2 /\ fV s1 = fV s2 /\ fZ s1 = fZ s2 /\ fC s1 = fC s2 /\
  forall a, 0 <= a -> a <> 256 + S0 -> a <> 256 + byte (S0 - 1) ->
    mget (mem s1) a = mget (mem s2) a.

(** a run of [stepn] to the end of the code is a run of [runb] (depth 0) to [BEnd] *)
Lemma stepn_runb : forall cfg prog inl_sem ext_call c n pc s s' fname stack fuel tr cy,
  stepn cfg c n pc s = Some (length c, s') ->
  exists tr' cy',
    runb cfg prog inl_sem ext_call (n + S fuel) fname c pc stack 0 s tr cy = BEnd (S fuel) s' tr' cy'.
Proof.
  intros cfg prog inl_sem ext_call c. induction n as [|n IH];
    intros pc s s' fname stack fuel tr cy H.
  - cbn [stepn] in H. injection H as -> <-. cbn [Nat.add]. rewrite runb_S. unfold step.
    rewrite (proj2 (nth_error_None c (length c))) by lia. eauto.
  - cbn [stepn] in H. cbn [Nat.add]. rewrite runb_S. unfold step.
    destruct (nth_error c pc) as [[l|m o p raw|t|]|]; try discriminate H.
    + apply (IH _ _ _ _ _ _ _ _ H).
    + destruct (exec cfg m o s) as [s1 k fl|w]; [|discriminate H]. cbv zeta.
      destruct fl as [|l|f| |]; try discriminate H.
      * apply (IH _ _ _ _ _ _ _ _ H).
      * destruct (find_label l c 0) as [k'|]; [|discriminate H]. apply (IH _ _ _ _ _ _ _ _ H).
    + apply (IH _ _ _ _ _ _ _ _ H).
Qed.

(** The caller, up to the call: [sd].  Spelled with the call its lines are
    [c1 = sd ++ [JSR f] ++ post1], the program table holding [out_of_line body] for [f]; with the
    expansion they are [c2 = sd ++ blk' ++ post2], [blk'] the body and its exit label with the
    suffix [inlineN]: [slines_of (push_code dst body n) = Some (sd ++ blk')].
    If the inline form of the body, started in [s], reaches its end in [s2], then
      - [c1] goes from the [JSR] to the line after it, in a state [s1];
      - [c2] goes from the first line of the expansion to the line after [.endofinlineN], in [s2]
        (for every fuel, trace and cycle count; from [C14_expansion_behaves_like_body]);
      - [s1] and [s2] have the same A, X, Y, S, flags, and the same memory except the two cells of
        the stack page below S, where the [JSR] left its markers.
    Whatever follows ([post1], [post2]) and whatever the call stack. *)
Theorem inline_equals_call : forall cfg prog inl_sem ext_call (dst body : code) (n : N) sd sb
    f fname stack post1 post2 p raw s k s2,
  ports cfg = [] ->
  slines_of dst = Some sd -> slines_of body = Some sb -> jump_ops_nonempty body ->
  (forall t, In t (local_targets body) -> In t (all_labels body) \/ t = ".endof"%string) ->
  (forall l, In l (all_labels dst) -> forall l0, l <> suffix_of n l0) ->
  body_ok cfg sb ->
  find_func f prog = Some (scallee sb) ->
  0 <= rS s < 256 ->
  stepn cfg (sinline sb) k 0 s = Some (S (length sb), s2) ->
  let blk' := map (rename_sline (suffix_of n)) (sinline sb) in
  slines_of (push_code dst body n) = Some (sd ++ blk') /\
  slines_of (out_of_line body) = Some (scallee sb) /\
  (exists s1,
     goes cfg prog fname (sd ++ [SIns JSR (OLbl f) p raw] ++ post1) stack (length sd) s
          (S (length sd)) s1 /\
     eq_but_markers s1 s2 (rS s)) /\
  (forall fuel tr cy, exists tr' cy',
     run cfg prog inl_sem ext_call (k + S fuel) fname (sd ++ blk' ++ post2) (length sd) stack s tr cy
     = run cfg prog inl_sem ext_call (S fuel) fname (sd ++ blk' ++ post2)
           (length sd + length blk') stack s2 tr' cy').
Proof.
  intros cfg prog inl_sem ext_call dst body n sd sb f fname stack post1 post2 p raw s k s2
    Hp Hd Hb Hne Hcl Hfr Hok Hf HS Hk blk'.
  destruct (push_code_run cfg prog inl_sem ext_call dst body n sd sb Hd Hb Hne Hcl Hfr)
    as (Hpc & _ & _ & Hspec).
  split; [exact Hpc|]. split; [apply slines_of_out_of_line; exact Hb|]. split.
  - destruct (ret_of_endof_runs cfg prog body sb f
                ((fname, sd ++ [SIns JSR (OLbl f) p raw] ++ post1, S (length sd)) :: stack)
                (Z.of_nat (length stack) + 1) s k s2 Hp Hb Hok HS Hk)
      as (_ & pr & sc' & Hg & Hr & (Hm & E0 & E2 & K1 & K2)).
    exists (set_sp sc' (rS s)). split.
    + apply (call_rule cfg prog fname _ stack (length sd) s f (scallee sb) p raw pr sc');
        [apply nth_error_mid|exact Hf|exact HS|exact Hg|exact Hr|exact E2|exact K1|exact K2].
    + destruct Hm as (EA & EX & EY & EN & EV & EZ & EC & Hmem).
      unfold eq_but_markers. cbn [rA rX rY rS fN fV fZ fC mem set_sp].
      repeat split; try assumption; try (symmetry; assumption).
  - intros fuel tr cy.
    assert (Hk' : stepn cfg (sinline sb) k 0 s = Some (length (sinline sb), s2))
      by (rewrite sinline_length; exact Hk).
    destruct (stepn_runb cfg prog inl_sem ext_call (sinline sb) k 0%nat s s2 fname stack fuel tr cy Hk')
      as (tr1 & cy1 & Hrun).
    pose proof (Hspec post2 fname stack (k + S fuel)%nat s tr cy) as Hs.
    unfold sinline in Hrun. rewrite Hrun in Hs. destruct Hs as (tr2 & _ & Hs).
    exists tr2, cy1. exact Hs.
Qed.
Print Assumptions inline_equals_call.

(** conversely: if the callee, entered by the [JSR], reaches one of its RTS lines, then the inline
    form reaches its end, and both callers go past the call / the expansion in states equal but
    for the markers *)
Theorem inline_equals_call_conv : forall cfg prog inl_sem ext_call (dst body : code) (n : N) sd sb
    f fname stack post1 post2 p raw s j pr sc',
  ports cfg = [] ->
  slines_of dst = Some sd -> slines_of body = Some sb -> jump_ops_nonempty body ->
  (forall t, In t (local_targets body) -> In t (all_labels body) \/ t = ".endof"%string) ->
  (forall l, In l (all_labels dst) -> forall l0, l <> suffix_of n l0) ->
  body_ok cfg sb ->
  find_func f prog = Some (scallee sb) ->
  0 <= rS s < 256 ->
  stepn cfg (scallee sb) j 0 (enter (Z.of_nat (length stack) + 1) s) = Some (pr, sc') ->
  is_rts (scallee sb) pr ->
  let blk' := map (rename_sline (suffix_of n)) (sinline sb) in
  exists k s2,
    stepn cfg (sinline sb) k 0 s = Some (S (length sb), s2) /\
    (exists s1,
       goes cfg prog fname (sd ++ [SIns JSR (OLbl f) p raw] ++ post1) stack (length sd) s
            (S (length sd)) s1 /\
       eq_but_markers s1 s2 (rS s)) /\
    (forall fuel tr cy, exists tr' cy',
       run cfg prog inl_sem ext_call (k + S fuel) fname (sd ++ blk' ++ post2) (length sd) stack s tr cy
       = run cfg prog inl_sem ext_call (S fuel) fname (sd ++ blk' ++ post2)
             (length sd + length blk') stack s2 tr' cy').
Proof.
  intros cfg prog inl_sem ext_call dst body n sd sb f fname stack post1 post2 p raw s j pr sc'
    Hp Hd Hb Hne Hcl Hfr Hok Hf HS Hj Hr blk'.
  destruct (ret_of_endof_runs_conv cfg body sb _ s j pr sc' Hp Hb Hok HS Hj Hr) as (k & s2 & Hk & _).
  exists k, s2. split; [exact Hk|].
  destruct (inline_equals_call cfg prog inl_sem ext_call dst body n sd sb f fname stack post1 post2
              p raw s k s2 Hp Hd Hb Hne Hcl Hfr Hok Hf HS Hk) as (_ & _ & H1 & H2).
  split; assumption.
Qed.
Print Assumptions inline_equals_call_conv.

(** * The compiler's example: [inline void f() { if (a) return; c = 1; }  void main() { f(); b = 2; }]

    The hypotheses hold of it (layout of Proofs/GenCallFacts.v: a, b, c at 128, 129, 130) ... *)
Definition ex_sb : list sline :=
  match slines_of ex_f_inline with Some sl => sl | None => [] end.

Lemma ex_slines : slines_of ex_f_inline = Some ex_sb.
Proof. vm_compute. reflexivity. Qed.

Lemma ex_body_ok : body_ok cfg_calls ex_sb.
Proof.
  assert (Hv : forall m y p, layout cfg_calls y = Some p -> 0 <= p < 256 ->
            op_safe cfg_calls m (OMem y 0 IxNone)).
  { intros m y p L R s a md cr E. pose proof (eff_addr_range cfg_calls m s _ a md cr E) as Ra.
    unfold eff_addr in E. rewrite L in E. cbn [shape_of] in E.
    destruct (resolve m ShMem (p + 0 <? 256)) as [md'|]; [|discriminate E].
    rewrite Z.add_0_r in E. destruct md'; injection E as <- _ _; unfold byte; lia. }
  split; [|split].
  - intros x Hin. vm_compute in Hin.
    repeat match goal with H : _ \/ _ |- _ => destruct H as [H|H] end; try contradiction; subst x;
      cbn [safe_sline stack_free]; try exact I; (split; [reflexivity|]).
    + apply (Hv LDA "a"%string 128); [reflexivity|lia].
    + intros s a md cr E. discriminate E.
    + intros s a md cr E. discriminate E.
    + intros s a md cr E. discriminate E.
    + apply (Hv STA "c"%string 130); [reflexivity|lia].
  - vm_compute. intros [H|[]]. discriminate H.
  - intros m p raw Hin. vm_compute in Hin.
    repeat match goal with H : _ \/ _ |- _ => destruct H as [H|H] end; try contradiction;
      try discriminate Hin. injection Hin as <- <- _. split; reflexivity.
Qed.
Print Assumptions ex_body_ok.

(** ... so, for every state with a byte-valued S, every call stack and whatever follows: if the
    inline form of [f] ends, the call and the expansion leave the caller in states equal but for
    the two marker cells *)
Corollary ex_inline_equals_call : forall prog inl_sem ext_call fname stack post1 post2 s k s2,
  find_func "f" prog = Some (scallee ex_sb) -> 0 <= rS s < 256 ->
  stepn cfg_calls (sinline ex_sb) k 0 s = Some (S (length ex_sb), s2) ->
  let blk' := map (rename_sline (suffix_of 1)) (sinline ex_sb) in
  (exists s1,
     goes cfg_calls prog fname ([SIns JSR (OLbl "f") false "f"] ++ post1) stack 0 s 1 s1 /\
     eq_but_markers s1 s2 (rS s)) /\
  (forall fuel tr cy, exists tr' cy',
     run cfg_calls prog inl_sem ext_call (k + S fuel) fname (blk' ++ post2) 0 stack s tr cy
     = run cfg_calls prog inl_sem ext_call (S fuel) fname (blk' ++ post2) (length blk') stack s2 tr' cy').
Proof.
  intros prog inl_sem ext_call fname stack post1 post2 s k s2 Hf HS Hk blk'.
  destruct (inline_equals_call cfg_calls prog inl_sem ext_call [] ex_f_inline 1 [] ex_sb "f" fname
              stack post1 post2 false "f" s k s2 eq_refl eq_refl ex_slines) as (_ & _ & H1 & H2);
    try assumption.
  - intros i Hin Hren. unfold ex_f_inline in Hin. cbn [In] in Hin.
    repeat match goal with H : _ \/ _ |- _ => destruct H as [H|H] end; try contradiction;
      try discriminate Hin; injection Hin as <-; cbn [i_op ins] in *; try discriminate Hren;
      discriminate.
  - intros t Hin. vm_compute in Hin. destruct Hin as [<-|[<-|[]]];
      [left; vm_compute; left; reflexivity|right; reflexivity].
  - intros l [].
  - apply ex_body_ok.
  - split; [exact H1|exact H2].
Qed.
Print Assumptions ex_inline_equals_call.

(** ... and both spellings of the whole program (main with the RTS of the harness), run by
    computation from a = 0 and from a = 1, S = 255: the result is [(a, b, c, A, X, Y, S)] *)
Definition ex_prog_call : sprogram :=
  match prog_of [("f"%string, ret_of_endof ex_f_inline)] with Some p => p | None => [] end.

Definition run_ex (prog : sprogram) (main : code) (st : mstate) : option (Z * Z * Z * Z * Z * Z * Z) :=
  match slines_of (harness_fun main) with
  | Some sl =>
      match Sem.run cfg_calls prog (fun _ _ => None) (fun _ _ => None) 100 "main" sl 0 [] st [] 0%N with
      | Halt s' _ _ =>
          Some (mget (mem s') 128, mget (mem s') 129, mget (mem s') 130, rA s', rX s', rY s', rS s')
      | _ => None
      end
  | None => None
  end.

Example ex_both_spellings_a0 :
  run_ex ex_prog_call ex_main_call (st_calls 0 9) = Some (0, 2, 1, 2, 7, 2, 255) /\
  run_ex [] ex_main_inline (st_calls 0 9) = Some (0, 2, 1, 2, 7, 2, 255).
Proof. vm_compute. split; reflexivity. Qed.

Example ex_both_spellings_a1 :
  run_ex ex_prog_call ex_main_call (st_calls 1 9) = Some (1, 2, 0, 2, 7, 2, 255) /\
  run_ex [] ex_main_inline (st_calls 1 9) = Some (1, 2, 0, 2, 7, 2, 255).
Proof. vm_compute. split; reflexivity. Qed.

(** the program table of the example is the one [inline_equals_call] asks for *)
Lemma ex_prog_has_f : find_func "f" ex_prog_call = Some (scallee ex_sb).
Proof. vm_compute. reflexivity. Qed.
