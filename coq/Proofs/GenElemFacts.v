(** ELEMENTS of arrays of 16-bit objects (Model/GenElem.v) on the executable 6502 semantics, for
    ALL byte-valued states, [ports cfg = []].

    Layout hypothesis [arr16_wf cfg base pb n]: the array [base] of [n] 16-bit objects occupies the
    [2n] consecutive cells [pb .. pb+2n-1], all outside the stack page (all in page zero, or all
    from 512 on); element [k] ([0 <= k < n]) is the pair of cells [pb+k] (low), [pb+n+k] (high):
    [elem_val m pb n k] = low + 256 * high.

    [elem_inc_correct], [elem_dec_correct]   the element becomes (v + 1) / (v - 1) mod 65536
    [elem_add_const_correct], [elem_sub_const_correct]   (v + c) / (v - c) mod 65536, 0 <= c < 65536
    [elem_store_const_correct], [elem_hi_load_correct]
    [elem_inc_x_correct]   [base[X]++] for X < n
    in each case every other cell (the other elements: [elem_other]), X, Y, S are unchanged;
    [elem_inc_old_refuted], [elem_add_old_refuted]   the sequences emitted BEFORE the repair (low
    byte only), run by [Sem.run]: 0x00ff + 1 = 0x0000 instead of 0x0100;
    and the closed forms of the 11 listings on a concrete layout. *)
From Coq Require Import String Ascii List Bool Arith NArith ZArith Lia ZifyBool.
From CC Require Import Base.Str Asm.Lines M6502.Isa Asm.Operand M6502.Sem
  Model.OptSem Proofs.OptSemFacts Model.GenTemplates Proofs.GenTemplatesFacts
  Model.GenSplit Proofs.GenSplitFacts Proofs.GenCmp16Facts Model.GenLoops Proofs.GenLoopsFacts
  Model.GenElem.
Import ListNotations.
Open Scope string_scope.
Open Scope list_scope.
Open Scope Z_scope.

Ltac Zify.zify_post_hook ::= Z.div_mod_to_equations.

(** * Layout *)

Definition arr16_wf (cfg : config) (base : string) (pb n : Z) : Prop :=
  split_name base /\ layout cfg base = Some pb /\ 0 < n /\ 0 <= pb /\ pb + 2 * n <= 65536 /\
  (pb + 2 * n <= 256 \/ 512 <= pb).

(** the 16-bit value of element [k] *)
Definition elem_val (m : memory) (pb n k : Z) : Z := mget m (pb + k) + 256 * mget m (pb + n + k).

(** what leaves the cells of element [k] alone leaves every other element alone *)
Lemma elem_other : forall st st' pb n k j,
  only_changes [pb + k; pb + n + k] st st' -> 0 <= pb -> 0 <= k < n -> 0 <= j < n -> j <> k ->
  elem_val (mem st') pb n j = elem_val (mem st) pb n j.
Proof.
  intros st st' pb n k j H Hpb Hk Hj Hne. unfold elem_val.
  rewrite (H (pb + j)), (H (pb + n + j)); try lia; cbn [In]; lia.
Qed.
Print Assumptions elem_other.

(** * Tactics *)

Ltac eparse_tac :=
  first [ apply parse_empty
        | apply parse_sym; [assumption|reflexivity|lia]
        | apply vn_lo; [assumption|reflexivity]
        | apply parse_imm_num; [reflexivity|lia]
        | apply parse_lbl; [reflexivity|assumption] ].

Ltac eslines_tac :=
  repeat first [ apply slines_nil
               | eapply slines_ins; [eparse_tac|]
               | eapply slines_lbl ].

Ltac elem_unfold :=
  cbn [elem_inc elem_dec elem_add_const elem_sub_const elem_store_const elem_hi_load
       inc2 dec2 addc2 subc2]; unfold elem_lo, elem_hi.

Ltac erun_tac :=
  eapply runs_to_intro with (n := 20%nat);
  [ elem_unfold; eslines_tac
  | cbn [fwd_ok targets In]; tauto
  | repeat xstep; reflexivity ].

Ltac erun_branch_tac E :=
  eapply runs_to_intro with (n := 20%nat);
  [ elem_unfold; eslines_tac
  | cbn [fwd_ok targets In]; tauto
  | repeat first [xstep | xbranch E]; reflexivity ].

Ltac emem_simp :=
  repeat match goal with
  | |- context [mget (mset ?m ?a ?v) ?b] =>
      first [ rewrite (mget_mset_eq m a b v) by lia
            | rewrite (mget_mset_other m a b v) by lia ]
  end.

Ltac epost_tac := post_tac; unfold elem_val; state_simp; rewrite ?Z.add_assoc; emem_simp.

Ltac efin_tac :=
  repeat match goal with |- _ /\ _ => split end;
  try reflexivity;
  try (let a := fresh "a" in let Ha := fresh "Ha" in let Hn := fresh "Hn" in
       intros a Ha Hn; cbn [In] in Hn; emem_simp; reflexivity).

Ltac wf_arr H :=
  destruct H as (Nb & Lb & Rn & Rb & Rb' & Sb).

(** * [e++;] / [e--;] *)
Theorem elem_inc_correct : forall cfg base n k lbl pb st,
  ports cfg = [] -> arr16_wf cfg base pb n -> 0 <= k < n -> lbl <> ""%string -> bytes_ok st ->
  exists st', halts_to cfg (elem_inc base n k lbl) st st' /\
    elem_val (mem st') pb n k = (elem_val (mem st) pb n k + 1) mod 65536 /\
    only_changes [pb + k; pb + n + k] st st' /\ keeps_xys st st'.
Proof.
  intros cfg base n k lbl pb st Hp W Rk Hl (HA & HX & HY & HS & HM). wf_arr W.
  destruct (byte (mget (mem st) (pb + k) + 1) =? 0) eqn:E.
  - eexists. split; [apply runs_to_halts_to; erun_branch_tac E|]. epost_tac. efin_tac.
    apply Z.eqb_eq in E. mem_ranges HM. arith_tac.
  - eexists. split; [apply runs_to_halts_to; erun_branch_tac E|]. epost_tac. efin_tac.
    apply Z.eqb_neq in E. mem_ranges HM. arith_tac.
Qed.
Print Assumptions elem_inc_correct.

Theorem elem_dec_correct : forall cfg base n k lbl pb st,
  ports cfg = [] -> arr16_wf cfg base pb n -> 0 <= k < n -> lbl <> ""%string -> bytes_ok st ->
  exists st', halts_to cfg (elem_dec base n k lbl) st st' /\
    elem_val (mem st') pb n k = (elem_val (mem st) pb n k - 1) mod 65536 /\
    only_changes [pb + k; pb + n + k] st st' /\ keeps_xys st st'.
Proof.
  intros cfg base n k lbl pb st Hp W Rk Hl (HA & HX & HY & HS & HM). wf_arr W.
  destruct (mget (mem st) (pb + k) =? 0) eqn:E.
  - eexists. split; [apply runs_to_halts_to; erun_branch_tac E|]. epost_tac. efin_tac.
    apply Z.eqb_eq in E. mem_ranges HM. arith_tac.
  - eexists. split; [apply runs_to_halts_to; erun_branch_tac E|]. epost_tac. efin_tac.
    apply Z.eqb_neq in E. mem_ranges HM. arith_tac.
Qed.
Print Assumptions elem_dec_correct.

(** * [e += c;] / [e -= c;] / [e = c;] / [dst = e >> 8;] *)
Theorem elem_add_const_correct : forall cfg base n k c pb st,
  ports cfg = [] -> arr16_wf cfg base pb n -> 0 <= k < n -> 0 <= c < 65536 -> bytes_ok st ->
  exists st', halts_to cfg (elem_add_const base n k c) st st' /\
    elem_val (mem st') pb n k = (elem_val (mem st) pb n k + c) mod 65536 /\
    only_changes [pb + k; pb + n + k] st st' /\ keeps_xys st st'.
Proof.
  intros cfg base n k c pb st Hp W Rk Rc (HA & HX & HY & HS & HM). wf_arr W.
  eexists. split; [apply runs_to_halts_to; erun_tac|]. epost_tac. efin_tac.
  mem_ranges HM. arith_tac.
Qed.
Print Assumptions elem_add_const_correct.

Theorem elem_sub_const_correct : forall cfg base n k c pb st,
  ports cfg = [] -> arr16_wf cfg base pb n -> 0 <= k < n -> 0 <= c < 65536 -> bytes_ok st ->
  exists st', halts_to cfg (elem_sub_const base n k c) st st' /\
    elem_val (mem st') pb n k = (elem_val (mem st) pb n k - c) mod 65536 /\
    only_changes [pb + k; pb + n + k] st st' /\ keeps_xys st st'.
Proof.
  intros cfg base n k c pb st Hp W Rk Rc (HA & HX & HY & HS & HM). wf_arr W.
  eexists. split; [apply runs_to_halts_to; erun_tac|]. epost_tac. efin_tac.
  mem_ranges HM. arith_tac.
Qed.
Print Assumptions elem_sub_const_correct.

Theorem elem_store_const_correct : forall cfg base n k c pb st,
  ports cfg = [] -> arr16_wf cfg base pb n -> 0 <= k < n -> 0 <= c < 65536 ->
  exists st', halts_to cfg (elem_store_const base n k c) st st' /\
    elem_val (mem st') pb n k = c /\
    only_changes [pb + k; pb + n + k] st st' /\ keeps_xys st st'.
Proof.
  intros cfg base n k c pb st Hp W Rk Rc. wf_arr W.
  eexists. split; [apply runs_to_halts_to; erun_tac|]. epost_tac. efin_tac. arith_tac.
Qed.
Print Assumptions elem_store_const_correct.

Theorem elem_hi_load_correct : forall cfg dst base n k pb pd st,
  ports cfg = [] -> arr16_wf cfg base pb n -> 0 <= k < n ->
  var_name dst -> layout cfg dst = Some pd -> 0 <= pd < 65536 -> bytes_ok st ->
  exists st', halts_to cfg (elem_hi_load dst base n k) st st' /\
    mget (mem st') pd = elem_val (mem st) pb n k / 256 /\
    only_changes [pd] st st' /\ keeps_xys st st'.
Proof.
  intros cfg dst base n k pb pd st Hp W Rk Nd Ld Rd (HA & HX & HY & HS & HM). wf_arr W.
  eexists. split; [apply runs_to_halts_to; erun_tac|]. epost_tac. efin_tac.
  mem_ranges HM. arith_tac.
Qed.
Print Assumptions elem_hi_load_correct.

(** * [base[X]++;] *)

(** [INC base+k,X]: the cell [a0+k+X], when the index does not leave page zero (zero-page,X wraps)
    nor the address space *)
Lemma exec_inc_x : forall cfg s y k a0, ports cfg = [] -> layout cfg y = Some a0 ->
  0 <= a0 + k -> 0 <= rX s ->
  (a0 + k + rX s < 256 \/ (256 <= a0 + k /\ a0 + k + rX s < 65536)) ->
  exists cy, exec cfg INC (OMem y k IxX) s = XOk (rmw_mem_sem INC s (a0 + k + rX s)) cy FNext.
Proof.
  intros cfg s y k a0 Hp Hl H0 Hx Hr. unfold exec, eff_addr. rewrite Hl. cbn [shape_of].
  destruct (Z.ltb_spec (a0 + k) 256) as [Hz|Hz].
  - change (resolve INC ShMemX true) with (Some ZpX). cbv iota beta.
    rewrite Hp. cbn [read_addr write_addr]. replace (byte (a0 + k + rX s)) with (a0 + k + rX s)
      by (unfold byte; rewrite Z.mod_small; lia).
    eexists. reflexivity.
  - change (resolve INC ShMemX false) with (Some AbsX). cbv iota beta.
    rewrite Hp. cbn [read_addr write_addr]. rewrite (Z.mod_small (a0 + k + rX s)) by lia.
    eexists. reflexivity.
Qed.
Print Assumptions exec_inc_x.

Lemma slines_elem_inc_x : forall base n lbl, split_name base -> 0 <= n -> lbl <> ""%string ->
  slines_of (elem_inc_x base n lbl)
  = Some [SIns INC (OMem base 0 IxX) false (idx (sym base 0) RegX); SIns BNE (OLbl lbl) false lbl;
          SIns INC (OMem base n IxX) false (idx (sym base n) RegX); SLbl lbl].
Proof.
  intros base n lbl Nb Hn Hl. unfold elem_inc_x, inc2.
  repeat first [ apply slines_nil
               | eapply slines_ins;
                   [first [ apply (parse_sym_idx _ _ _ RegX); [assumption|reflexivity|lia]
                          | apply parse_lbl; [reflexivity|assumption] ]|]
               | eapply slines_lbl ].
Qed.
Print Assumptions slines_elem_inc_x.

Theorem elem_inc_x_correct : forall cfg base n lbl pb st,
  ports cfg = [] -> arr16_wf cfg base pb n -> rX st < n -> lbl <> ""%string -> bytes_ok st ->
  exists st', halts_to cfg (elem_inc_x base n lbl) st st' /\
    elem_val (mem st') pb n (rX st) = (elem_val (mem st) pb n (rX st) + 1) mod 65536 /\
    only_changes [pb + rX st; pb + n + rX st] st st' /\ keeps_xys st st'.
Proof.
  intros cfg base n lbl pb st Hp W Rx Hl (HA & HX & HY & HS & HM). wf_arr W.
  destruct (exec_inc_x cfg st base 0 pb Hp Lb ltac:(lia) ltac:(lia) ltac:(lia)) as (c1 & E1).
  rewrite Z.add_0_r in E1.
  destruct (exec_inc_x cfg (rmw_mem_sem INC st (pb + rX st)) base n pb Hp Lb ltac:(lia)
              ltac:(cbn; lia) ltac:(cbn; lia)) as (c2 & E2).
  cbn [rX rmw_mem_sem set_nz set_c set_mem] in E2.
  destruct (byte (mget (mem st) (pb + rX st) + 1) =? 0) eqn:E.
  - eexists. split.
    + apply runs_to_halts_to. eapply runs_to_intro with (n := 20%nat);
        [apply slines_elem_inc_x; [assumption|lia|assumption]
        |cbn [fwd_ok targets In]; tauto|].
      erewrite xf_next by exact E1. xbranch E.
      erewrite xf_next by exact E2. rewrite xf_lbl, xf_nil. reflexivity.
    + epost_tac. efin_tac. apply Z.eqb_eq in E. rewrite ?Z.add_0_r in *. mem_ranges HM. arith_tac.
  - eexists. split.
    + apply runs_to_halts_to. eapply runs_to_intro with (n := 20%nat);
        [apply slines_elem_inc_x; [assumption|lia|assumption]
        |cbn [fwd_ok targets In]; tauto|].
      erewrite xf_next by exact E1. xbranch E. rewrite xf_lbl, xf_nil. reflexivity.
    + epost_tac. efin_tac. apply Z.eqb_neq in E. rewrite ?Z.add_0_r in *. mem_ranges HM. arith_tac.
Qed.
Print Assumptions elem_inc_x_correct.

(** * The listings: [short sarr[4]; unsigned char *pa[2]; unsigned char a;] with the compiler's names *)

Corollary elisting_01_correct : forall cfg ps st,
  ports cfg = [] -> arr16_wf cfg "sarr" ps 4 -> bytes_ok st ->
  exists st', halts_to cfg (elem_inc "sarr" 4 2 ".ifend1") st st' /\
    elem_val (mem st') ps 4 2 = (elem_val (mem st) ps 4 2 + 1) mod 65536 /\
    only_changes [ps + 2; ps + 4 + 2] st st' /\ keeps_xys st st'.
Proof. intros cfg ps st Hp W Hb. apply elem_inc_correct; try assumption; try lia. discriminate. Qed.
Print Assumptions elisting_01_correct.

Corollary elisting_02_correct : forall cfg ps st,
  ports cfg = [] -> arr16_wf cfg "sarr" ps 4 -> bytes_ok st ->
  exists st', halts_to cfg (elem_dec "sarr" 4 1 ".ifend1") st st' /\
    elem_val (mem st') ps 4 1 = (elem_val (mem st) ps 4 1 - 1) mod 65536 /\
    only_changes [ps + 1; ps + 4 + 1] st st' /\ keeps_xys st st'.
Proof. intros cfg ps st Hp W Hb. apply elem_dec_correct; try assumption; try lia. discriminate. Qed.
Print Assumptions elisting_02_correct.

Corollary elisting_03_correct : forall cfg pq st,
  ports cfg = [] -> arr16_wf cfg "pa" pq 2 -> bytes_ok st ->
  exists st', halts_to cfg (elem_inc "pa" 2 1 ".ifend1") st st' /\
    elem_val (mem st') pq 2 1 = (elem_val (mem st) pq 2 1 + 1) mod 65536 /\
    only_changes [pq + 1; pq + 2 + 1] st st' /\ keeps_xys st st'.
Proof. intros cfg pq st Hp W Hb. apply elem_inc_correct; try assumption; try lia. discriminate. Qed.
Print Assumptions elisting_03_correct.

Corollary elisting_04_correct : forall cfg pq st,
  ports cfg = [] -> arr16_wf cfg "pa" pq 2 -> bytes_ok st ->
  exists st', halts_to cfg (elem_dec "pa" 2 0 ".ifend1") st st' /\
    elem_val (mem st') pq 2 0 = (elem_val (mem st) pq 2 0 - 1) mod 65536 /\
    only_changes [pq + 0; pq + 2 + 0] st st' /\ keeps_xys st st'.
Proof. intros cfg pq st Hp W Hb. apply elem_dec_correct; try assumption; try lia. discriminate. Qed.
Print Assumptions elisting_04_correct.

Corollary elisting_05_correct : forall cfg ps st,
  ports cfg = [] -> arr16_wf cfg "sarr" ps 4 -> bytes_ok st ->
  exists st', halts_to cfg (elem_add_const "sarr" 4 2 1) st st' /\
    elem_val (mem st') ps 4 2 = (elem_val (mem st) ps 4 2 + 1) mod 65536 /\
    only_changes [ps + 2; ps + 4 + 2] st st' /\ keeps_xys st st'.
Proof. intros cfg ps st Hp W Hb. apply elem_add_const_correct; try assumption; lia. Qed.
Print Assumptions elisting_05_correct.

Corollary elisting_06_correct : forall cfg ps st,
  ports cfg = [] -> arr16_wf cfg "sarr" ps 4 -> bytes_ok st ->
  exists st', halts_to cfg (elem_add_const "sarr" 4 1 300) st st' /\
    elem_val (mem st') ps 4 1 = (elem_val (mem st) ps 4 1 + 300) mod 65536 /\
    only_changes [ps + 1; ps + 4 + 1] st st' /\ keeps_xys st st'.
Proof. intros cfg ps st Hp W Hb. apply elem_add_const_correct; try assumption; lia. Qed.
Print Assumptions elisting_06_correct.

Corollary elisting_07_correct : forall cfg pq st,
  ports cfg = [] -> arr16_wf cfg "pa" pq 2 -> bytes_ok st ->
  exists st', halts_to cfg (elem_add_const "pa" 2 1 1) st st' /\
    elem_val (mem st') pq 2 1 = (elem_val (mem st) pq 2 1 + 1) mod 65536 /\
    only_changes [pq + 1; pq + 2 + 1] st st' /\ keeps_xys st st'.
Proof. intros cfg pq st Hp W Hb. apply elem_add_const_correct; try assumption; lia. Qed.
Print Assumptions elisting_07_correct.

Corollary elisting_08_correct : forall cfg pq st,
  ports cfg = [] -> arr16_wf cfg "pa" pq 2 -> bytes_ok st ->
  exists st', halts_to cfg (elem_sub_const "pa" 2 0 300) st st' /\
    elem_val (mem st') pq 2 0 = (elem_val (mem st) pq 2 0 - 300) mod 65536 /\
    only_changes [pq + 0; pq + 2 + 0] st st' /\ keeps_xys st st'.
Proof. intros cfg pq st Hp W Hb. apply elem_sub_const_correct; try assumption; lia. Qed.
Print Assumptions elisting_08_correct.

Corollary elisting_09_correct : forall cfg ps st,
  ports cfg = [] -> arr16_wf cfg "sarr" ps 4 -> rX st < 4 -> bytes_ok st ->
  exists st', halts_to cfg (elem_inc_x "sarr" 4 ".ifend1") st st' /\
    elem_val (mem st') ps 4 (rX st) = (elem_val (mem st) ps 4 (rX st) + 1) mod 65536 /\
    only_changes [ps + rX st; ps + 4 + rX st] st st' /\ keeps_xys st st'.
Proof. intros cfg ps st Hp W Hx Hb. apply elem_inc_x_correct; try assumption. discriminate. Qed.
Print Assumptions elisting_09_correct.

Corollary elisting_10_correct : forall cfg ps st,
  ports cfg = [] -> arr16_wf cfg "sarr" ps 4 ->
  exists st', halts_to cfg (elem_store_const "sarr" 4 3 1000) st st' /\
    elem_val (mem st') ps 4 3 = 1000 /\
    only_changes [ps + 3; ps + 4 + 3] st st' /\ keeps_xys st st'.
Proof. intros cfg ps st Hp W. apply elem_store_const_correct; try assumption; lia. Qed.
Print Assumptions elisting_10_correct.

Corollary elisting_11_correct : forall cfg ps pa st,
  ports cfg = [] -> arr16_wf cfg "sarr" ps 4 ->
  layout cfg "a" = Some pa -> 0 <= pa < 65536 -> bytes_ok st ->
  exists st', halts_to cfg (elem_hi_load "a" "sarr" 4 2) st st' /\
    mget (mem st') pa = elem_val (mem st) ps 4 2 / 256 /\
    only_changes [pa] st st' /\ keeps_xys st st'.
Proof.
  intros cfg ps pa st Hp W La Ra Hb. apply elem_hi_load_correct; try assumption; try lia.
  apply ident_var_name; [discriminate|reflexivity].
Qed.
Print Assumptions elisting_11_correct.

(** * What the repair changed: the sequences emitted before it, run on the semantics

    sarr at 128 .. 135 (low bytes 128 .. 131, high bytes 132 .. 135), pa at 136 .. 139, a at 140 *)
Definition cfg_elem : config :=
  mkCfg (fun y =>
    if String.eqb y "sarr" then Some 128 else if String.eqb y "pa" then Some 136
    else if String.eqb y "a" then Some 140 else None) [].

Lemma cfg_elem_wf : arr16_wf cfg_elem "sarr" 128 4 /\ arr16_wf cfg_elem "pa" 136 2.
Proof.
  split; (split; [split; [discriminate|reflexivity]|]); (split; [reflexivity|lia]).
Qed.
Print Assumptions cfg_elem_wf.

(** A = 0, X = 1, Y = 2, S = 255; the cells [lo], [hi] hold [vlo], [vhi] *)
Definition st_elem (lo hi vlo vhi : Z) : mstate :=
  mkS 0 1 2 255 false false false false (mset (mset mem_empty lo vlo) hi vhi).

(** the final 16-bit value of element [k] of the array of [n] objects at [pb] *)
Definition run_elem (c : code) (pb n k : Z) (st : mstate) : option Z :=
  match slines_of c with
  | Some sl =>
      match Sem.run cfg_elem [] (fun _ _ => None) (fun _ _ => None) 40 "f" sl 0 [] st [] 0%N with
      | Halt s' _ _ => Some (elem_val (mem s') pb n k)
      | _ => None
      end
  | None => None
  end.

(** [sarr[2]++;] before the repair: one byte only *)
Definition elem_inc_old (base : string) (k : Z) : code :=
  [ins CLC ""; ins LDA (elem_lo base k); ins ADC (imm 1); ins STA (elem_lo base k)].

(** sarr[2] = 0x00ff: the old code leaves 0x0000, C (and the new code) 0x0100 = 256 *)
Example elem_inc_old_refuted :
  run_elem (elem_inc_old "sarr" 2) 128 4 2 (st_elem 130 134 255 0) = Some 0 /\
  run_elem (elem_inc "sarr" 4 2 ".ifend1") 128 4 2 (st_elem 130 134 255 0) = Some 256.
Proof. vm_compute. split; reflexivity. Qed.
Print Assumptions elem_inc_old_refuted.

(** [pa[1] += 1;] before the repair: the low byte only *)
Definition elem_add_old (base : string) (k c : Z) : code :=
  [ins LDA (elem_lo base k); ins CLC ""; ins ADC (imm c); ins STA (elem_lo base k)].

(** pa[1] = 0x00ff: the old code leaves 0x0000, the new one 0x0100 *)
Example elem_add_old_refuted :
  run_elem (elem_add_old "pa" 1 1) 136 2 1 (st_elem 137 139 255 0) = Some 0 /\
  run_elem (elem_add_const "pa" 2 1 1) 136 2 1 (st_elem 137 139 255 0) = Some 256.
Proof. vm_compute. split; reflexivity. Qed.
Print Assumptions elem_add_old_refuted.

(** the X-indexed increment with X = 1: sarr[1] = 0x01ff becomes 0x0200 *)
Example run_elem_inc_x :
  run_elem (elem_inc_x "sarr" 4 ".ifend1") 128 4 1 (st_elem 129 133 255 1) = Some 512.
Proof. vm_compute. reflexivity. Qed.
Print Assumptions run_elem_inc_x.
