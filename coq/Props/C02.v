(** C02 — optimisation never changes observable behaviour: the structural half.
    Statements only; proofs in Proofs/OptFacts.v (structure) and Proofs/OptSemFacts.v (semantics,
    see Props/C02sem.v).  Model: Model/Optimize.v, tied to src/assemble.rs optimize() by the
    unit and end-to-end correspondence of tools/props/c02.py. *)
From Coq Require Import String Ascii List Bool NArith ZArith.
From CC Require Import Base.Str Asm.Lines Model.Optimize Model.OptSpec Proofs.OptFacts.
Import ListNotations.

Theorem C02_optimize_total : forall c : code, optimize_opt c <> None.
Proof. exact optimize_total. Qed.

Theorem C02_optimize_length : forall c : code, length (fst (optimize c)) = length c.
Proof. exact optimize_length. Qed.

(** labels, comments, inline assembly and dummies never move and never change *)
Theorem C02_noninstr_fixed : forall (c : code) (k : nat) (l : line),
  nth_error c k = Some l -> is_ins l = false -> nth_error (fst (optimize c)) k = Some l.
Proof. exact optimize_noninstr_fixed. Qed.

(** the optimiser invents no instruction *)
Theorem C02_instrs_subset : forall (c : code) (i : instr),
  In (Ins i) (fst (optimize c)) -> In (Ins i) c.
Proof. exact optimize_instrs_subset. Qed.

(** the whole effect of the optimiser is a counted sequence of two rewrites: an instruction
    becomes Dummy (only if unprotected, or an immediate compare), or an LDA is exchanged with a
    following SEC/CLC across comments and dummies only *)
Theorem C02_rewrites_only : forall c : code, rws (snd (optimize c)) c (fst (optimize c)).
Proof. exact optimize_rws. Qed.

Theorem C02_count : forall c : code,
  (N.of_nat (count_occ_ins (fst (optimize c))) + snd (optimize c) = N.of_nat (count_occ_ins c))%N.
Proof. exact optimize_count. Qed.
