(** Timing and hardware-access statements as the code generator emits them at -O0, for the
    declarations [unsigned char a, b; unsigned char *const HW0 = 2; unsigned char *const HW1 = 3;]

    [strobe(r);]  [STA r]     [load(x);]  [LDA x]     [store(x);]  [STA x]     [csleep(4);]  [NOP; NOP]
    every instruction carries the PROTECTED flag: the optimiser must keep it, and the machine
    semantics (M6502/Sem.v) records its execution in the trace ([EvI mnemonic operand-text]).

    [show] (Model/GenTemplates.v) prints nothing for the protection flag: the [hlisting_NN]
    Examples pin mnemonic and operand text only (what the script compares with the compiler); the
    [hprot_NN] Examples pin the flags of the model's own lines. *)
From Coq Require Import String Ascii List Bool NArith ZArith.
From CC Require Import Base.Str Asm.Lines Model.GenTemplates Model.GenIf.
Import ListNotations.
Open Scope string_scope.
Open Scope list_scope.

(** a protected instruction *)
Definition pins (m : mnem) (op : string) : line := Ins (mkI m op 0 None 0 true).

Definition strobe_tpl (r : string) : code := [pins STA r].
Definition load_tpl (x : string) : code := [pins LDA x].
Definition store_tpl (x : string) : code := [pins STA x].
(** [csleep(4)]: two protected NOPs *)
Definition csleep4_tpl : code := [pins NOP ""; pins NOP ""].

(** * The 5 listings *)
(** strobe(HW0); *)
Example hlisting_01 : map show (strobe_tpl "HW0") =
  ["STA HW0"].
Proof. vm_compute. reflexivity. Qed.

(** load(a); *)
Example hlisting_02 : map show (load_tpl "a") =
  ["LDA a"].
Proof. vm_compute. reflexivity. Qed.

(** store(b); *)
Example hlisting_03 : map show (store_tpl "b") =
  ["STA b"].
Proof. vm_compute. reflexivity. Qed.

(** load(a); strobe(HW0); store(b); *)
Example hlisting_04 : map show (load_tpl "a" ++ strobe_tpl "HW0" ++ store_tpl "b") =
  ["LDA a"; "STA HW0"; "STA b"].
Proof. vm_compute. reflexivity. Qed.

(** strobe(HW0); csleep(4); strobe(HW1); *)
Example hlisting_05 : map show (strobe_tpl "HW0" ++ csleep4_tpl ++ strobe_tpl "HW1") =
  ["STA HW0"; "NOP "; "NOP "; "STA HW1"].
Proof. vm_compute. reflexivity. Qed.

(** every line of the two sequences is protected *)
Example hprot_04 : map is_prot (load_tpl "a" ++ strobe_tpl "HW0" ++ store_tpl "b") = [true; true; true].
Proof. reflexivity. Qed.
Example hprot_05 : map is_prot (strobe_tpl "HW0" ++ csleep4_tpl ++ strobe_tpl "HW1") = [true; true; true; true].
Proof. reflexivity. Qed.
