"""C03 — conditional branches always reach; long-branch repair preserves control flow.

proof   : Props/C03.v (in_range, repair_flow_preserved, no_panic, labels, total) on the Gallina
          model of check_branches
corr-M  : AssemblyCode::check_branches (Rust, public API) vs the extracted model on generated line
          lists sweeping every distance boundary, pairs, cascades, inline size hints, the panic path
corr-S  : on the implementation's own output: every displacement recomputed from the byte sizes;
          repaired vs original co-executed on the extracted 6502 semantics for all N/Z/C states
"""
import re
import os
from lib.common import *
from lib.asmcorr import *
from lib.coexec import *

LEVEL = 'proof'
THEOREMS = re.findall(r'^Theorem (\w+)', open(os.path.join(COQ, 'Props', 'C03.v')).read(), re.M)


def gen_flow_list(rng):
    """check_branches input whose filler is observable: every block increments its own counter"""
    nlab = rng.randrange(1, 4)
    labels = ['.t%d' % i for i in range(nlab)]
    out = []
    placed = 0
    nseg = rng.randrange(2, 6)
    ctr = 0
    for s in range(nseg):
        for _ in range(rng.randrange(0, 3)):
            t = rng.choice(labels)
            m = rng.choice(MN_BRANCH)
            out.append(('I', m, rng.choice([0, 0, 1]), 2, 2, 3, t))
            if m in ('BMI', 'BCC') and rng.random() < 0.5:
                out.append(('I', 'BEQ', 0, 2, 2, 3, t))
        target = rng.choice([rng.randrange(0, 12), rng.randrange(118, 140), rng.randrange(0, 300)])
        tot = 0
        while tot < target:
            if rng.random() < 0.5:
                out.append(('I', 'INC', 0, 2, 5, None, 'c%d' % (ctr % 8)))
                tot += 2
            else:
                out.append(('I', 'INC', 0, 3, 6, None, 'w%d' % (ctr % 8)))
                tot += 3
        ctr += 1
        if placed < nlab and (rng.random() < 0.6 or s == nseg - 1):
            out.append(('L', labels[placed]))
            placed += 1
    for l in labels[placed:]:
        out.append(('L', l))
    return out


def displacements(lines):
    """[(index, mnemonic, target, displacement)] for every conditional branch whose label is unique"""
    addr = []
    a = 0
    for l in lines:
        addr.append(a)
        if l[0] == 'I':
            a += l[3]
        elif l[0] == 'N':
            a += l[1]
    pos = {}
    for i, l in enumerate(lines):
        if l[0] == 'L':
            pos.setdefault(l[1], []).append(i)
    res = []
    for i, l in enumerate(lines):
        if l[0] == 'I' and l[1] in MN_BRANCH:
            p = pos.get(l[6], [])
            if len(p) == 1:
                res.append((i, l[1], l[6], addr[p[0]] - (addr[i] + l[3])))
    return res


def flow_layout():
    sym = {'cctmp': 0x80}
    cells = {}
    for i in range(8):
        sym['c%d' % i] = 0x90 + i
        sym['w%d' % i] = 0x300 + i
        cells['c%d' % i] = [0x90 + i]
        cells['w%d' % i] = [0x300 + i]
    return {'sym': sym, 'base': {}, 'ports': [], 'cells': cells}


def run(ctx):
    quick = ctx.tier == 'quick'
    ctx.proof_stage('Props.C03', THEOREMS)
    rng = ctx.rng
    # ---------------- corr-M
    n_unit = 4000 if quick else 60000
    cases = []
    corpus = os.path.join(CORPUS, 'C03_units.json')
    if os.path.exists(corpus):
        for k, c in enumerate(json.load(open(corpus))):
            cases.append(('corpus%d' % k, 'cb', [tuple(x) for x in c]))
    for i in range(n_unit):
        cases.append(('u%d' % i, 'cb', gen_cb_list(rng, wide=(i % 4 == 0))))
    n_flow = 400 if quick else 4000
    flow_cases = [('f%d' % i, 'cb', gen_flow_list(rng)) for i in range(n_flow)]
    n, mism, impl, model = compare_units(cases + flow_cases)
    ctx.cov['evaluations'] += n
    kinds = {}
    nontrivial = set()
    for (cid, op, ls), ri in zip(cases + flow_cases, impl):
        st, ret, size, lines = canon_impl(ri)
        key = st if st != 'ok' else ('fixes=%s' % ret)
        kinds[key] = kinds.get(key, 0) + 1
        if st == 'ok' and ret not in ('0', '-'):
            nontrivial.add(json.dumps(ls))
    ctx.cov['distinct_nontrivial'] += len(nontrivial)
    ctx.cov['correspondence']['corr-M check_branches'] = {'cases': n, 'mismatches': len(mism), 'outcomes': kinds}
    ctx.sample({'input': (cases + flow_cases)[5][2][:12], 'note': 'check_branches unit input (truncated)'})
    # ---------------- corr-S on the implementation's output (also the failure search)
    bad_range = []
    checked = 0
    for (cid, op, ls), ri in zip(cases + flow_cases, impl):
        st, ret, size, lines = canon_impl(ri)
        if st != 'ok':
            # a panic is legitimate only when some branch target is undefined
            defined = set(l[1] for l in ls if l[0] == 'L')
            undefined = [l[6] for l in ls if l[0] == 'I' and l[1] in MN_BRANCH and l[6] not in defined]
            if st == 'panic' and not undefined:
                bad_range.append({'id': cid, 'input': ls, 'why': 'panic although every branch target is defined'})
            if st == 'outoffuel':
                bad_range.append({'id': cid, 'input': ls, 'why': 'check_branches did not terminate'})
            continue
        for (i, m, t, d) in displacements(lines):
            checked += 1
            if d < -128 or d > 127:
                bad_range.append({'id': cid, 'input': ls, 'output': lines, 'why': 'branch %s %s at line %d has displacement %d' % (m, t, i, d)})
                break
    # compiled programs: inline assembly with declared sizes (also inside inline functions expanded in
    # loops and ifs) must be counted with the size the SOURCE declares when branches are checked
    from lib.gen_c import gen_program
    from lib.pipeline import compile_variants, with_declared_asm_sizes
    progs = {'p%d' % i: gen_program(rng, dict(hw=True, inline=True, asm_sized=True, calls=True, max_stmts=12, signed=False, shorts=False))
             for i in range(250 if quick else 6000)}
    comp = compile_variants({k: p.source() for k, p in progs.items()}, {'O1': ['-O1'], 'O0': ['-O0']})
    pchecked = 0
    for pid, vs in comp.items():
        decl = getattr(progs[pid], 'asm_decl', {})
        for O, r in vs.items():
            if r['status'] != 'ok':
                continue
            for f in r['funcs']:
                if f.get('final') is None or f.get('inline'):
                    continue
                lines = with_declared_asm_sizes(decl, norm_lines(f['final']))
                for (i, m, t, d) in displacements(lines):
                    pchecked += 1
                    if d < -128 or d > 127:
                        bad_range.append({'id': pid, 'program': progs[pid].source(), 'level': O, 'function': f['name'],
                                          'why': 'branch %s %s at line %d of %s has displacement %d (inline assembly counted with its declared size)' % (m, t, i, f['name'], d)})
                        break
    # the fixed enumeration of spans around the limit (tools/lib/gen_c.py long_programs), displacements recomputed
    # with the sizes the ASSEMBLER gives (not the compiler's own nb_bytes)
    from lib.gen_c import long_programs
    from lib.pipeline import real_size_range_problems
    lp = long_programs()
    lcomp = compile_variants({k: p.source() for k, p in lp.items()}, {'O1': ['-O1'], 'O0': ['-O0']})
    rp, rchecked = real_size_range_problems(lcomp)
    for x in rp:
        pid = x['id'].split('@')[0]
        bad_range.append({'id': pid, 'program': lp[pid].source(), 'level': x['id'].split('@')[1], 'function': x['function'], 'why': x['why']})
    rp2, rchecked2 = real_size_range_problems(comp)
    for x in rp2:
        pid = x['id'].split('@')[0]
        bad_range.append({'id': pid, 'program': progs[pid].source(), 'level': x['id'].split('@')[1], 'function': x['function'], 'why': x['why']})
    ctx.cov['correspondence']['corr-S displacement'] = {'branches_checked': checked, 'out_of_range': len(bad_range), 'branches_checked_in_compiled_programs': pchecked,
                                                        'branches_checked_with_assembled_sizes': rchecked + rchecked2, 'long_span_programs': len(lp)}
    # flow: original vs repaired, all N/Z/C
    lay = flow_layout()
    text = []
    flow_states = []
    for k in range(8):
        flow_states.append({'A': 1, 'X': 2, 'Y': 3, 'S': 255, 'flags': '%d0%d%d' % ((k >> 2) & 1, (k >> 1) & 1, k & 1), 'cells': {}})
    idx = {}
    for (cid, op, ls), ri in zip(flow_cases, impl[len(cases):]):
        st, ret, size, lines = canon_impl(ri)
        if st != 'ok' or ret == '0':
            continue
        t1, watch = prog_record(cid + '@orig', {'main': ls}, lay, flow_states, fuel=3000)
        t2, _ = prog_record(cid + '@fixed', {'main': lines}, lay, flow_states, fuel=6000)
        text.append(t1 + t2)
        idx[cid] = (ls, lines)
    runs = run_sem(''.join(text)) if text else {}
    flow_bad = []
    nflow = 0
    for cid, (ls, lines) in idx.items():
        for k in range(8):
            a = runs.get(cid + '@orig', {}).get(k)
            b = runs.get(cid + '@fixed', {}).get(k)
            if a is None or b is None:
                raise HarnessError('missing co-execution result for ' + cid)
            if a['tag'] != 'halt':
                continue     # the original loops forever from this state: nothing to compare within fuel
            nflow += 1
            if observable(a) != observable(b):
                flow_bad.append({'id': cid, 'flags': flow_states[k]['flags'], 'input': ls, 'output': lines,
                                 'orig': a, 'fixed': b, 'why': 'repaired code follows a different path'})
                break
    ctx.cov['correspondence']['corr-S flow'] = {'repaired_functions': len(idx), 'executions_compared': nflow, 'different': len(flow_bad)}
    ctx.cov['traces_validated_against_impl'] = nflow
    # ---------------- verdict
    for b in (bad_range + flow_bad)[:3]:
        ctx.violation('cb', b)
    if mism and not (bad_range or flow_bad):
        # the model no longer describes the code and the semantic oracles found nothing on the
        # implementation's outputs explored
        ctx.violation_noinput('correspondence Model/CheckBranches.v vs AssemblyCode::check_branches broke on %d of %d '
                              'inputs; first: %s' % (len(mism), n, json.dumps(mism[0])[:3000]), 'corr-M:check_branches')
    ctx.cov['rule'] = ('line lists with 1-6 conditional branches of every kind (and BCC/BMI+BEQ pairs), forward and '
                       'backward, padded so distances sweep 0..12, 118..140 and 0..300 bytes, with inline size hints, '
                       'comments, dummies; a quarter of them with a missing or duplicated label (panic path); '
                       'non-trivial = at least one repair performed; distinct = distinct input list')
    ctx.cov['trusted_base'] = ['Coq 8.16.1 kernel (coqc), vm_compute', 'extraction (ExtrOcamlBasic, ExtrOcamlString) of Model/CheckBranches.v and M6502/Sem.v',
                               'harness ccv (Debug-dump parser of AssemblyCode)', 'M6502/Isa.v as a transcription of the 6502 datasheet',
                               'nb_bytes = encoded size (property C04)']
    ctx.assumptions = ['theorems are about Model/CheckBranches.v; the model is tied to the Rust by the unit correspondence above (sampled, seeded)',
                       'branch displacement is measured with the lines\' nb_bytes (C04 ties those to real encodings)']
