"""C08 — macro expansion is token-exact.

proof   : Props/C08.v on Model/Cpp.v: \\bNAME\\b replacement = substitution of exactly the identifier
          tokens equal to the name (never inside a longer identifier), for every text; positional
          argument capture and template expansion; #undef removes exactly the named macro
corr-M  : cpp::process vs the extracted model on macro-heavy inputs (0-150 macros, object- and
          function-like, nested calls and parentheses, uses next to operators / inside identifiers /
          inside strings, #undef, -D), exact equality
corr-S  : a reference token-level expander (C semantics on the generated class) against the
          implementation's output
"""
import re
from lib.common import *
from lib.cppcorr import *

LEVEL = 'proof'
TOK = re.compile(r'[A-Za-z_][A-Za-z_0-9]*|[0-9][A-Za-z_0-9]*|\s+|.', re.S)


def theorems():
    p = os.path.join(COQ, 'Props', 'C08.v')
    return re.findall(r'^Theorem (\w+)', open(p).read(), re.M) if os.path.exists(p) else []


# ---------------------------------------------------------------- reference expander

def split_args(toks, i):
    """toks[i] == '(' ; returns (list of arg token lists, index after ')') or None"""
    depth = 0
    args = [[]]
    j = i
    while j < len(toks):
        t = toks[j]
        if t == '(':
            depth += 1
            if depth > 1:
                args[-1].append(t)
        elif t == ')':
            depth -= 1
            if depth == 0:
                return args, j + 1
            args[-1].append(t)
        elif t == ',' and depth == 1:
            args.append([])
        else:
            args[-1].append(t)
        j += 1
    return None


def expand(text, macros, depth=0):
    """macros: ordered dict name -> ('obj', value) | ('fun', params, body) with bodies already expanded
    by the macros defined before them (definition-time expansion)"""
    if depth > 20:
        return text
    toks = TOK.findall(text)
    out = []
    i = 0
    while i < len(toks):
        t = toks[i]
        m = macros.get(t)
        if m is None:
            out.append(t)
            i += 1
        elif m[0] == 'obj':
            out.append(m[1])
            i += 1
        else:
            # blanks (spaces, TABs) may separate the name of a function-like macro from the '(' of a call
            i1 = i + 1
            while i1 < len(toks) and toks[i1] and set(toks[i1]) <= set(' \t'):
                i1 += 1
            if i1 < len(toks) and toks[i1] == '(':
                r = split_args(toks, i1)
                if r is not None:
                    args, j = r
                    if len(m[1]) == 0 and len(args) == 1 and not ''.join(args[0]).strip(' \t'):
                        args = []
                    if len(args) == len(m[1]):
                        sargs = [''.join(a) for a in args]
                        body = TOK.findall(m[2])
                        sub = ''.join(sargs[m[1].index(b)] if b in m[1] else b for b in body)
                        out.append(expand(sub, macros, depth + 1))
                        i = j
                        continue
            out.append(t)
            i += 1
    return ''.join(out)


# ---------------------------------------------------------------- generator

def deep_arg(rng):
    """an argument with 1..4 levels of nested parentheses (what the argument pattern of cpp.rs is written
    for), a comma at a random level below the first"""
    d = rng.randrange(1, 5)
    comma_at = rng.randrange(1, d + 1) if rng.random() < 0.6 else 0
    s = rng.choice(['1', 'x', '4+5'])
    for lvl in range(d, 0, -1):
        inner = s + (',' + rng.choice(['2', 'y']) if lvl == comma_at else '')
        s = rng.choice(['', 'g', 't', 'row']) + '(' + inner + ')' + rng.choice(['', '+1', ''])
    return s


def gen_macro_case(rng, cid, nmac):
    """-> (case, expected output or None when outside the decided class)"""
    names = []
    macros = {}
    lines = []
    defs = []
    pool = ['N%d' % i for i in range(200)] + ['MAX', 'MIN', 'A', 'B', 'AB', 'val', 'x1', '_u']
    rng.shuffle(pool)
    if rng.random() < 0.3:
        # names without any letter (the sprite-table idiom `#define _ 0`), used on lines without any letter
        front = ['_', '__', '_0', '_1', '__2']
        rng.shuffle(front)
        pool = front[:rng.randrange(1, 4)] + pool
        rng.shuffle(pool[:nmac]) if False else None
        head_ = pool[:max(nmac, 1)]
        rng.shuffle(head_)
        pool[:max(nmac, 1)] = head_
    for k in range(nmac):
        name = pool[k]
        if rng.random() < 0.3:
            ps = rng.sample(['a', 'b', 'c'], rng.randrange(0, 3))
            parts = []
            for _ in range(rng.randrange(1, 6)):
                parts.append(rng.choice(ps + ['+', '*', '1', '(', ')', ' '] + (names[-3:] if names else [])) if ps else rng.choice(['7', '+', '1']))
            body = ''.join(parts)
            # parentheses balanced in every prefix: a body like ")N49(" forms calls across the macro's own
            # boundary when it is rescanned with the text that follows, which the reference expander does not do
            depth_ = 0
            ok_ = True
            for ch_ in body:
                depth_ += (ch_ == '(') - (ch_ == ')')
                if depth_ < 0:
                    ok_ = False
            if not ok_ or depth_ != 0:
                body = body.replace('(', '').replace(')', '')
            body = body.strip() or '0'
            ebody = expand(body, {k_: v for k_, v in macros.items() if k_ not in ps})
            macros[name] = ('fun', ps, ebody)
            lines.append('#define %s(%s) %s\n' % (name, ','.join(ps), body))
        else:
            # (bodies that look like a parameter list: the macro is object-like all the same, '(' does not follow the name)
            body = rng.choice(['1', '2', '(3)', '0x10', 'q', '', '-1', '(q)', '(q, r)', '()', '(q)+1', '(w)*(w)', '( q )', '(q,r) q'] + (names[-3:] if names else []))
            if rng.random() < 0.2 and names:
                body = '(%s + %s)' % (rng.choice(names), rng.choice(names))
            ebody = expand(body, macros)
            macros[name] = ('obj', ebody)
            if rng.random() < 0.15 and not any(n in body for n in names):
                defs.append((name, body))
            else:
                lines.append('#define %s %s\n' % (name, body))
        names.append(name)
        if rng.random() < 0.05 and len(names) > 1:
            victim = rng.choice(names[:-1])
            if victim in macros and not any(d[0] == victim for d in defs):
                lines.append('#undef %s\n' % victim)
                del macros[victim]
    uses = []
    expected = []
    for _ in range(rng.randrange(1, 8)):
        if not names:
            break
        n = rng.choice(names)
        m = macros.get(n)
        k = rng.random()
        if m and m[0] == 'fun':
            args = [rng.choice(['1', 'x', 'p+1', '(1,2)', 'f(3)', '((4))', rng.choice(names), deep_arg(rng), deep_arg(rng)]) for _ in m[1]]
            use = rng.choice(['y = %s(%s);', 'z(%s(%s))', 't%s(%s)', '%s (%s)']) % (n, ','.join(args))
        elif not re.search('[A-Za-z]', n) and rng.random() < 0.7:
            use = rng.choice(['%s,%s,%s,', '    %s;', '(%s)*2+%s', '{ %s, 1, %s }']).replace('%s', n)
        else:
            use = rng.choice(['a = %s;', 'b[%s]', 'x%s', '%sx', '%s_1', '"%s"', '(%s)', '%s+%s' % (n, '%s'), '-%s', 'u.%s', "'%s'"]) % n
        if '"' in use:
            uses.append('s = %s;\n' % use)
        else:
            uses.append(use + '\n')
    src = ''.join(lines) + ''.join(uses)
    # expected: strings are opaque
    exp_lines = []
    for u in uses:
        if '"' in u:
            exp_lines.append(None)
        else:
            exp_lines.append(expand(u, macros))
    return (cid, src, defs, [], 'main.c'), (len(lines), exp_lines, uses)


KNOWN_WITNESSES = {
    'param_shadow': ('#define x 5\n#define F(x) x+1\nF(3)\n', [], '3+1\n'),
    'dash_d_chain': ('B\n', [('A', '1'), ('B', 'A')], '1\n'),
    # open findings reported by the round-4 agents (known_findings.json)
    'deep_args': ('#define f(a) [a]\nf((((((1))))))\n', [], '[(((((1)))))]\n'),
    'comment_separates': ('#define FOO 1\nFOO/**/BAR\n', [], '1 BAR\n'),
    'char_constant_opaque': ("#define a 5\nc = 'a';\n", [], "c = 'a';\n"),
    'underscore_name_letterless_line': ('#define _ 0\n#define X 1\n_,X,X,_,\n_,_,_,_,\n', [], '0,1,1,0,\n0,0,0,0,\n'),
    'underscore_call_letterless_line': ('#define _1(a) (a)+_0\n#define _0 7\n    _1(_0);\n', [], '    (7)+7;\n'),
    'zero_param_blank': ('#define f() 7\nx = f( );\n', [], 'x = 7;\n'),
    'blank_before_paren': ('#define add(a,b) a+b\nx = add (1,2);\n', [], 'x = 1+2;\n'),
    # an object-like macro whose body starts like a parameter list
    'obj_paren_body': ('#define ALIAS (other)\nx = ALIAS;\ny = ALIAS(3);\n', [], 'x = (other);\ny = (other)(3);\n'),
    'obj_paren_body2': ('#define NEXT (i)+1\n#define PAIR (lo, hi)\n#define NIL ()\nx = NEXT; f PAIR; g NIL;\n', [], 'x = (i)+1; f (lo, hi); g ();\n'),
    # repaired: kept as regressions
    'param_blank': ('#define f(a , b) a+b\nf(1,2)\n', [], '1+2\n'),
}


def run(ctx):
    quick = ctx.tier == 'quick'
    rng = ctx.rng
    th = theorems()
    if th:
        ctx.proof_stage('Props.C08', th)
    n_gen = 1500 if quick else 30000
    n_mac = 1200 if quick else 30000
    cases = [gen_case(rng, 'g%d' % i) for i in range(n_gen)]
    mc = []
    exp = {}
    for i in range(n_mac):
        nmac = rng.choice([1, 2, 3, 5, 8, 12, 30]) if i % 40 else rng.choice([99, 100, 101, 150])
        c, e = gen_macro_case(rng, 'm%d' % i, nmac)
        mc.append(c)
        exp[c[0]] = e
    wit = []
    for k, (src, defs, out) in KNOWN_WITNESSES.items():
        wit.append((k, src, defs, [], 'main.c'))
    n, mism, impl, model = compare(cases + mc + wit)
    ctx.cov['evaluations'] = n
    viol = []
    uses_checked = 0
    for c, ri in zip(mc, impl[len(cases):len(cases) + len(mc)]):
        a = canon_impl(ri)
        ndef, exp_lines, uses = exp[c[0]]
        if a[0] != 'ok':
            if a[0] == 'err' and 'already defined' in str(a[-1]):
                continue
            viol.append({'id': c[0], 'why': 'macro input rejected or crashed: %s' % (a,), 'source': c[1], 'defines': c[2]})
            continue
        got = a[1].split('\n')
        got = [g + '\n' for g in got[:-1]]
        if len(got) != len(uses):
            viol.append({'id': c[0], 'why': 'number of output lines differs', 'source': c[1], 'defines': c[2], 'got': a[1]})
            continue
        for u, e, g in zip(uses, exp_lines, got):
            uses_checked += 1
            if e is None:
                if not re.fullmatch(r's = @\d+@;\n', g):
                    viol.append({'id': c[0], 'why': 'a string literal was touched by macro expansion', 'use': u, 'got': g,
                                 'source': c[1], 'defines': c[2]})
                    break
            elif e != g:
                viol.append({'id': c[0], 'why': 'expansion differs from the reference', 'use': u, 'expected': e, 'got': g,
                             'source': c[1], 'defines': c[2]})
                break
    for (k, src, defs, _, _), ri in zip(wit, impl[len(cases) + len(mc):]):
        a = canon_impl(ri)
        if a[0] != 'ok' or a[1] != KNOWN_WITNESSES[k][2]:
            viol.append({'id': k, 'why': 'expansion differs from C', 'source': src, 'defines': defs,
                         'expected': KNOWN_WITNESSES[k][2], 'got': a[:2]})
    # -D NAME[=VALUE] given to the COMPILER (compile(): the option text is split there, not in cpp.rs)
    # must behave exactly like "#define NAME VALUE" at the top of the file
    dsrcs = {}
    dvars = {}
    for i in range(120 if quick else 3000):
        init = rng.choice(['i=5', 'i = j', 'i+=2', 'i=j==3', 'i = (j<=2)', 'i=1'])
        cond = rng.choice(['j==5', 'i<=j', 'i!=0', 'j>=2', '(i&1)==0', 'i', 'i == j'])
        val = rng.choice(['7', '(3+4)', '0x10', '1==1', '2 >= 3'])
        flag = rng.random() < 0.5
        body = 'unsigned char i, j, k;\nvoid main() { INIT; if (COND) j = VAL;\n#ifdef FLAG\n k = 1;\n#else\n k = 2;\n#endif\n}\n'
        defs = [('INIT', init), ('COND', cond), ('VAL', val)] + ([('FLAG', None)] if flag else [])
        rng.shuffle(defs)
        top = ''.join('#define %s%s\n' % (n_, '' if v_ is None else ' ' + v_) for n_, v_ in defs)
        dargs = []
        for n_, v_ in defs:
            dargs += ['-D', n_ if v_ is None else '%s=%s' % (n_, v_)]
        dsrcs['d%d' % i] = {'def': top + body, 'opt': body}
        dvars['d%d' % i] = dargs
    dashd = 0
    jobs = []
    for pid, sv in dsrcs.items():
        jobs.append(compile_job(pid + '@def', sv['def'], args=['-O0'], want=['vars', 'funcs']))
        jobs.append(compile_job(pid + '@opt', sv['opt'], args=['-O0'] + dvars[pid], want=['vars', 'funcs']))
    dres = run_ccv(''.join(jobs), tag='dashd')
    for k_, pid in enumerate(dsrcs):
        a, b = dres[2 * k_], dres[2 * k_ + 1]
        dashd += 1
        fa = (a.get('status'), [(f['name'], f.get('gen')) for f in a.get('funcs', [])] if a.get('status') == 'ok' else (a.get('err') or {}).get('msg'))
        fb = (b.get('status'), [(f['name'], f.get('gen')) for f in b.get('funcs', [])] if b.get('status') == 'ok' else (b.get('err') or {}).get('msg'))
        if fa != fb:
            viol.append({'id': pid, 'why': '-D options do not behave like the same #define lines at the top of the file',
                         'options': dvars[pid], 'with_define_lines': dsrcs[pid]['def'], 'define_result': str(fa)[:600], 'option_result': str(fb)[:600]})
    ctx.cov['correspondence']['corr-S -D vs #define (through compile())'] = {'pairs': dashd}
    ctx.cov['distinct_nontrivial'] = uses_checked
    ctx.cov['correspondence']['corr-M cpp::process'] = {'cases': n, 'mismatches': len(mism)}
    ctx.cov['correspondence']['corr-S reference expander'] = {'macro_programs': len(mc), 'use_sites_checked': uses_checked, 'violations': len(viol)}
    ctx.sample({'source': mc[0][1][:600]})
    known = {f.get('witness'): f for f in ctx.findings if f.get('status') == 'open'}
    reported = 0
    for v in viol:
        f = known.get(v['id'])
        if f:
            ctx.known_finding(f['id'], f['text'])
            continue
        if reported < 3:
            ctx.violation('macro', v)
            reported += 1
    if mism and not reported:
        ctx.violation_noinput('Model/Cpp.v no longer matches cpp::process on %d of %d inputs; first: %s'
                              % (len(mism), n, json.dumps(mism[0])[:2000]), 'corr-M:cpp')
    ctx.cov['rule'] = ('1-150 macros per input (object-like, function-like with 0-2 parameters, bodies over parameters and earlier macros, '
                       '#undef, some from -D), use sites next to operators, inside longer identifiers, inside strings and character constants, '
                       'as arguments of other macros, with nested parentheses; non-trivial = use sites compared with the reference')
    ctx.cov['trusted_base'] = ['Coq 8.16.1 kernel', 'extraction of Model/Cpp.v', 'verification hook cpp_process', 'harness ccv',
                               'the Python reference expander (tools/props/c08.py)']
    ctx.assumptions = ['ASCII input', 'macro bodies use only earlier macros (what the property requires)', 'no "$" in macro bodies (regex replacement syntax)']
