(** Model of [compute_functions_actually_in_use] / [function_is_actually_in_use]
    (src/generate/generate_asm.rs): depth-first marking of everything reachable from main and the
    interrupt handlers through the recorded call tree. *)
From Coq Require Import String List Bool Arith.
Import ListNotations.

Definition tree := list (string * list string).

Fixpoint children (t : tree) (f : string) : list string :=
  match t with
  | [] => []
  | (g, cs) :: r => if String.eqb f g then cs else children r f
  end.

Definition mem (f : string) (l : list string) : bool := existsb (String.eqb f) l.

(** [visit]: if f is not marked yet, mark it and visit its callees in order.  The Rust recursion
    is bounded by the number of distinct names (each real descent marks a new one): [fuel]. *)
Fixpoint visit (fuel : nat) (t : tree) (f : string) (seen : list string) : list string :=
  match fuel with
  | O => seen
  | S k =>
      if mem f seen then seen
      else fold_left (fun acc g => visit k t g acc) (children t f) (f :: seen)
  end.

Definition names (t : tree) : list string := flat_map (fun p => fst p :: snd p) t.

Definition in_use (t : tree) (roots : list string) : list string :=
  fold_left (fun acc r => visit (S (length (names t) + length roots)) t r acc) roots [].

(** specification: reachability in the call tree *)
Inductive reach (t : tree) (roots : list string) : string -> Prop :=
| reach_root : forall r, In r roots -> reach t roots r
| reach_step : forall f g, reach t roots f -> In g (children t f) -> reach t roots g.
