(** POINTER operations as the code generator emits them at -O0, for the declarations
      [unsigned char a, b, c; unsigned char arr[8]; unsigned char *p, *q;]

    A pointer is a 16-bit variable, little-endian: low byte of the address at [p], high byte at
    [p+1].  It is dereferenced with the 6502's indirect indexed mode [(p),Y]: the two cells of [p]
    must lie in page zero, the effective address is their 16-bit value plus Y.

    [addr_of_tpl p x]     [p = &x;] / [p = arr;]: the two bytes of the ADDRESS of the symbol, as
                          the immediates [#<x] (low byte) and [#>x] (high byte)
    [ptr_copy_tpl q p]    [q = p;]: the 16-bit copy
    [idx_load dst p k]    [dst = p[k];], [deref_load dst p] = [idx_load dst p 0] ([dst = *p;]):
                          the compiler has no free index register, so Y is PARKED in the scratch
                          cell [cctmp] ([STY cctmp]), loaded with the constant index, and restored
                          after the access ([LDY cctmp])
    [idx_store p k src]   [p[k] = src;], [deref_store p src] ([*p = src;]); [src] a variable or a
                          constant
    [idx_y_load dst p], [idx_y_store p src]   [dst = p[Y];] / [p[Y] = src;]: Y is the index, no
                          parking
    [ptr_inc], [ptr_dec], [ptr_add]   [p++;] / [p--;] / [p += k;]: the 16-bit forms [SInc16] /
                          [SDec16] / [SAddConst16] of Model/GenTemplates.v (element size 1)
    [deref_add p k]       [*p += k;], [deref_inc p] = [deref_add p 1] ([( *p)++;])
    [deref_plus dst p y]  [dst = *p + y;]
    [if_deref_tpl p B lbl]   [if ( *p ) B]: EXACTLY as emitted: the [BEQ] to the end label comes
                          BEFORE the [LDY cctmp] that restores Y, so when [*p] is 0 the restore is
                          jumped over (Proofs/GenPtrFacts.v, [if_deref_y_not_restored]).

    The [Example]s pin the templates to the listing, line for line (the listing is compared with
    the real compiler by a separate script).  [if ( *p == b) c = 1;] is rejected by the compiler
    ("Code too complex for the compiler") and has no listing. *)
From Coq Require Import String Ascii List Bool NArith ZArith.
From CC Require Import Base.Str Asm.Lines Model.GenTemplates Model.GenIf.
Import ListNotations.
Open Scope string_scope.
Open Scope list_scope.

(** the scratch cell of the generator *)
Definition cctmp : string := "cctmp".

(** the operand texts: low / high byte of the address of a symbol, indirect indexed *)
Definition immlo (x : string) : string := "#<" ++ x.
Definition immhi (x : string) : string := "#>" ++ x.
Definition ind (p : string) : string := "(" ++ p ++ "),Y".

(** an 8-bit source operand: a variable or a constant *)
Inductive src8 := SVar (x : string) | SConst (k : Z).
Definition src_text (s : src8) : string :=
  match s with SVar x => x | SConst k => imm k end.

(** [p = &x;]  /  [p = arr;] *)
Definition addr_of_tpl (p x : string) : code :=
  [ins LDA (immlo x); ins STA p; ins LDA (immhi x); ins STA (hi p)].

(** [q = p;] *)
Definition ptr_copy_tpl (q p : string) : code := template (SCopy16 q p).

(** Y parked in [cctmp] around [body] *)
Definition park (body : code) : code := [ins STY cctmp] ++ body ++ [ins LDY cctmp].

(** [dst = p[k];]  and  [dst = *p;] *)
Definition idx_load (dst p : string) (k : Z) : code :=
  park [ins LDY (imm k); ins LDA (ind p); ins STA dst].
Definition deref_load (dst p : string) : code := idx_load dst p 0.

(** [p[k] = src;]  and  [*p = src;] *)
Definition idx_store (p : string) (k : Z) (src : src8) : code :=
  park [ins LDY (imm k); ins LDA (src_text src); ins STA (ind p)].
Definition deref_store (p : string) (src : src8) : code := idx_store p 0 src.

(** [dst = p[Y];]  and  [p[Y] = src;] *)
Definition idx_y_load (dst p : string) : code := [ins LDA (ind p); ins STA dst].
Definition idx_y_store (p : string) (src : src8) : code := [ins LDA (src_text src); ins STA (ind p)].

(** [p++;]  [p--;]  [p += k;] *)
Definition ptr_inc (p lbl : string) : code := template (SInc16 p lbl).
Definition ptr_dec (p lbl : string) : code := template (SDec16 p lbl).
Definition ptr_add (p : string) (k : Z) : code := template (SAddConst16 p k).

(** [*p += k;]  and  [( *p )++;] *)
Definition deref_add (p : string) (k : Z) : code :=
  park [ins LDY (imm 0); ins LDA (ind p); ins CLC ""; ins ADC (imm k); ins STA (ind p)].
Definition deref_inc (p : string) : code := deref_add p 1.

(** [dst = *p + y;] *)
Definition deref_plus (dst p y : string) : code :=
  park [ins LDY (imm 0); ins LDA (ind p); ins CLC ""; ins ADC y; ins STA dst].

(** [if ( *p ) B]: the branch to [lbl] jumps over the [LDY cctmp] *)
Definition if_deref_tpl (p : string) (B : code) (lbl : string) : code :=
  [ins STY cctmp; ins LDY (imm 0); ins LDA (ind p); ins BEQ lbl; ins LDY cctmp] ++ B ++ [Lbl lbl].

(** * The 17 listings *)
Local Open Scope Z_scope.
(** p = &a; *)
Example plisting_01 : map show (addr_of_tpl "p" "a") =
  ["LDA #<a"; "STA p"; "LDA #>a"; "STA p+1"].
Proof. vm_compute. reflexivity. Qed.

(** p = arr; *)
Example plisting_02 : map show (addr_of_tpl "p" "arr") =
  ["LDA #<arr"; "STA p"; "LDA #>arr"; "STA p+1"].
Proof. vm_compute. reflexivity. Qed.

(** q = p; *)
Example plisting_03 : map show (ptr_copy_tpl "q" "p") =
  ["LDA p"; "STA q"; "LDA p+1"; "STA q+1"].
Proof. vm_compute. reflexivity. Qed.

(** a = *p; *)
Example plisting_04 : map show (deref_load "a" "p") =
  ["STY cctmp"; "LDY #0"; "LDA (p),Y"; "STA a"; "LDY cctmp"].
Proof. vm_compute. reflexivity. Qed.

(** *p = a; *)
Example plisting_05 : map show (deref_store "p" (SVar "a")) =
  ["STY cctmp"; "LDY #0"; "LDA a"; "STA (p),Y"; "LDY cctmp"].
Proof. vm_compute. reflexivity. Qed.

(** *p = 5; *)
Example plisting_06 : map show (deref_store "p" (SConst 5)) =
  ["STY cctmp"; "LDY #0"; "LDA #5"; "STA (p),Y"; "LDY cctmp"].
Proof. vm_compute. reflexivity. Qed.

(** a = p[Y]; *)
Example plisting_07 : map show (idx_y_load "a" "p") =
  ["LDA (p),Y"; "STA a"].
Proof. vm_compute. reflexivity. Qed.

(** p[Y] = a; *)
Example plisting_08 : map show (idx_y_store "p" (SVar "a")) =
  ["LDA a"; "STA (p),Y"].
Proof. vm_compute. reflexivity. Qed.

(** a = p[2]; *)
Example plisting_09 : map show (idx_load "a" "p" 2) =
  ["STY cctmp"; "LDY #2"; "LDA (p),Y"; "STA a"; "LDY cctmp"].
Proof. vm_compute. reflexivity. Qed.

(** p[2] = a; *)
Example plisting_10 : map show (idx_store "p" 2 (SVar "a")) =
  ["STY cctmp"; "LDY #2"; "LDA a"; "STA (p),Y"; "LDY cctmp"].
Proof. vm_compute. reflexivity. Qed.

(** p++; *)
Example plisting_11 : map show (ptr_inc "p" ".ifend1") =
  ["INC p"; "BNE .ifend1"; "INC p+1"; ".ifend1:"].
Proof. vm_compute. reflexivity. Qed.

(** p--; *)
Example plisting_12 : map show (ptr_dec "p" ".ifend1") =
  ["LDA p"; "BNE .ifend1"; "DEC p+1"; ".ifend1:"; "DEC p"].
Proof. vm_compute. reflexivity. Qed.

(** p += 3; *)
Example plisting_13 : map show (ptr_add "p" 3) =
  ["LDA p"; "CLC "; "ADC #3"; "STA p"; "LDA p+1"; "ADC #0"; "STA p+1"].
Proof. vm_compute. reflexivity. Qed.

(** ( *p)++; *)
Example plisting_14 : map show (deref_inc "p") =
  ["STY cctmp"; "LDY #0"; "LDA (p),Y"; "CLC "; "ADC #1"; "STA (p),Y"; "LDY cctmp"].
Proof. vm_compute. reflexivity. Qed.

(** *p += 2; *)
Example plisting_15 : map show (deref_add "p" 2) =
  ["STY cctmp"; "LDY #0"; "LDA (p),Y"; "CLC "; "ADC #2"; "STA (p),Y"; "LDY cctmp"].
Proof. vm_compute. reflexivity. Qed.

(** if ( *p) c = 1; *)
Example plisting_16 : map show (if_deref_tpl "p" (assign8 "c" 1) ".ifend1") =
  ["STY cctmp"; "LDY #0"; "LDA (p),Y"; "BEQ .ifend1"; "LDY cctmp"; "LDA #1"; "STA c"; ".ifend1:"].
Proof. vm_compute. reflexivity. Qed.

(** a = *p + b; *)
Example plisting_17 : map show (deref_plus "a" "p" "b") =
  ["STY cctmp"; "LDY #0"; "LDA (p),Y"; "CLC "; "ADC b"; "STA a"; "LDY cctmp"].
Proof. vm_compute. reflexivity. Qed.
