"""Shared machinery of the cc6502 verification checks.

build steps (coq project, extracted OCaml drivers, Rust harness against /repo's working tree),
the ccv job protocol, evidence files, the verdict protocol and known findings.
"""
import binascii
import fcntl
import hashlib
import json
import os
import random
import shutil
import subprocess
import sys
import time

VERIF = os.path.abspath(os.path.join(os.path.dirname(__file__), '..', '..'))
REPO = os.environ.get('VERIF_REPO', '/repo')
BUILD = os.path.join(VERIF, 'build')
COQ = os.path.join(VERIF, 'coq')
OCAML = os.path.join(VERIF, 'ocaml')
HARNESS = os.path.join(VERIF, 'harness')
EVIDENCE = os.path.join(VERIF, 'evidence')
REPLAYS = os.path.join(VERIF, 'replays')
CORPUS = os.path.join(VERIF, 'corpus')
GUARD = 'steux_cc6502_verif'
NCPU = os.cpu_count() or 4

ALLOWED_AXIOMS = set()   # no axiom is expected (see DESIGN.md section 7)


class HarnessError(Exception):
    """The machinery itself failed (build error, tool crash): exit 2, never a violation."""


def log(*a):
    print(*a, file=sys.stderr, flush=True)


def hx(b):
    if isinstance(b, str):
        b = b.encode('utf-8')
    return binascii.hexlify(b).decode() if b else '-'


class Lock:
    def __init__(self, name):
        os.makedirs(BUILD, exist_ok=True)
        self.path = os.path.join(BUILD, name + '.lock')

    def __enter__(self):
        self.f = open(self.path, 'w')
        fcntl.flock(self.f, fcntl.LOCK_EX)
        return self

    def __exit__(self, *a):
        fcntl.flock(self.f, fcntl.LOCK_UN)
        self.f.close()


def sh(cmd, cwd=None, env=None, timeout=3600, check=True, input=None):
    e = dict(os.environ)
    if env:
        e.update(env)
    p = subprocess.run(cmd, cwd=cwd, env=e, shell=isinstance(cmd, str), timeout=timeout,
                       stdout=subprocess.PIPE, stderr=subprocess.STDOUT, input=input)
    out = p.stdout.decode('utf-8', 'replace')
    if check and p.returncode != 0:
        raise HarnessError('command failed (%d): %s\n%s' % (p.returncode, cmd, out[-4000:]))
    return p.returncode, out


# ------------------------------------------------------------------ Coq

def coq_make(targets, timeout=3000):
    """Builds .vo targets of the coq project (full .vo build, incremental)."""
    with Lock('coq'):
        if not os.path.exists(os.path.join(COQ, 'Makefile')) or \
                os.path.getmtime(os.path.join(COQ, 'Makefile')) < os.path.getmtime(os.path.join(COQ, '_CoqProject')):
            sh('coq_makefile -f _CoqProject -o Makefile', cwd=COQ)
        rc, out = sh(['timeout', str(timeout), 'make', '-j%d' % NCPU] + list(targets), cwd=COQ,
                     check=False, timeout=timeout + 30)
        return rc, out


def coq_audit(module, theorems, extra=''):
    """Re-checks in a fresh coqc that each theorem exists in the compiled module and prints its
    assumptions.  Returns {theorem: [axioms]}; raises HarnessError if coqc itself cannot run."""
    os.makedirs(os.path.join(BUILD, 'audit'), exist_ok=True)
    src = os.path.join(BUILD, 'audit', 'Audit_%s_%d.v' % (module.replace('.', '_'), os.getpid()))
    with open(src, 'w') as f:
        f.write('Require Import CC.%s.\n%s\n' % (module, extra))
        for t in theorems:
            f.write('Goal True. idtac "BEGIN %s". Abort.\nPrint Assumptions %s.\nGoal True. idtac "END %s". Abort.\n' % (t, t, t))
    rc, out = sh(['timeout', '600', 'coqc', '-noglob', '-Q', COQ, 'CC', src], check=False)
    for ext in ('.v', '.vo', '.vok', '.vos', '.glob'):
        try:
            os.remove(src[:-2] + ext)
        except OSError:
            pass
    res = {}
    if rc != 0:
        return rc, out, res
    cur = None
    buf = []
    for line in out.splitlines():
        if line.startswith('BEGIN '):
            cur = line[6:].strip()
            buf = []
        elif line.startswith('END '):
            txt = '\n'.join(buf)
            if 'Closed under the global context' in txt:
                res[cur] = []
            else:
                ax = []
                for l in buf:
                    l = l.rstrip()
                    if l and not l.startswith(' ') and ':' in l and not l.startswith('Axioms'):
                        ax.append(l.split(':')[0].strip())
                res[cur] = ax or ['?unparsed: ' + txt[:200]]
            cur = None
        elif cur is not None:
            buf.append(line)
    return rc, out, res


FORBIDDEN = ['Admitted', 'admit', 'Axiom', 'Parameter', 'Conjecture', 'Unset Guard', 'bypass_check',
             'type-in-type', 'Admit Obligations', 'Unset Positivity', 'Unset Universe']


def coq_grep_forbidden():
    """Returns the list of forbidden-token occurrences in the development (comments included:
    conservative)."""
    import re
    bad = []
    pat = re.compile(r'\b(Admitted|admit|Axiom|Axioms|Parameter|Parameters|Conjecture|Hypothesis|Variable|Variables|Hypotheses)\b|Unset Guard|bypass_check|type-in-type|Admit Obligations|Unset Positivity|Unset Universe|impredicative-set')
    for root, _, files in os.walk(COQ):
        for fn in files:
            if not fn.endswith('.v') and fn != '_CoqProject':
                continue
            p = os.path.join(root, fn)
            insec = 0
            for n, line in enumerate(open(p, errors='replace'), 1):
                s = line.strip()
                if s.startswith('Section '):
                    insec += 1
                if s.startswith('End ') and insec:
                    insec -= 1
                m = pat.search(line)
                if m:
                    tok = m.group(0)
                    if tok in ('Variable', 'Variables', 'Hypothesis', 'Hypotheses') and insec:
                        continue  # section-local: discharged at End
                    bad.append('%s:%d: %s' % (os.path.relpath(p, VERIF), n, s[:120]))
    return bad


# ------------------------------------------------------------------ OCaml drivers

def ocaml_driver(name):
    """Builds build/ocaml/<name>.native from coq/Extract/<Name>.v's extraction output and
    ocaml/<name>_driver.ml.  The extraction file must write build/ocaml/<name>_model.ml."""
    out = os.path.join(BUILD, 'ocaml', name + '.native')
    model = os.path.join(BUILD, 'ocaml', name + '_model.ml')
    drv = os.path.join(OCAML, name + '_driver.ml')
    with Lock('ocaml_' + name):
        os.makedirs(os.path.join(BUILD, 'ocaml'), exist_ok=True)
        vfile = os.path.join(COQ, 'Extract', 'Ex_%s.v' % name)
        rc, o = coq_make(['Extract/Ex_%s.vo' % name])
        if rc != 0:
            raise HarnessError('extraction of %s failed:\n%s' % (name, o[-3000:]))
        if not os.path.exists(model):
            # the .vo was cached but build/ was wiped: force re-extraction
            try:
                os.remove(os.path.join(COQ, 'Extract', 'Ex_%s.vo' % name))
            except OSError:
                pass
            rc, o = coq_make(['Extract/Ex_%s.vo' % name])
            if rc != 0 or not os.path.exists(model):
                raise HarnessError('extraction of %s failed:\n%s' % (name, o[-3000:]))
        deps = [model, drv]
        if os.path.exists(out) and all(os.path.getmtime(out) >= os.path.getmtime(d) for d in deps):
            return out
        d = os.path.join(BUILD, 'ocaml', name + '.d')
        shutil.rmtree(d, ignore_errors=True)
        os.makedirs(d)
        shutil.copy(model, os.path.join(d, name + '_model.ml'))
        mli = model + 'i'
        if os.path.exists(mli):
            shutil.copy(mli, os.path.join(d, name + '_model.mli'))
        shutil.copy(drv, os.path.join(d, name + '_driver.ml'))
        files = ([name + '_model.mli'] if os.path.exists(mli) else []) + [name + '_model.ml', name + '_driver.ml']
        sh(['ocamlfind', 'ocamlopt', '-O3' if False else '-inline', '100', '-w', '-a', '-package', 'str,unix', '-linkpkg'] + files + ['-o', out],
           cwd=d)
        return out


# ------------------------------------------------------------------ Rust harness

def harness_bin(profile='release'):
    """(Re)builds the harness against /repo's current working tree, hooks enabled."""
    with Lock('cargo'):
        lock = os.path.join(HARNESS, 'Cargo.lock')
        shutil.copy(os.path.join(REPO, 'Cargo.lock'), lock)
        env = {'CARGO_NET_OFFLINE': 'true', 'CARGO_TARGET_DIR': os.path.join(BUILD, 'target'),
               'RUSTFLAGS': '--cfg ' + GUARD, 'RUST_BACKTRACE': '0'}
        cmd = ['cargo', 'build', '--offline', '--quiet']
        if profile == 'release':
            cmd.append('--release')
        rc, out = sh(cmd, cwd=HARNESS, env=env, check=False, timeout=1800)
        if rc != 0:
            raise HarnessError('harness build failed (does /repo still compile?):\n' + out[-4000:])
        return os.path.join(BUILD, 'target', profile, 'ccv')


def run_ccv(jobs_text, profile='release', threads=None, timeout_ms=5000, tag='job'):
    """Runs the harness on a job text; returns the list of JSON results in job order."""
    binp = harness_bin(profile)
    d = os.path.join('/dev/shm', 'ccvpy.%d' % os.getpid())
    os.makedirs(d, exist_ok=True)
    jf = os.path.join(d, tag + '.jobs')
    of = os.path.join(d, tag + '.out')
    with open(jf, 'w') as f:
        f.write(jobs_text)
    try:
        rc, out = sh([binp, jf, of, str(threads or NCPU), str(timeout_ms)], check=False,
                     env={'RUST_BACKTRACE': '0'}, timeout=7200)
        if rc != 0 or not os.path.exists(of):
            raise HarnessError('ccv failed rc=%s: %s' % (rc, out[-2000:]))
        res = []
        for line in open(of, errors='replace'):
            line = line.strip()
            if not line:
                continue
            try:
                res.append(json.loads(line))
            except Exception as e:
                res.append({'status': 'badjson', 'raw': line[:500], 'msg': str(e)})
        return res
    finally:
        shutil.rmtree(d, ignore_errors=True)


def enc_lines(lines):
    """lines: list of tuples ('I',mn,prot,nb,cyc,alt,operand) | ('L',s) | ('N',size,s) | ('C',s) | ('D',)"""
    o = []
    for l in lines:
        k = l[0]
        if k == 'I':
            o.append('I %s %d %d %d %s %s' % (l[1], 1 if l[2] else 0, l[3], l[4], '-' if l[5] is None else l[5], hx(l[6])))
        elif k == 'L':
            o.append('L ' + hx(l[1]))
        elif k == 'N':
            o.append('N %d %s' % (l[1], hx(l[2])))
        elif k == 'C':
            o.append('C ' + hx(l[1]))
        else:
            o.append('D')
    return '\n'.join(o)


def unit_job(jid, op, lines):
    return '@unit %s %s\n%s\n@end\n' % (jid, op, enc_lines(lines))


def compile_job(jid, src, args=(), files=(), want=('funcs',), repeat=1, name=None, probes=(), prename=None):
    o = ['@compile %s' % jid]
    if prename:
        o.append('prename ' + hx(prename))
    for a in args:
        o.append('arg ' + hx(a))
    for n, c in files:
        o.append('file %s %s' % (hx(n), hx(c)))
    if name:
        o.append('name ' + hx(name))
    o.append('src ' + hx(src))
    o.append('want ' + ','.join(want))
    if repeat > 1:
        o.append('repeat %d' % repeat)
    for p in probes:
        o.append('probe ' + ' '.join(p))
    o.append('@end')
    return '\n'.join(o) + '\n'


def cpp_job(jid, src, defs=(), files=(), name='main.c'):
    o = ['@cpp %s' % jid]
    for n, v in defs:
        o.append('def %s %s' % (hx(n), hx(v)))
    for n, c in files:
        o.append('file %s %s' % (hx(n), hx(c)))
    o.append('name ' + hx(name))
    o.append('src ' + hx(src))
    o.append('@end')
    return '\n'.join(o) + '\n'


def norm_lines(jl):
    """JSON lines from the harness -> tuples as used by enc_lines."""
    return [tuple(x) for x in jl]


# ------------------------------------------------------------------ known findings

def load_findings(prop):
    p = os.path.join(VERIF, 'known_findings.json')
    if not os.path.exists(p):
        return []
    d = json.load(open(p))
    def applies(f):
        pr = f.get('property')
        return pr == prop or (isinstance(pr, list) and prop in pr)
    return [f for f in d.get('findings', []) if applies(f)]


# ------------------------------------------------------------------ the check context

class Ctx:
    def __init__(self, prop, tier, seed, level='proof'):
        self.prop = prop
        self.tier = tier
        self.seed = seed
        self.level = level
        self.t0 = time.time()
        self.rng = random.Random((seed * 1000003) ^ int(hashlib.sha1(prop.encode()).hexdigest()[:8], 16))
        self.violations = []      # (replay_path, suffix)
        self.known = []           # text lines
        self.cov = {'evaluations': 0, 'distinct_nontrivial': 0, 'rule': '', 'samples': [],
                    'obligations': 0, 'discharged': 0, 'checker_cmd': '', 'trusted_base': [],
                    'theorems': {}, 'correspondence': {}}
        self.assumptions = []
        self.findings = load_findings(prop)
        os.makedirs(REPLAYS, exist_ok=True)

    # ---- proof stage
    def proof_stage(self, module, theorems, extra_targets=()):
        """module: e.g. 'Props.C18'; theorems: names pinned in that file."""
        target = module.replace('.', '/') + '.vo'
        cmd = 'make -C coq %s && coqc audit (Print Assumptions) ; grep forbidden tokens' % target
        self.cov['checker_cmd'] = cmd
        self.cov['obligations'] += len(theorems)
        bad = coq_grep_forbidden()
        if bad:
            self.violation_noinput('forbidden tokens in the Coq development: ' + '; '.join(bad[:5]), 'coq-hygiene')
            return False
        rc, out = coq_make([target] + list(extra_targets))
        if rc != 0:
            self.cov['theorems'] = {t: 'NOT BUILT' for t in theorems}
            self.violation_noinput('proof obligation no longer checks: %s failed to build:\n%s' % (target, out[-3000:]),
                                   'theorem:' + module)
            return False
        rc, out, res = coq_audit(module, theorems)
        if rc != 0:
            self.violation_noinput('audit of %s failed (a pinned theorem is missing?):\n%s' % (module, out[-3000:]),
                                   'theorem:' + module)
            return False
        ok = True
        for t in theorems:
            ax = res.get(t)
            if ax is None:
                self.cov['theorems'][t] = 'MISSING'
                ok = False
                continue
            extra = [a for a in ax if a not in ALLOWED_AXIOMS]
            self.cov['theorems'][t] = 'closed' if not ax else 'axioms: ' + ', '.join(ax)
            if extra:
                ok = False
            else:
                self.cov['discharged'] += 1
        if not ok:
            self.violation_noinput('theorems of %s missing or depending on non-allow-listed axioms: %s'
                                   % (module, json.dumps(self.cov['theorems'])), 'theorem:' + module)
        return ok

    # ---- verdict helpers
    def replay_path(self, tag):
        return os.path.join(REPLAYS, '%s_%s_%d.json' % (self.prop, tag, int(time.time() * 1000) % 100000000))

    def violation(self, tag, payload):
        """A concrete failing input on the real code."""
        p = self.replay_path(tag)
        with open(p, 'w') as f:
            json.dump({'property': self.prop, 'kind': tag, 'payload': payload}, f, indent=1, default=str)
        self.violations.append((p, ''))
        return p

    def violation_noinput(self, text, what):
        p = self.replay_path('broken')
        with open(p, 'w') as f:
            json.dump({'property': self.prop, 'kind': 'no-failing-input-found',
                       'broken': what, 'detail': text}, f, indent=1)
        self.violations.append((p, ' no-failing-input-found'))
        return p

    def known_finding(self, fid, text):
        line = 'KNOWN-FINDING: property=%s %s: %s' % (self.prop, fid, text)
        if line not in self.known:
            self.known.append(line)

    def sample(self, s, limit=6):
        if len(self.cov['samples']) < limit:
            self.cov['samples'].append(s)

    def finish(self):
        ev = {
            'property_id': self.prop,
            'tier': self.tier,
            'seed': self.seed,
            'level': self.level,
            'coverage': self.cov,
            'assumptions': self.assumptions,
            'wall_s': round(time.time() - self.t0, 2),
            'violations': len(self.violations),
        }
        ev['coverage']['known_findings_reported'] = list(self.known)
        os.makedirs(EVIDENCE, exist_ok=True)
        with open(os.path.join(EVIDENCE, self.prop + '.json'), 'w') as f:
            json.dump(ev, f, indent=1, default=str)
        for k in self.known:
            print(k)
        seen = set()
        for p, suffix in self.violations[:5]:
            if (p, suffix) in seen:
                continue
            seen.add((p, suffix))
            print('VIOLATION property=%s replay=%s%s' % (self.prop, p, suffix))
        sys.stdout.flush()
        return 1 if self.violations else 0
