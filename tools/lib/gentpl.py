"""corr-M for Model/GenTemplates.v: each `Example listing_NN : map show (template X) = [...]` of the
model file (accepted by coqc during the build: the list IS what the model computes) is compared
with what the real compiler emits at -O0 for the C statement named in the comment above it."""
import os
import re
from .common import *

DECL = 'unsigned char a,b,c; signed char sa,sb; unsigned short s,t,u; short ss,st;'
EX16_RE = re.compile(r'\(\*\* ([^\n]*?) \*\)\s*\nExample (listing16_\d+) : map show \(code16 \((.*?)\)\) =\s*\[(.*?)\]\.', re.S)
EX_RE = re.compile(r'\(\*\* ([^\n]*?) \*\)\s*\nExample (listing_\d+) : map show \(template \((.*?)\)\) =\s*\[(.*?)\]\.', re.S)


CALL_DECL = ('unsigned char a, b, c, i; void f() { c = 1; } unsigned char g() { return a; } unsigned char h(unsigned char x) { return x + 1; } '
             'unsigned char k(unsigned char x, unsigned char y) { return x + y; } void set(unsigned char x) { c = x; } '
             'unsigned char m(unsigned char x) { if (x < b) return b; return x; }')

# further template files: (file, regex kind, declarations the statements are compiled under)
MORE = [('GenSplit.v', 'slisting', 'stemplate',
         'superchip unsigned char c, d; superchip unsigned short s, t; superchip unsigned char *p; superchip unsigned char arr[4]; unsigned char a;'),
        ('GenLoops.v', 'llisting', 'ltemplate', 'unsigned char a, b, c, i;'),
        ('GenIf.v', 'ilisting', None, 'unsigned char a, b, c;'),
        ('GenCtl.v', 'clisting', None, 'unsigned char a, b, c, i;'),
        # calls: a comment `function NAME` pins the body of that function instead of a statement of main
        ('GenCall.v', 'flisting', None, CALL_DECL),
        ('GenTruth.v', 'tlisting', None, 'unsigned char a, b, c; unsigned short s, t, u;'),
        ('GenPtr.v', 'plisting', None, 'unsigned char a, b, c; unsigned char arr[8]; unsigned char *p, *q;'),
        ('GenElem.v', 'elisting', None, 'short sarr[4]; unsigned char *pa[2]; unsigned char a;'),
        ('GenHw.v', 'hlisting', None, 'unsigned char a, b; unsigned char *const HW0 = 2; unsigned char *const HW1 = 3;')]


def more_listings():
    """-> list of (example name, C statement, schema term, [expected line texts], declarations)"""
    out = []
    for (fn, ex, fun, decl) in MORE:
        p = os.path.join(COQ, 'Model', fn)
        if not os.path.exists(p):
            continue
        if fun is None:
            # any template term (one line), e.g. map show (if_tpl (CVar REq "a" "b") (assign8 "c" 1) 1)
            rx = re.compile(r'\(\*\* ([^\n]*?) \*\)\s*\nExample (%s_\d+) : map show \(([^\n]*)\) =\s*\[(.*?)\]\.' % ex, re.S)
        else:
            rx = re.compile(r'\(\*\* ([^\n]*?) \*\)\s*\nExample (%s_\d+) : map show \(%s \((.*?)\)\) =\s*\[(.*?)\]\.' % (ex, fun), re.S)
        for m in rx.finditer(open(p).read()):
            lines = re.findall(r'"((?:[^"]|"")*)"', m.group(4))
            out.append((m.group(2), m.group(1).strip().replace('( *', '(*'), m.group(3).strip(), [l.replace('""', '"') for l in lines], decl))
    return out


def listing():
    """-> list of (example name, C statement, schema term, [expected line texts])"""
    src = open(os.path.join(COQ, 'Model', 'GenTemplates.v')).read()
    out = []
    for m in EX_RE.finditer(src):
        lines = re.findall(r'"((?:[^"]|"")*)"', m.group(4))
        out.append((m.group(2), m.group(1).strip(), m.group(3).strip(), [l.replace('""', '"') for l in lines]))
    # the 16-bit comparison forms (Model/GenCmp16.v), same layout
    p16 = os.path.join(COQ, 'Model', 'GenCmp16.v')
    if os.path.exists(p16):
        for m in EX16_RE.finditer(open(p16).read()):
            lines = re.findall(r'"((?:[^"]|"")*)"', m.group(4))
            out.append((m.group(2), m.group(1).strip(), m.group(3).strip(), [l.replace('""', '"') for l in lines]))
    return out


def show(l):
    if l[0] == 'I':
        return '%s %s' % (l[1], l[6])
    if l[0] == 'L':
        return l[1] + ':'
    if l[0] == 'N':
        return l[2]
    if l[0] == 'C':
        return l[1]
    return ''


def run_gentpl():
    """-> (n templates, mismatches)"""
    ls = listing()
    if len(ls) < 30:
        raise HarnessError('cannot find the listing examples of Model/GenTemplates.v (found %d)' % len(ls))
    ls = [(n, st, t, e, DECL) for (n, st, t, e) in ls]
    more = more_listings()
    for (fn, ex, fun, decl) in MORE:
        if os.path.exists(os.path.join(COQ, 'Model', fn)) and not any(m[0].startswith(ex) for m in more):
            raise HarnessError('cannot find the %s examples of Model/%s' % (ex, fn))
    ls = ls + more
    jobs = ''.join(compile_job(name, '%s void main() { %s }' % (decl, '' if stmt.startswith('function ') else stmt), args=['-O0'], want=['funcs'])
                   for (name, stmt, term, exp, decl) in ls)
    res = run_ccv(jobs, tag='gentpl')
    mism = []
    for (name, stmt, term, exp, decl), r in zip(ls, res):
        if r.get('status') != 'ok':
            mism.append({'id': name, 'statement': stmt, 'why': 'the statement is rejected: %s' % (r.get('err') or r.get('status'),)})
            continue
        main = [f for f in r['funcs'] if f['name'] == (stmt.split()[1] if stmt.startswith('function ') else 'main')][0]
        got = [show(tuple(x)) for x in main['gen'] if x[0] in ('I', 'L', 'N')]
        if got != exp:
            mism.append({'id': name, 'statement': stmt, 'schema': term, 'why': 'the generator emits another sequence than template (%s)' % term,
                         'implementation': got, 'model': exp})
    return len(ls), mism
