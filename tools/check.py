#!/usr/bin/env python3
"""Single entry point of the checks:  tools/check.py <ID> [--tier quick|thorough] [--replay file]

exit 0: the property held on everything explored (KNOWN-FINDING lines may be printed)
exit 1: a line "VIOLATION property=<id> replay=<path>[ no-failing-input-found]" was printed
exit 2: the machinery itself failed (never a verdict)"""
import argparse
import importlib
import os
import sys
import traceback

sys.path.insert(0, os.path.dirname(os.path.abspath(__file__)))
from lib.common import Ctx, HarnessError, log  # noqa


def main():
    ap = argparse.ArgumentParser()
    ap.add_argument('prop')
    ap.add_argument('--tier', default=os.environ.get('VERIF_TIER', 'quick'))
    ap.add_argument('--replay', default=None)
    a = ap.parse_args()
    seed = int(os.environ.get('VERIF_SEED', '1') or 1)
    tier = a.tier if a.tier in ('quick', 'thorough') else 'quick'
    mod = importlib.import_module('props.' + a.prop.lower())
    ctx = Ctx(a.prop, tier, seed, level=getattr(mod, 'LEVEL', 'proof'))
    try:
        if a.replay:
            mod.replay(ctx, a.replay)
        else:
            mod.run(ctx)
    except HarnessError as e:
        log('HARNESS ERROR: %s' % e)
        sys.exit(2)
    except Exception:
        traceback.print_exc()
        sys.exit(2)
    sys.exit(ctx.finish())


if __name__ == '__main__':
    main()
