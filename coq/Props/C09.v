(** C09 — string and character literals are stored byte-exact.  Statements only (general theorems:
    Proofs/ScanFacts.v when present). *)
From Coq Require Import String Ascii List Bool NArith.
From CC Require Import Base.Str Model.Cpp Model.StrLit.
Import ListNotations.
Open Scope string_scope.

(** every escape the property lists decodes to its ASCII code: the whole (finite) escape table *)
Theorem C09_escape_table : forall c n, c_escape c = Some n -> escape_code c = chr n.
Proof.
  intros c n H. unfold c_escape in H. unfold escape_code.
  repeat match type of H with
         | (if Ascii.eqb c ?k then _ else _) = _ => destruct (Ascii.eqb_spec c k) as [-> | ?]; [injection H as <-; reflexivity|]
         end.
  discriminate H.
Qed.

(** exactly one NUL after the concatenated decoded pieces *)
Theorem C09_literal_bytes : forall pieces,
  compile_quoted_string pieces = String.concat "" (map decode pieces) ++ String (chr 0) "".
Proof. reflexivity. Qed.

(** a literal full of comment markers, a directive and a macro name is recorded verbatim *)
Theorem C09_example_opaque :
  match run_cpp [] "m.c" [("FOO", "1")] ["s = ""//x/*y*/#define FOO @1@ \""q\\""; // c" ++ nl] with
  | POk p => p_out p = "s = @0@; " ++ nl /\ sc_lits (c_scan (p_ctx p)) = ["//x/*y*/#define FOO @1@ \""q\\"]
  | PErr _ => False
  end.
Proof. vm_compute. split; reflexivity. Qed.

From CC Require Import Model.ScanSpec Proofs.ScanFacts.

(** decoding = C's decoding on every well-formed literal body (simple escapes) *)
Theorem C09_decode_correct : forall s t, c_decode s = Some t -> decode s = t.
Proof. exact decode_correct. Qed.

(** a literal = C's bytes followed by exactly one NUL *)
Theorem C09_literal_bytes_c : forall s t, c_decode s = Some t ->
  compile_quoted_string [s] = t ++ String (chr 0) "".
Proof. exact literal_bytes_c. Qed.

(** character constants *)
Theorem C09_char_const_plain : forall c, c <> "\"%char -> quoted_character (String c "") = Some c.
Proof. exact char_const_plain. Qed.
Theorem C09_char_const_escape : forall (e : ascii) (n : nat), c_escape e = Some n ->
  quoted_character ("\" ++ String e "") = Some (chr n).
Proof. exact char_const_escape. Qed.

(** the scanner finds the true end of every scannable literal body ... *)
Theorem C09_find_close_exact : forall body rest, scannable body ->
  find_close (S (String.length (body ++ """" ++ rest))) (body ++ """" ++ rest) "" = Some (body, rest).
Proof. exact find_close_exact. Qed.

(** ... and records it VERBATIM, whatever it contains (//, /*, */, #, @, macro names), replacing it
    by an opaque marker that later stages cannot confuse with code *)
Theorem C09_literal_opaque : forall pre body post st,
  sc_in_comment st = false -> no_markers pre -> scannable body ->
  contains """" post = false -> contains "//" post = false -> contains "/*" post = false ->
  scan_line false (pre ++ """" ++ body ++ """" ++ post) st
  = ScanOk (pre ++ "@" ++ string_of_N (sc_next_lit st) ++ "@" ++ post) true
           (mkScan false (sc_next_lit st + 1) (body :: sc_lits st)).
Proof. exact scan_line_one_literal. Qed.

(** a literal that follows a block comment on its line is extracted like any other (repaired
    defect: the line used to be cut at the // of the literal and rejected as unterminated) *)
Theorem C09_literal_after_block_comment :
  scan_line false ("/* c */ s = ""http://x"";" ++ nl) (mkScan false 0 [])
  = ScanOk (" s = @0@;" ++ nl) true (mkScan false 1 ["http://x"]).
Proof. vm_compute. reflexivity. Qed.

Theorem C09_literal_after_block_comment_general : forall pre cbody mid body post st f out ins,
  sc_in_comment st = false -> no_markers pre ->
  forall no_trailing_slash : ends_with "/" pre = false,
  contains "*/" cbody = false ->
  no_markers mid -> scannable body ->
  scan_loop (S (S (S f))) false (pre ++ "/*" ++ cbody ++ "*/" ++ mid ++ """" ++ body ++ """" ++ post) out ins st
  = scan_loop f false post ((out ++ pre) ++ mid ++ "@" ++ string_of_N (sc_next_lit st) ++ "@") true
              (mkScan false (sc_next_lit st + 1) (body :: sc_lits st)).
Proof. exact literal_after_block_comment. Qed.

(** the end of a literal is C's: the closing quote is the first quote preceded by an EVEN number of
    backslashes (repaired defect: the scanner looked at one or two characters only, and a body
    containing backslash backslash quote was rejected or mis-split).  [closes_body body]: an even
    number of backslashes ends [body] and every quote inside it has an odd number in front
    ([escaped_parity false l = true]: the text [l] ends in an odd number of backslashes) *)
Theorem C09_find_close_parity : forall fuel s body rest,
  String.length s < fuel ->
  (find_close fuel s "" = Some (body, rest) <-> s = body ++ """" ++ rest /\ closes_body body).
Proof. exact find_close_parity. Qed.

(** ... and the literal is unterminated exactly when no quote qualifies *)
Theorem C09_find_close_none_parity : forall fuel s,
  String.length s < fuel ->
  (find_close fuel s "" = None <-> forall body rest, s = body ++ """" ++ rest -> ~ closes_body body).
Proof. exact find_close_none_parity. Qed.

(** the number the model computes is the length of the run of backslashes that ends the text *)
Theorem C09_trailing_backslashes_spec :
  trailing_backslashes "" = 0
  /\ (forall s, trailing_backslashes (s ++ "\") = S (trailing_backslashes s))
  /\ (forall s c, c <> "\"%char -> trailing_backslashes (s ++ String c "") = 0).
Proof. exact trailing_backslashes_spec. Qed.

(** every body C accepts (simple escapes) is scannable: no exception is left *)
Theorem C09_scannable_of_c : forall body, c_decode body <> None -> scannable body.
Proof. exact scannable_of_c. Qed.

(** a, escaped backslash, escaped quote, b: one literal *)
Example C09_backslash_parity :
  scan_line false ("s = ""a\\\""b"";" ++ nl) (mkScan false 0 [])
  = ScanOk ("s = @0@;" ++ nl) true (mkScan false 1 ["a\\\""b"]).
Proof. vm_compute. reflexivity. Qed.

(** a literal ending in an escaped backslash, followed by more text *)
Example C09_backslash_parity_even :
  scan_line false ("s = ""a\\"" + x; t = ""b"";" ++ nl) (mkScan false 0 [])
  = ScanOk ("s = @0@ + x; t = @1@;" ++ nl) true (mkScan false 2 ["b"; "a\\"]).
Proof. vm_compute. reflexivity. Qed.

(** two escaped backslashes and an escaped quote *)
Example C09_backslash_parity_five :
  scan_line false ("s = ""\\\\\"""";" ++ nl) (mkScan false 0 [])
  = ScanOk ("s = @0@;" ++ nl) true (mkScan false 1 ["\\\\\"""]).
Proof. vm_compute. reflexivity. Qed.
