(** Model of [AssemblyCode::optimize] (src/assemble.rs).

    The Rust walks the vector with a [multipeek] iterator and two mutable references [first] and
    [second].  The model is the same walk on a zipper:

      rev pre ++ [Ins f] ++ rev mid ++ rest

    [f] is the instruction [first] points to, the head of [rest] is what [second] points to, the
    iterator's remaining input is the tail of [rest], [mid] are the (non-instruction) lines the
    walk has already skipped between the two.  Removed instructions become [Dummy], exactly as in
    the code.  Nothing is tidied up.  (The model follows the repaired code: inline assembly is a
    barrier like a label; INC/DEC/shifts on memory kill memory knowledge; N/Z knowledge is
    cleared by index and memory read-modify-write instructions.) *)
From Coq Require Import String Ascii List Bool NArith.
From CC Require Import Base.Str Asm.Lines.
Import ListNotations.
Open Scope string_scope.
Open Scope list_scope.

Inductive flags_state := FUnknown | FA | FX | FY.

Definition flags_is_A (f : flags_state) : bool := match f with FA => true | _ => false end.

Record know := mkK {
  k_acc : option string;
  k_x : option string;
  k_y : option string;
  k_flags : flags_state
}.

Definition k_init : know := mkK None None None FUnknown.

Definition opt_eqb (o : option string) (s : string) : bool :=
  match o with Some v => String.eqb v s | None => false end.

Definition kill_if (p : string -> bool) (o : option string) : option string :=
  match o with Some v => if p v then None else o | None => None end.

Definition is_imm (s : string) : bool := starts_with "#" s.

(** "Analyze the first instruction to check for a load" -- three variants in the code:
    at start (flags unchanged when not a load), after a label (flags := Unknown when not a load),
    after remove_both (flags never changed). *)
Inductive al_mode := AlStart | AlLabel | AlRemoveBoth.

Definition analyse_load (m : al_mode) (k : know) (i : instr) : know :=
  let a := k_acc k in let x := k_x k in let y := k_y k in let fl := k_flags k in
  match i_mn i with
  | LDA => mkK (Some (i_op i)) x y (match m with AlRemoveBoth => fl | _ => FA end)
  | LDX => mkK a (Some (i_op i)) y (match m with AlRemoveBoth => fl | _ => FX end)
  | LDY => mkK a x (Some (i_op i)) (match m with AlRemoveBoth => fl | _ => FY end)
  | _ => mkK a x y (match m with AlLabel => FUnknown | _ => fl end)
  end.

Definition reset_regs (k : know) : know := mkK None None None (k_flags k).

(** advance [first] to the next Instruction: lines skipped go to [pre] (reversed) *)
Fixpoint skip_to_ins (pre : list line) (l : list line) : option (list line * instr * list line) :=
  match l with
  | [] => None
  | Ins i :: r => Some (pre, i, r)
  | x :: r => skip_to_ins (x :: pre) r
  end.

(** the pair rules; result = (remove_both, remove_first, remove_second, swap_both) *)
(** "#" followed by decimal digits only *)
Fixpoint all_digits (s : string) : bool :=
  match s with
  | EmptyString => true
  | String a r => (Nat.leb 48 (nat_of_ascii a) && Nat.leb (nat_of_ascii a) 57) && all_digits r
  end.
Definition is_plain_number (s : string) : bool :=
  match s with
  | String "#"%char r => negb (String.eqb r "") && all_digits r
  | _ => false
  end.

Definition cmp_rule (reg : option string) (cmpm : mnem) (i1 i2 : instr) : bool :=
  match reg with
  | Some r =>
      if is_imm r && mnem_eqb (i_mn i1) cmpm && is_imm (i_op i1) then
        match i_mn i2 with
        | BNE => String.eqb r (i_op i1) && negb (i_prot i2)
        | BEQ => negb (String.eqb r (i_op i1)) && is_plain_number r && is_plain_number (i_op i1) && negb (i_prot i2)
        | _ => false
        end
      else false
  | None => false
  end.

Definition pair_rules (k : know) (i1 i2 : instr) : bool * bool * bool * bool :=
  let m1 := i_mn i1 in let m2 := i_mn i2 in
  let p1 := i_prot i1 in let p2 := i_prot i2 in
  let same := String.eqb (i_op i1) (i_op i2) in
  let is a b := mnem_eqb m1 a && mnem_eqb m2 b in
  let rb := (is PLA PHA && negb p1 && negb p2)
            || cmp_rule (k_acc k) CMP i1 i2
            || cmp_rule (k_x k) CPX i1 i2
            || cmp_rule (k_y k) CPY i1 i2 in
  let rs := (is JMP JMP && negb p1 && negb p2)
            || (is STA LDA && same && flags_is_A (k_flags k) && negb p2)
            || (is LDA STA && same && negb p2)
            || (is LDY STY && same && negb p2)
            || (is LDX STX && same && negb p2)
            || (is TAX TXA && negb p2)
            || (is TXA TAX && negb p2)
            || (is TAY TYA && negb p2)
            || (is TYA TAY && negb p2)
            || (mnem_eqb m2 ORA && String.eqb (i_op i2) "#0" && flags_is_A (k_flags k) && negb p2) in
  let rf := (is LDA LDA && negb p1) || (is LDY LDY && negb p1) || (is LDX LDX && negb p1) in
  let sw := mnem_eqb m1 LDA && (mnem_eqb m2 SEC || mnem_eqb m2 CLC) in
  (rb, rf, rs, sw).

Definition is_load (m : mnem) : bool :=
  match m with LDA | LDX | LDY => true | _ => false end.

(** the look-ahead of the LDA case: [ahead] is what the iterator would yield after [second] *)
Definition lda_lookahead (ahead : list line) : bool :=
  match ahead with
  | Ins j1 :: t1 =>
      match i_mn j1 with
      | CMP => true
      | STA =>
          match t1 with
          | Ins j2 :: _ => is_load (i_mn j2)
          | Dummy :: Ins j3 :: _ => is_load (i_mn j3)
          | _ => false
          end
      | _ => false
      end
  | _ => false
  end.

(** AsmMnemonic::defines_nz: the instruction sets both N and Z whatever they were *)
Definition defines_nz (m : mnem) : bool :=
  match m with
  | LDA | LDX | LDY | TAX | TAY | TXA | TYA | ADC | SBC | EOR | AND | ORA
  | LSR | ASL | ROL | ROR | CMP | CPX | CPY | INC | INX | INY | DEC | DEX | DEY | PLA => true
  | _ => false
  end.

(** the look-ahead of the LDX/LDY case: comments and removed lines are skipped *)
Fixpoint ldxy_lookahead (ahead : list line) : bool :=
  match ahead with
  | Ins j :: _ => defines_nz (i_mn j)
  | Cmt _ :: t | Dummy :: t => ldxy_lookahead t
  | _ => false
  end.

Definition ends_x (s : string) : bool := ends_with ",X" s.
Definition ends_y (s : string) : bool := ends_with ",Y" s.

(** transfer function of the second instruction; result = (knowledge, remove_second) *)
Definition transfer (k : know) (i : instr) (ahead : list line) : know * bool :=
  let a := k_acc k in let x := k_x k in let y := k_y k in let fl := k_flags k in
  let o := i_op i in
  match i_mn i with
  | LDA =>
      let rs := if opt_eqb a o
                then (if flags_is_A fl then negb (i_prot i)
                      else if lda_lookahead ahead then negb (i_prot i) else false)
                else false in
      (* a load dropped because of what follows it sets no flag *)
      (mkK (Some o) x y (if negb rs || flags_is_A fl then FA else fl), rs)
  | LDX =>
      let rs := if opt_eqb x o
                then (match fl with
                      | FX => negb (i_prot i)
                      | _ => if ldxy_lookahead ahead then negb (i_prot i) else false
                      end)
                else false in
      (mkK (kill_if ends_x a) (Some o) (kill_if ends_x y)
           (if negb rs || match fl with FX => true | _ => false end then FX else fl), rs)
  | LDY =>
      let rs := if opt_eqb y o
                then (match fl with
                      | FY => negb (i_prot i)
                      | _ => if ldxy_lookahead ahead then negb (i_prot i) else false
                      end)
                else false in
      (mkK (kill_if ends_y a) (kill_if ends_y x) (Some o)
           (if negb rs || match fl with FY => true | _ => false end then FY else fl), rs)
  | DEC | INC =>
      let kl := kill_if (fun v => negb (is_imm v)) in
      (mkK (kl a) (kl x) (kl y) FUnknown, false)
  | INX | DEX => (mkK (kill_if ends_x a) None (kill_if ends_x y) FUnknown, false)
  | INY | DEY => (mkK (kill_if ends_y a) (kill_if ends_y x) None FUnknown, false)
  | TAX =>
      let '(a', x') := match a with
                       | Some v => if ends_x v then (None, None) else (a, a)
                       | None => (None, None)
                       end in
      (mkK a' x' (kill_if ends_x y) FA, false)
  | TAY =>
      let '(a', y') := match a with
                       | Some v => if ends_y v then (None, None) else (a, a)
                       | None => (None, None)
                       end in
      (mkK a' (kill_if ends_y x) y' FA, false)
  | TXA => (mkK x x y FA, false)
  | TYA => (mkK y x y FA, false)
  | STA | STX | STY =>
      let kl := kill_if (fun v => negb (is_imm v)) in
      (mkK (kl a) (kl x) (kl y) fl, false)
  | LSR | ASL | ROL | ROR =>
      if String.eqb o "" then (mkK None x y FA, false)
      else
        let kl := kill_if (fun v => negb (is_imm v)) in
        (mkK (kl a) (kl x) (kl y) FUnknown, false)
  | ADC | SBC | EOR | AND | ORA | PLA => (mkK None x y FA, false)
  | PHA => (mkK None x y fl, false)
  | PLP => (mkK a x y FUnknown, false)
  | JSR | JMP => (mkK None None None FUnknown, false)
  | CPX | CPY | CMP => (mkK a x y FUnknown, false)
  | _ => (k, false)
  end.

(** zipper state *)
Record zst := mkZ {
  z_pre : list line;     (* reversed *)
  z_f : instr;
  z_mid : list line;     (* reversed *)
  z_rest : list line;    (* head = second *)
  z_k : know;
  z_removed : N
}.

Definition z_code (z : zst) : code :=
  rev (z_pre z) ++ Ins (z_f z) :: rev (z_mid z) ++ z_rest z.

Inductive step_result :=
| Done (c : code) (removed : N)
| Next (z : zst).

Definition finish (pre : list line) (l : list line) (n : N) : step_result := Done (rev pre ++ l) n.

(** (J) remove a JMP to the label that follows it *)
Definition step_jmp (z : zst) : step_result :=
  let f := z_f z in
  match z_rest z with
  | Lbl l :: r =>
      if mnem_eqb (i_mn f) JMP && String.eqb (i_op f) l && negb (i_prot f) then
        (* first := Dummy; first := second, then advanced to the next Instruction *)
        let pre' := Lbl l :: z_mid z ++ Dummy :: z_pre z in
        let n' := (z_removed z + 1)%N in
        match skip_to_ins pre' r with
        | None => finish pre' r n'
        | Some (pre'', i, r') => Next (mkZ pre'' i [] r' (z_k z) n')
        end
      else Next z
  | _ => Next z
  end.

(** (S) make [second] point to an instruction.  Structural on the remaining input. *)
Fixpoint step_second (pre : list line) (f : instr) (mid : list line) (rest : list line)
         (k : know) (n : N) {struct rest} : step_result :=
  match rest with
  | [] => finish pre (Ins f :: rev mid) n
  | Ins _ :: _ => Next (mkZ pre f mid rest k n)
  | (Lbl _ | Inl _ _) as b :: r =>
      (* restart after the label (or the inline-assembly line, a barrier): first := next
         Instruction; knowledge reset *)
      let pre' := b :: mid ++ Ins f :: pre in
      (fix find (pre : list line) (r : list line) {struct r} : step_result :=
         match r with
         | [] => finish pre [] n
         | Ins i :: r' =>
             step_second pre i [] r' (analyse_load AlLabel (reset_regs k) i) n
         | x :: r' => find (x :: pre) r'
         end) pre' r
  | x :: r => step_second pre f (x :: mid) r k n
  end.

(** (P)+(T)+(A) on a state whose second is the instruction [i2] *)
Definition step_pair (z : zst) (i2 : instr) (ahead : list line) : step_result :=
  let i1 := z_f z in
  let k := z_k z in
  let '(rb, rf, rs0, sw) := pair_rules k i1 i2 in
  let '(k1, rs) := if negb rs0 && negb rb
                   then (let '(k', r) := transfer k i2 ahead in (k', r))
                   else (k, rs0) in
  let pre := z_pre z in let mid := z_mid z in let n := z_removed z in
  if sw then
    Next (mkZ pre i2 mid (Ins i1 :: ahead) (mkK None (k_x k1) (k_y k1) (k_flags k1)) n)
  else if rb then
    let pre' := Dummy :: mid ++ Dummy :: pre in
    let n' := (n + 2)%N in
    match skip_to_ins pre' ahead with
    | None => finish pre' ahead n'
    | Some (pre'', i, r') =>
        Next (mkZ pre'' i [] r' (analyse_load AlRemoveBoth (reset_regs k1) i) n')
    end
  else if rs then
    Next (mkZ pre i1 (Dummy :: mid) ahead k1 (n + 1)%N)
  else if rf then
    Next (mkZ (mid ++ Dummy :: pre) i2 [] ahead k1 (n + 1)%N)
  else
    Next (mkZ (mid ++ Ins i1 :: pre) i2 [] ahead k1 n).

Definition step (z : zst) : step_result :=
  match step_jmp z with
  | Done c n => Done c n
  | Next z1 =>
      match step_second (z_pre z1) (z_f z1) (z_mid z1) (z_rest z1) (z_k z1) (z_removed z1) with
      | Done c n => Done c n
      | Next z2 =>
          match z_rest z2 with
          | Ins i2 :: ahead => step_pair z2 i2 ahead
          | _ => Done (z_code z2) (z_removed z2)   (* not reachable: step_second returns an Ins head *)
          end
      end
  end.

Fixpoint run (fuel : nat) (z : zst) : option (code * N) :=
  match fuel with
  | O => None
  | S f => match step z with
           | Done c n => Some (c, n)
           | Next z' => run f z'
           end
  end.

Definition optimize_fuel (c : code) : nat := 2 * length c + 4.

(** [None] = out of fuel (shown impossible in Proofs/OptimizeFacts.v) *)
Definition optimize_opt (c : code) : option (code * N) :=
  match skip_to_ins [] c with
  | None => Some (c, 0%N)
  | Some (pre, i, r) =>
      run (optimize_fuel c) (mkZ pre i [] r (analyse_load AlStart k_init i) 0%N)
  end.

Definition optimize (c : code) : code * N :=
  match optimize_opt c with Some r => r | None => (c, 0%N) end.
