(** Soundness of the peephole optimiser's register knowledge ([transfer]) and of its rewrite
    rules ([pair_rules]) with respect to the executable 6502 semantics (M6502/Sem.v).

    Statements that turned out to be false as first stated are refuted by a concrete
    counterexample ([..._refuted]) and then proved with a named extra hypothesis.

    The knowledge [transfer] returns describes the state actually reached in the OPTIMISED text:
    when the instruction is kept ([snd (transfer k i ahead) = false]) the state after it
    ([transfer_sound]); when it is a load to be removed, the state in which it is not executed
    ([transfer_removed_sound]).  The global statement built on these is in Proofs/OptSimFacts.v. *)
From Coq Require Import String Ascii List Bool NArith ZArith FMapPositive Lia ZifyBool.
From CC Require Import Base.Str Asm.Lines M6502.Isa Asm.Operand M6502.Sem Model.Optimize Model.OptSem.
Import ListNotations.
Open Scope Z_scope.

Ltac Zify.zify_post_hook ::= Z.div_mod_to_equations.

(** * Memory *)

Lemma mget_mset_same (m : memory) (a v : Z) : mget (mset m a v) a = v.
Proof. unfold mget, mset. rewrite PositiveMap.gss. reflexivity. Qed.

Lemma mget_mset_key (m : memory) (a b v : Z) :
  akey a <> akey b -> mget (mset m a v) b = mget m b.
Proof. intros H. unfold mget, mset. rewrite PositiveMap.gso; [reflexivity|congruence]. Qed.

Lemma mget_mset_other (m : memory) (a b v : Z) :
  a <> b -> 0 <= a -> 0 <= b -> mget (mset m a v) b = mget m b.
Proof. intros H Ha Hb. apply mget_mset_key. unfold akey. lia. Qed.

(** writing back what a cell holds changes nothing observable *)
Lemma mget_mset_id (m : memory) (a b : Z) : mget (mset m a (mget m a)) b = mget m b.
Proof.
  destruct (Pos.eq_dec (akey a) (akey b)) as [E|E].
  - unfold mget, mset. rewrite E. rewrite PositiveMap.gss. reflexivity.
  - apply mget_mset_key. exact E.
Qed.

(** writing the same value at the same address preserves cell-by-cell equality *)
Lemma mget_mset_ext (m m' : memory) (a v : Z) :
  (forall b, mget m b = mget m' b) -> forall b, mget (mset m a v) b = mget (mset m' a v) b.
Proof.
  intros H b. destruct (Pos.eq_dec (akey a) (akey b)) as [E|E].
  - unfold mget, mset. rewrite E. rewrite !PositiveMap.gss. reflexivity.
  - rewrite !mget_mset_key by exact E. apply H.
Qed.

Lemma byte_range (z : Z) : 0 <= byte z < 256.
Proof. unfold byte. lia. Qed.

Lemma read_addr_nil (a : Z) : read_addr [] a = Some a.
Proof. reflexivity. Qed.
Lemma write_addr_nil (a : Z) : write_addr [] a = Some a.
Proof. reflexivity. Qed.

(** effective addresses are non-negative and below 64K *)
Lemma eff_addr_range (cfg : config) (m : mnem) (s : mstate) (o : operand) (a : Z) (md : mode) (cr : bool) :
  eff_addr cfg m s o = Some (a, md, cr) -> 0 <= a < 65536.
Proof.
  unfold eff_addr. intros H.
  destruct o as [|v|y k ix|y k|l]; try discriminate.
  - destruct (layout cfg y) as [a0|]; [|discriminate].
    destruct (resolve m (shape_of (OMem y k ix)) (a0 + k <? 256)) as [md'|]; [|discriminate].
    destruct md'; inversion H; subst; unfold byte; lia.
  - destruct (layout cfg y) as [a0|]; [|discriminate].
    destruct (a0 + k <? 255); [|discriminate].
    destruct (read_addr (ports cfg) (a0 + k)); [|discriminate].
    destruct (read_addr (ports cfg) (a0 + k + 1)); [|discriminate].
    inversion H; subst. lia.
Qed.

Lemma byte_eq (z : Z) : byte z = z mod 256.
Proof. reflexivity. Qed.

Lemma mget_empty (a : Z) : mget mem_empty a = 0.
Proof. unfold mget, mem_empty. rewrite PositiveMap.gempty. reflexivity. Qed.

Lemma mget_mset_bytes (m : memory) (a v : Z) :
  (forall b, 0 <= mget m b < 256) -> 0 <= v < 256 -> forall b, 0 <= mget (mset m a v) b < 256.
Proof.
  intros Hm Hv b. destruct (Pos.eq_dec (akey a) (akey b)) as [E|E].
  - unfold mget, mset. rewrite E. rewrite PositiveMap.gss. exact Hv.
  - rewrite mget_mset_key by exact E. apply Hm.
Qed.

#[local] Opaque mget mset byte.
#[local] Arguments mget : simpl never.
#[local] Arguments mset : simpl never.
#[local] Arguments byte : simpl never.

(** * Strings: suffix tests *)

Lemma str_app_assoc (a b c : string) : ((a ++ b) ++ c = a ++ (b ++ c))%string.
Proof. induction a as [|x a IH]; simpl; [reflexivity|]. rewrite IH. reflexivity. Qed.

Lemma rev_string_aux_app (s acc : string) :
  rev_string_aux s acc = (rev_string_aux s EmptyString ++ acc)%string.
Proof.
  revert acc. induction s as [|a s IH]; intros acc; simpl; [reflexivity|].
  rewrite IH. rewrite (IH (String a EmptyString)).
  rewrite str_app_assoc. reflexivity.
Qed.

Lemma rev_string_cons (a : ascii) (s : string) :
  rev_string (String a s) = (rev_string s ++ String a EmptyString)%string.
Proof. unfold rev_string. simpl. apply rev_string_aux_app. Qed.

Lemma starts_with_app (p a b : string) :
  starts_with p a = true -> starts_with p (a ++ b)%string = true.
Proof.
  revert a. induction p as [|c p IH]; intros a H; simpl; [reflexivity|].
  destruct a as [|d a]; simpl in *; [discriminate|].
  apply andb_true_iff in H. destruct H as [H1 H2].
  rewrite H1. simpl. apply IH. exact H2.
Qed.

Lemma ends_with_cons (suf : string) (a : ascii) (s : string) :
  ends_with suf s = true -> ends_with suf (String a s) = true.
Proof. unfold ends_with. intros H. rewrite rev_string_cons. apply starts_with_app. exact H. Qed.

Lemma ends_with_parenY_commaY (s : string) :
  ends_with "),Y" s = true -> ends_with ",Y" s = true.
Proof.
  unfold ends_with. change (rev_string "),Y") with "Y,)"%string.
  change (rev_string ",Y") with "Y,"%string.
  destruct (rev_string s) as [|a [|b [|c r]]]; simpl; try discriminate;
    try (rewrite !andb_false_r; discriminate).
  intros H. apply andb_true_iff in H. destruct H as [H1 H].
  apply andb_true_iff in H. destruct H as [H2 _]. rewrite H1, H2. reflexivity.
Qed.

Lemma strip_suffix_some (suf s b : string) : strip_suffix suf s = Some b -> ends_with suf s = true.
Proof. unfold strip_suffix. destruct (ends_with suf s); [reflexivity|discriminate]. Qed.

(** * The operand parser in if-then-else form *)

Definition parse_imm (r : string) : option operand :=
  match r with
  | String "<"%char r' =>
      match parse_paren_sym_off r' with Some (y, k) => Some (OImm (ILo y k)) | None => None end
  | String ">"%char r' =>
      match parse_paren_sym_off r' with Some (y, k) => Some (OImm (IHi y k)) | None => None end
  | _ => match parse_dec r with Some n => Some (OImm (INum (Z.of_N n))) | None => None end
  end.

Definition parse_ind (r : string) : option operand :=
  match strip_suffix "),Y" r with
  | Some inner =>
      match parse_sym_off inner with Some (y, k) => Some (OInd y k) | None => None end
  | None => None
  end.

Definition parse_mem (s : string) : option operand :=
  match strip_suffix ",X" s with
  | Some b => match parse_sym_off b with Some (y, k) => Some (OMem y k IxX) | None => None end
  | None =>
      match strip_suffix ",Y" s with
      | Some b => match parse_sym_off b with Some (y, k) => Some (OMem y k IxY) | None => None end
      | None => match parse_sym_off s with Some (y, k) => Some (OMem y k IxNone) | None => None end
      end
  end.

Lemma parse_operand_eq (m : mnem) (s : string) :
  parse_operand m s =
  if String.eqb s "" then Some ONone
  else if takes_label m then Some (OLbl s)
  else match s with
       | EmptyString => parse_mem s
       | String c r =>
           if Ascii.eqb c "#" then parse_imm r
           else if Ascii.eqb c "(" then parse_ind r
           else parse_mem s
       end.
Proof.
  unfold parse_operand.
  destruct (String.eqb s ""); [reflexivity|].
  destruct (takes_label m); [reflexivity|].
  destruct s as [|c r]; [reflexivity|].
  destruct c as [b0 b1 b2 b3 b4 b5 b6 b7].
  destruct b0, b1, b2, b3, b4, b5, b6, b7; reflexivity.
Qed.

Lemma parse_imm_is_imm (r : string) (op : operand) :
  parse_imm r = Some op -> exists v, op = OImm v.
Proof.
  unfold parse_imm. intros H.
  destruct r as [|c r'].
  - destruct (parse_dec ""); [|discriminate]. inversion H. eauto.
  - destruct c as [b0 b1 b2 b3 b4 b5 b6 b7].
    destruct b0, b1, b2, b3, b4, b5, b6, b7;
      repeat match type of H with
             | match ?x with _ => _ end = _ => destruct x as [[? ?]|] eqn:?
             | match ?x with _ => _ end = _ => destruct x eqn:?
             end; try discriminate; inversion H; eauto.
Qed.

Lemma parse_ind_shape (r : string) (op : operand) :
  parse_ind r = Some op -> (exists y k, op = OInd y k) /\ ends_with "),Y" r = true.
Proof.
  unfold parse_ind. intros H.
  destruct (strip_suffix "),Y" r) as [inner|] eqn:E; [|discriminate].
  destruct (parse_sym_off inner) as [[y k]|]; [|discriminate].
  inversion H. split; [eauto|]. eapply strip_suffix_some. exact E.
Qed.

Lemma parse_mem_shape (s : string) (op : operand) :
  parse_mem s = Some op ->
  exists y k ix, op = OMem y k ix /\
                 (ix = IxX -> ends_with ",X" s = true) /\
                 (ix = IxY -> ends_with ",Y" s = true).
Proof.
  unfold parse_mem. intros H.
  destruct (strip_suffix ",X" s) as [b|] eqn:EX.
  - destruct (parse_sym_off b) as [[y k]|]; [|discriminate]. inversion H.
    exists y, k, IxX. repeat split; [|discriminate].
    intros _. eapply strip_suffix_some. exact EX.
  - destruct (strip_suffix ",Y" s) as [b|] eqn:EY.
    + destruct (parse_sym_off b) as [[y k]|]; [|discriminate]. inversion H.
      exists y, k, IxY. repeat split; [discriminate|].
      intros _. eapply strip_suffix_some. exact EY.
    + destruct (parse_sym_off s) as [[y k]|]; [|discriminate]. inversion H.
      exists y, k, IxNone. repeat split; discriminate.
Qed.

(** what a register-dependent operand looks like *)
Definition uses_x (op : operand) : bool :=
  match op with OMem _ _ IxX => true | _ => false end.
Definition uses_y (op : operand) : bool :=
  match op with OMem _ _ IxY => true | OInd _ _ => true | _ => false end.
Definition is_immop (op : operand) : bool :=
  match op with OImm _ => true | _ => false end.

Lemma parse_not_label_cases (m : mnem) (o : string) (op : operand) :
  takes_label m = false -> parse_operand m o = Some op ->
  (o = ""%string /\ op = ONone) \/
  (exists c r, o = String c r /\
     ((c = "#"%char /\ parse_imm r = Some op) \/
      (c <> "#"%char /\ c = "("%char /\ parse_ind r = Some op) \/
      (c <> "#"%char /\ c <> "("%char /\ parse_mem o = Some op))).
Proof.
  intros HL H. rewrite parse_operand_eq in H. rewrite HL in H.
  destruct o as [|c r].
  - left. simpl in H. inversion H. auto.
  - right. exists c, r. split; [reflexivity|].
    change (String.eqb (String c r) "") with false in H. cbv iota in H.
    destruct (Ascii.eqb c "#") eqn:E1.
    + apply Ascii.eqb_eq in E1. left. auto.
    + apply Ascii.eqb_neq in E1.
      destruct (Ascii.eqb c "(") eqn:E2.
      * apply Ascii.eqb_eq in E2. right. left. auto.
      * apply Ascii.eqb_neq in E2. right. right. auto.
Qed.

Lemma parse_uses_x (m : mnem) (o : string) (op : operand) :
  takes_label m = false -> parse_operand m o = Some op -> uses_x op = true -> ends_x o = true.
Proof.
  intros HL H U. destruct (parse_not_label_cases m o op HL H) as [[_ ->]|(c & r & -> & [[_ P]|[(_ & _ & P)|(_ & _ & P)]])].
  - discriminate.
  - apply parse_imm_is_imm in P. destruct P as [v ->]. discriminate.
  - apply parse_ind_shape in P. destruct P as [(y & k & ->) _]. discriminate.
  - apply parse_mem_shape in P. destruct P as (y & k & ix & -> & PX & _).
    destruct ix; try discriminate. apply PX. reflexivity.
Qed.

Lemma parse_uses_y (m : mnem) (o : string) (op : operand) :
  takes_label m = false -> parse_operand m o = Some op -> uses_y op = true -> ends_y o = true.
Proof.
  intros HL H U. destruct (parse_not_label_cases m o op HL H) as [[_ ->]|(c & r & -> & [[_ P]|[(_ & _ & P)|(_ & _ & P)]])].
  - discriminate.
  - apply parse_imm_is_imm in P. destruct P as [v ->]. discriminate.
  - apply parse_ind_shape in P. destruct P as [_ P]. unfold ends_y.
    apply ends_with_cons. apply ends_with_parenY_commaY. exact P.
  - apply parse_mem_shape in P. destruct P as (y & k & ix & -> & _ & PY).
    destruct ix; try discriminate. apply PY. reflexivity.
Qed.

Lemma is_imm_cons (c : ascii) (r : string) : is_imm (String c r) = true -> c = "#"%char.
Proof.
  unfold is_imm. change (starts_with "#" (String c r)) with (Ascii.eqb "#" c && true)%bool.
  rewrite andb_true_r. intros H. apply Ascii.eqb_eq in H. congruence.
Qed.

Lemma parse_is_imm (m : mnem) (o : string) (op : operand) :
  takes_label m = false -> parse_operand m o = Some op -> is_imm o = true -> is_immop op = true.
Proof.
  intros HL H U. destruct (parse_not_label_cases m o op HL H) as [[-> _]|(c & r & -> & [[_ P]|[(N & _ & P)|(N & _ & P)]])].
  - discriminate.
  - apply parse_imm_is_imm in P. destruct P as [v ->]. reflexivity.
  - exfalso. apply N. apply is_imm_cons in U. exact U.
  - exfalso. apply N. apply is_imm_cons in U. exact U.
Qed.

Lemma parse_is_imm_conv (m : mnem) (o : string) (op : operand) :
  takes_label m = false -> parse_operand m o = Some op -> is_immop op = true -> is_imm o = true.
Proof.
  intros HL H U. destruct (parse_not_label_cases m o op HL H) as [[_ ->]|(c & r & -> & [[-> P]|[(N & _ & P)|(N & _ & P)]])].
  - discriminate.
  - reflexivity.
  - apply parse_ind_shape in P. destruct P as [(y & k & ->) _]. discriminate.
  - apply parse_mem_shape in P. destruct P as (y & k & ix & -> & _). discriminate.
Qed.

Lemma parse_none_iff (m : mnem) (o : string) (op : operand) :
  parse_operand m o = Some op -> (op = ONone <-> o = ""%string).
Proof.
  intros H. destruct o as [|c r].
  - simpl in H. inversion H. tauto.
  - split; [|discriminate]. intros ->. exfalso.
    destruct (takes_label m) eqn:HL.
    + rewrite parse_operand_eq in H. rewrite HL in H. simpl in H. discriminate.
    + destruct (parse_not_label_cases m _ _ HL H) as [[E _]|(c' & r' & _ & [[_ P]|[(_ & _ & P)|(_ & _ & P)]])].
      * discriminate.
      * apply parse_imm_is_imm in P. destruct P as [v P]. discriminate.
      * apply parse_ind_shape in P. destruct P as [(y & k & P) _]. discriminate.
      * apply parse_mem_shape in P. destruct P as (y & k & ix & P & _). discriminate.
Qed.

Lemma parse_operand_mnem (m m' : mnem) (o : string) :
  takes_label m = false -> takes_label m' = false -> parse_operand m o = parse_operand m' o.
Proof. intros H H'. unfold parse_operand. rewrite H, H'. reflexivity. Qed.

(** * What [read_operand] depends on *)

Lemma eff_addr_frame (cfg : config) (m : mnem) (s s' : mstate) (op : operand) :
  (uses_x op = true -> rX s' = rX s) -> (uses_y op = true -> rY s' = rY s) ->
  (forall a, mget (mem s') a = mget (mem s) a) ->
  eff_addr cfg m s' op = eff_addr cfg m s op.
Proof.
  intros HX HY HM. destruct op as [|v|y k ix|y k|l]; try reflexivity.
  - unfold eff_addr. destruct ix; simpl in HX, HY;
      [reflexivity|rewrite (HX eq_refl); reflexivity|rewrite (HY eq_refl); reflexivity].
  - unfold eff_addr. simpl in HY. rewrite (HY eq_refl).
    destruct (layout cfg y) as [a0|]; [|reflexivity].
    destruct (a0 + k <? 255); [|reflexivity].
    destruct (read_addr (ports cfg) (a0 + k)); [|reflexivity].
    destruct (read_addr (ports cfg) (a0 + k + 1)); [|reflexivity].
    rewrite !HM. reflexivity.
Qed.

Lemma read_operand_frame (cfg : config) (m : mnem) (s s' : mstate) (op : operand) :
  (uses_x op = true -> rX s' = rX s) -> (uses_y op = true -> rY s' = rY s) ->
  (is_immop op = false -> forall a, mget (mem s') a = mget (mem s) a) ->
  read_operand cfg m s' op = read_operand cfg m s op.
Proof.
  intros HX HY HM. destruct op as [|v|y k ix|y k|l]; try reflexivity.
  - unfold read_operand. rewrite (eff_addr_frame cfg m s s'); auto.
    destruct (eff_addr cfg m s (OMem y k ix)) as [[[a md] cr]|]; [|reflexivity].
    destruct (read_addr (ports cfg) a); [|reflexivity]. rewrite HM; reflexivity.
  - unfold read_operand. rewrite (eff_addr_frame cfg m s s'); auto.
    destruct (eff_addr cfg m s (OInd y k)) as [[[a md] cr]|]; [|reflexivity].
    destruct (read_addr (ports cfg) a); [|reflexivity]. rewrite HM; reflexivity.
Qed.

(** a push leaves every operand that stays off the stack page alone *)
Lemma read_operand_push (cfg : config) (m : mnem) (s s' : mstate) (op : operand) (sp w : Z) :
  ports cfg = [] -> 0 <= sp < 256 ->
  rX s' = rX s -> rY s' = rY s -> mem s' = mset (mem s) (256 + sp) w ->
  (forall a md cr, eff_addr cfg m s op = Some (a, md, cr) -> ~ (256 <= a < 512)) ->
  read_operand cfg m s' op = read_operand cfg m s op.
Proof.
  intros HP HS HX HY HM OFF.
  assert (EA : eff_addr cfg m s' op = eff_addr cfg m s op).
  { destruct op as [|v|y k ix|y k|l]; try reflexivity.
    - unfold eff_addr. rewrite HX, HY. reflexivity.
    - unfold eff_addr. rewrite HY, HP, HM. simpl read_addr.
      destruct (layout cfg y) as [a0|]; [|reflexivity].
      destruct (a0 + k <? 255) eqn:E; [|reflexivity]. apply Z.ltb_lt in E.
      rewrite !mget_mset_key by (unfold akey; lia). reflexivity. }
  destruct op as [|v|y k ix|y k|l]; try reflexivity.
  - unfold read_operand. rewrite EA.
    destruct (eff_addr cfg m s (OMem y k ix)) as [[[a md] cr]|] eqn:E; [|reflexivity].
    rewrite HP. simpl read_addr. rewrite HM.
    rewrite mget_mset_other; [reflexivity| | |].
    + intros EQ. apply (OFF _ _ _ eq_refl). lia.
    + lia.
    + apply eff_addr_range in E. lia.
  - unfold read_operand. rewrite EA.
    destruct (eff_addr cfg m s (OInd y k)) as [[[a md] cr]|] eqn:E; [|reflexivity].
    rewrite HP. simpl read_addr. rewrite HM.
    rewrite mget_mset_other; [reflexivity| | |].
    + intros EQ. apply (OFF _ _ _ eq_refl). lia.
    + lia.
    + apply eff_addr_range in E. lia.
Qed.

(** LDX has no X-indexed mode, LDY no Y-indexed mode *)
Lemma ldx_not_x (cfg : config) (s : mstate) (op : operand) (r : Z * N) :
  read_operand cfg LDX s op = Some r -> uses_x op = false.
Proof.
  destruct op as [|v|y k ix|y k|l]; try reflexivity. destruct ix; try reflexivity.
  unfold read_operand, eff_addr. destruct (layout cfg y) as [a0|]; [|discriminate].
  destruct (a0 + k <? 256); discriminate.
Qed.

(** NB: [eff_addr] accepts an [OInd] operand for every mnemonic (it never asks [legal m IndY]);
    instructions such as "LDY (p),Y", which the 6502 does not have, must be excluded by hypothesis
    where they matter ([ind_legal] below). *)
Lemma ldy_not_y (cfg : config) (s : mstate) (op : operand) (r : Z * N) :
  read_operand cfg LDY s op = Some r -> (forall y k, op <> OInd y k) -> uses_y op = false.
Proof.
  intros R NI.
  destruct op as [|v|y k ix|y k|l]; try reflexivity.
  - destruct ix; try reflexivity.
    unfold read_operand, eff_addr in R. destruct (layout cfg y) as [a0|]; [|discriminate].
    destruct (a0 + k <? 256); discriminate.
  - exfalso. apply (NI y k). reflexivity.
Qed.

(** the load mnemonics read the same value through an operand all of them accept *)
Definition is_ld (m : mnem) : Prop := m = LDA \/ m = LDX \/ m = LDY.

(** [OMem y k IxY] with a zero-page base: LDX uses zp,Y (wraps inside page zero) where LDA, which
    has no zp,Y mode, uses abs,Y (does not wrap) *)
Definition zp_y_op (cfg : config) (op : operand) : Prop :=
  match op with
  | OMem y k IxY => exists a0, layout cfg y = Some a0 /\ a0 + k < 256
  | _ => False
  end.

Lemma read_operand_ld_conv (cfg : config) (m m' : mnem) (s : mstate) (op : operand) (v : Z) (c : N) :
  is_ld m -> is_ld m' ->
  read_operand cfg m s op = Some (v, c) ->
  (m' = LDX -> uses_x op = false) ->
  (m' = LDY -> uses_y op = false) ->
  (m = LDX \/ m' = LDX -> ~ zp_y_op cfg op) ->
  exists c', read_operand cfg m' s op = Some (v, c').
Proof.
  intros Hm Hm' R NX NY YY.
  destruct op as [|iv|y k ix|y k|l]; try discriminate.
  - unfold read_operand in *. destruct (imm_value cfg iv) as [x|]; [|discriminate].
    destruct Hm as [-> | [-> | ->]]; destruct Hm' as [-> | [-> | ->]]; simpl in *; eauto.
  - unfold read_operand, eff_addr in *.
    destruct (layout cfg y) as [a0|] eqn:EL; [|discriminate].
    destruct (a0 + k <? 256) eqn:EZ;
      destruct Hm as [-> | [-> | ->]]; destruct Hm' as [-> | [-> | ->]]; destruct ix; simpl in *;
        try discriminate;
        try (specialize (NX eq_refl)); try (specialize (NY eq_refl)); try discriminate;
        try (destruct (read_addr (ports cfg) _); [|discriminate]; inversion R; eauto; fail);
        try (exfalso; apply YY; [auto|]; exists a0; split; [exact EL|]; apply Z.ltb_lt in EZ; exact EZ).
  - unfold read_operand, eff_addr in *.
    destruct (layout cfg y) as [a0|] eqn:EL; [|discriminate].
    destruct (a0 + k <? 255); [|discriminate].
    destruct (read_addr (ports cfg) (a0 + k)); [|discriminate].
    destruct (read_addr (ports cfg) (a0 + k + 1)); [|discriminate].
    destruct (read_addr (ports cfg) _); [|discriminate]. inversion R; eauto.
Qed.

(** * [holds_in]: frame, push, conversion between load mnemonics *)

Lemma is_ld_no_label (m : mnem) : is_ld m -> takes_label m = false.
Proof. intros [-> | [-> | ->]]; reflexivity. Qed.

Lemma holds_frame (cfg : config) (ld : mnem) (s s' : mstate) (o : string) (v : Z) :
  takes_label ld = false -> holds_in cfg ld s o v ->
  (ends_x o = false \/ rX s' = rX s) -> (ends_y o = false \/ rY s' = rY s) ->
  (is_imm o = true \/ forall a, mget (mem s') a = mget (mem s) a) ->
  holds_in cfg ld s' o v.
Proof.
  intros HL (op & c & P & R) HX HY HM. exists op, c. split; [exact P|].
  rewrite (read_operand_frame cfg ld s s'); [exact R| | |].
  - intros U. destruct HX as [HX|HX]; [|exact HX].
    rewrite (parse_uses_x _ _ _ HL P U) in HX. discriminate.
  - intros U. destruct HY as [HY|HY]; [|exact HY].
    rewrite (parse_uses_y _ _ _ HL P U) in HY. discriminate.
  - intros U. destruct HM as [HM|HM]; [|exact HM].
    rewrite (parse_is_imm _ _ _ HL P HM) in U. discriminate.
Qed.

Lemma holds_push (cfg : config) (ld : mnem) (s s' : mstate) (o : string) (v sp w : Z) :
  ports cfg = [] -> 0 <= sp < 256 ->
  rX s' = rX s -> rY s' = rY s -> mem s' = mset (mem s) (256 + sp) w ->
  off_stack cfg ld s o -> holds_in cfg ld s o v -> holds_in cfg ld s' o v.
Proof.
  intros HP HS HX HY HM OFF (op & c & P & R). exists op, c. split; [exact P|].
  rewrite (read_operand_push cfg ld s s' op sp w); auto.
  intros a md cr E. exact (OFF op a md cr P E).
Qed.

Lemma holds_conv (cfg : config) (m m' : mnem) (s : mstate) (o : string) (v : Z) :
  is_ld m -> is_ld m' -> holds_in cfg m s o v ->
  (m' = LDX -> ends_x o = false) -> (m' = LDY -> ends_y o = false) ->
  (m = LDX \/ m' = LDX -> forall op, parse_operand m o = Some op -> ~ zp_y_op cfg op) ->
  holds_in cfg m' s o v.
Proof.
  intros Hm Hm' (op & c & P & R) NX NY YY.
  pose proof (is_ld_no_label _ Hm) as L. pose proof (is_ld_no_label _ Hm') as L'.
  destruct (read_operand_ld_conv cfg m m' s op v c Hm Hm' R) as [c' R'].
  - intros E. destruct (uses_x op) eqn:U; [|reflexivity].
    rewrite (parse_uses_x _ _ _ L P U) in NX. discriminate (NX E).
  - intros E. destruct (uses_y op) eqn:U; [|reflexivity].
    rewrite (parse_uses_y _ _ _ L P U) in NY. discriminate (NY E).
  - intros E. exact (YY E op P).
  - exists op, c'. split; [|exact R']. rewrite <- P. apply parse_operand_mnem; assumption.
Qed.

Lemma kill_if_some (p : string -> bool) (a : option string) (o : string) :
  kill_if p a = Some o -> a = Some o /\ p o = false.
Proof.
  unfold kill_if. destruct a as [v|]; [|discriminate].
  destruct (p v) eqn:E; [discriminate|]. intros H. inversion H. subst. auto.
Qed.

(** * T1: soundness of the knowledge transfer function *)

(** every operand string recorded in [k] stays off the hardware stack page *)
Definition know_off_stack (cfg : config) (k : know) (s : mstate) : Prop :=
  (forall o, k_acc k = Some o -> off_stack cfg LDA s o) /\
  (forall o, k_x k = Some o -> off_stack cfg LDX s o) /\
  (forall o, k_y k = Some o -> off_stack cfg LDY s o).

(** the instruction uses "(p),Y" only if the 6502 has that form (the semantics does not check) *)
Definition ind_legal (i : instr) : Prop :=
  forall y k, parse_operand (i_mn i) (i_op i) = Some (OInd y k) -> legal (i_mn i) IndY = true.

(** TAX / TXA copy the knowledge about one register to the other; this is wrong when the known
    operand is "zp,Y" because LDA has no zp,Y mode (abs,Y does not wrap, zp,Y does) *)
Definition xfer_no_zp_y (cfg : config) (k : know) (i : instr) : Prop :=
  (i_mn i = TAX -> forall o op, k_acc k = Some o -> parse_operand LDA o = Some op -> ~ zp_y_op cfg op) /\
  (i_mn i = TXA -> forall o op, k_x k = Some o -> parse_operand LDX o = Some op -> ~ zp_y_op cfg op).

Ltac inv_exec H :=
  cbv beta iota zeta delta [exec] in H;
  repeat match type of H with
         | match ?x with _ => _ end = _ => destruct x eqn:?
         end; try discriminate; inversion H; subst; clear H.

Ltac side :=
  solve [ right; reflexivity | left; assumption
        | left; match goal with Hk : negb _ = false |- _ => apply negb_false_iff in Hk; exact Hk end
        | right; intros; reflexivity ].

(** knowledge about a register the instruction leaves alone survives when the operand does not
    depend on what the instruction changes *)
Ltac keep KA :=
  let o' := fresh "o'" in let Ho' := fresh "Ho'" in let Hk := fresh "Hk" in
  intros o' Ho';
  try (apply kill_if_some in Ho'; destruct Ho' as [Ho' Hk]);
  (eapply holds_frame; [reflexivity | apply KA; exact Ho' | side | side | side]).
Ltac flags KF :=
  let F := fresh "F" in intros F; try discriminate F;
  first [ match goal with K : k_flags _ = _ -> _ |- _ => exact (K F) end | split; reflexivity ].
Ltac bulk KA KX KY KF :=
  unfold know_sound; cbn [transfer fst i_mn i_op k_acc k_x k_y k_flags];
  (split; [|split;[|split;[|split;[|split]]]]); try (keep KA); try (keep KX); try (keep KY);
  try discriminate; try (flags KF).
Ltac fix_none PN o :=
  let EO := fresh "EO" in
  destruct (String.eqb_spec o "") as [EO|EO];
  [ try (exfalso; discriminate (proj2 PN EO))
  | try (exfalso; apply EO; apply (proj1 PN); reflexivity) ].

Lemma write_operand_inv (cfg : config) (m : mnem) (s : mstate) (op : operand) (v : Z) (s' : mstate) (c : N) :
  write_operand cfg m s op v = Some (s', c) -> exists a, s' = set_mem s (mset (mem s) a v).
Proof.
  unfold write_operand. destruct (eff_addr cfg m s op) as [[[a md] cr]|]; [|discriminate].
  destruct (write_addr (ports cfg) a) as [a'|]; [|discriminate].
  intros H. inversion H. eauto.
Qed.
Ltac inv_wr :=
  match goal with
  | H : write_operand _ _ _ _ _ = Some _ |- _ =>
      apply write_operand_inv in H; destruct H as [? ->]
  end.

(** the instruction is kept ([snd (transfer k i ahead) = false]) and executed: the new knowledge
    is sound for the state it leads to.  (When [transfer] asks for the removal of a load, the
    knowledge it returns describes the state in which the load is NOT executed:
    [transfer_removed_sound] below.) *)
Ltac kept HR :=
  cbv beta iota zeta delta [transfer i_mn i_op i_prot snd fst] in HR |- *;
  rewrite HR; cbn [negb orb].

Theorem transfer_sound : forall cfg k i ahead s s',
  ports cfg = [] -> bytes_ok s ->
  (i_mn i = PHA \/ i_mn i = PHP -> know_off_stack cfg k s) ->
  ind_legal i -> xfer_no_zp_y cfg k i ->
  know_sound cfg k s -> steps_to cfg i s s' ->
  snd (transfer k i ahead) = false ->
  know_sound cfg (fst (transfer k i ahead)) s'.
Proof.
  intros cfg k i ahead s s' HP HB HOFF HIND HXF KS (op & c & P & E) HR.
  destruct KS as (KA & KX & KY & KF & KFX & KFY).
  pose proof (parse_none_iff _ _ _ P) as PN.
  destruct i as [mn o cy alt nb pr]. cbn [i_mn i_op] in *.
  destruct mn.
  - (* LDA *) inv_exec E. kept HR. bulk KA KX KY KF.
    intros o' Ho'. inversion Ho'. subst o'. exists op, c. split; [exact P|].
    rewrite (read_operand_frame cfg LDA s); [eassumption| | |]; intros; reflexivity.
  - (* LDX *) inv_exec E. kept HR. bulk KA KX KY KF.
    intros o' Ho'. inversion Ho'. subst o'. exists op, c. split; [exact P|].
    match goal with R : read_operand _ _ _ _ = Some _ |- _ =>
      pose proof (ldx_not_x _ _ _ _ R) as U;
      rewrite (read_operand_frame cfg LDX s); [exact R| | |] end.
    + rewrite U. discriminate.
    + intros; reflexivity.
    + intros; reflexivity.
  - (* LDY *) inv_exec E. kept HR. bulk KA KX KY KF.
    intros o' Ho'. inversion Ho'. subst o'. exists op, c. split; [exact P|].
    match goal with R : read_operand _ _ _ _ = Some _ |- _ =>
      assert (U : uses_y op = false);
      [ apply (ldy_not_y _ _ _ _ R); intros y0 k0 ->; discriminate (HIND y0 k0 P)
      | rewrite (read_operand_frame cfg LDY s); [exact R| | |] ] end.
    + intros; reflexivity.
    + rewrite U. discriminate.
    + intros; reflexivity.
  - (* STA *) inv_exec E; inv_wr; bulk KA KX KY KF.
  - (* STX *) inv_exec E; inv_wr; bulk KA KX KY KF.
  - (* STY *) inv_exec E; inv_wr; bulk KA KX KY KF.
  - (* TAX *) inv_exec E. unfold transfer; cbn [i_mn i_op].
    destruct (k_acc k) as [va|] eqn:EA; [destruct (ends_x va) eqn:EX|]; bulk KA KX KY KF.
    + intros o' Ho'. inversion Ho'. subst o'.
      eapply holds_frame; [reflexivity|apply KA; reflexivity|side|side|side].
    + intros o' Ho'. inversion Ho'. subst o'.
      eapply (holds_frame cfg LDX s); [reflexivity| |side|side|side].
      apply (holds_conv cfg LDA LDX); [left; reflexivity|right; left; reflexivity|apply KA; reflexivity| | |].
      * intros _. exact EX.
      * discriminate.
      * intros _ op' P'. exact (proj1 HXF eq_refl va op' EA P').
  - (* TAY *) inv_exec E. unfold transfer; cbn [i_mn i_op].
    destruct (k_acc k) as [va|] eqn:EA; [destruct (ends_y va) eqn:EY|]; bulk KA KX KY KF.
    + intros o' Ho'. inversion Ho'. subst o'.
      eapply holds_frame; [reflexivity|apply KA; reflexivity|side|side|side].
    + intros o' Ho'. inversion Ho'. subst o'.
      eapply (holds_frame cfg LDY s); [reflexivity| |side|side|side].
      apply (holds_conv cfg LDA LDY); [left; reflexivity|right; right; reflexivity|apply KA; reflexivity| | |].
      * discriminate.
      * intros _. exact EY.
      * intros [H|H]; discriminate H.
  - (* TXA *) inv_exec E. bulk KA KX KY KF.
    intros o' Ho'.
    eapply (holds_frame cfg LDA s); [reflexivity| |side|side|side].
    apply (holds_conv cfg LDX LDA); [right; left; reflexivity|left; reflexivity|apply KX; exact Ho'| | |].
    + discriminate.
    + discriminate.
    + intros _ op' P'. exact (proj2 HXF eq_refl o' op' Ho' P').
  - (* TYA *) inv_exec E. bulk KA KX KY KF.
    intros o' Ho'.
    eapply (holds_frame cfg LDA s); [reflexivity| |side|side|side].
    apply (holds_conv cfg LDY LDA); [right; right; reflexivity|left; reflexivity|apply KY; exact Ho'| | |].
    + discriminate.
    + discriminate.
    + intros [H|H]; discriminate H.
  - (* ADC *) inv_exec E; bulk KA KX KY KF.
  - (* SBC *) inv_exec E; bulk KA KX KY KF.
  - (* EOR *) inv_exec E; bulk KA KX KY KF.
  - (* AND *) inv_exec E; bulk KA KX KY KF.
  - (* ORA *) inv_exec E; bulk KA KX KY KF.
  - (* LSR *) inv_exec E; unfold transfer; cbn [i_mn i_op]; fix_none PN o; bulk KA KX KY KF.
  - (* ASL *) inv_exec E; unfold transfer; cbn [i_mn i_op]; fix_none PN o; bulk KA KX KY KF.
  - (* ROL *) inv_exec E; unfold transfer; cbn [i_mn i_op]; fix_none PN o; bulk KA KX KY KF.
  - (* ROR *) inv_exec E; unfold transfer; cbn [i_mn i_op]; fix_none PN o; bulk KA KX KY KF.
  - (* CLC *) inv_exec E; bulk KA KX KY KF.
  - (* SEC *) inv_exec E; bulk KA KX KY KF.
  - (* CMP *) inv_exec E; bulk KA KX KY KF.
  - (* CPX *) inv_exec E; bulk KA KX KY KF.
  - (* CPY *) inv_exec E; bulk KA KX KY KF.
  - (* BCC *) inv_exec E; bulk KA KX KY KF.
  - (* BCS *) inv_exec E; bulk KA KX KY KF.
  - (* BEQ *) inv_exec E; bulk KA KX KY KF.
  - (* BMI *) inv_exec E; bulk KA KX KY KF.
  - (* BNE *) inv_exec E; bulk KA KX KY KF.
  - (* BPL *) inv_exec E; bulk KA KX KY KF.
  - (* INC *) inv_exec E; bulk KA KX KY KF.
  - (* INX *) inv_exec E; bulk KA KX KY KF.
  - (* INY *) inv_exec E; bulk KA KX KY KF.
  - (* DEC *) inv_exec E; bulk KA KX KY KF.
  - (* DEX *) inv_exec E; bulk KA KX KY KF.
  - (* DEY *) inv_exec E; bulk KA KX KY KF.
  - (* JMP *) inv_exec E.
  - (* JSR *) inv_exec E.
  - (* RTS *) inv_exec E.
  - (* RTI *) inv_exec E.
  - (* PHA *) inv_exec E. destruct (HOFF (or_introl eq_refl)) as (OA & OX & OY).
    destruct HB as (_ & _ & _ & HS & _).
    bulk KA KX KY KF.
    + intros o' Ho'. eapply (holds_push cfg LDX s _ o' _ (rS s)); eauto; reflexivity.
    + intros o' Ho'. eapply (holds_push cfg LDY s _ o' _ (rS s)); eauto; reflexivity.
  - (* PLA *) inv_exec E.
    match goal with H : pull s = _ |- _ => unfold pull in H; inversion H; subst; clear H end.
    bulk KA KX KY KF.
  - (* PHP *) inv_exec E. destruct (HOFF (or_intror eq_refl)) as (OA & OX & OY).
    destruct HB as (_ & _ & _ & HS & _).
    bulk KA KX KY KF.
    + intros o' Ho'. eapply (holds_push cfg LDA s _ o' _ (rS s)); eauto; reflexivity.
    + intros o' Ho'. eapply (holds_push cfg LDX s _ o' _ (rS s)); eauto; reflexivity.
    + intros o' Ho'. eapply (holds_push cfg LDY s _ o' _ (rS s)); eauto; reflexivity.
  - (* PLP *) inv_exec E.
    match goal with H : pull s = _ |- _ => unfold pull in H; inversion H; subst; clear H end.
    bulk KA KX KY KF.
  - (* NOP *) inv_exec E; bulk KA KX KY KF.
Qed.
Print Assumptions transfer_sound.

(** * T2: a load the knowledge calls redundant is redundant *)

Definition set_reg (m : mnem) : mstate -> Z -> mstate :=
  match m with LDA => set_a | LDX => set_x | _ => set_y end.

Lemma exec_load_inv (cfg : config) (m : mnem) (op : operand) (s s' : mstate) (c : N) :
  is_ld m -> exec cfg m op s = XOk s' c FNext ->
  exists v, read_operand cfg m s op = Some (v, c) /\ s' = set_nz (set_reg m s v) v.
Proof.
  intros [-> | [-> | ->]] E; inv_exec E; eexists; split; try eassumption; reflexivity.
Qed.

Theorem redundant_load_sound : forall cfg k i s s',
  ports cfg = [] -> know_sound cfg k s -> steps_to cfg i s s' ->
  (i_mn i = LDA /\ k_acc k = Some (i_op i)) \/ (i_mn i = LDX /\ k_x k = Some (i_op i)) \/
  (i_mn i = LDY /\ k_y k = Some (i_op i)) ->
  eq_mod_nz s' s /\
  ((i_mn i = LDA /\ k_flags k = FA) \/ (i_mn i = LDX /\ k_flags k = FX) \/
   (i_mn i = LDY /\ k_flags k = FY) -> eq_state s' s).
Proof.
  intros cfg k i s s' HP (KA & KX & KY & KF & KFX & KFY) (op & c & P & E) H.
  destruct i as [mn o cy alt nb pr]. cbn [i_mn i_op] in *.
  destruct H as [[-> HK]|[[-> HK]|[-> HK]]].
  - destruct (KA _ HK) as (op' & c' & P' & R'). rewrite P in P'. inversion P'; subst op'.
    apply exec_load_inv in E; [|left; reflexivity]. destruct E as (v & R & ->).
    rewrite R' in R. inversion R; subst v c'.
    split.
    + unfold eq_mod_nz. cbn. repeat split; reflexivity.
    + intros [[_ F]|[[M _]|[M _]]]; try discriminate M.
      destruct (KF F) as [FZ FN]. unfold eq_state, eq_mod_nz. cbn.
      repeat split; try reflexivity; symmetry; assumption.
  - destruct (KX _ HK) as (op' & c' & P' & R'). rewrite P in P'. inversion P'; subst op'.
    apply exec_load_inv in E; [|right; left; reflexivity]. destruct E as (v & R & ->).
    rewrite R' in R. inversion R; subst v c'.
    split.
    + unfold eq_mod_nz. cbn. repeat split; reflexivity.
    + intros [[M _]|[[_ F]|[M _]]]; try discriminate M.
      destruct (KFX F) as [FZ FN]. unfold eq_state, eq_mod_nz. cbn.
      repeat split; try reflexivity; symmetry; assumption.
  - destruct (KY _ HK) as (op' & c' & P' & R'). rewrite P in P'. inversion P'; subst op'.
    apply exec_load_inv in E; [|right; right; reflexivity]. destruct E as (v & R & ->).
    rewrite R' in R. inversion R; subst v c'.
    split.
    + unfold eq_mod_nz. cbn. repeat split; reflexivity.
    + intros [[M _]|[[M _]|[_ F]]]; try discriminate M.
      destruct (KFY F) as [FZ FN]. unfold eq_state, eq_mod_nz. cbn.
      repeat split; try reflexivity; symmetry; assumption.
Qed.
Print Assumptions redundant_load_sound.

(** the same, stated on the removal bit the model computes: a load [transfer] marks for removal
    leaves the machine state as it was, N and Z included, unless the removal rests on a
    look-ahead (whose soundness is [lda_lookahead_dead] / [ldxy_lookahead_dead] below) *)
Lemma opt_eqb_true (a : option string) (o : string) : opt_eqb a o = true -> a = Some o.
Proof.
  unfold opt_eqb. destruct a as [v|]; [|discriminate]. intros H. apply String.eqb_eq in H.
  rewrite H. reflexivity.
Qed.

Theorem removal_sound : forall cfg k i ahead s s',
  ports cfg = [] -> know_sound cfg k s -> steps_to cfg i s s' ->
  snd (transfer k i ahead) = true ->
  eq_mod_nz s' s /\
  (eq_state s' s \/ (i_mn i = LDA /\ lda_lookahead ahead = true) \/
   ((i_mn i = LDX \/ i_mn i = LDY) /\ ldxy_lookahead ahead = true)).
Proof.
  intros cfg k i ahead s s' HP KS ST R.
  unfold transfer in R.
  destruct (i_mn i) eqn:M; cbn [snd] in R; try discriminate R;
    try (destruct (String.eqb (i_op i) ""); discriminate R);
    try (destruct (k_acc k) as [va|]; [destruct (ends_x va)|]; discriminate R);
    try (destruct (k_acc k) as [va|]; [destruct (ends_y va)|]; discriminate R).
  - (* LDA *)
    destruct (opt_eqb (k_acc k) (i_op i)) eqn:EQ; [|discriminate R]. apply opt_eqb_true in EQ.
    destruct (redundant_load_sound cfg k i s s' HP KS ST) as [NZ ST'].
    { left. split; assumption. }
    split; [exact NZ|].
    destruct (k_flags k) eqn:F; cbn [flags_is_A] in R;
      try (destruct (lda_lookahead ahead); [right; left; split; reflexivity|discriminate R]).
    left. apply ST'. left. split; [exact M|reflexivity].
  - (* LDX *)
    destruct (opt_eqb (k_x k) (i_op i)) eqn:EQ; [|discriminate R]. apply opt_eqb_true in EQ.
    destruct (redundant_load_sound cfg k i s s' HP KS ST) as [NZ ST'].
    { right. left. split; assumption. }
    split; [exact NZ|].
    destruct (k_flags k) eqn:F;
      try (destruct (ldxy_lookahead ahead); [right; right; split; [left|]; reflexivity|discriminate R]).
    left. apply ST'. right. left. split; [exact M|reflexivity].
  - (* LDY *)
    destruct (opt_eqb (k_y k) (i_op i)) eqn:EQ; [|discriminate R]. apply opt_eqb_true in EQ.
    destruct (redundant_load_sound cfg k i s s' HP KS ST) as [NZ ST'].
    { right. right. split; assumption. }
    split; [exact NZ|].
    destruct (k_flags k) eqn:F;
      try (destruct (ldxy_lookahead ahead); [right; right; split; [right|]; reflexivity|discriminate R]).
    left. apply ST'. right. right. split; [exact M|reflexivity].
Qed.
Print Assumptions removal_sound.

(** the instruction is a load that [transfer] asks to remove: the knowledge returned with the
    removal bit is sound for the SAME state, the one in which the load is not executed (the
    register already holds the operand; the flags component is left as it was unless N/Z describe
    that register already) *)
Theorem transfer_removed_sound : forall cfg k i ahead s,
  know_sound cfg k s -> snd (transfer k i ahead) = true ->
  know_sound cfg (fst (transfer k i ahead)) s.
Proof.
  intros cfg k i ahead s (KA & KX & KY & KF & KFX & KFY) R.
  unfold transfer in R |- *.
  destruct (i_mn i) eqn:M; cbn [snd] in R; try discriminate R;
    try (destruct (String.eqb (i_op i) ""); discriminate R);
    try (destruct (k_acc k) as [va|]; [destruct (ends_x va)|]; discriminate R);
    try (destruct (k_acc k) as [va|]; [destruct (ends_y va)|]; discriminate R).
  - (* LDA *)
    cbv zeta. cbn [fst]. rewrite R. cbn [negb orb].
    destruct (opt_eqb (k_acc k) (i_op i)) eqn:EQ; [|discriminate R]. apply opt_eqb_true in EQ.
    unfold know_sound. cbn [k_acc k_x k_y k_flags].
    split; [intros o Ho; inversion Ho; subst o; apply KA; exact EQ|].
    split; [exact KX|]. split; [exact KY|].
    destruct (k_flags k) eqn:F; cbn [flags_is_A]; (split; [|split]); intros H; try discriminate H; auto.
  - (* LDX *)
    cbv zeta. cbn [fst]. rewrite R. cbn [negb orb].
    destruct (opt_eqb (k_x k) (i_op i)) eqn:EQ; [|discriminate R]. apply opt_eqb_true in EQ.
    unfold know_sound. cbn [k_acc k_x k_y k_flags].
    split; [intros o Ho; apply kill_if_some in Ho; apply KA; exact (proj1 Ho)|].
    split; [intros o Ho; inversion Ho; subst o; apply KX; exact EQ|].
    split; [intros o Ho; apply kill_if_some in Ho; apply KY; exact (proj1 Ho)|].
    destruct (k_flags k) eqn:F; (split; [|split]); intros H; try discriminate H; auto.
  - (* LDY *)
    cbv zeta. cbn [fst]. rewrite R. cbn [negb orb].
    destruct (opt_eqb (k_y k) (i_op i)) eqn:EQ; [|discriminate R]. apply opt_eqb_true in EQ.
    unfold know_sound. cbn [k_acc k_x k_y k_flags].
    split; [intros o Ho; apply kill_if_some in Ho; apply KA; exact (proj1 Ho)|].
    split; [intros o Ho; apply kill_if_some in Ho; apply KX; exact (proj1 Ho)|].
    split; [intros o Ho; inversion Ho; subst o; apply KY; exact EQ|].
    destruct (k_flags k) eqn:F; (split; [|split]); intros H; try discriminate H; auto.
Qed.
Print Assumptions transfer_removed_sound.

(** * Known-immediate compare *)

Lemma imm_value_range (cfg : config) (v : immv) (x : Z) : imm_value cfg v = Some x -> 0 <= x < 256.
Proof.
  destruct v as [n|y k|y k]; simpl.
  - intros H. inversion H. apply byte_range.
  - destruct (layout cfg y); [|discriminate]. intros H. inversion H. apply byte_range.
  - destruct (layout cfg y); [|discriminate]. intros H. inversion H. apply byte_range.
Qed.

Lemma read_imm_inv (cfg : config) (m : mnem) (s : mstate) (v : immv) (x : Z) (c : N) :
  read_operand cfg m s (OImm v) = Some (x, c) -> imm_value cfg v = Some x.
Proof.
  unfold read_operand. destruct (imm_value cfg v) as [x'|]; [|discriminate].
  destruct (legal m Imm); [|discriminate]. intros H. inversion H. reflexivity.
Qed.

(** textually different immediates among the known register operands and the operand of the
    compare denote different values *)
Definition imm_text_injective (cfg : config) (k : know) (i1 : instr) : Prop :=
  forall r v1 v2,
    k_acc k = Some r \/ k_x k = Some r \/ k_y k = Some r ->
    r <> i_op i1 ->
    parse_operand LDA r = Some (OImm v1) -> parse_operand LDA (i_op i1) = Some (OImm v2) ->
    imm_value cfg v1 <> imm_value cfg v2.

Definition is_cmp (m : mnem) : Prop := m = CMP \/ m = CPX \/ m = CPY.

Lemma is_cmp_no_label (m : mnem) : is_cmp m -> takes_label m = false.
Proof. intros [-> | [-> | ->]]; reflexivity. Qed.

Lemma cmp_known_gen (cfg : config) (ld cm : mnem) (regv : Z) (r : string) (i1 i2 : instr)
      (s : mstate) (op : operand) (x2 : Z) (c : N) :
  is_ld ld -> is_cmp cm ->
  holds_in cfg ld s r regv ->
  cmp_rule (Some r) cm i1 i2 = true ->
  (forall v1 v2, r <> i_op i1 ->
     parse_operand LDA r = Some (OImm v1) -> parse_operand LDA (i_op i1) = Some (OImm v2) ->
     imm_value cfg v1 <> imm_value cfg v2) ->
  parse_operand (i_mn i1) (i_op i1) = Some op ->
  read_operand cfg cm s op = Some (x2, c) ->
  i_mn i1 = cm /\ branch_taken (i_mn i2) (cmp s regv x2) = false.
Proof.
  intros Hld Hcm (op' & c' & P' & R') CR INJ P R.
  pose proof (is_ld_no_label _ Hld) as Lld. pose proof (is_cmp_no_label _ Hcm) as Lcm.
  unfold cmp_rule in CR.
  destruct (is_imm r) eqn:IR; [|discriminate].
  destruct (mnem_eqb (i_mn i1) cm) eqn:EM; [|discriminate].
  destruct (is_imm (i_op i1)) eqn:I1; [|discriminate].
  cbn [andb] in CR. apply mnem_eqb_eq in EM. split; [exact EM|].
  rewrite EM in P.
  pose proof (parse_is_imm _ _ _ Lld P' IR) as IO'.
  pose proof (parse_is_imm _ _ _ Lcm P I1) as IO.
  destruct op' as [|v1| | |]; try discriminate. destruct op as [|v2| | |]; try discriminate.
  apply read_imm_inv in R'. apply read_imm_inv in R.
  pose proof (imm_value_range _ _ _ R') as B1. pose proof (imm_value_range _ _ _ R) as B2.
  rewrite (parse_operand_mnem ld LDA) in P' by (assumption || reflexivity).
  rewrite (parse_operand_mnem cm LDA) in P by (assumption || reflexivity).
  destruct (i_mn i2); try discriminate.
  - (* BEQ *) apply andb_true_iff in CR. destruct CR as [CR _].
    apply andb_true_iff in CR. destruct CR as [CR _]. apply andb_true_iff in CR. destruct CR as [CR _].
    apply negb_true_iff in CR.
    apply String.eqb_neq in CR.
    pose proof (INJ v1 v2 CR P' P) as NE. rewrite R', R in NE.
    assert (regv <> x2) by congruence.
    unfold cmp. cbn. rewrite byte_eq. apply Z.eqb_neq. lia.
  - (* BNE *) apply andb_true_iff in CR. destruct CR as [CR _]. apply String.eqb_eq in CR.
    subst r. rewrite P in P'. inversion P'; subst v1. rewrite R in R'. inversion R'; subst x2.
    unfold cmp. cbn. rewrite Z.sub_diag. reflexivity.
Qed.

Lemma exec_cmp_inv (cfg : config) (m : mnem) (op : operand) (s s' : mstate) (c : N) :
  is_cmp m -> exec cfg m op s = XOk s' c FNext ->
  exists v, read_operand cfg m s op = Some (v, c) /\
            s' = cmp s (match m with CMP => rA s | CPX => rX s | _ => rY s end) v.
Proof.
  intros [-> | [-> | ->]] E; inv_exec E; eexists; split; try eassumption; reflexivity.
Qed.

Lemma eq_mod_anzc_cmp (s : mstate) (a v : Z) : eq_mod_anzc (cmp s a v) s.
Proof. unfold eq_mod_anzc, cmp. cbn. repeat split; reflexivity. Qed.

Theorem rule_cmp_known : forall cfg k i1 i2 s op c s1,
  know_sound cfg k s -> bytes_ok s -> imm_text_injective cfg k i1 ->
  cmp_rule (k_acc k) CMP i1 i2 = true \/ cmp_rule (k_x k) CPX i1 i2 = true \/
  cmp_rule (k_y k) CPY i1 i2 = true ->
  parse_operand (i_mn i1) (i_op i1) = Some op -> exec cfg (i_mn i1) op s = XOk s1 c FNext ->
  branch_taken (i_mn i2) s1 = false /\ eq_mod_anzc s1 s.
Proof.
  intros cfg k i1 i2 s op c s1 (KA & KX & KY & _) _ INJ H P E.
  destruct H as [H|[H|H]].
  - destruct (k_acc k) as [r|] eqn:EK; [|discriminate H].
    assert (M : i_mn i1 = CMP).
    { unfold cmp_rule in H. destruct (is_imm r); [|discriminate].
      destruct (mnem_eqb (i_mn i1) CMP) eqn:EM; [|discriminate]. apply mnem_eqb_eq. exact EM. }
    rewrite M in E. apply exec_cmp_inv in E; [|left; reflexivity]. destruct E as (v & R & ->).
    split; [|apply eq_mod_anzc_cmp].
    eapply (cmp_known_gen cfg LDA CMP); eauto; try (left; reflexivity);
      intros v1 v2; apply INJ; left; reflexivity.
  - destruct (k_x k) as [r|] eqn:EK; [|discriminate H].
    assert (M : i_mn i1 = CPX).
    { unfold cmp_rule in H. destruct (is_imm r); [|discriminate].
      destruct (mnem_eqb (i_mn i1) CPX) eqn:EM; [|discriminate]. apply mnem_eqb_eq. exact EM. }
    rewrite M in E. apply exec_cmp_inv in E; [|right; left; reflexivity]. destruct E as (v & R & ->).
    split; [|apply eq_mod_anzc_cmp].
    eapply (cmp_known_gen cfg LDX CPX); eauto; try (right; left; reflexivity);
      intros v1 v2; apply INJ; right; left; reflexivity.
  - destruct (k_y k) as [r|] eqn:EK; [|discriminate H].
    assert (M : i_mn i1 = CPY).
    { unfold cmp_rule in H. destruct (is_imm r); [|discriminate].
      destruct (mnem_eqb (i_mn i1) CPY) eqn:EM; [|discriminate]. apply mnem_eqb_eq. exact EM. }
    rewrite M in E. apply exec_cmp_inv in E; [|right; right; reflexivity]. destruct E as (v & R & ->).
    split; [|apply eq_mod_anzc_cmp].
    eapply (cmp_known_gen cfg LDY CPY); eauto; try (right; right; reflexivity);
      intros v1 v2; apply INJ; right; right; reflexivity.
Qed.
Print Assumptions rule_cmp_known.

(** The statement without [imm_text_injective] is false: "#<sym" (sym at $0200) and "#0" are
    different texts for the same value; the optimiser deletes "CMP #0; BEQ l" although the
    branch is taken. *)
Definition cx_cfg (sym : string) (addr : Z) : config :=
  mkCfg (fun y => if String.eqb y sym then Some addr else None) [].
Definition cx_state (a x y sp : Z) (m : memory) : mstate := mkS a x y sp false false false false m.
Definition cx_ins (m : mnem) (o : string) : instr := mkI m o 2%N None 2%N false.

Lemma bytes_ok_cx (a x y sp : Z) (m : memory) :
  0 <= a < 256 -> 0 <= x < 256 -> 0 <= y < 256 -> 0 <= sp < 256 ->
  (forall b, 0 <= mget m b < 256) -> bytes_ok (cx_state a x y sp m).
Proof. intros. unfold bytes_ok, cx_state. cbn. auto. Qed.

Lemma bytes_empty : forall b, 0 <= mget mem_empty b < 256.
Proof. intros b. rewrite mget_empty. lia. Qed.

(** before fix (plain numbers only) this was a counterexample to [rule_cmp_known] without its
    [imm_text_injective] hypothesis: "#<sym" and "#0" are different texts with equal values (sym at
    $200).  The rule no longer fires on symbolic immediates. *)
Example rule_cmp_known_symbolic_not_folded :
  cmp_rule (Some "#<sym"%string) CMP (cx_ins CMP "#0") (cx_ins BEQ "l") = false /\
  cmp_rule (Some "#5"%string) CMP (cx_ins CMP "#<sym") (cx_ins BEQ "l") = false /\
  cmp_rule (Some "#5"%string) CMP (cx_ins CMP "#0") (cx_ins BEQ "l") = true /\
  cmp_rule (Some "#<sym"%string) CMP (cx_ins CMP "#<sym") (cx_ins BNE "l") = true.
Proof. repeat split; vm_compute; reflexivity. Qed.
Print Assumptions rule_cmp_known_symbolic_not_folded.

(** * Pair rules *)

Definition get_reg (m : mnem) (s : mstate) : Z :=
  match m with LDA => rA s | LDX => rX s | _ => rY s end.

Lemma exec_load_intro (cfg : config) (m : mnem) (op : operand) (s : mstate) (v : Z) (c : N) :
  is_ld m -> read_operand cfg m s op = Some (v, c) ->
  exec cfg m op s = XOk (set_nz (set_reg m s v) v) c FNext.
Proof.
  intros [-> | [-> | ->]] R; cbv beta iota zeta delta [exec]; rewrite R; reflexivity.
Qed.

(** a load does not depend on the register it loads *)
Lemma read_operand_own_reg (cfg : config) (m : mnem) (s : mstate) (op : operand) (w : Z) (r : Z * N) :
  is_ld m -> (m = LDY -> forall y k, op <> OInd y k) ->
  read_operand cfg m (set_nz (set_reg m s w) w) op = Some r ->
  read_operand cfg m s op = Some r.
Proof.
  intros Hm NI R.
  destruct Hm as [-> | [-> | ->]].
  - rewrite (read_operand_frame cfg LDA s) in R; [exact R| | |]; intros; reflexivity.
  - pose proof (ldx_not_x _ _ _ _ R) as U.
    rewrite (read_operand_frame cfg LDX s) in R; [exact R| | |]; try (intros; reflexivity).
    rewrite U. discriminate.
  - pose proof (ldy_not_y _ _ _ _ R (NI eq_refl)) as U.
    rewrite (read_operand_frame cfg LDY s) in R; [exact R| | |]; try (intros; reflexivity).
    rewrite U. discriminate.
Qed.

Lemma ind_legal_ldy (i : instr) (op : operand) :
  ind_legal i -> parse_operand (i_mn i) (i_op i) = Some op ->
  i_mn i = LDY -> forall y k, op <> OInd y k.
Proof.
  intros IL P M y k ->. specialize (IL y k P). rewrite M in IL. discriminate.
Qed.

Theorem rule_transfer_pair : forall cfg i1 i2 s s1 s2,
  (i_mn i1 = TAX /\ i_mn i2 = TXA) \/ (i_mn i1 = TXA /\ i_mn i2 = TAX) \/
  (i_mn i1 = TAY /\ i_mn i2 = TYA) \/ (i_mn i1 = TYA /\ i_mn i2 = TAY) ->
  steps_to cfg i1 s s1 -> steps_to cfg i2 s1 s2 -> eq_state s2 s1.
Proof.
  intros cfg i1 i2 s s1 s2 H (op1 & c1 & P1 & E1) (op2 & c2 & P2 & E2).
  destruct H as [[M1 M2]|[[M1 M2]|[[M1 M2]|[M1 M2]]]]; rewrite M1 in E1; rewrite M2 in E2;
    inv_exec E1; inv_exec E2; unfold eq_state, eq_mod_nz; cbn; repeat split; reflexivity.
Qed.
Print Assumptions rule_transfer_pair.

Theorem rule_ora_zero : forall cfg i s s',
  bytes_ok s -> i_mn i = ORA -> i_op i = "#0"%string -> steps_to cfg i s s' -> eq_mod_nz s' s.
Proof.
  intros cfg i s s' _ M O (op & c & P & E).
  rewrite M, O in P. vm_compute in P. inversion P; subst op. rewrite M in E.
  cbv beta iota zeta delta [exec] in E.
  destruct (read_operand cfg ORA s (OImm (INum 0))) as [[v c']|] eqn:R; [|discriminate].
  apply read_imm_inv in R. cbn [imm_value] in R. rewrite byte_eq in R. inversion R; subst v.
  inversion E; subst. change (0 mod 256) with 0. rewrite Z.lor_0_r.
  unfold eq_mod_nz. cbn. repeat split; reflexivity.
Qed.
Print Assumptions rule_ora_zero.

Theorem rule_swap_lda_carry : forall cfg i1 i2 s s1 s2,
  i_mn i1 = LDA -> (i_mn i2 = SEC \/ i_mn i2 = CLC) ->
  steps_to cfg i1 s s1 -> steps_to cfg i2 s1 s2 ->
  exists t1 t2, steps_to cfg i2 s t1 /\ steps_to cfg i1 t1 t2 /\ eq_state t2 s2.
Proof.
  intros cfg i1 i2 s s1 s2 M1 M2 (op1 & c1 & P1 & E1) (op2 & c2 & P2 & E2).
  rewrite M1 in E1. apply exec_load_inv in E1; [|left; reflexivity]. destruct E1 as (v & R & ->).
  destruct M2 as [M2|M2]; rewrite M2 in E2; inv_exec E2.
  - exists (set_c s true), (set_nz (set_a (set_c s true) v) v). split; [|split].
    + exists op2. eexists. split; [exact P2|]. rewrite M2. reflexivity.
    + exists op1, c1. split; [exact P1|]. rewrite M1.
      apply (exec_load_intro cfg LDA); [left; reflexivity|].
      rewrite (read_operand_frame cfg LDA s); [exact R| | |]; intros; reflexivity.
    + unfold eq_state, eq_mod_nz. cbn. repeat split; reflexivity.
  - exists (set_c s false), (set_nz (set_a (set_c s false) v) v). split; [|split].
    + exists op2. eexists. split; [exact P2|]. rewrite M2. reflexivity.
    + exists op1, c1. split; [exact P1|]. rewrite M1.
      apply (exec_load_intro cfg LDA); [left; reflexivity|].
      rewrite (read_operand_frame cfg LDA s); [exact R| | |]; intros; reflexivity.
    + unfold eq_state, eq_mod_nz. cbn. repeat split; reflexivity.
Qed.
Print Assumptions rule_swap_lda_carry.

(** the first of two loads of the same register is dead ([ind_legal i2] excludes "LDY (p),Y",
    which the semantics executes although the 6502 has no such instruction) *)
Theorem rule_load_load : forall cfg i1 i2 s s1 s2,
  (i_mn i1 = LDA /\ i_mn i2 = LDA) \/ (i_mn i1 = LDX /\ i_mn i2 = LDX) \/
  (i_mn i1 = LDY /\ i_mn i2 = LDY) ->
  ind_legal i2 ->
  steps_to cfg i1 s s1 -> steps_to cfg i2 s1 s2 ->
  exists s2', steps_to cfg i2 s s2' /\ eq_state s2' s2.
Proof.
  intros cfg i1 i2 s s1 s2 H IL (op1 & c1 & P1 & E1) (op2 & c2 & P2 & E2).
  assert (HH : exists m, is_ld m /\ i_mn i1 = m /\ i_mn i2 = m).
  { destruct H as [[M1 M2]|[[M1 M2]|[M1 M2]]]; eexists; (split; [|split; eassumption]).
    - left; reflexivity. - right; left; reflexivity. - right; right; reflexivity. }
  destruct HH as (m & Hm & M1 & M2).
  pose proof (ind_legal_ldy _ _ IL P2) as NI.
  rewrite M1 in E1. rewrite M2 in E2, NI.
  apply exec_load_inv in E1; [|exact Hm]. destruct E1 as (v1 & R1 & ->).
  apply exec_load_inv in E2; [|exact Hm]. destruct E2 as (v2 & R2 & ->).
  apply read_operand_own_reg in R2; [|exact Hm|exact NI].
  exists (set_nz (set_reg m s v2) v2). split.
  - exists op2, c2. split; [exact P2|]. rewrite M2. apply exec_load_intro; assumption.
  - destruct Hm as [-> | [-> | ->]]; unfold eq_state, eq_mod_nz; cbn; repeat split; reflexivity.
Qed.
Print Assumptions rule_load_load.

(** ** store / load of the same operand *)

Definition st_ld (st ld : mnem) : Prop :=
  (st = STA /\ ld = LDA) \/ (st = STX /\ ld = LDX) \/ (st = STY /\ ld = LDY).

Lemma st_ld_is_ld (st ld : mnem) : st_ld st ld -> is_ld ld.
Proof. intros [[_ ->]|[[_ ->]|[_ ->]]]; [left|right; left|right; right]; reflexivity. Qed.

Lemma st_ld_no_label (st ld : mnem) : st_ld st ld -> takes_label st = false.
Proof. intros [[-> _]|[[-> _]|[-> _]]]; reflexivity. Qed.

(** wherever the store form exists the load form exists, with the same mode and address *)
Lemma eff_addr_st_ld (cfg : config) (st ld : mnem) (s : mstate) (op : operand) (r : Z * mode * bool) :
  st_ld st ld -> eff_addr cfg st s op = Some r -> eff_addr cfg ld s op = Some r.
Proof.
  intros H E. destruct op as [|v|y k ix|y k|l]; try discriminate.
  - unfold eff_addr in *. destruct (layout cfg y) as [a0|]; [|discriminate].
    destruct (a0 + k <? 256); destruct ix;
      destruct H as [[-> ->]|[[-> ->]|[-> ->]]]; simpl in *; try discriminate; exact E.
  - exact E.
Qed.

Lemma exec_store_inv (cfg : config) (st ld : mnem) (op : operand) (s s' : mstate) (c : N) :
  st_ld st ld -> exec cfg st op s = XOk s' c FNext ->
  write_operand cfg st s op (get_reg ld s) = Some (s', c).
Proof.
  intros [[-> ->]|[[-> ->]|[-> ->]]] E; cbv beta iota zeta delta [exec] in E; cbn [get_reg];
    match type of E with match ?x with _ => _ end = _ => destruct x as [[s0 c0]|] end;
    try discriminate; inversion E; reflexivity.
Qed.

Lemma write_operand_inv' (cfg : config) (m : mnem) (s : mstate) (op : operand) (v : Z) (s' : mstate) (c : N) :
  ports cfg = [] -> write_operand cfg m s op v = Some (s', c) ->
  exists a md cr, eff_addr cfg m s op = Some (a, md, cr) /\ s' = set_mem s (mset (mem s) a v).
Proof.
  intros HP. unfold write_operand. destruct (eff_addr cfg m s op) as [[[a md] cr]|]; [|discriminate].
  rewrite HP. simpl write_addr. intros H. inversion H. eauto.
Qed.

Lemma read_operand_mem_inv (cfg : config) (m : mnem) (s : mstate) (op : operand) (v : Z) (c : N)
      (r : Z * mode * bool) :
  ports cfg = [] -> read_operand cfg m s op = Some (v, c) -> eff_addr cfg m s op = Some r ->
  v = mget (mem s) (fst (fst r)).
Proof.
  intros HP R E. destruct op as [|iv|y k ix|y k|l]; try discriminate.
  - unfold read_operand in R. rewrite E in R. destruct r as [[a md] cr]. rewrite HP in R.
    simpl read_addr in R. inversion R. reflexivity.
  - unfold read_operand in R. rewrite E in R. destruct r as [[a md] cr]. rewrite HP in R.
    simpl read_addr in R. inversion R. reflexivity.
Qed.

Lemma get_set_reg (m : mnem) (s : mstate) (v : Z) :
  is_ld m -> get_reg m (set_nz (set_reg m s v) v) = v.
Proof. intros [-> | [-> | ->]]; reflexivity. Qed.

(** a load followed by a store of the same register to the same operand: the store is dead.
    ([ind_legal i1] excludes "LDY (p),Y; STY (p),Y", executable in the semantics only.) *)
Theorem rule_ld_st : forall cfg i1 i2 s s1 s2,
  ports cfg = [] -> bytes_ok s ->
  (i_mn i1 = LDA /\ i_mn i2 = STA) \/ (i_mn i1 = LDX /\ i_mn i2 = STX) \/
  (i_mn i1 = LDY /\ i_mn i2 = STY) ->
  ind_legal i1 ->
  i_op i1 = i_op i2 -> steps_to cfg i1 s s1 -> steps_to cfg i2 s1 s2 -> eq_state s2 s1.
Proof.
  intros cfg i1 i2 s s1 s2 HP _ H IL EO (op1 & c1 & P1 & E1) (op2 & c2 & P2 & E2).
  assert (HH : exists ld st, st_ld st ld /\ i_mn i1 = ld /\ i_mn i2 = st).
  { destruct H as [[M1 M2]|[[M1 M2]|[M1 M2]]]; do 2 eexists; (split; [|split; eassumption]).
    - left; split; reflexivity. - right; left; split; reflexivity. - right; right; split; reflexivity. }
  destruct HH as (ld & st & SL & M1 & M2).
  pose proof (st_ld_is_ld _ _ SL) as Hld.
  pose proof (ind_legal_ldy _ _ IL P1) as NI.
  rewrite M1 in P1, E1, NI. rewrite M2 in P2, E2. rewrite <- EO in P2.
  rewrite (parse_operand_mnem st ld) in P2
    by (first [exact (st_ld_no_label _ _ SL) | exact (is_ld_no_label _ Hld)]).
  rewrite P1 in P2. inversion P2; subst op2. clear P2.
  apply exec_load_inv in E1; [|exact Hld]. destruct E1 as (v & R1 & ->).
  apply (exec_store_inv cfg st ld) in E2; [|exact SL].
  rewrite get_set_reg in E2 by exact Hld.
  apply write_operand_inv' in E2; [|exact HP]. destruct E2 as (a & md & cr & EA & ->).
  apply (eff_addr_st_ld cfg st ld) in EA; [|exact SL].
  assert (EA' : eff_addr cfg ld s op1 = Some (a, md, cr)).
  { rewrite <- EA. symmetry.
    destruct Hld as [-> | [-> | ->]].
    - apply eff_addr_frame; intros; reflexivity.
    - pose proof (ldx_not_x _ _ _ _ R1) as U.
      apply eff_addr_frame; try (intros; reflexivity). rewrite U. discriminate.
    - pose proof (ldy_not_y _ _ _ _ R1 (NI eq_refl)) as U.
      apply eff_addr_frame; try (intros; reflexivity). rewrite U. discriminate. }
  pose proof (read_operand_mem_inv _ _ _ _ _ _ _ HP R1 EA') as V. cbn [fst] in V. subst v.
  assert (MM : mem (set_nz (set_reg ld s (mget (mem s) a)) (mget (mem s) a)) = mem s)
    by (destruct Hld as [-> | [-> | ->]]; reflexivity).
  unfold eq_state, eq_mod_nz. cbn [rA rX rY rS fN fV fZ fC mem set_mem].
  rewrite MM. repeat split; try reflexivity.
  intros b. apply mget_mset_id.
Qed.
Print Assumptions rule_ld_st.

(** "STA (p),Y" must not hit the pointer p itself, else the reload goes through a changed
    pointer *)
Definition ptr_not_hit (cfg : config) (i : instr) (s : mstate) : Prop :=
  forall y k a0 a md cr,
    parse_operand (i_mn i) (i_op i) = Some (OInd y k) -> layout cfg y = Some a0 ->
    eff_addr cfg (i_mn i) s (OInd y k) = Some (a, md, cr) ->
    0 <= a0 + k /\ a <> a0 + k /\ a <> a0 + k + 1.

Lemma eff_addr_after_store (cfg : config) (m : mnem) (s : mstate) (op : operand) (a w : Z) :
  ports cfg = [] -> 0 <= a ->
  (forall y k a0, op = OInd y k -> layout cfg y = Some a0 ->
                  0 <= a0 + k /\ a <> a0 + k /\ a <> a0 + k + 1) ->
  eff_addr cfg m (set_mem s (mset (mem s) a w)) op = eff_addr cfg m s op.
Proof.
  intros HP Ha H. destruct op as [|v|y k ix|y k|l]; try reflexivity.
  unfold eff_addr. rewrite HP. simpl read_addr. cbn [mem set_mem rY].
  destruct (layout cfg y) as [a0|] eqn:EL; [|reflexivity].
  destruct (H y k a0 eq_refl EL) as (H0 & H1 & H2).
  rewrite !mget_mset_other by lia. reflexivity.
Qed.

Theorem rule_sta_lda : forall cfg i1 i2 s s1 s2,
  ports cfg = [] -> i_mn i1 = STA -> i_mn i2 = LDA -> i_op i1 = i_op i2 ->
  ptr_not_hit cfg i1 s ->
  steps_to cfg i1 s s1 -> steps_to cfg i2 s1 s2 -> eq_mod_nz s2 s1.
Proof.
  intros cfg i1 i2 s s1 s2 HP M1 M2 EO PNH (op1 & c1 & P1 & E1) (op2 & c2 & P2 & E2).
  assert (SL : st_ld STA LDA) by (left; split; reflexivity).
  unfold ptr_not_hit in PNH.
  rewrite M1 in P1, E1, PNH. rewrite M2 in P2, E2. rewrite <- EO in P2.
  rewrite (parse_operand_mnem LDA STA) in P2 by reflexivity.
  rewrite P1 in P2. inversion P2; subst op2. clear P2.
  apply (exec_store_inv cfg STA LDA) in E1; [|exact SL]. cbn [get_reg] in E1.
  apply write_operand_inv' in E1; [|exact HP]. destruct E1 as (a & md & cr & EA & ->).
  apply exec_load_inv in E2; [|left; reflexivity]. destruct E2 as (v & R & ->).
  pose proof (eff_addr_range _ _ _ _ _ _ _ EA) as RA.
  assert (EA' : eff_addr cfg LDA (set_mem s (mset (mem s) a (rA s))) op1 = Some (a, md, cr)).
  { rewrite eff_addr_after_store; [apply (eff_addr_st_ld cfg STA LDA); assumption|exact HP|lia|].
    intros y k a0 -> EL. exact (PNH y k a0 a md cr P1 EL EA). }
  pose proof (read_operand_mem_inv _ _ _ _ _ _ _ HP R EA') as V. cbn [fst mem set_mem] in V.
  rewrite mget_mset_same in V. subst v.
  unfold eq_mod_nz. cbn. repeat split; reflexivity.
Qed.
Print Assumptions rule_sta_lda.

(** the accumulator instructions that set N and Z from the new A *)
Lemma a_flags (cfg : config) (i : instr) (s s' : mstate) :
  i_mn i = LDA \/ i_mn i = ORA -> steps_to cfg i s s' ->
  fZ s' = (rA s' =? 0) /\ fN s' = bit7 (rA s').
Proof.
  intros [M|M] (op & c & P & E); rewrite M in E; inv_exec E; split; reflexivity.
Qed.

(** the rule as the optimiser applies it now, only when N/Z describe A: nothing changes at all *)
Theorem rule_sta_lda_exact : forall cfg k i1 i2 s s1 s2,
  ports cfg = [] -> i_mn i1 = STA -> i_mn i2 = LDA -> i_op i1 = i_op i2 ->
  ptr_not_hit cfg i1 s ->
  know_sound cfg k s1 -> k_flags k = FA ->
  steps_to cfg i1 s s1 -> steps_to cfg i2 s1 s2 -> eq_state s2 s1.
Proof.
  intros cfg k i1 i2 s s1 s2 HP M1 M2 EO PNH (_ & _ & _ & KF & _) FA ST1 ST2.
  pose proof (rule_sta_lda cfg i1 i2 s s1 s2 HP M1 M2 EO PNH ST1 ST2) as NZ.
  destruct (KF FA) as [Z1 N1]. destruct (a_flags cfg i2 s1 s2 (or_introl M2) ST2) as [Z2 N2].
  pose proof NZ as (HA & _).
  split; [exact NZ|]. rewrite Z2, N2, Z1, N1, HA. split; reflexivity.
Qed.
Print Assumptions rule_sta_lda_exact.

Theorem rule_ora_zero_exact : forall cfg k i s s',
  bytes_ok s -> i_mn i = ORA -> i_op i = "#0"%string ->
  know_sound cfg k s -> k_flags k = FA ->
  steps_to cfg i s s' -> eq_state s' s.
Proof.
  intros cfg k i s s' HB M O (_ & _ & _ & KF & _) FA ST.
  pose proof (rule_ora_zero cfg i s s' HB M O ST) as NZ.
  destruct (KF FA) as [Z1 N1]. destruct (a_flags cfg i s s' (or_intror M) ST) as [Z2 N2].
  pose proof NZ as (HA & _).
  split; [exact NZ|]. rewrite Z2, N2, Z1, N1, HA. split; reflexivity.
Qed.
Print Assumptions rule_ora_zero_exact.

Theorem rule_pla_pha : forall cfg i1 i2 s s1 s2,
  bytes_ok s -> i_mn i1 = PLA -> i_mn i2 = PHA ->
  steps_to cfg i1 s s1 -> steps_to cfg i2 s1 s2 -> eq_mod_anzc s2 s.
Proof.
  intros cfg i1 i2 s s1 s2 (_ & _ & _ & HS & _) M1 M2 (op1 & c1 & P1 & E1) (op2 & c2 & P2 & E2).
  rewrite M1 in E1. rewrite M2 in E2.
  cbv beta iota zeta delta [exec pull] in E1. inversion E1; subst s1. clear E1.
  cbv beta iota zeta delta [exec push] in E2. inversion E2; subst s2. clear E2.
  unfold eq_mod_anzc. cbn. repeat split; try reflexivity.
  - rewrite !byte_eq. lia.
  - intros b. apply mget_mset_id.
Qed.
Print Assumptions rule_pla_pha.

(** * The look-ahead: N and Z are dead when the next instruction defines both *)

Lemma eq_mod_nz_sym (s1 s2 : mstate) : eq_mod_nz s1 s2 -> eq_mod_nz s2 s1.
Proof.
  intros (HA & HX & HY & HS & HV & HC & HM). unfold eq_mod_nz.
  repeat split; try (symmetry; assumption). intros a. symmetry. apply HM.
Qed.

Lemma eff_addr_nz (cfg : config) (m : mnem) (s1 s2 : mstate) (op : operand) :
  eq_mod_nz s1 s2 -> eff_addr cfg m s1 op = eff_addr cfg m s2 op.
Proof.
  intros (HA & HX & HY & HS & HV & HC & HM). apply eff_addr_frame; auto.
Qed.

Lemma read_operand_nz (cfg : config) (m : mnem) (s1 s2 : mstate) (op : operand) :
  eq_mod_nz s1 s2 -> read_operand cfg m s1 op = read_operand cfg m s2 op.
Proof.
  intros (HA & HX & HY & HS & HV & HC & HM). apply read_operand_frame; auto.
Qed.

Ltac nz_states :=
  unfold eq_state, eq_mod_nz;
  cbn [rA rX rY rS fN fV fZ fC mem set_nz set_a set_x set_y set_sp set_c set_v set_mem adc sbc cmp
       fst snd];
  repeat split; try reflexivity; try assumption;
  try (intros b; apply mget_mset_ext; assumption).

Theorem defines_nz_dead : forall cfg m op s1 s2,
  defines_nz m = true -> eq_mod_nz s1 s2 ->
  outcome_eq (exec cfg m op s1) (exec cfg m op s2).
Proof.
  intros cfg m op s1 s2 D H.
  pose proof (read_operand_nz cfg m s1 s2 op H) as RO.
  pose proof (eff_addr_nz cfg m s1 s2 op H) as EA.
  destruct s1 as [a1 x1 y1 sp1 n1 v1 z1 c1 m1], s2 as [a2 x2 y2 sp2 n2 v2 z2 c2 m2].
  destruct H as (HA & HX & HY & HS & HV & HC & HM).
  cbn [rA rX rY rS fN fV fZ fC mem] in HA, HX, HY, HS, HV, HC, HM. subst a2 x2 y2 sp2 v2 c2.
  destruct m; try discriminate D; cbv beta iota zeta delta [exec].
  all: try (rewrite RO;
            match goal with |- context [read_operand ?c ?m ?s ?o] =>
              destruct (read_operand c m s o) as [[v cy]|] end;
            cbn [outcome_eq]; [|reflexivity]; split; [reflexivity|split; [reflexivity|]];
            nz_states).
  all: try (cbn [outcome_eq]; split; [reflexivity|split; [reflexivity|]]; nz_states; fail).
  all: try (unfold pull; cbn [rS mem set_sp]; rewrite HM;
            cbn [outcome_eq]; split; [reflexivity|split; [reflexivity|]]; nz_states; fail).
  all: destruct op as [|iv|y k ix|y k|l]; try (cbn [outcome_eq]; reflexivity).
  all: try (cbv beta iota zeta delta [lsr_v asl_v rol_v ror_v];
            cbn [outcome_eq]; split; [reflexivity|split; [reflexivity|]]; nz_states; fail).
  all: try (rewrite EA;
            match goal with |- context [eff_addr ?c ?m ?s ?o] =>
              destruct (eff_addr c m s o) as [[[ea md] cr]|] end; [|cbn [outcome_eq]; reflexivity];
            destruct (read_addr (ports cfg) ea) as [ar|]; [|cbn [outcome_eq]; reflexivity];
            destruct (write_addr (ports cfg) ea) as [aw|]; [|cbn [outcome_eq]; reflexivity];
            cbn [mem fC]; rewrite HM;
            cbv beta iota zeta delta [lsr_v asl_v rol_v ror_v];
            cbn [outcome_eq]; split; [reflexivity|split; [reflexivity|]]; nz_states; fail).
Qed.
Print Assumptions defines_nz_dead.

Definition is_store (m : mnem) : Prop := m = STA \/ m = STX \/ m = STY.

(** a store does not read N or Z, and always falls through *)
Theorem store_keeps_eq_mod_nz : forall cfg m op s1 s2,
  is_store m -> eq_mod_nz s1 s2 ->
  outcome_eq_mod_nz (exec cfg m op s1) (exec cfg m op s2).
Proof.
  intros cfg m op s1 s2 Hm H.
  pose proof (eff_addr_nz cfg m s1 s2 op H) as EA.
  destruct s1 as [a1 x1 y1 sp1 n1 v1 z1 c1 m1], s2 as [a2 x2 y2 sp2 n2 v2 z2 c2 m2].
  destruct H as (HA & HX & HY & HS & HV & HC & HM).
  cbn [rA rX rY rS fN fV fZ fC mem] in HA, HX, HY, HS, HV, HC, HM. subst a2 x2 y2 sp2 v2 c2.
  destruct Hm as [-> | [-> | ->]]; cbv beta iota zeta delta [exec write_operand]; rewrite EA;
    match goal with |- context [eff_addr ?c ?m ?s ?o] =>
      destruct (eff_addr c m s o) as [[[ea md] cr]|] end;
    try (cbn [outcome_eq_mod_nz]; reflexivity);
    (destruct (write_addr (ports cfg) ea) as [aw|]; [|cbn [outcome_eq_mod_nz]; reflexivity]);
    cbn [outcome_eq_mod_nz]; (split; [reflexivity|split; [reflexivity|]]); nz_states.
Qed.
Print Assumptions store_keeps_eq_mod_nz.

Lemma store_falls_through (cfg : config) (m : mnem) (op : operand) (s s' : mstate) (c : N) (f : flow) :
  is_store m -> exec cfg m op s = XOk s' c f -> f = FNext.
Proof.
  intros [-> | [-> | ->]] E; cbv beta iota zeta delta [exec] in E;
    match type of E with match ?x with _ => _ end = _ => destruct x as [[s0 c0]|] end;
    try discriminate; inversion E; reflexivity.
Qed.

(** a store followed by an instruction that defines N and Z: the pair behaves the same from two
    states that differ in N and Z only *)
Theorem store_then_defines_nz_dead : forall cfg m1 op1 m2 op2 s1 s2,
  is_store m1 -> defines_nz m2 = true -> eq_mod_nz s1 s2 ->
  outcome_eq (then_exec cfg (exec cfg m1 op1 s1) m2 op2) (then_exec cfg (exec cfg m1 op1 s2) m2 op2).
Proof.
  intros cfg m1 op1 m2 op2 s1 s2 Hm D H.
  pose proof (store_keeps_eq_mod_nz cfg m1 op1 s1 s2 Hm H) as K.
  destruct (exec cfg m1 op1 s1) as [t1 c1 f1|w1] eqn:E1;
    destruct (exec cfg m1 op1 s2) as [t2 c2 f2|w2] eqn:E2; cbn [outcome_eq_mod_nz] in K;
    try contradiction.
  - destruct K as (-> & -> & NZ).
    apply store_falls_through in E2; [|exact Hm]. subst f2.
    unfold then_exec.
    pose proof (defines_nz_dead cfg m2 op2 t1 t2 D NZ) as K2.
    destruct (exec cfg m2 op2 t1) as [u1 d1 g1|x1]; destruct (exec cfg m2 op2 t2) as [u2 d2 g2|x2];
      cbn [outcome_eq] in K2 |- *; try contradiction.
    + destruct K2 as (-> & -> & ES). auto.
    + exact K2.
  - subst w2. cbn [then_exec outcome_eq]. reflexivity.
Qed.
Print Assumptions store_then_defines_nz_dead.

Lemma is_load_defines_nz (m : mnem) : is_load m = true -> defines_nz m = true.
Proof. destruct m; try discriminate; reflexivity. Qed.

(** the LDX/LDY look-ahead: the next instruction executed behaves the same whatever N and Z are *)
Theorem ldxy_lookahead_dead : forall cfg ahead s1 s2,
  ldxy_lookahead ahead = true -> eq_mod_nz s1 s2 ->
  exists j, next_ins ahead = Some j /\ defines_nz (i_mn j) = true /\
            forall op, outcome_eq (exec cfg (i_mn j) op s1) (exec cfg (i_mn j) op s2).
Proof.
  intros cfg ahead s1 s2 L H.
  induction ahead as [|x t IH]; [discriminate L|].
  destruct x as [l|j|tx sz|cm|]; cbn [ldxy_lookahead next_ins] in L |- *; try discriminate L.
  - exists j. split; [reflexivity|]. split; [exact L|]. intros op. apply defines_nz_dead; assumption.
  - apply IH. exact L.
  - apply IH. exact L.
Qed.
Print Assumptions ldxy_lookahead_dead.

(** the LDA look-ahead: either the next instruction is a CMP, or it is a STA followed by a load *)
Theorem lda_lookahead_dead : forall cfg ahead s1 s2,
  lda_lookahead ahead = true -> eq_mod_nz s1 s2 ->
  exists j1 t, ahead = Ins j1 :: t /\
    ((i_mn j1 = CMP /\
      forall op, outcome_eq (exec cfg (i_mn j1) op s1) (exec cfg (i_mn j1) op s2)) \/
     (i_mn j1 = STA /\ exists j2, next_ins t = Some j2 /\ is_load (i_mn j2) = true /\
      forall op1 op2,
        outcome_eq (then_exec cfg (exec cfg (i_mn j1) op1 s1) (i_mn j2) op2)
                   (then_exec cfg (exec cfg (i_mn j1) op1 s2) (i_mn j2) op2))).
Proof.
  intros cfg ahead s1 s2 L H.
  unfold lda_lookahead in L.
  destruct ahead as [|[l|j1|tx sz|cm|] t]; try discriminate L.
  exists j1, t. split; [reflexivity|].
  destruct (i_mn j1) eqn:M; try discriminate L.
  - (* STA *) right. split; [reflexivity|].
    assert (HH : exists j2, next_ins t = Some j2 /\ is_load (i_mn j2) = true).
    { destruct t as [|[l|j2|tx sz|cm|] t']; try discriminate L.
      - exists j2. split; [reflexivity|exact L].
      - destruct t' as [|[l|j3|tx sz|cm|] t'']; try discriminate L.
        exists j3. split; [reflexivity|exact L]. }
    destruct HH as (j2 & N2 & L2). exists j2. split; [exact N2|]. split; [exact L2|].
    intros op1 op2. apply store_then_defines_nz_dead.
    + left. reflexivity.
    + apply is_load_defines_nz. exact L2.
    + exact H.
  - (* CMP *) left. split; [reflexivity|]. intros op. apply defines_nz_dead; [reflexivity|exact H].
Qed.
Print Assumptions lda_lookahead_dead.

(** [removal_sound] and the two look-ahead theorems put together: a load the model removes either
    leaves the state as it was, or changes N and Z only and what is executed next cannot tell *)
Theorem removal_dead : forall cfg k i ahead s s',
  ports cfg = [] -> know_sound cfg k s -> steps_to cfg i s s' ->
  snd (transfer k i ahead) = true ->
  eq_mod_nz s' s /\
  (eq_state s' s \/
   (exists j, next_ins ahead = Some j /\ defines_nz (i_mn j) = true /\
      forall op, outcome_eq (exec cfg (i_mn j) op s') (exec cfg (i_mn j) op s)) \/
   (exists j1 j2 t, ahead = Ins j1 :: t /\ i_mn j1 = STA /\ next_ins t = Some j2 /\
      is_load (i_mn j2) = true /\
      forall op1 op2,
        outcome_eq (then_exec cfg (exec cfg (i_mn j1) op1 s') (i_mn j2) op2)
                   (then_exec cfg (exec cfg (i_mn j1) op1 s) (i_mn j2) op2))).
Proof.
  intros cfg k i ahead s s' HP KS ST R.
  destruct (removal_sound cfg k i ahead s s' HP KS ST R) as [NZ [ES|[[_ L]|[_ L]]]].
  - split; [exact NZ|]. left. exact ES.
  - split; [exact NZ|].
    destruct (lda_lookahead_dead cfg ahead s' s L NZ) as (j1 & t & EA & [[M D]|[M (j2 & N2 & L2 & D)]]).
    + right. left. exists j1. split; [rewrite EA; reflexivity|]. split; [rewrite M; reflexivity|exact D].
    + right. right. exists j1, j2, t. auto.
  - split; [exact NZ|]. right. left. exact (ldxy_lookahead_dead cfg ahead s' s L NZ).
Qed.
Print Assumptions removal_dead.

(** * Refutations of the statements as first given (concrete machine states) *)

Ltac cx_bytes :=
  apply bytes_ok_cx; try lia;
  repeat (apply mget_mset_bytes; [|lia]); apply bytes_empty.

Ltac cx_holds :=
  let o := fresh "o" in let Ho := fresh "Ho" in
  intros o Ho; inversion Ho; subst o;
  eexists; eexists; split; [vm_compute; reflexivity|vm_compute; reflexivity].

(** the remaining clauses of [know_sound] when nothing more is known *)
Ltac cx_rest := repeat (split; [discriminate|]); discriminate.

Ltac cx_steps :=
  eexists; eexists; split; [vm_compute; reflexivity|vm_compute; reflexivity].

(** "A rule removes PLA; PHA": the stack, X, Y, V and memory are as before but A is not *)
Example rule_pla_pha_changes_a :
  exists cfg i1 i2 s s1 s2,
    bytes_ok s /\ i_mn i1 = PLA /\ i_mn i2 = PHA /\
    steps_to cfg i1 s s1 /\ steps_to cfg i2 s1 s2 /\ rA s2 <> rA s.
Proof.
  exists (cx_cfg "v" 128), (cx_ins PLA ""), (cx_ins PHA ""),
         (cx_state 0 0 0 254 (mset mem_empty 511 7)).
  eexists. eexists.
  split; [cx_bytes|]. split; [reflexivity|]. split; [reflexivity|].
  split; [cx_steps|]. split; [cx_steps|].
  vm_compute. discriminate.
Qed.
Print Assumptions rule_pla_pha_changes_a.

(** T1 without [xfer_no_zp_y]: "LDX v,Y" (zp,Y: wraps) then TXA; the optimiser now believes that
    A holds what "LDA v,Y" (abs,Y: does not wrap) would load.  v = $80, Y = $90. *)
Example transfer_sound_refuted_txa :
  exists cfg k i ahead s s',
    ports cfg = [] /\ bytes_ok s /\
    (i_mn i = PHA \/ i_mn i = PHP -> know_off_stack cfg k s) /\ ind_legal i /\
    know_sound cfg k s /\ steps_to cfg i s s' /\ snd (transfer k i ahead) = false /\
    ~ know_sound cfg (fst (transfer k i ahead)) s'.
Proof.
  exists (cx_cfg "v" 128), (mkK None (Some "v,Y"%string) None FUnknown), (cx_ins TXA ""), [],
         (cx_state 0 1 144 255 (mset (mset mem_empty 16 1) 272 2)).
  eexists.
  split; [reflexivity|]. split; [cx_bytes|].
  split; [intros [H|H]; discriminate H|].
  split; [intros y k H; vm_compute in H; discriminate H|].
  split.
  { unfold know_sound. cbn [k_acc k_x k_y k_flags].
    split; [discriminate|]. split; [cx_holds|]. cx_rest. }
  split; [cx_steps|]. split; [vm_compute; reflexivity|].
  intros (KA & _). specialize (KA "v,Y"%string eq_refl). destruct KA as (op & c & P & R).
  vm_compute in P. inversion P; subst op. vm_compute in R. discriminate R.
Qed.
Print Assumptions transfer_sound_refuted_txa.

(** the same with "LDA v,Y" then TAX *)
Example transfer_sound_refuted_tax :
  exists cfg k i ahead s s',
    ports cfg = [] /\ bytes_ok s /\
    (i_mn i = PHA \/ i_mn i = PHP -> know_off_stack cfg k s) /\ ind_legal i /\
    know_sound cfg k s /\ steps_to cfg i s s' /\ snd (transfer k i ahead) = false /\
    ~ know_sound cfg (fst (transfer k i ahead)) s'.
Proof.
  exists (cx_cfg "v" 128), (mkK (Some "v,Y"%string) None None FUnknown), (cx_ins TAX ""), [],
         (cx_state 2 0 144 255 (mset (mset mem_empty 16 1) 272 2)).
  eexists.
  split; [reflexivity|]. split; [cx_bytes|].
  split; [intros [H|H]; discriminate H|].
  split; [intros y k H; vm_compute in H; discriminate H|].
  split.
  { unfold know_sound. cbn [k_acc k_x k_y k_flags].
    split; [cx_holds|]. split; [discriminate|]. cx_rest. }
  split; [cx_steps|]. split; [vm_compute; reflexivity|].
  intros (_ & KX & _). specialize (KX "v,Y"%string eq_refl). destruct KX as (op & c & P & R).
  vm_compute in P. inversion P; subst op. vm_compute in R. discriminate R.
Qed.
Print Assumptions transfer_sound_refuted_tax.

(** T1 without [ind_legal]: the semantics executes "LDY (p),Y" (not a 6502 instruction); the new
    Y is not what "LDY (p),Y" would load next *)
Example transfer_sound_refuted_ldy_ind :
  exists cfg k i ahead s s',
    ports cfg = [] /\ bytes_ok s /\
    (i_mn i = PHA \/ i_mn i = PHP -> know_off_stack cfg k s) /\ xfer_no_zp_y cfg k i /\
    know_sound cfg k s /\ steps_to cfg i s s' /\ snd (transfer k i ahead) = false /\
    ~ know_sound cfg (fst (transfer k i ahead)) s'.
Proof.
  exists (cx_cfg "p" 16), (mkK None None None FUnknown), (cx_ins LDY "(p),Y"), [],
         (cx_state 0 0 1 255 (mset (mset (mset (mset mem_empty 16 0) 17 2) 513 5) 517 9)).
  eexists.
  split; [reflexivity|]. split; [cx_bytes|].
  split; [intros [H|H]; discriminate H|].
  split; [split; discriminate|].
  split.
  { unfold know_sound. cbn [k_acc k_x k_y k_flags]. repeat split; discriminate. }
  split; [cx_steps|]. split; [vm_compute; reflexivity|].
  intros (_ & _ & KY & _). specialize (KY "(p),Y"%string eq_refl). destruct KY as (op & c & P & R).
  vm_compute in P. inversion P; subst op. vm_compute in R. discriminate R.
Qed.
Print Assumptions transfer_sound_refuted_ldy_ind.

(** T1 without the stack-page hypothesis: PHA overwrites the cell X is known to mirror *)
Example transfer_sound_refuted_pha :
  exists cfg k i ahead s s',
    ports cfg = [] /\ bytes_ok s /\ ind_legal i /\ xfer_no_zp_y cfg k i /\
    know_sound cfg k s /\ steps_to cfg i s s' /\ snd (transfer k i ahead) = false /\
    ~ know_sound cfg (fst (transfer k i ahead)) s'.
Proof.
  exists (cx_cfg "stk" 511), (mkK None (Some "stk"%string) None FUnknown), (cx_ins PHA ""), [],
         (cx_state 9 3 0 255 (mset mem_empty 511 3)).
  eexists.
  split; [reflexivity|]. split; [cx_bytes|].
  split; [intros y k H; vm_compute in H; discriminate H|].
  split; [split; discriminate|].
  split.
  { unfold know_sound. cbn [k_acc k_x k_y k_flags].
    split; [discriminate|]. split; [cx_holds|]. cx_rest. }
  split; [cx_steps|]. split; [vm_compute; reflexivity|].
  intros (_ & KX & _). specialize (KX "stk"%string eq_refl). destruct KX as (op & c & P & R).
  vm_compute in P. inversion P; subst op. vm_compute in R. discriminate R.
Qed.
Print Assumptions transfer_sound_refuted_pha.

(** STA (p),Y that hits p itself (p at $10 holds $0010, Y = 0): the reload reads through the
    new pointer *)
Example rule_sta_lda_refuted :
  exists cfg i1 i2 s s1 s2,
    ports cfg = [] /\ bytes_ok s /\ i_mn i1 = STA /\ i_mn i2 = LDA /\ i_op i1 = i_op i2 /\
    steps_to cfg i1 s s1 /\ steps_to cfg i2 s1 s2 /\ ~ eq_mod_nz s2 s1.
Proof.
  exists (cx_cfg "p" 16), (cx_ins STA "(p),Y"), (cx_ins LDA "(p),Y"),
         (cx_state 32 0 0 255 (mset (mset mem_empty 16 16) 32 7)).
  eexists. eexists.
  split; [reflexivity|]. split; [cx_bytes|]. split; [reflexivity|]. split; [reflexivity|].
  split; [reflexivity|]. split; [cx_steps|]. split; [cx_steps|].
  intros (HA & _). vm_compute in HA. discriminate HA.
Qed.
Print Assumptions rule_sta_lda_refuted.

(** "LDY (p),Y; STY (p),Y" (executable in the semantics only): the store goes elsewhere *)
Example rule_ld_st_refuted :
  exists cfg i1 i2 s s1 s2,
    ports cfg = [] /\ bytes_ok s /\ i_mn i1 = LDY /\ i_mn i2 = STY /\ i_op i1 = i_op i2 /\
    steps_to cfg i1 s s1 /\ steps_to cfg i2 s1 s2 /\ ~ eq_state s2 s1.
Proof.
  exists (cx_cfg "p" 16), (cx_ins LDY "(p),Y"), (cx_ins STY "(p),Y"),
         (cx_state 0 0 1 255 (mset (mset (mset (mset mem_empty 16 0) 17 2) 513 5) 517 9)).
  eexists. eexists.
  split; [reflexivity|]. split; [cx_bytes|]. split; [reflexivity|]. split; [reflexivity|].
  split; [reflexivity|]. split; [cx_steps|]. split; [cx_steps|].
  intros ((_ & _ & _ & _ & _ & _ & HM) & _). specialize (HM 517). vm_compute in HM. discriminate HM.
Qed.
Print Assumptions rule_ld_st_refuted.

(** "LDY #4; LDY (p),Y": the second load depends on the first *)
Example rule_load_load_refuted :
  exists cfg i1 i2 s s1 s2,
    i_mn i1 = LDY /\ i_mn i2 = LDY /\ steps_to cfg i1 s s1 /\ steps_to cfg i2 s1 s2 /\
    ~ exists s2', steps_to cfg i2 s s2' /\ eq_state s2' s2.
Proof.
  exists (cx_cfg "p" 16), (cx_ins LDY "#4"), (cx_ins LDY "(p),Y"),
         (cx_state 0 0 1 255 (mset (mset (mset (mset mem_empty 16 0) 17 2) 513 5) 516 9)).
  eexists. eexists.
  split; [reflexivity|]. split; [reflexivity|]. split; [cx_steps|]. split; [cx_steps|].
  intros (s2' & (op & c & P & E) & EQ).
  vm_compute in P. inversion P; subst op. vm_compute in E. inversion E; subst s2'.
  destruct EQ as ((_ & _ & HY & _) & _). vm_compute in HY. discriminate HY.
Qed.
Print Assumptions rule_load_load_refuted.

(** The rule as it was before the fix (a repeated LDX is removed whatever N and Z describe) is
    unsound: X is known to hold "#5", N and Z describe A = 0 (knowledge [FA], e.g. after
    "LDX #5; LDA #0"); "LDX #5" clears Z, so removing it changes what a following BEQ does *)
Definition cx_ldx_state : mstate := mkS 0 5 0 255 false false true false mem_empty.

Lemma cx_ldx_know_sound :
  know_sound (cx_cfg "v" 128) (mkK None (Some "#5"%string) None FA) cx_ldx_state.
Proof.
  unfold know_sound. cbn [k_acc k_x k_y k_flags].
  split; [discriminate|]. split; [cx_holds|]. split; [discriminate|].
  split; [intros _; split; reflexivity|]. split; discriminate.
Qed.

Example ldx_removal_needs_flags :
  exists cfg k i s s',
    know_sound cfg k s /\ steps_to cfg i s s' /\ i_mn i = LDX /\ k_x k = Some (i_op i) /\
    ~ eq_state s' s.
Proof.
  exists (cx_cfg "v" 128), (mkK None (Some "#5"%string) None FA), (cx_ins LDX "#5"), cx_ldx_state.
  eexists.
  split; [exact cx_ldx_know_sound|]. split; [cx_steps|]. split; [reflexivity|]. split; [reflexivity|].
  intros (_ & _ & HZ). vm_compute in HZ. discriminate HZ.
Qed.
Print Assumptions ldx_removal_needs_flags.

(** the same situation, spelt out: the BEQ that follows is taken without the LDX and not taken
    with it; the model (after the fix) keeps the LDX *)
Example ldx_removal_changes_beq :
  exists cfg k i s s',
    know_sound cfg k s /\ k_flags k = FA /\ steps_to cfg i s s' /\ i_mn i = LDX /\
    k_x k = Some (i_op i) /\
    exec cfg BEQ (OLbl "l") s = XOk s 3%N (FGoto "l") /\
    exec cfg BEQ (OLbl "l") s' = XOk s' 2%N FNext /\
    snd (transfer k i [Ins (cx_ins BEQ "l")]) = false.
Proof.
  exists (cx_cfg "v" 128), (mkK None (Some "#5"%string) None FA), (cx_ins LDX "#5"), cx_ldx_state.
  eexists.
  split; [exact cx_ldx_know_sound|]. split; [reflexivity|]. split; [cx_steps|].
  split; [reflexivity|]. split; [reflexivity|].
  split; [vm_compute; reflexivity|]. split; [vm_compute; reflexivity|].
  vm_compute. reflexivity.
Qed.
Print Assumptions ldx_removal_changes_beq.
