(** C01 — emitted 6502 code computes what the C source says: LOOPS.
    The exact -O0 output of the compiler for eight loop statements over [unsigned char a, b, c, i;]
    and the register variables [X], [Y] (Model/GenLoops.v, [ltemplate]; the [llisting_NN] examples
    there are compared line for line with the real compiler by tools/props) is run on the
    executable 6502 semantics: for ALL byte-valued initial states, all addresses of the variables
    (different cells where the statement needs it) and every label number, [Sem.run] on the whole
    sequence, backward branches included, halts normally past the end label ([halts_to]: from an
    empty call stack, inside any program, with any fuel above some bound), the variables hold
    what C says (closed forms in the initial values; for the [continue] and [break] loops also
    as the iteration of the C body, [cont_iter] / [brk_loop]), every other memory cell is unchanged
    and the registers the statement does not name keep their values (A and the flags may change).
    The proofs are by induction on the number of iterations that remain ([C01_loop_rule]).
    Statements only; proofs in Proofs/GenLoopsFacts.v. *)
From Coq Require Import String List Bool NArith ZArith Lia.
From CC Require Import Base.Str Asm.Lines M6502.Isa Asm.Operand M6502.Sem Model.OptSem
  Model.GenTemplates Proofs.GenTemplatesFacts Proofs.GenCmp16Facts Model.GenLoops
  Proofs.GenLoopsFacts.
Import ListNotations.
Open Scope Z_scope.

(** the general lemma: a loop head, an invariant with a measure that decreases at each pass;
    [reach cfg c pc s Q]: [Sem.run] goes from line [pc] in state [s] to a line and a state
    satisfying [Q] ([stepn_run]) *)
Theorem C01_loop_rule : forall cfg (c : list sline) (head exit : nat)
    (Inv : Z -> mstate -> Prop) (Post : mstate -> Prop),
  (forall k s, Inv k s ->
     reach cfg c head s (fun (_ pc' : nat) (s' : mstate) =>
       (pc' = head /\ exists k', 0 <= k' < k /\ Inv k' s') \/ (pc' = exit /\ Post s'))) ->
  forall k s, Inv k s ->
    reach cfg c head s (fun (_ pc' : nat) (s' : mstate) => pc' = exit /\ Post s').
Proof. exact loop_rule. Qed.

(** the same on [Sem.run] *)
Theorem C01_loop_rule_run : forall cfg (c : list sline) (head exit : nat)
    (Inv : Z -> mstate -> Prop) (Post : mstate -> Prop),
  (forall k s, Inv k s ->
     reach cfg c head s (fun (_ pc' : nat) (s' : mstate) =>
       (pc' = head /\ exists k', 0 <= k' < k /\ Inv k' s') \/ (pc' = exit /\ Post s'))) ->
  forall k s, Inv k s ->
    exists (N : nat) (s' : mstate), Post s' /\
      forall prog inl_sem ext_call fuel fname tr cy, exists tr' cy',
        Sem.run cfg prog inl_sem ext_call (N + fuel) fname c head [] s tr cy
        = Sem.run cfg prog inl_sem ext_call fuel fname c exit [] s' tr' cy'.
Proof. exact loop_rule_run. Qed.

(** [halts_to] determines the final state, which is byte-valued again *)
Theorem C01_loop_halts_to_det : forall cfg c st s1 s2,
  halts_to cfg c st s1 -> halts_to cfg c st s2 -> s1 = s2.
Proof. exact halts_to_det. Qed.

Theorem C01_loop_halts_to_bytes_ok : forall cfg c st st',
  halts_to cfg c st st' -> bytes_ok st -> bytes_ok st'.
Proof. exact halts_to_bytes_ok. Qed.

(** [do { a++; i--; } while (i != 0);]: [i] iterations, 256 if [i = 0] *)
Theorem C01_loop_do_dec : forall cfg a i n pa pi st,
  ports cfg = [] -> var_name a -> var_name i ->
  layout cfg a = Some pa -> layout cfg i = Some pi ->
  0 <= pa < 65536 -> 0 <= pi < 65536 -> pa <> pi ->
  bytes_ok st ->
  exists st', halts_to cfg (ltemplate (LDoDec a i n)) st st' /\
    mget (mem st') pi = 0 /\
    mget (mem st') pa
    = (mget (mem st) pa + (if mget (mem st) pi =? 0 then 256 else mget (mem st) pi)) mod 256 /\
    only_changes [pa; pi] st st' /\ keeps_xys st st'.
Proof. exact do_dec_correct. Qed.

(** [do { a += c; X--; } while (X);] *)
Theorem C01_loop_do_x : forall cfg a c n pa pc st,
  ports cfg = [] -> var_name a -> var_name c ->
  layout cfg a = Some pa -> layout cfg c = Some pc ->
  0 <= pa < 65536 -> 0 <= pc < 65536 -> pa <> pc ->
  bytes_ok st ->
  exists st', halts_to cfg (ltemplate (LDoX a c n)) st st' /\
    rX st' = 0 /\
    mget (mem st') pa
    = (mget (mem st) pa + (if rX st =? 0 then 256 else rX st) * mget (mem st) pc) mod 256 /\
    only_changes [pa] st st' /\ keeps_ys st st'.
Proof. exact do_x_correct. Qed.

(** [for (i = 0; i != b; i++) a++;] *)
Theorem C01_loop_for_ne : forall cfg i b a n pi pb pa st,
  ports cfg = [] -> var_name i -> var_name b -> var_name a ->
  layout cfg i = Some pi -> layout cfg b = Some pb -> layout cfg a = Some pa ->
  0 <= pi < 65536 -> 0 <= pb < 65536 -> 0 <= pa < 65536 ->
  pa <> pi -> pa <> pb -> pi <> pb ->
  bytes_ok st ->
  exists st', halts_to cfg (ltemplate (LForNe i b a n)) st st' /\
    mget (mem st') pi = mget (mem st) pb /\
    mget (mem st') pa = (mget (mem st) pa + mget (mem st) pb) mod 256 /\
    only_changes [pa; pi] st st' /\ keeps_xys st st'.
Proof. exact for_ne_correct. Qed.

(** [while (i != b) { a++; i++; }]: [(b - i) mod 256] iterations *)
Theorem C01_loop_while_ne : forall cfg i b a n pi pb pa st,
  ports cfg = [] -> var_name i -> var_name b -> var_name a ->
  layout cfg i = Some pi -> layout cfg b = Some pb -> layout cfg a = Some pa ->
  0 <= pi < 65536 -> 0 <= pb < 65536 -> 0 <= pa < 65536 ->
  pa <> pi -> pa <> pb -> pi <> pb ->
  bytes_ok st ->
  exists st', halts_to cfg (ltemplate (LWhileNe i b a n)) st st' /\
    mget (mem st') pi = mget (mem st) pb /\
    mget (mem st') pa
    = (mget (mem st) pa + (mget (mem st) pb - mget (mem st) pi) mod 256) mod 256 /\
    only_changes [pa; pi] st st' /\ keeps_xys st st'.
Proof. exact while_ne_correct. Qed.

(** [for (X = b; X != 0; X--) a += c;] ([a] may be the cell of [b]) *)
Theorem C01_loop_for_x_down : forall cfg b a c n pb pa pc st,
  ports cfg = [] -> var_name b -> var_name a -> var_name c ->
  layout cfg b = Some pb -> layout cfg a = Some pa -> layout cfg c = Some pc ->
  0 <= pb < 65536 -> 0 <= pa < 65536 -> 0 <= pc < 65536 -> pa <> pc ->
  bytes_ok st ->
  exists st', halts_to cfg (ltemplate (LForXDown b a c n)) st st' /\
    rX st' = 0 /\
    mget (mem st') pa = (mget (mem st) pa + mget (mem st) pb * mget (mem st) pc) mod 256 /\
    only_changes [pa] st st' /\ keeps_ys st st'.
Proof. exact for_x_down_correct. Qed.

(** [for (Y = 0; Y != k; Y++) a++;] for every constant [0 <= k < 256]; the listing has 4 *)
Theorem C01_loop_for_y_up : forall cfg kk a n pa st,
  ports cfg = [] -> var_name a -> 0 <= kk < 256 ->
  layout cfg a = Some pa -> 0 <= pa < 65536 ->
  bytes_ok st ->
  exists st', halts_to cfg (ltemplate (LForYUp kk a n)) st st' /\
    rY st' = kk /\
    mget (mem st') pa = (mget (mem st) pa + kk) mod 256 /\
    only_changes [pa] st st' /\ keeps_xs st st'.
Proof. exact for_y_up_correct. Qed.

Theorem C01_loop_for_y_4 : forall cfg a n pa st,
  ports cfg = [] -> var_name a -> layout cfg a = Some pa -> 0 <= pa < 65536 ->
  bytes_ok st ->
  exists st', halts_to cfg (ltemplate (LForYUp 4 a n)) st st' /\
    rY st' = 4 /\
    mget (mem st') pa = (mget (mem st) pa + 4) mod 256 /\
    only_changes [pa] st st' /\ keeps_xs st st'.
Proof. exact for_y_4_correct. Qed.

(** [for (i = 0; i < b; i++) { if (a == c) continue; a++; }]: closed form ... *)
Theorem C01_loop_for_lt_cont : forall cfg i b a c n pi pb pa pc st,
  ports cfg = [] -> var_name i -> var_name b -> var_name a -> var_name c ->
  layout cfg i = Some pi -> layout cfg b = Some pb -> layout cfg a = Some pa ->
  layout cfg c = Some pc ->
  0 <= pi < 65536 -> 0 <= pb < 65536 -> 0 <= pa < 65536 -> 0 <= pc < 65536 ->
  pa <> pi -> pa <> pb -> pa <> pc -> pi <> pb -> pi <> pc ->
  bytes_ok st ->
  exists st', halts_to cfg (ltemplate (LForLtCont i b a c n)) st st' /\
    mget (mem st') pi = mget (mem st) pb /\
    mget (mem st') pa
    = (mget (mem st) pa
       + Z.min (mget (mem st) pb) ((mget (mem st) pc - mget (mem st) pa) mod 256)) mod 256 /\
    only_changes [pa; pi] st st' /\ keeps_xys st st'.
Proof. exact for_lt_cont_correct. Qed.

(** ... and as [b] iterations of the C body [cont_body c a = if a =? c then a else (a+1) mod 256] *)
Theorem C01_loop_for_lt_cont_iter : forall cfg i b a c n pi pb pa pc st,
  ports cfg = [] -> var_name i -> var_name b -> var_name a -> var_name c ->
  layout cfg i = Some pi -> layout cfg b = Some pb -> layout cfg a = Some pa ->
  layout cfg c = Some pc ->
  0 <= pi < 65536 -> 0 <= pb < 65536 -> 0 <= pa < 65536 -> 0 <= pc < 65536 ->
  pa <> pi -> pa <> pb -> pa <> pc -> pi <> pb -> pi <> pc ->
  bytes_ok st ->
  exists st', halts_to cfg (ltemplate (LForLtCont i b a c n)) st st' /\
    mget (mem st') pi = mget (mem st) pb /\
    mget (mem st') pa
    = cont_iter (Z.to_nat (mget (mem st) pb)) (mget (mem st) pc) (mget (mem st) pa) /\
    only_changes [pa; pi] st st' /\ keeps_xys st st'.
Proof. exact for_lt_cont_iter. Qed.

(** [while (i) { i--; if (i == b) break; a++; }]: closed form ... *)
Theorem C01_loop_while_brk : forall cfg i b a n pi pb pa st,
  ports cfg = [] -> var_name i -> var_name b -> var_name a ->
  layout cfg i = Some pi -> layout cfg b = Some pb -> layout cfg a = Some pa ->
  0 <= pi < 65536 -> 0 <= pb < 65536 -> 0 <= pa < 65536 ->
  pa <> pi -> pa <> pb -> pi <> pb ->
  bytes_ok st ->
  exists st', halts_to cfg (ltemplate (LWhileBrk i b a n)) st st' /\
    mget (mem st') pi = (if mget (mem st) pb <? mget (mem st) pi then mget (mem st) pb else 0) /\
    mget (mem st') pa
    = (mget (mem st) pa
       + (if mget (mem st) pb <? mget (mem st) pi
          then mget (mem st) pi - 1 - mget (mem st) pb else mget (mem st) pi)) mod 256 /\
    only_changes [pa; pi] st st' /\ keeps_xys st st'.
Proof. exact while_brk_correct. Qed.

(** ... and as the recursive function [brk_loop] (the C loop, with fuel [i]) *)
Theorem C01_loop_while_brk_iter : forall cfg i b a n pi pb pa st,
  ports cfg = [] -> var_name i -> var_name b -> var_name a ->
  layout cfg i = Some pi -> layout cfg b = Some pb -> layout cfg a = Some pa ->
  0 <= pi < 65536 -> 0 <= pb < 65536 -> 0 <= pa < 65536 ->
  pa <> pi -> pa <> pb -> pi <> pb ->
  bytes_ok st ->
  exists st', halts_to cfg (ltemplate (LWhileBrk i b a n)) st st' /\
    (mget (mem st') pi, mget (mem st') pa)
    = brk_loop (Z.to_nat (mget (mem st) pi)) (mget (mem st) pb) (mget (mem st) pi)
        (mget (mem st) pa) /\
    only_changes [pa; pi] st st' /\ keeps_xys st st'.
Proof. exact while_brk_iter. Qed.
