(** C06 — diagnostics name the true source location.  Statements only (general theorems:
    Proofs/LineMapFacts.v when present). *)
From Coq Require Import String Ascii List Bool NArith.
From CC Require Import Base.Str Model.Cpp.
Import ListNotations.
Open Scope string_scope.

(** a run through comments, a splice, a skipped region, a define and an include: one entry per
    output line, each naming the last physical line of its logical line and the include site *)
Theorem C06_example_table :
  match run_cpp [("i.h", ["x;" ++ nl; "/* c" ++ nl; "*/ y;" ++ nl])] "m.c" []
        ["a;" ++ nl; "/* two" ++ nl; "lines */ b;" ++ nl; "c \" ++ nl; "d;" ++ nl; "#if 0" ++ nl; "z;" ++ nl; "#endif" ++ nl;
         "#define K 1" ++ nl; "#include ""i.h""" ++ nl; "e K;" ++ nl] with
  | POk p => rev (p_map p) =
             [("m.c", 1%N, None); ("m.c", 3%N, None); ("m.c", 5%N, None);
              ("i.h", 1%N, Some ("m.c", 10%N)); ("i.h", 3%N, Some ("m.c", 10%N)); ("m.c", 11%N, None)]
             /\ p_out p = "a;" ++ nl ++ " b;" ++ nl ++ "c d;" ++ nl ++ "x;" ++ nl ++ " y;" ++ nl ++ "e 1;" ++ nl
  | PErr _ => False
  end.
Proof. vm_compute. split; reflexivity. Qed.

From Coq Require Import Sorting.Sorted.
From CC Require Import Model.LineMapSpec Proofs.LineMapFacts.

(** exactly one table entry per output line, for every run whose MAIN file ends with a newline
    (included files are closed by the preprocessor itself since the repair; the remaining
    hypotheses each have a refuting Example in Proofs/LineMapFacts.v) *)
Theorem C06_one_entry_per_line : forall fs fname defs lines p
  (Hdefs : macros_single_line defs)
  (Hsingle : inputs_single_line lines fs)
  (Hterm : physical_lines_terminated lines fs)
  (Hmain : file_closed lines)
  (Hrun : run_cpp fs fname defs lines = POk p),
  entries_match_lines p /\
  complete (p_out p) = true /\ List.length (p_map p) = count_nl (p_out p).
Proof. exact one_entry_per_line. Qed.

(** every entry names a real physical line of the file it belongs to and carries the chain of
    include sites *)
Theorem C06_entries_have_origin : forall fs fname defs lines p
  (Hrun : run_cpp fs fname defs lines = POk p),
  Forall (origin fs fname None lines) (rev (p_map p)).
Proof. exact entries_have_origin. Qed.

(** the compiler's offset->line translation followed by the table lookup lands on an entry of the
    right output line, which has a true origin *)
Theorem C06_lookup_finds_an_origin : forall fs fname defs lines p
  (Hdefs : macros_single_line defs)
  (Hsingle : inputs_single_line lines fs)
  (Hterm : physical_lines_terminated lines fs)
  (Hmain : file_closed lines)
  (Hrun : run_cpp fs fname defs lines = POk p),
  exists ls,
    p_out p = String.concat "" ls /\ Forall full_line ls /\
    List.length ls = List.length (p_map p) /\
    forall k l off,
      nth_error ls k = Some l -> 1 <= off <= String.length l - 1 ->
      offset_to_line (p_out p) (String.length (String.concat "" (firstn k ls)) + off) = k /\
      exists e, nth_error (rev (p_map p)) k = Some e /\ origin fs fname None lines e.
Proof. exact lookup_finds_an_origin. Qed.

(** without includes, line numbers strictly increase along the table *)
Theorem C06_entries_increasing : forall fname defs lines p
  (Hrun : run_cpp [] fname defs lines = POk p),
  StronglySorted N.lt (map loc_line (rev (p_map p))).
Proof. exact entries_increasing. Qed.

(** a spliced logical line is numbered by its last physical line *)
Definition C06_entry_of_spliced_line := entry_of_spliced_line_in_run.
