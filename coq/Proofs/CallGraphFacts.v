(** Facts about the depth-first marking of [Model/CallGraph.v]:
    the published in-use set is exactly reachability, and it has no duplicates. *)
From Coq Require Import String List Bool Arith Lia.
From CC Require Import Model.CallGraph.
Import ListNotations.

(** * [mem] is list membership *)

Lemma mem_In : forall (f : string) (l : list string), mem f l = true <-> In f l.
Proof.
  intros f l. unfold mem. rewrite existsb_exists. split.
  - intros [x [Hin Heq]]. apply String.eqb_eq in Heq. subst x. exact Hin.
  - intros Hin. exists f. split; [exact Hin | apply String.eqb_refl].
Qed.

Lemma mem_false : forall (f : string) (l : list string), mem f l = false <-> ~ In f l.
Proof.
  intros f l. rewrite <- mem_In. destruct (mem f l); intuition congruence.
Qed.

Lemma mem_cons : forall (a f : string) (seen : list string),
  mem a (f :: seen) = (String.eqb a f || mem a seen)%bool.
Proof. intros a f seen. reflexivity. Qed.

(** * Soundness: everything marked satisfies any predicate closed under [children]
      that holds of the start node and of the already-marked nodes.  No fuel condition. *)

Section Sound.
  Variable t : tree.
  Variable P : string -> Prop.
  Hypothesis P_step : forall x g, P x -> In g (children t x) -> P g.

  Lemma fold_sound : forall (k : nat)
      (IH : forall f seen, P f -> (forall x, In x seen -> P x) ->
                           forall x, In x (visit k t f seen) -> P x)
      (gs acc : list string),
      (forall g, In g gs -> P g) -> (forall y, In y acc -> P y) ->
      forall y, In y (fold_left (fun acc g => visit k t g acc) gs acc) -> P y.
  Proof.
    intros k IH gs. induction gs as [|g gs IHgs]; intros acc Hgs Hacc y Hy; simpl in Hy.
    - apply Hacc. exact Hy.
    - apply IHgs with (acc := visit k t g acc).
      + intros g' Hg'. apply Hgs. right. exact Hg'.
      + intros z Hz. apply IH with (f := g) (seen := acc).
        * apply Hgs. left. reflexivity.
        * exact Hacc.
        * exact Hz.
      + exact Hy.
  Qed.

  Lemma visit_sound : forall (k : nat) (f : string) (seen : list string),
      P f -> (forall x, In x seen -> P x) ->
      forall x, In x (visit k t f seen) -> P x.
  Proof.
    induction k as [|k IHk]; intros f seen Hf Hseen x Hx; simpl in Hx.
    - apply Hseen. exact Hx.
    - destruct (mem f seen) eqn:Hm.
      + apply Hseen. exact Hx.
      + apply (fold_sound k IHk (children t f) (f :: seen)).
        * intros g Hg. apply P_step with (x := f); assumption.
        * intros y [Hy|Hy]; [subst y; exact Hf | apply Hseen; exact Hy].
        * exact Hx.
  Qed.
End Sound.

(** * NoDup is preserved *)

Lemma fold_nodup : forall (t : tree) (k : nat)
    (IH : forall f seen, NoDup seen -> NoDup (visit k t f seen))
    (gs acc : list string),
    NoDup acc -> NoDup (fold_left (fun acc g => visit k t g acc) gs acc).
Proof.
  intros t k IH gs. induction gs as [|g gs IHgs]; intros acc Hacc; simpl.
  - exact Hacc.
  - apply IHgs. apply IH. exact Hacc.
Qed.

Lemma visit_nodup : forall (t : tree) (k : nat) (f : string) (seen : list string),
    NoDup seen -> NoDup (visit k t f seen).
Proof.
  intros t. induction k as [|k IHk]; intros f seen Hnd; simpl.
  - exact Hnd.
  - destruct (mem f seen) eqn:Hm.
    + exact Hnd.
    + apply (fold_nodup t k IHk). constructor.
      * apply mem_false. exact Hm.
      * exact Hnd.
Qed.

(** * The fuel measure: number of occurrences in the universe [U] of names not yet marked *)

Definition unseen (U seen : list string) : nat :=
  length (filter (fun x => negb (mem x seen)) U).

Lemma unseen_le_length : forall U seen, unseen U seen <= length U.
Proof.
  intros U seen. unfold unseen. induction U as [|a U IHU]; simpl.
  - lia.
  - destruct (negb (mem a seen)); simpl; lia.
Qed.

Lemma unseen_mono : forall U s1 s2, incl s1 s2 -> unseen U s2 <= unseen U s1.
Proof.
  intros U s1 s2 Hincl. unfold unseen. induction U as [|a U IHU]; simpl.
  - lia.
  - destruct (mem a s1) eqn:H1.
    + assert (H2 : mem a s2 = true).
      { apply mem_In. apply Hincl. apply mem_In. exact H1. }
      rewrite H2. simpl. exact IHU.
    + destruct (mem a s2); simpl; lia.
Qed.

Lemma unseen_cons_U : forall a U seen,
    unseen (a :: U) seen = if mem a seen then unseen U seen else S (unseen U seen).
Proof.
  intros a U seen. unfold unseen. cbn [filter]. destruct (mem a seen); reflexivity.
Qed.

Lemma unseen_cons_lt : forall U f seen,
    In f U -> ~ In f seen -> unseen U (f :: seen) < unseen U seen.
Proof.
  intros U f seen HfU Hnf. induction U as [|a U IHU].
  - destruct HfU.
  - rewrite !unseen_cons_U. rewrite mem_cons.
    destruct (string_dec a f) as [Heq|Hne].
    + subst a. rewrite String.eqb_refl. cbn [orb].
      assert (Hm : mem f seen = false) by (apply mem_false; exact Hnf).
      rewrite Hm.
      assert (Hle : unseen U (f :: seen) <= unseen U seen).
      { apply unseen_mono. intros x Hx. right. exact Hx. }
      lia.
    + assert (Hb : String.eqb a f = false) by (apply String.eqb_neq; exact Hne).
      rewrite Hb. cbn [orb].
      assert (HfU' : In f U).
      { destruct HfU as [E|E]; [congruence | exact E]. }
      specialize (IHU HfU').
      destruct (mem a seen); lia.
Qed.

(** * Completeness of [visit] with enough fuel *)

Section Complete.
  Variable t : tree.
  Variable U : list string.
  Hypothesis U_closed : forall x g, In g (children t x) -> In g U.

  (** every node of [R] that was not already in [seen] has all its children in [R] *)
  Definition newclosed (seen R : list string) : Prop :=
    forall x, In x R -> ~ In x seen -> forall g, In g (children t x) -> In g R.

  Lemma fold_complete : forall (k : nat)
      (IH : forall f seen, In f U -> unseen U seen < k ->
              incl seen (visit k t f seen) /\ In f (visit k t f seen) /\
              newclosed seen (visit k t f seen))
      (gs acc : list string),
      (forall g, In g gs -> In g U) -> unseen U acc < k ->
      incl acc (fold_left (fun acc g => visit k t g acc) gs acc) /\
      (forall g, In g gs -> In g (fold_left (fun acc g => visit k t g acc) gs acc)) /\
      newclosed acc (fold_left (fun acc g => visit k t g acc) gs acc).
  Proof.
    intros k IH gs. induction gs as [|a gs IHgs]; intros acc Hgs Hfuel; simpl.
    - split; [apply incl_refl|]. split.
      + intros g Hg. destruct Hg.
      + intros x Hx Hnx. contradiction.
    - destruct (IH a acc) as (I1 & I2 & I3).
      { apply Hgs. left. reflexivity. }
      { exact Hfuel. }
      destruct (IHgs (visit k t a acc)) as (J1 & J2 & J3).
      { intros g Hg. apply Hgs. right. exact Hg. }
      { pose proof (unseen_mono U acc (visit k t a acc) I1) as Hm. lia. }
      split.
      { eapply incl_tran; eassumption. }
      split.
      { intros g [Hg|Hg].
        - subst g. apply J1. exact I2.
        - apply J2. exact Hg. }
      intros x Hx Hnx g Hg.
      destruct (in_dec string_dec x (visit k t a acc)) as [Hin|Hnin].
      + apply J1. apply (I3 x Hin Hnx g Hg).
      + apply (J3 x Hx Hnin g Hg).
  Qed.

  Lemma visit_complete : forall (k : nat) (f : string) (seen : list string),
      In f U -> unseen U seen < k ->
      incl seen (visit k t f seen) /\ In f (visit k t f seen) /\
      newclosed seen (visit k t f seen).
  Proof.
    induction k as [|k IHk]; intros f seen HfU Hfuel.
    - lia.
    - simpl. destruct (mem f seen) eqn:Hm.
      + split; [apply incl_refl|]. split.
        * apply mem_In. exact Hm.
        * intros x Hx Hnx. contradiction.
      + apply mem_false in Hm.
        destruct (fold_complete k IHk (children t f) (f :: seen)) as (J1 & J2 & J3).
        { intros g Hg. apply U_closed with (x := f). exact Hg. }
        { pose proof (unseen_cons_lt U f seen HfU Hm) as Hlt. lia. }
        split.
        { intros x Hx. apply J1. right. exact Hx. }
        split.
        { apply J1. left. reflexivity. }
        intros x Hx Hnx g Hg.
        destruct (string_dec x f) as [Heq|Hne].
        * subst x. apply J2. exact Hg.
        * apply (J3 x Hx).
          { intros [E|E]; [apply Hne; symmetry; exact E | apply Hnx; exact E]. }
          exact Hg.
  Qed.
End Complete.

(** * The universe of [in_use] *)

Lemma children_in_names : forall (t : tree) (x g : string),
    In g (children t x) -> In g (names t).
Proof.
  induction t as [|[h cs] t IHt]; intros x g Hg; simpl in Hg.
  - destruct Hg.
  - unfold names. simpl. fold (names t).
    destruct (String.eqb x h).
    + right. apply in_or_app. left. exact Hg.
    + right. apply in_or_app. right. apply IHt with (x := x). exact Hg.
Qed.

(** * Main theorems *)

(* soundness and completeness of the depth-first marking: the published in-use set is exactly the
   set of functions reachable from the roots through the call tree, for every finite tree (cycles,
   self-calls, names missing from the tree, duplicates included) *)
Theorem in_use_is_reachability : forall (t : tree) (roots : list string) (f : string),
  In f (in_use t roots) <-> reach t roots f.
Proof.
  intros t roots f. unfold in_use.
  set (K := S (length (names t) + length roots)).
  split.
  - (* soundness *)
    intros Hin.
    apply (fold_sound t (reach t roots) K
             (visit_sound t (reach t roots) (reach_step t roots) K) roots []).
    + intros g Hg. apply reach_root. exact Hg.
    + intros y Hy. destruct Hy.
    + exact Hin.
  - (* completeness *)
    intros Hreach.
    set (U := names t ++ roots).
    assert (U_closed : forall x g, In g (children t x) -> In g U).
    { intros x g Hg. apply in_or_app. left. apply children_in_names with (x := x). exact Hg. }
    destruct (fold_complete t U K (visit_complete t U U_closed K) roots []) as (J1 & J2 & J3).
    { intros g Hg. apply in_or_app. right. exact Hg. }
    { pose proof (unseen_le_length U []) as Hle. unfold U in Hle. rewrite app_length in Hle.
      unfold K. fold U in Hle. lia. }
    induction Hreach as [r Hr | x g Hx IHx Hg].
    + apply J2. exact Hr.
    + apply (J3 x IHx (fun H => H) g Hg).
Qed.
Print Assumptions in_use_is_reachability.

(* the marking never lists a function twice *)
Theorem in_use_nodup : forall t roots, NoDup (in_use t roots).
Proof.
  intros t roots. unfold in_use.
  apply (fold_nodup t (S (length (names t) + length roots))
           (visit_nodup t (S (length (names t) + length roots)))).
  constructor.
Qed.
Print Assumptions in_use_nodup.
