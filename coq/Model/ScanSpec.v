(** Specification-side vocabulary for the scanner facts (C09, C11): occurrences of a pattern,
    marker-free text, well-formed literal bodies. *)
From Coq Require Import String Ascii List Bool Arith NArith.
From CC Require Import Base.Str Model.Cpp Model.StrLit.
Import ListNotations.
Open Scope string_scope.

(** [no_start pat a rest]: in the text [a ++ rest] the pattern [pat] does not start at any of the
    positions [0 .. length a - 1] (it may straddle the border between [a] and [rest]: this is
    what the test looks at) *)
Fixpoint no_start (pat a rest : string) : bool :=
  match a with
  | EmptyString => true
  | String c a' => negb (starts_with pat (String c a' ++ rest)) && no_start pat a' rest
  end.

(** code text free of scanner markers: no double quote, no "//", no "/*", not an #include line *)
Definition no_markers (pre : string) : Prop :=
  contains """" pre = false /\ contains "//" pre = false /\ contains "/*" pre = false
  /\ starts_with "#include" pre = false.

(** a literal body in which a backslash always takes the next character with it, no quote stands
    unescaped and no backslash is left alone at the end.  Weaker than [c_decode s <> None]: the
    escape character is not constrained (octal, hex ... escapes are allowed). *)
Fixpoint pair_wf (s : string) : bool :=
  match s with
  | EmptyString => true
  | String a r =>
      if Ascii.eqb a "\" then
        match r with String _ r' => pair_wf r' | EmptyString => false end
      else if Ascii.eqb a """" then false
      else pair_wf r
  end.

(** backslash backslash quote *)
Definition bs_bs_quote : string := "\\""".

(** the bodies whose closing quote [find_close] finds: pair-wise well formed, and no quote is
    preceded by two backslashes (an escaped backslash followed by an escaped quote) *)
Definition scannableb (body : string) : bool :=
  pair_wf body && negb (contains bs_bs_quote body).

Definition scannable (body : string) : Prop :=
  pair_wf body = true /\ contains bs_bs_quote body = false.

(** what the scanner hands to the line processor, whichever way the scan of the line ended: the
    uncommented text, the flag [insert_it], the new scanner state.  (When the scan ended at an
    unterminated string literal the line processor uses them only if the conditional state is
    not Active; it raises the error otherwise.) *)
Definition scan_parts (r : scan_res) : string * bool * scan_state :=
  match r with
  | ScanOk out ins st => (out, ins, st)
  | ScanUnterminated out ins st => (out, ins, st)
  end.
