"""C11 — comments, layout and listing options never affect behaviour.

proof   : Props/C11.v on Model/Cpp.v: a // comment is dropped up to the end of its line whatever it
          contains; a block comment (without "//" in its body: see the known finding) is removed
          up to its first */; splices join lines; the optimiser never changes or moves comment lines
          (they are not instructions) and treats them as transparent separators
corr-M  : cpp::process vs the extracted model on comment/layout-heavy inputs
corr-S  : metamorphic: every generated program is re-written with comments (containing quotes, /*,
          directives, URLs), blank lines, tabs, CR-LF and splices between tokens; both versions must
          give the same declarations and the same instructions; with --insert-code / -W the -O0
          instructions must be identical and the optimised code must behave identically
          (co-execution)
"""
import re
from lib.common import *
from lib.cppcorr import *
from lib.gen_c import gen_program
from lib.pipeline import *
from lib.coexec import observable

LEVEL = 'proof'
TOKEN_RE = re.compile(r'"(?:\\.|[^"\\\n])*"|\'(?:\\.|[^\'\\\n])*\'|[A-Za-z_][A-Za-z_0-9]*|0x[0-9a-fA-F]+|\d+|<<=|>>=|\+\+|--|<<|>>|<=|>=|==|!=|&&|\|\||[-+*/&|^]=|\S')


def theorems():
    p = os.path.join(COQ, 'Props', 'C11.v')
    return re.findall(r'^Theorem (\w+)', open(p).read(), re.M) if os.path.exists(p) else []


def decorate(rng, src, allow_slashes_in_block=True):
    """same token sequence, different comments and layout"""
    out = []
    for line in src.split('\n'):
        toks = TOKEN_RE.findall(line)
        if line.strip().startswith('#'):
            # directives stay on their own line; the blank after the directive name may be a TAB or several
            # blanks, and the line may be indented
            k = rng.random()
            if k < 0.25 and ' ' in line.strip():
                head, rest = line.strip().split(' ', 1)
                line = rng.choice(['', '  ', '\t']) + head + rng.choice(['\t', '  ', ' \t ']) + rest
            if rng.random() < 0.2:
                # '#' and the directive name are two tokens: blanks may separate them
                i_ = line.index('#')
                line = line[:i_] + '#' + rng.choice([' ', '  ', '\t', ' \t']) + line[i_ + 1:]
            out.append(line)
            continue
        buf = []
        prev = None
        for t in toks:
            k = rng.random()
            # a comment glued to its neighbours (no blank on either side) where deleting it cannot
            # merge two tokens: next to ; , ( ) { } [ ] or a string / character literal
            safe = prev is not None and (prev[-1] in ';,(){}[]"\'' or t[0] in ';,(){}[]"\'')
            if safe and k < 0.06:
                g = rng.choice(['/*c*/', '/* c */\n', '//c\n', '/* c\n d */', '/**/', '//\n'])
                buf.append(g)
                buf.append(t)
                prev = t
                continue
            # no blank at all where the two tokens cannot merge: next to ; , ( ) { } [ ], or a * against a name
            glue_ok = prev is not None and (prev[-1] in ';,(){}[]' or t[0] in ';,(){}[]'
                                            or ((prev[-1].isalnum() or prev[-1] == '_') and t == '*')
                                            or (prev == '*' and (t[0].isalpha() or t[0] == '_')))
            if glue_ok and k > 0.88:
                buf.append(t)
                prev = t
                continue
            if k < 0.08:
                body = ''.join(rng.choice(['x', ' ', '"', "'", '/*', '#define A 1', 'a = 1;', '*', 'char q;'] +
                                          (['http://x.org', '//'] if allow_slashes_in_block else []))
                               for _ in range(rng.randrange(0, 5)))
                while '*/' in body:
                    body = body.replace('*/', '')
                buf.append(' /*' + body + '*/ ')
            elif k < 0.12:
                buf.append(' /* line one\n   line two " \' */ ')
            elif k < 0.18:
                buf.append('\t')
            elif k < 0.22:
                buf.append('\n\n')
            elif k < 0.26:
                buf.append(' \\\n' * rng.choice([1, 1, 2, 3]))
            elif k < 0.29:
                buf.append(' // trailing "comment" /* not a block\n')
            else:
                buf.append(' ')
            buf.append(t)
            prev = t
        out.append(''.join(buf) + (' // end' if rng.random() < 0.1 else ''))
    text = '\n'.join(out)
    k_ = rng.random()
    if k_ < 0.2:
        text = text.replace('\n', '\r\n')
    elif k_ < 0.45:
        # a file edited on two systems: some of its lines (spliced ones included) end in CR-LF
        text = re.sub(r'\n', lambda mo: '\r\n' if rng.random() < 0.4 else '\n', text)
    return text


WITNESS = {
    'url_in_block_comment': ('char a; char b;\nvoid main() { a = 1; b = 2; }\n',
                             '/* see http://x.org */ char a; char b;\nvoid main() { a = 1; b = 2; }\n'),
}


def strip_cmt(lines):
    return [l for l in lines if l[0] != 'C']


def run(ctx):
    quick = ctx.tier == 'quick'
    rng = ctx.rng
    th = theorems()
    if th:
        ctx.proof_stage('Props.C11', th)
    # corr-M on comment-heavy preprocessor inputs
    n_gen = 2000 if quick else 40000
    cases = [gen_case(rng, 'g%d' % i) for i in range(n_gen)]
    n, mism, impl, model = compare(cases)
    ctx.cov['evaluations'] = n
    ctx.cov['correspondence']['corr-M cpp::process'] = {'cases': n, 'mismatches': len(mism)}
    # metamorphic
    n_prog = 300 if quick else 6000
    srcs = {}
    for i in range(n_prog):
        p = gen_program(rng, dict(hw=(i % 3 == 0), inline=(i % 4 == 0), bait=(i % 2 == 0)))
        s = p.source()
        if i % 3 == 1:
            # the two-word spelling of the 16-bit type: the gap between the words is layout too
            s = re.sub(r'\bshort (?!int)', 'short int ', s)
        if i % 2 == 0:
            # literals among the decorated tokens (their content is C09's business; here: a comment
            # next to a literal must not disturb the line)
            s = 'const char lit0[] = "ab";\nconst char *lt[2] = {"c", "d//e"};\n' + s
        srcs['p%d' % i] = {'plain': s, 'deco': decorate(rng, s), 'deco2': decorate(rng, s)}
    # the fixed enumeration of the bait families (tools/lib/gen_c.py): comments / the listing option must not matter there either
    from lib.gen_c import directed_programs
    lfirst = {}
    for k, p_ in directed_programs().items():
        s_ = p_.source()
        lfirst['d' + k] = {'plain': s_, 'deco': decorate(rng, s_), 'deco2': decorate(rng, s_)}
    srcs = dict(list(lfirst.items()) + list(srcs.items())) if not quick else dict(list(lfirst.items())[::3] + list(srcs.items()))
    for k, (a, b) in WITNESS.items():
        srcs[k] = {'plain': a, 'deco': b, 'deco2': b}
    viol = []
    pairs = 0
    variants = {'plain': ['-O1'], 'deco': ['-O1'], 'deco2': ['-O1', '-W', 'all']}
    comp = compile_variants(srcs, variants)
    listing = {}
    for pid, vs in comp.items():
        a = vs['plain']
        for vn in ('deco', 'deco2'):
            b = vs[vn]
            pairs += 1
            if a['status'] != b['status']:
                viol.append({'id': pid, 'why': 'acceptance changes with comments/layout: %s vs %s %s' % (a['status'], b['status'], b.get('err')),
                             'plain': srcs[pid]['plain'], 'decorated': srcs[pid][vn]})
                break
            if a['status'] != 'ok':
                continue
            va = [(v['name'], v['type'], v['size'], v['memory'], v['def']) for v in a['vars']]
            vb = [(v['name'], v['type'], v['size'], v['memory'], v['def']) for v in b['vars']]
            if va != vb:
                viol.append({'id': pid, 'why': 'declarations differ', 'plain': srcs[pid]['plain'], 'decorated': srcs[pid][vn]})
                break
            fa = {f['name']: f.get('final') for f in a['funcs']}
            fb = {f['name']: f.get('final') for f in b['funcs']}
            if fa != fb:
                viol.append({'id': pid, 'why': 'emitted instructions differ', 'plain': srcs[pid]['plain'], 'decorated': srcs[pid][vn]})
                break
    # listing options: --insert-code on/off
    lsrcs = {pid: v['deco'] for pid, v in list(srcs.items())[:(300 if quick else 4000)] if pid not in WITNESS}
    lcomp = compile_variants(lsrcs, {'O0': ['-O0'], 'O0i': ['-O0', '--insert-code'], 'O1': ['-O1'], 'O1i': ['-O1', '--insert-code', '-W', 'all']})
    ok = {}
    for pid, vs in lcomp.items():
        sts = set(r['status'] for r in vs.values())
        if sts == {'ok'}:
            f0 = {f['name']: strip_cmt(f.get('final') or []) for f in vs['O0']['funcs']}
            f0i = {f['name']: strip_cmt(f.get('final') or []) for f in vs['O0i']['funcs']}
            pairs += 1
            if f0 != f0i:
                viol.append({'id': pid, 'why': '--insert-code changes the unoptimised instructions', 'decorated': lsrcs[pid]})
            ok[pid] = {'O1': vs['O1'], 'O1i': vs['O1i']}
        elif len(sts) > 1:
            if not any(r['status'] == 'panic' for r in vs.values()):
                viol.append({'id': pid, 'why': 'acceptance depends on --insert-code / -W: %s' % {k: r['status'] for k, r in vs.items()},
                             'decorated': lsrcs[pid]})
            else:
                viol.append({'id': pid, 'why': 'crash with listing options: %s' % {k: (r['status'], r.get('msg')) for k, r in vs.items()},
                             'decorated': lsrcs[pid]})
    ce = coexec(ok, 8 if quick else 24, rng)
    nexec = 0
    for pid, m in ce.items():
        for k in range(len(m['states'])):
            a, b = m['runs']['O1'].get(k), m['runs']['O1i'].get(k)
            nexec += 1
            if a is None or b is None or observable(a) != observable(b):
                viol.append({'id': pid, 'why': '--insert-code changes the behaviour of the optimised code', 'decorated': lsrcs[pid]})
                break
    ctx.cov['programs'] = len(srcs)
    ctx.cov['distinct_nontrivial'] = pairs
    ctx.cov['traces_validated_against_impl'] = nexec
    ctx.cov['correspondence']['corr-S metamorphic'] = {'program_pairs': pairs, 'executions_compared': nexec, 'violations': len(viol)}
    ctx.sample({'decorated': list(srcs.values())[0]['deco'][:700]})
    known = {f.get('witness'): f for f in ctx.findings if f.get('status') == 'open'}
    reported = 0
    for v in viol:
        f = known.get(v['id'])
        if f:
            ctx.known_finding(f['id'], f['text'])
            continue
        if reported < 3:
            ctx.violation('layout', v)
            reported += 1
    if mism and not reported:
        ctx.violation_noinput('Model/Cpp.v no longer matches cpp::process on %d of %d inputs; first: %s'
                              % (len(mism), n, json.dumps(mism[0])[:2000]), 'corr-M:cpp')
    ctx.cov['rule'] = ('generated programs re-written with block comments (quotes, /*, directive text, multi-line), // comments, tabs, '
                       'blank lines, CR-LF and backslash-newline splices between any two tokens; declarations and final instruction '
                       'lists must be identical; --insert-code / -W all: identical -O0 instructions, co-executed -O1 code')
    ctx.cov['trusted_base'] = ['Coq 8.16.1 kernel', 'extraction of Model/Cpp.v, M6502/Sem.v', 'hook cpp_process', 'harness ccv']
    ctx.assumptions = []
