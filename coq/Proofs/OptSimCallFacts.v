(** GLOBAL simulation theorems on whole PROGRAMS, with calls and returns (C02, C03).

    One function body.  [grun Or] (Model/OptSimCall.v) executes a body in which [JSR f] is a step
    answered by an oracle [Or] and [RTS] ends the body.  The development of
    Proofs/OptSimCFFacts.v is redone on it, for every oracle that respects equality of states and
    byte-valuedness ([oracle_ok]): the window theorem ([window]: the run may cross the window any
    number of times and make any calls outside it), the knowledge invariant, every branch of
    [step_pair].  A JSR is a barrier exactly like a label: the optimiser forgets everything at a
    JSR, so the knowledge after it is the empty knowledge, sound whatever the callee did; blocks
    ([cblk]) and windows stop at calls, and no rewriting touches a JSR.  An RTS ends a block
    ([GRet]).  Result: [optimize_call_equiv].  The long-branch repair is redone likewise
    ([gwindow_gen], [check_branches_call_sound]: same state, any oracle).

    Whole programs.  [call cfg P K d] (Model/OptSimCall.v) is the effect of a JSR at call depth [d]:
    the two marker bytes pushed, the callee's body run under the oracle [call cfg P K' (S d)], the
    markers checked and pulled, as in [Sem.run]; [phalts]: main ends.  [prog_sim]: a per-function
    transformation that is sound for every good oracle is sound on whole programs, by induction
    on the nesting bound (a body of the transformed program runs under the oracle of the
    transformed program: [grun_refine]).  Adequacy: [phalts] is [Sem.run_function] with its
    explicit stack of frames, in both directions ([phalts_run_halts], [run_halts_phalts]:
    [body_runs] / [call_runs_all], [halt_body]).  Theorems, each on [phalts] and on
    [Sem.run_function] ([run_halts]):
      [optimize_program_sound] / [optimize_program_run]            every function optimised
      [check_branches_program_sound] / [check_branches_program_run]  every function repaired
      [pipeline_program_sound] / [pipeline_program_run]            optimised, then repaired (-O1)
    Calls may nest to any depth and be recursive. *)
From Coq Require Import String Ascii List Bool NArith ZArith Lia Arith.
From CC Require Import Base.Str Asm.Lines M6502.Isa Asm.Operand M6502.Sem
     Model.Optimize Model.OptSpec Model.OptSem Model.OptSim Model.OptSimCF Model.CheckBranches
     Model.CbSpec Model.CbSim Model.OptSimCall Proofs.OptSemFacts Proofs.OptSimFacts Proofs.CbFacts.
From CC Require Proofs.OptFacts Proofs.GenTemplatesFacts Proofs.OptSimCFFacts.
Import ListNotations.
Open Scope Z_scope.
Open Scope list_scope.

#[local] Opaque mget mset byte.
#[local] Arguments mget : simpl never.
#[local] Arguments mset : simpl never.
#[local] Arguments byte : simpl never.

(** * Labels and positions *)

(** no label, no inline assembly, no call *)
Definition wline (x : line) : bool :=
  match x with
  | Ins i => negb (mnem_eqb (i_mn i) JSR)
  | Cmt _ | Dummy => true
  | _ => false
  end.
Definition nobarc (w : code) : bool := forallb wline w.

Lemma nobarc_cons (x : line) (w : code) :
  nobarc (x :: w) = true -> wline x = true /\ nobarc w = true.
Proof. unfold nobarc. cbn [forallb]. intros H. apply andb_true_iff in H. exact H. Qed.

Lemma nobarc_app (a b : code) : nobarc (a ++ b) = nobarc a && nobarc b.
Proof. unfold nobarc. apply forallb_app. Qed.

Lemma find_lbl_nobar (l : string) (w : code) : nobarc w = true -> find_lbl l w = None.
Proof.
  induction w as [|x w IH]; intros H; [reflexivity|].
  apply nobarc_cons in H. destruct H as [H1 H2].
  destruct x; try discriminate H1; cbn [find_lbl]; rewrite (IH H2); reflexivity.
Qed.

Lemma find_lbl_app (l : string) (a b : code) :
  find_lbl l (a ++ b) =
  match find_lbl l a with
  | Some k => Some k
  | None => option_map (fun k => (length a + k)%nat) (find_lbl l b)
  end.
Proof.
  induction a as [|x a IH]; cbn [app length].
  - cbn [find_lbl]. destruct (find_lbl l b); reflexivity.
  - destruct x as [y|i|t sz|cm|]; cbn [find_lbl]; try destruct (String.eqb y l); try reflexivity;
      rewrite IH; destruct (find_lbl l a); cbn [option_map]; try reflexivity;
      destruct (find_lbl l b); reflexivity.
Qed.

Lemma find_lbl_window (l : string) (L W W' R : code) :
  nobarc W = true -> nobarc W' = true -> length W = length W' ->
  find_lbl l (L ++ W ++ R) = find_lbl l (L ++ W' ++ R).
Proof.
  intros N N' E. rewrite !find_lbl_app, (find_lbl_nobar l W N), (find_lbl_nobar l W' N'), E.
  reflexivity.
Qed.

Lemma find_lbl_nth (l : string) (c : code) : forall k,
  find_lbl l c = Some k -> nth_error c k = Some (Lbl l).
Proof.
  induction c as [|x c IH]; intros k H; [discriminate H|].
  assert (G : option_map S (find_lbl l c) = Some k -> nth_error (x :: c) k = Some (Lbl l)).
  { destruct (find_lbl l c) as [j|]; [|discriminate]. intros E. inversion E; subst. apply IH. reflexivity. }
  destruct x as [y|i|t sz|cm|]; cbn [find_lbl] in H; try (apply G; exact H).
  destruct (String.eqb_spec y l) as [->|NE]; [inversion H; reflexivity|apply G; exact H].
Qed.

Lemma nth_error_window_in (L W R : code) (k : nat) :
  (length L <= k < length L + length W)%nat ->
  nth_error (L ++ W ++ R) k = nth_error W (k - length L).
Proof.
  intros H. rewrite nth_error_app2 by lia. rewrite nth_error_app1 by lia. reflexivity.
Qed.

Lemma nth_error_window_out (L W W' R : code) (k : nat) :
  length W = length W' -> (k < length L \/ length L + length W <= k)%nat ->
  nth_error (L ++ W ++ R) k = nth_error (L ++ W' ++ R) k.
Proof.
  intros E [H|H].
  - rewrite !nth_error_app1 by lia. reflexivity.
  - rewrite !(nth_error_app2 L) by lia. rewrite !nth_error_app2 by lia. rewrite E. reflexivity.
Qed.

Lemma nobarc_nth (w : code) (k : nat) (l : string) : nobarc w = true -> nth_error w k <> Some (Lbl l).
Proof.
  intros N H. apply nth_error_In in H. unfold nobarc in N.
  pose proof (proj1 (forallb_forall _ w) N _ H) as X. discriminate X.
Qed.

(** a label is never inside a label-free window *)
Lemma find_lbl_outside (l : string) (L W R : code) (k : nat) :
  nobarc W = true -> find_lbl l (L ++ W ++ R) = Some k ->
  (k < length L \/ length L + length W <= k)%nat.
Proof.
  intros N H. apply find_lbl_nth in H.
  destruct (Nat.lt_ge_cases k (length L)) as [A|A]; [left; exact A|].
  destruct (Nat.lt_ge_cases k (length L + length W)) as [B|B]; [|right; exact B].
  exfalso. rewrite nth_error_window_in in H by lia. exact (nobarc_nth _ _ _ N H).
Qed.

(** * The executor *)

Section WithOracle.
  Variable Or : oracle.
  (** the oracle respects equality of states and byte-valuedness *)
  Hypothesis Or_eq : forall f s t s1, eq_state s t -> bytes_ok s -> bytes_ok t -> Or f s = Some s1 ->
    exists t1, Or f t = Some t1 /\ eq_state s1 t1.
  Hypothesis Or_bytes : forall f s s1, bytes_ok s -> Or f s = Some s1 -> bytes_ok s1.

Lemma grun_add (cfg : config) (c : code) (a b : nat) : forall pc s,
  grun Or cfg c (a + b) pc s =
  match grun Or cfg c a pc s with Some (pc1, s1) => grun Or cfg c b pc1 s1 | None => None end.
Proof.
  induction a as [|a IH]; intros pc s; [reflexivity|].
  cbn [Nat.add grun].
  destruct (nth_error c pc) as [[l|i|t sz|cm|]|]; try reflexivity; try apply IH.
  destruct (parse_operand (i_mn i) (i_op i)) as [op|]; [|reflexivity].
  destruct (exec cfg (i_mn i) op s) as [s1 k f|w]; [|reflexivity].
  destruct f as [|l|g| |]; try reflexivity; try apply IH.
  - destruct (find_lbl l c); [apply IH|reflexivity].
  - destruct (Or g s1); [apply IH|reflexivity].
Qed.

Definition gst (r : gbres) : mstate := match r with GFall s | GJump _ s | GRet s => s end.

(** where a block exit leads, the block being [W] in [L ++ W ++ R] *)
Definition gdest (c : code) (after : nat) (r : gbres) : option nat :=
  match r with
  | GFall _ => Some after
  | GJump l _ => find_lbl l c
  | GRet _ => Some (S (length c))
  end.

(** only JSR calls *)
Lemma exec_call_jsr (cfg : config) (m : mnem) (o : operand) (s s1 : mstate) (k : N) (f : string) :
  exec cfg m o s = XOk s1 k (FCall f) -> m = JSR.
Proof.
  intros H. unfold exec in H.
  destruct m;
    repeat match type of H with
           | (match ?x with _ => _ end) = _ => destruct x eqn:?
           | (let '(_, _) := ?x in _) = _ => destruct x eqn:?
           end; try discriminate H; reflexivity.
Qed.

(** a run that ends (at [e], at or past the end of the code) and enters a block at its top
    traverses it *)
Lemma grun_block_inv (cfg : config) (W : code) : forall L R n s e fin,
  nobarc W = true -> (length (L ++ W ++ R) <= e)%nat ->
  grun Or cfg (L ++ W ++ R) n (length L) s = Some (e, fin) ->
  exists r m k, gbexec cfg W s = Some r /\ (m <= n)%nat /\ (W <> [] -> (m < n)%nat) /\
                gdest (L ++ W ++ R) (length L + length W) r = Some k /\
                grun Or cfg (L ++ W ++ R) m k (gst r) = Some (e, fin).
Proof.
  induction W as [|x W IH]; intros L R n s e fin N LE H.
  - exists (GFall s), n, (length L + 0)%nat. cbn [gbexec gdest gst length].
    repeat split; try reflexivity; try lia; [congruence|]. rewrite Nat.add_0_r. exact H.
  - apply nobarc_cons in N. destruct N as [N1 N2].
    assert (EQ : L ++ (x :: W) ++ R = (L ++ [x]) ++ W ++ R) by (rewrite <- app_assoc; reflexivity).
    assert (LEN : length (L ++ [x]) = S (length L)) by (rewrite app_length; cbn; lia).
    destruct n as [|n].
    { cbn [grun] in H. inversion H as [[H1 H2]]. rewrite !app_length in LE. cbn [length] in LE. lia. }
    cbn [grun] in H. rewrite (nth_error_window_in L (x :: W) R) in H by (cbn [length]; lia).
    rewrite Nat.sub_diag in H. cbn [nth_error] in H.
    assert (REC : forall s1, grun Or cfg (L ++ (x :: W) ++ R) n (S (length L)) s1 = Some (e, fin) ->
                  exists r m k, gbexec cfg W s1 = Some r /\ (m <= n)%nat /\
                    gdest (L ++ (x :: W) ++ R) (length L + length (x :: W)) r = Some k /\
                    grun Or cfg (L ++ (x :: W) ++ R) m k (gst r) = Some (e, fin)).
    { intros s1 H1. rewrite EQ in H1, LE |- *. rewrite <- LEN in H1.
      destruct (IH (L ++ [x]) R n s1 e fin N2 LE H1) as (r & m & k & B & M1 & _ & D & C).
      exists r, m, k. split; [exact B|]. split; [exact M1|]. split; [|exact C].
      rewrite <- D. rewrite LEN. cbn [length]. destruct r; cbn [gdest]; [f_equal; lia|reflexivity|reflexivity]. }
    destruct x as [l|i|t sz|cm|]; try discriminate N1; cbn [gbexec].
    + destruct (parse_operand (i_mn i) (i_op i)) as [op|]; [|discriminate H].
      destruct (exec cfg (i_mn i) op s) as [s1 c1 f|w] eqn:X; [|discriminate H].
      destruct f as [|l|g| |]; try discriminate H.
      * destruct (REC s1 H) as (r & m & k & B & M1 & D & C).
        exists r, m, k. repeat split; try assumption; lia.
      * destruct (find_lbl l (L ++ (Ins i :: W) ++ R)) as [k|] eqn:F; [|discriminate H].
        exists (GJump l s1), n, k. cbn [gdest gst]. repeat split; try assumption; try lia; try reflexivity.
      * exfalso. apply exec_call_jsr in X. cbn [wline] in N1. rewrite X in N1. discriminate N1.
      * exists (GRet s1), n, (S (length (L ++ (Ins i :: W) ++ R))). cbn [gdest gst].
        repeat split; try assumption; try lia; try reflexivity.
    + destruct (REC s H) as (r & m & k & B & M1 & D & C).
      exists r, m, k. repeat split; try assumption; lia.
    + destruct (REC s H) as (r & m & k & B & M1 & D & C).
      exists r, m, k. repeat split; try assumption; lia.
Qed.

(** conversely a block exit is a run from the top of the block to where the exit leads *)
Lemma grun_block (cfg : config) (W : code) : forall L R s r k,
  nobarc W = true -> gbexec cfg W s = Some r ->
  gdest (L ++ W ++ R) (length L + length W) r = Some k ->
  exists j, grun Or cfg (L ++ W ++ R) j (length L) s = Some (k, gst r).
Proof.
  induction W as [|x W IH]; intros L R s r k N B D.
  - cbn [gbexec] in B. inversion B; subst r. cbn [gdest] in D. inversion D; subst k.
    exists O. cbn [grun gst length]. rewrite Nat.add_0_r. reflexivity.
  - apply nobarc_cons in N. destruct N as [N1 N2].
    assert (EQ : L ++ (x :: W) ++ R = (L ++ [x]) ++ W ++ R) by (rewrite <- app_assoc; reflexivity).
    assert (LEN : length (L ++ [x]) = S (length L)) by (rewrite app_length; cbn; lia).
    assert (REC : forall s1, gbexec cfg W s1 = Some r ->
                  exists j, grun Or cfg (L ++ (x :: W) ++ R) j (S (length L)) s1 = Some (k, gst r)).
    { intros s1 B1. rewrite EQ. rewrite <- LEN. apply (IH (L ++ [x]) R s1 r k N2 B1).
      rewrite <- EQ. rewrite <- D. rewrite LEN. cbn [length].
      destruct r; cbn [gdest]; [f_equal; lia|reflexivity|reflexivity]. }
    assert (NTH : nth_error (L ++ (x :: W) ++ R) (length L) = Some x).
    { rewrite nth_error_window_in by (cbn [length]; lia). rewrite Nat.sub_diag. reflexivity. }
    destruct x as [l|i|t sz|cm|]; try discriminate N1; cbn [gbexec] in B.
    + destruct (parse_operand (i_mn i) (i_op i)) as [op|] eqn:P; [|discriminate B].
      destruct (exec cfg (i_mn i) op s) as [s1 c1 f|w] eqn:X; [|discriminate B].
      destruct f as [|l|g| |]; try discriminate B.
      * destruct (REC s1 B) as [j C]. exists (S j). cbn [grun]. rewrite NTH, P, X. exact C.
      * inversion B; subst r. cbn [gdest] in D. exists 1%nat. cbn [grun]. rewrite NTH, P, X, D. reflexivity.
      * inversion B; subst r. cbn [gdest] in D. inversion D; subst k.
        exists 1%nat. cbn [grun]. rewrite NTH, P, X. reflexivity.
    + destruct (REC s B) as [j C]. exists (S j). cbn [grun]. rewrite NTH. exact C.
    + destruct (REC s B) as [j C]. exists (S j). cbn [grun]. rewrite NTH. exact C.
Qed.
(** * Equal states give equal behaviours *)

Lemma cfc_mnem_cases (m : mnem) :
  cfc_mnem m = true -> plain m = true \/ is_cond_branch m = true \/ m = JMP \/ m = JSR \/ m = RTS.
Proof. destruct m; intros H; try discriminate H; tauto. Qed.

Lemma exec_cf_eq (cfg : config) (m : mnem) (op : operand) (s1 s2 : mstate) :
  cfc_mnem m = true -> eq_state s1 s2 ->
  outcome_eq (exec cfg m op s1) (exec cfg m op s2).
Proof.
  intros C H. destruct (cfc_mnem_cases m C) as [P|[B|[->|[->| ->]]]].
  - apply exec_plain_eq; assumption.
  - pose proof H as ((HA & HX & HY & HS & HV & HC & HM) & HN & HZ).
    destruct m; try discriminate B; cbv beta iota zeta delta [exec];
      destruct op; cbn [outcome_eq]; try reflexivity;
      unfold branch_taken; rewrite ?HC, ?HN, ?HZ;
      match goal with |- context [if ?b then _ else _] => destruct b end;
      cbn [outcome_eq]; auto.
  - cbv beta iota zeta delta [exec]. destruct op; unfold Fault; cbn [outcome_eq]; auto.
  - cbv beta iota zeta delta [exec]. destruct op; unfold Fault; cbn [outcome_eq]; auto.
  - cbv beta iota zeta delta [exec]. cbn [outcome_eq]. auto.
Qed.

Definition gbres_eq (r r' : gbres) : Prop :=
  match r, r' with
  | GFall a, GFall b => eq_state a b
  | GJump l a, GJump l' b => l = l' /\ eq_state a b
  | GRet a, GRet b => eq_state a b
  | _, _ => False
  end.

Lemma cfc_ok_cons (cfg : config) (x : line) (c : code) :
  cfc_ok cfg (x :: c) = true -> cfc_line_ok cfg x = true /\ cfc_ok cfg c = true.
Proof. unfold cfc_ok. cbn [forallb]. intros H. apply andb_true_iff in H. exact H. Qed.

Lemma cfc_ok_app (cfg : config) (a b : code) :
  cfc_ok cfg (a ++ b) = true <-> cfc_ok cfg a = true /\ cfc_ok cfg b = true.
Proof. unfold cfc_ok. rewrite forallb_app. apply andb_true_iff. Qed.

Lemma cfc_ins_mnem (cfg : config) (i : instr) : cfc_ins_ok cfg i = true -> cfc_mnem (i_mn i) = true.
Proof.
  unfold cfc_ins_ok. intros H. apply andb_true_iff in H. destruct H as [H _].
  apply andb_true_iff in H. exact (proj1 H).
Qed.

Lemma gbexec_eq (cfg : config) (w : code) : forall s t r,
  cfc_ok cfg w = true -> eq_state s t -> gbexec cfg w s = Some r ->
  exists r', gbexec cfg w t = Some r' /\ gbres_eq r r'.
Proof.
  induction w as [|x w IH]; intros s t r OK E B.
  - cbn [gbexec] in *. inversion B; subst. exists (GFall t). split; [reflexivity|exact E].
  - apply cfc_ok_cons in OK. destruct OK as [OK1 OK2].
    destruct x as [l|i|tx sz|cm|]; cbn [gbexec] in B |- *; try discriminate B;
      try (exact (IH s t r OK2 E B)).
    destruct (parse_operand (i_mn i) (i_op i)) as [op|]; [|discriminate B].
    pose proof (exec_cf_eq cfg (i_mn i) op s t (cfc_ins_mnem cfg i OK1) E) as O.
    destruct (exec cfg (i_mn i) op s) as [s1 c1 f1|w1]; [|discriminate B].
    destruct (exec cfg (i_mn i) op t) as [t1 c2 f2|w2]; cbn [outcome_eq] in O; [|contradiction].
    destruct O as (_ & <- & O). destruct f1; try discriminate B.
    + exact (IH s1 t1 r OK2 O B).
    + inversion B; subst. exists (GJump l t1). split; [reflexivity|]. split; [reflexivity|exact O].
    + inversion B; subst. exists (GRet t1). split; [reflexivity|exact O].
Qed.

Lemma gbexec_bytes (cfg : config) (w : code) : forall s r,
  bytes_ok s -> gbexec cfg w s = Some r -> bytes_ok (gst r).
Proof.
  induction w as [|x w IH]; intros s r HB B.
  - cbn [gbexec] in B. inversion B; subst. exact HB.
  - destruct x as [l|i|tx sz|cm|]; cbn [gbexec] in B; try discriminate B; try (exact (IH s r HB B)).
    destruct (parse_operand (i_mn i) (i_op i)) as [op|]; [|discriminate B].
    destruct (exec cfg (i_mn i) op s) as [s1 c1 f1|w1] eqn:X; [|discriminate B].
    pose proof (GenTemplatesFacts.exec_bytes_ok _ _ _ _ _ _ _ X HB) as HB1.
    destruct f1; try discriminate B; [exact (IH s1 r HB1 B)| |]; inversion B; subst; exact HB1.
Qed.

(** * Replacing a label-free, call-free window by one that behaves alike *)

Section Window.
  Variables (cfg : config) (L W W' R : code).
  Hypothesis NW : nobarc W = true.
  Hypothesis NW' : nobarc W' = true.
  Hypothesis LEN : length W = length W'.
  Hypothesis OK' : cfc_ok cfg (L ++ W' ++ R) = true.

  Let c := L ++ W ++ R.
  Let c' := L ++ W' ++ R.
  Let after := (length L + length W)%nat.

  (** from every byte-valued state: same destination, equal states *)
  Hypothesis LS : forall s r k, bytes_ok s -> gbexec cfg W s = Some r -> gdest c after r = Some k ->
    exists r', gbexec cfg W' s = Some r' /\ gdest c after r' = Some k /\ eq_state (gst r') (gst r).

  Lemma len_cc' : length c' = length c.
  Proof. unfold c, c'. rewrite !app_length. lia. Qed.

  Lemma nobarc_nolbl (w : code) (l : string) : nobarc w = true -> find_lbl l w = None.
  Proof.
    induction w as [|x w IH]; intros H; [reflexivity|].
    apply nobarc_cons in H. destruct H as [H1 H2].
    destruct x; try discriminate H1; cbn [find_lbl]; rewrite (IH H2); reflexivity.
  Qed.

  Lemma find_lbl_cc' (l : string) : find_lbl l c' = find_lbl l c.
  Proof.
    unfold c, c'. rewrite !find_lbl_app, (nobarc_nolbl W l NW), (nobarc_nolbl W' l NW'), LEN.
    reflexivity.
  Qed.

  Lemma gdest_cc' (r : gbres) : gdest c' (length L + length W')%nat r = gdest c after r.
  Proof.
    unfold after. destruct r; cbn [gdest]; [rewrite LEN; reflexivity|apply find_lbl_cc'|].
    rewrite len_cc'. reflexivity.
  Qed.

  Lemma find_lbl_outside_c (l : string) (k : nat) :
    find_lbl l c = Some k -> (k < length L \/ length L + length W <= k)%nat.
  Proof.
    intros H. apply find_lbl_nth in H.
    destruct (Nat.lt_ge_cases k (length L)) as [A|A]; [left; exact A|].
    destruct (Nat.lt_ge_cases k (length L + length W)) as [B|B]; [|right; exact B].
    exfalso. unfold c in H. rewrite nth_error_window_in in H by lia.
    apply nth_error_In in H. unfold nobarc in NW.
    pose proof (proj1 (forallb_forall _ W) NW _ H) as X. discriminate X.
  Qed.

  Lemma window_sim (WNE : W <> []) : forall n pc s t e fin,
    grun Or cfg c n pc s = Some (e, fin) -> (length c <= e)%nat ->
    (pc <= length L \/ after <= pc)%nat -> eq_state s t -> bytes_ok s -> bytes_ok t ->
    exists n' fin', grun Or cfg c' n' pc t = Some (e, fin') /\ eq_state fin fin'.
  Proof.
    induction n as [n IHn] using lt_wf_ind. intros pc s t e fin H LE OUT E HBs HBt.
    destruct (Nat.eq_dec pc (length L)) as [->|NE].
    - (* at the top of the window *)
      destruct (grun_block_inv cfg W L R n s e fin NW LE H) as (r & m & k & B & M1 & M2 & D & C).
      specialize (M2 WNE).
      destruct (LS s r k HBs B D) as (r1 & B1 & D1 & E1).
      assert (OKW' : cfc_ok cfg W' = true).
      { apply cfc_ok_app in OK'. destruct OK' as [_ X]. apply cfc_ok_app in X. exact (proj1 X). }
      destruct (gbexec_eq cfg W' s t r1 OKW' E B1) as (r2 & B2 & E2).
      assert (D2 : gdest c' (length L + length W')%nat r2 = Some k).
      { rewrite gdest_cc'. rewrite <- D1. destruct r1, r2; cbn [gbres_eq] in E2; try contradiction;
          cbn [gdest]; try reflexivity. destruct E2 as [-> _]. reflexivity. }
      destruct (grun_block cfg W' L R t r2 k NW' B2 D2) as [j C2].
      assert (E3 : eq_state (gst r) (gst r2)).
      { apply (eq_state_trans _ (gst r1)); [apply eq_state_sym; exact E1|].
        destruct r1, r2; cbn [gbres_eq] in E2; try contradiction; cbn [gst]; tauto. }
      assert (OUTk : (k <= length L \/ after <= k)%nat).
      { destruct r as [s1|l s1|s1]; cbn [gdest] in D.
        - inversion D. right. unfold after. lia.
        - destruct (find_lbl_outside_c l k D) as [X|X]; [left; lia|right; exact X].
        - inversion D. right. unfold after, c. rewrite !app_length. lia. }
      destruct (IHn m M2 k (gst r) (gst r2) e fin C LE OUTk E3
                  (gbexec_bytes cfg W s r HBs B) (gbexec_bytes cfg W' t r2 HBt B2)) as (n' & fin' & C' & EF).
      exists (j + n')%nat, fin'. split; [|exact EF]. rewrite grun_add. unfold c' in *. rewrite C2. exact C'.
    - (* outside the window: the same line *)
      assert (OUT' : (pc < length L \/ length L + length W <= pc)%nat) by (unfold after in OUT; lia).
      destruct n as [|n].
      { cbn [grun] in H. inversion H; subst. exists O, t. split; [|exact E]. reflexivity. }
      cbn [grun] in H.
      assert (NTH : nth_error c' pc = nth_error c pc).
      { symmetry. apply nth_error_window_out; assumption. }
      assert (STEP : forall s1 t1 pc1, grun Or cfg c n pc1 s1 = Some (e, fin) ->
                (pc1 <= length L \/ after <= pc1)%nat -> eq_state s1 t1 -> bytes_ok s1 -> bytes_ok t1 ->
                (forall n', grun Or cfg c' (S n') pc t = grun Or cfg c' n' pc1 t1) ->
                exists n' fin', grun Or cfg c' n' pc t = Some (e, fin') /\ eq_state fin fin').
      { intros s1 t1 pc1 H1 O1 E1 B1 B1' HX.
        destruct (IHn n (Nat.lt_succ_diag_r n) pc1 s1 t1 e fin H1 LE O1 E1 B1 B1') as (n' & fin' & C' & EF).
        exists (S n'), fin'. split; [|exact EF]. rewrite HX. exact C'. }
      assert (SUCC : (S pc <= length L \/ after <= S pc)%nat) by (unfold after; lia).
      destruct (nth_error c pc) as [[l|i|tx sz|cm|]|] eqn:NC; try discriminate H.
      + apply (STEP s t (S pc) H SUCC E HBs HBt). intros n'. cbn [grun]. rewrite NTH. reflexivity.
      + assert (OKi : cfc_ins_ok cfg i = true).
        { pose proof NTH as NC'. apply nth_error_In in NC'.
          exact (proj1 (forallb_forall _ _) OK' _ NC'). }
        destruct (parse_operand (i_mn i) (i_op i)) as [op|] eqn:P; [|discriminate H].
        pose proof (exec_cf_eq cfg (i_mn i) op s t (cfc_ins_mnem cfg i OKi) E) as O.
        destruct (exec cfg (i_mn i) op s) as [s1 c1 f1|w1] eqn:X1; [|discriminate H].
        destruct (exec cfg (i_mn i) op t) as [t1 c2 f2|w2] eqn:X2; cbn [outcome_eq] in O; [|contradiction].
        destruct O as (_ & <- & O).
        pose proof (GenTemplatesFacts.exec_bytes_ok _ _ _ _ _ _ _ X1 HBs) as HB1.
        pose proof (GenTemplatesFacts.exec_bytes_ok _ _ _ _ _ _ _ X2 HBt) as HB2.
        destruct f1 as [|l|g| |]; try discriminate H.
        * apply (STEP s1 t1 (S pc) H SUCC O HB1 HB2). intros n'. cbn [grun]. rewrite NTH, P, X2. reflexivity.
        * destruct (find_lbl l c) as [k|] eqn:F; [|discriminate H].
          assert (OUTk : (k <= length L \/ after <= k)%nat).
          { destruct (find_lbl_outside_c l k F) as [Y|Y]; [left; lia|right; exact Y]. }
          apply (STEP s1 t1 k H OUTk O HB1 HB2).
          intros n'. cbn [grun]. rewrite NTH, P, X2, find_lbl_cc', F. reflexivity.
        * destruct (Or g s1) as [s2|] eqn:OG; [|discriminate H].
          destruct (Or_eq g s1 t1 s2 O HB1 HB2 OG) as (t2 & OG' & E2).
          apply (STEP s2 t2 (S pc) H SUCC E2 (Or_bytes g s1 s2 HB1 OG) (Or_bytes g t1 t2 HB2 OG')).
          intros n'. cbn [grun]. rewrite NTH, P, X2, OG'. reflexivity.
        * apply (STEP s1 t1 (S (length c)) H ltac:(right; unfold after, c; rewrite !app_length; lia) O HB1 HB2).
          intros n'. cbn [grun]. rewrite NTH, P, X2, len_cc'. reflexivity.
      + apply (STEP s t (S pc) H SUCC E HBs HBt). intros n'. cbn [grun]. rewrite NTH. reflexivity.
      + apply (STEP s t (S pc) H SUCC E HBs HBt). intros n'. cbn [grun]. rewrite NTH. reflexivity.
  Qed.

  Theorem window : cfc_equiv Or cfg c c'.
  Proof.
    intros s r s' HB (n & H).
    assert (EP : endpos c' r = endpos c r) by (unfold endpos; rewrite len_cc'; reflexivity).
    destruct (Nat.eq_dec (length W) 0) as [Z|NZ].
    - assert (E0 : W = []) by (apply length_zero_iff_nil; exact Z).
      assert (E1 : W' = []) by (apply length_zero_iff_nil; lia).
      exists s'. split; [|apply eq_state_refl]. exists n. unfold c, c' in *.
      rewrite E1. rewrite E0 in H. exact H.
    - assert (WNE : W <> []) by (intros E0; rewrite E0 in NZ; cbn in NZ; lia).
      destruct (window_sim WNE n 0%nat s s (endpos c r) s' H
                  ltac:(unfold endpos; destruct r; lia) ltac:(left; lia) (eq_state_refl s) HB HB)
        as (n' & fin' & C' & EF).
      exists fin'. split; [exists n'; rewrite EP; exact C'|apply eq_state_sym; exact EF].
  Qed.
End Window.
(** * Instructions of code with branches *)

Lemma cfc_plain_or_label (m : mnem) :
  cfc_mnem m = true -> takes_label m = false -> m = RTS \/ plain m = true.
Proof. destruct m; intros C T; try discriminate C; try discriminate T; tauto. Qed.

Lemma load_plain (m : mnem) : is_load m = true -> plain m = true /\ takes_label m = false.
Proof. destruct m; intros H; try discriminate H; split; reflexivity. Qed.

Lemma cfc_ins_parts (cfg : config) (i : instr) :
  cfc_ins_ok cfg i = true ->
  cfc_mnem (i_mn i) = true /\
  (takes_label (i_mn i) = false -> ins_ok cfg i = true) /\
  load_wf cfg i = true.
Proof.
  unfold cfc_ins_ok. intros H. apply andb_true_iff in H. destruct H as [H W].
  apply andb_true_iff in H. destruct H as [C O]. split; [exact C|]. split; [|exact W].
  intros T. rewrite T in O. exact O.
Qed.

Lemma cfc_ind_legal (cfg : config) (i : instr) : cfc_ins_ok cfg i = true -> ind_legal i.
Proof.
  intros H. destruct (cfc_ins_parts cfg i H) as (C & PO & _).
  destruct (takes_label (i_mn i)) eqn:T.
  - intros y k P. rewrite parse_operand_eq in P. rewrite T in P.
    destruct (String.eqb (i_op i) ""); discriminate P.
  - apply (ins_ok_ind_legal cfg). exact (PO eq_refl).
Qed.

Lemma transfer_sound_cf (cfg : config) (k : know) (i : instr) (a : list line) (s s' : mstate) :
  ports cfg = [] -> bytes_ok s -> cfc_ins_ok cfg i = true ->
  know_ops_ok cfg k -> know_sound cfg k s -> steps_to cfg i s s' ->
  snd (transfer k i a) = false ->
  know_sound cfg (fst (transfer k i a)) s'.
Proof.
  intros HP HB OK KO KS ST R. destruct (cfc_ins_parts cfg i OK) as (C & _ & _).
  apply (transfer_sound cfg k i a s s'); auto.
  - intros [E|E]; rewrite E in C; discriminate C.
  - apply (cfc_ind_legal cfg); exact OK.
  - apply know_ops_ok_xfer; exact KO.
Qed.

Lemma know_ops_ok_transfer_cf (cfg : config) (k : know) (i : instr) (a : list line) :
  cfc_ins_ok cfg i = true -> know_ops_ok cfg k -> know_ops_ok cfg (fst (transfer k i a)).
Proof.
  intros OK KO. destruct (cfc_ins_parts cfg i OK) as (C & PO & _).
  destruct (takes_label (i_mn i)) eqn:T.
  - unfold transfer. destruct (i_mn i); try discriminate T; try discriminate C; cbn [fst];
      try exact KO; intros o op [H|[H|H]]; discriminate H.
  - pose proof (PO eq_refl) as IO. destruct (cfc_plain_or_label _ C T) as [M|PL].
    + unfold transfer. rewrite M. exact KO.
    + apply know_ops_ok_transfer; assumption.
Qed.

(** whether a load executes does not depend on the state *)
Lemma load_defined (cfg : config) (i : instr) (s : mstate) :
  ports cfg = [] -> is_load (i_mn i) = true -> ins_ok cfg i = true -> load_wf cfg i = true ->
  exists s', steps_to cfg i s s'.
Proof.
  intros HP LD IO WF. unfold load_wf in WF. rewrite LD in WF. unfold ins_ok in IO.
  destruct (parse_operand (i_mn i) (i_op i)) as [op|] eqn:P; [|discriminate WF].
  destruct (exec cfg (i_mn i) op probe) as [sp cp fp|w] eqn:X; [|discriminate WF].
  assert (Hld : is_ld (i_mn i)).
  { unfold is_ld. destruct (i_mn i); try discriminate LD; auto. }
  assert (fp = FNext).
  { apply (plain_falls_through cfg (i_mn i) op probe sp cp fp); [|exact X].
    destruct (i_mn i); try discriminate LD; reflexivity. }
  subst fp. apply exec_load_inv in X; [|exact Hld]. destruct X as (v & R & _).
  assert (R' : exists v' c', read_operand cfg (i_mn i) s op = Some (v', c')).
  { destruct op as [|iv|y k ix|y k|l]; try discriminate IO.
    - discriminate R.
    - unfold read_operand in *. destruct (imm_value cfg iv); [|discriminate R].
      destruct (legal (i_mn i) Imm); [eauto|discriminate R].
    - unfold read_operand, eff_addr in *. rewrite HP in *. cbn [read_addr] in *.
      destruct (layout cfg y) as [a0|]; [|discriminate R].
      destruct (resolve (i_mn i) (shape_of (OMem y k ix)) (a0 + k <? 256)) as [md|]; [|discriminate R].
      destruct md; eauto. }
  destruct R' as (v' & c' & R'). exists (set_nz (set_reg (i_mn i) s v') v'), op, c'. split; [exact P|].
  exact (exec_load_intro cfg _ op s v' c' Hld R').
Qed.

Lemma steps_det (cfg : config) (i : instr) (s a b : mstate) :
  steps_to cfg i s a -> steps_to cfg i s b -> a = b.
Proof.
  intros (op & c & P & E) (op' & c' & P' & E'). rewrite P in P'. inversion P'; subst op'.
  rewrite E in E'. inversion E'. reflexivity.
Qed.

Lemma jmp_no_step (cfg : config) (i : instr) (s s' : mstate) :
  i_mn i = JMP -> steps_to cfg i s s' -> False.
Proof.
  intros M (op & c & P & E). rewrite M in E. cbv beta iota zeta delta [exec] in E.
  destruct op; discriminate E.
Qed.

(** * Blocks *)

Definition jumps_to (cfg : config) (i : instr) (s : mstate) (l : string) (s' : mstate) : Prop :=
  exists op c, parse_operand (i_mn i) (i_op i) = Some op /\ exec cfg (i_mn i) op s = XOk s' c (FGoto l).

Lemma gbexec_app (cfg : config) (a b : code) : forall s,
  gbexec cfg (a ++ b) s =
  match gbexec cfg a s with Some (GFall s1) => gbexec cfg b s1 | x => x end.
Proof.
  induction a as [|x a IH]; intros s; [reflexivity|].
  destruct x as [l|i|t sz|cm|]; cbn [app gbexec]; try reflexivity; try apply IH.
  destruct (parse_operand (i_mn i) (i_op i)) as [op|]; [|reflexivity].
  destruct (exec cfg (i_mn i) op s) as [s1 c f|w]; [|reflexivity].
  destruct f; try reflexivity. apply IH.
Qed.

Lemma gbexec_skip (cfg : config) (l : code) :
  forallb skip_line l = true -> forall s, gbexec cfg l s = Some (GFall s).
Proof.
  induction l as [|x l IH]; intros H s; [reflexivity|].
  cbn [forallb] in H. apply andb_true_iff in H. destruct H as [H1 H2].
  destruct x; try discriminate H1; cbn [gbexec]; apply IH; exact H2.
Qed.

Lemma gbexec_skip_app (cfg : config) (l r : code) (s : mstate) :
  forallb skip_line l = true -> gbexec cfg (l ++ r) s = gbexec cfg r s.
Proof. intros H. rewrite gbexec_app, (gbexec_skip cfg l H). reflexivity. Qed.

Definition rets_to (cfg : config) (i : instr) (s s' : mstate) : Prop :=
  exists op c, parse_operand (i_mn i) (i_op i) = Some op /\ exec cfg (i_mn i) op s = XOk s' c FRet.

Lemma gbexec_ins_inv (cfg : config) (i : instr) (r : code) (s : mstate) (res : gbres) :
  gbexec cfg (Ins i :: r) s = Some res ->
  (exists s1, steps_to cfg i s s1 /\ gbexec cfg r s1 = Some res) \/
  (exists l s1, jumps_to cfg i s l s1 /\ res = GJump l s1) \/
  (exists s1, rets_to cfg i s s1 /\ res = GRet s1).
Proof.
  cbn [gbexec]. intros H.
  destruct (parse_operand (i_mn i) (i_op i)) as [op|] eqn:P; [|discriminate H].
  destruct (exec cfg (i_mn i) op s) as [s1 c f|w] eqn:E; [|discriminate H].
  destruct f; try discriminate H.
  - left. exists s1. split; [exists op, c; auto|exact H].
  - right. left. inversion H; subst. exists l, s1. split; [exists op, c; auto|reflexivity].
  - right. right. inversion H; subst. exists s1. split; [exists op, c; auto|reflexivity].
Qed.

Lemma gbexec_ins_ret (cfg : config) (i : instr) (r : code) (s s1 : mstate) :
  rets_to cfg i s s1 -> gbexec cfg (Ins i :: r) s = Some (GRet s1).
Proof. intros (op & c & P & E). cbn [gbexec]. rewrite P, E. reflexivity. Qed.

Lemma plain_no_ret (cfg : config) (i : instr) (s s1 : mstate) :
  plain (i_mn i) = true -> rets_to cfg i s s1 -> False.
Proof.
  intros PL (op & c & P & E). pose proof (plain_falls_through _ _ _ _ _ _ _ PL E) as F. discriminate F.
Qed.

Lemma gbexec_ins_step (cfg : config) (i : instr) (r : code) (s s1 : mstate) :
  steps_to cfg i s s1 -> gbexec cfg (Ins i :: r) s = gbexec cfg r s1.
Proof. intros (op & c & P & E). cbn [gbexec]. rewrite P, E. reflexivity. Qed.

Lemma gbexec_ins_jump (cfg : config) (i : instr) (r : code) (s s1 : mstate) (l : string) :
  jumps_to cfg i s l s1 -> gbexec cfg (Ins i :: r) s = Some (GJump l s1).
Proof. intros (op & c & P & E). cbn [gbexec]. rewrite P, E. reflexivity. Qed.

Lemma plain_no_jump (cfg : config) (i : instr) (s s1 : mstate) (l : string) :
  plain (i_mn i) = true -> jumps_to cfg i s l s1 -> False.
Proof.
  intros PL (op & c & P & E). pose proof (plain_falls_through _ _ _ _ _ _ _ PL E) as F. discriminate F.
Qed.

Lemma gbres_eq_refl (r : gbres) : gbres_eq r r.
Proof. destruct r; cbn; [apply eq_state_refl|split; [reflexivity|apply eq_state_refl]|apply eq_state_refl]. Qed.

Lemma gbres_eq_dest (c : code) (after : nat) (r r' : gbres) :
  gbres_eq r' r -> gdest c after r' = gdest c after r /\ eq_state (gst r') (gst r).
Proof.
  destruct r, r'; cbn [gbres_eq gdest gst]; try contradiction; [auto| |auto].
  intros [-> E]. auto.
Qed.

(** the fall-through execution of a block, split at an instruction *)
Lemma gbfall_snoc (cfg : config) (p : code) (i : instr) (t s2 : mstate) :
  gbfall cfg (p ++ [Ins i]) t = Some s2 <->
  exists s1, gbfall cfg p t = Some s1 /\ steps_to cfg i s1 s2.
Proof.
  unfold gbfall. rewrite gbexec_app. split.
  - destruct (gbexec cfg p t) as [[s1|l s1|s1]|]; try discriminate. intros H. exists s1. split; [reflexivity|].
    cbn [gbexec] in H.
    destruct (parse_operand (i_mn i) (i_op i)) as [op|] eqn:P; [|discriminate H].
    destruct (exec cfg (i_mn i) op s1) as [s' c f|w] eqn:E; [|discriminate H].
    destruct f; try discriminate H. inversion H; subst. exists op, c. auto.
  - intros (s1 & B & ST). destruct (gbexec cfg p t) as [[s1'|l s1'|s1']|]; try discriminate B.
    inversion B; subst. rewrite (gbexec_ins_step cfg i [] s1 s2 ST). reflexivity.
Qed.

Lemma gbfall_bytes (cfg : config) (p : code) (t s1 : mstate) :
  bytes_ok t -> gbfall cfg p t = Some s1 -> bytes_ok s1.
Proof.
  unfold gbfall. intros HB H. destruct (gbexec cfg p t) as [[s|l s|s]|] eqn:B; try discriminate H.
  inversion H; subst. exact (gbexec_bytes cfg p t (GFall s1) HB B).
Qed.

(** the lines of a reversed prefix up to and including its last label or call, in program order *)
Fixpoint chdp (pre : list line) : list line :=
  match pre with
  | [] => []
  | Lbl l :: r => rev (Lbl l :: r)
  | Ins i :: r => if mnem_eqb (i_mn i) JSR then rev (Ins i :: r) else chdp r
  | _ :: r => chdp r
  end.

Lemma rev_chdp_blk (pre : list line) : rev pre = chdp pre ++ cblk pre.
Proof.
  induction pre as [|x pre IH]; [reflexivity|].
  destruct x as [l|i|t sz|cm|]; cbn [chdp cblk]; try (rewrite app_nil_r; reflexivity);
    try (destruct (mnem_eqb (i_mn i) JSR); [rewrite app_nil_r; reflexivity|]);
    cbn [rev]; rewrite IH, <- app_assoc; reflexivity.
Qed.

Lemma cblk_ins (i : instr) (pre : list line) :
  mnem_eqb (i_mn i) JSR = false -> cblk (Ins i :: pre) = cblk pre ++ [Ins i].
Proof. intros H. cbn [cblk]. rewrite H. reflexivity. Qed.

Lemma cblk_mid (mid p : list line) :
  forallb skip_line mid = true -> cblk (mid ++ p) = cblk p ++ rev mid.
Proof.
  induction mid as [|x mid IH]; intros H; [cbn; rewrite app_nil_r; reflexivity|].
  cbn [forallb] in H. apply andb_true_iff in H. destruct H as [H1 H2].
  destruct x; try discriminate H1; cbn [app cblk rev]; rewrite (IH H2), <- app_assoc; reflexivity.
Qed.

Lemma cfc_ok_rev (cfg : config) (c : code) : cfc_ok cfg (rev c) = cfc_ok cfg c.
Proof.
  unfold cfc_ok. induction c as [|x c IH]; [reflexivity|].
  cbn [rev forallb]. rewrite forallb_app, IH. cbn [forallb]. rewrite andb_true_r. apply andb_comm.
Qed.

Lemma cfc_ok_blk (cfg : config) (pre : list line) :
  cfc_ok cfg pre = true -> cfc_ok cfg (cblk pre) = true /\ nobarc (cblk pre) = true.
Proof.
  induction pre as [|x pre IH]; intros H; [split; reflexivity|].
  apply cfc_ok_cons in H. destruct H as [H1 H2]. destruct (IH H2) as [I1 I2].
  destruct x as [l|i|t sz|cm|]; cbn [cblk]; try discriminate H1; try (split; reflexivity);
    try (destruct (mnem_eqb (i_mn i) JSR) eqn:J; [split; reflexivity|]);
    (split; [apply cfc_ok_app; split; [exact I1|]; unfold cfc_ok; cbn [forallb]; rewrite H1; reflexivity
            |rewrite nobarc_app, I2; unfold nobarc; cbn [forallb wline]; rewrite ?J; reflexivity]).
Qed.

Lemma cfc_ok_skip (cfg : config) (l : code) : forallb skip_line l = true -> cfc_ok cfg l = true.
Proof.
  induction l as [|x l IH]; intros H; [reflexivity|].
  cbn [forallb] in H. apply andb_true_iff in H. destruct H as [H1 H2].
  unfold cfc_ok. cbn [forallb]. fold (cfc_ok cfg l). rewrite (IH H2).
  destruct x; try discriminate H1; reflexivity.
Qed.

Lemma nobarc_skip (l : code) : forallb skip_line l = true -> nobarc l = true.
Proof.
  induction l as [|x l IH]; intros H; [reflexivity|].
  cbn [forallb] in H. apply andb_true_iff in H. destruct H as [H1 H2].
  unfold nobarc. cbn [forallb]. fold (nobarc l). rewrite (IH H2).
  destruct x; try discriminate H1; reflexivity.
Qed.

(** plain stretches: [gbexec] is [exec_straight] *)
Lemma gbexec_straight (cfg : config) (x : code) : forall s,
  straight_ok cfg x = true ->
  gbexec cfg x s = match exec_straight cfg x s with Some s' => Some (GFall s') | None => None end.
Proof.
  induction x as [|l x IH]; intros s OK; [reflexivity|].
  apply straight_ok_cons in OK. destruct OK as [OK1 OK2].
  destruct l as [lb|i|t sz|cm|]; try discriminate OK1; cbn [gbexec exec_straight]; try (apply IH; exact OK2).
  apply line_ok_ins in OK1. destruct OK1 as [PL _].
  destruct (parse_operand (i_mn i) (i_op i)) as [op|]; [|reflexivity].
  destruct (exec cfg (i_mn i) op s) as [s1 c f|w] eqn:E; [|reflexivity].
  rewrite (plain_falls_through _ _ _ _ _ _ _ PL E). apply IH. exact OK2.
Qed.

Lemma straight_nobar (cfg : config) (x : code) : straight_ok cfg x = true -> nobarc x = true.
Proof.
  induction x as [|l x IH]; intros OK; [reflexivity|].
  apply straight_ok_cons in OK. destruct OK as [OK1 OK2].
  unfold nobarc. cbn [forallb]. fold (nobarc x). rewrite (IH OK2).
  destruct l as [lb|i|t sz|cm|]; try discriminate OK1; try reflexivity.
  apply line_ok_ins in OK1. destruct OK1 as [PL _]. cbn [wline].
  destruct (i_mn i); try discriminate PL; reflexivity.
Qed.

Lemma plain_not_jsr (m : mnem) : plain m = true -> mnem_eqb m JSR = false.
Proof. destruct m; intros H; try discriminate H; reflexivity. Qed.

Lemma cfc_line_straight (cfg : config) (i : instr) :
  cfc_ins_ok cfg i = true -> plain (i_mn i) = true -> line_ok cfg (Ins i) = true.
Proof.
  intros OK PL. destruct (cfc_ins_parts cfg i OK) as (_ & PO & _).
  cbn [line_ok]. rewrite PL. exact (PO (plain_no_label _ PL)).
Qed.

Lemma defines_cf_plain (m : mnem) : defines_nz m = true -> cfc_mnem m = true -> plain m = true.
Proof. destruct m; intros D C; try discriminate D; try discriminate C; reflexivity. Qed.

(** what the optimiser has looked at is a plain stretch that redefines N and Z *)
Lemma lookahead_window (cfg : config) (ahead : list line) :
  cfc_ok cfg ahead = true -> lda_lookahead ahead = true \/ ldxy_lookahead ahead = true ->
  exists X R, ahead = X ++ R /\ straight_ok cfg X = true /\ nz_redefined X = true.
Proof.
  intros OK [H|H].
  - unfold lda_lookahead in H.
    destruct ahead as [|[l|j1|tx sz|cm|] t]; try discriminate H.
    apply cfc_ok_cons in OK. destruct OK as [O1 OK]. cbn [cfc_line_ok] in O1.
    destruct (i_mn j1) eqn:M; try discriminate H.
    + (* STA *)
      assert (L1 : line_ok cfg (Ins j1) = true) by (apply cfc_line_straight; [exact O1|rewrite M; reflexivity]).
      destruct t as [|[l|j2|tx sz|cm|] t']; try discriminate H.
      * apply cfc_ok_cons in OK. destruct OK as [O2 OK]. cbn [cfc_line_ok] in O2.
        pose proof (is_load_defines_nz _ H) as D2.
        assert (L2 : line_ok cfg (Ins j2) = true).
        { apply cfc_line_straight; [exact O2|]. apply defines_cf_plain; [exact D2|]. exact (cfc_ins_mnem cfg j2 O2). }
        exists [Ins j1; Ins j2], t'. split; [reflexivity|]. split.
        -- unfold straight_ok. cbn [forallb]. rewrite L1, L2. reflexivity.
        -- unfold nz_redefined. cbn [existsb]. rewrite D2. apply orb_true_r.
      * destruct t' as [|[l|j3|tx sz|cm|] t'']; try discriminate H.
        apply cfc_ok_cons in OK. destruct OK as [_ OK].
        apply cfc_ok_cons in OK. destruct OK as [O3 OK]. cbn [cfc_line_ok] in O3.
        pose proof (is_load_defines_nz _ H) as D3.
        assert (L3 : line_ok cfg (Ins j3) = true).
        { apply cfc_line_straight; [exact O3|]. apply defines_cf_plain; [exact D3|]. exact (cfc_ins_mnem cfg j3 O3). }
        exists [Ins j1; Dummy; Ins j3], t''. split; [reflexivity|]. split.
        -- unfold straight_ok. cbn [forallb line_ok] in *. rewrite L1, L3. reflexivity.
        -- unfold nz_redefined. cbn [existsb]. rewrite D3. rewrite !orb_true_r. reflexivity.
    + (* CMP *)
      assert (L1 : line_ok cfg (Ins j1) = true) by (apply cfc_line_straight; [exact O1|rewrite M; reflexivity]).
      exists [Ins j1], t. split; [reflexivity|]. split.
      * unfold straight_ok. cbn [forallb]. rewrite L1. reflexivity.
      * unfold nz_redefined. cbn [existsb]. rewrite M. reflexivity.
  - induction ahead as [|x t IH]; [discriminate H|].
    apply cfc_ok_cons in OK. destruct OK as [O1 OK].
    destruct x as [l|j|tx sz|cm|]; cbn [ldxy_lookahead] in H; try discriminate H.
    + cbn [cfc_line_ok] in O1.
      assert (L1 : line_ok cfg (Ins j) = true).
      { apply cfc_line_straight; [exact O1|]. apply defines_cf_plain; [exact H|]. exact (cfc_ins_mnem cfg j O1). }
      exists [Ins j], t. split; [reflexivity|]. split.
      * unfold straight_ok. cbn [forallb]. rewrite L1. reflexivity.
      * unfold nz_redefined. cbn [existsb]. rewrite H. reflexivity.
    + destruct (IH OK H) as (X & R & E & S & N). exists (Cmt cm :: X), R.
      split; [rewrite E; reflexivity|]. split; [exact S|exact N].
    + destruct (IH OK H) as (X & R & E & S & N). exists (Dummy :: X), R.
      split; [rewrite E; reflexivity|]. split; [exact S|exact N].
Qed.

(** * Local simulations: what each rewriting does to the block it touches *)

(** the part of the block before the rewriting is common *)
Lemma ls_prefix (cfg : config) (c : code) (after : nat) (P A A' : code) :
  (forall s s1, bytes_ok s -> gbfall cfg P s = Some s1 ->
     forall r, gbexec cfg A s1 = Some r -> exists r', gbexec cfg A' s1 = Some r' /\ gbres_eq r' r) ->
  forall s r k, bytes_ok s -> gbexec cfg (P ++ A) s = Some r -> gdest c after r = Some k ->
    exists r', gbexec cfg (P ++ A') s = Some r' /\ gdest c after r' = Some k /\ eq_state (gst r') (gst r).
Proof.
  intros H s r k HB B D. rewrite gbexec_app in B |- *. unfold gbfall in H. specialize (H s).
  destruct (gbexec cfg P s) as [[s1|l s1|s1]|]; [|idtac|idtac|discriminate B].
  - destruct (H s1 HB eq_refl r B) as (r' & B' & E). exists r'. split; [exact B'|].
    destruct (gbres_eq_dest c after r r' E) as [D' E']. rewrite D'. auto.
  - exists r. split; [exact B|]. split; [exact D|apply eq_state_refl].
  - exists r. split; [exact B|]. split; [exact D|apply eq_state_refl].
Qed.

(** remove_second *)
Lemma tsim_rs (cfg : config) (i1 i2 : instr) (mid X : code) (s1 : mstate) :
  forallb skip_line mid = true ->
  plain (i_mn i2) = true \/ i_mn i1 = JMP ->
  (forall s2 s3, steps_to cfg i1 s1 s2 -> steps_to cfg i2 s2 s3 ->
     forall r, gbexec cfg X s3 = Some r -> exists r', gbexec cfg X s2 = Some r' /\ gbres_eq r' r) ->
  forall r, gbexec cfg (Ins i1 :: rev mid ++ Ins i2 :: X) s1 = Some r ->
  exists r', gbexec cfg (Ins i1 :: rev mid ++ Dummy :: X) s1 = Some r' /\ gbres_eq r' r.
Proof.
  intros M NJ H r B.
  destruct (gbexec_ins_inv cfg i1 _ s1 r B) as [(s2 & ST1 & B2)|[(l & s2 & J & ->)|(s2 & J & ->)]].
  - rewrite (gbexec_ins_step cfg i1 _ s1 s2 ST1).
    rewrite (gbexec_skip_app cfg _ _ s2 (skip_rev _ M)) in B2.
    rewrite (gbexec_skip_app cfg _ _ s2 (skip_rev _ M)). cbn [gbexec].
    destruct (gbexec_ins_inv cfg i2 _ s2 r B2) as [(s3 & ST2 & B3)|[(l & s3 & J & _)|(s3 & J & _)]].
    + exact (H s2 s3 ST1 ST2 r B3).
    + exfalso. destruct NJ as [PL|M1]; [exact (plain_no_jump cfg i2 s2 s3 l PL J)|].
      exact (jmp_no_step cfg i1 s1 s2 M1 ST1).
    + exfalso. destruct NJ as [PL|M1]; [exact (plain_no_ret cfg i2 s2 s3 PL J)|].
      exact (jmp_no_step cfg i1 s1 s2 M1 ST1).
  - rewrite (gbexec_ins_jump cfg i1 _ s1 s2 l J). eexists. split; [reflexivity|apply gbres_eq_refl].
  - rewrite (gbexec_ins_ret cfg i1 _ s1 s2 J). eexists. split; [reflexivity|apply gbres_eq_refl].
Qed.

(** remove_first *)
Lemma tsim_rf (cfg : config) (i1 i2 : instr) (mid : code) (s1 : mstate) :
  forallb skip_line mid = true -> plain (i_mn i1) = true -> plain (i_mn i2) = true ->
  (forall s2 s3, steps_to cfg i1 s1 s2 -> steps_to cfg i2 s2 s3 ->
     exists s2', steps_to cfg i2 s1 s2' /\ eq_state s2' s3) ->
  forall r, gbexec cfg (Ins i1 :: rev mid ++ [Ins i2]) s1 = Some r ->
  exists r', gbexec cfg (Dummy :: rev mid ++ [Ins i2]) s1 = Some r' /\ gbres_eq r' r.
Proof.
  intros M P1 P2 H r B.
  destruct (gbexec_ins_inv cfg i1 _ s1 r B) as [(s2 & ST1 & B2)|[(l & s2 & J & _)|(s2 & J & _)]];
    [|exfalso; exact (plain_no_jump cfg i1 s1 s2 l P1 J)|exfalso; exact (plain_no_ret cfg i1 s1 s2 P1 J)].
  rewrite (gbexec_skip_app cfg _ _ s2 (skip_rev _ M)) in B2.
  destruct (gbexec_ins_inv cfg i2 _ s2 r B2) as [(s3 & ST2 & B3)|[(l & s3 & J & _)|(s3 & J & _)]];
    [|exfalso; exact (plain_no_jump cfg i2 s2 s3 l P2 J)|exfalso; exact (plain_no_ret cfg i2 s2 s3 P2 J)].
  cbn [gbexec] in B3. inversion B3; subst r.
  destruct (H s2 s3 ST1 ST2) as (s2' & ST' & E).
  cbn [gbexec]. rewrite (gbexec_skip_app cfg _ _ s1 (skip_rev _ M)).
  rewrite (gbexec_ins_step cfg i2 _ s1 s2' ST'). cbn [gbexec]. eexists. split; [reflexivity|exact E].
Qed.

(** swap *)
Lemma tsim_sw (cfg : config) (i1 i2 : instr) (mid : code) (s1 : mstate) :
  forallb skip_line mid = true -> plain (i_mn i1) = true -> plain (i_mn i2) = true ->
  (forall s2 s3, steps_to cfg i1 s1 s2 -> steps_to cfg i2 s2 s3 ->
     exists t1 t2, steps_to cfg i2 s1 t1 /\ steps_to cfg i1 t1 t2 /\ eq_state t2 s3) ->
  forall r, gbexec cfg (Ins i1 :: rev mid ++ [Ins i2]) s1 = Some r ->
  exists r', gbexec cfg (Ins i2 :: rev mid ++ [Ins i1]) s1 = Some r' /\ gbres_eq r' r.
Proof.
  intros M P1 P2 H r B.
  destruct (gbexec_ins_inv cfg i1 _ s1 r B) as [(s2 & ST1 & B2)|[(l & s2 & J & _)|(s2 & J & _)]];
    [|exfalso; exact (plain_no_jump cfg i1 s1 s2 l P1 J)|exfalso; exact (plain_no_ret cfg i1 s1 s2 P1 J)].
  rewrite (gbexec_skip_app cfg _ _ s2 (skip_rev _ M)) in B2.
  destruct (gbexec_ins_inv cfg i2 _ s2 r B2) as [(s3 & ST2 & B3)|[(l & s3 & J & _)|(s3 & J & _)]];
    [|exfalso; exact (plain_no_jump cfg i2 s2 s3 l P2 J)|exfalso; exact (plain_no_ret cfg i2 s2 s3 P2 J)].
  cbn [gbexec] in B3. inversion B3; subst r.
  destruct (H s2 s3 ST1 ST2) as (t1 & t2 & T1 & T2 & E).
  rewrite (gbexec_ins_step cfg i2 _ s1 t1 T1). rewrite (gbexec_skip_app cfg _ _ t1 (skip_rev _ M)).
  rewrite (gbexec_ins_step cfg i1 _ t1 t2 T2). cbn [gbexec]. eexists. split; [reflexivity|exact E].
Qed.

(** * The structure of the code is kept by the rewritings of Proofs/OptFacts.v *)

Lemma lbls_app (a b : code) : lbls (a ++ b) = lbls a ++ lbls b.
Proof.
  induction a as [|x a IH]; [reflexivity|].
  destruct x; cbn [app lbls]; rewrite IH; reflexivity.
Qed.

Lemma lbls_skip (l : code) : forallb OptFacts.quiet l = true -> lbls l = [].
Proof.
  induction l as [|x l IH]; intros H; [reflexivity|].
  cbn [forallb] in H. apply andb_true_iff in H. destruct H as [H1 H2].
  destruct x; try discriminate H1; cbn [lbls]; apply IH; exact H2.
Qed.

Lemma rw1_lbls (m : N) (a b : code) : OptFacts.rw1 m a b -> lbls b = lbls a.
Proof.
  intros H. destruct H as [l1 i l2 D|l1 i1 mm i2 l2 H1 H2 H3];
    rewrite !lbls_app; cbn [lbls]; rewrite ?lbls_app; cbn [lbls]; reflexivity.
Qed.

Lemma rw1_cf_ok (cfg : config) (m : N) (a b : code) :
  OptFacts.rw1 m a b -> cfc_ok cfg a = true -> cfc_ok cfg b = true.
Proof.
  intros H. destruct H as [l1 i l2 D|l1 i1 mm i2 l2 H1 H2 H3]; intros OK.
  - apply cfc_ok_app in OK. destruct OK as [O1 O2]. apply cfc_ok_cons in O2.
    apply cfc_ok_app. split; [exact O1|]. unfold cfc_ok. cbn [forallb cfc_line_ok]. exact (proj2 O2).
  - apply cfc_ok_app in OK. destruct OK as [O1 O2]. apply cfc_ok_cons in O2. destruct O2 as [O2 O3].
    apply cfc_ok_app in O3. destruct O3 as [O3 O4]. apply cfc_ok_cons in O4. destruct O4 as [O4 O5].
    apply cfc_ok_app. split; [exact O1|]. unfold cfc_ok. cbn [forallb]. rewrite O4. cbn [andb].
    apply cfc_ok_app. split; [exact O3|]. unfold cfc_ok. cbn [forallb]. rewrite O2. exact O5.
Qed.

Lemma rws_struct (cfg : config) (n : N) (a b : code) :
  OptFacts.rws n a b ->
  (cfc_ok cfg a = true -> cfc_ok cfg b = true) /\ lbls b = lbls a.
Proof.
  apply (OptFacts.rws_invariant
           (fun a b => (cfc_ok cfg a = true -> cfc_ok cfg b = true) /\ lbls b = lbls a)).
  - intros c. split; [auto|reflexivity].
  - intros x y z m [H1 H2] R. split.
    + intros OK. exact (rw1_cf_ok cfg m y z R (H1 OK)).
    + rewrite (rw1_lbls m y z R). exact H2.
Qed.

Lemma quiet_skip (l : code) : forallb OptFacts.quiet l = forallb skip_line l.
Proof. induction l as [|x l IH]; [reflexivity|]. cbn [forallb]. rewrite IH. destruct x; reflexivity. Qed.

(** * Updating the knowledge invariant *)

Lemma KInvC_weaken (cfg : config) (b : bool) (pre : list line) (f : instr) (k : know) :
  KInvC cfg false pre f k -> KInvC cfg b pre f k.
Proof.
  intros H t s2 HB B. specialize (H t s2 HB B). destruct b; [apply know_sound_kregs|]; exact H.
Qed.

Lemma gbfall_skip_r (cfg : config) (p m : code) (t : mstate) :
  forallb skip_line m = true -> gbfall cfg (p ++ m) t = gbfall cfg p t.
Proof.
  intros M. unfold gbfall. rewrite gbexec_app.
  destruct (gbexec cfg p t) as [[s|l s|s]|]; try reflexivity. rewrite (gbexec_skip cfg m M). reflexivity.
Qed.

Lemma transfer_jmp (k : know) (i : instr) (a : list line) :
  i_mn i = JMP \/ i_mn i = JSR -> fst (transfer k i a) = k_none.
Proof. unfold transfer. intros [-> | ->]; reflexivity. Qed.

(** advance: the second instruction is kept and becomes the first *)
Lemma kinv_advance (cfg : config) (lev : bool) (pre mid : list line) (i1 i2 : instr) (k : know)
      (a : list line) :
  ports cfg = [] -> KInvC cfg lev pre i1 k ->
  (i_mn i1 = JSR -> k = k_none) ->
  (lev = true -> i_mn i2 = LDA /\ k_acc k = None) ->
  cfc_ins_ok cfg i2 = true -> know_ops_ok cfg k -> forallb skip_line mid = true ->
  snd (transfer k i2 a) = false ->
  KInvC cfg false (mid ++ Ins i1 :: pre) i2 (fst (transfer k i2 a)).
Proof.
  intros HP KI JS LV OK KO M R t s3 HB B.
  rewrite (cblk_mid mid _ M) in B.
  destruct (mnem_eqb (i_mn i1) JSR) eqn:J.
  - (* after a call nothing is known, whatever the state *)
    apply mnem_eqb_eq in J. specialize (JS J). subst k.
    cbn [cblk] in B. rewrite J in B. cbn [mnem_eqb app] in B.
    apply gbfall_snoc in B. destruct B as (s2 & B & ST).
    unfold gbfall in B. rewrite (gbexec_skip cfg _ (skip_rev _ M)) in B. inversion B; subst s2.
    exact (transfer_sound_cf cfg k_none i2 a t s3 HP HB OK KO (know_sound_init cfg t) ST R).
  - rewrite (cblk_ins i1 pre J) in B.
    apply gbfall_snoc in B. destruct B as (s2 & B & ST).
    rewrite (gbfall_skip_r cfg _ _ t (skip_rev _ M)) in B.
    pose proof (KI t s2 HB B) as KS.
    assert (HB2 : bytes_ok s2) by (exact (gbfall_bytes cfg _ t s2 HB B)).
    destruct lev.
    + destruct (LV eq_refl) as [ML A]. destruct (cfc_ins_parts cfg i2 OK) as (_ & PO & _).
      assert (T : takes_label (i_mn i2) = false) by (rewrite ML; reflexivity).
      assert (PL : plain (i_mn i2) = true) by (rewrite ML; reflexivity).
      exact (know_sound_lda_fresh cfg k i2 a s2 s3 HP HB2 PL (PO T) ML A KO KS ST).
    + exact (transfer_sound_cf cfg k i2 a s2 s3 HP HB2 OK KO KS ST R).
Qed.

(** remove_second by [transfer] *)
Lemma kinv_removed (cfg : config) (pre : list line) (i1 i2 : instr) (k : know) (a : list line) :
  KInvC cfg false pre i1 k -> snd (transfer k i2 a) = true ->
  KInvC cfg false pre i1 (fst (transfer k i2 a)).
Proof.
  intros KI R t s2 HB B. exact (transfer_removed_sound cfg k i2 a s2 (KI t s2 HB B) R).
Qed.

(** remove_first: the first load is no longer executed *)
Lemma kinv_rf (cfg : config) (pre mid : list line) (i1 i2 : instr) (k : know) (a : list line) :
  ports cfg = [] -> KInvC cfg false pre i1 k ->
  (i_mn i1 = LDA /\ i_mn i2 = LDA) \/ (i_mn i1 = LDX /\ i_mn i2 = LDX) \/
  (i_mn i1 = LDY /\ i_mn i2 = LDY) ->
  cfc_ins_ok cfg i1 = true -> cfc_ins_ok cfg i2 = true -> know_ops_ok cfg k ->
  forallb skip_line mid = true -> snd (transfer k i2 a) = false ->
  KInvC cfg false (mid ++ Dummy :: pre) i2 (fst (transfer k i2 a)).
Proof.
  intros HP KI SH OK1 OK2 KO M R t s2' HB B.
  rewrite (cblk_mid mid _ M) in B. cbn [cblk] in B.
  apply gbfall_snoc in B. destruct B as (s1 & B & ST').
  rewrite (gbfall_skip_r cfg _ _ t (skip_rev _ M)) in B.
  rewrite (gbfall_skip_r cfg _ [Dummy] t eq_refl) in B.
  assert (HB1 : bytes_ok s1) by (exact (gbfall_bytes cfg _ t s1 HB B)).
  assert (L1 : is_load (i_mn i1) = true) by (destruct SH as [[H _]|[[H _]|[H _]]]; rewrite H; reflexivity).
  assert (L2 : is_load (i_mn i2) = true) by (destruct SH as [[_ H]|[[_ H]|[_ H]]]; rewrite H; reflexivity).
  destruct (cfc_ins_parts cfg i1 OK1) as (_ & PO1 & W1).
  destruct (cfc_ins_parts cfg i2 OK2) as (_ & PO2 & W2).
  destruct (load_plain _ L1) as [PL1 T1]. destruct (load_plain _ L2) as [PL2 T2].
  pose proof (PO1 T1) as IO1. pose proof (PO2 T2) as IO2.
  destruct (load_defined cfg i1 s1 HP L1 IO1 W1) as (s2 & ST1).
  assert (B2 : gbfall cfg (cblk pre ++ [Ins i1]) t = Some s2) by (apply gbfall_snoc; eauto).
  pose proof (KI t s2 HB B2) as KS.
  assert (HB2 : bytes_ok s2) by (exact (gbfall_bytes cfg _ t s2 HB B2)).
  destruct (load_defined cfg i2 s2 HP L2 IO2 W2) as (s3 & ST2).
  destruct (rule_load_load cfg i1 i2 s1 s2 s3 SH (ins_ok_ind_legal cfg i2 IO2) ST1 ST2) as (x & STx & EQ).
  rewrite (steps_det cfg i2 s1 s2' x ST' STx).
  apply (know_sound_eq cfg _ s3 x (eq_state_sym _ _ EQ)).
  exact (transfer_sound_cf cfg k i2 a s2 s3 HP HB2 OK2 KO KS ST2 R).
Qed.

(** swap: only the register part, and nothing about A *)
Lemma kinv_sw (cfg : config) (lev : bool) (pre : list line) (i1 i2 : instr) (k : know) :
  ports cfg = [] -> KInvC cfg lev pre i1 k ->
  i_mn i1 = LDA -> is_flag_setter (i_mn i2) = true -> cfc_ins_ok cfg i1 = true ->
  KInvC cfg true pre i2 (mkK None (k_x k) (k_y k) (k_flags k)).
Proof.
  intros HP KI M1 F2 OK1 t t1 HB B.
  apply gbfall_snoc in B. destruct B as (s1 & B & T1).
  destruct (flag_setter_inv cfg i2 s1 t1 F2 T1) as (b & ->).
  destruct (cfc_ins_parts cfg i1 OK1) as (_ & PO1 & W1).
  assert (T : takes_label (i_mn i1) = false) by (rewrite M1; reflexivity).
  pose proof (PO1 T) as IO1.
  assert (L1 : is_load (i_mn i1) = true) by (rewrite M1; reflexivity).
  destruct (load_defined cfg i1 s1 HP L1 IO1 W1) as (s2 & ST1).
  assert (B2 : gbfall cfg (cblk pre ++ [Ins i1]) t = Some s2) by (apply gbfall_snoc; eauto).
  pose proof (KI t s2 HB B2) as KS.
  apply (swap_know cfg k i1 s1 s2 b M1 ST1).
  destruct lev; [exact KS|apply know_sound_kregs; exact KS].
Qed.

(** a block restarted after a label: whatever the state *)
Lemma analyse_label (k : know) (i : instr) :
  analyse_load AlLabel (reset_regs k) i = analyse_load AlStart k_init i.
Proof. unfold analyse_load, reset_regs, k_init. destruct (i_mn i); reflexivity. Qed.

Lemma kinv_start (cfg : config) (p : list line) (i : instr) :
  ports cfg = [] -> forallb skip_line (cblk p) = true -> cfc_ins_ok cfg i = true ->
  KInvC cfg false p i (analyse_load AlStart k_init i).
Proof.
  intros HP Q OK t s2 HB B.
  apply gbfall_snoc in B. destruct B as (s1 & B & ST).
  unfold gbfall in B. rewrite (gbexec_skip cfg _ Q) in B. inversion B; subst s1.
  destruct (analyse_start i []) as [AS AR]. rewrite AS.
  destruct (is_load (i_mn i)); [|apply know_sound_init].
  apply (transfer_sound_cf cfg k_init i [] t s2 HP HB OK (know_ops_ok_init cfg) (know_sound_init cfg t) ST AR).
Qed.

Lemma know_ops_ok_start (cfg : config) (i : instr) :
  cfc_ins_ok cfg i = true -> know_ops_ok cfg (analyse_load AlStart k_init i).
Proof.
  intros OK. destruct (analyse_start i []) as [AS _]. rewrite AS.
  destruct (is_load (i_mn i)); [|apply know_ops_ok_init].
  apply know_ops_ok_transfer_cf; [exact OK|apply know_ops_ok_init].
Qed.

Lemma analyse_start_jmp (i : instr) :
  i_mn i = JMP \/ i_mn i = JSR -> analyse_load AlStart k_init i = k_none.
Proof. unfold analyse_load. intros [-> | ->]; reflexivity. Qed.

Lemma kinv_none (cfg : config) (b : bool) (p : list line) (i : instr) : KInvC cfg b p i k_none.
Proof.
  intros t s2 _ _. destruct b; [apply know_sound_kregs|]; apply know_sound_init.
Qed.

(** * The removals, on blocks *)

Lemma cfc_no_ind (cfg : config) (i : instr) (y : string) (k : Z) :
  cfc_ins_ok cfg i = true -> parse_operand (i_mn i) (i_op i) = Some (OInd y k) -> False.
Proof.
  intros H P. destruct (cfc_ins_parts cfg i H) as (C & PO & _).
  destruct (takes_label (i_mn i)) eqn:T.
  - rewrite parse_operand_eq in P. rewrite T in P. destruct (String.eqb (i_op i) ""); discriminate P.
  - pose proof (PO eq_refl) as IO. unfold ins_ok in IO. rewrite P in IO. discriminate IO.
Qed.

Lemma cfc_ptr_not_hit (cfg : config) (i : instr) (s : mstate) : cfc_ins_ok cfg i = true -> ptr_not_hit cfg i s.
Proof. intros H y k a0 a md cr P. exfalso. exact (cfc_no_ind cfg i y k H P). Qed.

(** remove_second by a pair rule: the second instruction changes nothing *)
Lemma rs0_sound_cf (cfg : config) (k : know) (i1 i2 : instr) (s1 s2 s3 : mstate) :
  ports cfg = [] -> bytes_ok s1 -> cfc_ins_ok cfg i1 = true ->
  rs0_shape k i1 i2 -> know_sound cfg k s2 ->
  steps_to cfg i1 s1 s2 -> steps_to cfg i2 s2 s3 -> eq_state s3 s2.
Proof.
  intros HP HB OK SH KS ST1 ST2.
  destruct SH as [(M1 & M2 & EO & FA)|[(MM & EO)|[MM|(M2 & O2 & FA)]]].
  - apply (rule_sta_lda_exact cfg k i1 i2 s1 s2 s3); auto. apply cfc_ptr_not_hit. exact OK.
  - apply (rule_ld_st cfg i1 i2 s1 s2 s3); auto. apply (cfc_ind_legal cfg). exact OK.
  - apply (rule_transfer_pair cfg i1 i2 s1 s2 s3); auto.
  - apply (rule_ora_zero_exact cfg k i2 s2 s3); auto.
    destruct ST1 as (op & c & _ & E). exact (GenTemplatesFacts.exec_bytes_ok _ _ _ _ _ _ _ E HB).
Qed.

(** remove_second by [transfer]: the stretch the optimiser has looked at cannot tell *)
Lemma removal_window (cfg : config) (k : know) (i2 : instr) (ahead : list line) :
  ports cfg = [] -> cfc_ok cfg ahead = true -> snd (transfer k i2 ahead) = true ->
  exists X R, ahead = X ++ R /\ nobarc X = true /\
    forall s2 s3, know_sound cfg k s2 -> steps_to cfg i2 s2 s3 ->
    forall r, gbexec cfg X s3 = Some r -> exists r', gbexec cfg X s2 = Some r' /\ gbres_eq r' r.
Proof.
  intros HP OK R.
  destruct (lda_lookahead ahead || ldxy_lookahead ahead) eqn:LK.
  - apply orb_true_iff in LK.
    destruct (lookahead_window cfg ahead OK LK) as (X & R' & EA & SX & NR).
    exists X, R'. split; [exact EA|]. split; [exact (straight_nobar cfg X SX)|].
    intros s2 s3 KS ST r B.
    destruct (removal_sound cfg k i2 ahead s2 s3 HP KS ST R) as [NZ _].
    rewrite (gbexec_straight cfg X s3 SX) in B. rewrite (gbexec_straight cfg X s2 SX).
    destruct (exec_straight cfg X s3) as [t|] eqn:E; [|discriminate B]. inversion B; subst r.
    destruct (exec_straight_redefined cfg X SX NR s3 s2 t NZ E) as (t2 & E2 & Q).
    rewrite E2. eexists. split; [reflexivity|]. cbn [gbres_eq]. apply eq_state_sym. exact Q.
  - apply orb_false_iff in LK. destruct LK as [LK1 LK2].
    exists [], ahead. split; [reflexivity|]. split; [reflexivity|].
    intros s2 s3 KS ST r B. cbn [gbexec] in B |- *. inversion B; subst r.
    eexists. split; [reflexivity|]. cbn [gbres_eq]. apply eq_state_sym.
    destruct (removal_sound cfg k i2 ahead s2 s3 HP KS ST R) as [_ [H|[[_ H]|[_ H]]]];
      [exact H|congruence|congruence].
Qed.

Lemma cfc_equiv_eq (cfg : config) (a b : code) : a = b -> cfc_equiv Or cfg a b.
Proof. intros -> s r s' _ H. exists s'. split; [exact H|apply eq_state_refl]. Qed.

Ltac lnorm := repeat (progress (cbn [rev app]) || rewrite rev_app_distr || rewrite <- app_assoc).

Lemma nobarc_ins_mid (i : instr) (mid tl : code) :
  mnem_eqb (i_mn i) JSR = false ->
  forallb skip_line mid = true -> nobarc tl = true -> nobarc (Ins i :: rev mid ++ tl) = true.
Proof.
  intros J M T. unfold nobarc. cbn [forallb wline]. rewrite J, forallb_app.
  fold (nobarc (rev mid)). fold (nobarc tl). rewrite (nobarc_skip _ (skip_rev _ M)), T. reflexivity.
Qed.

Lemma find_lbl_none (l : string) (a : code) : ~ In l (lbls a) -> find_lbl l a = None.
Proof.
  induction a as [|x a IH]; intros H; [reflexivity|].
  destruct x as [y|i|t sz|cm|]; cbn [find_lbl lbls] in *; try (rewrite IH; [reflexivity|exact H]).
  destruct (String.eqb_spec y l) as [->|NE]; [exfalso; apply H; left; reflexivity|].
  rewrite IH; [reflexivity|]. intros I. apply H. right. exact I.
Qed.

Lemma jmp_jumps (cfg : config) (f : instr) (s s1 : mstate) (l : string) :
  i_mn f = JMP -> jumps_to cfg f s l s1 -> l = i_op f /\ s1 = s.
Proof.
  intros M (op & c & P & E). rewrite M in P, E. rewrite parse_operand_eq in P.
  destruct (String.eqb (i_op f) ""); cbn [takes_label] in P; inversion P; subst op;
    cbv beta iota zeta delta [exec] in E; [discriminate E|]. inversion E. auto.
Qed.

Lemma jmp_no_ret (cfg : config) (f : instr) (s s1 : mstate) :
  i_mn f = JMP -> rets_to cfg f s s1 -> False.
Proof.
  intros M (op & c & P & E). rewrite M in E. cbv beta iota zeta delta [exec] in E.
  destruct op; discriminate E.
Qed.

Lemma cblk_quiet_cons (x : line) (p : list line) :
  match x with Inl _ _ | Ins _ => false | _ => true end = true ->
  forallb skip_line (cblk p) = true -> forallb skip_line (cblk (x :: p)) = true.
Proof.
  intros X H. destruct x; try discriminate X; cbn [cblk]; try reflexivity;
    rewrite forallb_app, H; reflexivity.
Qed.

Lemma skip_to_ins_blk (cfg : config) (l : list line) : forall p p' i r,
  skip_to_ins p l = Some (p', i, r) -> cfc_ok cfg l = true ->
  forallb skip_line (cblk p) = true -> forallb skip_line (cblk p') = true.
Proof.
  induction l as [|x l IH]; intros p p' i r H OK Q; [discriminate H|].
  apply cfc_ok_cons in OK. destruct OK as [O1 O2].
  destruct x as [y|j|t sz|cm|]; cbn [skip_to_ins] in H; try discriminate O1.
  - apply (IH _ _ _ _ H O2). apply cblk_quiet_cons; [reflexivity|exact Q].
  - inversion H; subst. exact Q.
  - apply (IH _ _ _ _ H O2). apply cblk_quiet_cons; [reflexivity|exact Q].
  - apply (IH _ _ _ _ H O2). apply cblk_quiet_cons; [reflexivity|exact Q].
Qed.

(** * The invariant is preserved *)

Section CF.
  Variables (cfg : config) (c0 : code).
  Hypothesis HP : ports cfg = [].
  Hypothesis OK0 : cfc_ok cfg c0 = true.
  Hypothesis ND0 : NoDup (lbls c0).

  (** the invariant, and the fact that the code is a rewriting of [c0] in the sense of
      Proofs/OptFacts.v (which gives its structural properties) *)
  Definition InvS (z : zst) : Prop :=
    InvCall Or cfg c0 z /\ exists m, OptFacts.rws m c0 (z_code z).

  Definition ResCF (r : step_result) : Prop :=
    match r with
    | Done c _ => cfc_equiv Or cfg c0 c
    | Next z' => InvS z'
    end.

  Lemma cfc_equiv_trans (a b : code) : cfc_equiv Or cfg c0 a -> cfc_equiv Or cfg a b -> cfc_equiv Or cfg c0 b.
  Proof.
    intros H1 H2 s r s' HB H. destruct (H1 s r s' HB H) as (s1 & A & E1).
    destruct (H2 s r s1 HB A) as (s2 & B & E2). exists s2. split; [exact B|].
    exact (eq_state_trans _ _ _ E2 E1).
  Qed.

  Lemma InvS_intro (z : zst) :
    (exists m, OptFacts.rws m c0 (z_code z)) -> forallb skip_line (z_mid z) = true ->
    know_ops_ok cfg (z_k z) -> (i_mn (z_f z) = JMP \/ i_mn (z_f z) = JSR -> z_k z = k_none) ->
    cfc_equiv Or cfg c0 (z_code z) -> KInvC cfg (pswap z) (z_pre z) (z_f z) (z_k z) ->
    InvS z.
  Proof.
    intros (m & RW) M KO JK EQ KI. split; [|exists m; exact RW].
    destruct (rws_struct cfg m c0 (z_code z) RW) as [S1 S2].
    unfold InvCall. split; [exact (S1 OK0)|]. split; [exact M|]. split; [rewrite S2; exact ND0|].
    repeat (split; [assumption|]). exact KI.
  Qed.

  (** the rewriting of a label-free stretch [A] into [A'], what precedes it since the last
      label being common *)
  Lemma rewrite_equiv (pre : list line) (A A' tail : code) :
    cfc_ok cfg (rev pre ++ A' ++ tail) = true ->
    nobarc A = true -> nobarc A' = true -> length A = length A' ->
    (forall s s1, bytes_ok s -> gbfall cfg (cblk pre) s = Some s1 ->
       forall r, gbexec cfg A s1 = Some r -> exists r', gbexec cfg A' s1 = Some r' /\ gbres_eq r' r) ->
    cfc_equiv Or cfg (rev pre ++ A ++ tail) (rev pre ++ A' ++ tail).
  Proof.
    intros OK NA NA' LEN H.
    assert (OKP : cfc_ok cfg pre = true).
    { apply cfc_ok_app in OK. rewrite <- cfc_ok_rev. exact (proj1 OK). }
    destruct (cfc_ok_blk cfg pre OKP) as [_ NB].
    rewrite rev_chdp_blk in OK |- *.
    assert (E : forall Y, (chdp pre ++ cblk pre) ++ Y ++ tail = chdp pre ++ (cblk pre ++ Y) ++ tail).
    { intros Y. rewrite <- !app_assoc. reflexivity. }
    rewrite !E in *.
    apply window.
    - rewrite nobarc_app, NB, NA. reflexivity.
    - rewrite nobarc_app, NB, NA'. reflexivity.
    - rewrite !app_length, LEN. reflexivity.
    - exact OK.
    - apply ls_prefix. exact H.
  Qed.

  Lemma z_code_parts (z : zst) :
    cfc_ok cfg (z_code z) = true ->
    cfc_ok cfg (z_pre z) = true /\ cfc_ins_ok cfg (z_f z) = true /\ cfc_ok cfg (z_rest z) = true.
  Proof.
    unfold z_code. intros H. apply cfc_ok_app in H. destruct H as [H1 H2].
    rewrite cfc_ok_rev in H1. apply cfc_ok_cons in H2. destruct H2 as [H2 H3].
    apply cfc_ok_app in H3. tauto.
  Qed.

  Lemma pswap_true' (z : zst) (i2 : instr) (ahead : list line) :
    z_rest z = Ins i2 :: ahead -> pswap z = true ->
    is_flag_setter (i_mn (z_f z)) = true /\ i_mn i2 = LDA /\ k_acc (z_k z) = None.
  Proof.
    unfold pswap. intros -> H. apply andb_true_iff in H. destruct H as [H1 H2].
    apply andb_true_iff in H2. destruct H2 as [H2 H3]. apply mnem_eqb_eq in H2.
    destruct (k_acc (z_k z)); [discriminate H3|]. auto.
  Qed.

  Lemma pair_rules_rs0_cf (k : know) (i1 i2 : instr) :
    snd (fst (pair_rules k i1 i2)) = true ->
    rs0_shape k i1 i2 \/ (i_mn i1 = JMP /\ i_mn i2 = JMP).
  Proof.
    intros E. unfold pair_rules in E. cbv beta zeta in E. cbn [fst snd] in E. unfold rs0_shape.
    OptSimFacts.bsplit; tauto.
  Qed.

  Lemma rs0_shape_plain2 (k : know) (i1 i2 : instr) : rs0_shape k i1 i2 -> plain (i_mn i2) = true.
  Proof.
    unfold rs0_shape. intros H.
    destruct H as [(_ & M & _)|[([[_ M]|[[_ M]|[_ M]]] & _)|[[[_ M]|[[_ M]|[[_ M]|[_ M]]]]|(M & _)]]];
      rewrite M; reflexivity.
  Qed.

  (** (P)+(T)+(A): every branch of [step_pair] but remove_both *)
  Lemma step_pair_cf (z : zst) (i2 : instr) (ahead : list line) :
    InvS z -> z_rest z = Ins i2 :: ahead ->
    fst (fst (fst (pair_rules (z_k z) (z_f z) i2))) = false ->
    ResCF (step_pair z i2 ahead).
  Proof.
    intros [(OKC & MID & ND & KOK & JK & EQV & KI) (m0 & RW)] ER RB.
    assert (MQ : OptFacts.mid_ok z) by (unfold OptFacts.mid_ok; rewrite quiet_skip; exact MID).
    destruct (OptFacts.step_pair_spec z i2 ahead ER MQ) as [GOOD MU].
    pose proof (pswap_true' z i2 ahead ER) as PSW.
    destruct (z_code_parts z OKC) as (OKP & OK1 & OKR). rewrite ER in OKR.
    apply cfc_ok_cons in OKR. destruct OKR as [OK2 OKA]. cbn [cfc_line_ok] in OK2.
    destruct z as [pre i1 mid rest k n]. cbn [z_pre z_f z_mid z_rest z_k z_removed] in *. subst rest.
    set (z0 := mkZ pre i1 mid (Ins i2 :: ahead) k n) in *.
    (* what the new state must satisfy, the structural part coming from [step_pair_spec] *)
    assert (FIN : forall z', OptFacts.good (z_code z0) n (Next z') -> OptFacts.mid_ok z' ->
              know_ops_ok cfg (z_k z') -> (i_mn (z_f z') = JMP \/ i_mn (z_f z') = JSR -> z_k z' = k_none) ->
              (cfc_ok cfg (z_code z') = true -> cfc_equiv Or cfg (z_code z0) (z_code z')) ->
              KInvC cfg (pswap z') (z_pre z') (z_f z') (z_k z') -> InvS z').
    { intros z' G MQ' KO' JK' EQ' KI'. cbn [OptFacts.good] in G. destruct G as (m1 & RW1 & _).
      apply InvS_intro; try assumption.
      - exists (m0 + m1)%N. exact (OptFacts.rws_trans _ _ _ _ _ RW RW1).
      - apply (cfc_equiv_trans _ _ EQV). apply EQ'. exact (proj1 (rws_struct cfg m1 _ _ RW1) OKC). }
    pose proof (pair_rules_rs0_cf k i1 i2) as SH.
    pose proof (pair_rules_rf_shape k i1 i2) as RF.
    pose proof (pair_rules_sw_shape k i1 i2) as SW.
    assert (KI' : pswap z0 = false -> KInvC cfg false pre i1 k).
    { intros E. rewrite E in KI. exact KI. }
    assert (ZC : z_code z0 = rev pre ++ Ins i1 :: rev mid ++ Ins i2 :: ahead) by reflexivity.
    revert GOOD MU. unfold step_pair. cbn [z0 z_pre z_f z_mid z_rest z_k z_removed].
    destruct (pair_rules k i1 i2) as [[[rb rf] rs0] sw]. cbn [fst snd] in RB, SH, RF, SW.
    subst rb.
    destruct sw.
    - (* swap *)
      destruct (SW eq_refl) as [M1 F2].
      assert (RS0 : rs0 = false).
      { destruct rs0; [|reflexivity]. exfalso. destruct (SH eq_refl) as [S|[_ MJ]].
        - exact (rs0_shape_not_before_flag_setter k i1 i2 M1 F2 S).
        - apply flag_setter_cases in F2. destruct F2; congruence. }
      subst rs0. cbn [negb andb]. rewrite (transfer_flag_setter k i2 ahead F2).
      cbv beta iota zeta. intros GOOD [_ MQ'].
      cbn [ResCF]. apply FIN; [exact GOOD|exact MQ'| | | |]; cbn [z_pre z_f z_mid z_rest z_k].
      + intros o op [H|[H|H]] P; cbn [k_acc k_x k_y] in H; [discriminate H| |]; apply (KOK o op); auto.
      + intros [MJ|MJ]; apply flag_setter_cases in F2; destruct F2; congruence.
      + intros OKN.
        assert (P1 : plain (i_mn i1) = true) by (rewrite M1; reflexivity).
        assert (P2 : plain (i_mn i2) = true)
          by (apply flag_setter_cases in F2; destruct F2 as [F|F]; rewrite F; reflexivity).
        assert (E1 : z_code z0 = rev pre ++ (Ins i1 :: rev mid ++ [Ins i2]) ++ ahead)
          by (rewrite ZC; lnorm; reflexivity).
        assert (E2 : z_code (mkZ pre i2 mid (Ins i1 :: ahead) (mkK None (k_x k) (k_y k) (k_flags k)) n)
                     = rev pre ++ (Ins i2 :: rev mid ++ [Ins i1]) ++ ahead)
          by (unfold z_code; cbn [z_pre z_f z_mid z_rest]; lnorm; reflexivity).
        rewrite E2 in OKN |- *. rewrite E1.
        pose proof (plain_not_jsr _ P1) as J1. pose proof (plain_not_jsr _ P2) as J2.
        apply rewrite_equiv; [exact OKN| | | |].
        * apply nobarc_ins_mid; [assumption|exact MID|]. unfold nobarc. cbn [forallb wline]. rewrite J2. reflexivity.
        * apply nobarc_ins_mid; [assumption|exact MID|]. unfold nobarc. cbn [forallb wline]. rewrite J1. reflexivity.
        * cbn [length]. rewrite !app_length. reflexivity.
        * intros s s1 HB B. apply (tsim_sw cfg i1 i2 mid s1 MID P1 P2).
          intros s2 s3 ST1 ST2.
          exact (rule_swap_lda_carry cfg i1 i2 s1 s2 s3 M1 (flag_setter_cases _ F2) ST1 ST2).
      + assert (PS : pswap (mkZ pre i2 mid (Ins i1 :: ahead) (mkK None (k_x k) (k_y k) (k_flags k)) n) = true).
        { unfold pswap. cbn [z_f z_rest z_k k_acc]. rewrite F2, M1. reflexivity. }
        rewrite PS. exact (kinv_sw cfg _ pre i1 i2 k HP KI M1 F2 OK1).
    - destruct rs0.
      + (* remove_second by a pair rule *)
        cbn [negb andb]. cbv beta iota zeta. intros GOOD [_ MQ'].
        destruct (pswap z0) eqn:PS.
        { exfalso. destruct (PSW eq_refl) as (F & L & _). destruct (SH eq_refl) as [S|[MJ _]].
          - exact (rs0_shape_not_after_flag_setter k i1 i2 F L S).
          - apply flag_setter_cases in F. destruct F; congruence. }
        pose proof (KI' eq_refl) as KIf.
        cbn [ResCF]. apply FIN; [exact GOOD|exact MQ'|exact KOK|exact JK| |apply KInvC_weaken; exact KIf].
        intros OKN.
        assert (E1 : z_code z0 = rev pre ++ (Ins i1 :: rev mid ++ Ins i2 :: []) ++ ahead)
          by (rewrite ZC; lnorm; reflexivity).
        assert (E2 : z_code (mkZ pre i1 (Dummy :: mid) ahead k (n + 1)%N)
                     = rev pre ++ (Ins i1 :: rev mid ++ Dummy :: []) ++ ahead)
          by (unfold z_code; cbn [z_pre z_f z_mid z_rest]; lnorm; reflexivity).
        rewrite E2 in OKN |- *. rewrite E1.
        assert (J1 : mnem_eqb (i_mn i1) JSR = false).
        { destruct (mnem_eqb (i_mn i1) JSR) eqn:J; [exfalso|reflexivity]. apply mnem_eqb_eq in J.
          specialize (JK (or_intror J)). subst k.
          destruct (SH eq_refl) as [S|[MJ _]]; [|congruence].
          unfold rs0_shape in S. rewrite J in S. cbn [k_none k_flags] in S.
          intuition congruence. }
        assert (J2 : mnem_eqb (i_mn i2) JSR = false).
        { destruct (SH eq_refl) as [S|[_ MJ]]; [exact (plain_not_jsr _ (rs0_shape_plain2 k i1 i2 S))|].
          rewrite MJ. reflexivity. }
        apply rewrite_equiv; [exact OKN| | | |].
        * apply nobarc_ins_mid; [assumption|exact MID|]. unfold nobarc. cbn [forallb wline]. rewrite J2. reflexivity.
        * apply nobarc_ins_mid; [assumption|exact MID|reflexivity].
        * cbn [length]. rewrite !app_length. reflexivity.
        * intros s s1 HB B.
          assert (HB1 : bytes_ok s1) by (exact (gbfall_bytes cfg _ s s1 HB B)).
          apply (tsim_rs cfg i1 i2 mid [] s1 MID).
          -- destruct (SH eq_refl) as [S|[MJ _]]; [left; exact (rs0_shape_plain2 k i1 i2 S)|right; exact MJ].
          -- intros s2 s3 ST1 ST2 r Br. cbn [gbexec] in Br |- *. inversion Br; subst r.
             eexists. split; [reflexivity|]. cbn [gbres_eq]. apply eq_state_sym.
             destruct (SH eq_refl) as [S|[MJ _]]; [|exfalso; exact (jmp_no_step cfg i1 s1 s2 MJ ST1)].
             apply (rs0_sound_cf cfg k i1 i2 s1 s2 s3 HP HB1 OK1 S); [|exact ST1|exact ST2].
             apply (KIf s s2 HB). apply gbfall_snoc. eauto.
      + cbn [negb andb].
        pose proof (kinv_advance cfg (pswap z0) pre mid i1 i2 k ahead HP KI (fun E => JK (or_intror E))) as KADV.
        pose proof (kinv_removed cfg pre i1 i2 k ahead) as KREM.
        pose proof (kinv_rf cfg pre mid i1 i2 k ahead HP) as KRF.
        pose proof (know_ops_ok_transfer_cf cfg k i2 ahead OK2 KOK) as KOK1.
        pose proof (transfer_rs_known k i2 ahead) as TK.
        pose proof (removal_window cfg k i2 ahead HP OKA) as RWIN.
        pose proof (transfer_jmp k i2 ahead) as TJ.
        destruct (transfer k i2 ahead) as [k1 rs]. cbn [fst snd] in *. cbv beta iota zeta.
        destruct rs.
        * (* remove_second by [transfer] *)
          intros GOOD [_ MQ'].
          destruct (pswap z0) eqn:PS.
          { exfalso. destruct (PSW eq_refl) as (F & L & A).
            destruct (TK eq_refl) as [[_ H]|[[H _]|[H _]]]; congruence. }
          pose proof (KI' eq_refl) as KIf.
          assert (P2 : plain (i_mn i2) = true).
          { destruct (TK eq_refl) as [[H _]|[[H _]|[H _]]]; rewrite H; reflexivity. }
          cbn [ResCF]. apply FIN; [exact GOOD|exact MQ'|exact KOK1| |
                                   |apply KInvC_weaken; exact (KREM KIf eq_refl)].
          -- cbn [z_f z_k]. intros MJ. specialize (JK MJ). subst k.
             destruct (TK eq_refl) as [[_ H]|[[_ H]|[_ H]]]; discriminate H.
          -- intros OKN. destruct (RWIN eq_refl) as (X & R & EA & NX & HX). subst ahead.
             assert (E1 : z_code z0 = rev pre ++ (Ins i1 :: rev mid ++ Ins i2 :: X) ++ R)
               by (rewrite ZC; lnorm; reflexivity).
             assert (E2 : z_code (mkZ pre i1 (Dummy :: mid) (X ++ R) k1 (n + 1)%N)
                          = rev pre ++ (Ins i1 :: rev mid ++ Dummy :: X) ++ R)
               by (unfold z_code; cbn [z_pre z_f z_mid z_rest]; lnorm; reflexivity).
             rewrite E2 in OKN |- *. rewrite E1.
             assert (J1 : mnem_eqb (i_mn i1) JSR = false).
             { destruct (mnem_eqb (i_mn i1) JSR) eqn:J; [exfalso|reflexivity]. apply mnem_eqb_eq in J.
               specialize (JK (or_intror J)). subst k.
               destruct (TK eq_refl) as [[_ H]|[[_ H]|[_ H]]]; discriminate H. }
             pose proof (plain_not_jsr _ P2) as J2.
             apply rewrite_equiv; [exact OKN| | | |].
             ++ apply nobarc_ins_mid; [assumption|exact MID|]. unfold nobarc. cbn [forallb wline]. rewrite J2. exact NX.
             ++ apply nobarc_ins_mid; [assumption|exact MID|]. unfold nobarc. cbn [forallb wline]. exact NX.
             ++ cbn [length]. rewrite !app_length. reflexivity.
             ++ intros s s1 HB B.
                apply (tsim_rs cfg i1 i2 mid X s1 MID (or_introl P2)).
                intros s2 s3 ST1 ST2. apply HX; [|exact ST2].
                apply (KIf s s2 HB). apply gbfall_snoc. eauto.
        * destruct rf.
          -- (* remove_first *)
             intros GOOD [_ MQ'].
             destruct (pswap z0) eqn:PS.
             { exfalso. destruct (PSW eq_refl) as (F & L & A). apply flag_setter_cases in F.
               destruct (RF eq_refl) as [[H _]|[[H _]|[H _]]]; destruct F; congruence. }
             pose proof (KI' eq_refl) as KIf.
             assert (P1 : plain (i_mn i1) = true)
               by (destruct (RF eq_refl) as [[H _]|[[H _]|[H _]]]; rewrite H; reflexivity).
             assert (P2 : plain (i_mn i2) = true)
               by (destruct (RF eq_refl) as [[_ H]|[[_ H]|[_ H]]]; rewrite H; reflexivity).
             cbn [ResCF]. apply FIN; [exact GOOD|exact MQ'|exact KOK1|exact TJ| |].
             ++ intros OKN.
                assert (E1 : z_code z0 = rev pre ++ (Ins i1 :: rev mid ++ [Ins i2]) ++ ahead)
                  by (rewrite ZC; lnorm; reflexivity).
                assert (E2 : z_code (mkZ (mid ++ Dummy :: pre) i2 [] ahead k1 (n + 1)%N)
                             = rev pre ++ (Dummy :: rev mid ++ [Ins i2]) ++ ahead)
                  by (unfold z_code; cbn [z_pre z_f z_mid z_rest]; lnorm; reflexivity).
                rewrite E2 in OKN |- *. rewrite E1.
                pose proof (plain_not_jsr _ P1) as J1. pose proof (plain_not_jsr _ P2) as J2.
                apply rewrite_equiv; [exact OKN| | | |].
                ** apply nobarc_ins_mid; [assumption|exact MID|]. unfold nobarc. cbn [forallb wline]. rewrite J2. reflexivity.
                ** unfold nobarc. cbn [forallb wline]. rewrite forallb_app. cbn [forallb wline].
                   fold (nobarc (rev mid)). rewrite (nobarc_skip _ (skip_rev _ MID)), J2. reflexivity.
                ** cbn [length]. rewrite !app_length. reflexivity.
                ** intros s s1 HB B. apply (tsim_rf cfg i1 i2 mid s1 MID P1 P2).
                   intros s2 s3 ST1 ST2.
                   exact (rule_load_load cfg i1 i2 s1 s2 s3 (RF eq_refl) (cfc_ind_legal cfg i2 OK2) ST1 ST2).
             ++ apply KInvC_weaken. cbn [z_pre z_f z_k].
                exact (KRF KIf (RF eq_refl) OK1 OK2 KOK MID eq_refl).
          -- (* nothing removed: advance *)
             intros GOOD [_ MQ'].
             cbn [ResCF]. apply FIN; [exact GOOD|exact MQ'|exact KOK1|exact TJ| |].
             ++ intros _. apply cfc_equiv_eq. rewrite ZC. unfold z_code. cbn [z_pre z_f z_mid z_rest].
                lnorm. reflexivity.
             ++ apply KInvC_weaken. cbn [z_pre z_f z_k]. apply KADV; try assumption; try reflexivity.
                intros E. destruct (PSW E) as (_ & L & A). auto.
  Qed.

  (** (J): a JMP to the label that follows it goes where falling through goes *)
  Lemma step_jmp_cf (z : zst) : InvS z -> ResCF (step_jmp z).
  Proof.
    intros I. pose proof I as [(OKC & MID & ND & KOK & JK & EQV & KI) (m0 & RW)].
    destruct (OptFacts.step_jmp_spec z) as [GOOD _].
    destruct (z_code_parts z OKC) as (OKP & OK1 & OKR).
    destruct z as [pre f mid rest k n]. unfold step_jmp in *.
    cbn [z_pre z_f z_mid z_rest z_k z_removed] in *.
    destruct rest as [|x r]; [exact I|].
    destruct x as [l|j|t sz|cm|]; try exact I.
    destruct (mnem_eqb (i_mn f) JMP && String.eqb (i_op f) l && negb (i_prot f)) eqn:C; [|exact I].
    apply andb_true_iff in C. destruct C as [C _]. apply andb_true_iff in C. destruct C as [M EL].
    apply mnem_eqb_eq in M. apply String.eqb_eq in EL.
    apply cfc_ok_cons in OKR. destruct OKR as [_ OKR].
    (* the rewriting itself *)
    assert (EQ : cfc_ok cfg (rev pre ++ (Dummy :: rev mid) ++ Lbl l :: r) = true ->
                 cfc_equiv Or cfg (rev pre ++ (Ins f :: rev mid) ++ Lbl l :: r)
                              (rev pre ++ (Dummy :: rev mid) ++ Lbl l :: r)).
    { intros OKN. apply window; [| | |exact OKN|].
      - pose proof (nobarc_ins_mid f mid [] ltac:(rewrite M; reflexivity) MID eq_refl) as NB. rewrite app_nil_r in NB. exact NB.
      - unfold nobarc. cbn [forallb]. fold (nobarc (rev mid)). exact (nobarc_skip _ (skip_rev _ MID)).
      - reflexivity.
      - intros s r0 k0 HB B D.
        destruct (gbexec_ins_inv cfg f _ s r0 B) as [(s1 & ST & _)|[(l' & s1 & J & ->)|(s1 & J & _)]];
          [exfalso; exact (jmp_no_step cfg f s s1 M ST)| |exfalso; exact (jmp_no_ret cfg f s s1 M J)].
        destruct (jmp_jumps cfg f s s1 l' M J) as [-> ->]. rewrite EL in D. cbn [gdest] in D.
        exists (GFall s). cbn [gbexec]. rewrite (gbexec_skip cfg _ (skip_rev _ MID)).
        split; [reflexivity|]. split; [|apply eq_state_refl]. cbn [gdest gst]. rewrite <- D.
        symmetry. rewrite find_lbl_app.
        assert (NL : ~ In l (lbls (rev pre))).
        { unfold z_code in ND. cbn [z_pre z_f z_mid z_rest] in ND.
          rewrite !lbls_app in ND. cbn [lbls] in ND. rewrite lbls_app in ND. cbn [lbls] in ND.
          rewrite app_assoc in ND. apply NoDup_remove_2 in ND. intros X. apply ND.
          apply in_or_app. left. apply in_or_app. left. exact X. }
        rewrite (find_lbl_none l _ NL). rewrite find_lbl_app.
        assert (NB : nobarc (Ins f :: rev mid) = true).
        { pose proof (nobarc_ins_mid f mid [] ltac:(rewrite M; reflexivity) MID eq_refl) as NB0. rewrite app_nil_r in NB0. exact NB0. }
        rewrite (find_lbl_nobar l _ NB). cbn [find_lbl]. rewrite String.eqb_refl. cbn [option_map].
        f_equal. lia. }
    assert (ZC : z_code (mkZ pre f mid (Lbl l :: r) k n) = rev pre ++ (Ins f :: rev mid) ++ Lbl l :: r)
      by (unfold z_code; cbn [z_pre z_f z_mid z_rest]; lnorm; reflexivity).
    assert (NC : rev (Lbl l :: mid ++ Dummy :: pre) ++ r = rev pre ++ (Dummy :: rev mid) ++ Lbl l :: r)
      by (lnorm; reflexivity).
    destruct (skip_to_ins (Lbl l :: mid ++ Dummy :: pre) r) as [[[pre'' i] r']|] eqn:S.
    - pose proof (OptFacts.skip_to_ins_some _ _ _ _ _ S) as [S1 _].
      cbn [OptFacts.good] in GOOD. destruct GOOD as (m1 & RW1 & _).
      assert (ZC' : z_code (mkZ pre'' i [] r' k (n + 1)%N) = rev pre ++ (Dummy :: rev mid) ++ Lbl l :: r).
      { unfold z_code. cbn [z_pre z_f z_mid z_rest rev app]. rewrite <- S1. exact NC. }
      cbn [ResCF]. apply InvS_intro; cbn [z_pre z_f z_mid z_rest z_k].
      + exists (m0 + m1)%N. exact (OptFacts.rws_trans _ _ _ _ _ RW RW1).
      + reflexivity.
      + exact KOK.
      + intros _. exact (JK (or_introl M)).
      + apply (cfc_equiv_trans _ _ EQV). rewrite ZC, ZC'. apply EQ. rewrite <- ZC'.
        exact (proj1 (rws_struct cfg m1 _ _ RW1) OKC).
      + rewrite (JK (or_introl M)). apply kinv_none.
    - unfold finish in *. cbn [OptFacts.good] in GOOD. destruct GOOD as (m1 & RW1 & _).
      cbn [ResCF]. apply (cfc_equiv_trans _ _ EQV). rewrite ZC, NC. apply EQ. rewrite <- NC.
      exact (proj1 (rws_struct cfg m1 _ _ RW1) OKC).
  Qed.

  (** (S): nothing is rewritten; after a label the knowledge is reset, and the new knowledge is
      sound whatever the state in which the label is reached *)
  Definition know_part (z : zst) : Prop :=
    know_ops_ok cfg (z_k z) /\ (i_mn (z_f z) = JMP \/ i_mn (z_f z) = JSR -> z_k z = k_none) /\
    KInvC cfg (pswap z) (z_pre z) (z_f z) (z_k z).

  Lemma step_second_know (B : nat) :
    forall rest : list line, (length rest <= B)%nat ->
    forall (pre : list line) (f : instr) (mid : list line) (k : know) (n : N),
    cfc_ok cfg rest = true -> know_part (mkZ pre f mid rest k n) ->
    match step_second pre f mid rest k n with
    | Done _ _ => True
    | Next z2 => know_part z2
    end.
  Proof.
    induction B as [|B IHB]; intros rest LB pre f mid k n OKR KP.
    - destruct rest as [|x r]; [exact I|cbn [length] in LB; lia].
    - destruct rest as [|x r]; [exact I|].
      cbn [length] in LB. assert (Lr : (length r <= B)%nat) by lia.
      apply cfc_ok_cons in OKR. destruct OKR as [OKx OKr].
      assert (FA : forall (r0 p : list line), (length r0 <= B)%nat -> cfc_ok cfg r0 = true ->
                forallb skip_line (cblk p) = true ->
                match OptFacts.find_after p r0 k n with
                | Done _ _ => True
                | Next z2 => know_part z2
                end).
      { induction r0 as [|y r0 IHr]; intros p L0 OK0' Q; [exact I|].
        cbn [length] in L0. apply cfc_ok_cons in OK0'. destruct OK0' as [OKy OKr0].
        destruct y as [l'|j'|t' sz'|s'|]; cbn [OptFacts.find_after]; try discriminate OKy.
        - apply IHr; [lia|exact OKr0|]. apply cblk_quiet_cons; [reflexivity|exact Q].
        - cbn [cfc_line_ok] in OKy. apply IHB; [lia|exact OKr0|].
          unfold know_part. cbn [z_pre z_f z_mid z_rest z_k]. rewrite analyse_label.
          split; [exact (know_ops_ok_start cfg j' OKy)|]. split; [exact (analyse_start_jmp j')|].
          apply KInvC_weaken. exact (kinv_start cfg p j' HP Q OKy).
        - apply IHr; [lia|exact OKr0|]. apply cblk_quiet_cons; [reflexivity|exact Q].
        - apply IHr; [lia|exact OKr0|]. apply cblk_quiet_cons; [reflexivity|exact Q]. }
      destruct KP as (KO & JK & KI).
      assert (PS0 : forall m', pswap (mkZ pre f m' (x :: r) k n) = false ->
                    KInvC cfg false pre f k).
      { intros m' E. cbn [z_pre z_f z_k] in KI. unfold pswap in KI, E. cbn [z_f z_rest z_k] in KI, E.
        rewrite E in KI. exact KI. }
      destruct x as [l|j|t sz|s|]; try discriminate OKx.
      + rewrite OptFacts.step_second_lbl. apply FA; [exact Lr|exact OKr|reflexivity].
      + cbn [step_second]. split; [exact KO|]. split; [exact JK|exact KI].
      + cbn [step_second]. apply IHB; [exact Lr|exact OKr|].
        split; [exact KO|]. split; [exact JK|]. cbn [z_pre z_f z_k]. apply KInvC_weaken.
        apply (PS0 mid). unfold pswap. cbn [z_f z_rest]. apply andb_false_r.
      + cbn [step_second]. apply IHB; [exact Lr|exact OKr|].
        split; [exact KO|]. split; [exact JK|]. cbn [z_pre z_f z_k]. apply KInvC_weaken.
        apply (PS0 mid). unfold pswap. cbn [z_f z_rest]. apply andb_false_r.
  Qed.

  Lemma step_second_cf (z : zst) :
    InvS z ->
    match step_second (z_pre z) (z_f z) (z_mid z) (z_rest z) (z_k z) (z_removed z) with
    | Done c _ => cfc_equiv Or cfg c0 c
    | Next z2 => InvS z2 /\ exists i2 ahead, z_rest z2 = Ins i2 :: ahead
    end.
  Proof.
    intros [(OKC & MID & ND & KOK & JK & EQV & KI) (m0 & RW)].
    assert (MQ : OptFacts.mid_ok z) by (unfold OptFacts.mid_ok; rewrite quiet_skip; exact MID).
    pose proof (OptFacts.step_second_spec z MQ) as SS.
    destruct (z_code_parts z OKC) as (_ & _ & OKR).
    pose proof (step_second_know (length (z_rest z)) (z_rest z) (le_n _) (z_pre z) (z_f z) (z_mid z)
                  (z_k z) (z_removed z) OKR) as SK.
    destruct (step_second (z_pre z) (z_f z) (z_mid z) (z_rest z) (z_k z) (z_removed z)) as [c n'|z2].
    - cbn [OptFacts.second_ok] in SS. destruct SS as [-> _]. exact EQV.
    - cbn [OptFacts.second_ok] in SS. destruct SS as (S1 & _ & MQ2 & S3 & _).
      split; [|exact S3].
      destruct SK as (KO2 & JK2 & KI2).
      { destruct z; split; [exact KOK|]. split; [exact JK|exact KI]. }
      apply InvS_intro; try assumption.
      + exists m0. rewrite S1. exact RW.
      + rewrite S1. exact EQV.
  Qed.

  Lemma step_cf (z : zst) : InvS z -> rb_here z = false -> ResCF (step z).
  Proof.
    intros I RB. unfold step. unfold rb_here in RB.
    pose proof (step_jmp_cf z I) as J.
    destruct (step_jmp z) as [c n|z1]; [exact J|]. cbn [ResCF] in J.
    pose proof (step_second_cf z1 J) as S.
    destruct (step_second (z_pre z1) (z_f z1) (z_mid z1) (z_rest z1) (z_k z1) (z_removed z1)) as [c n|z2];
      [exact S|].
    destruct S as [I2 (i2 & ahead & E)]. rewrite E in RB |- *.
    exact (step_pair_cf z2 i2 ahead I2 E RB).
  Qed.

  Lemma run_cf (fuel : nat) : forall (z : zst) (c : code) (n : N),
    InvS z -> run_rb_free fuel z = true -> run fuel z = Some (c, n) -> cfc_equiv Or cfg c0 c.
  Proof.
    induction fuel as [|fuel IH]; intros z c n I RB R; [discriminate R|].
    cbn [run] in R. cbn [run_rb_free] in RB. apply andb_true_iff in RB. destruct RB as [RB1 RB2].
    apply negb_true_iff in RB1. pose proof (step_cf z I RB1) as RS.
    destruct (step z) as [c' n'|z'].
    - inversion R; subst. exact RS.
    - exact (IH z' c n RS RB2 R).
  Qed.

  Lemma InvS_init (pre : list line) (i : instr) (r : list line) :
    skip_to_ins [] c0 = Some (pre, i, r) ->
    InvS (mkZ pre i [] r (analyse_load AlStart k_init i) 0%N).
  Proof.
    intros SK. pose proof (OptFacts.skip_to_ins_some _ _ _ _ _ SK) as [S1 _]. cbn [rev app] in S1.
    assert (ZC : z_code (mkZ pre i [] r (analyse_load AlStart k_init i) 0%N) = c0).
    { unfold z_code. cbn [z_pre z_f z_mid z_rest rev app]. symmetry. exact S1. }
    assert (OKi : cfc_ins_ok cfg i = true).
    { pose proof OK0 as O. rewrite S1 in O. apply cfc_ok_app in O. destruct O as [_ O].
      apply cfc_ok_cons in O. exact (proj1 O). }
    apply InvS_intro; cbn [z_pre z_f z_mid z_rest z_k].
    - exists 0%N. rewrite ZC. apply OptFacts.rws_refl.
    - reflexivity.
    - exact (know_ops_ok_start cfg i OKi).
    - exact (analyse_start_jmp i).
    - rewrite ZC. apply cfc_equiv_eq. reflexivity.
    - apply KInvC_weaken. apply (kinv_start cfg pre i HP); [|exact OKi].
      exact (skip_to_ins_blk cfg c0 [] pre i r SK OK0 eq_refl).
  Qed.

  Theorem optimize_cf_equiv : rb_free c0 = true -> cfc_equiv Or cfg c0 (fst (optimize c0)).
  Proof.
    intros RB. unfold optimize, optimize_opt. unfold rb_free in RB.
    destruct (skip_to_ins [] c0) as [[[pre i] r]|] eqn:SK; [|apply cfc_equiv_eq; reflexivity].
    destruct (run (optimize_fuel c0) (mkZ pre i [] r (analyse_load AlStart k_init i) 0%N))
      as [[c' n]|] eqn:R; [|apply cfc_equiv_eq; reflexivity].
    cbn [fst]. exact (run_cf (optimize_fuel c0) _ c' n (InvS_init pre i r SK) RB R).
  Qed.
End CF.
End WithOracle.

(** * One function body: the theorem, for every well-behaved oracle *)

Definition oracle_ok (Or : oracle) : Prop :=
  (forall f s t s1, eq_state s t -> bytes_ok s -> bytes_ok t -> Or f s = Some s1 ->
     exists t1, Or f t = Some t1 /\ eq_state s1 t1) /\
  (forall f s s1, bytes_ok s -> Or f s = Some s1 -> bytes_ok s1).

(** a body with labels, branches, JMP, calls and returns: whenever the original ends (by an RTS
    or by falling off its end), the optimised body ends the same way in an equal state, the calls
    being answered alike *)
Theorem optimize_call_equiv : forall Or cfg c,
  oracle_ok Or -> ports cfg = [] -> cfc_ok cfg c = true -> NoDup (lbls c) -> rb_free c = true ->
  cfc_equiv Or cfg c (fst (optimize c)).
Proof. intros Or cfg c [H1 H2]. exact (optimize_cf_equiv Or H1 H2 cfg c). Qed.
Print Assumptions optimize_call_equiv.

Lemma optimize_cfc_ok (cfg : config) (c : code) : cfc_ok cfg c = true -> cfc_ok cfg (fst (optimize c)) = true.
Proof. exact (proj1 (rws_struct cfg _ _ _ (OptFacts.optimize_rws c))). Qed.

(** * Runs under related oracles *)

Definition oracle_le (O1 O2 : oracle) : Prop := forall f s s1, O1 f s = Some s1 -> O2 f s = Some s1.

Lemma grun_mono (O1 O2 : oracle) (cfg : config) (c : code) :
  oracle_le O1 O2 -> forall n pc s r, grun O1 cfg c n pc s = Some r -> grun O2 cfg c n pc s = Some r.
Proof.
  intros LE. induction n as [|n IH]; intros pc s r H; [exact H|].
  cbn [grun] in H |- *.
  destruct (nth_error c pc) as [[l|i|t sz|cm|]|]; try discriminate H; try (apply IH; exact H).
  destruct (parse_operand (i_mn i) (i_op i)) as [op|]; [|discriminate H].
  destruct (exec cfg (i_mn i) op s) as [s1 k f|w]; [|discriminate H].
  destruct f as [|l|g| |]; try discriminate H; try (apply IH; exact H).
  - destruct (find_lbl l c); [apply IH; exact H|discriminate H].
  - destruct (O1 g s1) as [s2|] eqn:E; [|discriminate H]. rewrite (LE g s1 s2 E). apply IH. exact H.
Qed.

(** a family of oracles, growing with its index, answers every call of [O] in an equal state:
    every run under [O] is a run under some member of the family *)
Lemma grun_refine (Oc : oracle) (Fam : nat -> oracle) (cfg : config) (c : code) :
  cfc_ok cfg c = true ->
  (forall K K', (K <= K')%nat -> oracle_le (Fam K) (Fam K')) ->
  (forall f s t s1, eq_state s t -> bytes_ok s -> bytes_ok t -> Oc f s = Some s1 ->
     exists K t1, Fam K f t = Some t1 /\ eq_state s1 t1) ->
  (forall f s s1, bytes_ok s -> Oc f s = Some s1 -> bytes_ok s1) ->
  (forall K f s s1, bytes_ok s -> Fam K f s = Some s1 -> bytes_ok s1) ->
  forall n pc s t p s1, eq_state s t -> bytes_ok s -> bytes_ok t ->
    grun Oc cfg c n pc s = Some (p, s1) ->
    exists K t1, grun (Fam K) cfg c n pc t = Some (p, t1) /\ eq_state s1 t1.
Proof.
  intros OK MONO REL OB FB. induction n as [|n IH]; intros pc s t p s1 E HBs HBt H.
  - cbn [grun] in H |- *. inversion H; subst. exists O%nat, t. auto.
  - cbn [grun] in H |- *.
    destruct (nth_error c pc) as [[l|i|tx sz|cm|]|] eqn:NC; try discriminate H;
      try (exact (IH _ _ _ _ _ E HBs HBt H)).
    assert (OKi : cfc_ins_ok cfg i = true).
    { apply nth_error_In in NC. exact (proj1 (forallb_forall _ _) OK _ NC). }
    destruct (parse_operand (i_mn i) (i_op i)) as [op|]; [|discriminate H].
    pose proof (exec_cf_eq cfg (i_mn i) op s t (cfc_ins_mnem cfg i OKi) E) as X.
    destruct (exec cfg (i_mn i) op s) as [u1 c1 f1|w1] eqn:X1; [|discriminate H].
    destruct (exec cfg (i_mn i) op t) as [u2 c2 f2|w2] eqn:X2; cbn [outcome_eq] in X; [|contradiction].
    destruct X as (_ & <- & X).
    pose proof (GenTemplatesFacts.exec_bytes_ok _ _ _ _ _ _ _ X1 HBs) as HB1.
    pose proof (GenTemplatesFacts.exec_bytes_ok _ _ _ _ _ _ _ X2 HBt) as HB2.
    destruct f1 as [|l|g| |]; try discriminate H; try (exact (IH _ _ _ _ _ X HB1 HB2 H)).
    + destruct (find_lbl l c); [exact (IH _ _ _ _ _ X HB1 HB2 H)|discriminate H].
    + destruct (Oc g u1) as [v1|] eqn:OG; [|discriminate H].
      destruct (REL g u1 u2 v1 X HB1 HB2 OG) as (K1 & v2 & FG & EV).
      destruct (IH _ _ _ _ _ EV (OB _ _ _ HB1 OG) (FB _ _ _ _ HB2 FG) H) as (K2 & t1 & G2 & E2).
      exists (Nat.max K1 K2), t1. split; [|exact E2].
      rewrite (MONO K1 (Nat.max K1 K2) (Nat.le_max_l _ _) g u2 v2 FG).
      exact (grun_mono _ _ cfg c (MONO K2 _ (Nat.le_max_r _ _)) _ _ _ _ G2).
Qed.

Lemma grun_bytes (Oc : oracle) (cfg : config) (c : code) :
  (forall f s s1, bytes_ok s -> Oc f s = Some s1 -> bytes_ok s1) ->
  forall n pc s p s1, bytes_ok s -> grun Oc cfg c n pc s = Some (p, s1) -> bytes_ok s1.
Proof.
  intros OB. induction n as [|n IH]; intros pc s p s1 HB H.
  - cbn [grun] in H. inversion H; subst. exact HB.
  - cbn [grun] in H.
    destruct (nth_error c pc) as [[l|i|tx sz|cm|]|]; try discriminate H; try (exact (IH _ _ _ _ HB H)).
    destruct (parse_operand (i_mn i) (i_op i)) as [op|]; [|discriminate H].
    destruct (exec cfg (i_mn i) op s) as [u1 c1 f1|w1] eqn:X1; [|discriminate H].
    pose proof (GenTemplatesFacts.exec_bytes_ok _ _ _ _ _ _ _ X1 HB) as HB1.
    destruct f1 as [|l|g| |]; try discriminate H; try (exact (IH _ _ _ _ HB1 H)).
    + destruct (find_lbl l c); [exact (IH _ _ _ _ HB1 H)|discriminate H].
    + destruct (Oc g u1) as [v1|] eqn:OG; [|discriminate H]. exact (IH _ _ _ _ (OB _ _ _ HB1 OG) H).
Qed.

(** * The markers pushed by JSR, checked by RTS *)

Lemma push_eq (s t : mstate) (v : Z) : eq_state s t -> eq_state (push s v) (push t v).
Proof.
  intros ((HA & HX & HY & HS & HV & HC & HM) & HN & HZ). unfold push, eq_state, eq_mod_nz.
  cbn [rA rX rY rS fN fV fZ fC mem set_sp set_mem]. rewrite HS.
  repeat split; try assumption. intros a. apply mget_mset_ext. exact HM.
Qed.

Lemma push2_eq (s t : mstate) (d : nat) : eq_state s t -> eq_state (push2 s d) (push2 t d).
Proof. intros H. unfold push2. apply push_eq. apply push_eq. exact H. Qed.

Lemma push2_bytes (s : mstate) (d : nat) : bytes_ok s -> bytes_ok (push2 s d).
Proof.
  intros H. unfold push2.
  apply GenTemplatesFacts.push_bytes_ok; [apply GenTemplatesFacts.push_bytes_ok; [exact H|]|]; apply byte_range.
Qed.

Lemma pull_eq (s t : mstate) :
  eq_state s t -> eq_state (fst (pull s)) (fst (pull t)) /\ snd (pull s) = snd (pull t).
Proof.
  intros ((HA & HX & HY & HS & HV & HC & HM) & HN & HZ). unfold pull. cbn [fst snd]. rewrite HS.
  split; [|apply HM]. unfold eq_state, eq_mod_nz. cbn [rA rX rY rS fN fV fZ fC mem set_sp].
  repeat split; assumption.
Qed.

Lemma check2_eq (s t s1 : mstate) (d : nat) :
  eq_state s t -> check2 s d = Some s1 -> exists t1, check2 t d = Some t1 /\ eq_state s1 t1.
Proof.
  intros E H. unfold check2 in *.
  destruct (pull_eq s t E) as [E1 V1].
  destruct (pull s) as [sa lo] eqn:PS. destruct (pull t) as [ta lo'] eqn:PT. cbn [fst snd] in E1, V1. subst lo'.
  destruct (pull_eq sa ta E1) as [E2 V2].
  destruct (pull sa) as [sb hi] eqn:PS2. destruct (pull ta) as [tb hi'] eqn:PT2. cbn [fst snd] in E2, V2. subst hi'.
  destruct ((lo =? byte (255 - Z.of_nat d)) && (hi =? byte (Z.of_nat d))); [|discriminate H].
  inversion H; subst. eauto.
Qed.

Lemma check2_bytes (s s1 : mstate) (d : nat) : bytes_ok s -> check2 s d = Some s1 -> bytes_ok s1.
Proof.
  intros HB H. unfold check2 in H.
  pose proof (GenTemplatesFacts.pull_bytes_ok s HB) as B1.
  destruct (pull s) as [sa lo]. cbn [fst] in B1.
  pose proof (GenTemplatesFacts.pull_bytes_ok sa B1) as B2.
  destruct (pull sa) as [sb hi]. cbn [fst] in B2.
  destruct ((lo =? byte (255 - Z.of_nat d)) && (hi =? byte (Z.of_nat d))); [|discriminate H].
  inversion H; subst. exact B2.
Qed.

(** * The program semantics *)

Lemma grun_end_stuck (Oc : oracle) (cfg : config) (c : code) (n : nat) (pc : nat) (s : mstate) :
  (length c <= pc)%nat -> grun Oc cfg c (S n) pc s = None.
Proof. intros H. cbn [grun]. rewrite (proj2 (nth_error_None c pc) H). reflexivity. Qed.

Lemma gfind_spec (Oc : oracle) (cfg : config) (c : code) (s s2 : mstate) : forall fuel,
  gfind Oc cfg c s fuel = Some s2 <->
  exists n, (n <= fuel)%nat /\ grun Oc cfg c n 0%nat s = Some (S (length c), s2).
Proof.
  induction fuel as [|fuel IH].
  - cbn [gfind]. split.
    + destruct (grun Oc cfg c 0 0%nat s) as [[pc s3]|] eqn:G; [|discriminate].
      destruct (Nat.eqb_spec pc (S (length c))) as [->|NE]; [|discriminate].
      intros H. inversion H; subst. exists O%nat. auto.
    + intros (n & LE & G). assert (n = O)%nat by lia. subst n. rewrite G, Nat.eqb_refl. reflexivity.
  - cbn [gfind]. split.
    + destruct (grun Oc cfg c (S fuel) 0%nat s) as [[pc s3]|] eqn:G.
      * destruct (Nat.eqb_spec pc (S (length c))) as [->|NE].
        -- intros H. inversion H; subst. exists (S fuel). auto.
        -- intros H. apply IH in H. destruct H as (n & LE & Gn). exists n. split; [lia|exact Gn].
      * intros H. apply IH in H. destruct H as (n & LE & Gn). exists n. split; [lia|exact Gn].
    + intros (n & LE & Gn).
      destruct (Nat.eq_dec n (S fuel)) as [->|NE].
      * rewrite Gn, Nat.eqb_refl. reflexivity.
      * assert (LT : (n <= fuel)%nat) by lia.
        assert (G : grun Oc cfg c (S fuel) 0%nat s = None).
        { replace (S fuel) with (n + S (fuel - n))%nat by lia. rewrite grun_add, Gn.
          apply grun_end_stuck. lia. }
        rewrite G. apply IH. exists n. auto.
Qed.

Lemma find_code_in (f : string) (P : cprog) (c : code) : find_code f P = Some c -> In (f, c) P.
Proof.
  induction P as [|[n b] P IH]; intros H; [discriminate H|].
  cbn [find_code] in H. destruct (String.eqb_spec n f) as [->|NE].
  - inversion H; subst. left. reflexivity.
  - right. exact (IH H).
Qed.

Lemma find_code_map (F : code -> code) (f : string) (P : cprog) :
  find_code f (map_prog F P) = option_map F (find_code f P).
Proof.
  induction P as [|[n b] P IH]; [reflexivity|].
  cbn [map_prog map find_code fst snd]. destruct (String.eqb n f); [reflexivity|exact IH].
Qed.

Lemma call_mono (cfg : config) (P : cprog) : forall K K' d,
  (K <= K')%nat -> oracle_le (call cfg P K d) (call cfg P K' d).
Proof.
  induction K as [|K IH]; intros K' d LE f s s1 H; [discriminate H|].
  destruct K' as [|K']; [lia|]. cbn [call] in H |- *.
  destruct (find_code f P) as [c|]; [|discriminate H].
  destruct (gfind (call cfg P K (S d)) cfg c (push2 s d) K) as [s2|] eqn:G; [|discriminate H].
  apply gfind_spec in G. destruct G as (n & LN & G).
  assert (G' : gfind (call cfg P K' (S d)) cfg c (push2 s d) K' = Some s2).
  { apply gfind_spec. exists n. split; [lia|].
    exact (grun_mono _ _ cfg c (IH K' (S d) ltac:(lia)) _ _ _ _ G). }
  rewrite G'. exact H.
Qed.

Lemma call_bytes (cfg : config) (P : cprog) : forall K d f s s1,
  bytes_ok s -> call cfg P K d f s = Some s1 -> bytes_ok s1.
Proof.
  induction K as [|K IH]; intros d f s s1 HB H; [discriminate H|].
  cbn [call] in H. destruct (find_code f P) as [c|]; [|discriminate H].
  destruct (gfind (call cfg P K (S d)) cfg c (push2 s d) K) as [s2|] eqn:G; [|discriminate H].
  apply gfind_spec in G. destruct G as (n & _ & G).
  apply (check2_bytes s2 s1 d); [|exact H].
  exact (grun_bytes _ cfg c (IH (S d)) _ _ _ _ _ (push2_bytes s d HB) G).
Qed.

Lemma call_eq (cfg : config) (P : cprog) :
  all_bodies (fun c => cfc_ok cfg c = true) P ->
  forall K d f s t s1, eq_state s t -> bytes_ok s -> bytes_ok t ->
    call cfg P K d f s = Some s1 -> exists t1, call cfg P K d f t = Some t1 /\ eq_state s1 t1.
Proof.
  intros AB. induction K as [|K IH]; intros d f s t s1 E HBs HBt H; [discriminate H|].
  cbn [call] in H |- *. destruct (find_code f P) as [c|] eqn:FC; [|discriminate H].
  destruct (gfind (call cfg P K (S d)) cfg c (push2 s d) K) as [s2|] eqn:G; [|discriminate H].
  apply gfind_spec in G. destruct G as (n & LN & G).
  destruct (grun_refine (call cfg P K (S d)) (fun _ => call cfg P K (S d)) cfg c
              (AB f c (find_code_in f P c FC))
              ltac:(intros ? ? _ ? ? ? X; exact X)
              ltac:(intros g x y x1 EX BX BY HX; destruct (IH (S d) g x y x1 EX BX BY HX) as (y1 & HY & EY);
                    exists O%nat, y1; auto)
              (call_bytes cfg P K (S d)) (fun _ => call_bytes cfg P K (S d))
              n 0%nat (push2 s d) (push2 t d) _ s2 (push2_eq s t d E) (push2_bytes s d HBs)
              (push2_bytes t d HBt) G) as (_ & t2 & G2 & E2).
  assert (G' : gfind (call cfg P K (S d)) cfg c (push2 t d) K = Some t2).
  { apply gfind_spec. exists n. auto. }
  rewrite G'. exact (check2_eq s2 t2 s1 d E2 H).
Qed.

Lemma call_oracle_ok (cfg : config) (P : cprog) (K d : nat) :
  all_bodies (fun c => cfc_ok cfg c = true) P -> oracle_ok (call cfg P K d).
Proof. intros AB. split; [exact (call_eq cfg P AB K d)|exact (call_bytes cfg P K d)]. Qed.

(** * A sound per-function transformation is sound on whole programs *)

Section ProgSim.
  Variables (cfg : config) (F : code -> code) (Q : code -> Prop).
  Hypothesis Q_ok : forall c, Q c -> cfc_ok cfg c = true.
  Hypothesis F_ok : forall c, Q c -> cfc_ok cfg (F c) = true.
  Hypothesis F_sound : forall Or c, oracle_ok Or -> Q c -> cfc_equiv Or cfg c (F c).
  Variable P : cprog.
  Hypothesis AB : all_bodies Q P.

  Lemma AB_ok : all_bodies (fun c => cfc_ok cfg c = true) P.
  Proof. intros f c H. exact (Q_ok c (AB f c H)). Qed.

  (** a body, under the calls of [P] answered by the calls of the transformed program *)
  Lemma body_sim (K D : nat) (c : code) :
    Q c ->
    (forall f s t s1, eq_state s t -> bytes_ok s -> bytes_ok t -> call cfg P K D f s = Some s1 ->
       exists K' t1, call cfg (map_prog F P) K' D f t = Some t1 /\ eq_state s1 t1) ->
    forall s t r s1, eq_state s t -> bytes_ok s -> bytes_ok t ->
      ghalts (call cfg P K D) cfg c s r s1 ->
      exists K' n t1, grun (call cfg (map_prog F P) K' D) cfg (F c) n 0%nat t = Some (endpos (F c) r, t1) /\
                      eq_state s1 t1.
  Proof.
    intros QC REL s t r s1 E HBs HBt H.
    destruct (F_sound (call cfg P K D) c (call_oracle_ok cfg P K D AB_ok) QC s r s1 HBs H) as (s2 & (n & G) & E2).
    destruct (grun_refine (call cfg P K D) (fun K' => call cfg (map_prog F P) K' D) cfg (F c) (F_ok c QC)
                (fun K1 K2 LE => call_mono cfg (map_prog F P) K1 K2 D LE) REL
                (call_bytes cfg P K D) (fun K' => call_bytes cfg (map_prog F P) K' D)
                n 0%nat s t _ s2 E HBs HBt G) as (K' & t1 & G' & E').
    exists K', n, t1. split; [exact G'|]. exact (eq_state_trans _ _ _ (eq_state_sym _ _ E2) E').
  Qed.

  Lemma call_sim : forall K d f s t s1, eq_state s t -> bytes_ok s -> bytes_ok t ->
    call cfg P K d f s = Some s1 ->
    exists K' t1, call cfg (map_prog F P) K' d f t = Some t1 /\ eq_state s1 t1.
  Proof.
    induction K as [|K IH]; intros d f s t s1 E HBs HBt H; [discriminate H|].
    cbn [call] in H. destruct (find_code f P) as [c|] eqn:FC; [|discriminate H].
    destruct (gfind (call cfg P K (S d)) cfg c (push2 s d) K) as [s2|] eqn:G; [|discriminate H].
    apply gfind_spec in G. destruct G as (n & LN & G).
    assert (QC : Q c) by (exact (AB f c (find_code_in f P c FC))).
    destruct (body_sim K (S d) c QC (IH (S d)) (push2 s d) (push2 t d) true s2
                (push2_eq s t d E) (push2_bytes s d HBs) (push2_bytes t d HBt) (ex_intro _ n G))
      as (K' & n' & t2 & G' & E2).
    destruct (check2_eq s2 t2 s1 d E2 H) as (t1 & C & E1).
    exists (S (Nat.max K' n')), t1. split; [|exact E1].
    cbn [call]. rewrite find_code_map, FC. cbn [option_map].
    assert (GF : gfind (call cfg (map_prog F P) (Nat.max K' n') (S d)) cfg (F c) (push2 t d) (Nat.max K' n') = Some t2).
    { apply gfind_spec. exists n'. split; [apply Nat.le_max_r|].
      exact (grun_mono _ _ cfg (F c) (call_mono cfg _ K' _ (S d) (Nat.le_max_l _ _)) _ _ _ _ G'). }
    rewrite GF. exact C.
  Qed.

  Theorem prog_sim : forall main s s', bytes_ok s ->
    phalts cfg P main s s' -> exists s'', phalts cfg (map_prog F P) main s s'' /\ eq_state s'' s'.
  Proof.
    intros main s s' HB (c & K & r & FC & H).
    assert (QC : Q c) by (exact (AB main c (find_code_in main P c FC))).
    destruct (body_sim K 1%nat c QC (call_sim K 1%nat) s s r s' (eq_state_refl s) HB HB H)
      as (K' & n & t1 & G & E).
    exists t1. split; [|apply eq_state_sym; exact E].
    exists (F c), K', r. split; [rewrite find_code_map, FC; reflexivity|exists n; exact G].
  Qed.
End ProgSim.

(** * Whole programs: the optimiser *)

Definition opt_ok (cfg : config) (c : code) : Prop :=
  cfc_ok cfg c = true /\ NoDup (lbls c) /\ rb_free c = true.

Theorem optimize_program_sound : forall cfg P main s s',
  ports cfg = [] -> bytes_ok s -> all_bodies (opt_ok cfg) P ->
  phalts cfg P main s s' ->
  exists s'', phalts cfg (opt_prog P) main s s'' /\ eq_state s'' s'.
Proof.
  intros cfg P main s s' HP HB AB H.
  apply (prog_sim cfg (fun c => fst (optimize c)) (opt_ok cfg)); try assumption.
  - intros c (OK & _). exact OK.
  - intros c (OK & _). exact (optimize_cfc_ok cfg c OK).
  - intros Or c OO (OK & ND & RB). exact (optimize_call_equiv Or cfg c OO HP OK ND RB).
Qed.
Print Assumptions optimize_program_sound.

(** * The program semantics is [Sem.run] *)

Lemma sprog_find (P : cprog) : forall sp f, sprog_of P = Some sp ->
  find_func f sp = match find_code f P with Some c => slines_of c | None => None end.
Proof.
  induction P as [|[n b] P IH]; intros sp f H.
  - inversion H; subst. reflexivity.
  - cbn [sprog_of] in H. destruct (slines_of b) as [sl|] eqn:SB; [|discriminate H].
    destruct (sprog_of P) as [sr|] eqn:SR; [|discriminate H]. inversion H; subst.
    cbn [find_func find_code]. destruct (String.eqb n f); [symmetry; exact SB|exact (IH sr f eq_refl)].
Qed.

Lemma cfc_flow (cfg : config) (m : mnem) (o : operand) (s s1 : mstate) (k : N) (f : flow) :
  cfc_mnem m = true -> exec cfg m o s = XOk s1 k f -> f <> FRti.
Proof.
  intros C E ->. destruct (cfc_mnem_cases m C) as [P|[B|[->|[->| ->]]]].
  - pose proof (plain_falls_through cfg m o s s1 k _ P E) as X. discriminate X.
  - destruct m; try discriminate B; cbv beta iota zeta delta [exec] in E;
      destruct o; try discriminate E;
      match type of E with (if ?b then _ else _) = _ => destruct b end; discriminate E.
  - cbv beta iota zeta delta [exec] in E. destruct o; discriminate E.
  - cbv beta iota zeta delta [exec] in E. destruct o; discriminate E.
  - cbv beta iota zeta delta [exec] in E. discriminate E.
Qed.

Lemma find_lbl_lt (l : string) (c : code) (k : nat) : find_lbl l c = Some k -> (k < length c)%nat.
Proof. intros H. apply find_lbl_nth in H. apply nth_error_Some. rewrite H. discriminate. Qed.

Lemma sprog_body (P : cprog) : forall sp f c,
  sprog_of P = Some sp -> find_code f P = Some c ->
  exists sl, slines_of c = Some sl /\ find_func f sp = Some sl.
Proof.
  induction P as [|[n b] P0 IH]; intros sp0 f c SP0 FC; [discriminate FC|].
  cbn [sprog_of] in SP0. destruct (slines_of b) as [sl|] eqn:SB; [|discriminate SP0].
  destruct (sprog_of P0) as [sr|] eqn:SR; [|discriminate SP0]. inversion SP0; subst.
  cbn [find_code find_func] in *. destruct (String.eqb n f).
  - inversion FC; subst. eauto.
  - exact (IH sr f c eq_refl FC).
Qed.

Section Adequacy.
  Variables (cfg : config) (P : cprog) (sp : sprogram).
  Hypothesis SP : sprog_of P = Some sp.
  Hypothesis AB : all_bodies (fun c => cfc_ok cfg c = true) P.
  Variables (inl_sem ext_call : string -> mstate -> option mstate).

  Notation srun := (Sem.run cfg sp inl_sem ext_call).

  (** what [Sem.run] does when a body ends: by an RTS ([r = true]) or by falling off its end *)
  Definition finish (r : bool) (fuel : nat) (fname : string) (pcf : nat) (st : list frame) (s1 : mstate)
             (tr : list event) (cy : N) (out : outcome) : Prop :=
    if r then
      match st with
      | [] => out = Halt s1 (rev tr) cy
      | (fn, c0, pc0) :: st' =>
          match check2 s1 (length st) with
          | Some s2 => out = srun fuel fn c0 pc0 st' s2 tr cy
          | None => exists w a b d, out = Faulted w a b d
          end
      end
    else
      match st with
      | [] => out = Halt s1 (rev tr) cy
      | _ => exists w a b d, out = Faulted w a b d
      end.

  Lemma push2_sem (s : mstate) (n : nat) :
    push (push s (byte (Z.of_nat n + 1))) (byte (255 - (Z.of_nat n + 1))) = push2 s (S n).
  Proof. unfold push2. rewrite Nat2Z.inj_succ. unfold Z.succ. reflexivity. Qed.

  (** from the program semantics to [Sem.run]: a call, then a body *)
  Definition call_runs (K : nat) : Prop :=
    forall d f s s2, call cfg P K d f s = Some s2 ->
    forall fname cl pc st o p raw, d = S (length st) ->
      nth_error cl pc = Some (SIns JSR o p raw) -> exec cfg JSR o s = XOk s 6%N (FCall f) ->
      exists N, forall fuel tr cy, exists tr' cy',
        srun (N + fuel) fname cl pc st s tr cy = srun fuel fname cl (S pc) st s2 tr' cy'.

  Lemma body_runs (K : nat) (c : code) (sl : list sline) :
    call_runs K -> slines_of c = Some sl -> cfc_ok cfg c = true ->
    forall fname st n pc s r s1, (pc <= length c)%nat ->
      grun (call cfg P K (S (length st))) cfg c n pc s = Some (endpos c r, s1) ->
      exists N, forall fuel tr cy, exists tr' cy',
        finish r fuel fname (length c) st s1 tr' cy' (srun (N + S fuel) fname sl pc st s tr cy).
  Proof.
    intros CR SL OK fname st. induction n as [|n IH]; intros pc s r s1 LE H.
    - cbn [grun] in H. inversion H; subst.
      assert (r = false) by (destruct r; [unfold endpos in LE; lia|reflexivity]). subst r.
      exists O. intros fuel tr cy. exists tr, cy. cbn [Nat.add]. rewrite GenTemplatesFacts.run_S.
      pose proof (OptSimCFFacts.slines_nth c sl (endpos c false) SL) as N.
      unfold endpos in *. rewrite (proj2 (nth_error_None c (length c)) (le_n _)) in N. rewrite N.
      unfold finish. destruct st; [reflexivity|]. eexists _, _, _, _. reflexivity.
    - cbn [grun] in H. pose proof (OptSimCFFacts.slines_nth c sl pc SL) as N.
      destruct (nth_error c pc) as [x|] eqn:NC; [|discriminate H].
      destruct N as (y & SX & NS).
      assert (LT : (pc < length c)%nat) by (apply nth_error_Some; rewrite NC; discriminate).
      assert (OKx : cfc_line_ok cfg x = true).
      { apply nth_error_In in NC. exact (proj1 (forallb_forall _ _) OK _ NC). }
      assert (ONE : forall pc1 s2, (pc1 <= length c)%nat ->
                grun (call cfg P K (S (length st))) cfg c n pc1 s2 = Some (endpos c r, s1) ->
                (exists M, forall fuel tr cy, exists tr' cy',
                   srun (M + fuel) fname sl pc st s tr cy = srun fuel fname sl pc1 st s2 tr' cy') ->
                exists N, forall fuel tr cy, exists tr' cy',
                  finish r fuel fname (length c) st s1 tr' cy' (srun (N + S fuel) fname sl pc st s tr cy)).
      { intros pc1 s2 L1 H1 (M & HM). destruct (IH pc1 s2 r s1 L1 H1) as (N1 & HN1).
        exists (M + N1)%nat. intros fuel tr cy. destruct (HM (N1 + S fuel)%nat tr cy) as (tr1 & cy1 & E1).
        destruct (HN1 fuel tr1 cy1) as (tr' & cy' & F). exists tr', cy'.
        replace (M + N1 + S fuel)%nat with (M + (N1 + S fuel))%nat by lia. rewrite E1. exact F. }
      assert (SKIP : y = SSkip \/ (exists l, y = SLbl l) ->
                forall fuel tr cy, srun (1 + fuel) fname sl pc st s tr cy = srun fuel fname sl (S pc) st s tr cy).
      { intros Y fuel tr cy. cbn [Nat.add]. rewrite GenTemplatesFacts.run_S, NS.
        destruct Y as [->|[l ->]]; reflexivity. }
      destruct x as [lb|i|t sz|cm|]; cbn [sline_of] in SX; try discriminate OKx.
      + inversion SX; subst y. apply (ONE (S pc) s LT H). exists 1%nat. intros fuel tr cy.
        exists tr, cy. apply SKIP. right. eauto.
      + cbn [cfc_line_ok] in OKx.
        destruct (parse_operand (i_mn i) (i_op i)) as [op|] eqn:PO; [|discriminate SX]. inversion SX; subst y.
        destruct (exec cfg (i_mn i) op s) as [u k fl|w] eqn:X; [|discriminate H].
        destruct fl as [|l|g| |]; try discriminate H.
        * apply (ONE (S pc) u LT H). exists 1%nat. intros fuel tr cy. cbn [Nat.add].
          rewrite GenTemplatesFacts.run_S, NS, X. cbv zeta. eauto.
        * destruct (find_lbl l c) as [j|] eqn:F; [|discriminate H].
          apply (ONE j u (Nat.lt_le_incl _ _ (find_lbl_lt l c j F)) H). exists 1%nat. intros fuel tr cy.
          cbn [Nat.add]. rewrite GenTemplatesFacts.run_S, NS, X. cbv zeta.
          rewrite (OptSimCFFacts.slines_find l c sl 0 SL), F. cbn [Nat.add]. eauto.
        * destruct (call cfg P K (S (length st)) g u) as [u2|] eqn:CG; [|discriminate H].
          pose proof (exec_call_jsr cfg _ _ _ _ _ _ X) as MJ.
          assert (X' : exec cfg JSR op s = XOk s 6%N (FCall g)).
          { rewrite MJ in X. cbv beta iota zeta delta [exec] in X |- *. destruct op; try discriminate X.
            inversion X; subst. reflexivity. }
          assert (US : u = s) by (rewrite MJ in X; rewrite X' in X; inversion X; reflexivity). subst u.
          rewrite MJ in NS.
          apply (ONE (S pc) u2 LT H).
          exact (CR _ _ _ _ CG fname sl pc st op (i_prot i) (i_op i) eq_refl NS X').
        * (* RTS *)
          destruct n as [|n]; [|rewrite grun_end_stuck in H by lia; discriminate H].
          cbn [grun] in H. inversion H as [[EP ES]]. subst u.
          assert (r = true) by (destruct r; [reflexivity|unfold endpos in EP; lia]). subst r.
          exists O. intros fuel tr cy. cbn [Nat.add]. rewrite GenTemplatesFacts.run_S, NS, X. cbv zeta.
          unfold finish. destruct st as [|[[fn c0] pc0] st'].
          -- eexists _, _. reflexivity.
          -- unfold check2. destruct (pull s1) as [sa lo]. destruct (pull sa) as [sb hi].
             match goal with |- context [if ?b then _ else _] => destruct b end.
             ++ eexists _, _. reflexivity.
             ++ exists tr, cy. eexists _, _, _, _. reflexivity.
      + inversion SX; subst y. apply (ONE (S pc) s LT H). exists 1%nat. intros fuel tr cy.
        exists tr, cy. apply SKIP. left. reflexivity.
      + inversion SX; subst y. apply (ONE (S pc) s LT H). exists 1%nat. intros fuel tr cy.
        exists tr, cy. apply SKIP. left. reflexivity.
  Qed.

  Lemma call_runs_all : forall K, call_runs K.
  Proof.
    induction K as [|K IH]; intros d f s s3 H; [discriminate H|].
    intros fname cl pc st o p raw D NS X. subst d.
    cbn [call] in H. destruct (find_code f P) as [c|] eqn:FC; [|discriminate H].
    destruct (gfind (call cfg P K (S (S (length st)))) cfg c (push2 s (S (length st))) K) as [s2|] eqn:G;
      [|discriminate H].
    apply gfind_spec in G. destruct G as (n & _ & G).
    destruct (sprog_body P sp f c SP FC) as (sl & SL & FF).
    assert (OKc : cfc_ok cfg c = true) by (exact (AB f c (find_code_in f P c FC))).
    destruct (body_runs K c sl IH SL OKc f ((fname, cl, S pc) :: st) n 0%nat _ true s2 (Nat.le_0_l _) G)
      as (N & HN).
    exists (S (N + 1)). intros fuel tr cy.
    destruct (HN fuel (if p then EvI JSR raw :: tr else tr) (cy + 6)%N) as (tr' & cy' & F).
    unfold finish in F. cbn [length] in F. rewrite H in F.
    exists tr', cy'. replace (S (N + 1) + fuel)%nat with (S (N + S fuel)) by lia.
    rewrite GenTemplatesFacts.run_S, NS, X. cbv zeta. rewrite FF. rewrite push2_sem. exact F.
  Qed.

  Theorem phalts_run (main : string) (s s' : mstate) :
    phalts cfg P main s s' ->
    exists N, forall fuel, (N < fuel)%nat ->
      exists tr cy, run_function cfg sp inl_sem ext_call fuel main s = Halt s' tr cy.
  Proof.
    intros (c & K & r & FC & (n & G)).
    destruct (sprog_body P sp main c SP FC) as (sl & SL & FF).
    assert (OKc : cfc_ok cfg c = true) by (exact (AB main c (find_code_in main P c FC))).
    destruct (body_runs K c sl (call_runs_all K) SL OKc main [] n 0%nat s r s' (Nat.le_0_l _) G) as (N & HN).
    exists N. intros fuel LT. unfold run_function. rewrite FF.
    destruct (HN (fuel - N - 1)%nat [] 0%N) as (tr' & cy' & F).
    replace (N + S (fuel - N - 1))%nat with fuel in F by lia.
    unfold finish in F. destruct r; rewrite F; eauto.
  Qed.

  (** from [Sem.run] to the program semantics: a halting run, cut at the end of the current body *)
  Hypothesis NOEXT : forall g x, ext_call g x = None.

  Lemma halt_body : forall fuel fname c sl pc st s tr cy s' tr' cy',
    slines_of c = Some sl -> cfc_ok cfg c = true -> (pc <= length c)%nat ->
    srun fuel fname sl pc st s tr cy = Halt s' tr' cy' ->
    exists K r s1 n,
      grun (call cfg P K (S (length st))) cfg c n pc s = Some (endpos c r, s1) /\
      match st with
      | [] => s1 = s'
      | (fn, c0, pc0) :: st' =>
          r = true /\ exists s2 fuel1 tr1 cy1,
            check2 s1 (length st) = Some s2 /\ (fuel1 < fuel)%nat /\
            srun fuel1 fn c0 pc0 st' s2 tr1 cy1 = Halt s' tr' cy'
      end.
  Proof.
    induction fuel as [fuel IH] using lt_wf_ind.
    intros fname c sl pc st s tr cy s' tr' cy' SL OK LE R.
    destruct fuel as [|fuel]; [discriminate R|].
    rewrite GenTemplatesFacts.run_S in R. pose proof (OptSimCFFacts.slines_nth c sl pc SL) as N.
    destruct (nth_error c pc) as [x|] eqn:NC.
    - destruct N as (y & SX & NS). rewrite NS in R.
      assert (LT : (pc < length c)%nat) by (apply nth_error_Some; rewrite NC; discriminate).
      assert (OKx : cfc_line_ok cfg x = true).
      { apply nth_error_In in NC. exact (proj1 (forallb_forall _ _) OK _ NC). }
      (* one more line, then the rest of the body *)
      assert (ONE : forall pc1 s2 tr2 cy2, (pc1 <= length c)%nat ->
                srun fuel fname sl pc1 st s2 tr2 cy2 = Halt s' tr' cy' ->
                (forall Oc n, grun Oc cfg c (S n) pc s = grun Oc cfg c n pc1 s2) ->
                exists K r s1 n,
                  grun (call cfg P K (S (length st))) cfg c n pc s = Some (endpos c r, s1) /\
                  match st with
                  | [] => s1 = s'
                  | (fn, c0, pc0) :: st' =>
                      r = true /\ exists s3 fuel1 tr1 cy1,
                        check2 s1 (length st) = Some s3 /\ (fuel1 < S fuel)%nat /\
                        srun fuel1 fn c0 pc0 st' s3 tr1 cy1 = Halt s' tr' cy'
                  end).
      { intros pc1 s2 tr2 cy2 L1 R1 HX.
        destruct (IH fuel (Nat.lt_succ_diag_r _) fname c sl pc1 st s2 tr2 cy2 s' tr' cy' SL OK L1 R1)
          as (K & r & s1 & n & G & REST).
        exists K, r, s1, (S n). split; [rewrite HX; exact G|].
        destruct st as [|[[fn c0] pc0] st']; [exact REST|].
        destruct REST as (RT & s3 & fuel1 & tr1 & cy1 & C & L & RR).
        split; [exact RT|]. exists s3, fuel1, tr1, cy1. split; [exact C|]. split; [lia|exact RR]. }
      destruct x as [lb|i|t sz|cm|]; cbn [sline_of] in SX; try discriminate OKx.
      + inversion SX; subst y. apply (ONE (S pc) s tr cy LT R). intros Oc n. cbn [grun]. rewrite NC. reflexivity.
      + cbn [cfc_line_ok] in OKx.
        destruct (parse_operand (i_mn i) (i_op i)) as [op|] eqn:PO; [|discriminate SX]. inversion SX; subst y.
        cbv zeta in R.
        destruct (exec cfg (i_mn i) op s) as [u k fl|w] eqn:X; [|discriminate R].
        pose proof (cfc_flow cfg _ _ _ _ _ _ (cfc_ins_mnem cfg i OKx) X) as NRTI.
        destruct fl as [|l|g| |]; [| | | |congruence].
        * apply (ONE (S pc) u _ _ LT R). intros Oc n. cbn [grun]. rewrite NC, PO, X. reflexivity.
        * rewrite (OptSimCFFacts.slines_find l c sl 0 SL) in R.
          destruct (find_lbl l c) as [j|] eqn:F; [|discriminate R]. cbn [Nat.add] in R.
          apply (ONE j u _ _ (Nat.lt_le_incl _ _ (find_lbl_lt l c j F)) R).
          intros Oc n. cbn [grun]. rewrite NC, PO, X, F. reflexivity.
        * (* a call: the callee's run, then the rest of this body *)
          pose proof (sprog_find P sp g SP) as FF.
          destruct (find_func g sp) as [sl'|] eqn:FG.
          2:{ rewrite NOEXT in R. discriminate R. }
          destruct (find_code g P) as [c'|] eqn:FC; [|discriminate FF]. symmetry in FF.
          assert (OKc' : cfc_ok cfg c' = true) by (exact (AB g c' (find_code_in g P c' FC))).
          rewrite push2_sem in R.
          destruct (IH fuel (Nat.lt_succ_diag_r _) g c' sl' 0%nat ((fname, sl, S pc) :: st) _ _ _ s' tr' cy'
                      FF OKc' (Nat.le_0_l _) R) as (K1 & r1 & s1 & n1 & G1 & (RT & s2 & fuel1 & tr1 & cy1 & C1 & L1 & R1)).
          subst r1. cbn [length] in G1, C1.
          destruct (IH fuel1 ltac:(lia) fname c sl (S pc) st s2 tr1 cy1 s' tr' cy' SL OK LT R1)
            as (K2 & r & s3 & n2 & G2 & REST).
          set (Kc := Nat.max K1 n1).
          assert (CALL : call cfg P (S Kc) (S (length st)) g u = Some s2).
          { cbn [call]. rewrite FC.
            assert (GF : gfind (call cfg P Kc (S (S (length st)))) cfg c' (push2 u (S (length st))) Kc = Some s1).
            { apply gfind_spec. exists n1. split; [apply Nat.le_max_r|].
              exact (grun_mono _ _ cfg c' (call_mono cfg P K1 Kc _ (Nat.le_max_l _ _)) _ _ _ _ G1). }
            rewrite GF. exact C1. }
          exists (Nat.max (S Kc) K2), r, s3, (S n2). split.
          -- cbn [grun]. rewrite NC, PO, X.
             rewrite (call_mono cfg P (S Kc) _ _ (Nat.le_max_l _ _) g u s2 CALL).
             exact (grun_mono _ _ cfg c (call_mono cfg P K2 _ _ (Nat.le_max_r _ _)) _ _ _ _ G2).
          -- destruct st as [|[[fn c0] pc0] st']; [exact REST|].
             destruct REST as (RT & s4 & fuel2 & tr2 & cy2 & C & L & RR).
             split; [exact RT|]. exists s4, fuel2, tr2, cy2. split; [exact C|]. split; [lia|exact RR].
        * (* RTS *)
          exists O, true, u, 1%nat. split; [cbn [grun]; rewrite NC, PO, X; reflexivity|].
          destruct st as [|[[fn c0] pc0] st'].
          -- inversion R. reflexivity.
          -- split; [reflexivity|]. unfold check2.
             destruct (pull u) as [sa lo]. destruct (pull sa) as [sb hi].
             match type of R with (if ?b then _ else _) = _ => destruct b end; [|discriminate R].
             eexists _, fuel, _, _. split; [reflexivity|]. split; [lia|exact R].
      + inversion SX; subst y. apply (ONE (S pc) s tr cy LT R). intros Oc n. cbn [grun]. rewrite NC. reflexivity.
      + inversion SX; subst y. apply (ONE (S pc) s tr cy LT R). intros Oc n. cbn [grun]. rewrite NC. reflexivity.
    - rewrite N in R. apply nth_error_None in NC. assert (pc = length c) by lia. subst pc.
      destruct st as [|fr st']; [|discriminate R].
      inversion R; subst. exists O, false, s', O. split; reflexivity.
  Qed.

  Theorem run_phalts (main : string) (s s' : mstate) (fuel : nat) (tr : list event) (cy : N) :
    run_function cfg sp inl_sem ext_call fuel main s = Halt s' tr cy -> phalts cfg P main s s'.
  Proof.
    unfold run_function. intros R. pose proof (sprog_find P sp main SP) as FF.
    destruct (find_func main sp) as [sl|]; [|discriminate R].
    destruct (find_code main P) as [c|] eqn:FC; [|discriminate FF]. symmetry in FF.
    assert (OKc : cfc_ok cfg c = true) by (exact (AB main c (find_code_in main P c FC))).
    destruct (halt_body fuel main c sl 0%nat [] s [] 0%N s' tr cy FF OKc (Nat.le_0_l _) R)
      as (K & r & s1 & n & G & ->).
    exists c, K, r. split; [exact FC|exists n; exact G].
  Qed.
End Adequacy.

Theorem phalts_run_halts : forall cfg P main s s',
  all_bodies (fun c => cfc_ok cfg c = true) P -> (exists sp, sprog_of P = Some sp) ->
  phalts cfg P main s s' -> run_halts cfg P main s s'.
Proof.
  intros cfg P main s s' AB (sp & SP) H. exists sp. split; [exact SP|].
  intros inl_sem ext_call. exact (phalts_run cfg P sp SP AB inl_sem ext_call main s s' H).
Qed.

Theorem run_halts_phalts : forall cfg P main s s',
  all_bodies (fun c => cfc_ok cfg c = true) P ->
  run_halts cfg P main s s' -> phalts cfg P main s s'.
Proof.
  intros cfg P main s s' AB (sp & SP & H).
  destruct (H (fun _ _ => None) (fun _ _ => None)) as (N & HN).
  destruct (HN (S N) (Nat.lt_succ_diag_r _)) as (tr & cy & R).
  exact (run_phalts cfg P sp SP AB _ _ (fun _ _ => eq_refl) main s s' (S N) tr cy R).
Qed.
Print Assumptions run_halts_phalts.

(** * Whole programs on [Sem.run] *)

Lemma in_map_prog (F : code -> code) (P : cprog) (f : string) (c' : code) :
  In (f, c') (map_prog F P) -> exists c, c' = F c /\ In (f, c) P.
Proof.
  unfold map_prog. intros H. apply in_map_iff in H. destruct H as ([g c] & E & I).
  cbn [fst snd] in E. inversion E; subst. eauto.
Qed.

Lemma sprog_in (P : cprog) : forall sp f c, sprog_of P = Some sp -> In (f, c) P ->
  exists sl, slines_of c = Some sl.
Proof.
  induction P as [|[n b] P IH]; intros sp f c H I; [destruct I|].
  cbn [sprog_of] in H. destruct (slines_of b) as [sl|] eqn:SB; [|discriminate H].
  destruct (sprog_of P) as [sr|] eqn:SR; [|discriminate H].
  destruct I as [E|I]; [inversion E; subst; eauto|exact (IH sr f c eq_refl I)].
Qed.

Lemma sprog_some (P : cprog) :
  (forall f c, In (f, c) P -> exists sl, slines_of c = Some sl) -> exists sp, sprog_of P = Some sp.
Proof.
  induction P as [|[n b] P IH]; intros H; [exists []; reflexivity|].
  destruct (H n b (or_introl eq_refl)) as [sl SL].
  destruct IH as [sr SR]; [intros f c I; exact (H f c (or_intror I))|].
  cbn [sprog_of]. rewrite SL, SR. eauto.
Qed.

Section ProgRun.
  Variables (cfg : config) (F : code -> code) (Q : code -> Prop).
  Hypothesis Q_ok : forall c, Q c -> cfc_ok cfg c = true.
  Hypothesis F_ok : forall c, Q c -> cfc_ok cfg (F c) = true.
  Hypothesis F_sound : forall Or c, oracle_ok Or -> Q c -> cfc_equiv Or cfg c (F c).
  Hypothesis F_asm : forall c sl, Q c -> slines_of c = Some sl -> exists sl', slines_of (F c) = Some sl'.

  Theorem prog_run : forall P main s s', all_bodies Q P -> bytes_ok s ->
    run_halts cfg P main s s' ->
    exists s'', run_halts cfg (map_prog F P) main s s'' /\ eq_state s'' s'.
  Proof.
    intros P main s s' AB HB R. pose proof R as (sp & SP & _).
    assert (AB1 : all_bodies (fun c => cfc_ok cfg c = true) P) by (intros f c I; exact (Q_ok c (AB f c I))).
    destruct (prog_sim cfg F Q Q_ok F_ok F_sound P AB main s s' HB (run_halts_phalts cfg P main s s' AB1 R))
      as (s'' & H & E).
    exists s''. split; [|exact E]. apply phalts_run_halts; [| |exact H].
    - intros f c' I. destruct (in_map_prog F P f c' I) as (c & -> & I0). exact (F_ok c (AB f c I0)).
    - apply sprog_some. intros f c' I. destruct (in_map_prog F P f c' I) as (c & -> & I0).
      destruct (sprog_in P sp f c SP I0) as [sl SL]. exact (F_asm c sl (AB f c I0) SL).
  Qed.
End ProgRun.

Lemma optimize_asm (c : code) (sl : list sline) :
  slines_of c = Some sl -> exists sl', slines_of (fst (optimize c)) = Some sl'.
Proof.
  intros SL. apply OptSimCFFacts.slines_some. intros i Hi.
  apply (OptSimCFFacts.slines_parse c sl i SL). apply OptFacts.optimize_instrs_subset. exact Hi.
Qed.

(** the optimised program (every function optimised), run by [Sem.run_function] from [main]:
    halts whenever the original does, in an equal state *)
Theorem optimize_program_run : forall cfg P main s s',
  ports cfg = [] -> bytes_ok s -> all_bodies (opt_ok cfg) P ->
  run_halts cfg P main s s' ->
  exists s'', run_halts cfg (opt_prog P) main s s'' /\ eq_state s'' s'.
Proof.
  intros cfg P main s s' HP HB AB R.
  apply (prog_run cfg (fun c => fst (optimize c)) (opt_ok cfg)); try assumption.
  - intros c (OK & _). exact OK.
  - intros c (OK & _). exact (optimize_cfc_ok cfg c OK).
  - intros Or c OO (OK & ND & RB). exact (optimize_call_equiv Or cfg c OO HP OK ND RB).
  - intros c sl _ SL. exact (optimize_asm c sl SL).
Qed.
Print Assumptions optimize_program_run.

(** * The long-branch repair, on bodies with calls *)

#[local] Open Scope nat_scope.

Lemma lbls_all_labels (c : code) : lbls c = all_labels c.
Proof.
  induction c as [|x c IH]; [reflexivity|].
  destruct x; cbn [lbls]; unfold all_labels; cbn [flat_map app]; fold (all_labels c); rewrite IH; reflexivity.
Qed.

Lemma find_lbl_not_in (l : string) (a : code) : ~ In l (all_labels a) -> find_lbl l a = None.
Proof. rewrite <- lbls_all_labels. apply find_lbl_none. Qed.

Lemma find_lbl_nolabels (l : string) (a : code) : all_labels a = [] -> find_lbl l a = None.
Proof. intros H. apply find_lbl_not_in. rewrite H. intros []. Qed.

Lemma find_lbl_in (l : string) (a : code) (k : nat) : find_lbl l a = Some k -> In l (all_labels a).
Proof.
  intros H. apply find_lbl_nth in H. apply nth_error_In in H.
  unfold all_labels. apply in_flat_map. exists (Lbl l). split; [exact H|left; reflexivity].
Qed.

(** as [CbSim.enters_alike], on [grun]: from the top of [D] every run that ends (at [e]) leaves [D]
    at a position and in a state that [M] reaches too *)
Definition genters_alike (Or : oracle) (cfg : config) (A D M T : code) : Prop :=
  forall n s e fin, length (A ++ D ++ T) <= e ->
    grun Or cfg (A ++ D ++ T) n (length A) s = Some (e, fin) ->
    exists m k s1 j,
      m < n /\ (k <= length A \/ length A + length D <= k) /\
      grun Or cfg (A ++ D ++ T) m k s1 = Some (e, fin) /\
      grun Or cfg (A ++ M ++ T) j (length A) s = Some (shift (length A) (length D) (length M) k, s1).

Section Shift.
  Variables (A D M T : code).
  Hypothesis HD : all_labels D = [].
  Hypothesis FRESH : forall l, In l (all_labels M) -> ~ In l (all_labels (A ++ D ++ T)).

  Let c := A ++ D ++ T.
  Let c' := A ++ M ++ T.
  Let sh := shift (length A) (length D) (length M).

  Lemma sh_lo (p : nat) : p < length A + length D -> sh p = p.
  Proof. intros H. unfold sh, shift. apply Nat.ltb_lt in H. rewrite H. reflexivity. Qed.

  Lemma sh_hi (p : nat) : length A + length D <= p -> sh p = p - length D + length M.
  Proof. intros H. unfold sh, shift. apply Nat.ltb_ge in H. rewrite H. reflexivity. Qed.

  Lemma sh_len : sh (length c) = length c'.
  Proof. unfold c, c'. rewrite sh_hi; rewrite !app_length; lia. Qed.

  (** a label of the old code is found in the new code, where it has gone *)
  Lemma gfind_lbl_shift (l : string) (k : nat) :
    find_lbl l c = Some k ->
    find_lbl l c' = Some (sh k) /\ (k < length A \/ length A + length D <= k).
  Proof.
    intros H. assert (NM : find_lbl l M = None).
    { apply find_lbl_not_in. intros I. exact (FRESH l I (find_lbl_in l c k H)). }
    unfold c, c' in *. rewrite find_lbl_app in H |- *.
    destruct (find_lbl l A) as [j|] eqn:FA.
    - inversion H; subst j. pose proof (find_lbl_lt l A k FA) as L.
      split; [|left; exact L]. rewrite sh_lo by lia. reflexivity.
    - rewrite find_lbl_app in H |- *. rewrite (find_lbl_nolabels l D HD) in H. rewrite NM.
      destruct (find_lbl l T) as [j|]; cbn [option_map] in H |- *; [|discriminate H].
      inversion H; subst k. split; [|right; lia]. rewrite sh_hi by lia. f_equal. lia.
  Qed.

  Lemma gnth_shift (p : nat) :
    p < length A \/ length A + length D <= p -> nth_error c' (sh p) = nth_error c p.
  Proof.
    unfold c, c'. intros [H|H].
    - rewrite sh_lo by lia. rewrite !nth_error_app1 by lia. reflexivity.
    - rewrite sh_hi by lia. rewrite !(nth_error_app2 A) by lia. rewrite !nth_error_app2 by lia.
      f_equal. lia.
  Qed.

  Lemma sh_S (p : nat) : p < length A \/ length A + length D <= p -> D <> [] -> sh (S p) = S (sh p).
  Proof.
    intros [H|H] NE.
    - assert (0 < length D) by (destruct D; [congruence|cbn; lia]).
      rewrite !sh_lo by lia. reflexivity.
    - rewrite !sh_hi by lia. lia.
  Qed.

  (** * The generalised window theorem: windows of different lengths *)
  Variable Or : oracle.
  Variable cfg : config.
  Hypothesis NE : D <> [].
  Hypothesis ENTRY : genters_alike Or cfg A D M T.

  Lemma gwindow_gen_sim : forall n p s e fin,
    grun Or cfg c n p s = Some (e, fin) -> length c <= e ->
    p <= length A \/ length A + length D <= p ->
    exists n', grun Or cfg c' n' (sh p) s = Some (sh e, fin).
  Proof.
    induction n as [n IHn] using lt_wf_ind. intros p s e fin H LE OUT.
    assert (LD : 0 < length D) by (destruct D; [congruence|cbn; lia]).
    destruct (Nat.eq_dec p (length A)) as [->|NEQ].
    - destruct (ENTRY n s e fin LE H) as (m & k & s1 & j & LT & OK & C & C').
      destruct (IHn m LT k s1 e fin C LE OK) as (n' & Hn').
      exists (j + n'). rewrite grun_add. rewrite sh_lo by lia. fold c'. unfold c' in *. rewrite C'.
      exact Hn'.
    - assert (OUT' : p < length A \/ length A + length D <= p) by lia.
      destruct n as [|n].
      { cbn [grun] in H. inversion H; subst. exists 0. reflexivity. }
      cbn [grun] in H. pose proof (gnth_shift p OUT') as NTH.
      assert (STEP : forall s1 p1, grun Or cfg c n p1 s1 = Some (e, fin) ->
                p1 <= length A \/ length A + length D <= p1 ->
                (forall n', grun Or cfg c' (S n') (sh p) s = grun Or cfg c' n' (sh p1) s1) ->
                exists n', grun Or cfg c' n' (sh p) s = Some (sh e, fin)).
      { intros s1 p1 H1 O1 HX. destruct (IHn n (Nat.lt_succ_diag_r n) p1 s1 e fin H1 LE O1) as (n' & Hn').
        exists (S n'). rewrite HX. exact Hn'. }
      assert (SUCC : S p <= length A \/ length A + length D <= S p) by lia.
      destruct (nth_error c p) as [[l|i|tx sz|cm|]|] eqn:NC; try discriminate H.
      + apply (STEP s (S p) H SUCC). intros n'. cbn [grun]. rewrite NTH, (sh_S p OUT' NE). reflexivity.
      + destruct (parse_operand (i_mn i) (i_op i)) as [op|] eqn:P; [|discriminate H].
        destruct (exec cfg (i_mn i) op s) as [s1 c1 f1|w1] eqn:X1; [|discriminate H].
        destruct f1 as [|l|g| |]; try discriminate H.
        * apply (STEP s1 (S p) H SUCC). intros n'. cbn [grun].
          rewrite NTH, P, X1, (sh_S p OUT' NE). reflexivity.
        * destruct (find_lbl l c) as [k|] eqn:F; [|discriminate H].
          destruct (gfind_lbl_shift l k F) as [F' OK].
          apply (STEP s1 k H ltac:(lia)). intros n'. cbn [grun]. rewrite NTH, P, X1, F'. reflexivity.
        * destruct (Or g s1) as [s2|] eqn:OG; [|discriminate H].
          apply (STEP s2 (S p) H SUCC). intros n'. cbn [grun].
          rewrite NTH, P, X1, OG, (sh_S p OUT' NE). reflexivity.
        * assert (LC : length A + length D <= length c) by (unfold c; rewrite !app_length; lia).
          apply (STEP s1 (S (length c)) H ltac:(right; lia)). intros n'. cbn [grun].
          rewrite NTH, P, X1. rewrite <- sh_len. rewrite (sh_S (length c)); [reflexivity|right; lia|exact NE].
      + apply (STEP s (S p) H SUCC). intros n'. cbn [grun]. rewrite NTH, (sh_S p OUT' NE). reflexivity.
      + apply (STEP s (S p) H SUCC). intros n'. cbn [grun]. rewrite NTH, (sh_S p OUT' NE). reflexivity.
  Qed.

  Lemma sh_endpos (r : bool) : sh (endpos c r) = endpos c' r.
  Proof.
    assert (LC : length A + length D <= length c) by (unfold c; rewrite !app_length; lia).
    unfold endpos. destruct r; [|exact sh_len].
    rewrite (sh_S (length c)); [rewrite sh_len; reflexivity|right; lia|exact NE].
  Qed.

  Theorem gwindow_gen : forall s r s', ghalts Or cfg c s r s' -> ghalts Or cfg c' s r s'.
  Proof.
    intros s r s' (n & H).
    destruct (gwindow_gen_sim n 0 s (endpos c r) s' H ltac:(unfold endpos; destruct r; lia) ltac:(left; lia))
      as (n' & H').
    exists n'. rewrite sh_endpos in H'. rewrite sh_lo in H'; [exact H'|].
    destruct D; [congruence|cbn; lia].
  Qed.
End Shift.

(** * Conditional branches and JMP, one step *)

Section CbOracle.
  Variable Or : oracle.

Lemma exec_cond (cfg : config) (m : mnem) (l : string) (s : mstate) :
  is_cond_branch m = true ->
  exec cfg m (OLbl l) s = if branch_taken m s then XOk s 3%N (FGoto l) else XOk s 2%N FNext.
Proof. destruct m; intros H; try discriminate H; reflexivity. Qed.

Lemma exec_cond_none (cfg : config) (m : mnem) (s : mstate) :
  is_cond_branch m = true -> exists w, exec cfg m ONone s = XFault w.
Proof. destruct m; intros H; try discriminate H; eexists; reflexivity. Qed.

Lemma parse_label (m : mnem) (l : string) :
  takes_label m = true -> String.eqb l "" = false -> parse_operand m l = Some (OLbl l).
Proof. intros T E. unfold parse_operand. rewrite E, T. reflexivity. Qed.

Lemma parse_empty (m : mnem) : parse_operand m "" = Some ONone.
Proof. reflexivity. Qed.

Lemma cond_takes_label (m : mnem) : is_cond_branch m = true -> takes_label m = true.
Proof. destruct m; intros H; try discriminate H; reflexivity. Qed.

Lemma inv_mn_taken (m : mnem) (s : mstate) :
  is_cond_branch m = true -> branch_taken (inv_mn m) s = negb (branch_taken m s).
Proof.
  destruct m; intros H; try discriminate H; cbn [inv_mn branch_taken]; try reflexivity;
    rewrite negb_involutive; reflexivity.
Qed.

(** a conditional branch in a halting run: it has a label, and the run goes on at its target or at
    the next line *)
Lemma grun_branch_inv (cfg : config) (c : code) (n p e : nat) (s fin : mstate) (b : instr) :
  nth_error c p = Some (Ins b) -> is_cond_branch (i_mn b) = true ->
  grun Or cfg c (S n) p s = Some (e, fin) ->
  String.eqb (i_op b) "" = false /\
  if branch_taken (i_mn b) s
  then exists k, find_lbl (i_op b) c = Some k /\ grun Or cfg c n k s = Some (e, fin)
  else grun Or cfg c n (S p) s = Some (e, fin).
Proof.
  intros NTH CB H. cbn [grun] in H. rewrite NTH in H.
  destruct (String.eqb (i_op b) "") eqn:E.
  - apply String.eqb_eq in E. rewrite E, parse_empty in H.
    destruct (exec_cond_none cfg (i_mn b) s CB) as [w X]. rewrite X in H. discriminate H.
  - split; [reflexivity|].
    rewrite (parse_label _ _ (cond_takes_label _ CB) E), (exec_cond cfg _ _ s CB) in H.
    destruct (branch_taken (i_mn b) s); [|exact H].
    destruct (find_lbl (i_op b) c) as [k|]; [|discriminate H]. eauto.
Qed.

Lemma grun_branch (cfg : config) (c : code) (n p : nat) (s : mstate) (b : instr) :
  nth_error c p = Some (Ins b) -> is_cond_branch (i_mn b) = true -> String.eqb (i_op b) "" = false ->
  grun Or cfg c (S n) p s =
  if branch_taken (i_mn b) s
  then match find_lbl (i_op b) c with Some k => grun Or cfg c n k s | None => None end
  else grun Or cfg c n (S p) s.
Proof.
  intros NTH CB E. cbn [grun]. rewrite NTH, (parse_label _ _ (cond_takes_label _ CB) E), (exec_cond cfg _ _ s CB).
  destruct (branch_taken (i_mn b) s); reflexivity.
Qed.

Lemma grun_jmp (cfg : config) (c : code) (n p : nat) (s : mstate) (l : string) :
  nth_error c p = Some (mk_jmp l) -> String.eqb l "" = false ->
  grun Or cfg c (S n) p s = match find_lbl l c with Some k => grun Or cfg c n k s | None => None end.
Proof.
  intros NTH E. cbn [grun]. rewrite NTH. cbn [mk_jmp i_mn i_op].
  rewrite (parse_label JMP l eq_refl E). reflexivity.
Qed.

Lemma grun_lbl (cfg : config) (c : code) (n p : nat) (s : mstate) (l : string) :
  nth_error c p = Some (Lbl l) -> grun Or cfg c (S n) p s = grun Or cfg c n (S p) s.
Proof. intros NTH. cbn [grun]. rewrite NTH. reflexivity. Qed.

Lemma fixl_nonempty (n : N) : String.eqb (fixl n) "" = false.
Proof. reflexivity. Qed.
Lemma fixup_nonempty (n : N) : String.eqb (fixup n) "" = false.
Proof. reflexivity. Qed.

Lemma nth_mid (A M T : code) (i : nat) :
  i < length M -> nth_error (A ++ M ++ T) (i + length A) = nth_error M i.
Proof.
  intros H. rewrite nth_error_app2 by lia. rewrite nth_error_app1 by lia. f_equal. lia.
Qed.

Lemma find_lbl_mid (l : string) (A M T : code) (i : nat) :
  ~ In l (all_labels A) -> find_lbl l M = Some i -> find_lbl l (A ++ M ++ T) = Some (i + length A).
Proof.
  intros NA F. rewrite find_lbl_app, (find_lbl_not_in l A NA), find_lbl_app, F. cbn [option_map].
  f_equal. lia.
Qed.

Lemma not_in_app_l (l : string) (A B : code) : ~ In l (all_labels (A ++ B)) -> ~ In l (all_labels A).
Proof. intros H I. apply H. rewrite all_labels_app. apply in_or_app. left. exact I. Qed.

(** * The two repairs enter and leave like what they replace *)

Lemma genters_mid3 (cfg : config) (A T : code) (b : instr) (n : N) :
  is_cond_branch (i_mn b) = true ->
  ~ In (fixl n) (all_labels (A ++ [Ins b] ++ T)) ->
  genters_alike Or cfg A [Ins b] (mid3 n b) T.
Proof.
  intros CB FR k s e fin LE H.
  assert (HD : all_labels [Ins b] = []) by reflexivity.
  assert (FRESH : forall l, In l (all_labels (mid3 n b)) -> ~ In l (all_labels (A ++ [Ins b] ++ T))).
  { intros l I. rewrite all_labels_mid3 in I. destruct I as [<-|[]]. exact FR. }
  set (c := A ++ [Ins b] ++ T) in *. set (c' := A ++ mid3 n b ++ T).
  assert (NB : nth_error c (length A) = Some (Ins b)).
  { unfold c. rewrite nth_error_app2 by lia. rewrite Nat.sub_diag. reflexivity. }
  assert (N0 : nth_error c' (length A) = Some (mk_branch (inv_mn (i_mn b)) (fixl n)))
    by (exact (nth_mid A (mid3 n b) T 0 ltac:(cbn; lia))).
  assert (N1 : nth_error c' (S (length A)) = Some (mk_jmp (i_op b)))
    by (exact (nth_mid A (mid3 n b) T 1 ltac:(cbn; lia))).
  assert (N2 : nth_error c' (S (S (length A))) = Some (Lbl (fixl n)))
    by (exact (nth_mid A (mid3 n b) T 2 ltac:(cbn; lia))).
  assert (FL : find_lbl (fixl n) c' = Some (S (S (length A)))).
  { apply (find_lbl_mid (fixl n) A (mid3 n b) T 2); [exact (not_in_app_l _ _ _ FR)|].
    cbn [mid3 mk_branch mk_jmp find_lbl]. rewrite String.eqb_refl. reflexivity. }
  assert (LEN : length A < length c) by (unfold c; rewrite !app_length; cbn; lia).
  destruct k as [|k]; [cbn [grun] in H; inversion H; lia|].
  destruct (grun_branch_inv cfg c k (length A) e s fin b NB CB H) as [E R].
  assert (CB' : is_cond_branch (i_mn (mkI (inv_mn (i_mn b)) (fixl n) 2%N (Some 3%N) 2%N false)) = true)
    by (apply inv_mn_cond; exact CB).
  pose proof (grun_branch cfg c' 1 (length A) s _ N0 CB' (fixl_nonempty n)) as S0.
  cbn [i_mn i_op] in S0. rewrite (inv_mn_taken _ s CB) in S0.
  destruct (branch_taken (i_mn b) s).
  - destruct R as (t & F & C). destruct (gfind_lbl_shift A [Ins b] (mid3 n b) T HD FRESH _ t F) as [F' OK]. fold c' in F'.
    exists k, t, s, 2. split; [lia|]. split; [cbn [length] in *; lia|]. split; [exact C|].
    fold c'. rewrite S0. cbn [negb]. rewrite (grun_jmp cfg c' 0 _ s _ N1 E), F'. reflexivity.
  - exists k, (S (length A)), s, 2. split; [lia|]. split; [cbn [length]; lia|]. split; [exact R|].
    fold c'. rewrite S0. cbn [negb]. rewrite FL. rewrite (grun_lbl cfg c' 0 _ s _ N2). cbn [grun].
    f_equal. f_equal. unfold shift. change (length (mid3 n b)) with 3. cbn [length].
    destruct (Nat.ltb_spec (S (length A)) (length A + 1)); lia.
Qed.

Lemma genters_mid5 (cfg : config) (A T : code) (b i2 : instr) (n : N) :
  is_cond_branch (i_mn b) = true -> i_mn i2 = BEQ -> i_op i2 = i_op b ->
  ~ In (fixl n) (all_labels (A ++ [Ins b; Ins i2] ++ T)) ->
  ~ In (fixup n) (all_labels (A ++ [Ins b; Ins i2] ++ T)) ->
  genters_alike Or cfg A [Ins b; Ins i2] (mid5 n b) T.
Proof.
  intros CB M2 O2 FR FU k s e fin LE H.
  assert (HD : all_labels [Ins b; Ins i2] = []) by reflexivity.
  assert (FRESH : forall l, In l (all_labels (mid5 n b)) -> ~ In l (all_labels (A ++ [Ins b; Ins i2] ++ T))).
  { intros l I. rewrite all_labels_mid5 in I. destruct I as [<-|[<-|[]]]; assumption. }
  set (c := A ++ [Ins b; Ins i2] ++ T) in *. set (c' := A ++ mid5 n b ++ T).
  assert (NB : nth_error c (length A) = Some (Ins b)).
  { unfold c. rewrite nth_error_app2 by lia. rewrite Nat.sub_diag. reflexivity. }
  assert (NB2 : nth_error c (S (length A)) = Some (Ins i2)).
  { unfold c. rewrite nth_error_app2 by lia. replace (S (length A) - length A) with 1 by lia. reflexivity. }
  assert (N0 : nth_error c' (length A) = Some (mk_branch_prot BEQ (fixup n)))
    by (exact (nth_mid A (mid5 n b) T 0 ltac:(cbn; lia))).
  assert (N1 : nth_error c' (S (length A)) = Some (mk_branch (inv_mn (i_mn b)) (fixl n)))
    by (exact (nth_mid A (mid5 n b) T 1 ltac:(cbn; lia))).
  assert (N2 : nth_error c' (S (S (length A))) = Some (Lbl (fixup n)))
    by (exact (nth_mid A (mid5 n b) T 2 ltac:(cbn; lia))).
  assert (N3 : nth_error c' (S (S (S (length A)))) = Some (mk_jmp (i_op b)))
    by (exact (nth_mid A (mid5 n b) T 3 ltac:(cbn; lia))).
  assert (N4 : nth_error c' (S (S (S (S (length A))))) = Some (Lbl (fixl n)))
    by (exact (nth_mid A (mid5 n b) T 4 ltac:(cbn; lia))).
  assert (FUL : find_lbl (fixup n) c' = Some (S (S (length A)))).
  { apply (find_lbl_mid (fixup n) A (mid5 n b) T 2); [exact (not_in_app_l _ _ _ FU)|].
    cbn [mid5 mk_branch mk_branch_prot mk_jmp find_lbl]. rewrite String.eqb_refl. reflexivity. }
  assert (FL : find_lbl (fixl n) c' = Some (S (S (S (S (length A)))))).
  { apply (find_lbl_mid (fixl n) A (mid5 n b) T 4); [exact (not_in_app_l _ _ _ FR)|].
    cbn [mid5 mk_branch mk_branch_prot mk_jmp find_lbl].
    assert (X : String.eqb (fixup n) (fixl n) = false).
    { apply String.eqb_neq. intros E. symmetry in E. exact (fixl_ne_fixup _ _ E). }
    rewrite X, String.eqb_refl. reflexivity. }
  assert (LEN : S (length A) < length c) by (unfold c; rewrite !app_length; cbn; lia).
  destruct k as [|k]; [cbn [grun] in H; inversion H; lia|].
  destruct (grun_branch_inv cfg c k (length A) e s fin b NB CB H) as [E R].
  assert (CB1 : is_cond_branch (i_mn (mkI (inv_mn (i_mn b)) (fixl n) 2%N (Some 3%N) 2%N false)) = true)
    by (apply inv_mn_cond; exact CB).
  assert (CB0 : is_cond_branch (i_mn (mkI BEQ (fixup n) 2%N (Some 3%N) 2%N true)) = true) by reflexivity.
  (* the new code, line by line *)
  assert (S0 : forall j, grun Or cfg c' (S j) (length A) s =
               if fZ s then grun Or cfg c' j (S (S (length A))) s else grun Or cfg c' j (S (length A)) s).
  { intros j. rewrite (grun_branch cfg c' j (length A) s _ N0 CB0 (fixup_nonempty n)).
    cbn [i_mn i_op branch_taken]. rewrite FUL. reflexivity. }
  assert (S1 : forall j, grun Or cfg c' (S j) (S (length A)) s =
               if branch_taken (i_mn b) s then grun Or cfg c' j (S (S (length A))) s
               else grun Or cfg c' j (S (S (S (S (length A))))) s).
  { intros j. rewrite (grun_branch cfg c' j _ s _ N1 CB1 (fixl_nonempty n)).
    cbn [i_mn i_op]. rewrite (inv_mn_taken _ s CB), FL. destruct (branch_taken (i_mn b) s); reflexivity. }
  assert (S23 : forall j t, find_lbl (i_op b) c' = Some t ->
                grun Or cfg c' (S (S j)) (S (S (length A))) s = grun Or cfg c' j t s).
  { intros j t F. rewrite (grun_lbl cfg c' _ _ s _ N2), (grun_jmp cfg c' j _ s _ N3 E), F. reflexivity. }
  assert (SHD : shift (length A) (length [Ins b; Ins i2]) (length (mid5 n b)) (S (S (length A)))
                = S (S (S (S (S (length A)))))).
  { unfold shift. change (length (mid5 n b)) with 5. cbn [length].
    destruct (Nat.ltb_spec (S (S (length A))) (length A + 2)); lia. }
  destruct (branch_taken (i_mn b) s) eqn:TB.
  - (* the first branch is taken *)
    destruct R as (t & F & C). destruct (gfind_lbl_shift A [Ins b; Ins i2] (mid5 n b) T HD FRESH _ t F) as [F' OK]. fold c' in F'.
    destruct (fZ s) eqn:Z.
    + exists k, t, s, 3. split; [lia|]. split; [cbn [length] in *; lia|]. split; [exact C|].
      fold c'. rewrite S0, (S23 0 _ F'). reflexivity.
    + exists k, t, s, 4. split; [lia|]. split; [cbn [length] in *; lia|]. split; [exact C|].
      fold c'. rewrite S0, S1, (S23 0 _ F'). reflexivity.
  - (* not taken: the BEQ decides *)
    destruct k as [|k]; [cbn [grun] in R; inversion R; lia|].
    assert (CB2 : is_cond_branch (i_mn i2) = true) by (rewrite M2; reflexivity).
    destruct (grun_branch_inv cfg c k (S (length A)) e s fin i2 NB2 CB2 R) as [_ R2].
    rewrite M2, O2 in R2. cbn [branch_taken] in R2.
    destruct (fZ s) eqn:Z.
    + destruct R2 as (t & F & C).
      destruct (gfind_lbl_shift A [Ins b; Ins i2] (mid5 n b) T HD FRESH _ t F) as [F' OK]. fold c' in F'.
      exists k, t, s, 3. split; [lia|]. split; [cbn [length] in *; lia|]. split; [exact C|].
      fold c'. rewrite S0, (S23 0 _ F'). reflexivity.
    + exists k, (S (S (length A))), s, 3. split; [lia|]. split; [cbn [length]; lia|]. split; [exact R2|].
      fold c'. rewrite S0, S1. rewrite (grun_lbl cfg c' 0 _ s _ N4). cbn [grun]. rewrite SHD. reflexivity.
Qed.

(** * One repair, then the iteration *)

Lemma grepair_step_sound (cfg : config) (c : code) (pre : list line) (b : instr) (tail : list line)
      (n : N) (mid tail' : list line) :
  scan (length c + 2) [] c = SFar pre b tail -> repair (n + 1) b tail = (mid, tail') ->
  lab_bound c n ->
  forall s r s', ghalts Or cfg c s r s' -> ghalts Or cfg (rev pre ++ mid ++ tail') s r s'.
Proof.
  intros SC RP LB s r s' H.
  destruct (cb_step _ _ _ _ _ _ _ SC RP) as [EC [CB [[-> ->]|(i2 & -> & M2 & O2 & ->)]]].
  - assert (EC' : c = rev pre ++ [Ins b] ++ tail) by (rewrite EC; reflexivity).
    assert (FR : forall l, In l (all_labels (mid3 (n + 1) b)) -> ~ In l (all_labels (rev pre ++ [Ins b] ++ tail))).
    { intros l I. rewrite <- EC'. rewrite all_labels_mid3 in I.
      apply (lab_bound_fresh c n [fixl (n + 1)] l LB); [left; reflexivity|exact I]. }
    rewrite EC' in H.
    apply (gwindow_gen (rev pre) [Ins b] (mid3 (n + 1) b) tail eq_refl FR Or cfg ltac:(discriminate)); [|exact H].
    apply genters_mid3; [exact CB|]. apply FR. rewrite all_labels_mid3. left. reflexivity.
  - assert (EC' : c = rev pre ++ [Ins b; Ins i2] ++ tail') by (rewrite EC; reflexivity).
    assert (FR : forall l, In l (all_labels (mid5 (n + 1) b)) ->
                 ~ In l (all_labels (rev pre ++ [Ins b; Ins i2] ++ tail'))).
    { intros l I. rewrite <- EC'. rewrite all_labels_mid5 in I.
      apply (lab_bound_fresh c n [fixup (n + 1); fixl (n + 1)] l LB); [right; reflexivity|exact I]. }
    rewrite EC' in H.
    apply (gwindow_gen (rev pre) [Ins b; Ins i2] (mid5 (n + 1) b) tail' eq_refl FR Or cfg ltac:(discriminate));
      [|exact H].
    apply genters_mid5; try assumption; apply FR; rewrite all_labels_mid5; cbn [In]; auto.
Qed.

Lemma gcb_loop_sound (cfg : config) : forall fuel c nfix c' n',
  cb_loop fuel c nfix = CbOk c' n' -> lab_bound c nfix ->
  forall s r s', ghalts Or cfg c s r s' -> ghalts Or cfg c' s r s'.
Proof.
  induction fuel as [|f IH]; intros c nfix c' n' H LB s r s' HH; [discriminate H|].
  cbn [cb_loop] in H.
  destruct (scan (length c + 2) [] c) as [|pre b tail|] eqn:Es.
  - inversion H; subst. exact HH.
  - destruct (repair (nfix + 1) b tail) as [mid tail'] eqn:Er.
    apply (IH _ _ _ _ H).
    + destruct (cb_step_gen _ _ _ _ _ _ _ Es Er) as (D & X & Hc & HD & _ & _ & HM & _ & HX & _).
      subst c. exact (lab_bound_step _ _ _ _ _ _ HD HM HX LB).
    + exact (grepair_step_sound cfg c pre b tail nfix mid tail' Es Er LB s r s' HH).
  - discriminate H.
Qed.

(** a body with calls: the repaired body ends whenever the original does, the same way, in the
    same state, the calls being answered by the same oracle *)
Theorem check_branches_call_sound : forall cfg c c' n s r s',
  no_fix_labels c -> check_branches c = CbOk c' n ->
  ghalts Or cfg c s r s' -> ghalts Or cfg c' s r s'.
Proof.
  intros cfg c c' n s r s' NF CBK H. unfold check_branches in CBK.
  apply (gcb_loop_sound cfg _ _ _ _ _ CBK); [|exact H].
  intros l Hl. left. apply NF. exact Hl.
Qed.

End CbOracle.

(** * The repair keeps the side condition, and the code assembles *)



Lemma cfc_ok_branch (cfg : config) (m : mnem) (l : string) (cy : N) (alt : option N) (nb : N) (p : bool) :
  is_cond_branch m = true -> cfc_ins_ok cfg (mkI m l cy alt nb p) = true.
Proof. destruct m; intros H; try discriminate H; reflexivity. Qed.

Lemma cfc_ok_mid3 (cfg : config) (n : N) (b : instr) :
  is_cond_branch (i_mn b) = true -> cfc_ok cfg (mid3 n b) = true.
Proof.
  intros CB. unfold cfc_ok, mid3, mk_branch, mk_jmp. cbn [forallb cfc_line_ok].
  rewrite (cfc_ok_branch cfg _ _ _ _ _ _ (inv_mn_cond _ CB)). reflexivity.
Qed.

Lemma cfc_ok_mid5 (cfg : config) (n : N) (b : instr) :
  is_cond_branch (i_mn b) = true -> cfc_ok cfg (mid5 n b) = true.
Proof.
  intros CB. unfold cfc_ok, mid5, mk_branch, mk_branch_prot, mk_jmp. cbn [forallb cfc_line_ok].
  rewrite (cfc_ok_branch cfg _ _ _ _ _ _ (inv_mn_cond _ CB)). reflexivity.
Qed.

Definition parses (c : code) : Prop :=
  forall i, In (Ins i) c -> parse_operand (i_mn i) (i_op i) <> None.

Lemma parse_takes_label (m : mnem) (l : string) : takes_label m = true -> parse_operand m l <> None.
Proof. intros T. unfold parse_operand. rewrite T. destruct (String.eqb l ""); discriminate. Qed.

Lemma parses_mid (n : N) (b : instr) (M : code) :
  is_cond_branch (i_mn b) = true -> M = mid3 n b \/ M = mid5 n b -> parses M.
Proof.
  intros CB [-> | ->] i Hi; cbn [mid3 mid5 mk_branch mk_branch_prot mk_jmp In] in Hi;
    repeat (destruct Hi as [Hi|Hi]; [inversion Hi; subst i; cbn [i_mn i_op]; apply parse_takes_label;
                                     try reflexivity; apply cond_takes_label; apply inv_mn_cond; exact CB|]);
    try discriminate Hi; destruct Hi.
Qed.

Lemma gcb_loop_struct (cfg : config) : forall fuel c nfix c' n',
  cb_loop fuel c nfix = CbOk c' n' -> cfc_ok cfg c = true -> parses c ->
  cfc_ok cfg c' = true /\ parses c'.
Proof.
  induction fuel as [|f IH]; intros c nfix c' n' H OK PA; [discriminate H|].
  cbn [cb_loop] in H.
  destruct (scan (length c + 2) [] c) as [|pre b tail|] eqn:Es.
  - inversion H; subst. auto.
  - destruct (repair (nfix + 1) b tail) as [mid tail'] eqn:Er.
    apply (IH _ _ _ _ H).
    + destruct (cb_step_gen _ _ _ _ _ _ _ Es Er) as (D & X & Hc & _ & _ & (D' & ED) & _ & _ & _ & HM).
      destruct (cb_step _ _ _ _ _ _ _ Es Er) as [_ [CB _]].
      subst c. apply cfc_ok_app in OK. destruct OK as [O1 O2]. apply cfc_ok_app in O2.
      apply cfc_ok_app. split; [exact O1|]. apply cfc_ok_app. split; [|exact (proj2 O2)].
      destruct HM as [-> | ->]; [apply cfc_ok_mid3|apply cfc_ok_mid5]; exact CB.
    + destruct (cb_step_gen _ _ _ _ _ _ _ Es Er) as (D & X & Hc & _ & _ & _ & _ & _ & _ & HM).
      destruct (cb_step _ _ _ _ _ _ _ Es Er) as [_ [CB _]].
      subst c. intros i Hi. apply in_app_or in Hi. destruct Hi as [Hi|Hi].
      * apply PA. apply in_or_app. left. exact Hi.
      * apply in_app_or in Hi. destruct Hi as [Hi|Hi].
        -- exact (parses_mid (nfix + 1) b mid CB HM i Hi).
        -- apply PA. apply in_or_app. right. apply in_or_app. right. exact Hi.
  - discriminate H.
Qed.

Lemma gcb_loop_cfc (cfg : config) : forall fuel c nfix c' n',
  cb_loop fuel c nfix = CbOk c' n' -> cfc_ok cfg c = true -> cfc_ok cfg c' = true.
Proof.
  induction fuel as [|f IH]; intros c nfix c' n' H OK; [discriminate H|].
  cbn [cb_loop] in H.
  destruct (scan (length c + 2) [] c) as [|pre b tail|] eqn:Es.
  - inversion H; subst. exact OK.
  - destruct (repair (nfix + 1) b tail) as [mid tail'] eqn:Er.
    apply (IH _ _ _ _ H).
    destruct (cb_step_gen _ _ _ _ _ _ _ Es Er) as (D & X & Hc & _ & _ & (D' & ED) & _ & _ & _ & HM).
    destruct (cb_step _ _ _ _ _ _ _ Es Er) as [_ [CB _]].
    subst c. apply cfc_ok_app in OK. destruct OK as [O1 O2]. apply cfc_ok_app in O2.
    apply cfc_ok_app. split; [exact O1|]. apply cfc_ok_app. split; [|exact (proj2 O2)].
    destruct HM as [-> | ->]; [apply cfc_ok_mid3|apply cfc_ok_mid5]; exact CB.
  - discriminate H.
Qed.

(** * Whole programs: the long-branch repair, and the pipeline *)

Definition cb_ok (cfg : config) (c : code) : Prop := cfc_ok cfg c = true /\ no_fix_labels c.

Lemma cb_fun_cfc (cfg : config) (c : code) : cfc_ok cfg c = true -> cfc_ok cfg (cb_fun c) = true.
Proof.
  intros OK. unfold cb_fun. destruct (check_branches c) as [c' n| |] eqn:CBK; try exact OK.
  exact (gcb_loop_cfc cfg _ _ _ _ _ CBK OK).
Qed.

Lemma cb_fun_equiv (Or : oracle) (cfg : config) (c : code) :
  no_fix_labels c -> cfc_equiv Or cfg c (cb_fun c).
Proof.
  intros NF s r s' _ H. exists s'. split; [|apply eq_state_refl].
  unfold cb_fun. destruct (check_branches c) as [c' n| |] eqn:CBK; try exact H.
  exact (check_branches_call_sound Or cfg c c' n s r s' NF CBK H).
Qed.

Lemma cb_fun_asm (cfg : config) (c : code) (sl : list sline) :
  cfc_ok cfg c = true -> slines_of c = Some sl -> exists sl', slines_of (cb_fun c) = Some sl'.
Proof.
  intros OK SL. unfold cb_fun. destruct (check_branches c) as [c' n| |] eqn:CBK; eauto.
  apply OptSimCFFacts.slines_some.
  exact (proj2 (gcb_loop_struct cfg _ _ _ _ _ CBK OK (fun i Hi => OptSimCFFacts.slines_parse c sl i SL Hi))).
Qed.

Theorem check_branches_program_sound : forall cfg P main s s',
  bytes_ok s -> all_bodies (cb_ok cfg) P ->
  phalts cfg P main s s' ->
  exists s'', phalts cfg (cb_prog P) main s s'' /\ eq_state s'' s'.
Proof.
  intros cfg P main s s' HB AB H.
  apply (prog_sim cfg cb_fun (cb_ok cfg)); try assumption.
  - intros c (OK & _). exact OK.
  - intros c (OK & _). exact (cb_fun_cfc cfg c OK).
  - intros Or c _ (_ & NF). exact (cb_fun_equiv Or cfg c NF).
Qed.
Print Assumptions check_branches_program_sound.

Theorem check_branches_program_run : forall cfg P main s s',
  bytes_ok s -> all_bodies (cb_ok cfg) P ->
  run_halts cfg P main s s' ->
  exists s'', run_halts cfg (cb_prog P) main s s'' /\ eq_state s'' s'.
Proof.
  intros cfg P main s s' HB AB R.
  apply (prog_run cfg cb_fun (cb_ok cfg)); try assumption.
  - intros c (OK & _). exact OK.
  - intros c (OK & _). exact (cb_fun_cfc cfg c OK).
  - intros Or c _ (_ & NF). exact (cb_fun_equiv Or cfg c NF).
  - intros c sl (OK & _) SL. exact (cb_fun_asm cfg c sl OK SL).
Qed.
Print Assumptions check_branches_program_run.

(** what the compiler emits at -O1 for a whole program: every function optimised, then its far
    branches repaired *)
Definition pipe_fun (c : code) : code := cb_fun (fst (optimize c)).
Definition pipe_ok (cfg : config) (c : code) : Prop := opt_ok cfg c /\ no_fix_labels c.

Lemma pipe_prog_eq (P : cprog) : map_prog pipe_fun P = cb_prog (opt_prog P).
Proof.
  unfold cb_prog, opt_prog, map_prog. rewrite map_map. apply map_ext. intros [f c]. reflexivity.
Qed.

Lemma optimize_no_fix (cfg : config) (c : code) : no_fix_labels c -> no_fix_labels (fst (optimize c)).
Proof.
  intros NF l Hl. apply NF. rewrite <- lbls_all_labels in Hl |- *.
  rewrite <- (proj2 (rws_struct cfg _ _ _ (OptFacts.optimize_rws c))). exact Hl.
Qed.

Lemma pipe_fun_equiv (Or : oracle) (cfg : config) (c : code) :
  oracle_ok Or -> ports cfg = [] -> pipe_ok cfg c -> cfc_equiv Or cfg c (pipe_fun c).
Proof.
  intros OO HP ((OK & ND & RB) & NF) s r s' HB H.
  destruct (optimize_call_equiv Or cfg c OO HP OK ND RB s r s' HB H) as (s1 & H1 & E1).
  destruct (cb_fun_equiv Or cfg (fst (optimize c)) (optimize_no_fix cfg c NF) s r s1 HB H1) as (s2 & H2 & E2).
  exists s2. split; [exact H2|exact (eq_state_trans _ _ _ E2 E1)].
Qed.

Theorem pipeline_program_sound : forall cfg P main s s',
  ports cfg = [] -> bytes_ok s -> all_bodies (pipe_ok cfg) P ->
  phalts cfg P main s s' ->
  exists s'', phalts cfg (cb_prog (opt_prog P)) main s s'' /\ eq_state s'' s'.
Proof.
  intros cfg P main s s' HP HB AB H. rewrite <- pipe_prog_eq.
  apply (prog_sim cfg pipe_fun (pipe_ok cfg)); try assumption.
  - intros c ((OK & _) & _). exact OK.
  - intros c ((OK & _) & _). exact (cb_fun_cfc cfg _ (optimize_cfc_ok cfg c OK)).
  - intros Or c OO PO. exact (pipe_fun_equiv Or cfg c OO HP PO).
Qed.
Print Assumptions pipeline_program_sound.

Theorem pipeline_program_run : forall cfg P main s s',
  ports cfg = [] -> bytes_ok s -> all_bodies (pipe_ok cfg) P ->
  run_halts cfg P main s s' ->
  exists s'', run_halts cfg (cb_prog (opt_prog P)) main s s'' /\ eq_state s'' s'.
Proof.
  intros cfg P main s s' HP HB AB R. rewrite <- pipe_prog_eq.
  apply (prog_run cfg pipe_fun (pipe_ok cfg)); try assumption.
  - intros c ((OK & _) & _). exact OK.
  - intros c ((OK & _) & _). exact (cb_fun_cfc cfg _ (optimize_cfc_ok cfg c OK)).
  - intros Or c OO PO. exact (pipe_fun_equiv Or cfg c OO HP PO).
  - intros c sl ((OK & _) & _) SL. destruct (optimize_asm c sl SL) as [sl1 SL1].
    exact (cb_fun_asm cfg _ sl1 (optimize_cfc_ok cfg c OK) SL1).
Qed.
Print Assumptions pipeline_program_run.

(** * Non-vacuity: a three-function program, calls nested two deep *)

#[local] Open Scope string_scope.
#[local] Open Scope list_scope.

(** main: X := 5; inc(); X := 5 (the reload must stay: the callee may have changed X); t := X.
    inc: bump(); A := w; A := w (redundant: removed).  bump: w := w + 1. *)
Definition call_prog : cprog :=
  [("main", [sim_ins LDX "#5"; sim_ins JSR "inc"; sim_ins LDX "#5"; sim_ins STX "t"; sim_ins RTS ""]);
   ("inc",  [sim_ins JSR "bump"; sim_ins LDA "w"; sim_ins LDA "w"; sim_ins RTS ""]);
   ("bump", [sim_ins INC "w"; sim_ins RTS ""])].

Example call_prog_optimized :
  opt_prog call_prog =
  [("main", [sim_ins LDX "#5"; sim_ins JSR "inc"; sim_ins LDX "#5"; sim_ins STX "t"; sim_ins RTS ""]);
   ("inc",  [sim_ins JSR "bump"; sim_ins LDA "w"; Dummy; sim_ins RTS ""]);
   ("bump", [sim_ins INC "w"; sim_ins RTS ""])].
Proof. vm_compute. reflexivity. Qed.

Lemma call_prog_ok : all_bodies (pipe_ok sim_cfg) call_prog.
Proof.
  intros f c H. cbn [call_prog In] in H.
  destruct H as [H|[H|[H|[]]]]; inversion H; subst f c;
    (split; [split; [vm_compute; reflexivity|split; [apply OptSimCFFacts.NoDup_compute; vm_compute; reflexivity|vm_compute; reflexivity]]
            |intros l Hl; vm_compute in Hl; destruct Hl]).
Qed.

(** both programs executed by [Sem.run_function] *)
Example call_prog_runs :
  exists sp sp', sprog_of call_prog = Some sp /\ sprog_of (opt_prog call_prog) = Some sp' /\
    exists s' tr cy tr' cy',
      run_function sim_cfg sp (fun _ _ => None) (fun _ _ => None) 50 "main" sim_state = Halt s' tr cy /\
      run_function sim_cfg sp' (fun _ _ => None) (fun _ _ => None) 50 "main" sim_state = Halt s' tr' cy' /\
      rX s' = 5%Z /\ rA s' = 10%Z /\ mget (mem s') 128 = 10%Z /\ mget (mem s') 512 = 5%Z /\ rS s' = 255%Z.
Proof.
  eexists. eexists. split; [vm_compute; reflexivity|]. split; [vm_compute; reflexivity|].
  eexists. eexists. eexists. eexists. eexists.
  split; [vm_compute; reflexivity|]. split; [vm_compute; reflexivity|]. vm_compute. repeat split; reflexivity.
Qed.

Example optimize_program_example :
  ports sim_cfg = [] /\ bytes_ok sim_state /\ all_bodies (opt_ok sim_cfg) call_prog /\
  exists s' s'', run_halts sim_cfg call_prog "main" sim_state s' /\
                 run_halts sim_cfg (opt_prog call_prog) "main" sim_state s'' /\
                 eq_state s'' s' /\ rX s' = 5%Z /\ mget (mem s') 128 = 10%Z.
Proof.
  assert (AB : all_bodies (opt_ok sim_cfg) call_prog) by (intros f c H; exact (proj1 (call_prog_ok f c H))).
  split; [reflexivity|]. split; [exact sim_state_bytes|]. split; [exact AB|].
  destruct (grun (call sim_cfg call_prog 6 1) sim_cfg
              [sim_ins LDX "#5"; sim_ins JSR "inc"; sim_ins LDX "#5"; sim_ins STX "t"; sim_ins RTS ""]
              5 0 sim_state) as [[pc s']|] eqn:E; [|vm_compute in E; discriminate E].
  assert (PC : pc = 6%nat) by (vm_compute in E; inversion E; reflexivity). subst pc.
  assert (PH : phalts sim_cfg call_prog "main" sim_state s').
  { eexists _, 6%nat, true. split; [reflexivity|]. exists 5%nat. exact E. }
  assert (RH : run_halts sim_cfg call_prog "main" sim_state s').
  { apply phalts_run_halts; [intros f c H; exact (proj1 (proj1 (call_prog_ok f c H)))| |exact PH].
    eexists. vm_compute. reflexivity. }
  destruct (optimize_program_run sim_cfg call_prog "main" sim_state s' eq_refl sim_state_bytes AB RH)
    as (s'' & R2 & Q).
  exists s', s''. split; [exact RH|]. split; [exact R2|]. split; [exact Q|].
  vm_compute in E. inversion E. vm_compute. split; reflexivity.
Qed.
Print Assumptions optimize_program_example.
