(** An assembler's view of a function's code (C04, C13): the mode selected for every instruction
    and its encoded size, label definitions and references.  Executable checker used on the
    compiler's real output, and the subject of the size/legality theorems. *)
From Coq Require Import String Ascii List Bool NArith ZArith.
From CC Require Import Base.Str Asm.Lines M6502.Isa Asm.Operand.
Import ListNotations.

(** is the operand's address below $100 under this layout? *)
Definition operand_zp (layout : string -> option Z) (o : operand) : option bool :=
  match o with
  | OMem y k _ | OInd y k =>
      match layout y with Some a => Some ((a + k <? 256)%Z && (0 <=? a + k)%Z) | None => None end
  | _ => Some false
  end.

Inductive enc := EncOk (size : N) | EncIllegal | EncUnknownSymbol | EncUnparsed.

Definition encode_instr (layout : string -> option Z) (i : instr) : enc :=
  match parse_operand (i_mn i) (i_op i) with
  | None => EncUnparsed
  | Some o =>
      match operand_zp layout o with
      | None => EncUnknownSymbol
      | Some zp =>
          match resolved_size (i_mn i) (shape_of o) zp with
          | Some n => EncOk n
          | None => EncIllegal
          end
      end
  end.

(** symbols an immediate refers to must be known as well *)
Definition imm_symbol_known (layout : string -> option Z) (i : instr) : bool :=
  match parse_operand (i_mn i) (i_op i) with
  | Some (OImm (ILo y _)) | Some (OImm (IHi y _)) =>
      match layout y with Some _ => true | None => false end
  | _ => true
  end.

Record wf_report := mkWf {
  wf_size : N;                       (* sum of encoded sizes (inline lines at their declared size) *)
  wf_bad_size : list (nat * N * N);  (* line, nb_bytes reported, encoded size *)
  wf_illegal : list nat;             (* lines with no 6502 encoding *)
  wf_unknown : list nat;             (* lines referring to an unknown symbol / unparsable operand *)
  wf_dup_labels : list string;
  wf_undefined : list string         (* branch / JMP targets not defined in the function *)
}.

Fixpoint count_label (l : string) (c : code) : nat :=
  match c with
  | [] => 0
  | Lbl s :: r => (if String.eqb s l then 1 else 0) + count_label l r
  | _ :: r => count_label l r
  end.

Definition local_target (i : instr) : option string :=
  match i_mn i with
  | BCC | BCS | BEQ | BMI | BNE | BPL | JMP => Some (i_op i)
  | _ => None
  end.

Fixpoint wf_scan (layout : string -> option Z) (whole : code) (c : code) (k : nat) (r : wf_report) : wf_report :=
  match c with
  | [] => r
  | Ins i :: rest =>
      let r1 :=
        match encode_instr layout i with
        | EncOk n =>
            let r' := mkWf (wf_size r + n) (wf_bad_size r) (wf_illegal r) (wf_unknown r) (wf_dup_labels r) (wf_undefined r) in
            if N.eqb n (i_bytes i) && imm_symbol_known layout i then r'
            else if N.eqb n (i_bytes i) then
              mkWf (wf_size r') (wf_bad_size r') (wf_illegal r') (k :: wf_unknown r') (wf_dup_labels r') (wf_undefined r')
            else mkWf (wf_size r') ((k, i_bytes i, n) :: wf_bad_size r') (wf_illegal r') (wf_unknown r') (wf_dup_labels r') (wf_undefined r')
        | EncIllegal => mkWf (wf_size r) (wf_bad_size r) (k :: wf_illegal r) (wf_unknown r) (wf_dup_labels r) (wf_undefined r)
        | _ => mkWf (wf_size r) (wf_bad_size r) (wf_illegal r) (k :: wf_unknown r) (wf_dup_labels r) (wf_undefined r)
        end in
      let r2 :=
        match local_target i with
        | Some t =>
            (* a JMP may also leave the function (to another function / .endof of an inline body) *)
            if Nat.eqb (count_label t whole) 0 && (is_cond_branch (i_mn i) || starts_with "." t)
            then mkWf (wf_size r1) (wf_bad_size r1) (wf_illegal r1) (wf_unknown r1) (wf_dup_labels r1) (t :: wf_undefined r1)
            else r1
        | None => r1
        end in
      wf_scan layout whole rest (S k) r2
  | Lbl s :: rest =>
      let r1 := if Nat.ltb 1 (count_label s whole) && negb (existsb (String.eqb s) (wf_dup_labels r))
                then mkWf (wf_size r) (wf_bad_size r) (wf_illegal r) (wf_unknown r) (s :: wf_dup_labels r) (wf_undefined r)
                else r in
      wf_scan layout whole rest (S k) r1
  | Inl _ n :: rest =>
      wf_scan layout whole rest (S k)
              (mkWf (wf_size r + n) (wf_bad_size r) (wf_illegal r) (wf_unknown r) (wf_dup_labels r) (wf_undefined r))
  | _ :: rest => wf_scan layout whole rest (S k) r
  end.

Definition wf_check (layout : string -> option Z) (c : code) : wf_report :=
  wf_scan layout c c 0 (mkWf 0 [] [] [] [] []).
