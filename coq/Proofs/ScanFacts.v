(** C09 / C11: string literals (escape decoding, NUL termination, opacity to the scanner) and
    comments / splices in the per-line scanner of the preprocessor model. *)
From Coq Require Import String Ascii List Bool Arith NArith Lia.
From CC Require Import Base.Str Model.Cpp Model.StrLit Model.ScanSpec.
Import ListNotations.
Open Scope string_scope.

(** * Strings *)

Lemma s_app_assoc (a b c : string) : (a ++ b) ++ c = a ++ b ++ c.
Proof. induction a as [|x a IH]; cbn [append]; [reflexivity|]. rewrite IH. reflexivity. Qed.

Lemma s_app_nil_r (a : string) : a ++ "" = a.
Proof. induction a as [|x a IH]; cbn [append]; [reflexivity|]. rewrite IH. reflexivity. Qed.

Lemma s_length_app (a b : string) : String.length (a ++ b) = String.length a + String.length b.
Proof. induction a as [|x a IH]; cbn [append String.length]; [reflexivity|]. rewrite IH. reflexivity. Qed.

Lemma rev_aux_app (s acc : string) : rev_string_aux s acc = rev_string_aux s "" ++ acc.
Proof.
  revert acc. induction s as [|a s IH]; intros acc; cbn [rev_string_aux]; [reflexivity|].
  rewrite IH. rewrite (IH (String a "")). rewrite s_app_assoc. reflexivity.
Qed.

Lemma rev_string_cons (a : ascii) (s : string) : rev_string (String a s) = rev_string s ++ String a "".
Proof. unfold rev_string. cbn [rev_string_aux]. apply rev_aux_app. Qed.

Lemma rev_string_nil : rev_string "" = "".
Proof. reflexivity. Qed.

Lemma rev_string_app (a b : string) : rev_string (a ++ b) = rev_string b ++ rev_string a.
Proof.
  induction a as [|x a IH]; cbn [append].
  - rewrite rev_string_nil, s_app_nil_r. reflexivity.
  - rewrite !rev_string_cons, IH, s_app_assoc. reflexivity.
Qed.

Lemma rev_string_invol (s : string) : rev_string (rev_string s) = s.
Proof.
  induction s as [|x s IH]; [reflexivity|].
  rewrite rev_string_cons, rev_string_app, IH. reflexivity.
Qed.

Lemma rev_string_length (s : string) : String.length (rev_string s) = String.length s.
Proof.
  induction s as [|x s IH]; [reflexivity|].
  rewrite rev_string_cons, s_length_app, IH. cbn [String.length]. lia.
Qed.

Lemma starts_with_self_app (p s : string) : starts_with p (p ++ s) = true.
Proof.
  induction p as [|c p IH]; cbn [append starts_with]; [reflexivity|].
  rewrite Ascii.eqb_refl, IH. reflexivity.
Qed.

Lemma starts_with_app_long (p a b : string) :
  String.length p <= String.length a -> starts_with p (a ++ b) = starts_with p a.
Proof.
  revert a. induction p as [|c p IH]; intros a H; [reflexivity|].
  destruct a as [|d a]; cbn [String.length] in H; [lia|].
  cbn [append starts_with]. rewrite IH by lia. reflexivity.
Qed.

Lemma starts_with_app_true (p a b : string) : starts_with p a = true -> starts_with p (a ++ b) = true.
Proof.
  revert a. induction p as [|c p IH]; intros a H; [reflexivity|].
  destruct a as [|d a]; cbn [starts_with] in H; [discriminate|].
  apply andb_true_iff in H. destruct H as [H1 H2].
  cbn [append starts_with]. rewrite H1, (IH _ H2). reflexivity.
Qed.

Lemma drop_length_app (a b : string) : string_drop (String.length a) (a ++ b) = b.
Proof. induction a as [|x a IH]; cbn [String.length append string_drop]; [reflexivity|exact IH]. Qed.

Lemma take_length_app (a b : string) : string_take (String.length a) (a ++ b) = a.
Proof.
  induction a as [|x a IH]; cbn [String.length append string_take]; [reflexivity|].
  rewrite IH. reflexivity.
Qed.

Lemma starts_with_decomp (p s : string) :
  starts_with p s = true -> s = p ++ string_drop (String.length p) s.
Proof.
  revert s. induction p as [|c p IH]; intros s H; [reflexivity|].
  destruct s as [|d s]; cbn [starts_with] in H; [discriminate|].
  apply andb_true_iff in H. destruct H as [H1 H2].
  apply Ascii.eqb_eq in H1. subst d.
  cbn [String.length string_drop append]. rewrite <- (IH _ H2). reflexivity.
Qed.

Lemma ends_with_app (suf a : string) : ends_with suf (a ++ suf) = true.
Proof. unfold ends_with. rewrite rev_string_app. apply starts_with_self_app. Qed.

Lemma ends_with_app_long (suf a b : string) :
  String.length suf <= String.length b -> ends_with suf (a ++ b) = ends_with suf b.
Proof.
  intros H. unfold ends_with. rewrite rev_string_app.
  apply starts_with_app_long. rewrite !rev_string_length. exact H.
Qed.

Lemma ends_with_cons_long (suf : string) (c : ascii) (s : string) :
  String.length suf <= String.length s -> ends_with suf (String c s) = ends_with suf s.
Proof. intros H. change (String c s) with (String c "" ++ s). apply ends_with_app_long. exact H. Qed.

Lemma ends_with_decomp (suf s : string) : ends_with suf s = true -> exists p, s = p ++ suf.
Proof.
  unfold ends_with. intros H. apply starts_with_decomp in H.
  exists (rev_string (string_drop (String.length (rev_string suf)) (rev_string s))).
  rewrite <- (rev_string_invol suf) at 2. rewrite <- rev_string_app, <- H, rev_string_invol.
  reflexivity.
Qed.

Lemma eqb_app_nonempty (a b : string) : b <> "" -> String.eqb (a ++ b) "" = false.
Proof.
  intros H. destruct a as [|x a]; cbn [append]; [|reflexivity].
  destruct b; [contradiction|reflexivity].
Qed.

(** * [split_once], [before], [contains] *)

Lemma split_once_eq (pat s : string) :
  split_once pat s =
  if starts_with pat s then Some ("", string_drop (String.length pat) s)
  else match s with
       | EmptyString => None
       | String a r => match split_once pat r with
                       | Some (b, t) => Some (String a b, t)
                       | None => None
                       end
       end.
Proof. destruct s; reflexivity. Qed.

(** the first occurrence of [pat] in [a ++ s] is the first occurrence in [s] when [pat] starts
    nowhere inside [a] *)
Lemma split_once_skip (pat a s : string) :
  no_start pat a s = true ->
  split_once pat (a ++ s) =
  match split_once pat s with Some (x, y) => Some (a ++ x, y) | None => None end.
Proof.
  induction a as [|c a IH]; intros H.
  - cbn [append]. destruct (split_once pat s) as [[x y]|]; reflexivity.
  - cbn [no_start] in H. apply andb_true_iff in H. destruct H as [H1 H2].
    apply negb_true_iff in H1. rewrite split_once_eq, H1.
    cbn [append]. rewrite (IH H2).
    destruct (split_once pat s) as [[x y]|]; reflexivity.
Qed.

Lemma split_once_here (pat b : string) : split_once pat (pat ++ b) = Some ("", b).
Proof. rewrite split_once_eq, starts_with_self_app, drop_length_app. reflexivity. Qed.

Theorem split_once_first (pat a b : string) :
  no_start pat a (pat ++ b) = true -> split_once pat (a ++ pat ++ b) = Some (a, b).
Proof.
  intros H. rewrite (split_once_skip _ _ _ H), split_once_here, s_app_nil_r. reflexivity.
Qed.

Theorem split_once_spec (pat s l r : string) :
  split_once pat s = Some (l, r) -> s = l ++ pat ++ r /\ no_start pat l (pat ++ r) = true.
Proof.
  revert l r. induction s as [|a s IH]; intros l r H; rewrite split_once_eq in H.
  - destruct (starts_with pat "") eqn:E; [|discriminate].
    inversion H; subst. split; [apply (starts_with_decomp _ _ E)|reflexivity].
  - destruct (starts_with pat (String a s)) eqn:E.
    + inversion H; subst. split; [apply (starts_with_decomp _ _ E)|reflexivity].
    + destruct (split_once pat s) as [[b t]|] eqn:E2; [|discriminate].
      inversion H; subst. destruct (IH _ _ eq_refl) as [I1 I2].
      split.
      * cbn [append]. rewrite <- I1. reflexivity.
      * cbn [no_start]. rewrite I2. cbn [append]. rewrite <- I1, E. reflexivity.
Qed.

Lemma before_skip (pat a s : string) :
  no_start pat a s = true -> before pat (a ++ s) = a ++ before pat s.
Proof.
  intros H. unfold before. rewrite (split_once_skip _ _ _ H).
  destruct (split_once pat s) as [[x y]|]; reflexivity.
Qed.

Lemma contains_skip (pat a s : string) :
  no_start pat a s = true -> contains pat (a ++ s) = contains pat s.
Proof.
  intros H. unfold contains. rewrite (split_once_skip _ _ _ H).
  destruct (split_once pat s) as [[x y]|]; reflexivity.
Qed.

Lemma before_none (pat s : string) : contains pat s = false -> before pat s = s.
Proof. unfold contains, before. destruct (split_once pat s) as [[x y]|]; [discriminate|reflexivity]. Qed.

Lemma split_once_none (pat s : string) : contains pat s = false -> split_once pat s = None.
Proof. unfold contains. destruct (split_once pat s); [discriminate|reflexivity]. Qed.

Lemma contains_false_cons (pat : string) (c : ascii) (s : string) :
  contains pat (String c s) = false ->
  starts_with pat (String c s) = false /\ contains pat s = false.
Proof.
  unfold contains. rewrite split_once_eq.
  destruct (starts_with pat (String c s)); [discriminate|].
  destruct (split_once pat s) as [[x y]|]; [discriminate|]. intros _. split; reflexivity.
Qed.

Lemma contains_app_r (pat a b : string) : contains pat b = true -> contains pat (a ++ b) = true.
Proof.
  intros H. induction a as [|c a IH]; [exact H|].
  cbn [append]. unfold contains in *. rewrite split_once_eq.
  destruct (starts_with pat (String c (a ++ b))); [reflexivity|].
  destruct (split_once pat (a ++ b)) as [[x y]|]; [reflexivity|discriminate].
Qed.

Lemma contains_here (pat b : string) : contains pat (pat ++ b) = true.
Proof. unfold contains. rewrite split_once_here. reflexivity. Qed.

Lemma contains_mid (pat a b : string) : contains pat (a ++ pat ++ b) = true.
Proof. apply contains_app_r, contains_here. Qed.

Lemma contains_false_app_r (pat a b : string) : contains pat (a ++ b) = false -> contains pat b = false.
Proof.
  intros H. destruct (contains pat b) eqn:E; [|reflexivity].
  rewrite (contains_app_r pat a b E) in H. discriminate.
Qed.

(** ** sufficient conditions for [no_start] *)

Lemma no_start_app (pat a b rest : string) :
  no_start pat (a ++ b) rest = no_start pat a (b ++ rest) && no_start pat b rest.
Proof.
  induction a as [|c a IH]; [reflexivity|].
  cbn [append no_start]. rewrite IH, s_app_assoc, andb_assoc. reflexivity.
Qed.

(** only the first [length pat - 1] characters of the right context matter *)
Lemma no_start_rest_irrel (pat a r r' : string) :
  no_start pat a (pat ++ r) = no_start pat a (pat ++ r').
Proof.
  induction a as [|c a IH]; [reflexivity|].
  cbn [no_start]. rewrite IH. f_equal. f_equal.
  rewrite <- !s_app_assoc.
  rewrite !(starts_with_app_long pat (String c a ++ pat)); [reflexivity| |];
    rewrite s_length_app; lia.
Qed.

(** one-character patterns: the character does not occur in [a] *)
Lemma no_start_1 (c : ascii) (a rest : string) :
  contains (String c "") a = false -> no_start (String c "") a rest = true.
Proof.
  induction a as [|x a IH]; intros H; [reflexivity|].
  apply contains_false_cons in H. destruct H as [H1 H2].
  cbn [no_start]. rewrite (IH H2), andb_true_r.
  cbn [append starts_with] in *. rewrite H1. reflexivity.
Qed.

(** two-character patterns "xy": no occurrence inside [a], and no occurrence straddling the
    border: [a] does not end in x, or [rest] does not start with y *)
Lemma no_start_2 (x y : ascii) (a rest : string) :
  contains (String x (String y "")) a = false ->
  ends_with (String x "") a = false \/ starts_with (String y "") rest = false ->
  no_start (String x (String y "")) a rest = true.
Proof.
  induction a as [|c a IH]; intros H D; [reflexivity|].
  apply contains_false_cons in H. destruct H as [H1 H2].
  cbn [no_start]. apply andb_true_iff. split.
  - apply negb_true_iff. destruct a as [|d a].
    + cbn [append starts_with]. destruct (Ascii.eqb x c) eqn:Exc; [|reflexivity].
      cbn [andb]. destruct D as [D|D].
      * unfold ends_with, rev_string in D. cbn [rev_string_aux starts_with] in D.
        rewrite Exc in D. discriminate.
      * destruct rest as [|b rest]; [reflexivity|].
        cbn [starts_with] in D. rewrite D. reflexivity.
    + rewrite starts_with_app_long; [exact H1|cbn [String.length]; lia].
  - destruct a as [|d a]; [reflexivity|].
    apply IH; [exact H2|]. destruct D as [D|D]; [left|right; exact D].
    rewrite ends_with_cons_long in D; [exact D|cbn [String.length]; lia].
Qed.

(** the one-character case of [split_once_first] *)
Lemma split_once_char (c : ascii) (a b : string) :
  contains (String c "") a = false ->
  split_once (String c "") (a ++ String c "" ++ b) = Some (a, b).
Proof. intros H. apply split_once_first, no_start_1, H. Qed.

(** a two-character pattern of two different characters: no occurrence inside [a] is enough *)
Lemma split_once_2_distinct (x y : ascii) (a b : string) :
  x <> y -> contains (String x (String y "")) a = false ->
  split_once (String x (String y "")) (a ++ String x (String y "") ++ b) = Some (a, b).
Proof.
  intros Hxy H. apply split_once_first, no_start_2; [exact H|right].
  cbn [append starts_with]. apply Ascii.eqb_neq in Hxy. rewrite Ascii.eqb_sym, Hxy. reflexivity.
Qed.

(** a doubled character ("//"): additionally [a] must not end in it *)
Lemma split_once_2_same (x : ascii) (a b : string) :
  contains (String x (String x "")) a = false -> ends_with (String x "") a = false ->
  split_once (String x (String x "")) (a ++ String x (String x "") ++ b) = Some (a, b).
Proof. intros H E. apply split_once_first, no_start_2; [exact H|left; exact E]. Qed.

Example split_once_overlap : split_once "//" ("a/" ++ "//" ++ "b") = Some ("a", "/b").
Proof. vm_compute. reflexivity. Qed.

(** [no_start] in terms of positions *)
Theorem no_start_positions (pat a rest : string) :
  no_start pat a rest = true <->
  (forall k, k < String.length a -> starts_with pat (string_drop k (a ++ rest)) = false).
Proof.
  induction a as [|c a IH].
  - split; [intros _ k Hk; cbn [String.length] in Hk; lia|reflexivity].
  - cbn [no_start]. rewrite andb_true_iff, negb_true_iff, IH. split.
    + intros [H1 H2] k Hk. destruct k as [|k]; [exact H1|].
      cbn [append string_drop]. apply H2. cbn [String.length] in Hk. lia.
    + intros H. split.
      * apply (H 0). cbn [String.length]. lia.
      * intros k Hk. apply (H (S k)). cbn [String.length]. lia.
Qed.
Print Assumptions no_start_positions.
Print Assumptions split_once_first.
Print Assumptions split_once_spec.

(** * StrLit: escape decoding (C09) *)

Lemma escape_code_correct (e : ascii) (n : nat) : c_escape e = Some n -> escape_code e = chr n.
Proof.
  intros H. unfold c_escape in H. unfold escape_code.
  repeat match type of H with
         | context [Ascii.eqb e ?c] =>
             destruct (Ascii.eqb_spec e c) as [->|_]; [cbn in H; inversion H; reflexivity|]
         end.
  discriminate.
Qed.

(** D1 *)
Theorem decode_correct : forall s t, c_decode s = Some t -> decode s = t.
Proof.
  intros s. remember (String.length s) as n eqn:Hn.
  assert (Hle : String.length s <= n) by lia. clear Hn. revert s Hle.
  induction n as [|n IH]; intros s Hle t H.
  - destruct s; [|cbn [String.length] in Hle; lia]. cbn [c_decode] in H. inversion H. reflexivity.
  - destruct s as [|a r]; [cbn [c_decode] in H; inversion H; reflexivity|].
    cbn [String.length] in Hle. cbn [c_decode] in H. cbn [decode].
    destruct (Ascii.eqb a "\") eqn:Ea.
    + destruct r as [|e r']; [discriminate|].
      destruct (c_escape e) as [k|] eqn:Ee; [|discriminate].
      destruct (c_decode r') as [t'|] eqn:Er; [|discriminate].
      inversion H; subst t. rewrite (escape_code_correct _ _ Ee).
      assert (L : String.length r' <= n) by (cbn [String.length] in Hle; lia).
      rewrite (IH r' L t' Er). reflexivity.
    + destruct (Ascii.eqb a """"); [discriminate|].
      destruct (c_decode r) as [t'|] eqn:Er; [|discriminate].
      assert (L : String.length r <= n) by lia.
      inversion H; subst t. rewrite (IH r L t' Er). reflexivity.
Qed.
Print Assumptions decode_correct.

(** D2 *)
Theorem literal_bytes : forall pieces,
  compile_quoted_string pieces = String.concat "" (map decode pieces) ++ String (chr 0) "".
Proof. reflexivity. Qed.
Print Assumptions literal_bytes.

Theorem literal_single_nul_suffix : forall pieces, exists body,
  compile_quoted_string pieces = body ++ String (chr 0) "" /\
  body = String.concat "" (map decode pieces).
Proof. intros pieces. eexists. split; reflexivity. Qed.
Print Assumptions literal_single_nul_suffix.

(** the last byte is the NUL, and the length is one more than the decoded text *)
Theorem literal_ends_with_nul : forall pieces,
  ends_with (String (chr 0) "") (compile_quoted_string pieces) = true.
Proof. intros. unfold compile_quoted_string. apply ends_with_app. Qed.
Print Assumptions literal_ends_with_nul.

Theorem literal_length : forall pieces,
  String.length (compile_quoted_string pieces)
  = S (String.length (String.concat "" (map decode pieces))).
Proof. intros. unfold compile_quoted_string. rewrite s_length_app. cbn [String.length]. lia. Qed.
Print Assumptions literal_length.

(** one well-formed piece: the bytes are C's decoding followed by NUL *)
Theorem literal_bytes_c : forall s t, c_decode s = Some t ->
  compile_quoted_string [s] = t ++ String (chr 0) "".
Proof.
  intros s t H. unfold compile_quoted_string. cbn [map String.concat].
  rewrite (decode_correct _ _ H). reflexivity.
Qed.
Print Assumptions literal_bytes_c.

(** D3 *)
Theorem char_const_plain : forall c : ascii, c <> "\"%char -> quoted_character (String c "") = Some c.
Proof.
  intros c H. unfold quoted_character. cbn [decode].
  apply Ascii.eqb_neq in H. rewrite H. reflexivity.
Qed.
Print Assumptions char_const_plain.

Theorem char_const_escape : forall (e : ascii) (n : nat), c_escape e = Some n ->
  quoted_character ("\" ++ String e "") = Some (chr n).
Proof.
  intros e n H. unfold quoted_character. cbn [append decode].
  rewrite (escape_code_correct _ _ H). reflexivity.
Qed.
Print Assumptions char_const_escape.

(** D4: the repaired defect: form feed is 12 (the code had 14) *)
Example formfeed_is_12 : c_escape "f" = Some 12 /\ escape_code "f" = chr 12 /\ chr 12 <> chr 14.
Proof. repeat split. vm_compute. discriminate. Qed.

(** * [find_close] (C09) *)

Lemma c_decode_pair_wf (s : string) : c_decode s <> None -> pair_wf s = true.
Proof.
  remember (String.length s) as n eqn:Hn.
  assert (Hle : String.length s <= n) by lia. clear Hn. revert s Hle.
  induction n as [|n IH]; intros s Hle H.
  - destruct s; [reflexivity|cbn [String.length] in Hle; lia].
  - destruct s as [|a r]; [reflexivity|].
    cbn [String.length] in Hle. cbn [c_decode] in H. cbn [pair_wf].
    destruct (Ascii.eqb a "\").
    + destruct r as [|e r']; [contradiction|].
      apply IH; [cbn [String.length] in Hle; lia|].
      intros E. rewrite E in H. destruct (c_escape e); contradiction.
    + destruct (Ascii.eqb a """"); [contradiction|].
      apply IH; [lia|]. intros E. rewrite E in H. contradiction.
Qed.

Lemma scannable_of_c (body : string) : c_decode body <> None -> scannable body.
Proof. apply c_decode_pair_wf. Qed.

Lemma scannableb_spec (body : string) : scannableb body = true <-> scannable body.
Proof. reflexivity. Qed.

Lemma split_once_char_spec (c : ascii) (s l r : string) :
  split_once (String c "") s = Some (l, r) ->
  s = l ++ String c "" ++ r /\ contains (String c "") l = false.
Proof.
  intros H. apply split_once_spec in H. destruct H as [Hs Ns]. split; [exact Hs|].
  destruct (contains (String c "") l) eqn:Cl; [|reflexivity].
  unfold contains in Cl. destruct (split_once (String c "") l) as [[x y]|] eqn:E; [|discriminate].
  apply split_once_spec in E. destruct E as [El _]. subst l.
  rewrite no_start_app in Ns. apply andb_true_iff in Ns. destruct Ns as [_ Ns].
  rewrite no_start_app in Ns. apply andb_true_iff in Ns. destruct Ns as [Ns _].
  cbn [no_start append starts_with] in Ns. rewrite Ascii.eqb_refl in Ns. discriminate.
Qed.

(** ** the parity rule: the model counts the backslashes that end the text before the quote;
    the parity of that number is [escaped_parity] *)
Lemma trailing_from_parity (s : string) : forall run,
  Nat.even (trailing_backslashes_from run s) = negb (escaped_parity (Nat.odd run) s).
Proof.
  induction s as [|a s IH]; intros run; cbn [trailing_backslashes_from escaped_parity].
  - rewrite Nat.negb_odd. reflexivity.
  - rewrite IH. destruct (Ascii.eqb a "\"); [|reflexivity].
    rewrite Nat.odd_succ, Nat.negb_odd. reflexivity.
Qed.

Lemma even_trailing (s : string) :
  Nat.even (trailing_backslashes s) = negb (escaped_parity false s).
Proof. apply (trailing_from_parity s 0). Qed.

(** the count is the length of the run of backslashes that ends the text *)
Lemma trailing_from_app_bs (s : string) : forall run,
  trailing_backslashes_from run (s ++ "\") = S (trailing_backslashes_from run s).
Proof.
  induction s as [|a s IH]; intros run; [reflexivity|].
  cbn [append trailing_backslashes_from]. apply IH.
Qed.

Lemma trailing_from_app_other (s : string) (c : ascii) : forall run,
  Ascii.eqb c "\" = false -> trailing_backslashes_from run (s ++ String c "") = 0.
Proof.
  induction s as [|a s IH]; intros run Hc.
  - cbn [append trailing_backslashes_from]. rewrite Hc. reflexivity.
  - cbn [append trailing_backslashes_from]. apply IH. exact Hc.
Qed.

Theorem trailing_backslashes_spec :
  trailing_backslashes "" = 0
  /\ (forall s, trailing_backslashes (s ++ "\") = S (trailing_backslashes s))
  /\ (forall s c, c <> "\"%char -> trailing_backslashes (s ++ String c "") = 0).
Proof.
  split; [reflexivity|]. split.
  - intros s. apply trailing_from_app_bs.
  - intros s c Hc. apply trailing_from_app_other. apply Ascii.eqb_neq. exact Hc.
Qed.
Print Assumptions trailing_backslashes_spec.

Lemma escaped_parity_app (odd : bool) (a b : string) :
  escaped_parity odd (a ++ b) = escaped_parity (escaped_parity odd a) b.
Proof.
  revert odd. induction a as [|x a IH]; intros odd; [reflexivity|].
  cbn [append escaped_parity]. apply IH.
Qed.

Lemma first_close_cons (odd : bool) (a : ascii) (r : string) :
  first_close odd (String a r) =
  if Ascii.eqb a """" && negb odd then Some ("", r)
  else match first_close (if Ascii.eqb a "\" then negb odd else false) r with
       | Some (b, t) => Some (String a b, t)
       | None => None
       end.
Proof. reflexivity. Qed.

Lemma quote_absent_cons (a : ascii) (l : string) :
  contains """" (String a l) = false -> Ascii.eqb a """" = false /\ contains """" l = false.
Proof.
  intros C. apply contains_false_cons in C. destruct C as [C1 C2].
  cbn [starts_with] in C1. rewrite andb_true_r in C1. rewrite Ascii.eqb_sym in C1.
  split; assumption.
Qed.

Lemma first_close_none (s : string) : forall odd,
  contains """" s = false -> first_close odd s = None.
Proof.
  induction s as [|a s IH]; intros odd C; [reflexivity|].
  apply quote_absent_cons in C. destruct C as [C1 C2].
  rewrite first_close_cons, C1. cbn [andb]. rewrite (IH _ C2). reflexivity.
Qed.

(** up to the first quote: it closes when an even number of backslashes precedes it *)
Lemma first_close_skip (l rest : string) : forall odd,
  contains """" l = false ->
  first_close odd (l ++ """" ++ rest) =
  if escaped_parity odd l
  then match first_close false rest with
       | Some (b, t) => Some (l ++ """" ++ b, t)
       | None => None
       end
  else Some (l, rest).
Proof.
  induction l as [|a l IH]; intros odd C.
  - destruct odd; [|reflexivity].
    cbn [append escaped_parity]. rewrite first_close_cons. cbn [negb andb].
    change (Ascii.eqb """" """") with true. change (Ascii.eqb """" "\") with false. cbn [andb].
    destruct (first_close false rest) as [[b t]|]; reflexivity.
  - apply quote_absent_cons in C. destruct C as [C1 C2].
    cbn [escaped_parity]. change (String a l ++ """" ++ rest) with (String a (l ++ """" ++ rest)).
    rewrite first_close_cons, C1. cbn [andb].
    rewrite (IH _ C2).
    destruct (escaped_parity (if Ascii.eqb a "\" then negb odd else false) l); [|reflexivity].
    destruct (first_close false rest) as [[b t]|]; reflexivity.
Qed.

(** the result of [first_close] is what its name says *)
Lemma first_close_sound (s : string) : forall odd b t,
  first_close odd s = Some (b, t) ->
  s = b ++ """" ++ t /\ escaped_parity odd b = false /\
  forall l r, b = l ++ """" ++ r -> escaped_parity odd l = true.
Proof.
  induction s as [|a s IH]; intros odd b t H; [discriminate|].
  rewrite first_close_cons in H.
  destruct (Ascii.eqb a """" && negb odd) eqn:T.
  - inversion H; subst b t. apply andb_true_iff in T. destruct T as [T1 T2].
    apply Ascii.eqb_eq in T1. subst a. apply negb_true_iff in T2. subst odd.
    split; [reflexivity|]. split; [reflexivity|].
    intros l r Hl. destruct l; discriminate.
  - destruct (first_close (if Ascii.eqb a "\" then negb odd else false) s) as [[b' t']|] eqn:F;
      [|discriminate].
    inversion H; subst b t. destruct (IH _ _ _ F) as [I1 [I2 I3]].
    split; [cbn [append]; f_equal; exact I1|].
    split; [cbn [escaped_parity]; exact I2|].
    intros l r Hl. destruct l as [|x l]; cbn [append] in Hl; inversion Hl.
    + subst a. cbn [escaped_parity]. rewrite Ascii.eqb_refl in T. cbn [andb] in T.
      apply negb_false_iff in T. exact T.
    + subst x. cbn [escaped_parity]. apply (I3 l r). assumption.
Qed.

Lemma first_close_complete (b : string) : forall odd t,
  escaped_parity odd b = false ->
  (forall l r, b = l ++ """" ++ r -> escaped_parity odd l = true) ->
  first_close odd (b ++ """" ++ t) = Some (b, t).
Proof.
  induction b as [|a b IH]; intros odd t P Q.
  - cbn [escaped_parity] in P. subst odd. reflexivity.
  - change (String a b ++ """" ++ t) with (String a (b ++ """" ++ t)). rewrite first_close_cons.
    assert (T : Ascii.eqb a """" && negb odd = false).
    { destruct (Ascii.eqb a """") eqn:Eq; [|reflexivity].
      apply Ascii.eqb_eq in Eq. subst a. specialize (Q "" b eq_refl).
      cbn [escaped_parity] in Q. rewrite Q. reflexivity. }
    rewrite T. cbn [escaped_parity] in P. rewrite (IH _ t P); [reflexivity|].
    intros l r Hl. specialize (Q (String a l) r). cbn [append escaped_parity] in Q.
    apply Q. rewrite Hl. reflexivity.
Qed.

(** C's bodies: after an escaped character the parity is even again *)
Lemma first_close_wf (rest : string) : forall n body,
  String.length body <= n -> pair_wf body = true ->
  first_close false (body ++ """" ++ rest) = Some (body, rest).
Proof.
  induction n as [|n IH]; intros body Hle W.
  - destruct body; [reflexivity|cbn [String.length] in Hle; lia].
  - destruct body as [|a r]; [reflexivity|].
    cbn [String.length] in Hle. cbn [pair_wf] in W.
    change (String a r ++ """" ++ rest) with (String a (r ++ """" ++ rest)).
    destruct (Ascii.eqb a "\") eqn:Ea.
    + assert (Eq : Ascii.eqb a """" = false) by (apply Ascii.eqb_eq in Ea; subst a; reflexivity).
      destruct r as [|e r']; [discriminate|].
      rewrite first_close_cons, Eq, Ea. cbn [andb negb].
      change (String e r' ++ """" ++ rest) with (String e (r' ++ """" ++ rest)).
      rewrite first_close_cons. cbn [negb]. rewrite andb_false_r.
      replace (if Ascii.eqb e "\" then false else false) with false
        by (destruct (Ascii.eqb e "\"); reflexivity).
      rewrite (IH r'); [reflexivity|cbn [String.length] in Hle; lia|exact W].
    + destruct (Ascii.eqb a """") eqn:Eq; [discriminate|].
      rewrite first_close_cons, Eq, Ea. cbn [andb].
      rewrite (IH r); [reflexivity|lia|exact W].
Qed.

(** ** [find_close] is [first_close] *)

(** the fuel it needs: the length of the body (of the whole text when no quote closes) *)
Definition close_measure (s : string) : nat :=
  match first_close false s with
  | Some (b, _) => String.length b
  | None => String.length s
  end.

Lemma close_measure_le (s : string) : close_measure s <= String.length s.
Proof.
  unfold close_measure. destruct (first_close false s) as [[b t]|] eqn:F; [|lia].
  apply first_close_sound in F. destruct F as [Hs _]. rewrite Hs.
  rewrite s_length_app. lia.
Qed.

Theorem find_close_first_close : forall fuel s acc,
  close_measure s < fuel ->
  find_close fuel s acc =
  match first_close false s with
  | Some (b, t) => Some (rev_string acc ++ b, t)
  | None => None
  end.
Proof.
  induction fuel as [|f IH]; intros s acc Hf; [lia|].
  cbn [find_close]. destruct (split_once """" s) as [[l r]|] eqn:E.
  - apply split_once_char_spec in E. destruct E as [Es Cl]. subst s.
    unfold close_measure in Hf. rewrite (first_close_skip l r false Cl) in Hf.
    rewrite (first_close_skip l r false Cl), even_trailing.
    destruct (escaped_parity false l); cbn [negb]; [|reflexivity].
    rewrite IH.
    + destruct (first_close false r) as [[b t]|]; [|reflexivity].
      rewrite rev_string_app, rev_string_invol, !s_app_assoc. reflexivity.
    + unfold close_measure. destruct (first_close false r) as [[b t]|].
      * rewrite !s_length_app in Hf. cbn [String.length] in Hf. lia.
      * rewrite !s_length_app in Hf. cbn [String.length] in Hf. lia.
  - rewrite first_close_none; [reflexivity|]. unfold contains. rewrite E. reflexivity.
Qed.
Print Assumptions find_close_first_close.

(** THE PARITY RULE.  [find_close] returns the text up to the first quote preceded by an even
    number of backslashes, and the text after that quote: [closes_body body] says that an even
    number of backslashes ends [body] and that every quote inside it has an odd number of
    backslashes in front *)
Theorem find_close_parity : forall fuel s body rest,
  String.length s < fuel ->
  (find_close fuel s "" = Some (body, rest) <-> s = body ++ """" ++ rest /\ closes_body body).
Proof.
  intros fuel s body rest Hf.
  assert (Hm : close_measure s < fuel) by (pose proof (close_measure_le s); lia).
  rewrite (find_close_first_close fuel s "" Hm). split.
  - intros H. destruct (first_close false s) as [[b t]|] eqn:F; [|discriminate].
    cbn [rev_string rev_string_aux append] in H. inversion H; subst b t.
    apply first_close_sound in F. destruct F as [F1 [F2 F3]].
    split; [exact F1|]. split; assumption.
  - intros [Hs [C1 C2]]. subst s. rewrite (first_close_complete body false rest C1 C2). reflexivity.
Qed.
Print Assumptions find_close_parity.

(** no closing quote is found exactly when no quote of the text has an even number of backslashes
    in front *)
Corollary find_close_none_parity : forall fuel s,
  String.length s < fuel ->
  (find_close fuel s "" = None <-> forall body rest, s = body ++ """" ++ rest -> ~ closes_body body).
Proof.
  intros fuel s Hf. split.
  - intros H body rest Hs Hc.
    assert (E : find_close fuel s "" = Some (body, rest))
      by (apply (find_close_parity fuel s body rest Hf); split; assumption).
    rewrite H in E. discriminate.
  - intros H. destruct (find_close fuel s "") as [[body rest]|] eqn:E; [|reflexivity].
    apply (find_close_parity fuel s body rest Hf) in E. destruct E as [Hs Hc].
    exfalso. exact (H body rest Hs Hc).
Qed.
Print Assumptions find_close_none_parity.

(** C's literal bodies end where C says *)
Lemma wf_closes_body (body : string) : pair_wf body = true -> closes_body body.
Proof.
  intros W. pose proof (first_close_wf "" (String.length body) body (le_n _) W) as F.
  apply first_close_sound in F. destruct F as [_ [F2 F3]]. split; assumption.
Qed.

(** with any sufficient fuel and any accumulator *)
Theorem find_close_exact_fuel : forall body rest fuel acc, scannable body ->
  String.length body < fuel ->
  find_close fuel (body ++ """" ++ rest) acc = Some (rev_string acc ++ body, rest).
Proof.
  intros body rest fuel acc W Hf.
  pose proof (first_close_wf rest (String.length body) body (le_n _) W) as F.
  rewrite find_close_first_close; [rewrite F; reflexivity|].
  unfold close_measure. rewrite F. exact Hf.
Qed.
Print Assumptions find_close_exact_fuel.

(** S1 *)
Theorem find_close_exact : forall body rest, scannable body ->
  find_close (S (String.length (body ++ """" ++ rest))) (body ++ """" ++ rest) "" = Some (body, rest).
Proof.
  intros body rest W.
  rewrite (find_close_exact_fuel body rest _ "" W); [reflexivity|].
  rewrite s_length_app. lia.
Qed.
Print Assumptions find_close_exact.

(** * The scanner: one loop turn *)

(** [rem] is the whole remaining line: after "/*" the scanner goes on in the text that follows
    the "/*" in [rem], not in the tail of the text cut at the first "//" *)
Definition plain_of (f : nat) (asm : bool) (rem out : string) (ins : bool) (st : scan_state)
           (s2 : string) (tail : option string) : scan_res :=
  let out' := out ++ s2 in
  let ins' := if String.eqb out' "" then false else ins in
  match tail with
  | Some _ => scan_loop f asm (string_drop (String.length s2 + 2) rem) out' ins'
                        (mkScan true (sc_next_lit st) (sc_lits st))
  | None => ScanOk out' ins' st
  end.

Lemma scan_loop_code (f : nat) (asm : bool) (rem out : string) (ins : bool) (st : scan_state) :
  sc_in_comment st = false -> String.eqb rem "" = false ->
  scan_loop (S f) asm rem out ins st =
  let pre := before "//" rem in
  let '(s2, tail) := match split_once "/*" pre with
                     | Some (b, t) => (b, Some t)
                     | None => (pre, None)
                     end in
  if negb (is_include_line s2) && negb asm then
    match split_once """" s2 with
    | Some (lft, _) =>
        match find_close (S (String.length rem)) (string_drop (S (String.length lft)) rem) "" with
        | None => ScanUnterminated (out ++ lft) ins st
        | Some (body, rest) =>
            scan_loop f asm rest (out ++ lft ++ "@" ++ string_of_N (sc_next_lit st) ++ "@") ins
                      (mkScan false (sc_next_lit st + 1) (body :: sc_lits st))
        end
    | None => plain_of f asm rem out ins st s2 tail
    end
  else plain_of f asm rem out ins st s2 tail.
Proof. intros H1 H2. cbn [scan_loop]. rewrite H1, H2. reflexivity. Qed.

Lemma scan_loop_comment (f : nat) (asm : bool) (rem out : string) (ins : bool) (st : scan_state) :
  sc_in_comment st = true -> String.eqb rem "" = false ->
  scan_loop (S f) asm rem out ins st =
  match split_once "*/" rem with
  | Some (_, after) =>
      let st' := mkScan false (sc_next_lit st) (sc_lits st) in
      if String.eqb after "" then scan_loop f asm after out ins st'
      else if String.eqb after nl then scan_loop f asm "" out ins st'
      else scan_loop f asm after out true st'
  | None => ScanOk out ins st
  end.
Proof. intros H1 H2. cbn [scan_loop]. rewrite H1, H2. reflexivity. Qed.

Lemma scan_loop_empty (f : nat) (asm : bool) (out : string) (ins : bool) (st : scan_state) :
  scan_loop f asm "" out ins st = ScanOk out ins st.
Proof. destruct f; reflexivity. Qed.

Lemma scan_state_eta (st : scan_state) :
  sc_in_comment st = false -> mkScan false (sc_next_lit st) (sc_lits st) = st.
Proof. destruct st as [c n l]. cbn. intros ->. reflexivity. Qed.

(** one turn on marker-free text: everything is copied *)
Lemma scan_loop_plain (f : nat) (asm : bool) (p out : string) (ins : bool) (st : scan_state) :
  sc_in_comment st = false -> p <> "" ->
  contains """" p = false -> contains "//" p = false -> contains "/*" p = false ->
  scan_loop (S f) asm p out ins st
  = ScanOk (out ++ p) (if String.eqb (out ++ p) "" then false else ins) st.
Proof.
  intros Hc Hp Cq Cs Cb.
  rewrite scan_loop_code; [|exact Hc|apply String.eqb_neq; exact Hp].
  rewrite (before_none _ _ Cs). cbv zeta. rewrite (split_once_none _ _ Cb).
  rewrite (split_once_none _ _ Cq).
  destruct (negb (is_include_line p) && negb asm); reflexivity.
Qed.

(** * Literals are opaque (C09) *)

Lemma starts_with_blocked (p a : string) (c : ascii) (z : string) :
  starts_with p a = false -> contains (String c "") p = false ->
  starts_with p (a ++ String c z) = false.
Proof.
  revert a. induction p as [|x p IH]; intros a H C; [discriminate|].
  apply contains_false_cons in C. destruct C as [C1 C2].
  cbn [starts_with] in C1. rewrite andb_true_r in C1.
  destruct a as [|y a]; cbn [append starts_with].
  - rewrite Ascii.eqb_sym, C1. reflexivity.
  - cbn [starts_with] in H. destruct (Ascii.eqb x y); [|reflexivity].
    cbn [andb] in *. apply IH; assumption.
Qed.

(** leading white space ends at the first character that is not white space *)
Lemma trim_start_app_nonws (a : string) (c : ascii) (z : string) :
  is_ws c = false -> trim_start (a ++ String c z) = trim_start a ++ String c z.
Proof.
  intros Hc. induction a as [|x a IH].
  - cbn [append trim_start]. rewrite Hc. reflexivity.
  - cbn [append trim_start]. destruct (is_ws x); [exact IH|reflexivity].
Qed.

(** text that is not an #include line does not become one when a character that is neither white
    space nor a letter of "include" (nor '#') is appended *)
Lemma is_include_line_blocked (a : string) (c : ascii) (z : string) :
  is_ws c = false -> Ascii.eqb c "#" = false ->
  forall not_in_word : contains (String c "") "include" = false,
  is_include_line a = false -> is_include_line (a ++ String c z) = false.
Proof.
  intros Hw Hh Hc H. unfold is_include_line in *.
  rewrite (trim_start_app_nonws a c z Hw).
  destruct (trim_start a) as [|h r].
  - cbn [append]. rewrite Hh. reflexivity.
  - cbn [append]. destruct (Ascii.eqb h "#"); [|reflexivity]. cbn [andb] in *.
    rewrite (trim_start_app_nonws r c z Hw). apply starts_with_blocked; assumption.
Qed.

(** S2 *)
Theorem scan_literal_opaque : forall pre body post st fuel out ins,
  sc_in_comment st = false -> no_markers pre -> scannable body ->
  scan_loop (S fuel) false (pre ++ """" ++ body ++ """" ++ post) out ins st
  = scan_loop fuel false post (out ++ pre ++ "@" ++ string_of_N (sc_next_lit st) ++ "@") ins
              (mkScan false (sc_next_lit st + 1) (body :: sc_lits st)).
Proof.
  intros pre body post st fuel out ins Hc [Mq [Ms [Mb Mi]]] Hsc.
  set (R := body ++ """" ++ post).
  rewrite scan_loop_code; [|exact Hc|apply eqb_app_nonempty; discriminate].
  (* the text before "//" and before "/*" still starts with pre ++ quote *)
  assert (A : forall x y z, contains (String x (String y "")) pre = false ->
              Ascii.eqb y """" = false -> Ascii.eqb x """" = false ->
              no_start (String x (String y "")) (pre ++ """") z = true).
  { intros x y z C Ey Ex. rewrite no_start_app. apply andb_true_iff. split.
    - apply no_start_2; [exact C|right]. cbn [append starts_with]. rewrite Ey. reflexivity.
    - cbn [no_start append starts_with]. rewrite Ex. reflexivity. }
  replace (pre ++ """" ++ R) with ((pre ++ """") ++ R) by apply s_app_assoc.
  rewrite (before_skip "//" (pre ++ """") R (A _ _ _ Ms eq_refl eq_refl)).
  cbv zeta.
  rewrite (split_once_skip "/*" (pre ++ """") (before "//" R) (A _ _ _ Mb eq_refl eq_refl)).
  assert (B : forall z, is_include_line ((pre ++ """") ++ z) = false).
  { intros z. rewrite s_app_assoc. cbn [append]. apply is_include_line_blocked; [reflexivity|reflexivity|reflexivity|exact Mi]. }
  assert (Q : forall z, split_once """" ((pre ++ """") ++ z) = Some (pre, z)).
  { intros z. rewrite s_app_assoc. apply split_once_char. exact Mq. }
  assert (F : find_close (S (String.length ((pre ++ """") ++ R)))
                         (string_drop (S (String.length pre)) ((pre ++ """") ++ R)) ""
              = Some (body, post)).
  { assert (L : S (String.length pre) = String.length (pre ++ """"))
      by (rewrite s_length_app; cbn [String.length]; lia).
    rewrite L, drop_length_app. unfold R.
    rewrite (find_close_exact_fuel body post _ "" Hsc); [reflexivity|].
    rewrite !s_length_app. lia. }
  destruct (split_once "/*" (before "//" R)) as [[x y]|].
  - rewrite B, Q. cbn [negb andb]. rewrite F. reflexivity.
  - rewrite B, Q. cbn [negb andb]. rewrite F. reflexivity.
Qed.
Print Assumptions scan_literal_opaque.

(** a whole line with one literal: the code around it is copied, the body recorded verbatim *)
Theorem scan_line_one_literal : forall pre body post st,
  sc_in_comment st = false -> no_markers pre -> scannable body ->
  contains """" post = false -> contains "//" post = false -> contains "/*" post = false ->
  scan_line false (pre ++ """" ++ body ++ """" ++ post) st
  = ScanOk (pre ++ "@" ++ string_of_N (sc_next_lit st) ++ "@" ++ post) true
           (mkScan false (sc_next_lit st + 1) (body :: sc_lits st)).
Proof.
  intros pre body post st Hc Hm Hsc Pq Ps Pb.
  unfold scan_line. rewrite Hc. cbn [negb].
  rewrite (scan_literal_opaque pre body post st _ "" true Hc Hm Hsc).
  destruct (string_dec post "") as [->|Hp].
  - rewrite scan_loop_empty. cbn [append]. reflexivity.
  - assert (L : exists f, S (String.length (pre ++ """" ++ body ++ """" ++ post)) = S f)
      by (eexists; reflexivity).
    destruct L as [f ->].
    rewrite scan_loop_plain; [|reflexivity|exact Hp|exact Pq|exact Ps|exact Pb].
    rewrite !s_app_assoc. cbn [append].
    rewrite eqb_app_nonempty; [reflexivity|discriminate].
Qed.
Print Assumptions scan_line_one_literal.

(** S3: the parity rule at work, and what remains refuted.  QQ = the quote, BS = one backslash *)
Local Notation QQ := """" (only parsing).
Local Notation BS := "\" (only parsing).
Definition st0 : scan_state := mkScan false 0 [].

(** the parity rule (the repaired defect).  The C literal made of a, escaped backslash, escaped
    quote, b is ONE literal: three backslashes precede its inner quote, which is therefore
    escaped (the unrepaired scanner took it for the closing quote because two backslashes precede
    it, and rejected the line as an unterminated string) *)
Example scan_backslash_parity :
  scan_line false ("s = " ++ QQ ++ "a" ++ BS ++ BS ++ BS ++ QQ ++ "b" ++ QQ ++ ";" ++ nl) st0
  = ScanOk ("s = @0@;" ++ nl) true (mkScan false 1 ["a" ++ BS ++ BS ++ BS ++ QQ ++ "b"])
  /\ c_decode ("a" ++ BS ++ BS ++ BS ++ QQ ++ "b") = Some ("a" ++ BS ++ QQ ++ "b")
  /\ scannableb ("a" ++ BS ++ BS ++ BS ++ QQ ++ "b") = true
  /\ find_close 20 ("a" ++ BS ++ BS ++ BS ++ QQ ++ "b" ++ QQ ++ ";") ""
     = Some ("a" ++ BS ++ BS ++ BS ++ QQ ++ "b", ";").
Proof. vm_compute. repeat split. Qed.

(** a literal that ends in an escaped backslash closes at its quote (two backslashes: even),
    and the text that follows is scanned as code, a second literal included *)
Example scan_backslash_parity_even :
  scan_line false ("s = " ++ QQ ++ "a" ++ BS ++ BS ++ QQ ++ " + x; t = " ++ QQ ++ "b" ++ QQ ++ ";" ++ nl) st0
  = ScanOk ("s = @0@ + x; t = @1@;" ++ nl) true (mkScan false 2 ["b"; "a" ++ BS ++ BS])
  /\ find_close 30 ("a" ++ BS ++ BS ++ QQ ++ " + x;") "" = Some ("a" ++ BS ++ BS, " + x;")
  /\ trailing_backslashes ("a" ++ BS ++ BS) = 2.
Proof. vm_compute. repeat split. Qed.

(** two escaped backslashes and an escaped quote: five backslashes precede the inner quote (odd:
    escaped), none the last one *)
Example scan_backslash_parity_five :
  scan_line false ("s = " ++ QQ ++ BS ++ BS ++ BS ++ BS ++ BS ++ QQ ++ QQ ++ ";" ++ nl) st0
  = ScanOk ("s = @0@;" ++ nl) true (mkScan false 1 [BS ++ BS ++ BS ++ BS ++ BS ++ QQ])
  /\ c_decode (BS ++ BS ++ BS ++ BS ++ BS ++ QQ) = Some (BS ++ BS ++ QQ)
  /\ trailing_backslashes (BS ++ BS ++ BS ++ BS ++ BS) = 5
  /\ escaped_parity false (BS ++ BS ++ BS ++ BS ++ BS) = true.
Proof. vm_compute. repeat split. Qed.

(** two such literals on a line: the bodies are the right ones (the unrepaired scanner
    succeeded here and recorded the bodies a\\\ and c) *)
Example scan_backslash_parity_two :
  scan_line false ("s = " ++ QQ ++ "a" ++ BS ++ BS ++ BS ++ QQ ++ "b" ++ BS ++ BS ++ BS ++ QQ ++ "c" ++ QQ ++ ";" ++ nl) st0
  = ScanOk ("s = @0@;" ++ nl) true
           (mkScan false 1 ["a" ++ BS ++ BS ++ BS ++ QQ ++ "b" ++ BS ++ BS ++ BS ++ QQ ++ "c"]).
Proof. vm_compute. reflexivity. Qed.

(** the character constant that holds a double quote *)
Example char_quote_refuted :
  scan_line false ("c = '" ++ QQ ++ "';" ++ nl) st0 = ScanUnterminated "c = '" true st0.
Proof. vm_compute. reflexivity. Qed.

(** what a literal may contain *)
Example scan_literal_contents :
  scan_line false ("s = " ++ QQ ++ "a//b /* c */ #d @1@ " ++ BS ++ QQ ++ "e" ++ BS ++ BS ++ QQ ++ "; // x" ++ nl) st0
  = ScanOk "s = @0@; " true (mkScan false 1 ["a//b /* c */ #d @1@ " ++ BS ++ QQ ++ "e" ++ BS ++ BS]).
Proof. vm_compute. reflexivity. Qed.

(** * Comments (C11) *)

(** K1 *)
Theorem line_comment_dropped : forall asm pre cmt st,
  sc_in_comment st = false -> no_markers pre -> pre <> "" ->
  forall no_trailing_slash : ends_with "/" pre = false,
  scan_line asm (pre ++ "//" ++ cmt) st = ScanOk pre true st.
Proof.
  intros asm pre cmt st Hc [Mq [Ms [Mb Mi]]] Hp He.
  unfold scan_line. rewrite Hc. cbn [negb].
  rewrite scan_loop_code; [|exact Hc|apply eqb_app_nonempty; discriminate].
  unfold before. rewrite (split_once_2_same _ pre cmt Ms He). cbv zeta.
  rewrite (split_once_none _ _ Mb), (split_once_none _ _ Mq).
  unfold plain_of. cbn [append].
  assert (E : String.eqb pre "" = false) by (apply String.eqb_neq; exact Hp).
  rewrite E. destruct (negb (is_include_line pre) && negb asm); reflexivity.
Qed.
Print Assumptions line_comment_dropped.

(** without the extra hypothesis: "a / // c" is fine but in "a///c" the first "//" starts one
    character earlier *)
Example line_comment_dropped_needs_no_trailing_slash :
  no_markers "a/" /\ scan_line false ("a/" ++ "//" ++ "c") st0 = ScanOk "a" true st0.
Proof. vm_compute. repeat split. Qed.

(** a line with only a comment produces nothing, and is not inserted *)
Theorem line_comment_only : forall asm cmt st,
  sc_in_comment st = false -> scan_line asm ("//" ++ cmt) st = ScanOk "" false st.
Proof.
  intros asm cmt st Hc. unfold scan_line. rewrite Hc. cbn [negb].
  rewrite scan_loop_code; [|exact Hc|reflexivity].
  unfold before. rewrite (split_once_here "//" cmt). destruct asm; reflexivity.
Qed.
Print Assumptions line_comment_only.

Lemma no_slashes_around_open (pre z : string) :
  contains "//" pre = false -> ends_with "/" pre = false ->
  no_start "//" (pre ++ "/*") z = true.
Proof.
  intros Ms He. rewrite no_start_app. apply andb_true_iff. split.
  - apply no_start_2; [exact Ms|left; exact He].
  - reflexivity.
Qed.

(** the text that follows the "/*" in the whole line *)
Lemma drop_after_open (pre z : string) :
  string_drop (String.length pre + 2) (pre ++ "/*" ++ z) = z.
Proof.
  replace (String.length pre + 2) with (String.length (pre ++ "/*"))
    by (rewrite s_length_app; reflexivity).
  rewrite <- s_app_assoc. apply drop_length_app.
Qed.

(** one turn at the opening of a block comment: the code before it is copied and the scanner goes
    on, in comment mode, in ALL the text that follows the "/*" (whatever it contains: a "//" in
    [z] cuts nothing) *)
Theorem scan_loop_open : forall asm pre z st f out ins,
  sc_in_comment st = false -> no_markers pre ->
  forall no_trailing_slash : ends_with "/" pre = false,
  scan_loop (S f) asm (pre ++ "/*" ++ z) out ins st
  = scan_loop f asm z (out ++ pre) (if String.eqb (out ++ pre) "" then false else ins)
              (mkScan true (sc_next_lit st) (sc_lits st)).
Proof.
  intros asm pre z st f out ins Hc [Mq [Ms [Mb Mi]]] He.
  rewrite scan_loop_code; [|exact Hc|apply eqb_app_nonempty; discriminate].
  (* the first "//" of the line, if any, comes after the "/*" *)
  assert (B : before "//" (pre ++ "/*" ++ z) = pre ++ "/*" ++ before "//" z).
  { rewrite <- !s_app_assoc. apply before_skip. apply no_slashes_around_open; assumption. }
  rewrite B. cbv zeta.
  rewrite (split_once_2_distinct "/" "*" pre (before "//" z) ltac:(discriminate) Mb).
  rewrite (split_once_none _ _ Mq).
  replace (if negb (is_include_line pre) && negb asm
           then plain_of f asm (pre ++ "/*" ++ z) out ins st pre (Some (before "//" z))
           else plain_of f asm (pre ++ "/*" ++ z) out ins st pre (Some (before "//" z)))
    with (plain_of f asm (pre ++ "/*" ++ z) out ins st pre (Some (before "//" z)))
    by (destruct (negb (is_include_line pre) && negb asm); reflexivity).
  unfold plain_of. cbv zeta. rewrite drop_after_open. reflexivity.
Qed.
Print Assumptions scan_loop_open.

(** K2.  The comment is removed whatever it contains (a "//" inside it cuts nothing), and the
    scanner goes on with the WHOLE text after it: [post] is scanned by the next turn like any
    other text (its own literals, comments and "//" included) *)
Theorem block_comment_removed : forall asm pre body post st f out ins,
  sc_in_comment st = false -> no_markers pre ->
  forall no_trailing_slash : ends_with "/" pre = false,
  contains "*/" body = false ->
  scan_loop (S (S f)) asm (pre ++ "/*" ++ body ++ "*/" ++ post) out ins st =
    let out' := out ++ pre in
    let ins' := if String.eqb out' "" then false else ins in
    if String.eqb post "" || String.eqb post nl then ScanOk out' ins' st
    else scan_loop f asm post out' true st.
Proof.
  intros asm pre body post st f out ins Hc Hm He Cc.
  rewrite (scan_loop_open asm pre (body ++ "*/" ++ post) st (S f) out ins Hc Hm He).
  rewrite scan_loop_comment; [|reflexivity|apply eqb_app_nonempty; discriminate].
  rewrite (split_once_2_distinct "*" "/" body post ltac:(discriminate) Cc).
  cbv zeta. cbn [sc_next_lit sc_lits]. rewrite (scan_state_eta st Hc).
  destruct (String.eqb post "") eqn:E1.
  - apply String.eqb_eq in E1. rewrite E1. cbn [orb]. apply scan_loop_empty.
  - cbn [orb]. destruct (String.eqb post nl) eqn:E2; [apply scan_loop_empty|reflexivity].
Qed.
Print Assumptions block_comment_removed.

(** the form asked for: something other than the newline follows the comment *)
Theorem block_comment_removed_simple : forall asm pre body post st f out ins,
  sc_in_comment st = false -> no_markers pre ->
  forall no_trailing_slash : ends_with "/" pre = false,
  contains "*/" body = false ->
  post <> "" -> post <> nl ->
  scan_loop (S (S f)) asm (pre ++ "/*" ++ body ++ "*/" ++ post) out ins st
  = scan_loop f asm post (out ++ pre) true st.
Proof.
  intros asm pre body post st f out ins Hc Hm He Cc P1 P2.
  rewrite block_comment_removed by assumption. cbv zeta.
  apply String.eqb_neq in P1, P2. rewrite P1, P2. reflexivity.
Qed.
Print Assumptions block_comment_removed_simple.

(** a whole line  pre /* body */ post : the comment disappears, the code on both sides stays *)
Theorem scan_line_block_comment : forall asm pre body post st,
  sc_in_comment st = false -> no_markers pre ->
  forall no_trailing_slash : ends_with "/" pre = false,
  contains "*/" body = false ->
  contains """" post = false -> contains "//" post = false -> contains "/*" post = false ->
  post <> "" -> post <> nl ->
  scan_line asm (pre ++ "/*" ++ body ++ "*/" ++ post) st = ScanOk (pre ++ post) true st.
Proof.
  intros asm pre body post st Hc Hm He Cc Pq Ps Pb P1 P2.
  unfold scan_line.
  assert (L : exists f, String.length (pre ++ "/*" ++ body ++ "*/" ++ post) = S (S f)).
  { rewrite s_length_app. cbn [append String.length]. rewrite s_length_app. cbn [append String.length].
    destruct post as [|c post]; [contradiction|]. cbn [String.length].
    exists (String.length pre + String.length body + String.length post + 3). lia. }
  destruct L as [f ->].
  rewrite block_comment_removed_simple by assumption.
  rewrite scan_loop_plain by assumption. cbn [append].
  rewrite eqb_app_nonempty by exact P1. reflexivity.
Qed.
Print Assumptions scan_line_block_comment.

(** the same line followed by a line comment: the block comment and the line comment go, the
    code on both sides of the block comment stays *)
Theorem scan_line_block_then_line_comment : forall asm pre body mid cmt st,
  sc_in_comment st = false -> no_markers pre ->
  forall no_trailing_slash : ends_with "/" pre = false,
  contains "*/" body = false ->
  contains """" mid = false -> contains "//" mid = false -> contains "/*" mid = false ->
  forall mid_no_trailing_slash : ends_with "/" mid = false,
  mid <> "" ->
  scan_line asm (pre ++ "/*" ++ body ++ "*/" ++ mid ++ "//" ++ cmt) st = ScanOk (pre ++ mid) true st.
Proof.
  intros asm pre body mid cmt st Hc Hm He Cc Mq Ms Mb Me M1.
  unfold scan_line.
  assert (L : exists f, String.length (pre ++ "/*" ++ body ++ "*/" ++ mid ++ "//" ++ cmt) = S (S f)).
  { rewrite !s_length_app. cbn [String.length].
    exists (String.length pre + String.length body + String.length mid + String.length cmt + 4). lia. }
  destruct L as [f ->].
  rewrite block_comment_removed_simple; [|exact Hc|exact Hm|exact He|exact Cc| |].
  - rewrite scan_loop_code; [|exact Hc|apply eqb_app_nonempty; discriminate].
    unfold before. rewrite (split_once_2_same _ mid cmt Ms Me). cbv zeta.
    rewrite (split_once_none _ _ Mb), (split_once_none _ _ Mq).
    unfold plain_of. cbn [append].
    rewrite eqb_app_nonempty by exact M1.
    destruct (negb (is_include_line mid) && negb asm); reflexivity.
  - destruct mid; [contradiction|discriminate].
  - destruct mid as [|c [|d mid]]; [contradiction| |].
    + intros E. inversion E.
    + discriminate.
Qed.
Print Assumptions scan_line_block_then_line_comment.

(** K3: the repaired defect.  A "//" inside the comment no longer cuts the line before the
    scanner looks for the end of the comment: the comment is removed and the declaration that
    follows it survives (the unrepaired scanner returned [ScanOk "" false (mkScan true 0 [])]) *)
Example block_comment_slashes_fixed :
  scan_line false ("/* see http://x.org */ char a;" ++ nl) st0 = ScanOk (" char a;" ++ nl) true st0
  /\ scan_line false ("a /* http://x */ b // c" ++ nl) st0 = ScanOk "a  b " true st0.
Proof. vm_compute. split; reflexivity. Qed.

(** a literal that follows a block comment on the line is extracted like on a line of its own
    (the unrepaired scanner answered [ScanUnterminated]) *)
Example literal_after_block_comment_fixed :
  scan_line false ("/* c */ s = " ++ QQ ++ "http://x" ++ QQ ++ ";" ++ nl) st0
  = ScanOk (" s = @0@;" ++ nl) true (mkScan false 1 ["http://x"])
  /\ scan_line false ("s = " ++ QQ ++ "http://x" ++ QQ ++ ";" ++ nl) st0
     = ScanOk ("s = @0@;" ++ nl) true (mkScan false 1 ["http://x"]).
Proof. vm_compute. split; reflexivity. Qed.

(** the general form of the second example: code, a block comment, code with a literal *)
Theorem literal_after_block_comment : forall pre cbody mid body post st f out ins,
  sc_in_comment st = false -> no_markers pre ->
  forall no_trailing_slash : ends_with "/" pre = false,
  contains "*/" cbody = false ->
  no_markers mid -> scannable body ->
  scan_loop (S (S (S f))) false (pre ++ "/*" ++ cbody ++ "*/" ++ mid ++ QQ ++ body ++ QQ ++ post) out ins st
  = scan_loop f false post ((out ++ pre) ++ mid ++ "@" ++ string_of_N (sc_next_lit st) ++ "@") true
              (mkScan false (sc_next_lit st + 1) (body :: sc_lits st)).
Proof.
  intros pre cbody mid body post st f out ins Hc Hm He Cc Hmid Hsc.
  rewrite block_comment_removed_simple; [|exact Hc|exact Hm|exact He|exact Cc| |].
  - apply scan_literal_opaque; assumption.
  - destruct mid; discriminate.
  - destruct mid as [|c [|d mid]]; discriminate.
Qed.
Print Assumptions literal_after_block_comment.

(** a "/" right after the comment needs no hypothesis any more: it is an operator, as in C
    (C replaces the comment by a space, the scanner by nothing; the unrepaired scanner saw a
    "//" here and stayed in comment mode) *)
Example block_comment_then_slash :
  scan_line false ("a /* c *// x" ++ nl) st0 = ScanOk ("a / x" ++ nl) true st0.
Proof. vm_compute. reflexivity. Qed.
(** why [no_trailing_slash] is still there: "//*" is the start of a line comment, in the scanner
    and in C alike (the "//" comes first) *)
Example slash_then_block_comment :
  scan_line false ("a //* c */ x" ++ nl) st0 = ScanOk "a " true st0.
Proof. vm_compute. reflexivity. Qed.

(** K4: a comment that spans lines *)
Theorem comment_spans_lines_open : forall asm a c st,
  sc_in_comment st = false -> no_markers a ->
  forall no_trailing_slash : ends_with "/" a = false,
  contains "*/" c = false ->
  scan_line asm (a ++ "/*" ++ c) st
  = ScanOk a (negb (String.eqb a "")) (mkScan true (sc_next_lit st) (sc_lits st)).
Proof.
  intros asm a c st Hc Hm He Cc.
  unfold scan_line. rewrite Hc. cbn [negb].
  rewrite (scan_loop_open asm a c st _ "" true Hc Hm He). cbn [append].
  replace (if String.eqb a "" then false else true) with (negb (String.eqb a ""))
    by (destruct (String.eqb a ""); reflexivity).
  destruct (string_dec c "") as [->|Hne].
  - apply scan_loop_empty.
  - rewrite scan_loop_comment; [|reflexivity|apply String.eqb_neq; exact Hne].
    rewrite (split_once_none _ _ Cc). reflexivity.
Qed.
Print Assumptions comment_spans_lines_open.

Theorem comment_spans_lines_close : forall asm c d st,
  sc_in_comment st = true -> contains "*/" c = false ->
  contains """" d = false -> contains "//" d = false -> contains "/*" d = false ->
  d <> "" -> d <> nl ->
  scan_line asm (c ++ "*/" ++ d) st = ScanOk d true (mkScan false (sc_next_lit st) (sc_lits st)).
Proof.
  intros asm c d st Hc Cc Dq Ds Db D1 D2.
  unfold scan_line. rewrite Hc. cbn [negb].
  rewrite scan_loop_comment; [|exact Hc|apply eqb_app_nonempty; discriminate].
  rewrite (split_once_2_distinct "*" "/" c d ltac:(discriminate) Cc). cbv zeta.
  apply String.eqb_neq in D1, D2. rewrite D1, D2.
  assert (L : exists f, String.length (c ++ "*/" ++ d) = S f).
  { rewrite s_length_app. cbn [append String.length]. exists (String.length c + S (String.length d)). lia. }
  destruct L as [f ->].
  apply String.eqb_neq in D1.
  rewrite scan_loop_plain; [|reflexivity|exact D1|exact Dq|exact Ds|exact Db].
  cbn [append]. apply String.eqb_neq in D1. rewrite D1. reflexivity.
Qed.
Print Assumptions comment_spans_lines_close.

(** when nothing, or only the newline, follows the end of the comment the line is dropped *)
Theorem comment_spans_lines_close_only : forall asm c d st,
  sc_in_comment st = true -> contains "*/" c = false -> d = "" \/ d = nl ->
  scan_line asm (c ++ "*/" ++ d) st = ScanOk "" false (mkScan false (sc_next_lit st) (sc_lits st)).
Proof.
  intros asm c d st Hc Cc D.
  unfold scan_line. rewrite Hc. cbn [negb].
  rewrite scan_loop_comment; [|exact Hc|apply eqb_app_nonempty; discriminate].
  rewrite (split_once_2_distinct "*" "/" c d ltac:(discriminate) Cc). cbv zeta.
  destruct D as [-> | ->]; cbn [String.eqb]; apply scan_loop_empty.
Qed.
Print Assumptions comment_spans_lines_close_only.

(** a line inside a comment is dropped and the scanner stays in the comment *)
Theorem comment_line_inside : forall asm c st,
  sc_in_comment st = true -> contains "*/" c = false ->
  scan_line asm c st = ScanOk "" false st.
Proof.
  intros asm c st Hc Cc. unfold scan_line. rewrite Hc. cbn [negb].
  destruct (string_dec c "") as [->|Hne]; [reflexivity|].
  rewrite scan_loop_comment; [|exact Hc|apply String.eqb_neq; exact Hne].
  rewrite (split_once_none _ _ Cc). reflexivity.
Qed.
Print Assumptions comment_line_inside.

Example comment_spans_lines_example :
  scan_line false ("a /* b" ++ nl) st0 = ScanOk "a " true (mkScan true 0 [])
  /\ scan_line false ("c */ d" ++ nl) (mkScan true 0 []) = ScanOk (" d" ++ nl) true st0.
Proof. vm_compute. split; reflexivity. Qed.

(** * Splices (C11) *)

(** K5 *)
Theorem splice_none : forall fuel l rest extra,
  ends_with ("\" ++ nl) l = false -> ends_with ("\" ++ cr ++ nl) l = false ->
  splice fuel l rest extra = (l, extra, rest).
Proof.
  intros fuel l rest extra H1 H2. destruct fuel as [|f]; [reflexivity|].
  cbn [splice]. rewrite H1, H2. reflexivity.
Qed.
Print Assumptions splice_none.

Theorem splice_joins : forall fuel a l rest,
  forall joined_ends_plain : ends_with ("\" ++ nl) (a ++ l) = false,
  forall joined_ends_plain_crlf : ends_with ("\" ++ cr ++ nl) (a ++ l) = false,
  splice (S (S fuel)) (a ++ "\" ++ nl) (l :: rest) 0%N = (a ++ l, 1%N, rest).
Proof.
  intros fuel a l rest H1 H2.
  assert (E1 : ends_with ("\" ++ nl) (a ++ "\" ++ nl) = true) by apply ends_with_app.
  assert (E2 : ends_with ("\" ++ cr ++ nl) (a ++ "\" ++ nl) = false).
  { unfold ends_with. rewrite (rev_string_app a). reflexivity. }
  cbn [splice]. rewrite E1, E2. cbn [orb].
  replace (String.length (a ++ "\" ++ nl) - 2) with (String.length a)
    by (rewrite s_length_app; cbn [String.length append nl]; lia).
  rewrite take_length_app, H1, H2. reflexivity.
Qed.
Print Assumptions splice_joins.

(** the same with a carriage return before the newline *)
Theorem splice_joins_crlf : forall fuel a l rest,
  forall joined_ends_plain : ends_with ("\" ++ nl) (a ++ l) = false,
  forall joined_ends_plain_crlf : ends_with ("\" ++ cr ++ nl) (a ++ l) = false,
  splice (S (S fuel)) (a ++ "\" ++ cr ++ nl) (l :: rest) 0%N = (a ++ l, 1%N, rest).
Proof.
  intros fuel a l rest H1 H2.
  assert (E1 : ends_with ("\" ++ nl) (a ++ "\" ++ cr ++ nl) = false).
  { unfold ends_with. rewrite (rev_string_app a). reflexivity. }
  assert (E2 : ends_with ("\" ++ cr ++ nl) (a ++ "\" ++ cr ++ nl) = true) by apply ends_with_app.
  cbn [splice]. rewrite E1, E2. cbn [orb].
  replace (String.length (a ++ "\" ++ cr ++ nl) - 3) with (String.length a)
    by (rewrite s_length_app; cbn [String.length append nl cr]; lia).
  rewrite take_length_app, H1, H2. reflexivity.
Qed.
Print Assumptions splice_joins_crlf.

(** the hypothesis is about the joined text: the next line alone is not enough *)
Example splice_joins_needs_joined :
  ends_with ("\" ++ nl) nl = false /\ ends_with ("\" ++ cr ++ nl) nl = false
  /\ splice 3 ("x\" ++ "\" ++ nl) [nl; "y"] 0%N = ("xy", 2%N, []).
Proof. vm_compute. repeat split. Qed.

(** the last line of a file ending in a splice: the backslash-newline is removed *)
Theorem splice_at_eof : forall fuel a,
  splice (S fuel) (a ++ "\" ++ nl) [] 0%N = (a, 0%N, []).
Proof.
  intros fuel a.
  assert (E1 : ends_with ("\" ++ nl) (a ++ "\" ++ nl) = true) by apply ends_with_app.
  assert (E2 : ends_with ("\" ++ cr ++ nl) (a ++ "\" ++ nl) = false).
  { unfold ends_with. rewrite (rev_string_app a). reflexivity. }
  cbn [splice]. rewrite E1, E2. cbn [orb].
  replace (String.length (a ++ "\" ++ nl) - 2) with (String.length a)
    by (rewrite s_length_app; cbn [String.length append nl]; lia).
  rewrite take_length_app. reflexivity.
Qed.
Print Assumptions splice_at_eof.

(** more findings, as computations *)

(** a comment is removed, not replaced by a space: the neighbours are pasted together *)
Example comment_pastes_tokens :
  scan_line false ("int/**/x;" ++ nl) st0 = ScanOk ("intx;" ++ nl) true st0.
Proof. vm_compute. reflexivity. Qed.

(** on an #include line nothing is extracted; a // in the file name starts a comment *)
Example include_line_not_extracted :
  scan_line false ("#include " ++ QQ ++ "a//b.h" ++ QQ ++ nl) st0 = ScanOk ("#include " ++ QQ ++ "a") true st0.
Proof. vm_compute. reflexivity. Qed.

(** * Layout of directive lines (C11) *)

Definition TAB : string := String (ascii_of_nat 9) "".

(** ** the directive word ends at the first blank or TAB *)
Lemma split_blank_first (w : string) (c : ascii) (r : string) :
  split_blank w = None -> is_blank_or_tab c = true -> split_blank (w ++ String c r) = Some (w, r).
Proof.
  intros Hw Hc. induction w as [|a w IH].
  - cbn [append split_blank]. rewrite Hc. reflexivity.
  - cbn [split_blank] in Hw. cbn [append split_blank].
    destruct (is_blank_or_tab a); [discriminate|].
    destruct (split_blank w) as [[b t]|]; [discriminate|].
    rewrite (IH eq_refl). reflexivity.
Qed.

Theorem directive_parts_blank_or_tab : forall w c z,
  split_blank w = None -> is_blank_or_tab c = true ->
  contains "//" (w ++ String c z) = false ->
  directive_parts (w ++ String c z) = (w, if String.eqb (trim z) "" then None else Some (trim z)).
Proof.
  intros w c z Hw Hc Hs. unfold directive_parts.
  rewrite (before_none _ _ Hs), (split_blank_first w c z Hw Hc). reflexivity.
Qed.
Print Assumptions directive_parts_blank_or_tab.

(** a TAB after the directive word is as good as a blank *)
Corollary directive_parts_tab_like_blank : forall w z,
  split_blank w = None ->
  contains "//" (w ++ TAB ++ z) = false -> contains "//" (w ++ " " ++ z) = false ->
  directive_parts (w ++ TAB ++ z) = directive_parts (w ++ " " ++ z).
Proof.
  intros w z Hw H1 H2.
  change (w ++ TAB ++ z) with (w ++ String (ascii_of_nat 9) z) in *.
  change (w ++ " " ++ z) with (w ++ String " " z) in *.
  rewrite (directive_parts_blank_or_tab w (ascii_of_nat 9) z Hw eq_refl H1).
  rewrite (directive_parts_blank_or_tab w " " z Hw eq_refl H2). reflexivity.
Qed.
Print Assumptions directive_parts_tab_like_blank.

(** the repaired defect: "#ifdef<TAB>FOO" was the word "#ifdef<TAB>FOO" without argument
    ("Expected something after `#ifdef`"); it selects like "#ifdef FOO", and so do the other
    directives *)
Example ifdef_tab_example :
  directive_parts ("#ifdef" ++ TAB ++ "FOO") = ("#ifdef", Some "FOO")
  /\ (forall defs,
        defs = [("FOO", "1")] \/ defs = [] ->
        run_cpp [] "m.c" defs ["#ifdef" ++ TAB ++ "FOO" ++ nl; "x" ++ nl; "#else" ++ nl; "y" ++ nl; "#endif" ++ nl]
        = run_cpp [] "m.c" defs ["#ifdef FOO" ++ nl; "x" ++ nl; "#else" ++ nl; "y" ++ nl; "#endif" ++ nl])
  /\ match run_cpp [] "m.c" [("FOO", "1")] ["#ifdef" ++ TAB ++ "FOO" ++ nl; "x" ++ nl; "#else" ++ nl; "y" ++ nl; "#endif" ++ nl] with
     | POk p => p_out p = "x" ++ nl
     | PErr _ => False
     end
  /\ match run_cpp [] "m.c" [] ["#ifdef" ++ TAB ++ "FOO" ++ nl; "x" ++ nl; "#else" ++ nl; "y" ++ nl; "#endif" ++ nl] with
     | POk p => p_out p = "y" ++ nl
     | PErr _ => False
     end
  /\ match run_cpp [] "m.c" [] ["#define" ++ TAB ++ "A" ++ TAB ++ "1" ++ nl; "#if" ++ TAB ++ "A" ++ nl; "A;" ++ nl;
                                "#endif" ++ nl; "#undef" ++ TAB ++ "A" ++ nl; "#ifndef" ++ TAB ++ "A" ++ nl; "A;" ++ nl; "#endif" ++ nl] with
     | POk p => p_out p = "1;" ++ nl ++ "A;" ++ nl
     | PErr _ => False
     end.
Proof.
  split; [reflexivity|]. split; [intros defs [-> | ->]; vm_compute; reflexivity|].
  vm_compute. repeat split; reflexivity.
Qed.

(** ** an #include line keeps its quotes, whatever white space precedes the '#' or follows it *)
Theorem include_line_not_scanned_gen : forall asm l st,
  sc_in_comment st = false ->
  is_include_line l = true ->
  contains "//" l = false -> contains "/*" l = false ->
  scan_line asm l st = ScanOk l true st.
Proof.
  intros asm l st Hc Hi Cs Cb.
  assert (E : String.eqb l "" = false) by (destruct l; [discriminate|reflexivity]).
  unfold scan_line. rewrite Hc. cbn [negb].
  rewrite scan_loop_code; [|exact Hc|exact E].
  rewrite (before_none _ _ Cs). cbv zeta. rewrite (split_once_none _ _ Cb).
  rewrite Hi. cbn [negb andb]. unfold plain_of. cbn [append]. rewrite E. reflexivity.
Qed.
Print Assumptions include_line_not_scanned_gen.

Lemma is_include_line_tight (l : string) :
  starts_with "#include" (trim_start l) = true -> is_include_line l = true.
Proof.
  unfold is_include_line. intros H. destruct (trim_start l) as [|h r]; [discriminate|].
  cbn [starts_with] in H. apply andb_true_iff in H. destruct H as [H1 H2].
  rewrite Ascii.eqb_sym, H1. cbn [andb].
  destruct r as [|x r]; [discriminate|].
  cbn [starts_with] in H2. apply andb_true_iff in H2. destruct H2 as [H2 H3].
  apply Ascii.eqb_eq in H2. subst x.
  change (trim_start (String "i"%char r)) with (String "i"%char r). exact H3.
Qed.

Theorem include_line_not_scanned : forall asm l st,
  sc_in_comment st = false ->
  starts_with "#include" (trim_start l) = true ->
  contains "//" l = false -> contains "/*" l = false ->
  scan_line asm l st = ScanOk l true st.
Proof.
  intros asm l st Hc Hi Cs Cb.
  apply include_line_not_scanned_gen; try assumption. apply is_include_line_tight. exact Hi.
Qed.
Print Assumptions include_line_not_scanned.

(** the repaired defect: with leading blanks the file name used to be taken for a string literal
    (a marker replaced it, a literal was recorded and the directive failed with "Expected < or
    quote"); the file is included and no literal is recorded *)
Example include_leading_blanks_example :
  scan_line false ("   #include " ++ """" ++ "f.h" ++ """" ++ nl) st0
  = ScanOk ("   #include " ++ """" ++ "f.h" ++ """" ++ nl) true st0
  /\ match run_cpp [("f.h", ["int x;" ++ nl])] "m.c" [] ["   #include " ++ """" ++ "f.h" ++ """" ++ nl; "int y;" ++ nl] with
     | POk p => p_out p = "int x;" ++ nl ++ "int y;" ++ nl
                /\ c_scan (p_ctx p) = mkScan false 0 []
                /\ rev (p_map p) = [("f.h", 1%N, Some ("m.c", 1%N)); ("m.c", 2%N, None)]
     | PErr _ => False
     end
  /\ run_cpp [("f.h", ["int x;" ++ nl])] "m.c" [] [TAB ++ " #include " ++ """" ++ "f.h" ++ """" ++ nl]
     = run_cpp [("f.h", ["int x;" ++ nl])] "m.c" [] ["#include " ++ """" ++ "f.h" ++ """" ++ nl].
Proof. vm_compute. repeat split; reflexivity. Qed.

(** ** blanks between '#' and the directive name *)

(** [trim_start b = ""]: [b] is made of white space only *)
Lemma trim_start_ws_app (b s : string) : trim_start b = "" -> trim_start (b ++ s) = trim_start s.
Proof.
  induction b as [|a b IH]; intros H; [reflexivity|].
  cbn [trim_start] in H. cbn [append trim_start].
  destruct (is_ws a); [exact (IH H)|discriminate].
Qed.

Lemma trim_start_idem (s : string) : trim_start (trim_start s) = trim_start s.
Proof.
  induction s as [|a s IH]; [reflexivity|].
  cbn [trim_start]. destruct (is_ws a) eqn:E; [exact IH|].
  cbn [trim_start]. rewrite E. reflexivity.
Qed.

(** at least one blank after the '#': the text becomes '#' and what follows the blanks *)
Theorem hash_blanks_removes : forall b1 b2 rest,
  trim_start b1 = "" -> trim_start b2 = "" -> b2 <> "" -> trim_start rest = rest ->
  hash_blanks (b1 ++ "#" ++ b2 ++ rest) = "#" ++ rest.
Proof.
  intros b1 b2 rest H1 H2 Hne Hr. unfold hash_blanks.
  rewrite (trim_start_ws_app b1 _ H1).
  change (trim_start ("#" ++ b2 ++ rest)) with (String "#" (b2 ++ rest)).
  change (Ascii.eqb "#" "#") with true. cbv beta iota zeta.
  rewrite (trim_start_ws_app b2 _ H2), Hr, s_length_app.
  destruct b2 as [|c b2]; [contradiction|]. cbn [String.length].
  replace (Nat.eqb (String.length rest) (S (String.length b2) + String.length rest)) with false; [reflexivity|].
  symmetry. apply Nat.eqb_neq. lia.
Qed.
Print Assumptions hash_blanks_removes.

(** no blank after the '#': the text is left as it is, leading blanks included *)
Theorem hash_blanks_keeps : forall b1 rest,
  trim_start b1 = "" -> trim_start rest = rest ->
  hash_blanks (b1 ++ "#" ++ rest) = b1 ++ "#" ++ rest.
Proof.
  intros b1 rest H1 Hr. unfold hash_blanks.
  rewrite (trim_start_ws_app b1 _ H1).
  change (trim_start ("#" ++ rest)) with (String "#" rest).
  change (Ascii.eqb "#" "#") with true. cbv beta iota zeta.
  rewrite Hr, Nat.eqb_refl. reflexivity.
Qed.
Print Assumptions hash_blanks_keeps.

(** text that does not start (after white space) with '#' is left as it is *)
Theorem hash_blanks_other : forall out,
  starts_with "#" (trim_start out) = false -> hash_blanks out = out.
Proof.
  intros out H. unfold hash_blanks. destruct (trim_start out) as [|h r]; [reflexivity|].
  cbn [starts_with] in H. rewrite andb_true_r, Ascii.eqb_sym in H. rewrite H. reflexivity.
Qed.
Print Assumptions hash_blanks_other.

Theorem hash_blanks_idem : forall out, hash_blanks (hash_blanks out) = hash_blanks out.
Proof.
  intros out.
  assert (Hc : hash_blanks out = out \/ exists r, hash_blanks out = String "#" (trim_start r)).
  { unfold hash_blanks. destruct (trim_start out) as [|h rest]; [left; reflexivity|].
    destruct (Ascii.eqb h "#"); [|left; reflexivity]. cbv zeta.
    destruct (Nat.eqb (String.length (trim_start rest)) (String.length rest));
      [left; reflexivity|right; exists rest; reflexivity]. }
  destruct Hc as [Hc|[r Hc]]; rewrite Hc; [exact Hc|].
  unfold hash_blanks.
  change (trim_start (String "#" (trim_start r))) with (String "#" (trim_start r)).
  change (Ascii.eqb "#" "#") with true. cbv beta iota zeta.
  rewrite trim_start_idem, Nat.eqb_refl. reflexivity.
Qed.
Print Assumptions hash_blanks_idem.

(** processing a scanned line is processing its normalised form *)
Theorem line_body_hash_blanks : forall rec fs fname inc p line buf out ins sc,
  line_body rec fs fname inc p line buf out ins sc
  = line_body rec fs fname inc p line buf (hash_blanks out) ins sc.
Proof.
  intros. unfold line_body. cbv zeta. rewrite hash_blanks_idem. reflexivity.
Qed.
Print Assumptions line_body_hash_blanks.

(** THE LAYOUT RULE: a scanned line  blanks # blanks rest  (at least one blank after the '#') is
    processed exactly like  #rest : same directive, same argument, same errors, in selected and
    in skipped groups alike *)
Theorem directive_blank_after_hash : forall rec fs fname inc p line buf b1 b2 rest ins sc,
  trim_start b1 = "" -> trim_start b2 = "" -> b2 <> "" -> trim_start rest = rest ->
  line_body rec fs fname inc p line buf (b1 ++ "#" ++ b2 ++ rest) ins sc
  = line_body rec fs fname inc p line buf ("#" ++ rest) ins sc.
Proof.
  intros rec fs fname inc p line buf b1 b2 rest ins sc H1 H2 Hne Hr.
  rewrite (line_body_hash_blanks rec fs fname inc p line buf (b1 ++ "#" ++ b2 ++ rest)).
  rewrite (line_body_hash_blanks rec fs fname inc p line buf ("#" ++ rest)).
  rewrite (hash_blanks_removes b1 b2 rest H1 H2 Hne Hr).
  pose proof (hash_blanks_keeps "" rest eq_refl Hr) as Hk.
  change ("" ++ "#" ++ rest) with ("#" ++ rest) in Hk. rewrite Hk. reflexivity.
Qed.
Print Assumptions directive_blank_after_hash.

Example define_blank_after_hash_example :
  run_cpp [] "m.c" [] ["# define N 1" ++ nl; "N" ++ nl]
  = run_cpp [] "m.c" [] ["#define N 1" ++ nl; "N" ++ nl]
  /\ match run_cpp [] "m.c" [] ["# define N 1" ++ nl; "N" ++ nl] with
     | POk p => p_out p = "1" ++ nl /\ c_macros (p_ctx p) = [("N", MObj "1")]
     | PErr _ => False
     end
  /\ match run_cpp [] "m.c" [] ["  #" ++ TAB ++ " define N 1" ++ nl; "#  ifdef N" ++ nl; "N" ++ nl; "#   else" ++ nl; "x" ++ nl;
                                " # endif" ++ nl; "#" ++ nl; "# undef N" ++ nl; "N" ++ nl] with
     | POk p => False
     | PErr e => er_line e = 7%N /\ er_msg e = "Unrecognised preprocessor directive"
     end
  /\ match run_cpp [] "m.c" [] ["  #" ++ TAB ++ " define N 1" ++ nl; "#  ifdef N" ++ nl; "N" ++ nl; "#   else" ++ nl; "x" ++ nl;
                                " # endif" ++ nl; "# undef N" ++ nl; "N" ++ nl] with
     | POk p => p_out p = "1" ++ nl ++ "N" ++ nl
     | PErr _ => False
     end.
Proof. vm_compute. repeat split; reflexivity. Qed.

(** ** the directive name of the generic dispatch: '#' and the letters that follow *)
Lemma take_alpha_stop (rest : string) : fst (take_alpha rest) = "" -> take_alpha rest = ("", rest).
Proof.
  destruct rest as [|a r]; [reflexivity|]. cbn [take_alpha].
  destruct (is_alpha a); [|reflexivity]. destruct (take_alpha r); discriminate.
Qed.

Lemma take_alpha_app (w rest : string) :
  take_alpha w = (w, "") -> fst (take_alpha rest) = "" -> take_alpha (w ++ rest) = (w, rest).
Proof.
  intros Hw Hr. apply take_alpha_stop in Hr. revert Hw. induction w as [|a w IH]; intros Hw; [exact Hr|].
  cbn [take_alpha] in Hw. cbn [append take_alpha].
  destruct (is_alpha a); [|discriminate].
  destruct (take_alpha w) as [w' t'] eqn:E. inversion Hw; subst w' t'.
  rewrite (IH eq_refl). reflexivity.
Qed.

Theorem directive_name_arg_letters : forall h w rest,
  take_alpha w = (w, "") -> fst (take_alpha rest) = "" ->
  contains "//" (String h (w ++ rest)) = false ->
  directive_name_arg (String h (w ++ rest))
  = (String h w, if String.eqb (trim rest) "" then None else Some (trim rest)).
Proof.
  intros h w rest Hw Hr Hs. unfold directive_name_arg. rewrite (before_none _ _ Hs).
  cbv beta iota zeta. rewrite (take_alpha_app w rest Hw Hr). reflexivity.
Qed.
Print Assumptions directive_name_arg_letters.

Example directive_name_arg_examples :
  directive_name_arg "#if!FOO" = ("#if", Some "!FOO")
  /\ directive_name_arg "#if(A) // c" = ("#if", Some "(A)")
  /\ directive_name_arg ("#include" ++ """" ++ "f.h" ++ """") = ("#include", Some ("""" ++ "f.h" ++ """"))
  /\ directive_name_arg "#else" = ("#else", None)
  /\ directive_name_arg ("#if" ++ TAB ++ "1 ") = ("#if", Some "1")
  /\ directive_name_arg "#if_x" = ("#if", Some "_x")
  /\ directive_name_arg "#" = ("#", None).
Proof. vm_compute. repeat split. Qed.

(** ** #include lines with blanks around the '#' *)
Example include_blank_after_hash_example :
  is_include_line ("  #  include " ++ """" ++ "f.h" ++ """" ++ nl) = true
  /\ scan_line false ("  #  include " ++ """" ++ "f.h" ++ """" ++ nl) st0
     = ScanOk ("  #  include " ++ """" ++ "f.h" ++ """" ++ nl) true st0
  /\ match run_cpp [("f.h", ["int x;" ++ nl])] "m.c" [] ["  #  include " ++ """" ++ "f.h" ++ """" ++ nl; "int y;" ++ nl] with
     | POk p => p_out p = "int x;" ++ nl ++ "int y;" ++ nl
                /\ c_scan (p_ctx p) = mkScan false 0 []
                /\ rev (p_map p) = [("f.h", 1%N, Some ("m.c", 1%N)); ("m.c", 2%N, None)]
     | PErr _ => False
     end
  /\ run_cpp [("f.h", ["int x;" ++ nl])] "m.c" [] ["#include" ++ """" ++ "f.h" ++ """" ++ nl]
     = run_cpp [("f.h", ["int x;" ++ nl])] "m.c" [] ["#include " ++ """" ++ "f.h" ++ """" ++ nl].
Proof. vm_compute. repeat split; reflexivity. Qed.
