(** csleep(n) consumes exactly n cycles on the 6502 cycle model and changes no register and no
    memory cell other than DUMMY and the free stack byte below SP (C18). *)
From Coq Require Import String Ascii List Bool NArith ZArith Lia FMapPositive.
From CC Require Import Base.Str Asm.Lines M6502.Isa Asm.Operand M6502.Sem Model.Csleep.
Import ListNotations.
Open Scope Z_scope.

(** straight-line execution of an instruction list *)
Fixpoint run_straight (cfg : config) (is : list instr) (s : mstate) : option (mstate * N) :=
  match is with
  | [] => Some (s, 0%N)
  | i :: r =>
      match parse_operand (i_mn i) (i_op i) with
      | None => None
      | Some op =>
          match exec cfg (i_mn i) op s with
          | XOk s' c FNext =>
              match run_straight cfg r s' with
              | Some (s'', c') => Some (s'', (c + c')%N)
              | None => None
              end
          | _ => None
          end
      end
  end.

Lemma akey_inj a b : 0 <= a -> 0 <= b -> akey a = akey b -> a = b.
Proof. unfold akey; intros Ha Hb H. apply Z2Pos.inj in H; lia. Qed.

Lemma mget_mset_same m a v : mget (mset m a v) a = v.
Proof. unfold mget, mset. rewrite PositiveMap.gss. reflexivity. Qed.

Lemma mget_mset_other m a b v : 0 <= a -> 0 <= b -> a <> b -> mget (mset m a v) b = mget m b.
Proof.
  intros Ha Hb Hab. unfold mget, mset. rewrite PositiveMap.gso; [reflexivity|].
  intro E. apply Hab. symmetry. apply akey_inj; auto.
Qed.

Lemma csleep_domain n code :
  csleep_code n = Some code ->
  n = 2 \/ n = 3 \/ n = 4 \/ n = 5 \/ n = 6 \/ n = 7 \/ n = 8 \/ n = 9 \/ n = 10.
Proof.
  unfold csleep_code, csleep_table.
  destruct n as [|p|p]; try discriminate.
  do 4 (try (destruct p as [p|p|]; try discriminate)); intros _; lia.
Qed.

Definition frame_ok (s s' : mstate) : Prop :=
  rA s' = rA s /\ rX s' = rX s /\ rY s' = rY s /\ rS s' = rS s /\ fC s' = fC s /\ fV s' = fV s /\
  (forall a, 0 <= a -> a <> 45 -> a <> 256 + rS s -> mget (mem s') a = mget (mem s) a).

Ltac Zify.zify_post_hook ::= Z.div_mod_to_equations.

Lemma byte_round s : 0 <= s < 256 -> byte (byte (s - 1) + 1) = s.
Proof. unfold byte. intros. lia. Qed.

Theorem csleep_cycles : forall (cfg : config) (n : Z) (code : list instr) (s : mstate),
  layout cfg "DUMMY"%string = Some 45 -> ports cfg = [] -> 0 <= rS s < 256 ->
  csleep_code n = Some code ->
  exists s', run_straight cfg code s = Some (s', Z.to_N n) /\ frame_ok s s'.
Proof.
  intros cfg n code s HL HP HS HC.
  pose proof (csleep_domain _ _ HC) as D.
  assert (R : forall v, read_addr (ports cfg) v = Some v) by (rewrite HP; reflexivity).
  assert (W : forall v, write_addr (ports cfg) v = Some v) by (rewrite HP; reflexivity).
  unfold frame_ok.
  destruct D as [-> | [-> | [-> | [-> | [-> | [-> | [-> | [-> | ->]]]]]]]];
    unfold csleep_code, csleep_table in HC; injection HC as <-;
    cbn [run_straight nop_p pha_p pla_p sta_dummy dec_dummy i_mn i_op parse_operand];
    cbv [parse_operand takes_label String.eqb Ascii.eqb Bool.eqb parse_sym_off split_at_char
         strip_suffix ends_with starts_with rev_string rev_string_aux string_take String.length
         Nat.sub andb];
    cbv [exec write_operand eff_addr shape_of resolve legal opcode read_operand cyc base_cycles
         pays_page_cross is_rmw is_store andb negb];
    rewrite ?HL; cbn [Z.add Z.ltb Z.compare Pos.compare Pos.compare_cont];
    cbv [exec write_operand eff_addr shape_of resolve legal opcode read_operand cyc base_cycles
         pays_page_cross is_rmw is_store andb negb push pull];
    rewrite ?HL, ?R, ?W; cbn [Z.add Z.ltb Z.compare Pos.compare Pos.compare_cont andb negb];
    rewrite ?R, ?W;
    try (eexists; split; [reflexivity|]; cbn [rA rX rY rS fC fV mem set_nz set_c set_a set_mem set_sp];
         repeat split; try reflexivity; intros; repeat rewrite mget_mset_other by (try assumption; try lia); try reflexivity).
  all: try (cbn [rA rX rY rS fC fV fN fZ mem set_nz set_c set_a set_mem set_sp] in *).
  all: try (eexists; split; [reflexivity|]).
  all: cbn [rA rX rY rS fC fV fN fZ mem set_nz set_c set_a set_mem set_sp] in *.
  all: repeat split; try reflexivity; try (apply byte_round; assumption); try apply mget_mset_same.
  all: intros; repeat rewrite mget_mset_other by (try assumption; try lia); try reflexivity.
  all: repeat match goal with
         | |- context [match ?x with 0 => 256 | Z.pos y' => Z.pos (256 + y') | Z.neg y' => Z.pos_sub 256 y' end] =>
             change (match x with 0 => 256 | Z.pos y' => Z.pos (256 + y') | Z.neg y' => Z.pos_sub 256 y' end)
               with (256 + x)
         end.
  - rewrite byte_round by assumption. apply mget_mset_same.
  - repeat match goal with
           | H : context [match ?x with 0 => 256 | Z.pos y' => Z.pos (256 + y') | Z.neg y' => Z.pos_sub 256 y' end] |- _ =>
               change (match x with 0 => 256 | Z.pos y' => Z.pos (256 + y') | Z.neg y' => Z.pos_sub 256 y' end)
                 with (256 + x) in H
           end.
    apply mget_mset_other; lia.
Qed.
Print Assumptions csleep_cycles.
