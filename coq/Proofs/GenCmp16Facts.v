(** Correctness (or refutation) of the 16-bit conditional sequences of the code generator
    (Model/GenCmp16.v) on the executable 6502 semantics (M6502/Sem.v).

    Shape of the theorems, as in Proofs/GenTemplatesFacts.v: for all configurations, names,
    addresses and byte-valued machine states [st],

      ports cfg = [], var_name of the names, layout cfg v = Some pv, address ranges,
      the labels non-empty and pairwise distinct (only those the form uses),
      [cctmp] (at [pcc]) is not the HIGH cell of an operand and not the destination,
      exists st', runs_to cfg (code16 ...) st st'
        /\ mget (mem st') pd = (if <C condition on word (mem st) px ...> then 1 else mget (mem st) pd)
        /\ only_changes [pd; pcc] st st'  ([pd] alone for the forms that do not use [cctmp])
        /\ keeps_xys st st'.

    Sequences emitted NOW ([code16]) -- all unsigned forms proved correct for all states:
      [if16_cc_correct]    [==] [!=] [>] [<=]  (listings 01 02 05 06; [rel16 o] is the comparison)
      [if16_nocc_correct]  [<] [>=]            (03 04)
      [if16k_cc_correct], [if16k_nocc_correct]  the same against a constant 0 <= k < 65536
                                               (07 08 09 10 11; [!= k] is not a listing instance)
      [ifnz16_correct], [ifz16_correct]        [if (x)] / [if (x != 0)], [if (!x)] / [if (x == 0)]
                                               (12 14, 13 15)
      [iflt16_8_correct]                       [if (x16 < y8)] (20)
      [dolt16_iter], [dogt16_iter]             one iteration of the do-while forms (16 17): on
                                               [Sem.run] over the WHOLE sequence (loop label and
                                               backward branch included), see [iter_to]
    The signed forms (18 19) are WRONG: they test the sign of the difference and ignore overflow.
      [ifslt16_char], [ifsge16_char]           what they compute, for all states
      [.._correct_no_overflow]                 correct iff -32768 <= x - y <= 32767 (signed values)
      [.._wrong_on_overflow]                   the opposite decision on EVERY other pair
      [ifslt16_refuted] (ss = -32768, st = 1: ss < st, body skipped), [ifslt16_refuted_conv]
      (ss = 32767, st = -1), [ifsge16_refuted], [ifsge16_refuted_conv]
    Sequences emitted BEFORE the repair ([code16_old]):
      [old_gt16_correct], [old_gt16k_correct]  [if (x > y)], [if (x > k)]: same code as now, correct
      [old_le16_char]                          decides [x <= y /\ y - x < 65281]
      [old_le16_correct_when] / [old_le16_wrong_when]   correct iff y - x < 65281 (0xFF01)
      [old_le16_refuted]                       s = 0, t = 0xFF01
      [old_le16k_char], [old_le16k_correct_small] (k < 65281: the listing's 1000 is fine,
      [old16_11_correct]), [old_le16k_refuted] (k = 0xFF01, s = 0)
      [old_dogt16_iter_char]                   loops iff [x > y \/ y - x >= 65281]
      [old_dogt16_iter_correct_when] / [.._wrong_when], [old_dogt16_refuted] (s = 0, t = 0xFF01;
      [run_old_dogt_diverges]: it never ends)

    Infrastructure: [stepn], a step-counting executor that follows any branch, proved to agree
    with [Sem.run] ([stepn_run]); [reach], its weakest-precondition form, with one rule per kind
    of line; [runs_to_reach] and [iter_reach] bring the results back to [runs_to] / [iter_to].
    Each path through the branches is executed symbolically ([rstep]); at its end ([leaf]) the
    recorded branch decisions determine the C condition by linear arithmetic. *)
From Coq Require Import String Ascii List Bool Arith NArith ZArith Lia ZifyBool.
From CC Require Import Base.Str Asm.Lines M6502.Isa Asm.Operand M6502.Sem
  Model.OptSem Proofs.OptSemFacts Model.GenTemplates Proofs.GenTemplatesFacts Model.GenCmp16.
Import ListNotations.
Open Scope string_scope.
Open Scope list_scope.
Open Scope Z_scope.

Ltac Zify.zify_post_hook ::= Z.div_mod_to_equations.

(** * A step-counting executor: any branch, forward or backward *)

Fixpoint stepn (cfg : config) (c : list sline) (n : nat) (pc : nat) (s : mstate)
  : option (nat * mstate) :=
  match n with
  | O => Some (pc, s)
  | S n' =>
      match nth_error c pc with
      | Some (SLbl _) | Some SSkip => stepn cfg c n' (S pc) s
      | Some (SIns m o _ _) =>
          match exec cfg m o s with
          | XOk s' _ FNext => stepn cfg c n' (S pc) s'
          | XOk s' _ (FGoto l) =>
              match find_label l c 0 with
              | Some k => stepn cfg c n' k s'
              | None => None
              end
          | _ => None
          end
      | _ => None
      end
  end.

Theorem stepn_run : forall cfg c n pc s pc' s',
  stepn cfg c n pc s = Some (pc', s') ->
  forall prog inl_sem ext_call fuel fname tr cy, exists tr' cy',
    Sem.run cfg prog inl_sem ext_call (n + fuel) fname c pc [] s tr cy
    = Sem.run cfg prog inl_sem ext_call fuel fname c pc' [] s' tr' cy'.
Proof.
  intros cfg c. induction n as [|n IH]; intros pc s pc' s' H prog inl_sem ext_call fuel fname tr cy.
  - cbn [stepn] in H. inversion H; subst. exists tr, cy. reflexivity.
  - cbn [stepn] in H. cbn [Nat.add]. rewrite run_S.
    destruct (nth_error c pc) as [[l|m o p raw|t|]|]; try discriminate H.
    + apply (IH _ _ _ _ H).
    + destruct (exec cfg m o s) as [s1 k fl|why]; [|discriminate H].
      cbv zeta. destruct fl as [|l|f| |]; try discriminate H.
      * apply (IH _ _ _ _ H).
      * destruct (find_label l c 0) as [k'|]; [|discriminate H]. apply (IH _ _ _ _ H).
    + apply (IH _ _ _ _ H).
Qed.
Print Assumptions stepn_run.

Definition reach (cfg : config) (c : list sline) (pc : nat) (s : mstate)
  (Q : nat -> nat -> mstate -> Prop) : Prop :=
  exists n pc' s', stepn cfg c n pc s = Some (pc', s') /\ Q n pc' s'.

Lemma reach_stop : forall cfg c pc s (Q : nat -> nat -> mstate -> Prop),
  Q O pc s -> reach cfg c pc s Q.
Proof. intros cfg c pc s Q H. exists O, pc, s. split; [reflexivity|exact H]. Qed.

Lemma reach_lbl : forall cfg c pc s l (Q : nat -> nat -> mstate -> Prop),
  nth_error c pc = Some (SLbl l) ->
  reach cfg c (S pc) s (fun n => Q (S n)) -> reach cfg c pc s Q.
Proof.
  intros cfg c pc s l Q Hn (n & pc' & s' & Hs & HQ). exists (S n), pc', s'.
  split; [|exact HQ]. cbn [stepn]. rewrite Hn. exact Hs.
Qed.

Lemma reach_next : forall cfg c pc s m o p raw s' k (Q : nat -> nat -> mstate -> Prop),
  nth_error c pc = Some (SIns m o p raw) -> exec cfg m o s = XOk s' k FNext ->
  reach cfg c (S pc) s' (fun n => Q (S n)) -> reach cfg c pc s Q.
Proof.
  intros cfg c pc s m o p raw s' k Q Hn He (n & pc' & s'' & Hs & HQ). exists (S n), pc', s''.
  split; [|exact HQ]. cbn [stepn]. rewrite Hn, He. exact Hs.
Qed.

Lemma reach_branch : forall cfg c pc s m l p raw k' (Q : nat -> nat -> mstate -> Prop),
  nth_error c pc = Some (SIns m (OLbl l) p raw) -> is_cond_branch m = true ->
  find_label l c 0 = Some k' ->
  (if branch_taken m s then reach cfg c k' s (fun n => Q (S n))
   else reach cfg c (S pc) s (fun n => Q (S n))) ->
  reach cfg c pc s Q.
Proof.
  intros cfg c pc s m l p raw k' Q Hn Hm Hf H.
  destruct (branch_taken m s) eqn:Eb; destruct H as (n & pc' & s' & Hs & HQ);
    exists (S n), pc', s'; (split; [|exact HQ]); cbn [stepn]; rewrite Hn;
    rewrite (exec_branch cfg m l s Hm), Eb; [rewrite Hf|]; exact Hs.
Qed.

(** from [reach] to [runs_to] *)
Lemma runs_to_reach : forall cfg c sl st (P : mstate -> Prop),
  slines_of c = Some sl ->
  reach cfg sl 0 st (fun (n pc' : nat) (s' : mstate) => (n <= length sl)%nat /\ pc' = length sl /\ P s') ->
  exists st', runs_to cfg c st st' /\ P st'.
Proof.
  intros cfg c sl st P Hsl (n & pc' & s' & Hs & Hn & Hpc & HP). subst pc'.
  exists s'. split; [|exact HP]. exists sl. split; [exact Hsl|].
  intros prog inl_sem ext_call fname fuel Hf.
  destruct (stepn_run cfg sl n 0 st _ s' Hs prog inl_sem ext_call (fuel - n)%nat fname [] 0%N)
    as (tr' & cy' & Hr).
  replace fuel with (n + (fuel - n))%nat by lia. rewrite Hr.
  destruct (fuel - n)%nat as [|f] eqn:Ef; [lia|].
  rewrite run_S. rewrite (proj2 (nth_error_None sl (length sl))) by lia. eauto.
Qed.

(** * One iteration of a do-while *)

(** [c] assembles, its first line is the loop label [lloop], and [Sem.run] started at that line in
    [st] (empty call stack, any program around, any fuel) is, after [n] steps (at least one, at
    most the length of [c]: a single pass), at the loop label again ([again = true]) or past the
    last line of [c] ([again = false]), in state [st'] *)
Definition iter_to (cfg : config) (c : code) (lloop : string) (st : mstate) (again : bool)
  (st' : mstate) : Prop :=
  exists sl, slines_of c = Some sl /\ nth_error sl 0 = Some (SLbl lloop) /\
    exists n, (0 < n <= length sl)%nat /\
      forall prog inl_sem ext_call fname fuel tr cy, exists tr' cy',
        Sem.run cfg prog inl_sem ext_call (n + fuel) fname sl 0 [] st tr cy
        = Sem.run cfg prog inl_sem ext_call fuel fname sl
            (if again then 0%nat else length sl) [] st' tr' cy'.

Lemma iter_reach : forall cfg c sl lloop st (again : bool) (P : mstate -> Prop),
  slines_of c = Some sl -> nth_error sl 0 = Some (SLbl lloop) ->
  reach cfg sl 0 st (fun (n pc' : nat) (s' : mstate) =>
    (0 < n <= length sl)%nat /\ pc' = (if again then 0%nat else length sl) /\ P s') ->
  exists st', iter_to cfg c lloop st again st' /\ P st'.
Proof.
  intros cfg c sl lloop st again P Hsl H0 (n & pc' & s' & Hs & Hn & Hpc & HP). subst pc'.
  exists s'. split; [|exact HP]. exists sl. split; [exact Hsl|]. split; [exact H0|].
  exists n. split; [exact Hn|].
  intros prog inl_sem ext_call fname fuel tr cy.
  apply (stepn_run cfg sl n 0 st _ s' Hs).
Qed.

(** * Tactics *)

Lemma slines_pins : forall m op o r sr, parse_operand m op = Some o -> slines_of r = Some sr ->
  slines_of (pins m op :: r) = Some (SIns m o true op :: sr).
Proof.
  intros m op o r sr Hp Hr. cbn [slines_of sline_of pins i_mn i_op i_prot]. rewrite Hp, Hr. reflexivity.
Qed.

Lemma cctmp_var_name : var_name cctmp.
Proof. apply ident_var_name; [discriminate|reflexivity]. Qed.

Ltac slines16_tac :=
  repeat first [ apply slines_nil
               | eapply slines_ins; [parse_tac|]
               | eapply slines_pins; [parse_tac|]
               | eapply slines_lbl ].

Ltac code16_tac :=
  cbn [code16 code16_old sub16 branch16 branch16_old_le set1 keeps_lo app]; slines16_tac.

(** [String.eqb] facts from the distinctness hypotheses on labels *)
Ltac lbl_facts :=
  repeat match goal with
  | H : ?a <> ?b |- _ =>
      lazymatch type of a with
      | string =>
          lazymatch goal with
          | _ : String.eqb a b = false |- _ => fail
          | _ => pose proof (proj2 (String.eqb_neq a b) H);
                 pose proof (proj2 (String.eqb_neq b a) (fun e => H (eq_sym e)))
          end
      | _ => fail
      end
  end.

Ltac eqb_rewrite :=
  repeat first
    [ rewrite String.eqb_refl
    | match goal with E : String.eqb _ _ = false |- _ => rewrite E end ].

Ltac exec_solve :=
  first [ apply exec_clc | apply exec_sec
        | eapply exec_rd_imm; reflexivity
        | eapply exec_rd_mem; [assumption|reflexivity|eassumption|lia]
        | eapply exec_st_mem; [assumption|reflexivity|eassumption|lia]
        | eapply exec_rmw_mem; [assumption|reflexivity|eassumption|lia] ].

Ltac rlbl := eapply reach_lbl; [reflexivity|].
Ltac rnext := eapply reach_next; [reflexivity|exec_solve|].
Ltac rbranch :=
  eapply reach_branch;
  [ reflexivity | reflexivity | cbn [find_label]; eqb_rewrite; reflexivity
  | cbn [branch_taken]; state_simp; mem_simp;
    match goal with |- if ?b then _ else _ => destruct b eqn:? end ].

Ltac rstep := first [rlbl | rbranch | rnext].
Ltac not_at_zero := lazymatch goal with |- reach _ _ 0%nat _ _ => fail | _ => idtac end.

(** byte ranges of all the cells mentioned anywhere *)
Ltac ranges_all HM :=
  repeat match goal with
  | H : context [mget (mem ?s) ?p] |- _ =>
      lazymatch goal with
      | _ : 0 <= mget (mem s) p < 256 |- _ => fail
      | _ => pose proof (HM p)
      end
  | |- context [mget (mem ?s) ?p] =>
      lazymatch goal with
      | _ : 0 <= mget (mem s) p < 256 |- _ => fail
      | _ => pose proof (HM p)
      end
  end.

(** decide every comparison of the context, then linear arithmetic *)
Ltac bool_lia :=
  unfold word, byte, bit7, b2z in *;
  repeat match goal with
  | H : context [Z.leb ?x ?y] |- _ => destruct (Z.leb_spec x y)
  | H : context [Z.ltb ?x ?y] |- _ => destruct (Z.ltb_spec x y)
  | H : context [Z.eqb ?x ?y] |- _ => destruct (Z.eqb_spec x y)
  | |- context [Z.leb ?x ?y] => destruct (Z.leb_spec x y)
  | |- context [Z.ltb ?x ?y] => destruct (Z.ltb_spec x y)
  | |- context [Z.eqb ?x ?y] => destruct (Z.eqb_spec x y)
  end;
  cbn [negb andb orb] in *; try discriminate; try reflexivity; try lia.

Ltac fin16 :=
  repeat match goal with |- _ /\ _ => split end;
  try reflexivity; try (cbn [length]; lia);
  try (let a := fresh "a" in let Ha := fresh "Ha" in let Hn := fresh "Hn" in
       intros a Ha Hn; cbn [In] in Hn; mem_simp; reflexivity).

(** at the end of a path: the recorded branch decisions fix the value of the C condition *)
Ltac leaf HM :=
  apply reach_stop; cbv beta; post_tac; change (byte 1) with 1; mem_simp;
  lazymatch goal with
  | |- context [if ?c then _ else _] =>
      let C := fresh "C" in
      destruct c eqn:C;
      first [ solve [fin16] | exfalso; unfold word in *; ranges_all HM; bool_lia ]
  | _ => fin16
  end.

Definition rel16 (o : relop16) (x y : Z) : bool :=
  match o with
  | REq => x =? y | RNe => negb (x =? y)
  | RLt => x <? y | RGe => y <=? x
  | RGt => y <? x | RLe => x <=? y
  end.


(** * The unsigned comparisons [if (x o y) dst = 1;] (as the compiler emits them now) *)

(** ** the forms that keep the low byte of the difference in [cctmp]: [==], [!=], [>], [<=]

    Needed: [cctmp] is not the high cell of an operand (it is written between the two
    subtractions; it MAY be a low cell, already read), and is not the destination (else the
    destination would be clobbered when the condition is false). *)
Theorem if16_cc_correct : forall o cfg x y dst lend lstart px py pd pcc st,
  keeps_lo o = true ->
  ports cfg = [] -> var_name x -> var_name y -> var_name dst ->
  lend <> ""%string -> (o <> REq -> lstart <> ""%string /\ lstart <> lend) ->
  layout cfg x = Some px -> layout cfg y = Some py -> layout cfg dst = Some pd ->
  layout cfg cctmp = Some pcc ->
  0 <= px -> px + 1 < 65536 -> 0 <= py -> py + 1 < 65536 -> 0 <= pd < 65536 -> 0 <= pcc < 65536 ->
  pcc <> px + 1 -> pcc <> py + 1 -> pd <> pcc ->
  bytes_ok st ->
  exists st', runs_to cfg (code16 (CIf16 o x y dst lend lstart)) st st' /\
    mget (mem st') pd
    = (if rel16 o (word (mem st) px) (word (mem st) py) then 1 else mget (mem st) pd) /\
    only_changes [pd; pcc] st st' /\ keeps_xys st st'.
Proof.
  intros o cfg x y dst lend lstart px py pd pcc st Hk Hp Vx Vy Vd Hle Hls Lx Ly Ld Lc
    Rx Rx' Ry Ry' Rd Rc Ncx Ncy Ndc (HA & HX & HY & HS & HM).
  pose proof cctmp_var_name as Vc.
  destruct o; try discriminate Hk; try (destruct (Hls ltac:(discriminate)) as [Hls1 Hls2]);
    clear Hls; lbl_facts; cbn [rel16];
    (eapply runs_to_reach; [code16_tac|]); repeat rstep; leaf HM.
Qed.
Print Assumptions if16_cc_correct.

(** ** [<] and [>=]: the borrow alone decides; no scratch byte *)
Theorem if16_nocc_correct : forall o cfg x y dst lend lstart px py pd st,
  keeps_lo o = false ->
  ports cfg = [] -> var_name x -> var_name y -> var_name dst ->
  lend <> ""%string ->
  layout cfg x = Some px -> layout cfg y = Some py -> layout cfg dst = Some pd ->
  0 <= px -> px + 1 < 65536 -> 0 <= py -> py + 1 < 65536 -> 0 <= pd < 65536 ->
  bytes_ok st ->
  exists st', runs_to cfg (code16 (CIf16 o x y dst lend lstart)) st st' /\
    mget (mem st') pd
    = (if rel16 o (word (mem st) px) (word (mem st) py) then 1 else mget (mem st) pd) /\
    only_changes [pd] st st' /\ keeps_xys st st'.
Proof.
  intros o cfg x y dst lend lstart px py pd st Hk Hp Vx Vy Vd Hle Lx Ly Ld
    Rx Rx' Ry Ry' Rd (HA & HX & HY & HS & HM).
  destruct o; try discriminate Hk; lbl_facts; cbn [rel16];
    (eapply runs_to_reach; [code16_tac|]); repeat rstep; leaf HM.
Qed.
Print Assumptions if16_nocc_correct.

(** ** a constant right operand, [0 <= k < 65536] *)
Theorem if16k_cc_correct : forall o cfg x k dst lend lstart px pd pcc st,
  keeps_lo o = true ->
  ports cfg = [] -> var_name x -> var_name dst ->
  lend <> ""%string -> (o <> REq -> lstart <> ""%string /\ lstart <> lend) ->
  layout cfg x = Some px -> layout cfg dst = Some pd -> layout cfg cctmp = Some pcc ->
  0 <= px -> px + 1 < 65536 -> 0 <= pd < 65536 -> 0 <= pcc < 65536 -> 0 <= k < 65536 ->
  pcc <> px + 1 -> pd <> pcc ->
  bytes_ok st ->
  exists st', runs_to cfg (code16 (CIf16K o x k dst lend lstart)) st st' /\
    mget (mem st') pd = (if rel16 o (word (mem st) px) k then 1 else mget (mem st) pd) /\
    only_changes [pd; pcc] st st' /\ keeps_xys st st'.
Proof.
  intros o cfg x k dst lend lstart px pd pcc st Hk Hp Vx Vd Hle Hls Lx Ld Lc
    Rx Rx' Rd Rc Rk Ncx Ndc (HA & HX & HY & HS & HM).
  pose proof cctmp_var_name as Vc.
  destruct o; try discriminate Hk; try (destruct (Hls ltac:(discriminate)) as [Hls1 Hls2]);
    clear Hls; lbl_facts; cbn [rel16];
    (eapply runs_to_reach; [code16_tac|]); repeat rstep; leaf HM.
Qed.
Print Assumptions if16k_cc_correct.

Theorem if16k_nocc_correct : forall o cfg x k dst lend lstart px pd st,
  keeps_lo o = false ->
  ports cfg = [] -> var_name x -> var_name dst ->
  lend <> ""%string ->
  layout cfg x = Some px -> layout cfg dst = Some pd ->
  0 <= px -> px + 1 < 65536 -> 0 <= pd < 65536 -> 0 <= k < 65536 ->
  bytes_ok st ->
  exists st', runs_to cfg (code16 (CIf16K o x k dst lend lstart)) st st' /\
    mget (mem st') pd = (if rel16 o (word (mem st) px) k then 1 else mget (mem st) pd) /\
    only_changes [pd] st st' /\ keeps_xys st st'.
Proof.
  intros o cfg x k dst lend lstart px pd st Hk Hp Vx Vd Hle Lx Ld
    Rx Rx' Rd Rk (HA & HX & HY & HS & HM).
  destruct o; try discriminate Hk; lbl_facts; cbn [rel16];
    (eapply runs_to_reach; [code16_tac|]); repeat rstep; leaf HM.
Qed.
Print Assumptions if16k_nocc_correct.

(** * The zero tests *)
(** [if (x) dst = 1;] and [if (x != 0) dst = 1;] *)
Theorem ifnz16_correct : forall cfg x dst lend lstart px pd pcc st,
  ports cfg = [] -> var_name x -> var_name dst ->
  lend <> ""%string -> lstart <> ""%string -> lstart <> lend ->
  layout cfg x = Some px -> layout cfg dst = Some pd -> layout cfg cctmp = Some pcc ->
  0 <= px -> px + 1 < 65536 -> 0 <= pd < 65536 -> 0 <= pcc < 65536 ->
  pcc <> px + 1 -> pd <> pcc ->
  bytes_ok st ->
  exists st', runs_to cfg (code16 (CIfNz16 x dst lend lstart)) st st' /\
    mget (mem st') pd = (if negb (word (mem st) px =? 0) then 1 else mget (mem st) pd) /\
    only_changes [pd; pcc] st st' /\ keeps_xys st st'.
Proof.
  intros cfg x dst lend lstart px pd pcc st Hp Vx Vd Hle Hls Hne Lx Ld Lc
    Rx Rx' Rd Rc Ncx Ndc (HA & HX & HY & HS & HM).
  pose proof cctmp_var_name as Vc. lbl_facts.
  (eapply runs_to_reach; [code16_tac|]); repeat rstep; leaf HM.
Qed.
Print Assumptions ifnz16_correct.

(** [if (!x) dst = 1;] and [if (x == 0) dst = 1;] *)
Theorem ifz16_correct : forall cfg x dst lend px pd pcc st,
  ports cfg = [] -> var_name x -> var_name dst ->
  lend <> ""%string ->
  layout cfg x = Some px -> layout cfg dst = Some pd -> layout cfg cctmp = Some pcc ->
  0 <= px -> px + 1 < 65536 -> 0 <= pd < 65536 -> 0 <= pcc < 65536 ->
  pcc <> px + 1 -> pd <> pcc ->
  bytes_ok st ->
  exists st', runs_to cfg (code16 (CIfZ16 x dst lend)) st st' /\
    mget (mem st') pd = (if word (mem st) px =? 0 then 1 else mget (mem st) pd) /\
    only_changes [pd; pcc] st st' /\ keeps_xys st st'.
Proof.
  intros cfg x dst lend px pd pcc st Hp Vx Vd Hle Lx Ld Lc
    Rx Rx' Rd Rc Ncx Ndc (HA & HX & HY & HS & HM).
  pose proof cctmp_var_name as Vc. lbl_facts.
  (eapply runs_to_reach; [code16_tac|]); repeat rstep; leaf HM.
Qed.
Print Assumptions ifz16_correct.

(** * The mixed form [if (x16 < y8) dst = 1;] ([y] an unsigned char, zero-extended) *)
Theorem iflt16_8_correct : forall cfg x y dst lend px py pd st,
  ports cfg = [] -> var_name x -> var_name y -> var_name dst ->
  lend <> ""%string ->
  layout cfg x = Some px -> layout cfg y = Some py -> layout cfg dst = Some pd ->
  0 <= px -> px + 1 < 65536 -> 0 <= py < 65536 -> 0 <= pd < 65536 ->
  bytes_ok st ->
  exists st', runs_to cfg (code16 (CIfLt16_8 x y dst lend)) st st' /\
    mget (mem st') pd
    = (if word (mem st) px <? mget (mem st) py then 1 else mget (mem st) pd) /\
    only_changes [pd] st st' /\ keeps_xys st st'.
Proof.
  intros cfg x y dst lend px py pd st Hp Vx Vy Vd Hle Lx Ly Ld
    Rx Rx' Ry Rd (HA & HX & HY & HS & HM).
  lbl_facts.
  (eapply runs_to_reach; [code16_tac|]); repeat rstep; leaf HM.
Qed.
Print Assumptions iflt16_8_correct.

(** * The do-while forms: one iteration

    The code starts with the loop label and ends with a BACKWARD branch to it.  [iter_to] is about
    [Sem.run] on the whole sequence, started at the loop label: after one pass (at most
    [length] steps) control is at the loop label again iff the condition holds on the 16-bit
    values, and past the last line otherwise; the body [v++] has been executed once.
    Needed: [v] is not a cell of an operand (the condition is evaluated after the body: the
    statement is about the values BEFORE the iteration), [cctmp] is not a high cell of an operand
    and not [v]. *)
Ltac rloop := rlbl; repeat (not_at_zero; rstep).

Theorem dolt16_iter : forall cfg x y v lloop lend px py pv st,
  ports cfg = [] -> var_name x -> var_name y -> var_name v ->
  lloop <> ""%string ->
  layout cfg x = Some px -> layout cfg y = Some py -> layout cfg v = Some pv ->
  0 <= px -> px + 1 < 65536 -> 0 <= py -> py + 1 < 65536 -> 0 <= pv < 65536 ->
  pv <> px -> pv <> px + 1 -> pv <> py -> pv <> py + 1 ->
  bytes_ok st ->
  exists st', iter_to cfg (code16 (CDoLt16 x y v lloop lend)) lloop st
                (word (mem st) px <? word (mem st) py) st' /\
    mget (mem st') pv = (mget (mem st) pv + 1) mod 256 /\
    only_changes [pv] st st' /\ keeps_xys st st'.
Proof.
  intros cfg x y v lloop lend px py pv st Hp Vx Vy Vv Hll Lx Ly Lv
    Rx Rx' Ry Ry' Rv N1 N2 N3 N4 (HA & HX & HY & HS & HM).
  lbl_facts.
  (eapply iter_reach; [code16_tac|reflexivity|]); rloop; leaf HM.
Qed.
Print Assumptions dolt16_iter.

Theorem dogt16_iter : forall cfg x y v lloop lstart lend px py pv pcc st,
  ports cfg = [] -> var_name x -> var_name y -> var_name v ->
  lloop <> ""%string -> lstart <> ""%string -> lstart <> lloop ->
  layout cfg x = Some px -> layout cfg y = Some py -> layout cfg v = Some pv ->
  layout cfg cctmp = Some pcc ->
  0 <= px -> px + 1 < 65536 -> 0 <= py -> py + 1 < 65536 -> 0 <= pv < 65536 -> 0 <= pcc < 65536 ->
  pv <> px -> pv <> px + 1 -> pv <> py -> pv <> py + 1 ->
  pcc <> px + 1 -> pcc <> py + 1 -> pv <> pcc ->
  bytes_ok st ->
  exists st', iter_to cfg (code16 (CDoGt16 x y v lloop lstart lend)) lloop st
                (word (mem st) py <? word (mem st) px) st' /\
    mget (mem st') pv = (mget (mem st) pv + 1) mod 256 /\
    only_changes [pv; pcc] st st' /\ keeps_xys st st'.
Proof.
  intros cfg x y v lloop lstart lend px py pv pcc st Hp Vx Vy Vv Hll Hls Hne Lx Ly Lv Lc
    Rx Rx' Ry Ry' Rv Rc N1 N2 N3 N4 Ncx Ncy Nvc (HA & HX & HY & HS & HM).
  pose proof cctmp_var_name as Vc. lbl_facts.
  (eapply iter_reach; [code16_tac|reflexivity|]); rloop; leaf HM.
Qed.
Print Assumptions dogt16_iter.

(** * The signed forms [if (x < y) dst = 1;] / [if (x >= y) dst = 1;] over [short]

    The sequences subtract and test the SIGN of the 16-bit difference (BPL / BMI); the overflow
    flag is ignored.  What they compute, exactly: the body runs iff bit 15 of [(x - y) mod 65536]
    is set (resp. clear).  That is the signed comparison iff the signed subtraction does not
    overflow, and the OPPOSITE decision on every pair of values where it does. *)

(** the value of a [short] held in the 16-bit word [w] *)
Definition sval (w : Z) : Z := if w <? 32768 then w else w - 65536.

Lemma word_range : forall st p, (forall a, 0 <= mget (mem st) a < 256) ->
  0 <= word (mem st) p < 65536.
Proof. intros st p HM. unfold word. pose proof (HM p). pose proof (HM (p + 1)). lia. Qed.

Theorem ifslt16_char : forall cfg x y dst lend px py pd st,
  ports cfg = [] -> var_name x -> var_name y -> var_name dst ->
  lend <> ""%string ->
  layout cfg x = Some px -> layout cfg y = Some py -> layout cfg dst = Some pd ->
  0 <= px -> px + 1 < 65536 -> 0 <= py -> py + 1 < 65536 -> 0 <= pd < 65536 ->
  bytes_ok st ->
  exists st', runs_to cfg (code16 (CIfSLt16 x y dst lend)) st st' /\
    mget (mem st') pd
    = (if 32768 <=? (word (mem st) px - word (mem st) py) mod 65536 then 1 else mget (mem st) pd) /\
    only_changes [pd] st st' /\ keeps_xys st st'.
Proof.
  intros cfg x y dst lend px py pd st Hp Vx Vy Vd Hle Lx Ly Ld
    Rx Rx' Ry Ry' Rd (HA & HX & HY & HS & HM).
  lbl_facts.
  (eapply runs_to_reach; [code16_tac|]); repeat rstep; leaf HM.
Qed.
Print Assumptions ifslt16_char.

Theorem ifsge16_char : forall cfg x y dst lend px py pd st,
  ports cfg = [] -> var_name x -> var_name y -> var_name dst ->
  lend <> ""%string ->
  layout cfg x = Some px -> layout cfg y = Some py -> layout cfg dst = Some pd ->
  0 <= px -> px + 1 < 65536 -> 0 <= py -> py + 1 < 65536 -> 0 <= pd < 65536 ->
  bytes_ok st ->
  exists st', runs_to cfg (code16 (CIfSGe16 x y dst lend)) st st' /\
    mget (mem st') pd
    = (if (word (mem st) px - word (mem st) py) mod 65536 <? 32768 then 1 else mget (mem st) pd) /\
    only_changes [pd] st st' /\ keeps_xys st st'.
Proof.
  intros cfg x y dst lend px py pd st Hp Vx Vy Vd Hle Lx Ly Ld
    Rx Rx' Ry Ry' Rd (HA & HX & HY & HS & HM).
  lbl_facts.
  (eapply runs_to_reach; [code16_tac|]); repeat rstep; leaf HM.
Qed.
Print Assumptions ifsge16_char.

(** the sign of the difference against the signed comparison *)
Lemma sign_diff_no_overflow : forall wx wy, 0 <= wx < 65536 -> 0 <= wy < 65536 ->
  -32768 <= sval wx - sval wy <= 32767 ->
  (32768 <=? (wx - wy) mod 65536) = (sval wx <? sval wy).
Proof.
  intros wx wy Hx Hy. unfold sval.
  destruct (Z.ltb_spec wx 32768); destruct (Z.ltb_spec wy 32768); intros Ho;
    destruct (Z.leb_spec 32768 ((wx - wy) mod 65536)); lia.
Qed.

Lemma sign_diff_overflow : forall wx wy, 0 <= wx < 65536 -> 0 <= wy < 65536 ->
  ~ (-32768 <= sval wx - sval wy <= 32767) ->
  (32768 <=? (wx - wy) mod 65536) = negb (sval wx <? sval wy).
Proof.
  intros wx wy Hx Hy. unfold sval.
  destruct (Z.ltb_spec wx 32768); destruct (Z.ltb_spec wy 32768); intros Ho;
    destruct (Z.leb_spec 32768 ((wx - wy) mod 65536)); lia.
Qed.

Lemma ltb_negb_leb : forall a b, (a <? b) = negb (b <=? a).
Proof. intros a b. lia. Qed.
Lemma negb_ltb_leb : forall a b, negb (a <? b) = (b <=? a).
Proof. intros a b. lia. Qed.

(** correct whenever the signed subtraction does not overflow *)
Theorem ifslt16_correct_no_overflow : forall cfg x y dst lend px py pd st,
  ports cfg = [] -> var_name x -> var_name y -> var_name dst ->
  lend <> ""%string ->
  layout cfg x = Some px -> layout cfg y = Some py -> layout cfg dst = Some pd ->
  0 <= px -> px + 1 < 65536 -> 0 <= py -> py + 1 < 65536 -> 0 <= pd < 65536 ->
  bytes_ok st ->
  -32768 <= sval (word (mem st) px) - sval (word (mem st) py) <= 32767 ->
  exists st', runs_to cfg (code16 (CIfSLt16 x y dst lend)) st st' /\
    mget (mem st') pd
    = (if sval (word (mem st) px) <? sval (word (mem st) py) then 1 else mget (mem st) pd) /\
    only_changes [pd] st st' /\ keeps_xys st st'.
Proof.
  intros cfg x y dst lend px py pd st Hp Vx Vy Vd Hle Lx Ly Ld Rx Rx' Ry Ry' Rd Hb Ho.
  destruct (ifslt16_char cfg x y dst lend px py pd st Hp Vx Vy Vd Hle Lx Ly Ld Rx Rx' Ry Ry' Rd Hb)
    as (st' & Hr & Hv & Hf).
  destruct Hb as (_ & _ & _ & _ & HM).
  rewrite (sign_diff_no_overflow _ _ (word_range st px HM) (word_range st py HM) Ho) in Hv.
  exists st'. split; [exact Hr|]. split; [exact Hv|exact Hf].
Qed.
Print Assumptions ifslt16_correct_no_overflow.

(** and wrong on EVERY pair of values whose signed difference overflows: the decision is the
    opposite of the C one (body executed although [x >= y], skipped although [x < y]) *)
Theorem ifslt16_wrong_on_overflow : forall cfg x y dst lend px py pd st,
  ports cfg = [] -> var_name x -> var_name y -> var_name dst ->
  lend <> ""%string ->
  layout cfg x = Some px -> layout cfg y = Some py -> layout cfg dst = Some pd ->
  0 <= px -> px + 1 < 65536 -> 0 <= py -> py + 1 < 65536 -> 0 <= pd < 65536 ->
  bytes_ok st ->
  ~ (-32768 <= sval (word (mem st) px) - sval (word (mem st) py) <= 32767) ->
  exists st', runs_to cfg (code16 (CIfSLt16 x y dst lend)) st st' /\
    mget (mem st') pd
    = (if sval (word (mem st) px) <? sval (word (mem st) py) then mget (mem st) pd else 1).
Proof.
  intros cfg x y dst lend px py pd st Hp Vx Vy Vd Hle Lx Ly Ld Rx Rx' Ry Ry' Rd Hb Ho.
  destruct (ifslt16_char cfg x y dst lend px py pd st Hp Vx Vy Vd Hle Lx Ly Ld Rx Rx' Ry Ry' Rd Hb)
    as (st' & Hr & Hv & Hf).
  destruct Hb as (_ & _ & _ & _ & HM).
  rewrite (sign_diff_overflow _ _ (word_range st px HM) (word_range st py HM) Ho) in Hv.
  exists st'. split; [exact Hr|].
  rewrite Hv. destruct (sval (word (mem st) px) <? sval (word (mem st) py)); reflexivity.
Qed.
Print Assumptions ifslt16_wrong_on_overflow.

Theorem ifsge16_correct_no_overflow : forall cfg x y dst lend px py pd st,
  ports cfg = [] -> var_name x -> var_name y -> var_name dst ->
  lend <> ""%string ->
  layout cfg x = Some px -> layout cfg y = Some py -> layout cfg dst = Some pd ->
  0 <= px -> px + 1 < 65536 -> 0 <= py -> py + 1 < 65536 -> 0 <= pd < 65536 ->
  bytes_ok st ->
  -32768 <= sval (word (mem st) px) - sval (word (mem st) py) <= 32767 ->
  exists st', runs_to cfg (code16 (CIfSGe16 x y dst lend)) st st' /\
    mget (mem st') pd
    = (if sval (word (mem st) py) <=? sval (word (mem st) px) then 1 else mget (mem st) pd) /\
    only_changes [pd] st st' /\ keeps_xys st st'.
Proof.
  intros cfg x y dst lend px py pd st Hp Vx Vy Vd Hle Lx Ly Ld Rx Rx' Ry Ry' Rd Hb Ho.
  destruct (ifsge16_char cfg x y dst lend px py pd st Hp Vx Vy Vd Hle Lx Ly Ld Rx Rx' Ry Ry' Rd Hb)
    as (st' & Hr & Hv & Hf).
  destruct Hb as (_ & _ & _ & _ & HM).
  rewrite ltb_negb_leb in Hv.
  rewrite (sign_diff_no_overflow _ _ (word_range st px HM) (word_range st py HM) Ho) in Hv.
  rewrite negb_ltb_leb in Hv.
  exists st'. split; [exact Hr|]. split; [exact Hv|exact Hf].
Qed.
Print Assumptions ifsge16_correct_no_overflow.

Theorem ifsge16_wrong_on_overflow : forall cfg x y dst lend px py pd st,
  ports cfg = [] -> var_name x -> var_name y -> var_name dst ->
  lend <> ""%string ->
  layout cfg x = Some px -> layout cfg y = Some py -> layout cfg dst = Some pd ->
  0 <= px -> px + 1 < 65536 -> 0 <= py -> py + 1 < 65536 -> 0 <= pd < 65536 ->
  bytes_ok st ->
  ~ (-32768 <= sval (word (mem st) px) - sval (word (mem st) py) <= 32767) ->
  exists st', runs_to cfg (code16 (CIfSGe16 x y dst lend)) st st' /\
    mget (mem st') pd
    = (if sval (word (mem st) py) <=? sval (word (mem st) px) then mget (mem st) pd else 1).
Proof.
  intros cfg x y dst lend px py pd st Hp Vx Vy Vd Hle Lx Ly Ld Rx Rx' Ry Ry' Rd Hb Ho.
  destruct (ifsge16_char cfg x y dst lend px py pd st Hp Vx Vy Vd Hle Lx Ly Ld Rx Rx' Ry Ry' Rd Hb)
    as (st' & Hr & Hv & Hf).
  destruct Hb as (_ & _ & _ & _ & HM).
  rewrite ltb_negb_leb in Hv.
  rewrite (sign_diff_overflow _ _ (word_range st px HM) (word_range st py HM) Ho) in Hv.
  rewrite negb_involutive, ltb_negb_leb in Hv.
  exists st'. split; [exact Hr|].
  rewrite Hv. destruct (sval (word (mem st) py) <=? sval (word (mem st) px)); reflexivity.
Qed.
Print Assumptions ifsge16_wrong_on_overflow.

(** * The sequences emitted BEFORE the repair of the unsigned [>] / [<=] forms

    [if (x > y)] (variable or constant operand) was already the new sequence
    ([old_gt_is_new], [old_gtk_is_new]): correct.  The old [<=] and the old do-while [>] tested
    "high byte of the difference = 0" (the protected [BEQ .ifhere]) BEFORE the borrow.  When the
    high byte of [(x - y) mod 65536] is 0 and the low byte is not, they conclude [x > y]; but that
    also happens when [x < y] and [y - x >= 65281 = 0xFF01] (then [x - y + 65536 <= 255]).  The
    characterisations below are exact: the old sequences decide
    [x <= y /\ y - x < 65281] instead of [x <= y], and [x > y \/ y - x >= 65281] instead of [x > y]. *)

Theorem old_gt16_correct : forall cfg x y dst lend lstart px py pd pcc st,
  ports cfg = [] -> var_name x -> var_name y -> var_name dst ->
  lend <> ""%string -> lstart <> ""%string -> lstart <> lend ->
  layout cfg x = Some px -> layout cfg y = Some py -> layout cfg dst = Some pd ->
  layout cfg cctmp = Some pcc ->
  0 <= px -> px + 1 < 65536 -> 0 <= py -> py + 1 < 65536 -> 0 <= pd < 65536 -> 0 <= pcc < 65536 ->
  pcc <> px + 1 -> pcc <> py + 1 -> pd <> pcc ->
  bytes_ok st ->
  exists st', runs_to cfg (code16_old (OIfGt16 x y dst lend lstart)) st st' /\
    mget (mem st') pd = (if word (mem st) py <? word (mem st) px then 1 else mget (mem st) pd) /\
    only_changes [pd; pcc] st st' /\ keeps_xys st st'.
Proof.
  intros cfg x y dst lend lstart px py pd pcc st Hp Vx Vy Vd Hle Hls Hne Lx Ly Ld Lc
    Rx Rx' Ry Ry' Rd Rc Ncx Ncy Ndc Hb.
  rewrite old_gt_is_new.
  apply (if16_cc_correct RGt cfg x y dst lend lstart px py pd pcc st); try assumption;
    [reflexivity|intros _; split; assumption].
Qed.
Print Assumptions old_gt16_correct.

Theorem old_gt16k_correct : forall cfg x k dst lend lstart px pd pcc st,
  ports cfg = [] -> var_name x -> var_name dst ->
  lend <> ""%string -> lstart <> ""%string -> lstart <> lend ->
  layout cfg x = Some px -> layout cfg dst = Some pd -> layout cfg cctmp = Some pcc ->
  0 <= px -> px + 1 < 65536 -> 0 <= pd < 65536 -> 0 <= pcc < 65536 -> 0 <= k < 65536 ->
  pcc <> px + 1 -> pd <> pcc ->
  bytes_ok st ->
  exists st', runs_to cfg (code16_old (OIfGt16K x k dst lend lstart)) st st' /\
    mget (mem st') pd = (if k <? word (mem st) px then 1 else mget (mem st) pd) /\
    only_changes [pd; pcc] st st' /\ keeps_xys st st'.
Proof.
  intros cfg x k dst lend lstart px pd pcc st Hp Vx Vd Hle Hls Hne Lx Ld Lc
    Rx Rx' Rd Rc Rk Ncx Ndc Hb.
  rewrite old_gtk_is_new.
  apply (if16k_cc_correct RGt cfg x k dst lend lstart px pd pcc st); try assumption;
    [reflexivity|intros _; split; assumption].
Qed.
Print Assumptions old_gt16k_correct.

(** ** the old [if (x <= y) dst = 1;] *)
Theorem old_le16_char : forall cfg x y dst lend lhere lstart px py pd pcc st,
  ports cfg = [] -> var_name x -> var_name y -> var_name dst ->
  lend <> ""%string -> lhere <> ""%string -> lstart <> ""%string ->
  lhere <> lend -> lhere <> lstart -> lstart <> lend ->
  layout cfg x = Some px -> layout cfg y = Some py -> layout cfg dst = Some pd ->
  layout cfg cctmp = Some pcc ->
  0 <= px -> px + 1 < 65536 -> 0 <= py -> py + 1 < 65536 -> 0 <= pd < 65536 -> 0 <= pcc < 65536 ->
  pcc <> px + 1 -> pcc <> py + 1 -> pd <> pcc ->
  bytes_ok st ->
  exists st', runs_to cfg (code16_old (OIfLe16 x y dst lend lhere lstart)) st st' /\
    mget (mem st') pd
    = (if (word (mem st) px <=? word (mem st) py) && (word (mem st) py - word (mem st) px <? 65281)
       then 1 else mget (mem st) pd) /\
    only_changes [pd; pcc] st st' /\ keeps_xys st st'.
Proof.
  intros cfg x y dst lend lhere lstart px py pd pcc st Hp Vx Vy Vd Hle Hlh Hls N1 N2 N3 Lx Ly Ld Lc
    Rx Rx' Ry Ry' Rd Rc Ncx Ncy Ndc (HA & HX & HY & HS & HM).
  pose proof cctmp_var_name as Vc. lbl_facts.
  (eapply runs_to_reach; [code16_tac|]); repeat rstep; leaf HM.
Qed.
Print Assumptions old_le16_char.

(** correct whenever [y - x < 65281] (in particular whenever [x > y], or the high bytes differ
    by less than 255) *)
Theorem old_le16_correct_when : forall cfg x y dst lend lhere lstart px py pd pcc st,
  ports cfg = [] -> var_name x -> var_name y -> var_name dst ->
  lend <> ""%string -> lhere <> ""%string -> lstart <> ""%string ->
  lhere <> lend -> lhere <> lstart -> lstart <> lend ->
  layout cfg x = Some px -> layout cfg y = Some py -> layout cfg dst = Some pd ->
  layout cfg cctmp = Some pcc ->
  0 <= px -> px + 1 < 65536 -> 0 <= py -> py + 1 < 65536 -> 0 <= pd < 65536 -> 0 <= pcc < 65536 ->
  pcc <> px + 1 -> pcc <> py + 1 -> pd <> pcc ->
  bytes_ok st ->
  word (mem st) py - word (mem st) px < 65281 ->
  exists st', runs_to cfg (code16_old (OIfLe16 x y dst lend lhere lstart)) st st' /\
    mget (mem st') pd
    = (if word (mem st) px <=? word (mem st) py then 1 else mget (mem st) pd) /\
    only_changes [pd; pcc] st st' /\ keeps_xys st st'.
Proof.
  intros cfg x y dst lend lhere lstart px py pd pcc st Hp Vx Vy Vd Hle Hlh Hls N1 N2 N3 Lx Ly Ld Lc
    Rx Rx' Ry Ry' Rd Rc Ncx Ncy Ndc Hb Hd.
  destruct (old_le16_char cfg x y dst lend lhere lstart px py pd pcc st Hp Vx Vy Vd Hle Hlh Hls
              N1 N2 N3 Lx Ly Ld Lc Rx Rx' Ry Ry' Rd Rc Ncx Ncy Ndc Hb) as (st' & Hr & Hv & Hf).
  exists st'. split; [exact Hr|]. split; [|exact Hf].
  rewrite Hv. replace (word (mem st) py - word (mem st) px <? 65281) with true by lia.
  rewrite andb_true_r. reflexivity.
Qed.
Print Assumptions old_le16_correct_when.

(** and wrong on EVERY pair with [y - x >= 65281]: [x <= y] holds, the body is skipped *)
Theorem old_le16_wrong_when : forall cfg x y dst lend lhere lstart px py pd pcc st,
  ports cfg = [] -> var_name x -> var_name y -> var_name dst ->
  lend <> ""%string -> lhere <> ""%string -> lstart <> ""%string ->
  lhere <> lend -> lhere <> lstart -> lstart <> lend ->
  layout cfg x = Some px -> layout cfg y = Some py -> layout cfg dst = Some pd ->
  layout cfg cctmp = Some pcc ->
  0 <= px -> px + 1 < 65536 -> 0 <= py -> py + 1 < 65536 -> 0 <= pd < 65536 -> 0 <= pcc < 65536 ->
  pcc <> px + 1 -> pcc <> py + 1 -> pd <> pcc ->
  bytes_ok st ->
  65281 <= word (mem st) py - word (mem st) px ->
  exists st', runs_to cfg (code16_old (OIfLe16 x y dst lend lhere lstart)) st st' /\
    word (mem st) px <= word (mem st) py /\
    mget (mem st') pd = mget (mem st) pd.
Proof.
  intros cfg x y dst lend lhere lstart px py pd pcc st Hp Vx Vy Vd Hle Hlh Hls N1 N2 N3 Lx Ly Ld Lc
    Rx Rx' Ry Ry' Rd Rc Ncx Ncy Ndc Hb Hd.
  destruct (old_le16_char cfg x y dst lend lhere lstart px py pd pcc st Hp Vx Vy Vd Hle Hlh Hls
              N1 N2 N3 Lx Ly Ld Lc Rx Rx' Ry Ry' Rd Rc Ncx Ncy Ndc Hb) as (st' & Hr & Hv & Hf).
  exists st'. split; [exact Hr|]. split; [lia|].
  rewrite Hv. replace (word (mem st) py - word (mem st) px <? 65281) with false by lia.
  rewrite andb_false_r. reflexivity.
Qed.
Print Assumptions old_le16_wrong_when.

(** ** the old [if (x <= k) dst = 1;] *)
Theorem old_le16k_char : forall cfg x k dst lend lhere lstart px pd pcc st,
  ports cfg = [] -> var_name x -> var_name dst ->
  lend <> ""%string -> lhere <> ""%string -> lstart <> ""%string ->
  lhere <> lend -> lhere <> lstart -> lstart <> lend ->
  layout cfg x = Some px -> layout cfg dst = Some pd -> layout cfg cctmp = Some pcc ->
  0 <= px -> px + 1 < 65536 -> 0 <= pd < 65536 -> 0 <= pcc < 65536 -> 0 <= k < 65536 ->
  pcc <> px + 1 -> pd <> pcc ->
  bytes_ok st ->
  exists st', runs_to cfg (code16_old (OIfLe16K x k dst lend lhere lstart)) st st' /\
    mget (mem st') pd
    = (if (word (mem st) px <=? k) && (k - word (mem st) px <? 65281)
       then 1 else mget (mem st) pd) /\
    only_changes [pd; pcc] st st' /\ keeps_xys st st'.
Proof.
  intros cfg x k dst lend lhere lstart px pd pcc st Hp Vx Vd Hle Hlh Hls N1 N2 N3 Lx Ld Lc
    Rx Rx' Rd Rc Rk Ncx Ndc (HA & HX & HY & HS & HM).
  pose proof cctmp_var_name as Vc. lbl_facts.
  (eapply runs_to_reach; [code16_tac|]); repeat rstep; leaf HM.
Qed.
Print Assumptions old_le16k_char.

(** every constant below 65281 (the listing's 1000 among them) was compiled correctly *)
Theorem old_le16k_correct_small : forall cfg x k dst lend lhere lstart px pd pcc st,
  ports cfg = [] -> var_name x -> var_name dst ->
  lend <> ""%string -> lhere <> ""%string -> lstart <> ""%string ->
  lhere <> lend -> lhere <> lstart -> lstart <> lend ->
  layout cfg x = Some px -> layout cfg dst = Some pd -> layout cfg cctmp = Some pcc ->
  0 <= px -> px + 1 < 65536 -> 0 <= pd < 65536 -> 0 <= pcc < 65536 -> 0 <= k < 65281 ->
  pcc <> px + 1 -> pd <> pcc ->
  bytes_ok st ->
  exists st', runs_to cfg (code16_old (OIfLe16K x k dst lend lhere lstart)) st st' /\
    mget (mem st') pd = (if word (mem st) px <=? k then 1 else mget (mem st) pd) /\
    only_changes [pd; pcc] st st' /\ keeps_xys st st'.
Proof.
  intros cfg x k dst lend lhere lstart px pd pcc st Hp Vx Vd Hle Hlh Hls N1 N2 N3 Lx Ld Lc
    Rx Rx' Rd Rc Rk Ncx Ndc Hb.
  destruct (old_le16k_char cfg x k dst lend lhere lstart px pd pcc st Hp Vx Vd Hle Hlh Hls
              N1 N2 N3 Lx Ld Lc Rx Rx' Rd Rc ltac:(lia) Ncx Ndc Hb) as (st' & Hr & Hv & Hf).
  exists st'. split; [exact Hr|]. split; [|exact Hf].
  destruct Hb as (_ & _ & _ & _ & HM). pose proof (word_range st px HM) as Hw.
  rewrite Hv. replace (k - word (mem st) px <? 65281) with true by lia.
  rewrite andb_true_r. reflexivity.
Qed.
Print Assumptions old_le16k_correct_small.

(** ** the old [do { v++; } while (x > y);] *)
Theorem old_dogt16_iter_char : forall cfg x y v lloop lhere lstart lend px py pv pcc st,
  ports cfg = [] -> var_name x -> var_name y -> var_name v ->
  lloop <> ""%string -> lhere <> ""%string -> lstart <> ""%string ->
  lhere <> lloop -> lstart <> lloop -> lhere <> lstart ->
  layout cfg x = Some px -> layout cfg y = Some py -> layout cfg v = Some pv ->
  layout cfg cctmp = Some pcc ->
  0 <= px -> px + 1 < 65536 -> 0 <= py -> py + 1 < 65536 -> 0 <= pv < 65536 -> 0 <= pcc < 65536 ->
  pv <> px -> pv <> px + 1 -> pv <> py -> pv <> py + 1 ->
  pcc <> px + 1 -> pcc <> py + 1 -> pv <> pcc ->
  bytes_ok st ->
  exists st', iter_to cfg (code16_old (ODoGt16 x y v lloop lhere lstart lend)) lloop st
                ((word (mem st) py <? word (mem st) px)
                 || (65281 <=? word (mem st) py - word (mem st) px)) st' /\
    mget (mem st') pv = (mget (mem st) pv + 1) mod 256 /\
    only_changes [pv; pcc] st st' /\ keeps_xys st st'.
Proof.
  intros cfg x y v lloop lhere lstart lend px py pv pcc st Hp Vx Vy Vv Hll Hlh Hls L1 L2 L3 Lx Ly Lv Lc
    Rx Rx' Ry Ry' Rv Rc N1 N2 N3 N4 Ncx Ncy Nvc (HA & HX & HY & HS & HM).
  pose proof cctmp_var_name as Vc. lbl_facts.
  (eapply iter_reach; [code16_tac|reflexivity|]); rloop; leaf HM.
Qed.
Print Assumptions old_dogt16_iter_char.

Theorem old_dogt16_iter_correct_when : forall cfg x y v lloop lhere lstart lend px py pv pcc st,
  ports cfg = [] -> var_name x -> var_name y -> var_name v ->
  lloop <> ""%string -> lhere <> ""%string -> lstart <> ""%string ->
  lhere <> lloop -> lstart <> lloop -> lhere <> lstart ->
  layout cfg x = Some px -> layout cfg y = Some py -> layout cfg v = Some pv ->
  layout cfg cctmp = Some pcc ->
  0 <= px -> px + 1 < 65536 -> 0 <= py -> py + 1 < 65536 -> 0 <= pv < 65536 -> 0 <= pcc < 65536 ->
  pv <> px -> pv <> px + 1 -> pv <> py -> pv <> py + 1 ->
  pcc <> px + 1 -> pcc <> py + 1 -> pv <> pcc ->
  bytes_ok st ->
  word (mem st) py - word (mem st) px < 65281 ->
  exists st', iter_to cfg (code16_old (ODoGt16 x y v lloop lhere lstart lend)) lloop st
                (word (mem st) py <? word (mem st) px) st' /\
    mget (mem st') pv = (mget (mem st) pv + 1) mod 256 /\
    only_changes [pv; pcc] st st' /\ keeps_xys st st'.
Proof.
  intros cfg x y v lloop lhere lstart lend px py pv pcc st Hp Vx Vy Vv Hll Hlh Hls L1 L2 L3 Lx Ly Lv Lc
    Rx Rx' Ry Ry' Rv Rc N1 N2 N3 N4 Ncx Ncy Nvc Hb Hd.
  destruct (old_dogt16_iter_char cfg x y v lloop lhere lstart lend px py pv pcc st Hp Vx Vy Vv
              Hll Hlh Hls L1 L2 L3 Lx Ly Lv Lc Rx Rx' Ry Ry' Rv Rc N1 N2 N3 N4 Ncx Ncy Nvc Hb)
    as (st' & Hi & Hv & Hf).
  exists st'. split; [|split; [exact Hv|exact Hf]].
  replace (65281 <=? word (mem st) py - word (mem st) px) with false in Hi by lia.
  rewrite orb_false_r in Hi. exact Hi.
Qed.
Print Assumptions old_dogt16_iter_correct_when.

(** wrong on every pair with [y - x >= 65281]: [x > y] is false, the loop goes round again (and
    again: the iteration changes neither [x] nor [y]) *)
Theorem old_dogt16_iter_wrong_when : forall cfg x y v lloop lhere lstart lend px py pv pcc st,
  ports cfg = [] -> var_name x -> var_name y -> var_name v ->
  lloop <> ""%string -> lhere <> ""%string -> lstart <> ""%string ->
  lhere <> lloop -> lstart <> lloop -> lhere <> lstart ->
  layout cfg x = Some px -> layout cfg y = Some py -> layout cfg v = Some pv ->
  layout cfg cctmp = Some pcc ->
  0 <= px -> px + 1 < 65536 -> 0 <= py -> py + 1 < 65536 -> 0 <= pv < 65536 -> 0 <= pcc < 65536 ->
  pv <> px -> pv <> px + 1 -> pv <> py -> pv <> py + 1 ->
  pcc <> px + 1 -> pcc <> py + 1 -> pv <> pcc ->
  bytes_ok st ->
  65281 <= word (mem st) py - word (mem st) px ->
  exists st', iter_to cfg (code16_old (ODoGt16 x y v lloop lhere lstart lend)) lloop st true st' /\
    ~ (word (mem st) py < word (mem st) px).
Proof.
  intros cfg x y v lloop lhere lstart lend px py pv pcc st Hp Vx Vy Vv Hll Hlh Hls L1 L2 L3 Lx Ly Lv Lc
    Rx Rx' Ry Ry' Rv Rc N1 N2 N3 N4 Ncx Ncy Nvc Hb Hd.
  destruct (old_dogt16_iter_char cfg x y v lloop lhere lstart lend px py pv pcc st Hp Vx Vy Vv
              Hll Hlh Hls L1 L2 L3 Lx Ly Lv Lc Rx Rx' Ry Ry' Rv Rc N1 N2 N3 N4 Ncx Ncy Nvc Hb)
    as (st' & Hi & Hv & Hf).
  exists st'. split; [|lia].
  replace (65281 <=? word (mem st) py - word (mem st) px) with true in Hi by lia.
  rewrite orb_true_r in Hi. exact Hi.
Qed.
Print Assumptions old_dogt16_iter_wrong_when.

(** * Witnesses on the listing's own names and a concrete layout *)

Definition cfg16 : config :=
  mkCfg (fun y =>
    if String.eqb y "a" then Some 128 else if String.eqb y "c" then Some 130
    else if String.eqb y "s" then Some 134 else if String.eqb y "t" then Some 136
    else if String.eqb y "ss" then Some 140 else if String.eqb y "st" then Some 142
    else if String.eqb y "cctmp" then Some 144 else None) [].

(** [s], [t] (cells 134.., 136..) and [ss], [st] (140.., 142..) hold the given 16-bit words;
    [a] = 0; X, Y, S = 1, 2, 255 *)
Definition st16 (s t ss st_ : Z) : mstate :=
  mkS 0 1 2 255 false false false false
    (mset (mset (mset (mset (mset (mset (mset (mset mem_empty
       134 (s mod 256)) 135 (s / 256)) 136 (t mod 256)) 137 (t / 256))
       140 (ss mod 256)) 141 (ss / 256)) 142 (st_ mod 256)) 143 (st_ / 256)).

Lemma st16_bytes_ok : forall s t ss st_,
  0 <= s < 65536 -> 0 <= t < 65536 -> 0 <= ss < 65536 -> 0 <= st_ < 65536 ->
  bytes_ok (st16 s t ss st_).
Proof.
  intros s t ss st_ H1 H2 H3 H4. apply bytes_ok_mk; try lia.
  repeat (apply mget_mset_bytes; [|lia]). intros b. rewrite mget_empty. lia.
Qed.

Ltac inst16 :=
  try reflexivity; try lia; try discriminate;
  try (apply ident_var_name; [discriminate|reflexivity]);
  try (apply st16_bytes_ok; lia).

(** ** the old [if (s <= t) a = 1;]: s = 0, t = 0xFF01: [s <= t] holds, [a] stays 0 *)
Theorem old_le16_refuted : exists st st',
  bytes_ok st /\
  runs_to cfg16 (code16_old (OIfLe16 "s" "t" "a" ".ifend1" ".ifhere2" ".ifstart2")) st st' /\
  word (mem st) 134 = 0 /\ word (mem st) 136 = 65281 /\
  word (mem st) 134 <= word (mem st) 136 /\
  mget (mem st) 128 = 0 /\ mget (mem st') 128 = 0.
Proof.
  destruct (old_le16_char cfg16 "s" "t" "a" ".ifend1" ".ifhere2" ".ifstart2" 134 136 128 144
              (st16 0 65281 0 0)) as (st' & Hr & Hv & _); inst16.
  exists (st16 0 65281 0 0), st'.
  split; [inst16|]. split; [exact Hr|].
  split; [vm_compute; reflexivity|]. split; [vm_compute; reflexivity|].
  split; [vm_compute; discriminate|]. split; [vm_compute; reflexivity|].
  rewrite Hv. vm_compute. reflexivity.
Qed.
Print Assumptions old_le16_refuted.

(** the sequence the compiler emits now sets [a] from the same state *)
Theorem new_le16_witness : exists st',
  runs_to cfg16 (code16 (CIf16 RLe "s" "t" "a" ".ifend1" ".ifstart1")) (st16 0 65281 0 0) st' /\
  mget (mem st') 128 = 1.
Proof.
  destruct (if16_cc_correct RLe cfg16 "s" "t" "a" ".ifend1" ".ifstart1" 134 136 128 144
              (st16 0 65281 0 0)) as (st' & Hr & Hv & _); inst16.
  { intros _. split; discriminate. }
  exists st'. split; [exact Hr|]. rewrite Hv. vm_compute. reflexivity.
Qed.
Print Assumptions new_le16_witness.

(** ** the old [if (s <= k) a = 1;] for a constant [k >= 65281] (not a listing instance):
    k = 0xFF01, s = 0 *)
Theorem old_le16k_refuted : exists st st',
  bytes_ok st /\
  runs_to cfg16 (code16_old (OIfLe16K "s" 65281 "a" ".ifend1" ".ifhere2" ".ifstart2")) st st' /\
  word (mem st) 134 = 0 /\ word (mem st) 134 <= 65281 /\
  mget (mem st) 128 = 0 /\ mget (mem st') 128 = 0.
Proof.
  destruct (old_le16k_char cfg16 "s" 65281 "a" ".ifend1" ".ifhere2" ".ifstart2" 134 128 144
              (st16 0 0 0 0)) as (st' & Hr & Hv & _); inst16.
  exists (st16 0 0 0 0), st'.
  split; [inst16|]. split; [exact Hr|].
  split; [vm_compute; reflexivity|]. split; [vm_compute; discriminate|].
  split; [vm_compute; reflexivity|].
  rewrite Hv. vm_compute. reflexivity.
Qed.
Print Assumptions old_le16k_refuted.

(** the listing's own [if (s <= 1000) a = 1;], old sequence: correct *)
Corollary old16_11_correct : forall st, bytes_ok st ->
  exists st',
    runs_to cfg16 (code16_old (OIfLe16K "s" 1000 "a" ".ifend1" ".ifhere2" ".ifstart2")) st st' /\
    mget (mem st') 128 = (if word (mem st) 134 <=? 1000 then 1 else mget (mem st) 128) /\
    only_changes [128; 144] st st' /\ keeps_xys st st'.
Proof.
  intros st Hb.
  apply (old_le16k_correct_small cfg16 "s" 1000 "a" ".ifend1" ".ifhere2" ".ifstart2" 134 128 144 st);
    inst16; exact Hb.
Qed.
Print Assumptions old16_11_correct.

(** ** the old [do { a++; } while (s > t);]: s = 0, t = 0xFF01: [s > t] is false, the loop goes on *)
Theorem old_dogt16_refuted : exists st st',
  bytes_ok st /\
  iter_to cfg16 (code16_old (ODoGt16 "s" "t" "a" ".dowhile1" ".ifhere1" ".ifstart1" ".dowhileend1"))
    ".dowhile1" st true st' /\
  word (mem st) 134 = 0 /\ word (mem st) 136 = 65281 /\
  ~ (word (mem st) 136 < word (mem st) 134).
Proof.
  destruct (old_dogt16_iter_wrong_when cfg16 "s" "t" "a" ".dowhile1" ".ifhere1" ".ifstart1"
              ".dowhileend1" 134 136 128 144 (st16 0 65281 0 0)) as (st' & Hi & Hn); inst16.
  exists (st16 0 65281 0 0), st'.
  split; [inst16|]. split; [exact Hi|].
  split; [vm_compute; reflexivity|]. split; [vm_compute; reflexivity|exact Hn].
Qed.
Print Assumptions old_dogt16_refuted.

(** ** the signed forms: ss = -32768, st = 1: [ss < st] holds, the difference overflows;
    [if (ss < st) a = 1;] leaves [a] = 0, [if (ss >= st) a = 1;] sets it *)
Theorem ifslt16_refuted : exists st st',
  bytes_ok st /\
  runs_to cfg16 (code16 (CIfSLt16 "ss" "st" "a" ".ifend1")) st st' /\
  sval (word (mem st) 140) = -32768 /\ sval (word (mem st) 142) = 1 /\
  sval (word (mem st) 140) < sval (word (mem st) 142) /\
  mget (mem st) 128 = 0 /\ mget (mem st') 128 = 0.
Proof.
  destruct (ifslt16_char cfg16 "ss" "st" "a" ".ifend1" 140 142 128 (st16 0 0 32768 1))
    as (st' & Hr & Hv & _); inst16.
  exists (st16 0 0 32768 1), st'.
  split; [inst16|]. split; [exact Hr|].
  split; [vm_compute; reflexivity|]. split; [vm_compute; reflexivity|].
  split; [vm_compute; reflexivity|]. split; [vm_compute; reflexivity|].
  rewrite Hv. vm_compute. reflexivity.
Qed.
Print Assumptions ifslt16_refuted.

(** the converse: ss = 32767, st = -1: [ss < st] is false, [a] is set *)
Theorem ifslt16_refuted_conv : exists st st',
  bytes_ok st /\
  runs_to cfg16 (code16 (CIfSLt16 "ss" "st" "a" ".ifend1")) st st' /\
  sval (word (mem st) 140) = 32767 /\ sval (word (mem st) 142) = -1 /\
  ~ (sval (word (mem st) 140) < sval (word (mem st) 142)) /\
  mget (mem st) 128 = 0 /\ mget (mem st') 128 = 1.
Proof.
  destruct (ifslt16_char cfg16 "ss" "st" "a" ".ifend1" 140 142 128 (st16 0 0 32767 65535))
    as (st' & Hr & Hv & _); inst16.
  exists (st16 0 0 32767 65535), st'.
  split; [inst16|]. split; [exact Hr|].
  split; [vm_compute; reflexivity|]. split; [vm_compute; reflexivity|].
  split; [vm_compute; discriminate|]. split; [vm_compute; reflexivity|].
  rewrite Hv. vm_compute. reflexivity.
Qed.
Print Assumptions ifslt16_refuted_conv.

Theorem ifsge16_refuted : exists st st',
  bytes_ok st /\
  runs_to cfg16 (code16 (CIfSGe16 "ss" "st" "a" ".ifend1")) st st' /\
  sval (word (mem st) 140) = -32768 /\ sval (word (mem st) 142) = 1 /\
  ~ (sval (word (mem st) 142) <= sval (word (mem st) 140)) /\
  mget (mem st) 128 = 0 /\ mget (mem st') 128 = 1.
Proof.
  destruct (ifsge16_char cfg16 "ss" "st" "a" ".ifend1" 140 142 128 (st16 0 0 32768 1))
    as (st' & Hr & Hv & _); inst16.
  exists (st16 0 0 32768 1), st'.
  split; [inst16|]. split; [exact Hr|].
  split; [vm_compute; reflexivity|]. split; [vm_compute; reflexivity|].
  split; [vm_compute; intros H; apply H; reflexivity|]. split; [vm_compute; reflexivity|].
  rewrite Hv. vm_compute. reflexivity.
Qed.
Print Assumptions ifsge16_refuted.

(** the converse: ss = 32767, st = -1: [ss >= st] holds, [a] stays 0 *)
Theorem ifsge16_refuted_conv : exists st st',
  bytes_ok st /\
  runs_to cfg16 (code16 (CIfSGe16 "ss" "st" "a" ".ifend1")) st st' /\
  sval (word (mem st) 140) = 32767 /\ sval (word (mem st) 142) = -1 /\
  sval (word (mem st) 142) <= sval (word (mem st) 140) /\
  mget (mem st) 128 = 0 /\ mget (mem st') 128 = 0.
Proof.
  destruct (ifsge16_char cfg16 "ss" "st" "a" ".ifend1" 140 142 128 (st16 0 0 32767 65535))
    as (st' & Hr & Hv & _); inst16.
  exists (st16 0 0 32767 65535), st'.
  split; [inst16|]. split; [exact Hr|].
  split; [vm_compute; reflexivity|]. split; [vm_compute; reflexivity|].
  split; [vm_compute; discriminate|]. split; [vm_compute; reflexivity|].
  rewrite Hv. vm_compute. reflexivity.
Qed.
Print Assumptions ifsge16_refuted_conv.

(** ** the listing's instances of the new sequences: the hypotheses are satisfiable *)
Corollary listing16_06_correct : forall st, bytes_ok st ->
  exists st', runs_to cfg16 (code16 (CIf16 RLe "s" "t" "a" ".ifend1" ".ifstart1")) st st' /\
    mget (mem st') 128 = (if word (mem st) 134 <=? word (mem st) 136 then 1 else mget (mem st) 128) /\
    only_changes [128; 144] st st' /\ keeps_xys st st'.
Proof.
  intros st Hb.
  apply (if16_cc_correct RLe cfg16 "s" "t" "a" ".ifend1" ".ifstart1" 134 136 128 144 st);
    inst16; try exact Hb.
  intros _. split; discriminate.
Qed.
Print Assumptions listing16_06_correct.

Corollary listing16_11_correct : forall st, bytes_ok st ->
  exists st', runs_to cfg16 (code16 (CIf16K RLe "s" 1000 "a" ".ifend1" ".ifstart1")) st st' /\
    mget (mem st') 128 = (if word (mem st) 134 <=? 1000 then 1 else mget (mem st) 128) /\
    only_changes [128; 144] st st' /\ keeps_xys st st'.
Proof.
  intros st Hb.
  apply (if16k_cc_correct RLe cfg16 "s" 1000 "a" ".ifend1" ".ifstart1" 134 128 144 st);
    inst16; try exact Hb.
  intros _. split; discriminate.
Qed.
Print Assumptions listing16_11_correct.

Corollary listing16_17_iter : forall st, bytes_ok st ->
  exists st',
    iter_to cfg16 (code16 (CDoGt16 "s" "t" "a" ".dowhile1" ".ifstart0" ".dowhileend1")) ".dowhile1"
      st (word (mem st) 136 <? word (mem st) 134) st' /\
    mget (mem st') 128 = (mget (mem st) 128 + 1) mod 256 /\
    only_changes [128; 144] st st' /\ keeps_xys st st'.
Proof.
  intros st Hb.
  apply (dogt16_iter cfg16 "s" "t" "a" ".dowhile1" ".ifstart0" ".dowhileend1" 134 136 128 144 st);
    inst16; exact Hb.
Qed.
Print Assumptions listing16_17_iter.

(** ** plain computations with [Sem.run] (no lemma of this file involved) *)

(** the final value of [a] *)
Definition run16 (c : code) (st : mstate) : option Z :=
  match slines_of c with
  | Some sl =>
      match Sem.run cfg16 [] (fun _ _ => None) (fun _ _ => None) 40 "f" sl 0 [] st [] 0%N with
      | Halt s' _ _ => Some (mget (mem s') 128)
      | _ => None
      end
  | None => None
  end.

Example run_old_le_witness :
  run16 (code16_old (OIfLe16 "s" "t" "a" ".ifend1" ".ifhere2" ".ifstart2")) (st16 0 65281 0 0) = Some 0.
Proof. vm_compute. reflexivity. Qed.
Example run_new_le_witness :
  run16 (code16 (CIf16 RLe "s" "t" "a" ".ifend1" ".ifstart1")) (st16 0 65281 0 0) = Some 1.
Proof. vm_compute. reflexivity. Qed.
Example run_old_le_boundary :     (* t - s = 0xFF00: still correct *)
  run16 (code16_old (OIfLe16 "s" "t" "a" ".ifend1" ".ifhere2" ".ifstart2")) (st16 1 65281 0 0) = Some 1.
Proof. vm_compute. reflexivity. Qed.
Example run_slt_overflow :
  run16 (code16 (CIfSLt16 "ss" "st" "a" ".ifend1")) (st16 0 0 32768 1) = Some 0.
Proof. vm_compute. reflexivity. Qed.
Example run_slt_plain :           (* -2 < 1, no overflow *)
  run16 (code16 (CIfSLt16 "ss" "st" "a" ".ifend1")) (st16 0 0 65534 1) = Some 1.
Proof. vm_compute. reflexivity. Qed.
Example run_sge_overflow :
  run16 (code16 (CIfSGe16 "ss" "st" "a" ".ifend1")) (st16 0 0 32768 1) = Some 1.
Proof. vm_compute. reflexivity. Qed.

(** s = 0, t = 0xFF01: the old do-while never ends (2000 steps of fuel are used up), the new one
    stops after one iteration with [a] = 1 *)
Definition halts16 (fuel : nat) (c : code) (st : mstate) : option (option Z) :=
  match slines_of c with
  | Some sl =>
      match Sem.run cfg16 [] (fun _ _ => None) (fun _ _ => None) fuel "f" sl 0 [] st [] 0%N with
      | Halt s' _ _ => Some (Some (mget (mem s') 128))
      | OutOfFuel _ _ _ => Some None
      | Faulted _ _ _ _ => None
      end
  | None => None
  end.

Example run_old_dogt_diverges :
  halts16 2000 (code16_old (ODoGt16 "s" "t" "a" ".dowhile1" ".ifhere1" ".ifstart1" ".dowhileend1"))
    (st16 0 65281 0 0) = Some None.
Proof. vm_compute. reflexivity. Qed.
Example run_new_dogt_stops :
  halts16 2000 (code16 (CDoGt16 "s" "t" "a" ".dowhile1" ".ifstart0" ".dowhileend1"))
    (st16 0 65281 0 0) = Some (Some 1).
Proof. vm_compute. reflexivity. Qed.
Example run_new_dogt_counts :     (* s = 3 > t = 2: never ends either, rightly so *)
  halts16 2000 (code16 (CDoGt16 "s" "t" "a" ".dowhile1" ".ifstart0" ".dowhileend1"))
    (st16 3 2 0 0) = Some None.
Proof. vm_compute. reflexivity. Qed.
